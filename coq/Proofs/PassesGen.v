(* The second tie of the pass algorithms: every `_transform` of minimization/simplification/*.py, regenerated from
   the source statement by statement by translator T15 (Generated/PassesGen.v), equals the hand model
   Model/Passes.v that the C03 / C18 theorems are about. *)
Require Import Cirbo.Model.Base Cirbo.Model.Gate Cirbo.Model.Circuit Cirbo.Model.Passes.
Require Import Cirbo.Generated.PassesGen.
Require Import Cirbo.Proofs.PassesGenRR Cirbo.Proofs.PassesGenMU Cirbo.Proofs.PassesGenMD Cirbo.Proofs.PassesGenME.

(* the `_transform` of a leaf transformer, as regenerated *)
Definition gen_transform_leaf (t : transformer) (c : circuit) : res circuit :=
  match t with
  | TRR a => gen_RemoveRedundantGates_transform a c
  | TMU => gen_MergeUnaryOperators_transform c
  | TMD => gen_MergeDuplicateGates_transform c
  | TME => gen_MergeEquivalentGates_transform c
  | TComp _ => Err PyTypeError
  end.

Lemma gen_transform_leaf_eq t c : gen_transform_leaf t c = transform_leaf t c.
Proof.
  destruct t; simpl; [apply gen_rr_eq|apply gen_mu_eq|apply gen_md_eq|apply gen_me_eq|reflexivity].
Qed.

Theorem passes_regenerated :
  (forall allow c, gen_RemoveRedundantGates_transform allow c = remove_redundant_gates allow c) /\
  (forall c, gen_MergeUnaryOperators_transform c = merge_unary_operators c) /\
  (forall c, gen_MergeDuplicateGates_transform c = merge_duplicate_gates c) /\
  (forall c, gen_find_equivalent_gates_groups c = find_equivalent_groups c) /\
  (forall c groups, NoDup (concat groups) -> Forall (fun g => 1 < length g) groups ->
     gen_replace_equivalent_gates c groups = replace_equivalent_gates c groups) /\
  (forall c groups, find_equivalent_groups c = Ok groups ->
     NoDup (concat groups) /\ Forall (fun g => 1 < length g) groups) /\
  (forall c, gen_MergeEquivalentGates_transform c = merge_equivalent_gates c) /\
  (forall t c, gen_transform_leaf t c = transform_leaf t c).
Proof.
  repeat split.
  - apply gen_rr_eq.
  - apply gen_mu_eq.
  - apply gen_md_eq.
  - apply gen_find_groups_eq.
  - intros c groups H1 H2. apply gen_replace_eq. split; assumption.
  - exact (proj1 (find_groups_ok c groups H)).
  - exact (proj2 (find_groups_ok c groups H)).
  - apply gen_me_eq.
  - apply gen_transform_leaf_eq.
Qed.
