(* The second tie of the pass algorithms: every `_transform` of minimization/simplification/*.py, regenerated from
   the source statement by statement by translator T15 (Generated/PassesGen.v), equals the hand model
   Model/Passes.v that the C03 / C18 theorems are about. *)
Require Import Cirbo.Model.Base Cirbo.Model.Gate Cirbo.Model.Circuit Cirbo.Model.Passes.
Require Import Cirbo.Generated.PassesGen Cirbo.Generated.PipelineGen.
Require Import Cirbo.Proofs.PassesGenRR Cirbo.Proofs.PassesGenMU Cirbo.Proofs.PassesGenMD Cirbo.Proofs.PassesGenME
               Cirbo.Proofs.PipelineGen.

(* the `_transform` of a leaf transformer, as regenerated *)
Definition gen_transform_leaf (t : transformer) (c : circuit) : res circuit :=
  match t with
  | TRR a => gen_RemoveRedundantGates_transform a c
  | TMU => gen_MergeUnaryOperators_transform c
  | TMD => gen_MergeDuplicateGates_transform c
  | TME => gen_MergeEquivalentGates_transform c
  | TComp _ => Err PyTypeError
  end.

Lemma gen_transform_leaf_eq t c : gen_transform_leaf t c = transform_leaf t c.
Proof.
  destruct t; simpl; [apply gen_rr_eq|apply gen_mu_eq|apply gen_md_eq|apply gen_me_eq|reflexivity].
Qed.

Theorem passes_regenerated :
  (forall allow c, gen_RemoveRedundantGates_transform allow c = remove_redundant_gates allow c) /\
  (forall c, gen_MergeUnaryOperators_transform c = merge_unary_operators c) /\
  (forall c, gen_MergeDuplicateGates_transform c = merge_duplicate_gates c) /\
  (forall c, gen_find_equivalent_gates_groups c = find_equivalent_groups c) /\
  (forall c groups, NoDup (concat groups) -> Forall (fun g => 1 < length g) groups ->
     gen_replace_equivalent_gates c groups = replace_equivalent_gates c groups) /\
  (forall c groups, find_equivalent_groups c = Ok groups ->
     NoDup (concat groups) /\ Forall (fun g => 1 < length g) groups) /\
  (forall c, gen_MergeEquivalentGates_transform c = merge_equivalent_gates c) /\
  (forall t c, gen_transform_leaf t c = transform_leaf t c) /\
  (* the pipeline machinery: class tables, the reduction loop, cleanup *)
  (forall t, gen_is_idempotent t = is_leaf_idempotent t) /\
  (forall t, (forall ts, t <> TComp ts) ->
     as_distinct t = linearize (gen_pre_transformers t) ++ [t] ++ linearize (gen_post_transformers t)) /\
  (forall ts, gen_linearize_reduce_transformers ts = Ok (linearize_reduce ts)) /\
  (forall c heavy, gen_cleanup c heavy = cleanup c heavy).
Proof.
  split; [exact gen_rr_eq|]. split; [exact gen_mu_eq|]. split; [exact gen_md_eq|].
  split; [exact gen_find_groups_eq|].
  split; [intros c groups H1 H2; apply gen_replace_eq; split; assumption|].
  split; [intros c groups H; exact (find_groups_ok c groups H)|].
  split; [exact gen_me_eq|]. split; [exact gen_transform_leaf_eq|].
  exact pipeline_regenerated.
Qed.
