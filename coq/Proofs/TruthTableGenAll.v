(* The second tie of C12: every definition of cirbo/core/utils.py, input_iterator_with_fixed_sum and the
   classes TruthTable / TruthTableModel / PyFunction / PyFunctionModel that translator T11 regenerates from the source
   (Generated/TruthTableCore.v) equals the hand model Model/FuncProto.v, the object of the C12 theorems. *)
Require Import Cirbo.Model.Base Cirbo.Model.Eval Cirbo.Model.FuncProto.
Require Import Cirbo.Proofs.TruthTableGenPrim Cirbo.Proofs.TruthTableGenUtils Cirbo.Proofs.TruthTableGenIter
        Cirbo.Proofs.TruthTableGenTT Cirbo.Proofs.TruthTableGenTT2 Cirbo.Proofs.TruthTableGenModel
        Cirbo.Proofs.TruthTableGenPy.
Require Import Cirbo.Generated.TruthTableCore.

Definition truth_table_regenerated_statement : Prop :=
  (* cirbo/core/utils.py and cirbo/core/circuit/utils.py *)
  (forall x : bvec, gen_input_to_canonical_index x = Ok (Z.of_nat (index_of x))) /\
  (forall index size : nat,
     gen_canonical_index_to_input (Z.of_nat index) (Z.of_nat size) = Ok (canonical_index_to_input index size)) /\
  (forall value bit_idx bit_size : nat,
     gen_get_bit_value (Z.of_nat value) (Z.of_nat bit_idx) (Z.of_nat bit_size) = get_bit_value value bit_idx bit_size) /\
  (forall (n k : nat) (negs : option bvec),
     gen_input_iterator_with_fixed_sum (Z.of_nat n) (Z.of_nat k) negs = fixed_sum n k negs) /\
  (* class TruthTable: constructor (resolve_input_size, _parse_bool), then every method *)
  (forall (A : Type) (table : list (list A)),
     gen_resolve_input_size table = rmap Z.of_nat (resolve_input_size table)) /\
  (forall table : list bvec, gen_TruthTable___init__ table = do t <- tt_make table; Ok (gen_of_ttab t)) /\
  (forall t, gen_TruthTable_input_size (gen_of_ttab t) = Ok (Z.of_nat (r_n (tt_rep t)))) /\
  (forall t, gen_TruthTable_output_size (gen_of_ttab t) = Ok (Z.of_nat (r_m (tt_rep t)))) /\
  (forall t x, gen_TruthTable_evaluate (gen_of_ttab t) x = r_ev (tt_rep t) x) /\
  (forall t x (j : nat), gen_TruthTable_evaluate_at (gen_of_ttab t) x (Z.of_nat j) = r_ev_at (tt_rep t) x j) /\
  (forall t (j : nat), gen_TruthTable_is_constant_at (gen_of_ttab t) (Z.of_nat j) = tt_is_constant_at t j) /\
  (forall t, gen_TruthTable_is_constant (gen_of_ttab t) = tt_is_constant t) /\
  (forall t (j : nat) inverse,
     gen_TruthTable_is_monotone_at (gen_of_ttab t) (Z.of_nat j) inverse = tt_is_monotone_at t j inverse) /\
  (forall t inverse, gen_TruthTable_is_monotone (gen_of_ttab t) inverse = tt_is_monotone t inverse) /\
  (forall t, gen_TruthTable_is_symmetric (gen_of_ttab t) = g_is_symmetric (tt_rep t)) /\
  (forall t (j : nat), gen_TruthTable_is_symmetric_at (gen_of_ttab t) (Z.of_nat j) = g_is_symmetric_at (tt_rep t) j) /\
  (forall t (j i : nat),
     gen_TruthTable_is_dependent_on_input_at (gen_of_ttab t) (Z.of_nat j) (Z.of_nat i) = g_is_dependent (tt_rep t) j i) /\
  (forall t (j i : nat),
     gen_TruthTable_is_output_equal_to_input (gen_of_ttab t) (Z.of_nat j) (Z.of_nat i) = tt_equal_to_input false t j i) /\
  (forall t (j i : nat),
     gen_TruthTable_is_output_equal_to_input_negation (gen_of_ttab t) (Z.of_nat j) (Z.of_nat i)
     = tt_equal_to_input true t j i) /\
  (forall t (j : nat),
     gen_TruthTable_get_significant_inputs_of (gen_of_ttab t) (Z.of_nat j)
     = rmap (map Z.of_nat) (g_significant (tt_rep t) j)) /\
  (forall t (outs : list nat),
     gen_TruthTable_find_negations_to_make_symmetric (gen_of_ttab t) (map Z.of_nat outs)
     = g_find_negations (tt_rep t) outs) /\
  (forall t, gen_TruthTable_get_truth_table (gen_of_ttab t) = Ok (tt_table t)) /\
  (* class TruthTableModel *)
  (forall table : list (list tri), gen_TruthTableModel___init__ table = do t <- tm_make table; Ok (gen_of_tm t)) /\
  (forall t, gen_TruthTableModel_input_size (gen_of_tm t) = Ok (Z.of_nat (tm_n t))) /\
  (forall t, gen_TruthTableModel_output_size (gen_of_tm t) = Ok (Z.of_nat (length (tm_table t)))) /\
  (forall t x, gen_TruthTableModel_check (gen_of_tm t) x = tm_check t x) /\
  (forall t x (j : nat), gen_TruthTableModel_check_at (gen_of_tm t) x (Z.of_nat j) = tm_check_at t x j) /\
  (forall t, gen_TruthTableModel_get_model_truth_table (gen_of_tm t) = Ok (tm_table t)) /\
  (forall t d n, resolve_input_size (tm_table t) = Ok n ->
     gen_TruthTableModel_define (gen_of_tm t) (map zitem d) = rmap gen_of_ttab (tm_define t d)) /\
  (* class PyFunction (the callable is a Gallina function): constructor and protocol methods *)
  (forall func (n : nat) (out : option nat),
     gen_PyFunction___init__ func (Z.of_nat n) (option_map Z.of_nat out) = rmap gen_of_py (py_make func n out)) /\
  (forall p, gen_PyFunction_input_size (gen_of_py p) = Ok (Z.of_nat (r_n (py_rep p)))) /\
  (forall p, gen_PyFunction_output_size (gen_of_py p) = Ok (Z.of_nat (r_m (py_rep p)))) /\
  (forall p x, gen_PyFunction_evaluate (gen_of_py p) x = r_ev (py_rep p) x) /\
  (forall p x (j : nat), gen_PyFunction_evaluate_at (gen_of_py p) x (Z.of_nat j) = r_ev_at (py_rep p) x j) /\
  (forall p, gen_PyFunction_is_constant (gen_of_py p) = g_is_constant (py_rep p)) /\
  (forall p (j : nat), gen_PyFunction_is_constant_at (gen_of_py p) (Z.of_nat j) = g_is_constant_at (py_rep p) j) /\
  (forall p inverse, gen_PyFunction_is_monotone (gen_of_py p) inverse = py_is_monotone p inverse) /\
  (forall p (j : nat) inverse,
     gen_PyFunction_is_monotone_at (gen_of_py p) (Z.of_nat j) inverse = py_is_monotone_at p j inverse) /\
  (forall p, gen_PyFunction_is_symmetric (gen_of_py p) = g_is_symmetric (py_rep p)) /\
  (forall p (j : nat), gen_PyFunction_is_symmetric_at (gen_of_py p) (Z.of_nat j) = g_is_symmetric_at (py_rep p) j) /\
  (forall p (j i : nat),
     gen_PyFunction_is_dependent_on_input_at (gen_of_py p) (Z.of_nat j) (Z.of_nat i) = g_is_dependent (py_rep p) j i) /\
  (forall p (j i : nat),
     gen_PyFunction_is_output_equal_to_input (gen_of_py p) (Z.of_nat j) (Z.of_nat i)
     = g_equal_to_input false (py_rep p) j i) /\
  (forall p (j i : nat),
     gen_PyFunction_is_output_equal_to_input_negation (gen_of_py p) (Z.of_nat j) (Z.of_nat i)
     = g_equal_to_input true (py_rep p) j i) /\
  (forall p (j : nat),
     gen_PyFunction_get_significant_inputs_of (gen_of_py p) (Z.of_nat j)
     = rmap (map Z.of_nat) (g_significant (py_rep p) j)) /\
  (forall p (outs : list nat),
     gen_PyFunction_find_negations_to_make_symmetric (gen_of_py p) (map Z.of_nat outs)
     = g_find_negations (py_rep p) outs) /\
  (forall p, gen_PyFunction_get_truth_table (gen_of_py p) = g_truth_table (py_rep p)) /\
  (* class PyFunctionModel *)
  (forall func (n : nat) (out : option nat),
     gen_PyFunctionModel___init__ func (Z.of_nat n) (option_map Z.of_nat out)
     = match out with
       | Some m => Ok (gen_of_pm (mkPM n m func))
       | None => do r <- func (repeat false n); Ok (gen_of_pm (mkPM n (length r) func))
       end) /\
  (forall p, gen_PyFunctionModel_input_size (gen_of_pm p) = Ok (Z.of_nat (pm_n p))) /\
  (forall p, gen_PyFunctionModel_output_size (gen_of_pm p) = Ok (Z.of_nat (pm_m p))) /\
  (forall p x, gen_PyFunctionModel_check (gen_of_pm p) x = pm_check p x) /\
  (forall p x (j : nat), gen_PyFunctionModel_check_at (gen_of_pm p) x (Z.of_nat j) = pm_check_at p x j) /\
  (forall p, gen_PyFunctionModel_get_model_truth_table (gen_of_pm p) = pm_model_truth_table p).

Theorem truth_table_regenerated : truth_table_regenerated_statement.
Proof.
  unfold truth_table_regenerated_statement.
  repeat match goal with |- _ /\ _ => split end.
  - exact gen_input_to_canonical_index_eq.
  - exact gen_canonical_index_to_input_eq.
  - exact gen_get_bit_value_eq.
  - exact gen_input_iterator_with_fixed_sum_eq.
  - exact (@gen_resolve_input_size_eq).
  - exact gen_TruthTable_init_eq.
  - exact gen_TruthTable_input_size_eq.
  - exact gen_TruthTable_output_size_eq.
  - exact gen_TruthTable_evaluate_eq.
  - exact gen_TruthTable_evaluate_at_eq.
  - exact gen_TruthTable_is_constant_at_eq.
  - exact gen_TruthTable_is_constant_eq.
  - exact gen_TruthTable_is_monotone_at_eq.
  - exact gen_TruthTable_is_monotone_eq.
  - exact gen_TruthTable_is_symmetric_eq.
  - exact gen_TruthTable_is_symmetric_at_eq.
  - exact gen_TruthTable_is_dependent_on_input_at_eq.
  - exact gen_TruthTable_is_output_equal_to_input_eq.
  - exact gen_TruthTable_is_output_equal_to_input_negation_eq.
  - exact gen_TruthTable_get_significant_inputs_of_eq.
  - exact gen_TruthTable_find_negations_to_make_symmetric_eq.
  - exact gen_TruthTable_get_truth_table_eq.
  - exact gen_TruthTableModel_init_eq.
  - exact gen_TruthTableModel_input_size_eq.
  - exact gen_TruthTableModel_output_size_eq.
  - exact gen_TruthTableModel_check_eq.
  - exact gen_TruthTableModel_check_at_eq.
  - exact gen_TruthTableModel_get_model_truth_table_eq.
  - exact gen_TruthTableModel_define_eq.
  - exact gen_PyFunction_init_eq.
  - exact gen_PyFunction_input_size_eq.
  - exact gen_PyFunction_output_size_eq.
  - exact gen_PyFunction_evaluate_eq.
  - exact gen_PyFunction_evaluate_at_eq.
  - exact gen_PyFunction_is_constant_eq.
  - exact gen_PyFunction_is_constant_at_eq.
  - exact gen_PyFunction_is_monotone_eq.
  - exact gen_PyFunction_is_monotone_at_eq.
  - exact gen_PyFunction_is_symmetric_eq.
  - exact gen_PyFunction_is_symmetric_at_eq.
  - exact gen_PyFunction_is_dependent_on_input_at_eq.
  - exact gen_PyFunction_is_output_equal_to_input_eq.
  - exact gen_PyFunction_is_output_equal_to_input_negation_eq.
  - exact gen_PyFunction_get_significant_inputs_of_eq.
  - exact gen_PyFunction_find_negations_to_make_symmetric_eq.
  - exact gen_PyFunction_get_truth_table_eq.
  - exact gen_PyFunctionModel_init_eq.
  - exact gen_PyFunctionModel_input_size_eq.
  - exact gen_PyFunctionModel_output_size_eq.
  - exact gen_PyFunctionModel_check_eq.
  - exact gen_PyFunctionModel_check_at_eq.
  - exact gen_PyFunctionModel_get_model_truth_table_eq.
Qed.
