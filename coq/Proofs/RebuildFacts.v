(* C18: facts about rebuilding a circuit by emplacing gates in a given order (the common skeleton
   of the four simplification passes), and about add_inputs / set_inputs / set_outputs on the
   rebuilt circuit. *)
Require Import Cirbo.Model.Base Cirbo.Model.Gate Cirbo.Model.Circuit Cirbo.Model.Traverse Cirbo.Model.WF.
Require Import Cirbo.Model.Passes.
Require Import Cirbo.Generated.GateTypes.
Require Import Cirbo.Proofs.DictFacts Cirbo.Proofs.WFBase Cirbo.Proofs.WFSimple Cirbo.Proofs.WFEmplace
               Cirbo.Proofs.TopSort Cirbo.Proofs.TopSortWF Cirbo.Proofs.TraverseStep Cirbo.Proofs.TraverseDet.

Lemma gate_eta g : mkGate (gtyp g) (gops g) = g.
Proof. destruct g; reflexivity. Qed.

Lemma dset_new {V} (d : dict V) k v : dmem d k = false -> dset d k v = d ++ [(k, v)].
Proof.
  unfold dmem. induction d as [|[k' v'] d IH]; simpl; [reflexivity|].
  destruct (leqb k k'); [discriminate|]. intros H. rewrite IH by exact H. reflexivity.
Qed.

Lemma dget_map_keys {V} (f : label -> V) ks l : In l ks -> dget (map (fun k => (k, f k)) ks) l = Some (f l).
Proof.
  induction ks as [|k ks IH]; simpl; [tauto|]. destruct (leqb_spec l k) as [->|Hne]; [reflexivity|].
  intros [H|H]; [congruence|auto].
Qed.

Lemma dget_map_keys_none {V} (f : label -> V) ks l : ~ In l ks -> dget (map (fun k => (k, f k)) ks) l = None.
Proof.
  intros H. apply dget_None_keys. unfold dkeys. rewrite map_map. simpl. rewrite map_id. exact H.
Qed.

Lemma dkeys_map_keys {V} (f : label -> V) ks : dkeys (map (fun k => (k, f k)) ks) = ks.
Proof. unfold dkeys. rewrite map_map. simpl. apply map_id. Qed.

(* ---------------- generic: a fold whose invariant mentions the processed prefix ---------------- *)
Lemma foldM_prefix_inv {A S} (f : S -> A -> res S) (I : list A -> S -> Prop) (order : list A) :
  (forall P x rest s s', order = P ++ x :: rest -> I P s -> f s x = Ok s' -> I (P ++ [x]) s') ->
  forall rest P s s', order = P ++ rest -> I P s -> foldM f rest s = Ok s' -> I order s'.
Proof.
  intros Hstep. induction rest as [|x rest IH]; intros P s s' E HI H; simpl in H.
  - injection H as <-. rewrite app_nil_r in E. subst. exact HI.
  - binv H s1 Hs1. apply (IH (P ++ [x]) s1 s'); [rewrite <- app_assoc; exact E| |exact H].
    eapply Hstep; eassumption.
Qed.

(* the gate of c at l (dummy when absent) *)
Definition gate_at (c : circuit) (l : label) : gate :=
  match dget (gates c) l with Some g => g | None => mkGate INPUT [] end.

Lemma gate_at_get c l g : dget (gates c) l = Some g -> gate_at c l = g.
Proof. unfold gate_at; intros ->; reflexivity. Qed.

Lemma gate_at_ops c l : gops (gate_at c l) = ops_of c l.
Proof. unfold gate_at, ops_of. destruct (dget (gates c) l); reflexivity. Qed.

(* ---------------- emplacing the gates of c in a given order ---------------- *)
Definition rr_step (c n : circuit) (l : label) : res circuit :=
  do g <- get_gate c l; emplace_gate n l (gtyp g) (gops g).

Definition is_input_at (c : circuit) (l : label) : bool := gtype_beq (gtyp (gate_at c l)) INPUT.

Lemma rr_step_inv c n l n' : rr_step c n l = Ok n' ->
  exists g, dget (gates c) l = Some g /\ has_gate n l = false /\
            (forall o, In o (gops g) -> has_gate n o = true) /\
            n' = emplace_gate_raw n l (gtyp g) (gops g).
Proof.
  unfold rr_step. intros H. binv H g Hg. apply get_gate_ok in Hg.
  apply emplace_gate_inv in H. destruct H as (H1 & H2 & H3). exists g. auto.
Qed.

Lemma rr_fold_inv c order : forall n n1, foldM (rr_step c) order n = Ok n1 ->
  NoDup order /\
  (forall l, In l order -> has_gate n l = false /\ exists g, dget (gates c) l = Some g) /\
  gates n1 = gates n ++ map (fun l => (l, gate_at c l)) order /\
  (forall pre a post, order = pre ++ a :: post ->
     forall b, In b (ops_of c a) -> has_gate n b = true \/ In b pre) /\
  outputs n1 = outputs n /\ blocks n1 = blocks n /\
  inputs n1 = inputs n ++ filter (is_input_at c) order.
Proof.
  induction order as [|l order IH]; intros n n1 H; simpl in H.
  - injection H as <-. simpl. rewrite !app_nil_r.
    split; [constructor|]. split; [intros l []|]. split; [reflexivity|].
    split; [intros pre a post E; destruct pre; discriminate|]. auto.
  - binv H n' Hn'. apply rr_step_inv in Hn'. destruct Hn' as (g & Hg & Hl & Hops & ->).
    destruct (IH _ _ H) as (Hnd & Hall & Hgates & Hpre & Hout & Hblk & Hin).
    assert (Hnl : ~ In l order).
    { intros Hi. destruct (Hall l Hi) as [Hf _]. rewrite emplace_raw_has_gate, leqb_refl in Hf. discriminate. }
    split; [constructor; assumption|]. split; [|split; [|split; [|split; [|split]]]].
    + intros x [<-|Hx]; [split; [exact Hl|eauto]|].
      destruct (Hall x Hx) as [Hf Hg']. split; [|exact Hg'].
      rewrite emplace_raw_has_gate in Hf. apply orb_false_iff in Hf. tauto.
    + rewrite Hgates, emplace_raw_gates, dset_new by exact Hl. rewrite <- app_assoc. simpl.
      rewrite (gate_at_get c l g Hg), gate_eta. reflexivity.
    + intros pre a post E b Hb. destruct pre as [|p pre]; simpl in E; injection E as <- E.
      * left. apply Hops. rewrite (ops_of_get c _ g Hg) in Hb. exact Hb.
      * destruct (Hpre pre a post E b Hb) as [H1|H1]; [|right; right; exact H1].
        rewrite emplace_raw_has_gate in H1. apply orb_true_iff in H1. destruct H1 as [H1|H1]; [|left; exact H1].
        apply leqb_eq in H1. subst b. right; left; reflexivity.
    + rewrite Hout. apply emplace_raw_outputs.
    + rewrite Hblk. apply emplace_raw_blocks.
    + rewrite Hin, emplace_raw_inputs. simpl. unfold is_input_at at 2. rewrite (gate_at_get c l g Hg).
      destruct (gtype_beq (gtyp g) INPUT); [rewrite <- app_assoc|]; reflexivity.
Qed.

Lemma rr_fold_total c order : forall n,
  NoDup order -> (forall l, In l order -> has_gate n l = false /\ key c l) ->
  (forall pre a post, order = pre ++ a :: post ->
     forall b, In b (ops_of c a) -> has_gate n b = true \/ In b pre) ->
  exists n1, foldM (rr_step c) order n = Ok n1.
Proof.
  induction order as [|l order IH]; intros n Hnd Hall Hpre; simpl; [eauto|].
  inversion Hnd as [|? ? Hnl Hnd']; subst.
  destruct (Hall l (or_introl eq_refl)) as [Hl Hk]. destruct (get_gate_key c l Hk) as (g & Hgg & Hg).
  unfold rr_step at 1. rewrite Hgg. simpl. unfold emplace_gate, check_label_doesnt_exist. rewrite Hl. simpl.
  assert (Hops : forall o, In o (gops g) -> has_gate n o = true).
  { intros o Ho. destruct (Hpre [] l order eq_refl o) as [H|[]]; [|exact H]. rewrite (ops_of_get c l g Hg). exact Ho. }
  rewrite (proj2 (check_gates_exist_ok (gops g) n) Hops). simpl.
  apply IH; [exact Hnd'| |].
  - intros x Hx. destruct (Hall x (or_intror Hx)) as [H1 H2]. split; [|exact H2].
    rewrite emplace_raw_has_gate, H1, orb_false_r. apply leqb_neq. intros ->. contradiction.
  - intros pre a post E b Hb. destruct (Hpre (l :: pre) a post) with (b := b) as [H|[H|H]]; [rewrite E; reflexivity|exact Hb| | |].
    + left. rewrite emplace_raw_has_gate, H. apply orb_true_r.
    + left. subst b. rewrite emplace_raw_has_gate, leqb_refl. reflexivity.
    + right; exact H.
Qed.

Lemma rr_fold_ext c c' order : (forall l, In l order -> get_gate c l = get_gate c' l) ->
  forall n, foldM (rr_step c) order n = foldM (rr_step c') order n.
Proof.
  induction order as [|l order IH]; intros H n; simpl; [reflexivity|].
  unfold rr_step at 1 3. rewrite (H l (or_introl eq_refl)).
  destruct (get_gate c' l) as [g|e]; simpl; [|reflexivity].
  destruct (emplace_gate n l (gtyp g) (gops g)); simpl; [|reflexivity].
  apply IH. intros x Hx; apply H; right; exact Hx.
Qed.

Lemma rr_fold_wf c order n n1 : WF n -> foldM (rr_step c) order n = Ok n1 -> WF n1.
Proof.
  intros W H. revert W H. apply (foldM_ok_inv (rr_step c) WF).
  intros s x s' _ Ws Hs. unfold rr_step in Hs. binv Hs g Hg. eapply emplace_gate_wf; eassumption.
Qed.

(* ---------------- add_inputs ---------------- *)
Lemma add_inputs_inv ls : forall n n', add_inputs n ls = Ok n' ->
  NoDup ls /\ (forall l, In l ls -> has_gate n l = false) /\
  gates n' = gates n ++ map (fun l => (l, mkGate INPUT [])) ls /\
  inputs n' = inputs n ++ ls /\ outputs n' = outputs n /\ blocks n' = blocks n.
Proof.
  induction ls as [|l ls IH]; intros n n' H; simpl in H.
  - injection H as <-. simpl. rewrite !app_nil_r.
    split; [constructor|]. split; [intros l []|]. auto.
  - binv H u Hu. binv H n1 Hn1. apply emplace_gate_inv in Hn1. destruct Hn1 as (Hl & _ & ->).
    destruct (IH _ _ H) as (Hnd & Hall & Hg & Hi & Ho & Hb).
    assert (Hnl : ~ In l ls).
    { intros Hin. apply Hall in Hin. rewrite emplace_raw_has_gate, leqb_refl in Hin. discriminate. }
    split; [constructor; assumption|]. split; [|split; [|split; [|split]]].
    + intros x [<-|Hx]; [exact Hl|]. apply Hall in Hx. rewrite emplace_raw_has_gate in Hx.
      apply orb_false_iff in Hx. tauto.
    + rewrite Hg, emplace_raw_gates, dset_new by exact Hl. rewrite <- app_assoc. reflexivity.
    + rewrite Hi, emplace_raw_inputs. simpl. rewrite <- app_assoc. reflexivity.
    + rewrite Ho. apply emplace_raw_outputs.
    + rewrite Hb. apply emplace_raw_blocks.
Qed.

Lemma add_inputs_total ls : forall n, NoDup ls -> (forall l, In l ls -> has_gate n l = false) ->
  exists n', add_inputs n ls = Ok n'.
Proof.
  induction ls as [|l ls IH]; intros n Hnd Hall; simpl; [eauto|].
  inversion Hnd as [|? ? Hnl Hnd']; subst.
  unfold emplace_gate, check_label_doesnt_exist. rewrite (Hall l (or_introl eq_refl)). simpl.
  apply IH; [exact Hnd'|]. intros x Hx. rewrite emplace_raw_has_gate, (Hall x (or_intror Hx)), orb_false_r.
  apply leqb_neq. intros ->. contradiction.
Qed.

(* ---------------- set_inputs / set_outputs ---------------- *)
Lemma set_inputs_inv n ins n' : set_inputs n ins = Ok n' -> n' = set_inputs_raw n ins.
Proof.
  unfold set_inputs. intros H. binv H u Hu. destruct (forallb _ (gates n)); [|discriminate].
  binv H acc Hacc. injection H as <-. apply set_inputs_loop_spec in Hacc; [|constructor].
  destruct Hacc as (-> & _). reflexivity.
Qed.

Lemma set_outputs_inv n outs n' : set_outputs n outs = Ok n' ->
  n' = set_outputs_raw n outs /\ forall o, In o outs -> has_gate n o = true.
Proof.
  unfold set_outputs. intros H. binv H u Hu. injection H as <-.
  split; [reflexivity|]. eapply check_gates_exist_unit; eassumption.
Qed.

Lemma set_inputs_loop_total n ins : forall acc,
  (forall i, In i ins -> exists g, dget (gates n) i = Some g /\ gtyp g = INPUT) ->
  NoDup (acc ++ ins) -> exists r, set_inputs_loop n ins acc = Ok r.
Proof.
  induction ins as [|i ins IH]; intros acc Hall Hnd; simpl; [eauto|].
  destruct (Hall i (or_introl eq_refl)) as (g & Hg & Ht). unfold get_gate. rewrite Hg. simpl.
  rewrite Ht. simpl.
  assert (Hni : ~ In i acc).
  { intros Hi. eapply NoDup_app_disj; [exact Hnd|exact Hi|left; reflexivity]. }
  apply memb_nIn in Hni. rewrite Hni. apply IH; [intros j Hj; apply Hall; right; exact Hj|].
  rewrite <- app_assoc. exact Hnd.
Qed.

Lemma set_inputs_total n ins : WF n -> NoDup ins ->
  (forall i, In i ins <-> In i (inputs n)) -> exists n', set_inputs n ins = Ok n'.
Proof.
  intros W Hnd Hiff. unfold set_inputs.
  assert (Hex : forall o, In o ins -> has_gate n o = true).
  { intros o Ho. apply Hiff, (wf_inputs n W) in Ho. destruct Ho as (g & Hg & _). eapply get_has_gate; eassumption. }
  rewrite (proj2 (check_gates_exist_ok ins n) Hex). simpl.
  assert (Hf : forallb (fun kg => negb (gtype_beq (gtyp (snd kg)) INPUT) || memb (fst kg) ins) (gates n) = true).
  { apply forallb_forall. intros [k g] Hkg. simpl.
    destruct (gtype_beq (gtyp g) INPUT) eqn:Et; [simpl|reflexivity].
    apply memb_In, Hiff, (wf_inputs n W). exists g. split; [|apply gtype_beq_eq; exact Et].
    apply dget_of_In; [apply (wf_gkeys n W)|exact Hkg]. }
  rewrite Hf.
  destruct (set_inputs_loop_total n ins []) as [r Hr]; [|exact Hnd|rewrite Hr; simpl; eauto].
  intros i Hi. apply (wf_inputs n W), Hiff; exact Hi.
Qed.
