(* C12: every executable query of the three classes decides its specification
   (constant, monotone, equal to an input / its negation, dependence, significant inputs,
   evaluation, truth table). *)
From Coq Require Import Permutation Sorted.
Require Import Cirbo.Model.Base Cirbo.Model.Gate Cirbo.Model.Circuit Cirbo.Model.Eval
        Cirbo.Model.FuncProto Cirbo.Proofs.FuncProtoEnum Cirbo.Proofs.FuncProtoLoops.

(* a representation computes f (arities n m) *)
Definition rep_computes (r : frep) (f : bvec -> bvec) (n m : nat) : Prop :=
  r_n r = n /\ r_m r = m /\
  (forall x, length x = n -> r_ev r x = Ok (f x)) /\
  (forall x j, length x = n -> j < m -> r_ev_at r x j = Ok (out f j x)).

(* the truth table of f: row j = output j over the canonical enumeration *)
Definition tt_of (f : bvec -> bvec) (n m : nat) : list bvec :=
  map (fun j => map (out f j) (all_bool_vectors n)) (seq 0 m).

Definition circuit_computes (c : circuit) (f : bvec -> bvec) (n m : nat) : Prop :=
  length (inputs c) = n /\ length (outputs c) = m /\
  (forall x, length x = n -> evaluate c (map inj x) = Ok (map inj (f x))) /\
  (forall x j, length x = n -> j < m -> evaluate_at c (map inj x) j = Ok (inj (out f j x))).

Definition py_computes (p : pyfun) (f : bvec -> bvec) (n m : nat) : Prop :=
  py_n p = n /\ py_m p = m /\ forall x, length x = n -> py_func p x = Ok (f x).

Definition tt_represents (t : ttab) (f : bvec -> bvec) (n m : nat) : Prop :=
  1 <= m /\ tt_make (tt_of f n m) = Ok t.

(* ------------------------------------------------------------------ *)
(* small facts *)

Lemma out_ext f m x y : length (f x) = m -> length (f y) = m ->
  (f x = f y <-> forall j, j < m -> out f j x = out f j y).
Proof.
  intros Hx Hy. split; [intros E j _; unfold out; rewrite E; reflexivity|].
  intros H. apply (nth_ext_eq false); [lia|]. intros i Hi. apply H. lia.
Qed.

Lemma nth_map_abv (g : bvec -> bool) n x :
  length x = n -> nth (index_of x) (map g (all_bool_vectors n)) false = g x.
Proof.
  intros Hl. apply nth_error_nth. apply map_nth_error. apply abv_nth_index; exact Hl.
Qed.

Lemma nth_map_seq {A} (h : nat -> A) (d : A) m j : j < m -> nth j (map h (seq 0 m)) d = h j.
Proof.
  intros Hj. rewrite (nth_indep _ d (h 0)) by (rewrite map_length, seq_length; exact Hj).
  rewrite map_nth, seq_nth by exact Hj. reflexivity.
Qed.

Lemma mapM_st_bool v : mapM st_bool (map inj v) = Ok v.
Proof. induction v as [|b v IH]; simpl; [reflexivity|]. destruct b; simpl; rewrite IH; reflexivity. Qed.

Lemma st_at_repeat p m j : j < m -> st_at (repeat p m) j = p.
Proof.
  intros Hj. unfold st_at. apply (repeat_spec m p). apply nth_In. rewrite repeat_length; exact Hj.
Qed.

(* ------------------------------------------------------------------ *)
(* the three classes compute f *)

Lemma circ_rep_computes c f n m : circuit_computes c f n m -> rep_computes (circ_rep c) f n m.
Proof.
  intros (Hn & Hm & Hev & Hat). repeat split; simpl; try assumption.
  - intros x Hx. rewrite (Hev x Hx). simpl. apply mapM_st_bool.
  - intros x j Hx Hj. rewrite (Hat x j Hx Hj). simpl. destruct (out f j x); reflexivity.
Qed.

Lemma py_rep_computes p f n m : arity_ok f n m -> py_computes p f n m -> rep_computes (py_rep p) f n m.
Proof.
  intros Har (Hn & Hm & Hf). repeat split; simpl; try assumption.
  intros x j Hx Hj. rewrite (Hf x Hx). simpl. apply nth_res_ok. rewrite (Har x Hx); exact Hj.
Qed.

Lemma tt_of_resolve f n m : 1 <= m -> resolve_input_size (tt_of f n m) = Ok n.
Proof.
  intros Hm. unfold tt_of. destruct m as [|m]; [lia|]. simpl seq. simpl map. unfold resolve_input_size.
  rewrite map_length, abv_count.
  assert (H2 : 2 ^ n <> 0) by (apply Nat.pow_nonzero; lia).
  apply Nat.eqb_neq in H2. rewrite H2. rewrite Nat.log2_pow2 by lia. rewrite Nat.eqb_refl. reflexivity.
Qed.

Lemma tt_of_make f n m : 1 <= m ->
  tt_make (tt_of f n m) =
  Ok (mkTT n (tt_of f n m) (map (fun x => map (fun j => out f j x) (seq 0 m)) (all_bool_vectors n))).
Proof.
  intros Hm. unfold tt_make. rewrite tt_of_resolve by exact Hm. simpl. f_equal. f_equal.
  unfold tt_of. apply (transpose_matrix (fun j x => out f j x)). destruct m; [lia|discriminate].
Qed.

Lemma tt_rep_computes t f n m : arity_ok f n m -> tt_represents t f n m -> rep_computes (tt_rep t) f n m.
Proof.
  intros Har [Hm Hmk]. rewrite tt_of_make in Hmk by exact Hm. injection Hmk as <-.
  assert (Hrow : forall x, length x = n ->
            nth_res (map (fun x => map (fun j => out f j x) (seq 0 m)) (all_bool_vectors n)) (index_of x)
            = Ok (f x)).
  { intros x Hx. unfold nth_res. rewrite (map_nth_error _ _ _ (abv_nth_index n x Hx)).
    f_equal. rewrite <- (Har x Hx). apply map_nth_seq. }
  repeat split; simpl.
  - unfold tt_of. rewrite map_length, seq_length. reflexivity.
  - exact Hrow.
  - intros x j Hx Hj. rewrite (Hrow x Hx). simpl. apply nth_res_ok. rewrite (Har x Hx); exact Hj.
Qed.

(* ------------------------------------------------------------------ *)
(* specifications in terms of the enumeration *)

Lemma monotone_at_sorted f n j inv :
  monotone_at f n j inv <-> StronglySorted (ble inv) (map (out f j) (all_bool_vectors n)).
Proof.
  rewrite (sorted_nth _ false). rewrite map_length, abv_count. split.
  - intros H a b Hab Hb.
    destruct (abv_nth n a ltac:(lia)) as (x & Hx & Hlx & Hix).
    destruct (abv_nth n b Hb) as (y & Hy & Hly & Hiy).
    rewrite <- Hix at 1. rewrite <- Hiy at 1. rewrite !nth_map_abv by assumption.
    apply H; try assumption. lia.
  - intros H x y Hx Hy Hle.
    destruct (Nat.eq_dec (index_of x) (index_of y)) as [E|Hne].
    + assert (x = y) by (apply index_of_inj; [lia|exact E]). subst. apply ble_refl.
    + rewrite <- (nth_map_abv (out f j) n x Hx), <- (nth_map_abv (out f j) n y Hy).
      apply H; [lia|]. rewrite <- Hy. apply index_of_lt.
Qed.

Fixpoint remove_at {A} (i : nat) (l : list A) : list A :=
  match i, l with
  | _, [] => []
  | O, _ :: r => r
  | S i', a :: r => a :: remove_at i' r
  end.

Lemma insert_remove (x : bvec) : forall i, i < length x ->
  insert_at i (nth i x false) (remove_at i x) = x.
Proof.
  induction x as [|a x IH]; intros [|i] Hi; simpl in *; try lia; [reflexivity|].
  rewrite IH by lia. reflexivity.
Qed.

Lemma remove_at_length (x : bvec) : forall i, i < length x -> length (remove_at i x) = length x - 1.
Proof.
  induction x as [|a x IH]; intros [|i] Hi; simpl in *; try lia. rewrite IH by lia. lia.
Qed.

Lemma remove_at_agree : forall (x y : bvec) i, length x = length y ->
  (forall k, k <> i -> nth k x false = nth k y false) -> remove_at i x = remove_at i y.
Proof.
  induction x as [|a x IH]; intros [|b y] i Hl H; simpl in Hl; try discriminate; [destruct i; reflexivity|].
  destruct i as [|i]; simpl.
  - apply (nth_ext_eq false); [lia|]. intros k Hk. apply (H (S k)). lia.
  - f_equal; [apply (H 0); lia|]. apply IH; [lia|]. intros k Hk. apply (H (S k)). lia.
Qed.

Lemma nth_insert_other : forall (x : bvec) i a b k, k <> i -> i <= length x ->
  nth k (insert_at i a x) false = nth k (insert_at i b x) false.
Proof.
  induction x as [|c x IH]; intros [|i] a b [|k] Hk Hi; simpl in *; try lia; try reflexivity.
  apply IH; lia.
Qed.

Lemma nth_insert_same : forall (x : bvec) i a, i <= length x -> nth i (insert_at i a x) false = a.
Proof. induction x as [|c x IH]; intros [|i] a Hi; simpl in *; try lia; try reflexivity. apply IH; lia. Qed.

Lemma insert_at_length : forall (x : bvec) i a, i <= length x -> length (insert_at i a x) = S (length x).
Proof. induction x as [|c x IH]; intros [|i] a Hi; simpl in *; try lia. rewrite IH; lia. Qed.

Lemma negate_insert : forall (x : bvec) i, i <= length x ->
  negate_at i (insert_at i false x) = Ok (insert_at i true x).
Proof.
  induction x as [|a x IH]; intros [|i] Hi; simpl in *; try lia; try reflexivity.
  rewrite IH by lia. reflexivity.
Qed.

Section Generic.
  Variables (r : frep) (f : bvec -> bvec) (n m : nat).
  Hypothesis Hrep : rep_computes r f n m.
  Hypothesis Har : arity_ok f n m.

  Let Hn : r_n r = n := proj1 Hrep.
  Let Hm : r_m r = m := proj1 (proj2 Hrep).
  Let Hev : forall x, length x = n -> r_ev r x = Ok (f x) := proj1 (proj2 (proj2 Hrep)).
  Let Hat : forall x j, length x = n -> j < m -> r_ev_at r x j = Ok (out f j x) :=
    proj2 (proj2 (proj2 Hrep)).

  (* evaluate / evaluate_at / get_truth_table *)
  Lemma g_evaluate_ok x : length x = n -> r_ev r x = Ok (f x).
  Proof. apply Hev. Qed.

  Lemma g_evaluate_at_ok x j : length x = n -> j < m -> r_ev_at r x j = Ok (out f j x).
  Proof. apply Hat. Qed.

  Lemma g_truth_table_ok : g_truth_table r = Ok (tt_of f n m).
  Proof.
    unfold g_truth_table. rewrite Hn.
    rewrite (mapM_pure _ f) by (intros x Hx; apply Hev, abv_length; exact Hx). simpl. f_equal.
    rewrite (map_ext_in f (fun x => map (fun j => out f j x) (seq 0 m))).
    - assert (T := transpose_fuel_matrix (fun (x : bvec) (j : nat) => out f j x)
                                          (all_bool_vectors n) (seq 0 m)).
      rewrite seq_length in T. cbv beta in T.
      unfold transpose, tt_of.
      destruct (abv_nonempty n) as [rest E].
      assert (Hlen : length (hd [] (map (fun x => map (fun j => out f j x) (seq 0 m)) (all_bool_vectors n))) = m).
      { rewrite E. simpl. rewrite map_length, seq_length. reflexivity. }
      rewrite Hlen. apply T. rewrite E. discriminate.
    - intros x Hx. apply abv_length in Hx. rewrite <- (Har x Hx). symmetry. apply map_nth_seq.
  Qed.

  (* first = ev(next(it)); all others equal *)
  Lemma first_rest_spec {V} (veqb : V -> V -> bool) (ev : bvec -> res V) (g : bvec -> V) :
    (forall a b, veqb a b = true <-> a = b) ->
    (forall x, length x = n -> ev x = Ok (g x)) ->
    exists b, first_rest veqb ev (all_bool_vectors n) = Ok b /\
              (b = true <-> forall x y, length x = n -> length y = n -> g x = g y).
  Proof.
    intros Heq Hg. destruct (abv_nonempty n) as [rest E].
    assert (Hall : forall x, length x = n <-> x = repeat false n \/ In x rest).
    { intros x. rewrite <- abv_In, E. simpl. intuition. }
    rewrite E. simpl. rewrite Hg by (apply repeat_length). simpl.
    rewrite (forallM_pure _ (fun x => veqb (g (repeat false n)) (g x))).
    - eexists; split; [reflexivity|]. rewrite forallb_forall. split.
      + intros H x y Hx Hy.
        assert (Hc : forall z, length z = n -> g (repeat false n) = g z).
        { intros z Hz. apply Hall in Hz. destruct Hz as [->|Hz]; [reflexivity|]. apply Heq, H, Hz. }
        rewrite <- (Hc x Hx), <- (Hc y Hy). reflexivity.
      + intros H x Hx. apply Heq. apply H; [apply repeat_length|]. apply Hall. right; exact Hx.
    - intros x Hx. rewrite Hg by (apply Hall; right; exact Hx). reflexivity.
  Qed.

  Lemma g_is_constant_at_spec j : j < m ->
    exists b, g_is_constant_at r j = Ok b /\ (b = true <-> constant_at f n j).
  Proof.
    intros Hj. unfold g_is_constant_at. rewrite Hn.
    apply (first_rest_spec Bool.eqb (fun x => r_ev_at r x j) (out f j)).
    - intros a b; apply Bool.eqb_true_iff.
    - intros x Hx; apply Hat; assumption.
  Qed.

  Lemma g_is_constant_spec :
    exists b, g_is_constant r = Ok b /\ (b = true <-> constant f n m).
  Proof.
    unfold g_is_constant. rewrite Hn.
    destruct (first_rest_spec bvec_eqb (r_ev r) f bvec_eqb_eq Hev) as (b & Hb & Hiff).
    exists b. split; [exact Hb|]. rewrite Hiff. split.
    - intros H j Hj x y Hx Hy. unfold out. rewrite (H x y Hx Hy). reflexivity.
    - intros H x y Hx Hy. apply (out_ext f m); [apply Har; exact Hx|apply Har; exact Hy|].
      intros j Hj. apply H; assumption.
  Qed.

  (* Circuit: change_value / current_value *)
  Lemma circ_is_monotone_at_spec j inv : j < m ->
    exists b, circ_is_monotone_at r j inv = Ok b /\ (b = true <-> monotone_at f n j inv).
  Proof.
    intros Hj. unfold circ_is_monotone_at. rewrite Hn.
    rewrite (circ_mono_at_pure _ (out f j)) by (intros x Hx; apply Hat; [apply abv_length; exact Hx|exact Hj]).
    eexists; split; [reflexivity|]. rewrite mono1_false, mono_b_sorted, monotone_at_sorted. reflexivity.
  Qed.

  Lemma circ_is_monotone_spec inv :
    exists b, circ_is_monotone r inv = Ok b /\ (b = true <-> monotone f n m inv).
  Proof.
    unfold circ_is_monotone. rewrite Hn, Hm.
    destruct (circ_mono_loop_spec (r_ev r) f m (all_bool_vectors n)) with (s := repeat (false, inv) m)
      as (b & Hb & Hiff).
    - intros x Hx. apply abv_length in Hx. split; [apply Hev; exact Hx|apply Har; exact Hx].
    - apply repeat_length.
    - exists b. split; [exact Hb|]. rewrite Hiff. unfold monotone.
      split; intros H j Hj; specialize (H j Hj); rewrite st_at_repeat in * by exact Hj; simpl in *.
      + apply monotone_at_sorted, mono_b_sorted. rewrite <- mono1_false. exact H.
      + rewrite mono1_false. apply mono_b_sorted, monotone_at_sorted. exact H.
  Qed.

  (* TruthTable / PyFunction per output: ones_started *)
  Lemma ones_started_at_spec j inv : j < m ->
    exists b, ones_started_loop (fun x => r_ev_at r x j) inv false (all_bool_vectors n) = Ok b /\
              (b = true <-> monotone_at f n j inv).
  Proof.
    intros Hj.
    destruct (ones_started_pure (fun x => r_ev_at r x j) (out f j) inv (all_bool_vectors n)) as [_ H].
    - intros x Hx; apply Hat; [apply abv_length; exact Hx|exact Hj].
    - rewrite H. eexists; split; [reflexivity|]. rewrite mono_b_sorted, monotone_at_sorted. reflexivity.
  Qed.

  (* equal to an input / its negation (Circuit, PyFunction) *)
  Lemma g_equal_to_input_spec neg j i : j < m -> i < n ->
    exists b, g_equal_to_input neg r j i = Ok b /\
              (b = true <-> forall x, length x = n -> out f j x = xorb neg (nth i x false)).
  Proof.
    intros Hj Hi. unfold g_equal_to_input. rewrite Hn.
    rewrite (forallM_pure _ (fun x => Bool.eqb (out f j x) (xorb neg (nth i x false)))).
    - eexists; split; [reflexivity|]. rewrite forallb_forall. split.
      + intros H x Hx. apply Bool.eqb_prop, H, abv_In, Hx.
      + intros H x Hx. apply Bool.eqb_true_iff, H, abv_length, Hx.
    - intros x Hx. apply abv_length in Hx. rewrite Hat by assumption. simpl.
      rewrite (nth_res_ok x i false) by lia. reflexivity.
  Qed.

  (* dependence on an input *)
  Lemma g_is_dependent_spec j i : j < m -> i < n ->
    exists b, g_is_dependent r j i = Ok b /\
              (b = true <-> exists x, length x = n - 1 /\
                                      out f j (insert_at i false x) <> out f j (insert_at i true x)).
  Proof.
    intros Hj Hi. unfold g_is_dependent. rewrite Hn.
    destruct (Nat.eqb_spec n 0) as [E|_]; [lia|].
    assert (Hins : forall (x : bvec) b, length x = n - 1 -> length (insert_at i b x) = n)
      by (intros x b Hx; rewrite insert_at_length; lia).
    assert (Hneg := negate_insert).
    rewrite (existsM_pure _ (fun x => negb (Bool.eqb (out f j (insert_at i false x))
                                                     (out f j (insert_at i true x))))).
    - eexists; split; [reflexivity|]. rewrite existsb_exists. split.
      + intros (x & Hx & H). exists x. split; [apply abv_length; exact Hx|].
        apply negb_true_iff, Bool.eqb_false_iff in H. exact H.
      + intros (x & Hx & H). exists x. split; [apply abv_In; exact Hx|].
        apply negb_true_iff, Bool.eqb_false_iff. exact H.
    - intros x Hx. apply abv_length in Hx.
      rewrite Hat by (try apply Hins; assumption). simpl.
      rewrite Hneg by lia. simpl. rewrite Hat by (try apply Hins; assumption). reflexivity.
  Qed.
End Generic.

(* ------------------------------------------------------------------ *)
(* dependence: the executable criterion is the specification *)

Lemma dependent_on_insert f n j i : i < n ->
  (dependent_on f n j i <->
   exists x, length x = n - 1 /\ out f j (insert_at i false x) <> out f j (insert_at i true x)).
Proof.
  intros Hi. split.
  - intros (x & y & Hx & Hy & Hag & Hne).
    assert (Hr : remove_at i x = remove_at i y) by (apply remove_at_agree; [lia|exact Hag]).
    assert (Ex := insert_remove x i ltac:(lia)). assert (Ey := insert_remove y i ltac:(lia)).
    exists (remove_at i x). split; [rewrite remove_at_length; lia|].
    rewrite <- Hr in Ey.
    destruct (nth i x false) eqn:Bx, (nth i y false) eqn:By.
    + rewrite <- Ex, <- Ey in Hne. congruence.
    + rewrite Ex, Ey. congruence.
    + rewrite Ex, Ey. exact Hne.
    + rewrite <- Ex, <- Ey in Hne. congruence.
  - intros (x & Hx & Hne). exists (insert_at i false x), (insert_at i true x).
    rewrite !insert_at_length by lia. repeat split; try lia; [|exact Hne].
    intros k Hk. apply nth_insert_other; [exact Hk|lia].
Qed.

Lemma filter_seq_sorted (p : nat -> bool) : forall k s, StronglySorted lt (filter p (seq s k)).
Proof.
  induction k as [|k IH]; intros s; simpl; [constructor|].
  destruct (p s); [|apply IH]. constructor; [apply IH|].
  apply Forall_forall. intros y Hy. apply filter_In in Hy. destruct Hy as [Hy _]. apply in_seq in Hy. lia.
Qed.

Lemma significant_filter f n j (dep : nat -> bool) :
  (forall i, i < n -> (dep i = true <-> dependent_on f n j i)) ->
  significant_inputs f n j (filter dep (seq 0 n)).
Proof.
  intros H. split; [|apply filter_seq_sorted].
  intros i. rewrite filter_In, in_seq. split.
  - intros [Hi Hd]. split; [lia|]. apply H; [lia|exact Hd].
  - intros [Hi Hd]. split; [lia|]. apply H; assumption.
Qed.

Lemma significant_unique f n j l1 l2 :
  significant_inputs f n j l1 -> significant_inputs f n j l2 -> l1 = l2.
Proof.
  intros [H1 S1] [H2 S2].
  assert (Hsame : forall i, In i l1 <-> In i l2) by (intros i; rewrite H1, H2; reflexivity).
  clear H1 H2. revert l2 S2 Hsame. induction S1 as [|a l1 S1 IH F1]; intros l2 S2 Hsame.
  - destruct l2 as [|b l2]; [reflexivity|]. exfalso. apply (Hsame b). left; reflexivity.
  - destruct S2 as [|b l2 S2 F2].
    + exfalso. apply (Hsame a). left; reflexivity.
    + rewrite Forall_forall in F1, F2.
      assert (a = b).
      { destruct (proj1 (Hsame a) (or_introl eq_refl)) as [E|Hin]; [congruence|].
        destruct (proj2 (Hsame b) (or_introl eq_refl)) as [E|Hin']; [congruence|].
        specialize (F1 b Hin'). specialize (F2 a Hin). lia. }
      subst b. f_equal. apply IH; [exact S2|]. intros i. split; intros Hi.
      * destruct (proj1 (Hsame i) (or_intror Hi)) as [E|Hin]; [|exact Hin].
        subst i. specialize (F1 a Hi). lia.
      * destruct (proj2 (Hsame i) (or_intror Hi)) as [E|Hin]; [|exact Hin].
        subst i. specialize (F2 a Hi). lia.
Qed.

Section Generic2.
  Variables (r : frep) (f : bvec -> bvec) (n m : nat).
  Hypothesis Hrep : rep_computes r f n m.
  Hypothesis Har : arity_ok f n m.

  Lemma g_is_dependent_correct j i : j < m -> i < n ->
    exists b, g_is_dependent r j i = Ok b /\ (b = true <-> dependent_on f n j i).
  Proof.
    intros Hj Hi. destruct (g_is_dependent_spec r f n m Hrep j i Hj Hi) as (b & Hb & Hiff).
    exists b. split; [exact Hb|]. rewrite Hiff. symmetry. apply dependent_on_insert; exact Hi.
  Qed.

  Lemma g_equal_to_input_correct j i : j < m -> i < n ->
    exists b, g_equal_to_input false r j i = Ok b /\ (b = true <-> equal_to_input f n j i).
  Proof.
    intros Hj Hi. destruct (g_equal_to_input_spec r f n m Hrep false j i Hj Hi) as (b & Hb & Hiff).
    exists b. split; [exact Hb|]. rewrite Hiff. unfold equal_to_input.
    split; intros H x Hx; specialize (H x Hx); rewrite ?xorb_false_l in *; exact H.
  Qed.

  Lemma g_equal_to_input_neg_correct j i : j < m -> i < n ->
    exists b, g_equal_to_input true r j i = Ok b /\ (b = true <-> equal_to_input_negation f n j i).
  Proof.
    intros Hj Hi. destruct (g_equal_to_input_spec r f n m Hrep true j i Hj Hi) as (b & Hb & Hiff).
    exists b. split; [exact Hb|]. rewrite Hiff. unfold equal_to_input_negation.
    split; intros H x Hx; specialize (H x Hx); rewrite ?xorb_true_l in *; exact H.
  Qed.

  Lemma g_significant_correct j : j < m ->
    exists l, g_significant r j = Ok l /\ significant_inputs f n j l.
  Proof.
    intros Hj. unfold g_significant. rewrite (proj1 Hrep).
    (* a total Boolean version of the dependence test on 0..n-1 *)
    set (dep := fun i => match g_is_dependent r j i with Ok b => b | Err _ => false end).
    rewrite (filterM_pure _ dep).
    - eexists; split; [reflexivity|]. apply significant_filter. intros i Hi.
      destruct (g_is_dependent_correct j i Hj Hi) as (b & Hb & Hiff). unfold dep. rewrite Hb. exact Hiff.
    - intros i Hi. apply in_seq in Hi.
      destruct (g_is_dependent_correct j i Hj ltac:(lia)) as (b & Hb & _). unfold dep. rewrite Hb. reflexivity.
  Qed.
End Generic2.
