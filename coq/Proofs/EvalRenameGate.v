(* C19, rename_gate at the entry points, WITHOUT any arity hypothesis: the evaluators run in
   lock step on the circuit before and after rename_gate (a simulation of the stack loop, the
   assignment dictionaries related by  dget d' (ren old new x) = dget d x), so evaluate and
   get_truth_table return EQUAL results - values and errors alike (a gate whose operator
   rejects its operand count raises the same TypeError at the same point on both sides). *)
Require Import Cirbo.Model.Base Cirbo.Model.Gate Cirbo.Model.Den Cirbo.Model.Circuit Cirbo.Model.Traverse
        Cirbo.Model.Connect Cirbo.Model.Eval Cirbo.Model.Sem Cirbo.Model.WF.
Require Import Cirbo.Generated.Operators Cirbo.Generated.GateTypes.
Require Import Cirbo.Proofs.DictFacts Cirbo.Proofs.WFBase Cirbo.Proofs.EvalFacts Cirbo.Proofs.TraverseFuel
        Cirbo.Proofs.WFRename2 Cirbo.Proofs.SemRenameGate Cirbo.Proofs.TruthTable Cirbo.Proofs.EntryEq.
Require Import Coq.Sorting.Permutation.

Inductive res_rel {A B} (R : A -> B -> Prop) : res A -> res B -> Prop :=
| rr_ok x y : R x y -> res_rel R (Ok x) (Ok y)
| rr_err e : res_rel R (Err e) (Err e).

Lemma res_rel_bind {A B A' B'} (R : A -> B -> Prop) (S : A' -> B' -> Prop) x y f g :
  res_rel R x y -> (forall u v, R u v -> res_rel S (f u) (g v)) -> res_rel S (bind x f) (bind y g).
Proof. intros [u v Huv|e] Hfg; simpl; [apply Hfg; exact Huv|constructor]. Qed.

Lemma res_rel_bind_eq {A B C} (R : A -> B -> Prop) x y (f : A -> res C) g :
  res_rel R x y -> (forall u v, R u v -> f u = g v) -> bind x f = bind y g.
Proof. intros [u v Huv|e] Hfg; simpl; [apply Hfg; exact Huv|reflexivity]. Qed.

Lemma filter_map_comm {A B} (h : A -> B) (f : A -> bool) (f' : B -> bool) l :
  (forall x, In x l -> f' (h x) = f x) -> filter f' (map h l) = map h (filter f l).
Proof.
  induction l as [|x l IH]; intros Hf; simpl; [reflexivity|].
  rewrite (Hf x (or_introl eq_refl)), IH by (intros y Hy; apply Hf; right; exact Hy).
  destruct (f x); reflexivity.
Qed.

Lemma pop_last_map {A B} (h : A -> B) l :
  pop_last (map h l) = option_map (fun p => (h (fst p), map h (snd p))) (pop_last l).
Proof.
  unfold pop_last. rewrite <- map_rev. destruct (rev l) as [|x r]; simpl; [reflexivity|].
  rewrite map_rev. reflexivity.
Qed.

Lemma dget_fold_dsetdefault ks : forall (d : assignment) x,
  dget (fold_left (fun d l => dsetdefault d l U) ks d) x =
  match dget d x with Some v => Some v | None => if memb x ks then Some U else None end.
Proof.
  induction ks as [|k ks IH]; intros d x; simpl; [destruct (dget d x); reflexivity|].
  rewrite IH, dget_dsetdefault. destruct (dget d x); [reflexivity|].
  destruct (leqb x k); reflexivity.
Qed.

Section RenSim.
  Variables (c c' : circuit) (old new : label).
  Hypothesis W : WF c.
  Hypothesis H : rename_gate c old new = Ok c'.
  Local Notation r := (ren old new).

  Definition sim (d d' : assignment) : Prop := forall x, x <> new -> dget d' (r x) = dget d x.

  Lemma r_leqb x y : x <> new -> y <> new -> leqb (r x) (r y) = leqb x y.
  Proof.
    intros Hx Hy. destruct (leqb_spec x y) as [->|Hne]; [apply leqb_refl|].
    apply leqb_neq. intros E. apply Hne. exact (ren_inj old new x y Hx Hy E).
  Qed.

  Lemma sim_dmem d d' x : sim d d' -> x <> new -> dmem d' (r x) = dmem d x.
  Proof. intros Hs Hx. unfold dmem. rewrite (Hs x Hx). reflexivity. Qed.

  Lemma sim_dset d d' k v : sim d d' -> k <> new -> sim (dset d k v) (dset d' (r k) v).
  Proof. intros Hs Hk x Hx. rewrite !dget_dset, r_leqb, (Hs x Hx) by assumption. reflexivity. Qed.

  Lemma sim_dsetdefault d d' k v : sim d d' -> k <> new -> sim (dsetdefault d k v) (dsetdefault d' (r k) v).
  Proof. intros Hs Hk x Hx. rewrite !dget_dsetdefault, r_leqb, (Hs x Hx) by assumption. reflexivity. Qed.

  Lemma memb_map_r x l : x <> new -> (forall y, In y l -> y <> new) -> memb (r x) (map r l) = memb x l.
  Proof.
    intros Hx. induction l as [|y l IH]; intros Hl; simpl; [reflexivity|].
    rewrite r_leqb, IH; [reflexivity|intros z Hz; apply Hl; right; exact Hz|exact Hx|apply Hl; left; reflexivity].
  Qed.

  (* the gate map *)
  Lemma get_gate_r x : x <> new ->
    get_gate c' (r x) = match get_gate c x with
                        | Ok g => Ok (mkGate (gtyp g) (map r (gops g)))
                        | Err e => Err e
                        end.
  Proof.
    intros Hx. unfold get_gate. destruct (dget (gates c) x) as [g|] eqn:Eg.
    - rewrite (rename_gate_get c c' old new W H x g Eg). reflexivity.
    - destruct (rename_gate_gates c old new c' W H) as (og & Hog & Hget).
      assert (x <> old) as Hxo by (intros ->; congruence).
      assert (r x = x) as -> by (unfold ren; apply leqb_neq in Hxo; rewrite Hxo; reflexivity).
      rewrite Hget. apply leqb_neq in Hxo, Hx. rewrite Hxo, Hx, Eg. reflexivity.
  Qed.

  Lemma has_gate_r x : x <> new -> has_gate c' (r x) = has_gate c x.
  Proof.
    intros Hx. pose proof (get_gate_r x Hx) as E. unfold get_gate in E. unfold has_gate, dmem.
    destruct (dget (gates c) x); destruct (dget (gates c') (r x)); try reflexivity; discriminate.
  Qed.

  Lemma gate_ops_not_new x g : get_gate c x = Ok g -> forall o, In o (gops g) -> o <> new.
  Proof.
    unfold get_gate. destruct (dget (gates c) x) as [g0|] eqn:Eg; [|discriminate]. intros [= <-] o Ho ->.
    exact (ops_not_new c c' old new W H x g0 Eg Ho).
  Qed.

  Lemma inputs_not_new x : In x (inputs c) -> x <> new.
  Proof.
    intros Hx. apply (gate_not_new c c' old new H). apply (wf_inputs c W) in Hx.
    destruct Hx as (g & Hg & _). unfold has_gate, dmem. rewrite Hg. reflexivity.
  Qed.

  Lemma outputs_not_new x : In x (outputs c) -> x <> new.
  Proof. intros Hx. apply (gate_not_new c c' old new H). apply (wf_outs c W), Hx. Qed.

  Lemma lookup_vals_r d d' ops : sim d d' -> (forall o, In o ops -> o <> new) ->
    lookup_vals d' (map r ops) = lookup_vals d ops.
  Proof.
    intros Hs. unfold lookup_vals. induction ops as [|o ops IH]; intros Ho; simpl; [reflexivity|].
    rewrite (Hs o (Ho o (or_introl eq_refl))), IH by (intros z Hz; apply Ho; right; exact Hz). reflexivity.
  Qed.

  Lemma eval_gate_r d d' g : sim d d' -> (forall o, In o (gops g) -> o <> new) ->
    eval_gate d' (mkGate (gtyp g) (map r (gops g))) = eval_gate d g.
  Proof.
    intros Hs Ho. unfold eval_gate; simpl. rewrite (lookup_vals_r d d' (gops g) Hs Ho). reflexivity.
  Qed.

  (* the stack loop, in lock step *)
  Lemma eval_stack_loop_sim fuel : forall d d' stack,
    sim d d' -> (forall x, In x stack -> x <> new) ->
    res_rel sim (eval_stack_loop fuel c d stack) (eval_stack_loop fuel c' d' (map r stack)).
  Proof.
    induction fuel as [|fuel IH]; intros d d' stack Hs Hst; simpl; [constructor|].
    rewrite pop_last_map. destruct (pop_last stack) as [[cur rest]|] eqn:Ep; simpl; [|constructor; exact Hs].
    apply pop_last_In in Ep.
    assert (Hcur : cur <> new) by (apply Hst; rewrite Ep; apply in_or_app; right; left; reflexivity).
    assert (Hrest : forall x, In x rest -> x <> new)
      by (intros x Hx; apply Hst; rewrite Ep; apply in_or_app; left; exact Hx).
    rewrite (get_gate_r cur Hcur). destruct (get_gate c cur) as [g|e] eqn:Eg; simpl; [|constructor].
    pose proof (gate_ops_not_new cur g Eg) as Hops.
    rewrite (filter_map_comm r (fun op => negb (dmem d op)) (fun op => negb (dmem d' op)))
      by (intros x Hx; rewrite (sim_dmem d d' x Hs (Hops x Hx)); reflexivity).
    destruct (filter (fun op => negb (dmem d op)) (gops g)) as [|p ps] eqn:Ef; simpl map.
    - rewrite (eval_gate_r d d' g Hs Hops). destruct (eval_gate d g) as [v|e]; simpl; [|constructor].
      apply IH; [apply sim_dset; assumption|exact Hrest].
    - change (r p :: map r ps) with (map r (p :: ps)). rewrite <- map_app. apply IH; [exact Hs|].
      intros x Hx. apply in_app_or in Hx. destruct Hx as [Hx|Hx]; [apply Hst; exact Hx|].
      apply Hops. rewrite <- Ef in Hx. apply filter_In in Hx. tauto.
  Qed.

  Lemma init_assignment_sim a a' : sim a a' -> sim (init_assignment c a) (init_assignment c' a').
  Proof.
    intros Hs. unfold init_assignment. rewrite (rename_inputs c c' old new W H).
    pose proof inputs_not_new as Hin. revert a a' Hs. induction (inputs c) as [|i ins IH]; intros a a' Hs; simpl; [exact Hs|].
    apply IH; [intros x Hx; apply Hin; right; exact Hx|].
    apply sim_dsetdefault; [exact Hs|apply Hin; left; reflexivity].
  Qed.

  Lemma final_fold_sim d d' : sim d d' ->
    sim (fold_left (fun d l => dsetdefault d l U) (dkeys (gates c)) d)
        (fold_left (fun d l => dsetdefault d l U) (dkeys (gates c')) d').
  Proof.
    intros Hs x Hx. rewrite !dget_fold_dsetdefault, (Hs x Hx).
    destruct (dget d x); [reflexivity|].
    assert (memb (r x) (dkeys (gates c')) = memb x (dkeys (gates c))) as ->; [|reflexivity].
    pose proof (has_gate_r x Hx) as E. unfold has_gate in E.
    destruct (memb x (dkeys (gates c))) eqn:E1.
    - apply memb_In, dmem_keys in E1. rewrite E1 in E. apply memb_In, dmem_keys. exact E.
    - apply memb_nIn. intros Hin. apply dmem_keys in Hin. rewrite Hin in E.
      symmetry in E. apply dmem_keys, memb_In in E. congruence.
  Qed.

  Lemma evaluate_circuit_fuel_sim fuel a a' outs :
    sim a a' -> (forall x, In x outs -> x <> new) ->
    res_rel sim (evaluate_circuit_fuel fuel c a (Some outs))
                (evaluate_circuit_fuel fuel c' a' (Some (map r outs))).
  Proof.
    intros Hs Ho. unfold evaluate_circuit_fuel.
    rewrite (filter_map_comm r (fun o => negb (memb o (inputs c))) (fun o => negb (memb o (inputs c')))).
    - eapply res_rel_bind.
      + apply eval_stack_loop_sim; [apply init_assignment_sim; exact Hs|].
        intros x Hx. apply filter_In in Hx. apply Ho. tauto.
      + intros u v Huv. constructor. apply final_fold_sim; exact Huv.
    - intros x Hx. rewrite (rename_inputs c c' old new W H), memb_map_r;
        [reflexivity|apply Ho; exact Hx|apply inputs_not_new].
  Qed.

  (* the fuel is the same *)
  Lemma list_sum_perm l l' : Permutation l l' -> list_sum l = list_sum l'.
  Proof. induction 1; simpl; lia. Qed.

  Lemma sum_arity_r : sum_arity c' = sum_arity c.
  Proof.
    pose proof (rename_gate_wf c old new c' W H) as W'.
    rewrite <- (sum_ops_arity c' (wf_gkeys c' W')), <- (sum_ops_arity c (wf_gkeys c W)).
    rewrite (rename_keys c c' old new W H).
    destruct (rename_old_new c c' old new H) as (Ho & Hn & Hon).
    assert (Hops : forall x, x <> new -> length (ops_of c' (r x)) = length (ops_of c x)).
    { intros x Hx. pose proof (get_gate_r x Hx) as E. unfold get_gate in E. unfold ops_of.
      destruct (dget (gates c) x) as [g|]; destruct (dget (gates c') (r x)) as [g'|]; try discriminate; [|reflexivity].
      injection E as ->. simpl. apply map_length. }
    assert (Hin : In old (dkeys (gates c))) by (apply dmem_keys; exact Ho).
    assert (Hp : Permutation (dkeys (gates c)) (remove1 old (dkeys (gates c)) ++ [old])).
    { clear -Hin. induction (dkeys (gates c)) as [|k ks IH]; [destruct Hin|]. simpl.
      destruct (leqb_spec old k) as [<-|Hne].
      - apply Permutation_cons_append.
      - simpl. apply perm_skip, IH. destruct Hin as [E|Hin]; [congruence|exact Hin]. }
    rewrite (list_sum_perm _ _ (Permutation_map _ Hp)).
    rewrite !map_app, !list_sum_app. simpl. f_equal.
    - f_equal. apply map_ext_in. intros x Hx.
      assert (x <> old /\ In x (dkeys (gates c))) as [Hxo Hxk].
      { pose proof (wf_gkeys c W) as Hnd. clear -Hx Hnd. induction (dkeys (gates c)) as [|k ks IH]; [destruct Hx|].
        inversion Hnd as [|? ? Hk Hnd']; subst. simpl in Hx. destruct (leqb_spec old k) as [<-|Hne].
        - split; [intros ->; contradiction|right; exact Hx].
        - destruct Hx as [<-|Hx]; [split; [intros E; apply Hne; symmetry; exact E|left; reflexivity]|].
          destruct (IH Hx Hnd') as [H1 H2]. split; [exact H1|right; exact H2]. }
      assert (x <> new) as Hxn.
      { apply (gate_not_new c c' old new H). unfold has_gate. apply dmem_keys. exact Hxk. }
      rewrite <- (Hops x Hxn). f_equal. f_equal. unfold ren. apply leqb_neq in Hxo. rewrite Hxo. reflexivity.
    - rewrite <- (Hops old (not_eq_sym (fun E => Hon (eq_sym E)))). unfold ren. rewrite leqb_refl. reflexivity.
  Qed.

  Lemma pick_sim (d d' : assignment) outs : sim d d' -> (forall x, In x outs -> x <> new) ->
    forall acc acc', sim acc acc' ->
    res_rel sim
      (foldM (fun acc o => match dget d o with Some v => Ok (dset acc o v) | None => Err PyKeyError end) outs acc)
      (foldM (fun acc o => match dget d' o with Some v => Ok (dset acc o v) | None => Err PyKeyError end) (map r outs) acc').
  Proof.
    intros Hs. induction outs as [|o outs IH]; intros Ho acc acc' Ha; simpl; [constructor; exact Ha|].
    assert (Hon : o <> new) by (apply Ho; left; reflexivity).
    rewrite (Hs o Hon). destruct (dget d o) as [v|]; simpl; [|constructor].
    apply IH; [intros x Hx; apply Ho; right; exact Hx|apply sim_dset; assumption].
  Qed.

  Lemma evaluate_circuit_outputs_sim a a' : sim a a' ->
    res_rel sim (evaluate_circuit_outputs c a) (evaluate_circuit_outputs c' a').
  Proof.
    intros Hs. unfold evaluate_circuit_outputs, evaluate_circuit.
    change (evaluate_circuit_fuel (eval_fuel c (outputs c)) c a None)
      with (evaluate_circuit_fuel (eval_fuel c (outputs c)) c a (Some (outputs c))).
    change (evaluate_circuit_fuel (eval_fuel c' (outputs c')) c' a' None)
      with (evaluate_circuit_fuel (eval_fuel c' (outputs c')) c' a' (Some (outputs c'))).
    assert (eval_fuel c' (outputs c') = eval_fuel c (outputs c)) as ->.
    { unfold eval_fuel. rewrite sum_arity_r, (rename_outputs c c' old new H), map_length. reflexivity. }
    rewrite (rename_outputs c c' old new H).
    eapply res_rel_bind.
    - apply evaluate_circuit_fuel_sim; [exact Hs|apply outputs_not_new].
    - intros d d' Hd. apply pick_sim; [exact Hd|apply outputs_not_new|]. intros x _. reflexivity.
  Qed.

  Lemma zip_inputs_sim ins : forall vals acc acc',
    (forall x, In x ins -> x <> new) -> sim acc acc' ->
    res_rel sim (zip_inputs ins vals acc) (zip_inputs (map r ins) vals acc').
  Proof.
    induction ins as [|i ins IH]; intros vals acc acc' Hi Ha; simpl; [constructor; exact Ha|].
    destruct vals as [|v vals]; [constructor|].
    apply IH; [intros x Hx; apply Hi; right; exact Hx|].
    apply sim_dset; [exact Ha|apply Hi; left; reflexivity].
  Qed.

  Theorem rename_gate_evaluate_all vals : evaluate c' vals = evaluate c vals.
  Proof.
    symmetry. unfold evaluate. rewrite (rename_inputs c c' old new W H), (rename_outputs c c' old new H).
    eapply res_rel_bind_eq.
    - apply zip_inputs_sim; [apply inputs_not_new|]. intros x _. reflexivity.
    - intros a a' Ha. eapply res_rel_bind_eq; [apply evaluate_circuit_outputs_sim; exact Ha|].
      intros ans ans' Hans. pose proof outputs_not_new as Ho.
      induction (outputs c) as [|o outs IH]; simpl; [reflexivity|].
      rewrite (Hans o (Ho o (or_introl eq_refl))), IH by (intros x Hx; apply Ho; right; exact Hx). reflexivity.
  Qed.

  Theorem rename_gate_truth_table_all : get_truth_table c' = get_truth_table c.
  Proof.
    apply get_truth_table_eq_of_evaluate.
    - rewrite (rename_inputs c c' old new W H), map_length; reflexivity.
    - rewrite (rename_outputs c c' old new H), map_length; reflexivity.
    - intros bs _. apply rename_gate_evaluate_all.
  Qed.
End RenSim.
