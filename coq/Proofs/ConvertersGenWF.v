(* C02, into_bench case, for the driver over the rules regenerated from converters.py (T6) *)
Require Import Cirbo.Model.Base Cirbo.Model.Gate Cirbo.Model.Circuit Cirbo.Model.Connect Cirbo.Model.WF.
Require Import Cirbo.Generated.Converters Cirbo.Proofs.ConvertersGen Cirbo.Proofs.WFEmplace Cirbo.Proofs.WFBench.

Lemma generated_into_bench_inv_le c fresh c' :
  WF c -> inputs_nullary c -> binary_le' c -> generated_into_bench c fresh = Ok c' ->
  WF c' /\ inputs_nullary c'.
Proof.
  intros W N B H. apply generated_into_bench_ok in H. exact (into_bench_inv_le c fresh c' W N B H).
Qed.
