(* C03: the passes never fail on well-formed circuits (with accepted arities where operands are
   read positionally or evaluated).  emplace_gate finds its operands because the emission order
   has operands first, and a duplicate / parent / group representative is emitted before its
   users. *)
Require Import Cirbo.Model.Base Cirbo.Model.Gate Cirbo.Model.Den Cirbo.Model.Circuit Cirbo.Model.Traverse
        Cirbo.Model.Eval Cirbo.Model.Sem Cirbo.Model.WF Cirbo.Model.Passes.
Require Import Cirbo.Generated.Operators Cirbo.Generated.GateTypes.
Require Import Cirbo.Proofs.DictFacts Cirbo.Proofs.EvalFacts Cirbo.Proofs.WFBase Cirbo.Proofs.WFSimple
        Cirbo.Proofs.WFEmplace Cirbo.Proofs.TopSortWF Cirbo.Proofs.TraverseInv
        Cirbo.Proofs.PassRebuild Cirbo.Proofs.PassRR Cirbo.Proofs.PassMD Cirbo.Proofs.PassMU
        Cirbo.Proofs.PassTT Cirbo.Proofs.PassME.
Require Import Coq.Sorting.Permutation.

(* ---------------- shared ---------------- *)
Lemma foldM_total {A S} (f : S -> A -> res S) l :
  (forall s x, In x l -> exists s', f s x = Ok s') -> forall s, exists s', foldM f l s = Ok s'.
Proof.
  induction l as [|x l IH]; intros H s; simpl; [eauto|].
  destruct (H s x (or_introl eq_refl)) as [s1 H1]. rewrite H1. simpl.
  apply IH. intros; apply H; right; assumption.
Qed.

(* with every gate emitted, the input lists of c and of a circuit simulating c coincide as sets *)
Lemma sim_inputs_iff c R n :
  WF c -> WF n -> sim c R n -> (forall i, In i (inputs c) -> has_gate n i = true) ->
  forall i, In i (inputs c) <-> In i (inputs n).
Proof.
  intros W Wn S Hall i. split.
  - intros Hi. apply (sim_input_in c R n i W Wn S Hi). apply Hall, Hi.
  - intros Hi. apply (wf_inputs n Wn) in Hi. destruct Hi as (g' & Hg' & Ht').
    destruct (S i g' Hg') as (g & Hg & Et & _). apply (wf_inputs c W). exists g. split; [exact Hg|congruence].
Qed.

Lemma input_key c i : WF c -> In i (inputs c) -> In i (dkeys (gates c)).
Proof. intros W Hi. apply (wf_inputs c W) in Hi. destruct Hi as (g & Hg & _). eapply dget_In_keys; eassumption. Qed.

Lemma output_key c o : WF c -> In o (outputs c) -> In o (dkeys (gates c)).
Proof. intros W Ho. apply has_gate_key, (wf_outs c W), Ho. Qed.

(* the tail set_inputs (inputs c); set_outputs outs never fails once every gate is emitted *)
Lemma finish_total c R n1 (outs : circuit -> res (list label)) :
  WF c -> WF n1 -> sim c R n1 -> (forall x, In x (dkeys (gates c)) -> has_gate n1 x = true) ->
  (forall n2, gates n2 = gates n1 -> exists os, outs n2 = Ok os /\ forall o, In o os -> has_gate n1 o = true) ->
  exists c', (do n2 <- set_inputs n1 (inputs c); do os <- outs n2; set_outputs n2 os) = Ok c'.
Proof.
  intros W W1 S1 Hall Hout.
  destruct (set_inputs_total n1 (inputs c) W1 (wf_inputs_nodup c W)) as [n2 H2].
  { apply sim_inputs_iff with (R := R); try assumption. intros i Hi. apply Hall, input_key; assumption. }
  rewrite H2. simpl. pose proof H2 as E2. apply set_inputs_spec in E2.
  destruct (Hout n2) as (os & Hos & Hin); [subst n2; reflexivity|]. rewrite Hos. simpl.
  apply set_outputs_total. intros o Ho. subst n2. apply Hin, Ho.
Qed.

Lemma em_fresh c wu em pre x post n :
  EmSpec c wu em -> em = pre ++ x :: post -> (forall y, has_gate n y = true <-> In y pre) ->
  has_gate n x = false.
Proof.
  intros E Eo K. destruct (has_gate n x) eqn:Eh; [|reflexivity]. apply K in Eh.
  pose proof (em_nodup c wu em E) as Hnd. rewrite Eo in Hnd. apply NoDup_remove_2 in Hnd.
  exfalso; apply Hnd, in_or_app; left; exact Eh.
Qed.

(* ---------------- MergeDuplicateGates ---------------- *)
Lemma md_new_name_total n tbl x : has_gate n x = true -> exists x', md_new_name n tbl x = Ok x'.
Proof.
  intros H. apply has_gate_get in H. destruct H as [g Hg]. unfold md_new_name, get_gate. rewrite Hg. simpl. eauto.
Qed.

Theorem md_total c : WF c -> exists c', merge_duplicate_gates c = Ok c'.
Proof.
  intros W. destruct (dfs_emission_total c true W) as [em Hem].
  pose proof (dfs_emission_spec c true em W Hem) as E.
  unfold merge_duplicate_gates. rewrite Hem. simpl.
  change (exists c', (do sq <- foldM (md_step c) em (empty_circuit, []);
                      let '(n1, tbl) := sq in
                      do n2 <- set_inputs n1 (inputs c);
                      do outs <- mapM (md_new_name n2 tbl) (outputs c);
                      set_outputs n2 outs) = Ok c').
  destruct (foldM_prefix_total (md_step c) (MDInv c) em) with (l := em) (pre := @nil label) (s := (empty_circuit, @nil (gtype * list label * label)))
    as ([n1 tbl] & H1 & I1).
  - intros pre x post [n tbl] Eo I0. pose proof I0 as [W0 S0 T0 K0]. simpl in *.
    assert (Hx : In x (dkeys (gates c))) by (eapply em_key; [exact W|exact E|rewrite Eo; apply in_elt]).
    destruct (get_gate_key c x Hx) as (g & Hg & Hd).
    pose proof (em_fresh c true em pre x post n E Eo K0) as Hnew.
    assert (exists s', md_step c (n, tbl) x = Ok s') as [s' Hs'].
    { simpl. rewrite Hg. simpl. destruct (gtype_beq (gtyp g) INPUT).
      - unfold check_label_doesnt_exist. rewrite Hnew. simpl.
        destruct (emplace_gate_total n x INPUT [] Hnew) as [n' Hn']; [intros ? []|]. rewrite Hn'. simpl. eauto.
      - destruct (mapM_total (md_new_name n tbl) (gops g)) as [ops Hops].
        { intros o Ho. apply md_new_name_total, K0. eapply (em_order c true em E); [exact Eo|].
          rewrite (ops_of_get c x g Hd). exact Ho. }
        rewrite Hops. simpl. destruct (md_new_names_R c n tbl _ _ S0 T0 Hops) as [_ Hin].
        destruct (emplace_gate_total n x (gtyp g) ops Hnew Hin) as [n' Hn']. rewrite Hn'. simpl. eauto. }
    exists s'. split; [exact Hs'|eapply md_step_inv; eassumption].
  - reflexivity.
  - apply MDInv_init.
  - rewrite H1. simpl. destruct I1 as [W1 S1 T1 K1]. simpl in *.
    apply (finish_total c (eqv_all c) n1 (fun n2 => mapM (md_new_name n2 tbl) (outputs c)) W W1 S1).
    + intros x Hx. apply K1. eapply em_all; eassumption.
    + intros n2 G2.
      assert (S2 : sim c (eqv_all c) n2) by (eapply sim_gates; eassumption).
      assert (T2 : forall t ops d, In (t, ops, d) tbl -> t <> INPUT /\ dget (gates n2) d = Some (mkGate t ops)).
      { intros t ops d Hin. rewrite G2. apply T1, Hin. }
      destruct (mapM_total (md_new_name n2 tbl) (outputs c)) as [os Hos].
      { intros o Ho. apply md_new_name_total. unfold has_gate. rewrite G2. apply K1.
        eapply em_all; [exact E|apply output_key; assumption]. }
      exists os. split; [exact Hos|]. destruct (md_new_names_R c n2 tbl _ _ S2 T2 Hos) as [_ Hin].
      intros o Ho. specialize (Hin o Ho). unfold has_gate in *. rewrite G2 in Hin. exact Hin.
Qed.

(* ---------------- MergeUnaryOperators ---------------- *)
(* ancestors are emitted earlier *)
Lemma em_order_tc c wu em : EmSpec c wu em ->
  forall y z, tc (ops_of c) y z -> forall pre post, em = pre ++ y :: post -> In z pre.
Proof.
  intros E y z H. induction H as [y z Hz|y b d _ IH Hd]; intros pre post Eo.
  - eapply (em_order c wu em E); eassumption.
  - pose proof (IH pre post Eo) as Hb. apply in_split in Hb. destruct Hb as (p1 & p2 & ->).
    apply in_or_app. left. eapply (em_order c wu em E); [|exact Hd]. rewrite Eo, <- app_assoc. reflexivity.
Qed.

Lemma em_prefix_closed c wu em pre x post o o' :
  EmSpec c wu em -> em = pre ++ x :: post -> In o pre -> (o' = o \/ tc (ops_of c) o o') -> In o' pre.
Proof.
  intros E Eo Ho [->|Htc]; [exact Ho|]. apply in_split in Ho. destruct Ho as (p1 & p2 & ->).
  apply in_or_app. left. eapply (em_order_tc c wu em E); [exact Htc|]. rewrite Eo, <- app_assoc. reflexivity.
Qed.

Lemma unary_operand_In g oper : unary_operand g = Ok oper -> In oper (gops g).
Proof.
  unfold unary_operand, nth_res. intros H.
  destruct (gtyp g);
    match type of H with
    | match nth_error ?l ?i with _ => _ end = _ => destruct (nth_error l i) eqn:E; [|discriminate]
    end; injection H as <-; eapply nth_error_In; eassumption.
Qed.

Lemma unary_operand_total g :
  gtyp g <> INPUT -> den_accepts (gtyp g) (length (gops g)) = true ->
  is_not_like (gtyp g) = true \/ is_iff_like (gtyp g) = true -> exists oper, unary_operand g = Ok oper.
Proof.
  destruct g as [t ops]. simpl. intros _ Har Hk. unfold unary_operand, nth_res. simpl.
  destruct t; simpl in Hk; destruct Hk as [Hk|Hk]; try discriminate;
    destruct ops as [|x [|y [|z r]]]; simpl in Har; try discriminate; simpl; eauto.
Qed.

Section MUTotal.
  Variable c : circuit.
  Hypothesis W : WF c.
  Hypothesis A : arity_ok c.

  (* every parent recorded in the dictionaries is a proper ancestor *)
  Record MUAnc (m : mu_maps) : Prop := mkMUAnc {
    mua_even : forall l p, dget (mu_even m) l = Some p -> tc (ops_of c) l p;
    mua_odd : forall l p, dget (mu_odd m) l = Some p -> tc (ops_of c) l p;
    mua_iff : forall l p, dget (mu_iff m) l = Some p -> tc (ops_of c) l p }.

  Lemma mget_anc (d : dict label) l oper :
    (forall x p, dget d x = Some p -> tc (ops_of c) x p) -> In oper (ops_of c l) ->
    tc (ops_of c) l (mget d oper).
  Proof.
    intros H Ho. unfold mget. destruct (dget d oper) as [p|] eqn:Ep; [|apply tc_one; exact Ho].
    eapply tc_left; [exact Ho|apply H; exact Ep].
  Qed.

  Lemma mu_step_anc m l m' : MUAnc m -> mu_step c m l = Ok m' -> MUAnc m'.
  Proof.
    intros I H. unfold mu_step in H. binv H g Hg. apply get_gate_ok in Hg. binv H m1 H1.
    assert (I1 : MUAnc m1).
    { destruct (is_not_like (gtyp g)); [|injection H1 as <-; exact I].
      binv H1 oper Ho. injection H1 as <-.
      assert (Hin : In oper (ops_of c l)) by (rewrite (ops_of_get c l g Hg); apply unary_operand_In, Ho).
      assert (He : forall x p, dget (match dget (mu_odd m) oper with
                                     | Some p => dset (mu_even m) l p | None => mu_even m end) x = Some p ->
                               tc (ops_of c) x p).
      { intros x p. destruct (dget (mu_odd m) oper) as [q|] eqn:Eq; [|apply (mua_even m I)].
        rewrite dget_dset. destruct (leqb_spec x l) as [->|_]; [|apply (mua_even m I)].
        intros [= <-]. eapply tc_left; [exact Hin|apply (mua_odd m I); exact Eq]. }
      constructor; simpl; [exact He| |apply (mua_iff m I)].
      intros x p. rewrite dget_dset. destruct (leqb_spec x l) as [->|_]; [|apply (mua_odd m I)].
      intros [= <-]. apply mget_anc; assumption. }
    destruct (is_iff_like (gtyp g)); [|injection H as <-; exact I1].
    binv H oper Ho. injection H as <-.
    assert (Hin : In oper (ops_of c l)) by (rewrite (ops_of_get c l g Hg); apply unary_operand_In, Ho).
    constructor; simpl; [apply (mua_even m1 I1)|apply (mua_odd m1 I1)|].
    intros x p. rewrite dget_dset. destruct (leqb_spec x l) as [->|_]; [|apply (mua_iff m1 I1)].
    intros [= <-]. apply mget_anc; [apply (mua_iff m1 I1)|exact Hin].
  Qed.

  Lemma mu_step_total m l : In l (dkeys (gates c)) -> exists m', mu_step c m l = Ok m'.
  Proof.
    intros Hl. destruct (get_gate_key c l Hl) as (g & Hg & Hd). unfold mu_step. rewrite Hg. cbn [bind].
    assert (Hop : is_not_like (gtyp g) = true \/ is_iff_like (gtyp g) = true -> exists oper, unary_operand g = Ok oper).
    { intros Hk. apply unary_operand_total; [| |exact Hk].
      - destruct Hk as [Hk|Hk]; intros E; rewrite E in Hk; discriminate.
      - apply (A l g Hd). destruct Hk as [Hk|Hk]; intros E; rewrite E in Hk; discriminate. }
    destruct (is_not_like (gtyp g)) eqn:En.
    - destruct (Hop (or_introl eq_refl)) as [oper Ho]. rewrite Ho. cbn [bind].
      destruct (is_iff_like (gtyp g)); cbn [bind]; eauto.
    - cbn [bind]. destruct (is_iff_like (gtyp g)) eqn:Ei; [|eauto].
      destruct (Hop (or_intror eq_refl)) as [oper Ho]. rewrite Ho. cbn [bind]. eauto.
  Qed.

  Lemma mu_remap_spec m x : MUAnc m -> In x (dkeys (gates c)) ->
    exists x', mu_remap c m x = Ok x' /\ (x' = x \/ tc (ops_of c) x x').
  Proof.
    intros I Hx. destruct (get_gate_key c x Hx) as (g & Hg & _). unfold mu_remap. rewrite Hg. simpl.
    assert (Hm : forall d : dict label, (forall y p, dget d y = Some p -> tc (ops_of c) y p) ->
                 mget d x = x \/ tc (ops_of c) x (mget d x)).
    { intros d Hd. unfold mget. destruct (dget d x) as [p|] eqn:Ep; [right; apply Hd, Ep|left; reflexivity]. }
    destruct (is_not_like (gtyp g)); [eexists; split; [reflexivity|apply Hm, (mua_even m I)]|].
    destruct (is_iff_like (gtyp g)); eexists; (split; [reflexivity|]); [apply Hm, (mua_iff m I)|left; reflexivity].
  Qed.

  Lemma tc_key x y : In x (dkeys (gates c)) -> tc (ops_of c) x y -> In y (dkeys (gates c)).
  Proof. intros Hx H. induction H; eapply wf_ops_key; eassumption. Qed.

  Lemma mu_remaps_spec m xs (P : label -> Prop) : MUAnc m ->
    (forall x, In x xs -> In x (dkeys (gates c))) ->
    (forall x x', In x xs -> (x' = x \/ tc (ops_of c) x x') -> P x') ->
    exists xs', mapM (mu_remap c m) xs = Ok xs' /\ forall x', In x' xs' -> P x'.
  Proof.
    intros I. induction xs as [|x xs IH]; intros Hk HP; simpl; [exists []; split; [reflexivity|intros ? []]|].
    destruct (mu_remap_spec m x I (Hk x (or_introl eq_refl))) as (x' & Hx' & Hrel). rewrite Hx'. simpl.
    destruct IH as (xs' & Hxs' & Hall); [intros; apply Hk; right; assumption|intros y y' Hy; apply HP; right; exact Hy|].
    rewrite Hxs'. simpl. exists (x' :: xs'). split; [reflexivity|].
    intros y [<-|Hy]; [eapply HP; [left; reflexivity|exact Hrel]|apply Hall, Hy].
  Qed.

  Theorem mu_total : exists c', merge_unary_operators c = Ok c'.
  Proof.
    destruct (top_sort_total c true W) as [order Hord].
    pose proof (top_sort_perm c true order W Hord) as Hperm.
    destruct (foldM_total (mu_step c) order) with (s := mkMu [] [] []) as [m Hm].
    { intros s x Hx. apply mu_step_total. eapply Permutation_in; eassumption. }
    assert (I : MUAnc m).
    { revert Hm. apply (foldM_ok_inv _ MUAnc).
      - intros s x s' _. apply mu_step_anc.
      - constructor; simpl; intros; discriminate. }
    pose proof (mu_fold_inv c W A order m Hm) as Isem.
    destruct (dfs_emission_total c true W) as [em Hem].
    pose proof (dfs_emission_spec c true em W Hem) as E.
    unfold merge_unary_operators. rewrite Hord. simpl. rewrite Hm. simpl. rewrite Hem. simpl.
    change (exists c', (do n1 <- foldM (mu_emit c m) em empty_circuit;
                        do n2 <- set_inputs n1 (inputs c);
                        do outs <- mapM (mu_remap c m) (outputs c);
                        set_outputs n2 outs) = Ok c').
    destruct (foldM_prefix_total (mu_emit c m) (MUBuild c) em) with (l := em) (pre := @nil label) (s := empty_circuit)
      as (n1 & H1 & B1).
    - intros pre x post n Eo B0. pose proof B0 as [W0 S0 K0].
      assert (Hx : In x (dkeys (gates c))) by (eapply em_key; [exact W|exact E|rewrite Eo; apply in_elt]).
      destruct (get_gate_key c x Hx) as (g & Hg & Hd).
      assert (exists n', mu_emit c m n x = Ok n') as [n' Hn'].
      { unfold mu_emit. rewrite Hg. simpl.
        destruct (mu_remaps_spec m (gops g) (fun o' => has_gate n o' = true) I) as (ops & Hops & Hin).
        - intros o Ho. eapply wf_ops_key; [exact W|]. rewrite (ops_of_get c x g Hd). exact Ho.
        - intros o o' Ho Hrel. apply K0. eapply (em_prefix_closed c true em pre x post o o' E Eo); [|exact Hrel].
          eapply (em_order c true em E); [exact Eo|]. rewrite (ops_of_get c x g Hd). exact Ho.
        - rewrite Hops. simpl. apply emplace_gate_total; [|exact Hin].
          eapply em_fresh; eassumption. }
      exists n'. split; [exact Hn'|eapply mu_emit_inv; eassumption].
    - reflexivity.
    - constructor; [apply WF_empty|apply sim_empty|]. intros x; simpl; split; [discriminate|tauto].
    - rewrite H1. simpl. destruct B1 as [W1 S1 K1].
      apply (finish_total c (eqv_all c) n1 (fun _ => mapM (mu_remap c m) (outputs c)) W W1 S1).
      + intros x Hx. apply K1. eapply em_all; eassumption.
      + intros n2 _. apply (mu_remaps_spec m (outputs c) (fun o' => has_gate n1 o' = true) I).
        * intros o Ho. apply output_key; assumption.
        * intros o o' Ho Hrel. apply K1. eapply em_all; [exact E|].
          destruct Hrel as [->|Htc]; [apply output_key; assumption|].
          eapply tc_key; [|exact Htc]. apply output_key; assumption.
  Qed.
End MUTotal.

(* ---------------- MergeEquivalentGates ---------------- *)
Lemma all_bool_vectors_length n : forall x, In x (all_bool_vectors n) -> length x = n.
Proof.
  induction n as [|n IH]; simpl; intros x Hx.
  - destruct Hx as [<-|[]]. reflexivity.
  - apply in_app_or in Hx. destruct Hx as [Hx|Hx]; apply in_map_iff in Hx;
      destruct Hx as (y & <- & Hy); simpl; rewrite (IH y Hy); reflexivity.
Qed.

Lemma zip_inputs_total ins : forall vals acc, length ins <= length vals ->
  exists r, zip_inputs ins vals acc = Ok r.
Proof.
  induction ins as [|i ins IH]; intros vals acc Hl; simpl; [eauto|].
  destruct vals as [|v vals]; simpl in Hl; [lia|]. apply IH. lia.
Qed.

Theorem evaluate_full_circuit_total c a :
  WF c -> arity_ok c -> exists d, evaluate_full_circuit c a = Ok d.
Proof.
  intros W A. destruct (top_sort_total c true W) as [order Hord].
  unfold evaluate_full_circuit. rewrite Hord. simpl.
  set (P := fun (pre : list label) (d : assignment) =>
              forall l, In l (inputs c) \/ In l pre -> dmem d l = true).
  destruct (foldM_prefix_total
              (fun d l => do g <- get_gate c l;
                          if gtype_beq (gtyp g) INPUT then Ok d else do v <- eval_gate d g; Ok (dset d l v))
              P order) with (l := order) (pre := @nil label) (s := init_assignment c a) as (d & Hd & _).
  - intros pre x post d Eo Hp.
    assert (Hx : In x (dkeys (gates c))).
    { eapply Permutation_in; [eapply top_sort_perm; eassumption|]. rewrite Eo. apply in_elt. }
    destruct (get_gate_key c x Hx) as (g & Hg & Hgd). rewrite Hg. simpl.
    destruct (gtype_beq (gtyp g) INPUT) eqn:Et.
    + exists d. split; [reflexivity|]. intros l [Hl|Hl]; [apply Hp; left; exact Hl|].
      apply in_app_or in Hl. destruct Hl as [Hl|[<-|[]]]; [apply Hp; right; exact Hl|].
      apply Hp. left. apply (wf_inputs c W). exists g. split; [exact Hgd|apply gtype_beq_eq, Et].
    + assert (Hty : gtyp g <> INPUT) by (intros E; rewrite E in Et; discriminate).
      unfold eval_gate. rewrite Et. unfold lookup_vals.
      destruct (mapM_total (fun op => match dget d op with Some v => Ok v | None => Err PyKeyError end) (gops g))
        as [vs Hvs].
      { intros o Ho. assert (dmem d o = true) as Hm.
        { apply Hp. right. eapply (top_sort_true_prefix c order W Hord); [exact Eo|].
          rewrite (ops_of_get c x g Hgd). exact Ho. }
        unfold dmem in Hm. destruct (dget d o); [eauto|discriminate]. }
      rewrite Hvs. simpl.
      destruct (operator_of_accepts (gtyp g) vs Hty) as [v Hv].
      { apply mapM_ok_Forall2 in Hvs. rewrite <- (Forall2_length' _ _ _ Hvs). apply (A x g Hgd Hty). }
      rewrite Hv. simpl. exists (dset d x v). split; [reflexivity|].
      intros l Hl. rewrite dmem_dset. destruct (leqb_spec l x) as [->|Hne]; [reflexivity|]. simpl.
      apply Hp. destruct Hl as [Hl|Hl]; [left; exact Hl|right].
      apply in_app_or in Hl. destruct Hl as [Hl|[Hl|[]]]; [exact Hl|congruence].
  - reflexivity.
  - intros l [Hl|[]]. unfold dmem, init_assignment. rewrite setdefaults_get.
    apply memb_In in Hl. rewrite Hl. destruct (dget a l); reflexivity.
  - exists d. exact Hd.
Qed.

Theorem get_gates_truth_table_total c : WF c -> arity_ok c -> exists gtt, get_gates_truth_table c = Ok gtt.
Proof.
  intros W A. unfold get_gates_truth_table. apply foldM_total. intros acc x Hx.
  apply all_bool_vectors_length in Hx.
  destruct (zip_inputs_total (inputs c) (map inj x) []) as [ax Hax]; [rewrite map_length; lia|].
  rewrite Hax. simpl. destruct (evaluate_full_circuit_total c ax W A) as [full Hfull]. rewrite Hfull. simpl. eauto.
Qed.

(* representatives are gates that were already used as operands, hence emitted *)
Theorem me_replace_total c groups : WF c -> exists c', replace_equivalent_gates c groups = Ok c'.
Proof.
  intros W. destruct (dfs_emission_total c true W) as [em Hem].
  pose proof (dfs_emission_spec c true em W Hem) as E.
  unfold replace_equivalent_gates. rewrite Hem. simpl.
  change (exists c', (do sq <- foldM (me_step c groups) em (empty_circuit, []);
                      let '(n1, k) := sq in
                      do n2 <- set_inputs n1 (inputs c);
                      set_outputs n2 (fst (me_new_names groups k (outputs c)))) = Ok c').
  set (P := fun pre (sq : circuit * keeps) =>
              MEInv c groups pre sq /\ forall i r, keep_get (snd sq) i = Some r -> In r pre).
  destruct (foldM_prefix_total (me_step c groups) P em) with (l := em) (pre := @nil label) (s := (empty_circuit, @nil (nat * label)))
    as ([n1 k] & H1 & I1 & Hk1).
  - intros pre x post [n k] Eo [I0 Hk0]. pose proof I0 as [W0 S0 HK0 K0]. simpl in *.
    assert (Hx : In x (dkeys (gates c))) by (eapply em_key; [exact W|exact E|rewrite Eo; apply in_elt]).
    destruct (get_gate_key c x Hx) as (g & Hg & Hd).
    assert (Hops : forall o, In o (gops g) -> In o pre).
    { intros o Ho. eapply (em_order c true em E); [exact Eo|]. rewrite (ops_of_get c x g Hd). exact Ho. }
    destruct (me_new_names groups k (gops g)) as [ops k'] eqn:En.
    destruct (me_new_names_spec _ _ _ _ _ HK0 En) as (_ & _ & Hk' & Hrs).
    destruct (emplace_gate_total n x (gtyp g) ops) as [n' Hn'].
    { eapply em_fresh; eassumption. }
    { intros o Ho. apply K0. destruct (Hrs o Ho) as [Ho1|(i & Hi)]; [apply Hops, Ho1|eapply Hk0, Hi]. }
    assert (Hs' : me_step c groups (n, k) x = Ok (n', k')).
    { simpl. rewrite Hg. simpl. rewrite En. rewrite Hn'. reflexivity. }
    exists (n', k'). split; [exact Hs'|]. split; [eapply me_step_inv; eassumption|].
    simpl. intros i r Hr. apply in_or_app. left.
    destruct (Hk' i r Hr) as [Hr0|Hr0]; [eapply Hk0, Hr0|apply Hops, Hr0].
  - reflexivity.
  - split; [apply MEInv_init|]. simpl. intros; discriminate.
  - rewrite H1. simpl. destruct I1 as [W1 S1 HK1 K1]. simpl in *.
    apply (finish_total c (same_group groups) n1
             (fun _ => Ok (fst (me_new_names groups k (outputs c)))) W W1 S1).
    + intros x Hx. apply K1. eapply em_all; eassumption.
    + intros n2 _. eexists. split; [reflexivity|].
      destruct (me_new_names groups k (outputs c)) as [outs k'] eqn:En. simpl.
      destruct (me_new_names_spec _ _ _ _ _ HK1 En) as (_ & _ & _ & Hrs).
      intros o Ho. apply K1. destruct (Hrs o Ho) as [Ho1|(i & Hi)]; [|eapply Hk1, Hi].
      eapply em_all; [exact E|apply output_key; assumption].
Qed.

Theorem me_total c : WF c -> arity_ok c -> exists c', merge_equivalent_gates c = Ok c'.
Proof.
  intros W A. unfold merge_equivalent_gates, find_equivalent_groups.
  destruct (get_gates_truth_table_total c W A) as [gtt Hgtt]. rewrite Hgtt. simpl.
  apply me_replace_total, W.
Qed.
