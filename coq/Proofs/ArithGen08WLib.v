(* Tools for Proofs/ArithGen08W*.v (translator T22, add_mul_wallace): the TRANSPOSITION between the matrix of the
   source - a list of n + m columns, c[col][row], cells are labels with '_PLACEHOLDER_STR_' for "no gate" - and the
   matrix of the hand model (Model/ArithMul.v) - a list of rows of [option label] cells.

       c = colsof N rows        (N = n + m;  c[col][row] = cell_label rows[row][col])

   is the invariant of every loop; [colsof_get] / [colsof_set] turn the two ways the source touches its matrix
   (`c[col][k]`, `cn[col][r] = v`) into a read / an update [upd2] of the row-major matrix, so that the loop lemmas of
   ArithGen08WInit / WRound / WFinal never mention columns.  Also here: the reference programs the loop bodies of the
   regenerated function are compared with ([wallace_col], [round_groups], [fin_step], ...). *)
Require Import Cirbo.Model.Base Cirbo.Model.Gate Cirbo.Model.Circuit Cirbo.Model.Builder Cirbo.Model.PyPrims.
Require Import Cirbo.Model.ArithSub Cirbo.Model.ArithSum2 Cirbo.Model.ArithSumN Cirbo.Model.ArithSumW.
Require Import Cirbo.Model.PyPrims08 Cirbo.Model.PyPrimsWal Cirbo.Model.ArithMul.
Require Import Cirbo.Proofs.ArithGen09Lib Cirbo.Proofs.ArithGen08Lib.
Require Import Cirbo.Proofs.ArithMulWallaceShape.
From Coq Require Import ZArith Lia Ascii.
Open Scope Z_scope.

Notation cmat := (list (list cell)) (only parsing).
Notation lmat := (list (list label)) (only parsing).

(* ---- the transposition ------------------------------------------------------------------------------------- *)
Definition col_of (R : cmat) (col : nat) : list label := map (fun row => cell_label (nth col row None)) R.
Definition colsof (N : nat) (R : cmat) : lmat := map (col_of R) (seq 0 N).
Definition widths (N : nat) (R : cmat) : Prop := Forall (fun r => length r = N) R.
Definition goodm (R : cmat) : Prop := Forall good R.
Definition okm (N : nat) (R : cmat) : Prop := widths N R /\ goodm R.
(* R[r][col] = x *)
Definition upd2 (R : cmat) (r col : nat) (x : cell) : cmat := upd R r (upd (nth r R []) col x).
(* k rows without a gate *)
Definition nones (N k : nat) : cmat := repeat (repeat None N) k.

Lemma colsof_length N R : length (colsof N R) = N.
Proof. unfold colsof. rewrite map_length, seq_length. reflexivity. Qed.

Lemma colsof_nth N R col : (col < N)%nat -> nth col (colsof N R) [] = col_of R col.
Proof.
  intros H. unfold colsof. rewrite (nth_indep _ [] (col_of R 0%nat)) by (rewrite map_length, seq_length; exact H).
  rewrite map_nth, seq_nth by exact H. reflexivity.
Qed.

Lemma col_of_length R col : length (col_of R col) = length R.
Proof. apply map_length. Qed.

Lemma col_of_nth R col r : (r < length R)%nat -> nth r (col_of R col) ""%string = cell_label (nth col (nth r R []) None).
Proof.
  intros H. unfold col_of.
  rewrite (nth_indep _ ""%string ((fun row => cell_label (nth col row None)) [])) by (rewrite map_length; exact H).
  rewrite (map_nth (fun row => cell_label (nth col row None))). reflexivity.
Qed.

Lemma widths_nth N R r : widths N R -> (r < length R)%nat -> length (nth r R []) = N.
Proof. intros W H. unfold widths in W. rewrite Forall_forall in W. apply W, nth_In, H. Qed.

(* c[col][r] *)
Lemma colsof_get fresh N R col r {B} (K : label -> prog B) s : (col < N)%nat -> (r < length R)%nat ->
  run fresh (bdo t <- py_nth (colsof N R) (Z.of_nat col); bdo u <- py_nth t (Z.of_nat r); K u) s
  = run fresh (K (cell_label (nth col (nth r R []) None))) s.
Proof.
  intros Hc Hr. rs. rewrite (py_nth_ok _ col []) by (rewrite colsof_length; exact Hc). rs.
  rewrite colsof_nth by exact Hc.
  rewrite (py_nth_ok_label _ r) by (rewrite col_of_length; exact Hr). rs.
  rewrite col_of_nth by exact Hr. reflexivity.
Qed.

(* c[col] *)
Lemma colsof_get_col fresh N R col {B} (K : list label -> prog B) s : (col < N)%nat ->
  run fresh (bdo t <- py_nth (colsof N R) (Z.of_nat col); K t) s = run fresh (K (col_of R col)) s.
Proof.
  intros Hc. rs. rewrite (py_nth_ok _ col []) by (rewrite colsof_length; exact Hc). rs.
  rewrite colsof_nth by exact Hc. reflexivity.
Qed.

Lemma upd_nth_ext {A} (l : list A) i x d k : nth k (upd l i x) d = if ((k =? i) && (i <? length l))%nat then x else nth k l d.
Proof.
  revert i k; induction l as [|y l IH]; intros [|i] [|k]; cbn [upd nth length Nat.eqb Nat.ltb Nat.leb andb]; try reflexivity.
  - destruct (k =? i)%nat; reflexivity.
  - rewrite IH. reflexivity.
Qed.

Lemma upd2_length R r col x : length (upd2 R r col x) = length R.
Proof. unfold upd2. apply upd_length. Qed.

(* the pure content of `cn[col][r] = v` *)
Lemma colsof_upd2 N R col r x : (col < N)%nat -> (r < length R)%nat -> (col < length (nth r R []))%nat ->
  upd (colsof N R) col (upd (col_of R col) r (cell_label x)) = colsof N (upd2 R r col x).
Proof.
  intros Hc Hr Hw.
  apply (nth_ext _ _ [] []); [rewrite upd_length, !colsof_length; reflexivity|].
  intros c'. rewrite upd_length, colsof_length. intros Hc'.
  rewrite upd_nth_ext, colsof_length, !colsof_nth by assumption.
  apply (nth_ext _ _ ""%string ""%string).
  { destruct ((c' =? col) && (col <? N))%nat; rewrite ?upd_length, !col_of_length, ?upd2_length; reflexivity. }
  intros r' Hr'.
  assert (Hr2 : (r' < length R)%nat).
  { destruct ((c' =? col) && (col <? N))%nat; rewrite ?upd_length, !col_of_length in Hr'; exact Hr'. }
  rewrite (col_of_nth (upd2 R r col x)) by (rewrite upd2_length; exact Hr2).
  unfold upd2 at 1. rewrite upd_nth_ext.
  destruct (Nat.eqb_spec c' col) as [->|Hne]; cbn [andb].
  - destruct (Nat.ltb_spec col N); [|lia]. rewrite upd_nth_ext, col_of_length.
    destruct (Nat.eqb_spec r' r) as [->|Hne2]; cbn [andb].
    + destruct (Nat.ltb_spec r (length R)); [|lia]. rewrite upd_nth_ext.
      rewrite Nat.eqb_refl. destruct (Nat.ltb_spec col (length (nth r R []))); [reflexivity|lia].
    + apply col_of_nth. exact Hr2.
  - rewrite col_of_nth by exact Hr2.
    destruct (Nat.eqb_spec r' r) as [->|Hne2]; cbn [andb]; [|reflexivity].
    destruct (Nat.ltb_spec r (length R)); [|lia]. rewrite upd_nth_ext.
    destruct (Nat.eqb_spec c' col); [contradiction|reflexivity].
Qed.

Lemma cell_label_cell_of l : cell_label (cell_of l) = l.
Proof. unfold cell_of. destruct (String.eqb_spec l PLACEHOLDER_STR) as [->|_]; reflexivity. Qed.

(* cn[col][r] = v   (the column is read, updated and written back) *)
Lemma colsof_set fresh N R col r v {B} (K : lmat -> prog B) s :
  (col < N)%nat -> (r < length R)%nat -> length (nth r R []) = N ->
  run fresh (bdo t <- py_nth (colsof N R) (Z.of_nat col); bdo u <- py_set t (Z.of_nat r) v;
             bdo cn <- py_set (colsof N R) (Z.of_nat col) u; K cn) s
  = run fresh (K (colsof N (upd2 R r col (cell_of v)))) s.
Proof.
  intros Hc Hr Hw. rewrite colsof_get_col by exact Hc. rs.
  rewrite py_set_nat by (rewrite col_of_length; exact Hr). rs.
  rewrite py_set_nat by (rewrite colsof_length; exact Hc). rs.
  rewrite <- (cell_label_cell_of v) at 1. rewrite colsof_upd2 by (try assumption; lia). reflexivity.
Qed.

Lemma map_const_repeat {A B} (y : B) : forall (l : list A), map (fun _ => y) l = repeat y (length l).
Proof. induction l as [|x l IH]; cbn [map length repeat]; [reflexivity|]. rewrite IH. reflexivity. Qed.

Lemma colsof_nones N k : colsof N (nones N k) = repeat (repeat PLACEHOLDER_STR k) N.
Proof.
  unfold colsof, nones.
  assert (E : forall col, col_of (repeat (repeat None N) k) col = repeat PLACEHOLDER_STR k).
  { intros col. unfold col_of. induction k as [|k IH]; cbn [repeat map]; [reflexivity|]. rewrite IH. f_equal.
    clear IH. revert col; induction N as [|N IH]; intros [|col]; cbn [repeat nth]; try reflexivity. apply IH. }
  rewrite (map_ext _ (fun _ => repeat PLACEHOLDER_STR k) E), map_const_repeat, seq_length. reflexivity.
Qed.

(* a row appended: every column gets one more element *)
Lemma col_of_snoc R rr col : col_of (R ++ [rr]) col = col_of R col ++ [cell_label (nth col rr None)].
Proof. unfold col_of. rewrite map_app. reflexivity. Qed.

Lemma widths_nones N k : widths N (nones N k).
Proof. unfold widths, nones. apply Forall_forall. intros r Hr. apply repeat_spec in Hr. subst. apply repeat_length. Qed.

Lemma widths_app N R1 R2 : widths N R1 -> widths N R2 -> widths N (R1 ++ R2).
Proof. apply Forall_app_intro || (intros; apply Forall_app; split; assumption). Qed.

Lemma widths_upd N R i r : widths N R -> length r = N -> widths N (upd R i r).
Proof. intros. apply Forall_upd; assumption. Qed.

Lemma goodm_upd R i r : goodm R -> good r -> goodm (upd R i r).
Proof. intros. apply Forall_upd; assumption. Qed.

Lemma good_cell_label x : x <> Some PLACEHOLDER_STR -> cell_of (cell_label x) = x.
Proof.
  destruct x as [l|]; cbn [cell_label]; intros H; [|reflexivity].
  apply cell_of_neq. intros ->. apply H. reflexivity.
Qed.

(* the test `c[col][k] != PLACEHOLDER_STR` on a good cell *)
Lemma good_cell_test x : x <> Some PLACEHOLDER_STR ->
  negb (String.eqb (cell_label x) PLACEHOLDER_STR) = is_some x.
Proof.
  destruct x as [l|]; cbn [cell_label is_some]; intros H.
  - destruct (String.eqb_spec l PLACEHOLDER_STR) as [->|_]; [exfalso; apply H; reflexivity|reflexivity].
  - reflexivity.
Qed.

Lemma good_nth r i : good r -> nth i r None <> Some PLACEHOLDER_STR.
Proof.
  intros G. destruct (Nat.lt_ge_cases i (length r)) as [H|H].
  - unfold good in G. rewrite Forall_forall in G. apply G, nth_In, H.
  - rewrite nth_overflow by exact H. discriminate.
Qed.

Lemma goodm_nth R r : goodm R -> good (nth r R []).
Proof.
  intros G. destruct (Nat.lt_ge_cases r (length R)) as [H|H].
  - unfold goodm in G. rewrite Forall_forall in G. apply G, nth_In, H.
  - rewrite nth_overflow by exact H. constructor.
Qed.

(* ---- reference programs ------------------------------------------------------------------------------------ *)
(* one column of a group of three rows, as Model/ArithMul.v spells it inside [wallace_group] *)
Definition wallace_col (x y z : cell) : prog (cell * cell) :=
  match cell_list x ++ cell_list y ++ cell_list z with
  | [] => Ret (None, None)
  | inp =>
    bdo res <- add_sum_n_bits (BEnum XAIG) false inp;
    match res with
    | [s] => Ret (cell_of s, None)
    | [s; cy] => Ret (cell_of s, cell_of cy)
    | _ => Fail PyIndexError
    end
  end.

Lemma wallace_group_cons x ra y rb z rc :
  wallace_group (x :: ra) (y :: rb) (z :: rc)
  = bdo sc <- wallace_col x y z; bdo rest <- wallace_group ra rb rc; Ret (fst sc :: fst rest, snd sc :: snd rest).
Proof. reflexivity. Qed.

(* what one column of group g writes: the sum bit into row 2 g, the carry one column up into row 2 g + 1 *)
Definition grp_put (N : nat) (R : cmat) (g col : nat) (a b : cell) : cmat :=
  let R1 := upd2 R (2 * g) col a in
  if (S col <? N)%nat then upd2 R1 (2 * g + 1) (S col) b else R1.

(* the first k groups of three rows of [wallace_round] *)
Fixpoint round_groups (k : nat) (rows : cmat) : prog cmat :=
  match k, rows with
  | S k', ra :: rb :: rc :: rest =>
    bdo sc <- wallace_group ra rb rc;
    bdo t <- round_groups k' rest;
    Ret (fst sc :: (None :: removelast (snd sc)) :: t)
  | _, _ => Ret []
  end.

(* the last loop of the source, one column: the state is (labels_a, labels_b, shift, zero) *)
Definition fstate : Type := (list label * list label * Z * list label)%type.

Definition mkzero (a : list label) : prog label := bdo a0 <- nthP a 0; gate_tt tt_false a0 a0.

(* _zero(): the constant-false gate, created at the first call *)
Definition zero_call (a : list label) (zs : list label) : prog (list label * label) :=
  match zs with
  | [] => bdo z <- mkzero a; Ret ([z], z)
  | z :: _ => Ret (zs, z)
  end.

Definition fin_step (a : list label) (last_a last_b : Z) (x0 x1 : cell) (i : Z) (st : fstate) : prog fstate :=
  let '(la, lb, sh, zs) := st in
  bdo r1 <- match x0 with
            | Some l => Ret (la ++ [l], zs)
            | None => if i <? last_a then bdo zz <- zero_call a zs; Ret (la ++ [snd zz], fst zz) else Ret (la, zs)
            end;
  let la := fst r1 in
  let zs := snd r1 in
  match x1 with
  | Some l => Ret (la, lb ++ [l], sh, zs)
  | None =>
    if py_len lb =? 0 then Ret (la, lb, sh + 1, zs)
    else if i <? last_b then bdo zz <- zero_call a zs; Ret (la, lb ++ [snd zz], sh, fst zz)
         else Ret (la, lb, sh, zs)
  end.

(* _last_gate(row): the last column that holds a gate, else -1 *)
Definition last_gate (r : list cell) : Z :=
  match rev (filter (fun i => is_some (nth i r None)) (seq 0 (length r))) with
  | x :: _ => Z.of_nat x
  | [] => -1
  end.

(* ---- the same as equations between programs (usable after [rs] has exposed the primitive) --------------------- *)
Lemma py_nth_colsof N R col : (col < N)%nat -> py_nth (colsof N R) (Z.of_nat col) = Ret (col_of R col).
Proof.
  intros Hc. rewrite (py_nth_ok _ col []) by (rewrite colsof_length; exact Hc). rewrite colsof_nth by exact Hc. reflexivity.
Qed.

Lemma py_nth_colsof_0 N R : (1 <= N)%nat -> py_nth (colsof N R) 0 = Ret (col_of R 0).
Proof. intros H. apply (py_nth_colsof N R 0). lia. Qed.

Lemma py_nth_col_of R col r : (r < length R)%nat ->
  py_nth (col_of R col) (Z.of_nat r) = Ret (cell_label (nth col (nth r R []) None)).
Proof.
  intros Hr. rewrite (py_nth_ok_label _ r) by (rewrite col_of_length; exact Hr). rewrite col_of_nth by exact Hr. reflexivity.
Qed.

Lemma py_set_col_of R col r v : (r < length R)%nat ->
  py_set (col_of R col) (Z.of_nat r) v = Ret (upd (col_of R col) r v).
Proof. intros Hr. apply py_set_nat. rewrite col_of_length. exact Hr. Qed.

Lemma py_set_colsof_upd2 N R col r v : (col < N)%nat -> (r < length R)%nat -> length (nth r R []) = N ->
  py_set (colsof N R) (Z.of_nat col) (upd (col_of R col) r v) = Ret (colsof N (upd2 R r col (cell_of v))).
Proof.
  intros Hc Hr Hw. rewrite py_set_nat by (rewrite colsof_length; exact Hc).
  rewrite <- (cell_label_cell_of v) at 1. rewrite colsof_upd2 by (try assumption; lia). reflexivity.
Qed.
