(* C07 structural facts by kernel computation, C: the weighted sums on an enumerated family of
   weight vectors (all vectors of length 1..6 over the weights 0..3; the partial-product shapes
   of every (n, m) <= 8): they return Ok (the fuel suffices, the sentinel branch is not taken),
   gates <= 4.5 n - 2 m for the efficient XAIG generator, levels strictly increasing, only gates of
   the basis.  (Values, levels, basis sets and the AIG / naive gate-count bounds are proved for all
   weight vectors.) *)
Require Import Cirbo.Model.Base Cirbo.Model.Gate Cirbo.Model.Circuit Cirbo.Model.Builder.
Require Import Cirbo.Model.ArithSumN Cirbo.Model.ArithSumW Cirbo.Model.SumCases.
Require Import Cirbo.Proofs.ArithSumCells Cirbo.Proofs.ArithSumStruct.

Theorem weighted_xaig_struct_small_vectors : forallb (weighted_struct_ok false XAIG) small_vectors = true.
Proof. vm_cast_no_check (@eq_refl bool true). Qed.

Theorem weighted_all_struct_vectors_upto4 :
  forallb weighted_all_ok (flat_map (fun k => vectors k [0; 1; 2; 3]%N) (seq 1 4)) = true.
Proof. vm_cast_no_check (@eq_refl bool true). Qed.

Theorem weighted_struct_pp_shapes_upto8 : forallb weighted_all_ok (pp_shapes 8) = true.
Proof. vm_cast_no_check (@eq_refl bool true). Qed.
