(* T25: summary.  Every Function-protocol method of class Circuit that translator/t25_circuit_proto.py regenerates
   from cirbo/core/circuit/circuit.py (Generated/CircuitProtoGen.v) equals the hand-model function of
   Model/FuncProto.v that the C12 theorems are about - the function FuncProto.run_query dispatches to for
   ClsCircuit on circ_rep c.

   Python ints are Z in the generated code; the hand model's indices are naturals, hence Z.of_nat _ (negative Python
   indices are outside the hand model).  The fuel parameters (Python has none) are instantiated with the fuel of
   the model's evaluators, as in C02_algorithms_regenerated: outputs_fuel for evaluate, at_fuel for evaluate_at.

   The generated code keeps the GateStates that evaluate / evaluate_at return (tp.cast is the identity) and compares
   them as they are; the hand model turns them into bools and would report an Undefined as GateStateError.  No
   Undefined comes out of a Boolean input vector, for any circuit (evaluate_no_undefined, evaluate_at_no_undefined:
   Proofs/CircuitProtoGenDef.v), so the equalities need no hypothesis about values.

   Side condition fuel_ok c = fuel_suffices c \/ ~ has_self_loop c: T10's evaluators equal the model's unless a gate
   is its own operand and the model runs out of fuel (C02_algorithms_regenerated).  It holds for every circuit that
   computes a function (circuit_computes: the hypothesis of every C12 theorem about the circuit) and for every WF
   circuit. *)
Require Import Cirbo.Model.Base Cirbo.Model.Gate Cirbo.Model.Circuit Cirbo.Model.Eval Cirbo.Model.FuncProto.
Require Import Cirbo.Model.WF.
Require Import Cirbo.Generated.CircuitCore Cirbo.Generated.CircuitAlgos.
Require Import Cirbo.Proofs.CircuitAlgosGen Cirbo.Proofs.CircuitAlgosGen2.
Require Import Cirbo.Proofs.FuncProtoQueries.
Require Import Cirbo.Generated.TruthTableCore Cirbo.Proofs.TruthTableGenPrim.
Require Import Cirbo.Generated.CircuitProtoGen.
Require Import Cirbo.Proofs.CircuitProtoGenDef Cirbo.Proofs.CircuitProtoGenLib Cirbo.Proofs.CircuitProtoGenA Cirbo.Proofs.CircuitProtoGenB.

Theorem circuit_protocol_regenerated :
  (* the two accessors (translated by the T9 / T10 machinery) *)
  (forall c, gen_output_size c = r_m (circ_rep c)) /\
  (forall c l i, gen_index_of_output c l = Ok i <->
                 nth_error (outputs c) i = Some l /\ forall j, j < i -> nth_error (outputs c) j <> Some l) /\
  (forall c l, ~ In l (outputs c) -> gen_index_of_output c l = Err GateDoesntExistError) /\
  (* the queries *)
  (forall c, fuel_ok c ->
     gen_is_constant outputs_fuel outputs_fuel c = g_is_constant (circ_rep c) /\
     (forall j : nat, gen_is_constant_at at_fuel at_fuel c (Z.of_nat j) = g_is_constant_at (circ_rep c) j) /\
     (forall inverse, gen_is_monotone outputs_fuel c inverse = circ_is_monotone (circ_rep c) inverse) /\
     (forall (j : nat) inverse,
        gen_is_monotone_at at_fuel c (Z.of_nat j) inverse = circ_is_monotone_at (circ_rep c) j inverse) /\
     gen_is_symmetric outputs_fuel outputs_fuel c = g_is_symmetric (circ_rep c) /\
     (forall j : nat, gen_is_symmetric_at at_fuel at_fuel c (Z.of_nat j) = g_is_symmetric_at (circ_rep c) j) /\
     (forall j i : nat,
        gen_is_dependent_on_input_at at_fuel at_fuel c (Z.of_nat j) (Z.of_nat i) = g_is_dependent (circ_rep c) j i) /\
     (forall j i : nat,
        gen_is_output_equal_to_input at_fuel c (Z.of_nat j) (Z.of_nat i) = g_equal_to_input false (circ_rep c) j i) /\
     (forall j i : nat,
        gen_is_output_equal_to_input_negation at_fuel c (Z.of_nat j) (Z.of_nat i)
        = g_equal_to_input true (circ_rep c) j i) /\
     (forall j : nat,
        gen_get_significant_inputs_of at_fuel at_fuel c (Z.of_nat j)
        = rmap (map Z.of_nat) (g_significant (circ_rep c) j)) /\
     (forall outs : list nat,
        gen_find_negations_to_make_symmetric outputs_fuel outputs_fuel c (map Z.of_nat outs)
        = g_find_negations (circ_rep c) outs)) /\
  (* where the side condition holds *)
  (forall c f n m, circuit_computes c f n m -> fuel_ok c) /\
  (forall c, WF c -> fuel_ok c) /\
  (* GateStates versus bools: no Undefined comes out of Boolean inputs, whatever the circuit *)
  (forall c (x : bvec) vs, evaluate c (map inj x) = Ok vs -> ~ In U vs) /\
  (forall c (x : bvec) j, evaluate_at c (map inj x) j <> Ok U).
Proof.
  split; [intros c; reflexivity|].
  split; [intros c l i; exact (proj1 (gen_index_of_output_spec c l) i)|].
  split; [intros c l; exact (proj2 (gen_index_of_output_spec c l))|].
  split; [|split; [exact circuit_computes_fuel_ok|split; [exact WF_fuel_ok|
           split; [exact evaluate_no_undefined|exact evaluate_at_no_undefined]]]].
  intros c Hb.
  split; [exact (gen_is_constant_eq c Hb)|].
  split; [exact (gen_is_constant_at_eq c Hb)|].
  split; [exact (gen_is_monotone_eq c Hb)|].
  split; [exact (gen_is_monotone_at_eq c Hb)|].
  split; [exact (gen_is_symmetric_eq c Hb)|].
  split; [exact (gen_is_symmetric_at_eq c Hb)|].
  split; [exact (gen_is_dependent_on_input_at_eq c Hb)|].
  split; [exact (gen_is_output_equal_to_input_eq c Hb)|].
  split; [exact (gen_is_output_equal_to_input_negation_eq c Hb)|].
  split; [exact (gen_get_significant_inputs_of_eq c Hb)|].
  exact (gen_find_negations_to_make_symmetric_eq c Hb).
Qed.

(* outside the side condition: T10's corner (a gate that is its own operand) shows through - the source raises
   KeyError where the model's evaluator runs out of fuel *)
Theorem circuit_protocol_corner :
  ~ fuel_ok self_loop_circuit /\
  gen_is_constant outputs_fuel outputs_fuel self_loop_circuit = Err PyKeyError /\
  g_is_constant (circ_rep self_loop_circuit) = Err OutOfFuel.
Proof.
  split; [|split; vm_compute; reflexivity].
  intros [Hf|Hs].
  - destruct (Hf [] eq_refl) as [H _]. apply H. vm_compute. reflexivity.
  - apply Hs. exists "g", (mkGate NOT ["g"]). split; [reflexivity|left; reflexivity].
Qed.
