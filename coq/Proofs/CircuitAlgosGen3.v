(* T10, third part: connect_circuit and its wrappers (connect_left, connect_right, connect_inputs,
   extend_circuit, add_circuit) regenerated from the source = Model/Connect.v. *)
Require Import Cirbo.Model.Base Cirbo.Model.Gate Cirbo.Model.Circuit Cirbo.Model.Traverse Cirbo.Model.Eval
        Cirbo.Model.Connect.
Require Import Cirbo.Generated.Operators Cirbo.Generated.GateTypes Cirbo.Generated.CircuitCore
        Cirbo.Generated.CircuitAlgos.
Require Import Cirbo.Proofs.DictFacts Cirbo.Proofs.TopSort Cirbo.Proofs.CircuitCoreGen Cirbo.Proofs.CircuitCoreGen2
        Cirbo.Proofs.CircuitAlgosGen.

(* ---------------------------------------------------------------- sets as lists *)
Lemma memb_app x (a b : list label) : memb x (a ++ b) = memb x a || memb x b.
Proof.
  induction a as [|y a IH]; simpl; [reflexivity|]. destruct (leqb x y); [reflexivity|exact IH].
Qed.

Lemma memb_set_add x s y : memb x (set_add s y) = memb x s || leqb x y.
Proof.
  unfold set_add. destruct (memb y s) eqn:E.
  - destruct (leqb_spec x y) as [->|_]; [rewrite E; reflexivity|rewrite orb_false_r; reflexivity].
  - rewrite memb_app. simpl. destruct (leqb x y); reflexivity.
Qed.

Lemma fold_set_add_le l : forall acc, length (fold_left set_add l acc) <= length acc + length l.
Proof.
  induction l as [|x l IH]; intros acc; simpl; [lia|].
  specialize (IH (set_add acc x)). unfold set_add in *.
  destruct (memb x acc); [lia|]. rewrite app_length in IH. simpl in IH. lia.
Qed.

Lemma forallb_not_in_snoc x acc l :
  forallb (fun y => negb (memb y (acc ++ [x]))) l
  = forallb (fun y => negb (memb y acc)) l && negb (memb x l).
Proof.
  induction l as [|y l IH]; simpl; [reflexivity|].
  rewrite IH, memb_app. simpl. rewrite (leqb_sym x y).
  destruct (memb y acc), (leqb y x), (forallb (fun y0 => negb (memb y0 acc)) l), (memb x l); reflexivity.
Qed.

Lemma fold_set_add_eq l : forall acc,
  Nat.eqb (length acc + length l) (length (fold_left set_add l acc))
  = nodupb l && forallb (fun x => negb (memb x acc)) l.
Proof.
  induction l as [|x l IH]; intros acc; simpl.
  - rewrite Nat.add_0_r. apply Nat.eqb_refl.
  - unfold set_add at 2. destruct (memb x acc) eqn:E; simpl.
    + rewrite andb_false_r. apply Nat.eqb_neq. pose proof (fold_set_add_le l acc). lia.
    + replace (length acc + S (length l)) with (length (acc ++ [x]) + length l)
        by (rewrite app_length; simpl; lia).
      rewrite IH, forallb_not_in_snoc.
      destruct (memb x l), (nodupb l), (forallb (fun y => negb (memb y acc)) l); reflexivity.
Qed.

(* len(xs) != len(set(xs))  <->  xs has a repeated element *)
Lemma set_of_list_nodup l : Nat.eqb (length l) (length (set_of_list l)) = nodupb l.
Proof.
  unfold set_of_list. pose proof (fold_set_add_eq l []) as H. simpl in H. rewrite H.
  replace (forallb (fun _ : label => true) l) with true; [apply andb_true_r|].
  clear. induction l; simpl; auto.
Qed.

Lemma canonical_ext c a b :
  (forall x, memb x a = memb x b) -> canonical_block_gates c a = canonical_block_gates c b.
Proof.
  intros H. unfold canonical_block_gates. induction (dkeys (gates c)) as [|k ks IH]; simpl; [reflexivity|].
  rewrite H, IH. reflexivity.
Qed.

(* ---------------------------------------------------------------- pieces of connect_circuit *)
Lemma inputs_check_eq c ls :
  check_gates_exist ls c = Ok tt ->
  foldM (fun (_ : unit) l => do t1 <- gen_get_gate c l;
                             if negb (gtype_beq (gtyp t1) INPUT) then Err CreateBlockError else Ok tt) ls tt
  = if forallb (is_input_gate c) ls then Ok tt else Err CreateBlockError.
Proof.
  induction ls as [|l ls IH]; simpl; [reflexivity|].
  unfold has_gate, dmem. rewrite gen_get_gate_eq. unfold get_gate, is_input_gate.
  destruct (dget (gates c) l) as [g|]; [|discriminate]. intros H. simpl.
  destruct (gtype_beq (gtyp g) INPUT); simpl; [apply IH; exact H|reflexivity].
Qed.

Lemma build_mapping_loop (tc : list label) : forall oc k (m : dict label),
  length oc + k <= length tc ->
  foldM (fun v_mapping (p : nat * label) =>
           do t3 <- nth_res tc (fst p);
           let v_mapping := dset v_mapping (snd p) t3 in Ok v_mapping)
        (combine (seq k (length oc)) oc) m
  = Ok (build_mapping oc (skipn k tc) m).
Proof.
  induction oc as [|o oc IH]; intros k m Hlen; [reflexivity|].
  cbn [length seq combine foldM fst snd]. simpl in Hlen.
  rewrite (skipn_nth_error tc k).
  unfold nth_res at 1. destruct (nth_error tc k) as [t|] eqn:Et.
  - cbn [bind build_mapping]. apply IH. lia.
  - apply nth_error_None in Et. lia.
Qed.

Lemma gen_build_mapping tc oc :
  length tc = length oc ->
  foldM (fun v_mapping (p : nat * label) =>
           do t3 <- nth_res tc (fst p); Ok (dset v_mapping (snd p) t3))
        (enumerate oc) []
  = Ok (build_mapping oc tc []).
Proof.
  intros H. unfold enumerate. apply (build_mapping_loop tc oc 0 []). lia.
Qed.

(* two loops whose states are related step by step *)
Definition res_rel {A B} (R : A -> B -> Prop) (r1 : res A) (r2 : res B) : Prop :=
  match r1, r2 with
  | Ok a, Ok b => R a b
  | Err e, Err e' => e = e'
  | _, _ => False
  end.

Lemma foldM_rel {A S1 S2} (R : S1 -> S2 -> Prop) (f1 : S1 -> A -> res S1) (f2 : S2 -> A -> res S2) l :
  (forall s1 s2 x, R s1 s2 -> res_rel R (f1 s1 x) (f2 s2 x)) ->
  forall s1 s2, R s1 s2 -> res_rel R (foldM f1 l s1) (foldM f2 l s2).
Proof.
  intros H. induction l as [|x xs IH]; intros s1 s2 HR; simpl; [exact HR|].
  specialize (H s1 s2 x HR). destruct (f1 s1 x) as [a|e], (f2 s2 x) as [b|e']; simpl in *;
    try contradiction; [apply IH; exact H|exact H].
Qed.

Lemma filterM_mapM {A} (p : A -> res bool) l :
  filterM p l = do r <- mapM (fun x => do b <- p x; Ok (x, b)) l; Ok (map fst (filter snd r)).
Proof.
  induction l as [|x xs IH]; simpl; [reflexivity|].
  destruct (p x) as [b|e]; simpl; [|reflexivity]. rewrite IH.
  destruct (mapM _ xs) as [r|e]; simpl; [|reflexivity]. destruct b; reflexivity.
Qed.

Definition conn_rel (s1 : circuit * list label * dict label) (s2 : circuit * dict label * list label) : Prop :=
  fst (fst s1) = fst (fst s2) /\ snd s1 = snd (fst s2) /\ forall x, memb x (snd (fst s1)) = memb x (snd s2).

(* ---------------------------------------------------------------- connect_circuit *)
Lemma gen_connect_circuit_eq c other tc oc right name ap :
  NoDup (dkeys (gates other)) ->
  gen_connect_circuit (S (size other)) c other tc oc right name ap = connect_circuit c other tc oc right name ap.
Proof.
  intros Hnd. unfold gen_connect_circuit, connect_circuit.
  apply bind_ext. intros [].
  rewrite !gen_check_gates_exist_eq.
  apply bind_congr; [reflexivity|]. intros [] Htc.
  apply bind_congr; [reflexivity|]. intros [] Hoc.
  apply bind_congr.
  { destruct right; rewrite set_of_list_nodup; [destruct (nodupb tc)|destruct (nodupb oc)]; reflexivity. }
  intros [] _.
  destruct (Nat.eqb (length tc) (length oc)) eqn:El; cbn [negb bind]; [|reflexivity].
  apply Nat.eqb_eq in El.
  apply bind_congr.
  { destruct right; rewrite bind_unit; apply inputs_check_eq; assumption. }
  intros [] _.
  rewrite (gen_build_mapping tc oc El).
  set (prefix := if negb (leqb name "") && ap then (name ++ "@")%string else "").
  replace (if negb (leqb name "") && ap then Ok (name ++ "@")%string else Ok "") with (@Ok label prefix)
    by (unfold prefix; destruct (negb (leqb name "") && ap); reflexivity).
  cbn [bind].
  set (mapping := build_mapping oc tc []).
  rewrite (foldM_gen_top_sort_k' other true _ _ _ Hnd).
  apply bind_ext. intros order. change string with label.
  match goal with |- bind (foldM ?fg order ?sg) _ = bind (foldM ?fh order ?sh) _ =>
    assert (Hrel : res_rel conn_rel (foldM fg order sg) (foldM fh order sh));
    [ apply foldM_rel; [|repeat split; reflexivity] | ]
  end.
  { intros [[cg bg] og] [[ch oh] bh] l (Hc & Ho & Hb). simpl in Hc, Ho, Hb. subst ch oh.
    destruct (get_gate other l) as [g|e]; cbn [bind fst snd]; [|exact eq_refl].
    unfold map_list, map_get, dget_res.
    destruct (dmem mapping l); cbn [negb].
    - destruct right; [|repeat split; auto].
      destruct (dget og l) as [nl|]; cbn [bind]; [|exact eq_refl].
      match goal with |- context [mapM ?f (gops g)] => destruct (mapM f (gops g)) as [ops|e] end;
        cbn [bind]; [|exact eq_refl].
      destruct (dget (gates cg) nl) as [old|]; cbn [bind]; [|exact eq_refl].
      rewrite remove_users_loop. cbn [bind]. rewrite add_users_loop. cbn [bind].
      destruct (gtype_beq (gtyp g) INPUT); cbn [negb]; (split; [|split]); cbn [fst snd]; auto.
      intros x. rewrite memb_set_add, memb_app, Hb. simpl. destruct (leqb x nl); reflexivity.
    - match goal with |- context [mapM ?f (gops g)] => destruct (mapM f (gops g)) as [ops|e] end;
        cbn [bind]; [|exact eq_refl].
      rewrite gen_emplace_gate_eq.
      destruct (emplace_gate cg (prefix ++ l)%string (gtyp g) ops) as [c'|e]; cbn [bind]; [|exact eq_refl].
      destruct (gtype_beq (gtyp g) INPUT); cbn [negb]; (split; [|split]); cbn [fst snd]; auto.
      intros x. rewrite memb_set_add, memb_app, Hb. simpl. destruct (leqb x (prefix ++ l)%string); reflexivity. }
  match goal with |- bind ?X _ = bind ?Y _ =>
    destruct X as [[[c1 blk1] o2n]|e1], Y as [[[c1' o2n'] blk2]|e2] end;
    simpl in Hrel; try contradiction; [|subst; reflexivity].
  destruct Hrel as (Hc & Ho & Hb). simpl in Hc, Ho, Hb. subst c1' o2n'. cbn [bind].
  unfold map_list, map_get, dget_res.
  apply bind_ext. intros new_outs. rewrite gen_set_outputs_eq. apply bind_ext. intros c2.
  rewrite filterM_mapM, bind_assoc.
  apply bind_congr.
  { apply mapM_ext. intros i. destruct (dget (gates c2) i); reflexivity. }
  intros keep _. cbn [bind].
  apply bind_ext. intros new_ins. rewrite gen_set_inputs_eq. apply bind_ext. intros c3.
  apply bind_congr; [reflexivity|]. intros c4 _.
  rewrite bind_ret. destruct (negb (leqb name "")); [|reflexivity].
  apply bind_ext. intros bi. apply bind_ext. intros bo.
  unfold set_to_list. rewrite (canonical_ext c4 blk1 blk2 Hb). reflexivity.
Qed.

(* ---------------------------------------------------------------- the wrappers *)
Lemma gen_connect_left_eq c other tc name ap :
  NoDup (dkeys (gates other)) ->
  gen_connect_left (S (size other)) c other tc name ap = connect_left c other tc name ap.
Proof. intros H. apply gen_connect_circuit_eq, H. Qed.

Lemma gen_connect_right_eq c other oc name ap :
  NoDup (dkeys (gates other)) ->
  gen_connect_right (S (size other)) c other oc name ap = connect_right c other oc name ap.
Proof. intros H. apply gen_connect_circuit_eq, H. Qed.

Lemma gen_connect_inputs_eq c other name ap :
  NoDup (dkeys (gates other)) ->
  gen_connect_inputs (S (size other)) c other name ap = connect_inputs c other name ap.
Proof. intros H. apply gen_connect_circuit_eq, H. Qed.

Lemma gen_extend_circuit_eq c other tc oc right name ap :
  NoDup (dkeys (gates other)) ->
  gen_extend_circuit (S (size other)) c other tc oc right name ap = extend_circuit c other tc oc right name ap.
Proof.
  intros H. unfold gen_extend_circuit, extend_circuit.
  destruct tc as [tc|], oc as [oc|]; cbn [bind]; cbv zeta; apply gen_connect_circuit_eq, H.
Qed.

Lemma gen_add_circuit_eq c other name ap :
  NoDup (dkeys (gates other)) ->
  gen_add_circuit (S (size other)) c other name ap = add_circuit c other name ap.
Proof. intros H. apply gen_connect_circuit_eq, H. Qed.
