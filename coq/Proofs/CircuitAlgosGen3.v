(* T10, third part: connect_circuit and its wrappers (connect_left, connect_right, connect_inputs,
   extend_circuit, add_circuit) regenerated from the source = Model/Connect.v. *)
Require Import Cirbo.Model.Base Cirbo.Model.Gate Cirbo.Model.Circuit Cirbo.Model.Traverse Cirbo.Model.Eval
        Cirbo.Model.Connect.
Require Import Cirbo.Generated.Operators Cirbo.Generated.GateTypes Cirbo.Generated.CircuitCore
        Cirbo.Generated.CircuitAlgos.
Require Import Cirbo.Proofs.DictFacts Cirbo.Proofs.TopSort Cirbo.Proofs.CircuitCoreGen Cirbo.Proofs.CircuitCoreGen2
        Cirbo.Proofs.CircuitAlgosGen Cirbo.Proofs.WFBase Cirbo.Proofs.WFEmplace.

(* ---------------------------------------------------------------- sets as lists *)
Lemma memb_app x (a b : list label) : memb x (a ++ b) = memb x a || memb x b.
Proof.
  induction a as [|y a IH]; simpl; [reflexivity|]. destruct (leqb x y); [reflexivity|exact IH].
Qed.

Lemma memb_set_add x s y : memb x (set_add s y) = memb x s || leqb x y.
Proof.
  unfold set_add. destruct (memb y s) eqn:E.
  - destruct (leqb_spec x y) as [->|_]; [rewrite E; reflexivity|rewrite orb_false_r; reflexivity].
  - rewrite memb_app. simpl. destruct (leqb x y); reflexivity.
Qed.

Lemma fold_set_add_le l : forall acc, length (fold_left set_add l acc) <= length acc + length l.
Proof.
  induction l as [|x l IH]; intros acc; simpl; [lia|].
  specialize (IH (set_add acc x)). unfold set_add in *.
  destruct (memb x acc); [lia|]. rewrite app_length in IH. simpl in IH. lia.
Qed.

Lemma forallb_not_in_snoc x acc l :
  forallb (fun y => negb (memb y (acc ++ [x]))) l
  = forallb (fun y => negb (memb y acc)) l && negb (memb x l).
Proof.
  induction l as [|y l IH]; simpl; [reflexivity|].
  rewrite IH, memb_app. simpl. rewrite (leqb_sym x y).
  destruct (memb y acc), (leqb y x), (forallb (fun y0 => negb (memb y0 acc)) l), (memb x l); reflexivity.
Qed.

Lemma fold_set_add_eq l : forall acc,
  Nat.eqb (length acc + length l) (length (fold_left set_add l acc))
  = nodupb l && forallb (fun x => negb (memb x acc)) l.
Proof.
  induction l as [|x l IH]; intros acc; simpl.
  - rewrite Nat.add_0_r. apply Nat.eqb_refl.
  - unfold set_add at 2. destruct (memb x acc) eqn:E; simpl.
    + rewrite andb_false_r. apply Nat.eqb_neq. pose proof (fold_set_add_le l acc). lia.
    + replace (length acc + S (length l)) with (length (acc ++ [x]) + length l)
        by (rewrite app_length; simpl; lia).
      rewrite IH, forallb_not_in_snoc.
      destruct (memb x l), (nodupb l), (forallb (fun y => negb (memb y acc)) l); reflexivity.
Qed.

(* len(xs) != len(set(xs))  <->  xs has a repeated element *)
Lemma set_of_list_nodup l : Nat.eqb (length l) (length (set_of_list l)) = nodupb l.
Proof.
  unfold set_of_list. pose proof (fold_set_add_eq l []) as H. simpl in H. rewrite H.
  replace (forallb (fun _ : label => true) l) with true; [apply andb_true_r|].
  clear. induction l; simpl; auto.
Qed.

Lemma canonical_ext c a b :
  (forall x, memb x a = memb x b) -> canonical_block_gates c a = canonical_block_gates c b.
Proof.
  intros H. unfold canonical_block_gates. induction (dkeys (gates c)) as [|k ks IH]; simpl; [reflexivity|].
  rewrite H, IH. reflexivity.
Qed.

(* ---------------------------------------------------------------- pieces of connect_circuit *)
Lemma inputs_check_eq c ls :
  check_gates_exist ls c = Ok tt ->
  foldM (fun (_ : unit) l => do t1 <- gen_get_gate c l;
                             if negb (gtype_beq (gtyp t1) INPUT) then Err CreateBlockError else Ok tt) ls tt
  = if forallb (is_input_gate c) ls then Ok tt else Err CreateBlockError.
Proof.
  induction ls as [|l ls IH]; simpl; [reflexivity|].
  unfold has_gate, dmem. rewrite gen_get_gate_eq. unfold get_gate, is_input_gate.
  destruct (dget (gates c) l) as [g|]; [|discriminate]. intros H. simpl.
  destruct (gtype_beq (gtyp g) INPUT); simpl; [apply IH; exact H|reflexivity].
Qed.

Lemma build_mapping_loop (tc : list label) : forall oc k (m : dict label),
  length oc + k <= length tc ->
  foldM (fun v_mapping (p : nat * label) =>
           do t3 <- nth_res tc (fst p);
           let v_mapping := dset v_mapping (snd p) t3 in Ok v_mapping)
        (combine (seq k (length oc)) oc) m
  = Ok (build_mapping oc (skipn k tc) m).
Proof.
  induction oc as [|o oc IH]; intros k m Hlen; [reflexivity|].
  cbn [length seq combine foldM fst snd]. simpl in Hlen.
  rewrite (skipn_nth_error tc k).
  unfold nth_res at 1. destruct (nth_error tc k) as [t|] eqn:Et.
  - cbn [bind build_mapping]. apply IH. lia.
  - apply nth_error_None in Et. lia.
Qed.

Lemma gen_build_mapping tc oc :
  length tc = length oc ->
  foldM (fun v_mapping (p : nat * label) =>
           do t3 <- nth_res tc (fst p); Ok (dset v_mapping (snd p) t3))
        (enumerate oc) []
  = Ok (build_mapping oc tc []).
Proof.
  intros H. unfold enumerate. apply (build_mapping_loop tc oc 0 []). lia.
Qed.

(* two loops whose states are related step by step *)
Definition res_rel {A B} (R : A -> B -> Prop) (r1 : res A) (r2 : res B) : Prop :=
  match r1, r2 with
  | Ok a, Ok b => R a b
  | Err e, Err e' => e = e'
  | _, _ => False
  end.

Lemma foldM_rel {A S1 S2} (R : S1 -> S2 -> Prop) (f1 : S1 -> A -> res S1) (f2 : S2 -> A -> res S2) l :
  (forall s1 s2 x, R s1 s2 -> res_rel R (f1 s1 x) (f2 s2 x)) ->
  forall s1 s2, R s1 s2 -> res_rel R (foldM f1 l s1) (foldM f2 l s2).
Proof.
  intros H. induction l as [|x xs IH]; intros s1 s2 HR; simpl; [exact HR|].
  specialize (H s1 s2 x HR). destruct (f1 s1 x) as [a|e], (f2 s2 x) as [b|e']; simpl in *;
    try contradiction; [apply IH; exact H|exact H].
Qed.

Lemma filterM_mapM {A} (p : A -> res bool) l :
  filterM p l = do r <- mapM (fun x => do b <- p x; Ok (x, b)) l; Ok (map fst (filter snd r)).
Proof.
  induction l as [|x xs IH]; simpl; [reflexivity|].
  destruct (p x) as [b|e]; simpl; [|reflexivity]. rewrite IH.
  destruct (mapM _ xs) as [r|e]; simpl; [|reflexivity]. destruct b; reflexivity.
Qed.

(* list(s) when every element of s is a gate *)
Lemma set_to_list_gates c s :
  (forall x, memb x s = true -> has_gate c x = true) -> set_to_list c s = canonical_block_gates c s.
Proof.
  intros H. unfold set_to_list.
  replace (filter (fun x => negb (has_gate c x)) s) with (@nil label); [apply app_nil_r|].
  symmetry. assert (Hs : forall x, In x s -> has_gate c x = true) by (intros x Hx; apply H, memb_In, Hx).
  clear H. induction s as [|y s IH]; simpl; [reflexivity|].
  rewrite (Hs y (or_introl eq_refl)). simpl. apply IH. intros x Hx. apply Hs. right. exact Hx.
Qed.

Lemma has_gate_emplace c l t ops c' :
  emplace_gate c l t ops = Ok c' -> forall x, has_gate c' x = leqb x l || has_gate c x.
Proof.
  unfold emplace_gate. destruct (check_label_doesnt_exist l c); simpl; [|discriminate].
  destruct (check_gates_exist ops c); simpl; [|discriminate]. intros [= <-] x.
  unfold has_gate. rewrite emplace_raw_gates. apply dmem_dset.
Qed.

(* the states of the main loop: the regenerated one is (self, gates_for_block, old_to_new_names), the model's
   (c, o2n, blk); gates_for_block is a set (no repetitions), blk a list, and every element is a gate of self *)
Definition conn_rel (s1 : circuit * list label * dict label) (s2 : circuit * dict label * list label) : Prop :=
  fst (fst s1) = fst (fst s2) /\ snd s1 = snd (fst s2) /\ (forall x, memb x (snd (fst s1)) = memb x (snd s2)) /\
  (forall x, memb x (snd (fst s1)) = true -> has_gate (fst (fst s1)) x = true).

(* ---------------------------------------------------------------- connect_circuit *)
Lemma gen_connect_circuit_eq c other tc oc right name ap :
  NoDup (dkeys (gates other)) ->
  gen_connect_circuit size_fuel c other tc oc right name ap = connect_circuit c other tc oc right name ap.
Proof.
  intros Hnd. unfold gen_connect_circuit, connect_circuit, size_fuel.
  apply bind_ext. intros [].
  rewrite !gen_check_gates_exist_eq.
  apply bind_congr; [reflexivity|]. intros [] Htc.
  apply bind_congr; [reflexivity|]. intros [] Hoc.
  apply bind_congr.
  { destruct right; rewrite !set_of_list_nodup; [destruct (nodupb tc); [destruct (nodupb oc)|]|destruct (nodupb oc)]; reflexivity. }
  intros [] _.
  destruct (Nat.eqb (length tc) (length oc)) eqn:El; cbn [negb bind]; [|reflexivity].
  apply Nat.eqb_eq in El.
  apply bind_congr.
  { destruct right; rewrite bind_unit; apply inputs_check_eq; assumption. }
  intros [] _.
  rewrite (gen_build_mapping tc oc El).
  set (prefix := if negb (leqb name "") && ap then (name ++ "@")%string else "").
  replace (if negb (leqb name "") && ap then Ok (name ++ "@")%string else Ok "") with (@Ok label prefix)
    by (unfold prefix; destruct (negb (leqb name "") && ap); reflexivity).
  cbn [bind].
  set (mapping := build_mapping oc tc []).
  rewrite (foldM_gen_top_sort_k' other true _ _ _ Hnd).
  apply bind_ext. intros order. change string with label.
  match goal with |- bind (foldM ?fg order ?sg) _ = bind (foldM ?fh order ?sh) _ =>
    assert (Hrel : res_rel conn_rel (foldM fg order sg) (foldM fh order sh));
    [ apply foldM_rel; [|repeat split; try reflexivity; discriminate] | ]
  end.
  { intros [[cg bg] og] [[ch oh] bh] l (Hc & Ho & Hb & Hg). simpl in Hc, Ho, Hb, Hg. subst ch oh.
    destruct (get_gate other l) as [g|e]; cbn [bind fst snd]; [|exact eq_refl].
    unfold map_list, map_get, dget_res.
    destruct (dmem mapping l); cbn [negb].
    - destruct right; [|repeat split; auto].
      destruct (dget og l) as [nl|]; cbn [bind]; [|exact eq_refl].
      match goal with |- context [mapM ?f (gops g)] => destruct (mapM f (gops g)) as [ops|e] end;
        cbn [bind]; [|exact eq_refl].
      destruct (dget (gates cg) nl) as [old|] eqn:Eold; cbn [bind]; [|exact eq_refl].
      rewrite remove_users_loop. cbn [bind]. rewrite add_users_loop. cbn [bind].
      assert (Hgates : gates (add_users (remove_users cg (gops old) nl) ops nl) = gates cg).
      { destruct (add_users_frame (remove_users cg (gops old) nl) ops nl) as (A & _).
        destruct (remove_users_frame cg (gops old) nl) as (B & _). congruence. }
      assert (Hhas : forall x, has_gate (set_gates (add_users (remove_users cg (gops old) nl) ops nl)
                                 (dset (gates (add_users (remove_users cg (gops old) nl) ops nl)) nl
                                       (mkGate (gtyp g) ops))) x = leqb x nl || has_gate cg x).
      { intros x. unfold has_gate. simpl. rewrite Hgates. apply dmem_dset. }
      destruct (gtype_beq (gtyp g) INPUT); cbn [negb]; (split; [|split; [|split]]); cbn [fst snd]; auto.
      + intros x Hx. rewrite Hhas, (Hg x Hx). apply orb_true_r.
      + intros x. rewrite memb_set_add, memb_app, Hb. simpl. destruct (leqb x nl); reflexivity.
      + intros x. rewrite memb_set_add, Hhas. intros Hx. apply orb_true_iff in Hx.
        destruct Hx as [Hx|Hx]; [rewrite (Hg x Hx); apply orb_true_r|rewrite Hx; reflexivity].
    - match goal with |- context [mapM ?f (gops g)] => destruct (mapM f (gops g)) as [ops|e] end;
        cbn [bind]; [|exact eq_refl].
      rewrite gen_emplace_gate_eq.
      destruct (emplace_gate cg (prefix ++ l)%string (gtyp g) ops) as [c'|e] eqn:Ee; cbn [bind]; [|exact eq_refl].
      pose proof (has_gate_emplace _ _ _ _ _ Ee) as Hhas.
      destruct (gtype_beq (gtyp g) INPUT); cbn [negb]; (split; [|split; [|split]]); cbn [fst snd]; auto.
      + intros x Hx. rewrite Hhas, (Hg x Hx). apply orb_true_r.
      + intros x. rewrite memb_set_add, memb_app, Hb. simpl. destruct (leqb x (prefix ++ l)%string); reflexivity.
      + intros x. rewrite memb_set_add, Hhas. intros Hx. apply orb_true_iff in Hx.
        destruct Hx as [Hx|Hx]; [rewrite (Hg x Hx); apply orb_true_r|rewrite Hx; reflexivity]. }
  match goal with |- bind ?X _ = bind ?Y _ =>
    destruct X as [[[c1 blk1] o2n]|e1], Y as [[[c1' o2n'] blk2]|e2] end;
    simpl in Hrel; try contradiction; [|subst; reflexivity].
  destruct Hrel as (Hc & Ho & Hb & Hg). simpl in Hc, Ho, Hb, Hg. subst c1' o2n'. cbn [bind].
  unfold map_list, map_get, dget_res.
  apply bind_ext. intros new_outs. rewrite gen_set_outputs_eq.
  apply bind_congr; [reflexivity|]. intros c2 E2.
  rewrite filterM_mapM, bind_assoc.
  apply bind_congr.
  { apply mapM_ext. intros i. destruct (dget (gates c2) i); reflexivity. }
  intros keep _. cbn [bind].
  apply bind_ext. intros new_ins. rewrite gen_set_inputs_eq.
  apply bind_congr; [reflexivity|]. intros c3 E3.
  apply bind_congr; [reflexivity|]. intros c4 E4.
  rewrite bind_ret. destruct (negb (leqb name "")); [|reflexivity].
  apply bind_ext. intros bi. apply bind_ext. intros bo.
  (* every element of gates_for_block is a gate of the final circuit: list(set) loses nothing *)
  assert (G2 : gates c2 = gates c1).
  { unfold set_outputs in E2. destruct (check_gates_exist _ c1); simpl in E2; [|discriminate].
    injection E2 as <-. reflexivity. }
  assert (G3 : gates c3 = gates c2).
  { unfold set_inputs in E3. destruct (check_gates_exist _ c2); simpl in E3; [|discriminate].
    destruct (forallb _ (gates c2)); [|discriminate].
    destruct (set_inputs_loop c2 _ []); simpl in E3; [|discriminate]. injection E3 as <-. reflexivity. }
  assert (G4 : gates c4 = gates c3).
  { revert E4. apply (foldM_ok_inv _ (fun c' => gates c' = gates c3)); [|reflexivity].
    intros s kb s' _ Hs. destruct (check_block_doesnt_exist _ s); simpl; [|discriminate].
    repeat match goal with |- bind ?X _ = _ -> _ => destruct X; simpl; [|discriminate] end.
    intros [= <-]. exact Hs. }
  rewrite set_to_list_gates.
  2:{ intros x Hx. unfold has_gate. rewrite G4, G3, G2. apply (Hg x Hx). }
  rewrite (canonical_ext c4 blk1 blk2 Hb). reflexivity.
Qed.

(* ---------------------------------------------------------------- the wrappers *)
Lemma gen_connect_left_eq c other tc name ap :
  NoDup (dkeys (gates other)) ->
  gen_connect_left size_fuel c other tc name ap = connect_left c other tc name ap.
Proof. intros H. apply gen_connect_circuit_eq, H. Qed.

Lemma gen_connect_right_eq c other oc name ap :
  NoDup (dkeys (gates other)) ->
  gen_connect_right size_fuel c other oc name ap = connect_right c other oc name ap.
Proof. intros H. apply gen_connect_circuit_eq, H. Qed.

Lemma gen_connect_inputs_eq c other name ap :
  NoDup (dkeys (gates other)) ->
  gen_connect_inputs size_fuel c other name ap = connect_inputs c other name ap.
Proof. intros H. apply gen_connect_circuit_eq, H. Qed.

Lemma gen_extend_circuit_eq c other tc oc right name ap :
  NoDup (dkeys (gates other)) ->
  gen_extend_circuit size_fuel c other tc oc right name ap = extend_circuit c other tc oc right name ap.
Proof.
  intros H. unfold gen_extend_circuit, extend_circuit.
  destruct tc as [tc|], oc as [oc|]; cbn [bind]; cbv zeta; apply gen_connect_circuit_eq, H.
Qed.

Lemma gen_add_circuit_eq c other name ap :
  NoDup (dkeys (gates other)) ->
  gen_add_circuit size_fuel c other name ap = add_circuit c other name ap.
Proof. intros H. apply gen_connect_circuit_eq, H. Qed.
