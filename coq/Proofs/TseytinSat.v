(* C05 (iii): default output selection, and the corollary for is_circuit_satisfiable with the
   SAT solver as a Section variable assumed sound and complete (any solver: pysat's, the
   harness shim, ...). *)
Require Import Cirbo.Model.Base Cirbo.Model.Gate Cirbo.Model.Den Cirbo.Model.Circuit Cirbo.Model.Eval
        Cirbo.Model.Sem Cirbo.Model.Cnf Cirbo.Model.TseytinAlg.
Require Import Cirbo.Proofs.DictFacts Cirbo.Proofs.SemFacts Cirbo.Proofs.TseytinSound.
Local Open Scope Z_scope.

(* ---------- outputs=None selects every output, in order --------------------------- *)
Lemma output_at_index_nat c i o :
  nth_error (outputs c) i = Some o -> output_at_index_z c (Z.of_nat i) = Ok o.
Proof.
  intros H. unfold output_at_index_z.
  assert (Hlt : (i < length (outputs c))%nat) by (apply nth_error_Some; congruence).
  destruct (Z.geb_spec (Z.of_nat i) (Z.of_nat (length (outputs c)))); [lia|].
  destruct (Z.ltb_spec (Z.of_nat i) (- Z.of_nat (length (outputs c)))); [lia|].
  destruct (Z.ltb_spec (Z.of_nat i) 0); [lia|].
  rewrite Nat2Z.id. unfold nth_res. rewrite H. reflexivity.
Qed.

Lemma mapM_outputs_from c : forall m k,
  (k + m <= length (outputs c))%nat ->
  mapM (output_at_index_z c) (map Z.of_nat (seq k m)) = Ok (firstn m (skipn k (outputs c))).
Proof.
  induction m as [|m IH]; intros k Hk; [reflexivity|].
  cbn [seq map mapM].
  destruct (nth_error (outputs c) k) as [o|] eqn:E; [|apply nth_error_None in E; lia].
  rewrite (output_at_index_nat _ _ _ E). cbn [bind].
  rewrite IH by lia. cbn [bind].
  f_equal.
  assert (Hs : skipn k (outputs c) = o :: skipn (S k) (outputs c)).
  { clear -E. revert k E. induction (outputs c) as [|x l IHl]; intros [|k] E; cbn in *; try discriminate.
    - injection E as ->. reflexivity.
    - apply IHl; exact E. }
  rewrite Hs. reflexivity.
Qed.

Theorem selected_outputs_default c : selected_outputs c None = Ok (outputs c).
Proof.
  unfold selected_outputs, selected_indices.
  rewrite mapM_outputs_from by lia. cbn [skipn]. rewrite firstn_all. reflexivity.
Qed.

(* ---------- the assignment a valuation projects onto ------------------------------ *)
Lemma assign_from_get sigma : forall ls k i l,
  NoDup ls -> nth_error ls i = Some l ->
  dget (assign_from sigma ls k) l = Some (inj (sigma (k + Z.of_nat i))).
Proof.
  induction ls as [|x ls IH]; intros k i l Hnd Hi; [destruct i; discriminate|].
  inversion Hnd as [|? ? Hx Hnd']; subst. cbn [assign_from dget].
  destruct i as [|i]; cbn [nth_error] in Hi.
  - injection Hi as ->. rewrite leqb_refl. do 3 f_equal. lia.
  - destruct (leqb_spec l x) as [->|_]; [exfalso; apply Hx; eapply nth_error_In; exact Hi|].
    rewrite (IH _ _ _ Hnd' Hi). do 3 f_equal. lia.
Qed.

Lemma assignment_of_agrees c sigma :
  inputs_exact c -> agrees_on_inputs c (assignment_of c sigma) sigma.
Proof.
  intros (Hnd & _ & _) i l Hi. unfold aval, assignment_of.
  rewrite (assign_from_get _ _ _ _ _ Hnd Hi). do 2 f_equal. lia.
Qed.

Lemma assignment_of_total c sigma : inputs_exact c -> total_on c (assignment_of c sigma).
Proof.
  intros (Hnd & _ & H3) l g Hg Ht.
  destruct (In_nth_error _ _ (H3 _ _ Hg Ht)) as (i & Hi).
  unfold aval, assignment_of. rewrite (assign_from_get _ _ _ _ _ Hnd Hi).
  destruct (sigma (1 + Z.of_nat i)); discriminate.
Qed.

(* ---------- the satisfiability query ----------------------------------------------- *)
Section Solver.
  Variable solve : list (list Z) -> option (list Z).
  (* (H-solver) the SAT solver is sound and complete *)
  Hypothesis solve_sound : forall f m, solve f = Some m -> sat (sigma_of_model m) f = true.
  Hypothesis solve_complete : forall f, solve f = None -> forall sigma, sat sigma f = false.

  Definition all_outputs_true (c : circuit) (a : assignment) : Prop :=
    Forall (fun o => Eval c a o T) (outputs c).

  Lemma tseytin_cnf_inv c f :
    tseytin_cnf c None = Ok f -> exists lit, tseytin_fuel (S (size c)) c None = Ok (f, lit).
  Proof.
    unfold tseytin_cnf, tseytin. destruct (tseytin_fuel (S (size c)) c None) as [[f' lit]|]; cbn; [|discriminate].
    intros [= <-]. eauto.
  Qed.

  (* a returned model satisfies the CNF and projects onto an input assignment under which all
     outputs are True *)
  Theorem circuit_sat_model c m :
    tseytin_wf c = true -> is_circuit_satisfiable solve c = Ok (Some m) ->
    exists f, tseytin_cnf c None = Ok f /\ sat (sigma_of_model m) f = true /\
      total_on c (assignment_of c (sigma_of_model m)) /\
      agrees_on_inputs c (assignment_of c (sigma_of_model m)) (sigma_of_model m) /\
      all_outputs_true c (assignment_of c (sigma_of_model m)).
  Proof.
    intros Hwf. destruct (tseytin_wf_spec _ Hwf) as [Hin Har].
    unfold is_circuit_satisfiable. destruct (tseytin_cnf c None) as [f|] eqn:Ef; cbn [bind]; [|discriminate].
    intros [= Hs]. exists f. split; [reflexivity|].
    apply solve_sound in Hs. split; [exact Hs|].
    assert (Htot := assignment_of_total c (sigma_of_model m) Hin).
    assert (Hag := assignment_of_agrees c (sigma_of_model m) Hin).
    split; [exact Htot|]. split; [exact Hag|].
    destruct (tseytin_cnf_inv _ _ Ef) as (lit & Et).
    destruct (tseytin_fuel_exact c _ Hin Har Htot _ _ _ _ Et) as (sel & Esel & _ & _ & Hiff & _).
    rewrite selected_outputs_default in Esel. injection Esel as <-.
    apply Hiff. exists (sigma_of_model m). split; assumption.
  Qed.

  (* the answer False means no total input assignment makes all outputs True *)
  Theorem circuit_unsat c :
    tseytin_wf c = true -> is_circuit_satisfiable solve c = Ok None ->
    forall a, total_on c a -> ~ all_outputs_true c a.
  Proof.
    intros Hwf. destruct (tseytin_wf_spec _ Hwf) as [Hin Har].
    unfold is_circuit_satisfiable. destruct (tseytin_cnf c None) as [f|] eqn:Ef; cbn [bind]; [|discriminate].
    intros [= Hs] a Htot Hall.
    destruct (tseytin_cnf_inv _ _ Ef) as (lit & Et).
    destruct (tseytin_fuel_exact c _ Hin Har Htot _ _ _ _ Et) as (sel & Esel & _ & _ & Hiff & _).
    rewrite selected_outputs_default in Esel. injection Esel as <-.
    apply Hiff in Hall. destruct Hall as (sigma & Hsat & _).
    rewrite (solve_complete _ Hs sigma) in Hsat. discriminate.
  Qed.

  (* the query answers True exactly when some total assignment makes all outputs True *)
  Theorem circuit_sat_answer c r :
    tseytin_wf c = true -> is_circuit_satisfiable solve c = Ok r ->
    ((exists m, r = Some m) <-> exists a, total_on c a /\ all_outputs_true c a).
  Proof.
    intros Hwf Hr. split.
    - intros (m & ->). destruct (circuit_sat_model _ _ Hwf Hr) as (f & _ & _ & Ht & _ & Ho). eauto.
    - intros (a & Ht & Ho). destruct r as [m|]; [eauto|].
      exfalso. exact (circuit_unsat _ Hwf Hr a Ht Ho).
  Qed.
End Solver.

(* ---------- (ii) restated for the run the implementation corresponds to, with the
   hypotheses as executable predicates ---------------------------------------------- *)
Theorem tseytin_exact c a outs f lit :
  tseytin_wf c = true -> total_on c a -> tseytin c outs = Ok (f, lit) ->
  exists sel, selected_outputs c outs = Ok sel /\
    (forall i l, nth_error (inputs c) i = Some l -> dget lit l = Some (Z.of_nat i + 1)) /\
    (forall o, In o sel -> dmem lit o = true) /\
    ((exists sigma, sat sigma f = true /\ agrees_on_inputs c a sigma) <-> Forall (fun o => Eval c a o T) sel) /\
    (forall sigma, sat sigma f = true -> agrees_on_inputs c a sigma ->
                   forall l v, dget lit l = Some v -> Eval c a l (inj (sigma v))).
Proof.
  intros Hwf Htot. destruct (tseytin_wf_spec _ Hwf) as [Hin Har].
  apply tseytin_fuel_exact; assumption.
Qed.
