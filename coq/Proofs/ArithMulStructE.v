Require Import Cirbo.Model.Base Cirbo.Model.MulCases Cirbo.Proofs.ArithMulStruct.
(* the recursion of Karatsuba is entered (n = 18) and returns *)
Lemma mul_struct_karatsuba_eff_18 : mul_struct_ok FKaratsubaEff (18, 18)%nat = true.
Proof. vm_compute. reflexivity. Qed.
