(* The traversal of a well-formed circuit without a raising hook: total within
   traverse_fuel, yields exactly the reachable gates once each, hook discipline,
   DFS post-order, unvisited hook. *)
Require Import Cirbo.Model.Base Cirbo.Model.Gate Cirbo.Model.Circuit Cirbo.Model.Traverse Cirbo.Model.WF.
Require Import Cirbo.Proofs.DictFacts Cirbo.Proofs.TopSort Cirbo.Proofs.TopSortWF.
Require Import Cirbo.Proofs.TraverseStep Cirbo.Proofs.TraverseInv Cirbo.Proofs.TraverseDfs
               Cirbo.Proofs.TraverseFuel.

Definition start_list (inverse : bool) (c : circuit) (starts : option (list label)) : list label :=
  match starts with Some s => s | None => if inverse then inputs c else outputs c end.

Lemma start_list_default_ok inverse c : WF c ->
  forall s, In s (start_list inverse c None) -> has_gate c s = true.
Proof.
  intros Hwf s Hs. simpl in Hs. destruct inverse.
  - apply (wf_inputs c Hwf) in Hs. destruct Hs as (g & Hg & _). unfold has_gate, dmem. rewrite Hg. reflexivity.
  - apply (wf_outs c Hwf); exact Hs.
Qed.

Lemma traverse_nonempty mode inverse c starts tu abort : gates c <> [] ->
  traverse mode inverse c starts tu abort =
  (do r <- traverse_loop (traverse_fuel c (start_list inverse c starts)) mode inverse c abort []
                         (start_list inverse c starts) [];
   let '(sts, log) := r in
   do order <- (if tu then top_sort true c else Ok (dkeys (gates c)));
   let unv := filter (fun l => tstate_beq (state_of sts l) UNVISITED) order in
   Ok (log ++ map EvUnvisited unv ++ [EvEnd])).
Proof. unfold traverse, start_list. destruct (gates c); [congruence|reflexivity]. Qed.

Lemma traverse_empty mode inverse c starts tu abort : gates c = [] ->
  traverse mode inverse c starts tu abort = Ok [].
Proof. unfold traverse. intros ->. reflexivity. Qed.

(* the loop only logs enter / discover / yield / exit events *)
Definition loop_event (e : event) : Prop :=
  match e with EvUnvisited _ | EvEnd => False | _ => True end.

Lemma InvL_step mode inverse c abort x y :
  Forall loop_event (snd x) -> Step mode inverse c abort x y -> Forall loop_event (snd y).
Proof.
  intros HI HS. destruct HS; simpl in *.
  - apply Forall_app. split; [exact HI|]. constructor; [exact I|].
    apply Forall_app. split; [|constructor; [exact I|constructor]].
    unfold dlog. apply Forall_forall. intros e He. apply in_map_iff in He. destruct He as (ch & <- & _). exact I.
  - apply Forall_app. split; [exact HI|]. constructor; [exact I|constructor].
  - exact HI.
Qed.

Lemma InvL_steps mode inverse c abort x y :
  Steps mode inverse c abort x y -> Forall loop_event (snd x) -> Forall loop_event (snd y).
Proof. apply (Steps_inv mode inverse c abort (fun x => Forall loop_event (snd x))). intros; eapply InvL_step; eauto. Qed.

Lemma loop_event_unvisited log : Forall loop_event log -> unvisited_of log = [] /\ ~ In EvEnd log.
Proof.
  induction 1 as [|e l He _ [IH1 IH2]]; simpl; [auto|].
  split.
  - rewrite IH1. destruct e; simpl in *; try reflexivity; contradiction.
  - intros [H|H]; [subst e; exact He|contradiction].
Qed.

Definition tail_evs (unv : list label) : list event := map EvUnvisited unv ++ [EvEnd].
Lemma yielded_tail unv : yielded (tail_evs unv) = [].
Proof. unfold tail_evs. rewrite yielded_app. simpl. rewrite app_nil_r. induction unv; simpl; auto. Qed.
Lemma enters_tail unv : enters (tail_evs unv) = [].
Proof. unfold tail_evs. rewrite enters_app. simpl. rewrite app_nil_r. induction unv; simpl; auto. Qed.
Lemma exits_tail unv : exits (tail_evs unv) = [].
Proof. unfold tail_evs. rewrite exits_app. simpl. rewrite app_nil_r. induction unv; simpl; auto. Qed.
Lemma unvisited_tail unv : unvisited_of (tail_evs unv) = unv.
Proof.
  unfold tail_evs. rewrite unvisited_of_app. simpl. rewrite app_nil_r.
  induction unv; simpl; [reflexivity|rewrite IHunv; reflexivity].
Qed.

(* ---------------- acyclicity of a well-formed circuit in terms of paths ---------------- *)
Lemma wf_no_cycle inverse c : WF c -> forall x, ~ tc (nxt inverse c) x x.
Proof.
  intros Hwf. destruct (wf_acyclic c Hwf) as [rank Hrank].
  assert (Hedge : forall a b, In b (ops_of c a) -> rank b < rank a).
  { intros a b Hb. unfold ops_of in Hb. destruct (dget (gates c) a) as [g|] eqn:E; [|contradiction].
    eapply Hrank; eauto. }
  destruct inverse; simpl.
  - assert (H : forall a b, tc (users_of c) a b -> rank a < rank b).
    { induction 1 as [a b Hb|a b d _ IH Hd].
      - apply Hedge. apply (wf_users_ops c Hwf); exact Hb.
      - apply (wf_users_ops c Hwf) in Hd. apply Hedge in Hd. lia. }
    intros x Hx. apply H in Hx. lia.
  - assert (H : forall a b, tc (ops_of c) a b -> rank b < rank a).
    { induction 1 as [a b Hb|a b d _ IH Hd]; [apply Hedge; exact Hb|apply Hedge in Hd; lia]. }
    intros x Hx. apply H in Hx. lia.
Qed.

Lemma wf_closed inverse c : WF c -> forall l ch, key c l -> In ch (nxt inverse c l) -> key c ch.
Proof.
  intros Hwf l ch _ Hch. unfold key. destruct inverse; simpl in Hch.
  - eapply wf_users_key; eauto.
  - eapply wf_ops_key; eauto.
Qed.

Lemma wf_fuel_ok inverse c sl : WF c ->
  mu inverse c ([], sl, []) < traverse_fuel c sl.
Proof.
  intros Hwf. rewrite mu_init. unfold traverse_fuel, size.
  assert (E : list_sum (map (fun l => length (nxt inverse c l)) (dkeys (gates c))) = sum_arity c).
  { destruct inverse; simpl; [apply sum_users_arity; exact Hwf|apply sum_ops_arity, (wf_gkeys c Hwf)]. }
  rewrite E. lia.
Qed.

(* ---------------- what a traversal log satisfies ---------------- *)
Record TravPost (mode : tmode) (inverse : bool) (c : circuit) (sl : list label) (tu : bool)
       (log : list event) : Prop := mkTravPost {
  tp_nodup : NoDup (yielded log);
  tp_reach : forall l, In l (yielded log) <-> reach (nxt inverse c) sl l;
  tp_enters : enters log = yielded log;
  tp_prec : forall l, precedes (EvEnter l) (EvExit l) log;
  tp_exits_nodup : NoDup (exits log);
  tp_bfs : mode = BFS -> exits log = [];
  tp_dfs : mode = DFS -> forall l, In l (exits log) <-> In l (yielded log);
  tp_post : mode = DFS -> forall a b, In a (yielded log) -> tc (nxt inverse c) a b ->
                          precedes (EvExit b) (EvExit a) log;
  tp_unv : exists order, (if tu then top_sort true c = Ok order else order = dkeys (gates c)) /\
             unvisited_of log = filter (fun l => negb (memb l (yielded log))) order;
  tp_shape : gates c <> [] -> exists log0 unv,
             log = log0 ++ map EvUnvisited unv ++ [EvEnd] /\ unvisited_of log0 = [] /\ ~ In EvEnd log0 }.

Section Spec.
  Variable mode : tmode.
  Variable inverse : bool.
  Variable c : circuit.
  Variable starts : option (list label).
  Variable tu : bool.
  Let sl := start_list inverse c starts.
  Hypothesis Hwf : WF c.
  Hypothesis Hsl : forall s, In s sl -> has_gate c s = true.
  Notation nx := (nxt inverse c).

  Lemma traverse_wf_run : exists sts log0,
    traverse_loop (traverse_fuel c sl) mode inverse c no_abort [] sl [] = Ok (sts, log0) /\
    Steps mode inverse c no_abort ([], sl, []) (sts, [], log0).
  Proof.
    destruct (loop_total mode inverse c no_abort (traverse_fuel c sl) [] sl [] (wf_fuel_ok inverse c sl Hwf))
      as [(sts & log0 & H)|(e & y & H1 & H2 & H3)].
    - exists sts, log0. split; [exact H|]. eapply loop_ok_steps; eauto.
    - exfalso. destruct y as [[sts q] lg].
      assert (HK : InvK c (sts, q, lg)).
      { eapply (InvK_steps mode inverse c no_abort (wf_closed inverse c Hwf)); [exact H2|].
        intros l Hl. simpl in Hl. apply has_gate_key, Hsl; exact Hl. }
      destruct (StepErr_abort mode inverse c no_abort (wf_closed inverse c Hwf) _ _ _ _ HK H3)
        as (cur & rest & ch & _ & _ & _ & _ & Hab). discriminate.
  Qed.

  Theorem traverse_wf_spec :
    exists log, traverse mode inverse c starts tu no_abort = Ok log /\ TravPost mode inverse c sl tu log.
  Proof.
    assert (Hcase : gates c = [] \/ gates c <> []).
    { clear. destruct (gates c); [left; reflexivity|right; discriminate]. }
    destruct Hcase as [Eg|Hne].
    - exists []. split; [apply traverse_empty; exact Eg|].
      assert (Hnil : sl = []).
      { destruct sl as [|s r] eqn:E; [reflexivity|exfalso].
        assert (Hs : has_gate c s = true) by (apply Hsl; left; reflexivity).
        unfold has_gate, dmem in Hs. rewrite Eg in Hs. discriminate. }
      assert (Hnr : forall l, ~ reach nx sl l).
      { intros l H. rewrite Hnil in H. induction H as [s Hs|a b _ IH _]; [destruct Hs|exact IH]. }
      constructor.
      + constructor.
      + intros l. simpl. split; [tauto|apply Hnr].
      + reflexivity.
      + intros l pre post E. destruct pre; discriminate.
      + constructor.
      + reflexivity.
      + intros _ l; simpl; tauto.
      + intros _ a b [].
      + exists []. split; [|reflexivity]. destruct tu; [unfold top_sort|]; rewrite Eg; reflexivity.
      + congruence.
    - destruct traverse_wf_run as (sts & log0 & Hrun & HSt).
      destruct (top_sort_total c true Hwf) as [ord Hord].
      set (order := if tu then ord else dkeys (gates c)).
      assert (Ho : (if tu then top_sort true c else Ok (dkeys (gates c))) = Ok order).
      { unfold order. destruct tu; [exact Hord|reflexivity]. }
      pose proof (InvA_steps mode inverse c no_abort sl _ _ HSt (InvA_init mode inverse c sl)) as HA.
      unfold InvA' in HA; simpl in HA.
      pose proof (InvL_steps _ _ _ _ _ _ HSt (Forall_nil _)) as HL. simpl in HL.
      apply loop_event_unvisited in HL. destruct HL as [HL1 HL2].
      set (unv := filter (fun l => tstate_beq (state_of sts l) UNVISITED) order).
      assert (Hunv : unv = filter (fun l => negb (memb l (yielded log0))) order).
      { unfold unv. apply filter_ext. intros l.
        destruct (memb l (yielded log0)) eqn:Em; simpl.
        - apply memb_In in Em. apply (A_yield _ _ _ _ _ _ _ HA) in Em.
          destruct (state_of sts l); [congruence|reflexivity|reflexivity].
        - apply memb_nIn in Em. rewrite (A_yield _ _ _ _ _ _ _ HA) in Em.
          destruct (state_of sts l); [reflexivity|exfalso; apply Em; discriminate|exfalso; apply Em; discriminate]. }
      exists (log0 ++ tail_evs unv). split.
      { rewrite (traverse_nonempty _ _ _ _ _ _ Hne). fold sl. rewrite Hrun. simpl. rewrite Ho. reflexivity. }
      assert (Hy : yielded (log0 ++ tail_evs unv) = yielded log0)
        by (rewrite yielded_app, yielded_tail, app_nil_r; reflexivity).
      assert (Hx : exits (log0 ++ tail_evs unv) = exits log0)
        by (rewrite exits_app, exits_tail, app_nil_r; reflexivity).
      assert (Hxin : forall l, ~ In (EvExit l) (tail_evs unv)).
      { intros l H. apply exits_In in H. rewrite exits_tail in H. exact H. }
      assert (Hfin : forall l, state_of sts l <> UNVISITED ->
                 (mode = DFS -> state_of sts l = VISITED) ).
      { intros l Hl Em. subst mode.
        pose proof (InvP_steps inverse c no_abort _ _ HSt (InvP_init inverse c sl)) as HP.
        unfold InvP' in HP; simpl in HP.
        destruct (state_of sts l) eqn:E; [congruence| |reflexivity].
        destruct (P_in _ _ _ _ HP l E). }
      constructor.
      + rewrite Hy. exact (A_nodup _ _ _ _ _ _ _ HA).
      + intros l. rewrite Hy. apply (InvA_final mode inverse c sl sts log0 HA).
      + rewrite Hy, enters_app, enters_tail, app_nil_r. exact (A_enters _ _ _ _ _ _ _ HA).
      + intros l. apply precedes_app; [exact (A_prec _ _ _ _ _ _ _ HA l)|]. intros H; exfalso; eapply Hxin; eauto.
      + rewrite Hx. exact (A_exits _ _ _ _ _ _ _ HA).
      + intros Em. rewrite Hx. destruct (exits log0) as [|l r] eqn:E; [reflexivity|exfalso].
        assert (Hin : In l (exits log0)) by (rewrite E; left; reflexivity).
        apply exits_In in Hin. apply (A_exit _ _ _ _ _ _ _ HA) in Hin. destruct Hin as [Hd _]. congruence.
      + intros Em l. rewrite Hx, Hy, exits_In, (A_exit _ _ _ _ _ _ _ HA), (A_yield _ _ _ _ _ _ _ HA). split.
        * intros [_ H]; congruence.
        * intros H. split; [exact Em|apply Hfin; assumption].
      + intros Em a b Ha Htc. rewrite Hy in Ha. subst mode.
        assert (HI : InvAll inverse c sl (sts, [], log0)).
        { eapply (InvAll_steps inverse c no_abort sl); [right; apply wf_no_cycle; exact Hwf|exact HSt|apply InvAll_init]. }
        apply (A_yield _ _ _ _ _ _ _ HA) in Ha.
        destruct (InvAll_final_post inverse c sl sts log0 HI a b Ha Htc) as [_ Hpr].
        apply precedes_app; [exact Hpr|]. intros H; exfalso; eapply Hxin; eauto.
      + exists order. split; [unfold order; destruct tu; [exact Hord|reflexivity]|].
        rewrite unvisited_of_app, HL1, unvisited_tail, Hy. exact Hunv.
      + intros _. exists log0, unv. split; [reflexivity|]. split; assumption.
  Qed.
End Spec.

Theorem traverse_wf_post mode inverse c starts tu log :
  WF c -> (forall s, In s (start_list inverse c starts) -> has_gate c s = true) ->
  traverse mode inverse c starts tu no_abort = Ok log ->
  TravPost mode inverse c (start_list inverse c starts) tu log.
Proof.
  intros Hwf Hsl Hlog.
  destruct (traverse_wf_spec mode inverse c starts tu Hwf Hsl) as (log' & Hl & HP).
  assert (log = log') by congruence. subst. exact HP.
Qed.
