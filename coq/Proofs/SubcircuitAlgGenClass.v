(* T21: the classification block of minimize_subcircuits regenerated = SubcircuitAlg.classify_outputs, and what
   the classification means for the patterns. *)
Require Import Cirbo.Model.Base Cirbo.Model.Gate Cirbo.Model.Circuit Cirbo.Model.Eval Cirbo.Model.PatternSim.
Require Import Cirbo.Generated.PatternOps Cirbo.Model.SubcircuitPrims Cirbo.Model.SubcircuitAlg.
Require Import Cirbo.Generated.SubcircuitAlgGen Cirbo.Proofs.SubcircuitPrimsFacts.

Lemma leaves_loop sub : forall l fp,
  foldM (gen_classify_outputs_for1 sub) l fp =
  Ok (fold_left (fun fp l => py_adict_set N.eqb fp (pat_get (Subcircuit_patterns sub) l) l) l fp).
Proof. apply foldM_pure. intros fp l. reflexivity. Qed.

Definition class_tuple (r : classification) :=
  (cl_found r, cl_filtered r, cl_filtered_lst r, cl_trivial r, cl_negated r).

Lemma step_eq sub mx r o :
  gen_classify_outputs_for2 sub mx (class_tuple r) o =
  Ok (class_tuple (classify_step (Subcircuit_patterns sub) mx r o)).
Proof.
  destruct r as [fp fs fl tr ng].
  unfold gen_classify_outputs_for2, classify_step, class_tuple, py_adict_mem, py_adict_get. cbv beta iota zeta.
  cbn [cl_found cl_filtered cl_filtered_lst cl_trivial cl_negated].
  change (py_ddict_get (Subcircuit_patterns sub) o 0%N) with (pat_get (Subcircuit_patterns sub) o).
  destruct (py_adict_find N.eqb fp (pat_get (Subcircuit_patterns sub) o)) as [l|]; [reflexivity|].
  destruct (py_adict_find N.eqb fp (mx - pat_get (Subcircuit_patterns sub) o)%N) as [l|]; reflexivity.
Qed.

Lemma outputs_loop sub mx : forall l r,
  foldM (gen_classify_outputs_for2 sub mx) l (class_tuple r) =
  Ok (class_tuple (fold_left (classify_step (Subcircuit_patterns sub) mx) l r)).
Proof.
  induction l as [|o l IH]; intros r; [reflexivity|]. cbn [foldM fold_left]. rewrite step_eq. cbn [bind]. apply IH.
Qed.

Theorem gen_classify_outputs_eq : forall sub inputs,
  gen_classify_outputs sub inputs =
  let r := classify_outputs (Subcircuit_patterns sub) inputs (Subcircuit_outputs sub) in
  Ok (cl_found r, max_pattern (N.of_nat (length inputs)), cl_filtered r, cl_filtered_lst r, cl_trivial r, cl_negated r).
Proof.
  intros sub inputs. unfold gen_classify_outputs. cbv beta iota zeta.
  rewrite leaves_loop. cbn [bind].
  change (N.shiftl 1 (N.shiftl 1 (py_len inputs)) - 1)%N with (max_pattern (py_len inputs)).
  pose proof (outputs_loop sub (max_pattern (py_len inputs)) (Subcircuit_outputs sub)
                (mkClass (found_of_leaves (Subcircuit_patterns sub) inputs) [] [] [] [])) as H.
  unfold class_tuple at 1 in H. cbn [cl_found cl_filtered cl_filtered_lst cl_trivial cl_negated] in H.
  unfold found_of_leaves in H.
  refine (eq_trans (f_equal (fun x => bind x _) H) _). reflexivity.
Qed.

(* ---- what the classification says about the patterns ---- *)
Section Meaning.
Variables (pats : dict N) (leaves : list label) (mx : N).

(* every owner of a pattern has that pattern and is a leaf or a filtered output *)
Definition found_ok (r : classification) : Prop :=
  forall p l, py_adict_find N.eqb (cl_found r) p = Some l ->
              pat_get pats l = p /\ (In l leaves \/ In l (cl_filtered_lst r)).
Definition trivial_ok (r : classification) : Prop :=
  forall o l, dget (cl_trivial r) o = Some l ->
              pat_get pats o = pat_get pats l /\ (In l leaves \/ In l (cl_filtered_lst r)).
Definition negated_ok (r : classification) : Prop :=
  forall o l, dget (cl_negated r) o = Some l ->
              pat_get pats l = (mx - pat_get pats o)%N /\ (In l leaves \/ In l (cl_filtered_lst r)).

Lemma find_set_same {V} (d : list (N * V)) k v : py_adict_find N.eqb (py_adict_set N.eqb d k v) k = Some v.
Proof.
  induction d as [|[k' v'] d IH]; simpl; [rewrite N.eqb_refl; reflexivity|].
  destruct (N.eqb_spec k k') as [->|Hne]; simpl; [rewrite N.eqb_refl; reflexivity|].
  destruct (N.eqb_spec k k'); [contradiction|exact IH].
Qed.

Lemma find_set_other {V} (d : list (N * V)) k k' v :
  k' <> k -> py_adict_find N.eqb (py_adict_set N.eqb d k v) k' = py_adict_find N.eqb d k'.
Proof.
  intros Hne. induction d as [|[k0 v0] d IH]; simpl.
  - destruct (N.eqb_spec k' k); [contradiction|reflexivity].
  - destruct (N.eqb_spec k k0) as [->|H0]; simpl.
    + destruct (N.eqb_spec k' k0); [contradiction|reflexivity].
    + destruct (N.eqb_spec k' k0); [reflexivity|exact IH].
Qed.

Lemma dget_dset_cases {V} (d : dict V) k v k' x :
  dget (dset d k v) k' = Some x -> (k' = k /\ x = v) \/ (k' <> k /\ dget d k' = Some x).
Proof.
  induction d as [|[k0 v0] d IH]; simpl.
  - destruct (leqb_spec k' k) as [->|Hne]; [intros H; inversion H; auto|discriminate].
  - destruct (leqb_spec k k0) as [->|H0]; simpl.
    + destruct (leqb_spec k' k0) as [->|Hne]; [intros H; inversion H; auto|intros H; right; auto].
    + destruct (leqb_spec k' k0) as [->|Hne].
      * intros H. right. split; [congruence|exact H].
      * exact IH.
Qed.

Lemma found_leaves_ok : forall l fp,
  (forall p x, py_adict_find N.eqb fp p = Some x -> pat_get pats x = p /\ In x leaves) ->
  (forall x, In x l -> In x leaves) ->
  forall p x, py_adict_find N.eqb (fold_left (fun fp l => py_adict_set N.eqb fp (pat_get pats l) l) l fp) p = Some x ->
              pat_get pats x = p /\ In x leaves.
Proof.
  induction l as [|y l IH]; intros fp Hfp Hl; [exact Hfp|]. cbn [fold_left]. apply IH.
  - intros p x. destruct (N.eq_dec p (pat_get pats y)) as [->|Hne].
    + rewrite find_set_same. intros H; inversion H; subst. split; [reflexivity|apply Hl; left; reflexivity].
    + rewrite find_set_other by exact Hne. apply Hfp.
  - intros x Hx. apply Hl. right; exact Hx.
Qed.

Lemma step_ok r o : found_ok r /\ trivial_ok r /\ negated_ok r ->
  let r' := classify_step pats mx r o in found_ok r' /\ trivial_ok r' /\ negated_ok r'.
Proof.
  intros (Hf & Ht & Hn). unfold classify_step.
  destruct (py_adict_find N.eqb (cl_found r) (pat_get pats o)) as [l|] eqn:E1; cbv zeta.
  - split; [exact Hf|split; [|exact Hn]]. intros o' l'. cbn [cl_trivial cl_filtered_lst].
    intros H. apply dget_dset_cases in H. destruct H as [[-> ->]|[_ H]]; [|apply Ht; exact H].
    destruct (Hf _ _ E1) as [H1 H2]. split; [symmetry; exact H1|exact H2].
  - destruct (py_adict_find N.eqb (cl_found r) (mx - pat_get pats o)%N) as [l|] eqn:E2.
    + split; [exact Hf|split; [exact Ht|]]. intros o' l'. cbn [cl_negated cl_filtered_lst].
      intros H. apply dget_dset_cases in H. destruct H as [[-> ->]|[_ H]]; [|apply Hn; exact H].
      exact (Hf _ _ E2).
    + assert (Hw : forall l, In l leaves \/ In l (cl_filtered_lst r) -> In l leaves \/ In l (cl_filtered_lst r ++ [o])).
      { intros l [H|H]; [left; exact H|right; apply in_or_app; left; exact H]. }
      split; [|split].
      * intros p l. cbn [cl_found cl_filtered_lst].
        destruct (N.eq_dec p (pat_get pats o)) as [->|Hne].
        -- rewrite find_set_same. intros H; inversion H; subst. split; [reflexivity|].
           right. apply in_or_app. right. left. reflexivity.
        -- rewrite find_set_other by exact Hne. intros H. destruct (Hf _ _ H) as [H1 H2]. split; [exact H1|apply Hw; exact H2].
      * intros o' l' H. cbn [cl_trivial cl_filtered_lst] in *. destruct (Ht _ _ H) as [H1 H2]. split; [exact H1|apply Hw; exact H2].
      * intros o' l' H. cbn [cl_negated cl_filtered_lst] in *. destruct (Hn _ _ H) as [H1 H2]. split; [exact H1|apply Hw; exact H2].
Qed.
End Meaning.

(* a trivial output has the pattern of its owner, a negated output the complementary pattern; the owner is a leaf
   of the cut or a filtered output *)
Theorem classify_outputs_meaning : forall pats leaves outs,
  let r := classify_outputs pats leaves outs in
  let mx := max_pattern (N.of_nat (length leaves)) in
  (forall o l, dget (cl_trivial r) o = Some l ->
     pat_get pats o = pat_get pats l /\ (In l leaves \/ In l (cl_filtered_lst r))) /\
  (forall o l, dget (cl_negated r) o = Some l ->
     pat_get pats l = (mx - pat_get pats o)%N /\ (In l leaves \/ In l (cl_filtered_lst r))).
Proof.
  intros pats leaves outs r mx.
  assert (Hall : forall outs r0,
             found_ok pats leaves r0 /\ trivial_ok pats leaves r0 /\ negated_ok pats leaves mx r0 ->
             found_ok pats leaves (fold_left (classify_step pats mx) outs r0) /\
             trivial_ok pats leaves (fold_left (classify_step pats mx) outs r0) /\
             negated_ok pats leaves mx (fold_left (classify_step pats mx) outs r0)).
  { clear. induction outs as [|o outs IH]; intros r0 H0; [exact H0|]. cbn [fold_left]. apply IH.
    apply (step_ok pats leaves mx r0 o H0). }
  assert (H0 : found_ok pats leaves (mkClass (found_of_leaves pats leaves) [] [] [] []) /\
               trivial_ok pats leaves (mkClass (found_of_leaves pats leaves) [] [] [] []) /\
               negated_ok pats leaves mx (mkClass (found_of_leaves pats leaves) [] [] [] [])).
  { split; [|split].
    - intros p l. cbn [cl_found cl_filtered_lst]. unfold found_of_leaves. intros H.
      assert (Hnil : forall p x, @py_adict_find N label N.eqb [] p = Some x -> pat_get pats x = p /\ In x leaves)
        by (intros ? ? Hd; discriminate).
      destruct (found_leaves_ok pats leaves leaves [] Hnil (fun x Hx => Hx) p l H) as [H1 H2].
      split; [exact H1|left; exact H2].
    - intros o l H; discriminate.
    - intros o l H; discriminate. }
  destruct (Hall outs _ H0) as (_ & Ht & Hn). split; [exact Ht|exact Hn].
Qed.
