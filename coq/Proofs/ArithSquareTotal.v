(* C08, termination, part 6: add_square_pow2_m1, add_mul_karatsuba (Karatsuba over add_mul_pow2_m1)
   and add_square return Ok for all widths >= 1.

   add_square_pow2_m1: every level but the last receives a product or a square ([sq_feeds_nonempty]: the
   rows of the strict upper triangle have the lengths n - 1, n - 2, ..., 0 = the number of squares still to
   come, [chain]); level 2 receives two bits, so from there on every level also receives a carry, which
   keeps the last level (2 n - 1, carries only) non-empty. *)
Require Import Cirbo.Model.Base Cirbo.Model.Gate Cirbo.Model.Den Cirbo.Model.Circuit
  Cirbo.Model.Eval Cirbo.Model.Sem Cirbo.Model.Builder.
Require Import Cirbo.Generated.ArithTables Cirbo.Generated.ArithCells.
Require Import Cirbo.Model.ArithSub Cirbo.Model.ArithSum2 Cirbo.Model.ArithSumN Cirbo.Model.ArithSumW
  Cirbo.Model.ArithMul Cirbo.Model.ArithSquare.
Require Import Cirbo.Proofs.DictFacts Cirbo.Proofs.BuilderFacts Cirbo.Proofs.ArithFacts
  Cirbo.Proofs.TotalFacts Cirbo.Proofs.ArithTotalFacts Cirbo.Proofs.FreshOnly
  Cirbo.Proofs.ArithMulFacts Cirbo.Proofs.ArithMulDiag Cirbo.Proofs.ArithMulPow2 Cirbo.Proofs.ArithMulKara
  Cirbo.Proofs.ArithSquareFacts
  Cirbo.Proofs.ArithMulTotal Cirbo.Proofs.ArithMulWallaceShape Cirbo.Proofs.ArithMulWallaceTotal
  Cirbo.Proofs.ArithMulTotalKara Cirbo.Proofs.ArithMulTotalW Cirbo.Proofs.ArithMulTotalP.

(* the pending rows have the lengths d, d - 1, ..., 0 *)
Fixpoint chain (pend : list (list label)) (d : nat) : Prop :=
  match pend with
  | [] => False
  | row :: rest => length row = d /\ match d with O => True | S d' => chain rest d' end
  end.

Lemma sq_rows_chain fresh : forall xs s rows s',
  run fresh (sq_rows xs) s = Ok (rows, s') -> xs <> [] -> chain rows (length xs - 1).
Proof.
  induction xs as [|xi rest IH]; intros s rows s' H Hne; [contradiction|].
  cbn [sq_rows] in H. apply run_bind_inv in H as (row & s1 & Hrow & H).
  apply run_bind_inv in H as (rows' & s2 & Hrows & H). apply run_ret_inv in H as (-> & _).
  apply mapP_length in Hrow. replace (length (xi :: rest) - 1)%nat with (length rest) by (simpl; lia).
  cbn [chain]. split; [exact Hrow|].
  destruct rest as [|xj rest']; [exact I|]. cbn [length].
  specialize (IH _ _ _ Hrows ltac:(discriminate)).
  replace (length (xj :: rest') - 1)%nat with (length rest') in IH by (simpl; lia). exact IH.
Qed.

Lemma sq_feeds_nonempty : forall k even (act pend : list (list label)) (diag : list label),
  chain pend (length diag) ->
  (even = false -> exists pre r, act = pre ++ [r] /\ length r = length diag) ->
  Forall nonempty (firstn (if even then 2 * length diag - 1 else 2 * length diag) (sq_feeds k even act pend diag)).
Proof.
  induction k as [|k IH]; intros even act pend diag Hc Ha; cbn [sq_feeds]; [rewrite firstn_nil; constructor|].
  destruct even.
  - destruct diag as [|x diag']; [cbn [length firstn Nat.mul Nat.sub]; constructor|].
    destruct pend as [|row rest]; [contradiction|]. destruct Hc as (Lrow & Hc'). cbn [length] in *.
    replace (2 * S (length diag') - 1)%nat with (S (2 * length diag')) by lia. cbn [firstn skipn negb].
    constructor.
    + unfold nonempty. rewrite app_length. simpl. lia.
    + apply (IH false); [exact Hc'|]. intros _. exists (map (@tl label) act), (tl row).
      split; [rewrite map_app; reflexivity|]. destruct row; simpl in *; lia.
  - destruct (Ha eq_refl) as (pre & r & -> & Lr).
    destruct (length diag) as [|d'] eqn:Ed; [cbn [firstn Nat.mul]; constructor|].
    replace (2 * S d')%nat with (S (2 * S d' - 1)) by lia. cbn [firstn negb]. constructor.
    + rewrite app_nil_r. apply heads1_last_nonempty. rewrite last_snoc. unfold nonempty. lia.
    + specialize (IH true (map (@tl label) (pre ++ [r])) pend diag). rewrite Ed in IH. apply IH; [exact Hc|discriminate].
Qed.

Lemma firstn_removelast {A} : forall (l : list A) k, length l = S k -> firstn k l = removelast l.
Proof.
  induction l as [|x l IH]; intros k L; [discriminate|]. destruct l as [|y l].
  - simpl in L. injection L as <-. reflexivity.
  - destruct k as [|k]; [simpl in L; lia|]. change (removelast (x :: y :: l)) with (x :: removelast (y :: l)).
    cbn [firstn]. f_equal. apply IH. simpl in *. lia.
Qed.

Section SquareTotal.
  Variable fresh : N -> label.
  Hypothesis Hf : fresh_total fresh.
  Hypothesis Hfr : forall k, fresh k <> ""%string.

  Ltac finish := cbn [run]; eexists _, _; split; [reflexivity|].

  Lemma noE_fo : forall A (p : prog A) s r s', fo p -> run fresh p s = Ok (r, s') -> noE (bc s) -> noE (bc s').
  Proof. intros A p s r s' Hp H H0. exact (fo_absent fresh p _ _ _ _ Hp H Hfr H0). Qed.

  Lemma sq_row_ok xi : forall rest s, has_gate (bc s) xi = true -> all_exist (bc s) rest ->
    exists row s', run fresh (mapP (fun xj => gate_tt tt_and xi xj) rest) s = Ok (row, s') /\ all_exist (bc s') row.
  Proof.
    induction rest as [|xj rest IH]; intros s Hi Hr; cbn [mapP].
    - finish. constructor.
    - inversion Hr as [|? ? Hj Hr']; subst.
      destruct (gate_tt_ok fresh tt_and xi xj s Hf Hi Hj) as (g & s1 & E1 & G1).
      rewrite (bind_ok _ _ _ _ _ _ E1). pose proof (run_ext _ _ _ _ _ E1) as X1.
      destruct (IH s1) as (row & s2 & E2 & Arow); [eapply ext_has_gate; eassumption|eapply all_exist_ext; eassumption|].
      rewrite (bind_ok _ _ _ _ _ _ E2). finish.
      constructor; [eapply ext_has_gate; [eapply run_ext; exact E2|exact G1]|exact Arow].
  Qed.

  Lemma sq_rows_ok : forall xs s, all_exist (bc s) xs ->
    exists rows s', run fresh (sq_rows xs) s = Ok (rows, s') /\ mat_exist (bc s') rows.
  Proof.
    induction xs as [|xi rest IH]; intros s Ax; cbn [sq_rows].
    - finish. constructor.
    - inversion Ax as [|? ? Hi Ar]; subst.
      destruct (sq_row_ok xi rest s Hi Ar) as (row & s1 & E1 & Arow).
      rewrite (bind_ok _ _ _ _ _ _ E1). pose proof (run_ext _ _ _ _ _ E1) as X1.
      destruct (IH s1) as (rows & s2 & E2 & Arows); [eapply all_exist_ext; eassumption|].
      rewrite (bind_ok _ _ _ _ _ _ E2). finish.
      constructor; [eapply all_exist_ext; [eapply run_ext; exact E2|exact Arow]|exact Arows].
  Qed.

  Lemma sq_feeds_exist c : forall k even act pend diag,
    mat_exist c act -> mat_exist c pend -> all_exist c diag -> mat_exist c (sq_feeds k even act pend diag).
  Proof.
    induction k as [|k IH]; intros even act pend diag Aa Ap Ad; cbn [sq_feeds]; [constructor|].
    assert (mat_exist c (if even then act ++ firstn 1 pend else act)) as A1.
    { destruct even; [|exact Aa]. apply Forall_app. split; [exact Aa|].
      destruct Ap; simpl; constructor; [assumption|constructor]. }
    constructor.
    - apply all_exist_app; [apply heads1_exist, A1|]. destruct even; [apply all_exist_firstn, Ad|constructor].
    - apply IH; [apply tl_exist, A1| |].
      + destruct even; [destruct Ap; simpl; [constructor|assumption]|exact Ap].
      + destruct even; [apply all_exist_skipn, Ad|exact Ad].
  Qed.

  Theorem add_square_pow2_m1_ok xs be s :
    xs <> [] -> all_exist (bc s) xs -> noE (bc s) ->
    exists rs s', run fresh (add_square_pow2_m1 xs be) s = Ok (rs, s') /\ all_exist (bc s') rs.
  Proof.
    intros Hx Ax H0. unfold add_square_pow2_m1. rewrite rev_if_length.
    pose proof (length_nonnil _ Hx) as Hn. set (n := length xs) in *.
    assert (all_exist (bc s) (rev_if be xs)) as Ax' by apply all_exist_rev_if, Ax.
    destruct (n =? 1)%nat eqn:En.
    { finish. apply all_exist_rev_if, Ax'. }
    apply Nat.eqb_neq in En.
    destruct (sq_rows_ok (rev_if be xs) s Ax') as (rows & s1 & E1 & Arows).
    rewrite (bind_ok _ _ _ _ _ _ E1). pose proof (run_ext _ _ _ _ _ E1) as X1.
    pose proof (noE_fo _ _ _ _ _ (fo_sq_rows _) E1 H0) as H01.
    apply sq_rows_chain in E1; [|apply rev_if_nonempty, Hx]. rewrite rev_if_length in E1. fold n in E1.
    assert (length (rev_if be xs) = n) as Lx' by apply rev_if_length.
    destruct (rev_if be xs) as [|x0 [|x1 xs'']] eqn:Exs; try (simpl in Lx'; lia).
    unfold nthP, nth_res. cbn [nth_error ret_res]. rewrite run_ret_bind.
    assert (has_gate (bc s1) x0 = true) as Hx0.
    { eapply ext_has_gate; [exact X1|]. inversion Ax'; assumption. }
    destruct (gate_tt_ok fresh tt_false x0 x0 s1 Hf Hx0 Hx0) as (zero & s2 & E2 & G2).
    rewrite (bind_ok _ _ _ _ _ _ E2). pose proof (run_ext _ _ _ _ _ E2) as X2.
    pose proof (noE_fo _ _ _ _ _ (fo_gate_tt _ _ _) E2 H01) as H02.
    cbn [skipn]. set (diag := x1 :: xs'') in *.
    assert (length diag = (n - 1)%nat) as Ld by (unfold diag; simpl in *; lia).
    set (feeds := sq_feeds (2 * n - 2) true [] rows diag).
    set (d0 := [[[x0]]; [[zero]]]).
    assert (all_exist (bc s2) diag) as Adiag.
    { eapply all_exist_ext; [exact (ext_trans _ _ _ X1 X2)|]. inversion Ax'; assumption. }
    destruct (gen_levels_ok fresh Hf Hfr feeds d0 s2 false) as (d & s3 & E3 & Ad & H03).
    { (* the shape of the feeds *)
      pose proof (sq_feeds_nonempty (2 * n - 2) true [] rows diag) as Hne. rewrite Ld in Hne.
      specialize (Hne E1 ltac:(discriminate)). fold feeds in Hne.
      pose proof (sq_feeds_length (2 * n - 2) true [] rows diag) as Lf. fold feeds in Lf.
      unfold feeds in *. clearbody diag.
      destruct rows as [|row0 rows']; [exact (False_ind _ E1)|]. destruct E1 as (Lr0 & _).
      destruct row0 as [|y row0']; [simpl in Lr0; lia|]. destruct diag as [|x1' diag']; [simpl in Ld; lia|].
      destruct (2 * n - 2)%nat as [|k] eqn:Ek; [lia|]. cbn [sq_feeds firstn skipn app heads1 flat_map] in *.
      cbn [feeds_ok length Nat.add Nat.leb]. split; [lia|]. apply feeds_ok_true.
      replace (2 * (n - 1) - 1)%nat with (S (k - 1)) in Hne by lia. cbn [firstn] in Hne.
      rewrite <- (firstn_removelast _ (k - 1)); [|cbn [length] in Lf; lia].
      exact (Forall_inv_tail Hne). }
    { discriminate. }
    { apply sq_feeds_exist; [constructor|eapply mat_exist_ext; eassumption|exact Adiag]. }
    { unfold d0. repeat constructor; [eapply ext_has_gate; eassumption|exact G2]. }
    { exact H02. }
    unfold feeds in E3. rewrite <- sq_levels_gen in E3. rewrite (bind_ok _ _ _ _ _ _ E3).
    rewrite sq_levels_gen in E3. apply gen_levels_spec in E3 as (_ & _ & _ & Fs & _).
    assert (Forall single_head d0) as Hs0
      by (constructor; [exists x0; reflexivity|constructor; [exists zero; reflexivity|constructor]]).
    destruct (first_first_ok fresh d (Fs Hs0)) as (res & Er & Ares).
    rewrite (bind_ok _ _ _ _ _ _ (Er s3)). finish. apply all_exist_rev_if, Ares, Ad.
  Qed.

  (* ---- Karatsuba over add_mul_pow2_m1, add_square ---- *)
  Theorem add_mul_karatsuba_ok xs ys be s :
    xs <> [] -> ys <> [] -> all_exist (bc s) xs -> all_exist (bc s) ys -> noE (bc s) ->
    exists rs s', run fresh (add_mul_karatsuba xs ys be) s = Ok (rs, s') /\ all_exist (bc s') rs.
  Proof.
    intros Hx Hy Ax Ay H0. unfold add_mul_karatsuba.
    apply (kara_total fresh Hf noE noE_fo (fun c => has_gate c "" = false) _ pow2_m1_mul_spec); try assumption.
    - intros x y. apply fo_add_mul_pow2_m1.
    - intros W x y s0 Hxne Ly _ Axx Ayy H00. apply add_mul_pow2_m1_ok; try assumption.
      apply nonnil_length. rewrite Ly. apply length_nonnil, Hxne.
  Qed.

  Theorem add_square_total_ok xs be s :
    xs <> [] -> all_exist (bc s) xs -> noE (bc s) ->
    exists rs s', run fresh (add_square xs be) s = Ok (rs, s') /\ all_exist (bc s') rs.
  Proof.
    intros Hx Ax H0. apply (add_square_ok fresh Hf noE noE_fo); try assumption.
    - intros x s0 Hxne Axx H00. apply add_square_pow2_m1_ok; assumption.
    - intros x y s0 Hxne Hyne Axx Ayy H00. apply add_mul_karatsuba_ok; assumption.
  Qed.
End SquareTotal.
