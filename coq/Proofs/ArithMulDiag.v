(* C08, part 2: reading a partial-product matrix by anti-diagonals (Model/ArithMul.v [diagonals],
   [pow2_levels], Model/ArithSquare.v [sq_levels]): the rows that have entered (`act`) are consumed
   head first, one new row of `pend` enters per level.  Value of such a state:
       peel_val act pend = sum of the active rows + mval pend
   and one level takes the heads off:  peel_val = ones(heads) + 2 * peel_val(next state). *)
Require Import Cirbo.Model.Base Cirbo.Model.Gate Cirbo.Model.Den Cirbo.Model.Circuit
  Cirbo.Model.Eval Cirbo.Model.Sem Cirbo.Model.Builder.
Require Import Cirbo.Model.ArithSub Cirbo.Model.ArithSum2 Cirbo.Model.ArithSumN Cirbo.Model.ArithSumW
  Cirbo.Model.ArithMul.
Require Import Cirbo.Proofs.DictFacts Cirbo.Proofs.BuilderFacts Cirbo.Proofs.ArithFacts
  Cirbo.Proofs.ArithSumCells Cirbo.Proofs.ArithSumPow2Facts Cirbo.Proofs.ArithMulFacts.
Open Scope Z_scope.

Notation mvals c asg := (Forall2 (bvals c asg)).

Lemma Forall2_firstn {A B} (P : A -> B -> Prop) n : forall l m, Forall2 P l m -> Forall2 P (firstn n l) (firstn n m).
Proof. induction n as [|n IH]; intros l m H; [constructor|]. destruct H; simpl; constructor; auto. Qed.

Lemma Forall2_skipn {A B} (P : A -> B -> Prop) n : forall l m, Forall2 P l m -> Forall2 P (skipn n l) (skipn n m).
Proof. induction n as [|n IH]; intros l m H; [exact H|]. destruct H; simpl; [constructor|auto]. Qed.

Lemma Forall2_length {A B} (P : A -> B -> Prop) l m : Forall2 P l m -> length l = length m.
Proof. induction 1; simpl; congruence. Qed.

Lemma heads1_bvals c asg rows rowsv : mvals c asg rows rowsv -> bvals c asg (heads1 rows) (heads1 rowsv).
Proof.
  induction 1 as [|r rv rows rowsv Hr _ IH]; [constructor|].
  unfold heads1 in *. cbn [flat_map]. apply bvals_app; [|exact IH].
  destruct Hr; constructor; [assumption|constructor].
Qed.

Lemma tl_mvals c asg rows rowsv : mvals c asg rows rowsv -> mvals c asg (map (@tl label) rows) (map (@tl bool) rowsv).
Proof.
  induction 1 as [|r rv rows rowsv Hr _ IH]; simpl; constructor; [|exact IH].
  destruct Hr; simpl; [constructor|assumption].
Qed.

Definition rows_sum (rows : list (list bool)) : Z := fold_right (fun r acc => bits_val r + acc) 0 rows.
Definition peel_val (act pend : list (list bool)) : Z := rows_sum act + mval pend.

Lemma rows_sum_app a b : rows_sum (a ++ b) = rows_sum a + rows_sum b.
Proof. unfold rows_sum. induction a as [|r a IH]; simpl; [lia|]. rewrite IH. lia. Qed.

Lemma rows_sum_nonneg a : 0 <= rows_sum a.
Proof. unfold rows_sum. induction a as [|r a IH]; simpl; [lia|]. pose proof (bits_val_nonneg r). lia. Qed.

Lemma mval_nonneg a : 0 <= mval a.
Proof. induction a as [|r a IH]; simpl; [lia|]. pose proof (bits_val_nonneg r). lia. Qed.

Lemma peel_val_nonneg a p : 0 <= peel_val a p.
Proof. unfold peel_val. pose proof (rows_sum_nonneg a). pose proof (mval_nonneg p). lia. Qed.

Lemma rows_sum_heads rows : rows_sum rows = ones (heads1 rows) + 2 * rows_sum (map (@tl bool) rows).
Proof.
  unfold rows_sum, heads1. induction rows as [|r rows IH]; simpl; [lia|].
  rewrite ones_app, IH. destruct r as [|x t]; simpl; lia.
Qed.

Lemma peel_step act pend :
  peel_val act pend = ones (heads1 (act ++ firstn 1 pend))
                      + 2 * peel_val (map (@tl bool) (act ++ firstn 1 pend)) (skipn 1 pend).
Proof.
  unfold peel_val.
  pose proof (rows_sum_heads (act ++ firstn 1 pend)) as E. rewrite rows_sum_app in E.
  destruct pend as [|p rest]; simpl firstn in *; simpl skipn.
  - change (rows_sum []) with 0 in E. simpl mval. lia.
  - change (rows_sum [p]) with (bits_val p + 0) in E. cbn [mval]. lia.
Qed.

(* ---- the columns of Dadda's multiplier -------------------------------------------------------------------- *)
Lemma diagonals_vals c asg k : forall act pend actv pendv,
  mvals c asg act actv -> mvals c asg pend pendv ->
  mvals c asg (diagonals k act pend) (diagonals k actv pendv).
Proof.
  induction k as [|k IH]; intros act pend actv pendv Ha Hp; cbn [diagonals]; [constructor|].
  assert (mvals c asg (act ++ firstn 1 pend) (actv ++ firstn 1 pendv)) as H1
    by (apply Forall2_app; [exact Ha|apply Forall2_firstn, Hp]).
  constructor; [apply heads1_bvals, H1|]. apply IH; [apply tl_mvals, H1|apply (Forall2_skipn _ 1), Hp].
Qed.

Lemma diagonals_value k : forall act pend,
  exists R, 0 <= R /\ peel_val act pend = cols_val (diagonals k act pend) + 2 ^ Z.of_nat k * R.
Proof.
  induction k as [|k IH]; intros act pend.
  - exists (peel_val act pend). split; [apply peel_val_nonneg|]. simpl. change (Z.of_nat 0) with 0. rewrite Z.pow_0_r. lia.
  - destruct (IH (map (@tl bool) (act ++ firstn 1 pend)) (skipn 1 pend)) as (R & HR & E).
    exists R. split; [exact HR|]. rewrite peel_step, E. cbn [diagonals cols_val]. rewrite pow2_succ. lia.
Qed.

Lemma diagonals_length {A} k : forall (act pend : list (list A)), length (diagonals k act pend) = k.
Proof. induction k as [|k IH]; intros act pend; simpl; [reflexivity|]. rewrite IH. reflexivity. Qed.

(* a number written on k bits that is congruent to p modulo 2^k, 0 <= p < 2^k, is p *)
Lemma congruent_small k r p q : 0 <= r < 2 ^ Z.of_nat k -> 0 <= p < 2 ^ Z.of_nat k ->
  p = r + 2 ^ Z.of_nat k * q -> r = p.
Proof.
  intros Hr Hp E. pose proof (pow2_pos k) as Hk. assert (q = 0) as -> by nia. lia.
Qed.
