(* Generic facts about the prelude Model/SearchPy.v (the sres monad, its loops, the Python built-ins) and the
   finder states `fin sp c b1 b2` on which the regenerated encoder (Generated/SearchEncGen.v) is compared with
   the hand model Model/Search.v.  Nothing here mentions a bound variable of a generated term. *)
Require Import Cirbo.Model.Base Cirbo.Model.Gate Cirbo.Model.Search Cirbo.Model.SearchPy.
Require Import Cirbo.Generated.SearchEncGen.
Require Import Cirbo.Proofs.SearchFacts.
From Coq Require Import Lia Arith PeanoNat Bool.
Local Open Scope nat_scope.

(* ---------------------------------------------------------------- the monad *)
Lemma sbind_ok {A B} (a : A) (f : A -> sres B) : sbind (SOk a) f = f a.
Proof. reflexivity. Qed.
Lemma sbind_err {A B} e (f : A -> sres B) : sbind (SErr e) f = SErr e.
Proof. reflexivity. Qed.

Lemma smapM_ok {A B} (f : A -> sres B) (g : A -> B) (l : list A) :
  (forall x, In x l -> f x = SOk (g x)) -> smapM f l = SOk (map g l).
Proof.
  induction l as [|x xs IH]; intros H; [reflexivity|].
  cbn [smapM map]. rewrite (H x (or_introl eq_refl)), sbind_ok, IH; [reflexivity|].
  intros y Hy. apply H. right. exact Hy.
Qed.

Lemma sallM_ok {A} (f : A -> sres bool) (g : A -> bool) (l : list A) :
  (forall x, In x l -> f x = SOk (g x)) -> sallM f l = SOk (forallb g l).
Proof.
  induction l as [|x xs IH]; intros H; [reflexivity|].
  cbn [sallM forallb]. rewrite (H x (or_introl eq_refl)), sbind_ok.
  destruct (g x); [|reflexivity]. apply IH. intros y Hy. apply H. right. exact Hy.
Qed.

Lemma sfoldM_app {A S} (f : S -> A -> sres S) (l1 l2 : list A) (s : S) :
  sfoldM f (l1 ++ l2) s = sbind (sfoldM f l1 s) (sfoldM f l2).
Proof.
  revert s. induction l1 as [|x xs IH]; intros s; [reflexivity|].
  cbn [sfoldM app]. destruct (f s x) as [s'|e]; [cbn [sbind]; apply IH|reflexivity].
Qed.

(* ---------------------------------------------------------------- built-ins *)
Lemma mem_nat_In x l : mem_nat x l = true <-> In x l.
Proof.
  unfold mem_nat. rewrite existsb_exists. split.
  - intros [y [Hy E]]. apply Nat.eqb_eq in E. subst. exact Hy.
  - intros H. exists x. split; [exact H|apply Nat.eqb_refl].
Qed.

Lemma mem_nat_seq x a k : mem_nat x (seq a k) = (a <=? x) && (x <? a + k).
Proof.
  apply eq_true_iff_eq. rewrite mem_nat_In, in_seq, andb_true_iff, Nat.leb_le, Nat.ltb_lt. reflexivity.
Qed.

Lemma mem_nat_seq0 x k : mem_nat x (seq 0 k) = (x <? k).
Proof. rewrite mem_nat_seq. cbn [Nat.leb Nat.add andb]. reflexivity. Qed.

Lemma py_idx_ok {A} (l : list A) i d : i < length l -> py_idx l i = SOk (nth i l d).
Proof.
  intros H. unfold py_idx. destruct (nth_error l i) as [x|] eqn:E.
  - rewrite (nth_error_nth _ _ d E). reflexivity.
  - apply nth_error_None in E. lia.
Qed.

Lemma py_shift_sub_ok a b : b <= a -> py_shift_sub a b = SOk (a - b).
Proof. intros H. unfold py_shift_sub. apply Nat.leb_le in H. rewrite H. reflexivity. Qed.

Lemma shiftl_1 n : Nat.shiftl 1 n = 2 ^ n.
Proof. rewrite Nat.shiftl_1_l. reflexivity. Qed.

Lemma nz_bit t k : nz (Nat.land (Nat.shiftr t k) 1) = Nat.testbit t k.
Proof.
  unfold nz. change 1 with (Nat.ones 1). rewrite Nat.land_ones, Nat.shiftr_div_pow2, Nat.pow_1_r.
  rewrite Nat.testbit_eqb.
  assert (H : (t / 2 ^ k) mod 2 < 2) by (apply Nat.mod_upper_bound; lia).
  destruct ((t / 2 ^ k) mod 2) as [|[|m]]; [reflexivity|reflexivity|lia].
Qed.

Lemma forallb_map' {A B} (f : A -> B) (P : B -> bool) (l : list A) :
  forallb P (map f l) = forallb (fun x => P (f x)) l.
Proof. induction l as [|x xs IH]; [reflexivity|]. cbn [map forallb]. rewrite IH. reflexivity. Qed.

Lemma forallb_nth_seq {A} (P : A -> bool) (l : list A) d :
  forallb (fun i => P (nth i l d)) (seq 0 (length l)) = forallb P l.
Proof.
  induction l as [|x xs IH]; [reflexivity|].
  cbn [length seq forallb nth]. rewrite <- seq_shift, forallb_map'. cbn [nth]. rewrite IH. reflexivity.
Qed.

Lemma flat_map_cond {A B} (p : A -> bool) (f : A -> B) (l : list A) :
  flat_map (fun x => if p x then [f x] else []) l = map f (filter p l).
Proof.
  induction l as [|x xs IH]; [reflexivity|]. cbn [flat_map filter]. rewrite IH. destruct (p x); reflexivity.
Qed.

Lemma flat_map_ncond {A B} (p : A -> bool) (f : A -> B) (l : list A) :
  flat_map (fun x => if p x then [] else [f x]) l = map f (filter (fun x => negb (p x)) l).
Proof.
  induction l as [|x xs IH]; [reflexivity|]. cbn [flat_map filter]. rewrite IH. destruct (p x); reflexivity.
Qed.

Lemma flat_map_singleton {A B} (f : A -> B) (l : list A) : flat_map (fun x => [f x]) l = map f l.
Proof. induction l as [|x xs IH]; [reflexivity|]. cbn [flat_map map app]. rewrite IH. reflexivity. Qed.

Lemma flat_map_ext_in {A B} (f g : A -> list B) (l : list A) :
  (forall x, In x l -> f x = g x) -> flat_map f l = flat_map g l.
Proof.
  induction l as [|x xs IH]; intros H; [reflexivity|]. cbn [flat_map].
  rewrite (H x (or_introl eq_refl)), IH; [reflexivity|]. intros y Hy. apply H. right. exact Hy.
Qed.

Lemma in_product2_bits a b : In (a, b) (py_product2 (seq 0 2)) -> a <= 1 /\ b <= 1.
Proof. cbn. intros H. repeat (destruct H as [H|H]; [inversion H; subst; lia|]). destruct H. Qed.

Lemma in_product3_bits a b c : In (a, b, c) (py_product3 (seq 0 2)) -> a <= 1 /\ b <= 1 /\ c <= 1.
Proof. cbn. intros H. repeat (destruct H as [H|H]; [inversion H; subst; lia|]). destruct H. Qed.

(* ---------------------------------------------------------------- the object *)
(* well-shaped model truth table: every row has (at least) one cell per input vector; the protocol of
   FunctionModel.get_model_truth_table guarantees it, the encoder indexes the rows with t < 2^n *)
Definition table_ok (sp : spec) : Prop := Forall (fun row => 2 ^ sp_n sp <= length row) (sp_outs sp).

(* the FunctionModel of a spec: output_size is the number of rows of the table *)
Definition fm_of (sp : spec) : fmodel := mkFM (sp_n sp) (sp_m sp) (sp_outs sp).

(* the finder of a spec with clause list c and flags b1 = _need_check_db, b2 = _need_init_cnf: built by the
   regenerated constructor and the setters only (so no attribute order is fixed here) *)
Definition fin (sp : spec) (c : list clause) (b1 b2 : bool) : finder :=
  set__need_init_cnf (set__need_check_db (set__cnf
    (gen___init__ (fm_of sp) (sp_r sp) (sp_norm sp) (sp_basis sp) (sp_forb sp)) c) b1) b2.

Lemma fin_init sp : gen___init__ (fm_of sp) (sp_r sp) (sp_norm sp) (sp_basis sp) (sp_forb sp) = fin sp [] true true.
Proof. reflexivity. Qed.

Section Fin.
  Variables (sp : spec) (c : list clause) (b1 b2 : bool).
  Lemma fin_bf : f__boolean_function (fin sp c b1 b2) = fm_of sp. Proof. reflexivity. Qed.
  Lemma fin_tbl : f__output_truth_tables (fin sp c b1 b2) = sp_outs sp. Proof. reflexivity. Qed.
  Lemma fin_forb : f__forbidden_operations (fin sp c b1 b2) = sp_forb sp. Proof. reflexivity. Qed.
  Lemma fin_inputs : f__input_gates (fin sp c b1 b2) = seq 0 (sp_n sp). Proof. reflexivity. Qed.
  Lemma fin_internal : f__internal_gates (fin sp c b1 b2) = internal sp.
  Proof. unfold internal. cbn. f_equal. lia. Qed.
  Lemma fin_gates : f__gates (fin sp c b1 b2) = seq 0 (sp_n sp + sp_r sp). Proof. reflexivity. Qed.
  Lemma fin_outputs : f__outputs (fin sp c b1 b2) = seq 0 (sp_m sp). Proof. reflexivity. Qed.
  Lemma fin_norm : f_need_normalized (fin sp c b1 b2) = sp_norm sp. Proof. reflexivity. Qed.
  Lemma fin_cnf : f__cnf (fin sp c b1 b2) = c. Proof. reflexivity. Qed.
  Lemma fin_flag1 : f__need_check_db (fin sp c b1 b2) = b1. Proof. reflexivity. Qed.
  Lemma fin_flag2 : f__need_init_cnf (fin sp c b1 b2) = b2. Proof. reflexivity. Qed.
  Lemma fin_set_cnf c' : set__cnf (fin sp c b1 b2) c' = fin sp c' b1 b2. Proof. reflexivity. Qed.
  Lemma fin_set_flag1 b : set__need_check_db (fin sp c b1 b2) b = fin sp c b b2. Proof. reflexivity. Qed.
  Lemma fin_set_flag2 b : set__need_init_cnf (fin sp c b1 b2) b = fin sp c b1 b. Proof. reflexivity. Qed.
End Fin.

Global Opaque fin.

Create HintDb fin discriminated.
Global Hint Rewrite fin_bf fin_tbl fin_forb fin_inputs fin_internal fin_gates fin_outputs fin_norm fin_cnf
  fin_flag1 fin_flag2 fin_set_cnf fin_set_flag1 fin_set_flag2 : fin.

(* ---------------------------------------------------------------- loops over the clause list *)
Section Loops.
  Variables (sp : spec) (b1 b2 : bool).

  (* a loop whose every iteration appends the clauses G x *)
  Lemma sfoldM_fin {A} (F : finder -> A -> sres finder) (G : A -> list clause) (l : list A) :
    (forall c x, In x l -> F (fin sp c b1 b2) x = SOk (fin sp (c ++ G x) b1 b2)) ->
    forall c, sfoldM F l (fin sp c b1 b2) = SOk (fin sp (c ++ flat_map G l) b1 b2).
  Proof.
    induction l as [|x xs IH]; intros H c.
    - cbn [sfoldM flat_map]. rewrite app_nil_r. reflexivity.
    - cbn [sfoldM flat_map]. rewrite (H c x (or_introl eq_refl)), sbind_ok, IH, app_assoc; [reflexivity|].
      intros c' y Hy. apply H. right. exact Hy.
  Qed.

  (* a loop that appends G y for the items before x and leaves at x *)
  Lemma sloop_fin_break {A} (F : finder -> A -> sres (lstep finder)) (G : A -> list clause) (l1 : list A) x l2 :
    (forall c y, In y l1 -> F (fin sp c b1 b2) y = SOk (LNext (fin sp (c ++ G y) b1 b2))) ->
    (forall c, F (fin sp c b1 b2) x = SOk (LBreak (fin sp c b1 b2))) ->
    forall c, sloop F (l1 ++ x :: l2) (fin sp c b1 b2) = SOk (fin sp (c ++ flat_map G l1) b1 b2).
  Proof.
    intros H Hx. induction l1 as [|y ys IH]; intros c.
    - cbn [sloop app flat_map]. rewrite Hx, sbind_ok, app_nil_r. reflexivity.
    - cbn [sloop app flat_map]. rewrite (H c y (or_introl eq_refl)), sbind_ok, IH, app_assoc; [reflexivity|].
      intros c' z Hz. apply H. right. exact Hz.
  Qed.
End Loops.
