(* T23 tie for C17: the regenerated CircuitsDatabase.get_by_raw_truth_table_model (Generated/DbAlgGen.v, from
   cirbo/circuits_db/db.py) against the hand model Model/Db.v's get_by_raw_truth_table_model, for every database,
   every table with don't-cares (ragged and empty ones included) and every exclusion list.

   The generated function is first restated with the loop bodies named (`gen_model_form`, by reflexivity: only
   alpha-conversion and zeta are involved, so the restatement survives a renaming of the generated variables). *)
Require Import Cirbo.Model.Base Cirbo.Model.Gate Cirbo.Model.Circuit Cirbo.Model.Eval Cirbo.Model.BitIO Cirbo.Model.DictIO.
Require Import Cirbo.Model.Codec Cirbo.Model.Db.
Require Import Cirbo.Generated.CodecAlgGen Cirbo.Generated.NormAlgGen Cirbo.Generated.DbAlgGen.
Require Import Cirbo.Proofs.CodecAlgGenEnc Cirbo.Proofs.NormAlgGen.
Require Import Cirbo.Proofs.NormFacts Cirbo.Proofs.ModelLookupFacts Cirbo.Proofs.CompletionFacts.
Require Import Cirbo.Proofs.DbAlgGenDefs Cirbo.Proofs.DbAlgGen.

(* ---- the loop bodies of the generated function ---- *)
Definition scan_inner (zi : Z) : list (Z * (Z * Z)) -> Z * option bool -> res (list (Z * (Z * Z))) :=
  fun (acc : list (Z * (Z * Z))) '((zj, v) : Z * (option bool)) =>
    if negb (tri_eqb v None) then Ok acc
    else Ok (kset Z.eqb acc (py_len acc) (zi, zj)).

Definition scan_outer : list (Z * (Z * Z)) -> Z * list (option bool) -> res (list (Z * (Z * Z))) :=
  fun (acc : list (Z * (Z * Z))) '((zi, row) : Z * (list (option bool))) =>
    do acc' <- foldM (scan_inner zi) (py_enumerate row) acc;
    Ok acc'.

Definition store_body (up : list (Z * (Z * Z))) : list (list bool) -> Z * bool -> res (list (list bool)) :=
  fun (tb : list (list bool)) '((zi, v) : Z * bool) =>
    do t2 <- kget_res Z.eqb up zi;
    let '(zj, zk) := t2 in
    do t3 <- py_index tb zj;
    do t4 <- py_list_set t3 zk v;
    do tb' <- py_list_set tb zj t4;
    Ok tb'.

Definition mstate : Type := (list (list bool)) * (option circuit) * (option Z).

Definition main_body (self : gen_CircuitsDatabase) (up : list (Z * (Z * Z))) (excl : option (list gtype))
  : mstate -> list bool -> res mstate :=
  fun '((tb, result, rsize) : (list (list bool)) * (option circuit) * (option Z)) (s : list bool) =>
    do tb' <- foldM (store_body up) (py_enumerate s) tb;
    do oc <- gen_CircuitsDatabase_get_by_raw_truth_table self tb';
    match oc with
    | None => Ok (tb', result, rsize)
    | Some c =>
      do sz <- gen_Circuit_gates_number c excl;
      do (result', rsize') <-
        (if match rsize with None => true | Some r => (sz <? r)%Z end then Ok (Some c, Some sz)
         else Ok (result, rsize));
      Ok (tb', result', rsize')
    end.

Definition gen_defined (tm : list (list (option bool))) : list (list bool) :=
  map (fun (row : list (option bool)) =>
         map (fun (v : option bool) => if existsb (tri_eqb v) [None; Some false] then false else true) row) tm.

Lemma gen_model_form self tm excl :
  gen_CircuitsDatabase_get_by_raw_truth_table_model self tm excl
  = do up <- foldM scan_outer (py_enumerate tm) [];
    do subs <- py_product [false; true] (py_len up);
    do (tb, result, rsize) <- foldM (main_body self up excl) subs (gen_defined tm, None, None);
    Ok result.
Proof. reflexivity. Qed.

(* ---- generic facts: enumerate, foldM, keyed dictionaries, list stores ---- *)
Definition zp {A} (p : nat * A) : Z * A := (Z.of_nat (fst p), snd p).

Lemma combine_seq_enum {A} (l : list A) : forall k,
  combine (map (fun i => (0 + Z.of_nat i)%Z) (seq k (length l))) l = map zp (enumerate_from k l).
Proof. induction l as [|x r IH]; intros k; [reflexivity|]. simpl. f_equal. apply IH. Qed.

Lemma py_enumerate_gen {A} (l : list A) : py_enumerate l = map zp (enumerate_from 0 l).
Proof. unfold py_enumerate, py_range, py_len. rewrite Z.sub_0_r, Nat2Z.id. apply combine_seq_enum. Qed.

Lemma enumerate_from_app {A} (l : list A) x : forall k,
  enumerate_from k (l ++ [x]) = enumerate_from k l ++ [((k + length l)%nat, x)].
Proof.
  induction l as [|y l IH]; intros k; simpl.
  - rewrite Nat.add_0_r. reflexivity.
  - rewrite IH. replace (S k + length l)%nat with (k + S (length l))%nat by lia. reflexivity.
Qed.

Lemma kset_absent {V} (d : list (Z * V)) k v :
  (forall k' v', In (k', v') d -> k' <> k) -> kset Z.eqb d k v = d ++ [(k, v)].
Proof.
  induction d as [|[k1 v1] d IH]; intros H; simpl; [reflexivity|].
  destruct (Z.eqb_spec k k1) as [->|_]; [exfalso; apply (H k1 v1); [left|]; reflexivity|].
  rewrite IH; [reflexivity|]. intros k' v' Hin. apply (H k' v'). right. exact Hin.
Qed.

Lemma py_index_nat {A} (l : list A) i : py_index l (Z.of_nat i) = nth_res l i.
Proof.
  unfold py_index, py_len, nth_res.
  destruct (Z.ltb_spec (Z.of_nat i) (- Z.of_nat (length l))); [lia|].
  destruct (Z.leb_spec (Z.of_nat (length l)) (Z.of_nat i)) as [Hge|Hlt]; simpl orb.
  - replace (nth_error l i) with (@None A); [reflexivity|]. symmetry. apply nth_error_None. lia.
  - destruct (Z.ltb_spec (Z.of_nat i) 0); [lia|]. rewrite Nat2Z.id. reflexivity.
Qed.

Lemma map_enum_id {A} (v : A) m : forall l k, (m < k)%nat ->
  map (fun jb : nat * A => if (fst jb =? m)%nat then v else snd jb) (enumerate_from k l) = l.
Proof.
  induction l as [|y l IH]; intros k H; simpl; [reflexivity|].
  destruct (Nat.eqb_spec k m); [lia|]. rewrite IH by lia. reflexivity.
Qed.

Lemma list_set_nat_enum {A} (v : A) : forall l i k, (i < length l)%nat ->
  list_set_nat l i v
  = Ok (map (fun jb : nat * A => if (fst jb =? k + i)%nat then v else snd jb) (enumerate_from k l)).
Proof.
  induction l as [|y l IH]; intros i k H; simpl in H; [lia|].
  destruct i as [|i]; simpl.
  - rewrite Nat.add_0_r, Nat.eqb_refl, map_enum_id by lia. reflexivity.
  - rewrite (IH i (S k)) by lia. cbn [bind].
    destruct (Nat.eqb_spec k (k + S i)); [lia|].
    replace (S k + i)%nat with (k + S i)%nat by lia. reflexivity.
Qed.

Lemma py_list_set_nat {A} (l : list A) i v : (i < length l)%nat ->
  py_list_set l (Z.of_nat i) v
  = Ok (map (fun jb : nat * A => if (fst jb =? i)%nat then v else snd jb) (enumerate_from 0 l)).
Proof.
  intros H. unfold py_list_set, py_len.
  destruct (Z.ltb_spec (Z.of_nat i) (- Z.of_nat (length l))); [lia|].
  destruct (Z.leb_spec (Z.of_nat (length l)) (Z.of_nat i)); [lia|]. simpl orb.
  destruct (Z.ltb_spec (Z.of_nat i) 0); [lia|]. rewrite Nat2Z.id.
  apply (list_set_nat_enum v l i 0%nat H).
Qed.

(* ---- (1) the defined table ---- *)
Lemma gen_defined_eq tm : gen_defined tm = defined_table tm.
Proof.
  unfold gen_defined, defined_table. apply map_ext. intros row. apply map_ext.
  intros [[|]|]; reflexivity.
Qed.

(* ---- (3) the scan builds the dictionary {0: p0, 1: p1, ...} of the undefined positions ---- *)
Definition zz (p : nat * nat) : Z * Z := (Z.of_nat (fst p), Z.of_nat (snd p)).
Definition dict_of (l : list (nat * nat)) : list (Z * (Z * Z)) :=
  map (fun kp : nat * (nat * nat) => (Z.of_nat (fst kp), zz (snd kp))) (enumerate_from 0 l).

Lemma py_len_dict_of l : py_len (dict_of l) = Z.of_nat (length l).
Proof. unfold py_len, dict_of. rewrite map_length, length_enumerate. reflexivity. Qed.

Lemma kset_dict_of l p : kset Z.eqb (dict_of l) (py_len (dict_of l)) (zz p) = dict_of (l ++ [p]).
Proof.
  rewrite py_len_dict_of. rewrite kset_absent.
  - unfold dict_of. rewrite enumerate_from_app, map_app. reflexivity.
  - intros k' v' Hin. unfold dict_of in Hin. apply in_map_iff in Hin as ([i q] & E & Hin).
    apply enumerate_from_spec in Hin as [_ Hn]. injection E as <- _. simpl.
    assert (i - 0 < length l)%nat by (apply nth_error_Some; congruence). lia.
Qed.

Definition row_positions (i : nat) (l : list (nat * option bool)) : list (nat * nat) :=
  flat_map (fun jv : nat * option bool => match snd jv with None => [(i, fst jv)] | Some _ => [] end) l.

Lemma scan_row_eq i : forall row k acc,
  foldM (scan_inner (Z.of_nat i)) (map zp (enumerate_from k row)) (dict_of acc)
  = Ok (dict_of (acc ++ row_positions i (enumerate_from k row))).
Proof.
  induction row as [|v row IH]; intros k acc.
  - simpl. rewrite app_nil_r. reflexivity.
  - cbn [enumerate_from map foldM]. unfold scan_inner at 1, zp at 1. cbn [fst snd].
    destruct v as [b|].
    + cbn [tri_eqb negb bind]. rewrite IH. reflexivity.
    + cbn [tri_eqb negb bind].
      change (Z.of_nat i, Z.of_nat k) with (zz (i, k)). rewrite kset_dict_of, IH.
      rewrite <- app_assoc. reflexivity.
Qed.

Lemma scan_rows_eq : forall tm k acc,
  foldM scan_outer (map zp (enumerate_from k tm)) (dict_of acc)
  = Ok (dict_of (acc ++ flat_map (fun ir : nat * list (option bool) =>
                                    row_positions (fst ir) (enumerate_from 0 (snd ir))) (enumerate_from k tm))).
Proof.
  induction tm as [|row tm IH]; intros k acc.
  - simpl. rewrite app_nil_r. reflexivity.
  - cbn [enumerate_from map foldM]. unfold scan_outer at 1, zp at 1. cbn [fst snd].
    rewrite py_enumerate_gen, scan_row_eq. cbn [bind]. rewrite IH.
    cbn [flat_map fst snd]. rewrite <- app_assoc. reflexivity.
Qed.

Lemma scan_eq tm : foldM scan_outer (py_enumerate tm) [] = Ok (dict_of (undefined_positions tm)).
Proof. rewrite py_enumerate_gen. change (@nil (Z * (Z * Z))) with (dict_of []). rewrite scan_rows_eq. reflexivity. Qed.

(* ---- (4) itertools.product((False, True), repeat=n) ---- *)
Lemma py_product_nat_bool n : py_product_nat [false; true] n = all_bool_vectors n.
Proof. induction n as [|n IH]; [reflexivity|]. simpl. rewrite app_nil_r, IH. reflexivity. Qed.

Lemma py_product_bool n : py_product [false; true] (Z.of_nat n) = Ok (all_bool_vectors n).
Proof.
  unfold py_product. destruct (Z.ltb_spec (Z.of_nat n) 0); [lia|].
  rewrite Nat2Z.id, py_product_nat_bool. reflexivity.
Qed.

Lemma all_bool_vectors_length n : forall s, In s (all_bool_vectors n) -> length s = n.
Proof.
  induction n as [|n IH]; intros s H; simpl in H.
  - destruct H as [<-|[]]. reflexivity.
  - apply in_app_or in H as [H|H]; apply in_map_iff in H as (s' & <- & H); simpl; f_equal; apply IH; exact H.
Qed.

Lemma all_bool_vectors_head n : exists rest, all_bool_vectors n = repeat false n :: rest.
Proof.
  induction n as [|n [rest IH]]; [exists []; reflexivity|].
  simpl. rewrite IH. simpl. eexists. reflexivity.
Qed.

(* ---- (6) reading the dictionary ---- *)
Lemma kget_enum : forall (l : list (nat * nat)) m k,
  kget Z.eqb (map (fun kp : nat * (nat * nat) => (Z.of_nat (fst kp), zz (snd kp))) (enumerate_from m l))
       (Z.of_nat (m + k)) = option_map zz (nth_error l k).
Proof.
  induction l as [|p l IH]; intros m k; simpl.
  - destruct k; reflexivity.
  - destruct k as [|k].
    + rewrite Nat.add_0_r, Z.eqb_refl. reflexivity.
    + destruct (Z.eqb_spec (Z.of_nat (m + S k)) (Z.of_nat m)); [lia|].
      replace (m + S k)%nat with (S m + k)%nat by lia. apply IH.
Qed.

Lemma kget_res_dict_of pos k :
  kget_res Z.eqb (dict_of pos) (Z.of_nat k)
  = match nth_error pos k with Some p => Ok (zz p) | None => Err PyKeyError end.
Proof.
  unfold kget_res, dict_of. pose proof (kget_enum pos 0%nat k) as H. rewrite Nat.add_0_l in H. rewrite H. destruct (nth_error pos k); reflexivity.
Qed.

(* ---- (5) one nested store ---- *)
Lemma nested_store (tb : table) i j v : cell tb i j <> None ->
  (do r <- py_index tb (Z.of_nat i); do r' <- py_list_set r (Z.of_nat j) v;
   do tb' <- py_list_set tb (Z.of_nat i) r'; Ok tb') = Ok (table_set tb i j v).
Proof.
  unfold cell. intros H. destruct (nth_error tb i) as [r|] eqn:Er; [|congruence].
  assert (Hj : (j < length r)%nat) by (apply nth_error_Some; exact H).
  assert (Hi : (i < length tb)%nat) by (apply nth_error_Some; congruence).
  rewrite py_index_nat. unfold nth_res. rewrite Er. cbn [bind].
  rewrite (py_list_set_nat r j v Hj). cbn [bind].
  rewrite py_list_set_nat by exact Hi. cbn [bind]. f_equal.
  unfold table_set. apply map_ext_in. intros [i' r0] Hin. cbn [fst snd].
  destruct (Nat.eqb_spec i' i) as [->|_]; [|reflexivity].
  apply enumerate_from_spec in Hin as [_ Hin]. rewrite Nat.sub_0_r, Er in Hin. injection Hin as <-. reflexivity.
Qed.

Lemma store_step pos (tb : table) k p v :
  nth_error pos k = Some p -> cell tb (fst p) (snd p) <> None ->
  store_body (dict_of pos) tb (Z.of_nat k, v) = Ok (table_set tb (fst p) (snd p) v).
Proof.
  intros Hk Hc. unfold store_body. rewrite kget_res_dict_of, Hk. cbn [bind]. unfold zz.
  apply nested_store. exact Hc.
Qed.

(* ---- shapes: a store keeps the shape of the table; the shape tells which cells exist ---- *)
Definition shape (tb : table) : list nat := map (@length bool) tb.

Lemma shape_nth tb tb' i : shape tb = shape tb' ->
  option_map (@length bool) (nth_error tb i) = option_map (@length bool) (nth_error tb' i).
Proof. unfold shape. intros H. rewrite <- !nth_error_map, H. reflexivity. Qed.

Lemma shape_table_set tb i j v : shape (table_set tb i j v) = shape tb.
Proof.
  apply nth_error_ext'. intros i'. unfold shape. rewrite !nth_error_map, table_set_rows.
  destruct (nth_error tb i') as [r|]; [|reflexivity]. simpl. f_equal.
  destruct (i' =? i)%nat; [|reflexivity]. rewrite map_length, length_enumerate. reflexivity.
Qed.

Lemma shape_cell_some tb tb' i j : shape tb = shape tb' -> cell tb i j <> None -> cell tb' i j <> None.
Proof.
  intros H. pose proof (shape_nth tb tb' i H) as Hn. unfold cell.
  destruct (nth_error tb i) as [r|]; [|congruence].
  destruct (nth_error tb' i) as [r'|]; [|discriminate]. simpl in Hn. injection Hn as Hl.
  rewrite !nth_error_Some. lia.
Qed.

Lemma shape_ext tb tb' : shape tb = shape tb' -> (forall i j, cell tb i j = cell tb' i j) -> tb = tb'.
Proof.
  intros H Hc. apply table_ext; [| |exact Hc].
  - intros i. pose proof (shape_nth tb tb' i H) as Hn.
    destruct (nth_error tb i), (nth_error tb' i); simpl in Hn; split; congruence.
  - intros i r r' Hr Hr'. pose proof (shape_nth tb tb' i H) as Hn. rewrite Hr, Hr' in Hn. simpl in Hn. congruence.
Qed.

(* ---- (7) the inner loop of the main loop is `substitute` ---- *)
Lemma store_loop : forall post pre s (tb : table),
  length s = length post ->
  (forall p, In p (pre ++ post) -> cell tb (fst p) (snd p) <> None) ->
  foldM (store_body (dict_of (pre ++ post))) (map zp (enumerate_from (length pre) s)) tb
  = Ok (fold_left sub_step (combine post s) tb).
Proof.
  induction post as [|p post IH]; intros pre s tb Hl Hdef.
  - destruct s; [reflexivity|discriminate].
  - destruct s as [|v s]; [discriminate|]. cbn [enumerate_from map foldM combine fold_left].
    unfold zp at 1. cbn [fst snd].
    rewrite (store_step _ tb (length pre) p v).
    + cbn [bind]. unfold sub_step at 2. cbn [fst snd].
      replace (pre ++ p :: post) with ((pre ++ [p]) ++ post) by (rewrite <- app_assoc; reflexivity).
      replace (S (length pre)) with (length (pre ++ [p])) by (rewrite app_length; simpl; lia).
      apply IH; [simpl in Hl; lia|].
      intros q Hq. apply (shape_cell_some tb); [symmetry; apply shape_table_set|].
      apply Hdef. rewrite <- app_assoc in Hq. exact Hq.
    + rewrite nth_error_app2 by lia. rewrite Nat.sub_diag. reflexivity.
    + apply Hdef. apply in_or_app. right. left. reflexivity.
Qed.

Lemma substitute_fold (tb : table) pos s : substitute tb pos s = fold_left sub_step (combine pos s) tb.
Proof. reflexivity. Qed.

Lemma store_loop_substitute pos s (tb : table) :
  length s = length pos -> (forall p, In p pos -> cell tb (fst p) (snd p) <> None) ->
  foldM (store_body (dict_of pos)) (py_enumerate s) tb = Ok (substitute tb pos s).
Proof.
  intros Hl Hdef. rewrite py_enumerate_gen, substitute_fold.
  apply (store_loop pos [] s tb Hl Hdef).
Qed.

(* ---- (8) a substitution overwrites all of pos: what was there before does not matter ---- *)
Lemma fold_agree : forall (ps : list (nat * nat * bool)) (tb tb' : table),
  shape tb = shape tb' ->
  (forall i j, existsb (posb (i, j)) (map fst ps) = false -> cell tb i j = cell tb' i j) ->
  fold_left sub_step ps tb = fold_left sub_step ps tb'.
Proof.
  induction ps as [|[[pi pj] v] ps IH]; intros tb tb' Hs Hc; simpl.
  - apply shape_ext; [exact Hs|]. intros i j. apply Hc. reflexivity.
  - apply IH; unfold sub_step; cbn [fst snd].
    + rewrite !shape_table_set. exact Hs.
    + intros i j Hp. rewrite !table_set_cell.
      destruct ((i =? pi) && (j =? pj))%nat eqn:E.
      * pose proof (shape_cell_some tb tb' pi pj Hs) as H1.
        pose proof (shape_cell_some tb' tb pi pj (eq_sym Hs)) as H2.
        destruct (cell tb pi pj), (cell tb' pi pj); simpl; try reflexivity.
        -- exfalso. apply H1; [discriminate|reflexivity].
        -- exfalso. apply H2; [discriminate|reflexivity].
      * apply Hc. simpl. unfold posb at 1. cbn [fst snd]. rewrite E, Hp. reflexivity.
Qed.

Lemma fold_keeps : forall (ps : list (nat * nat * bool)) (tb : table),
  shape (fold_left sub_step ps tb) = shape tb /\
  forall i j, existsb (posb (i, j)) (map fst ps) = false -> cell (fold_left sub_step ps tb) i j = cell tb i j.
Proof.
  induction ps as [|[[pi pj] v] ps IH]; intros tb; [split; reflexivity|].
  cbn [fold_left map existsb fst].
  destruct (IH (sub_step tb (pi, pj, v))) as [H1 H2].
  change (sub_step tb (pi, pj, v)) with (table_set tb pi pj v) in *. split.
  - rewrite H1. apply shape_table_set.
  - intros i j Hp. apply orb_false_iff in Hp as [Hp1 Hp2]. rewrite (H2 i j Hp2), table_set_cell.
    unfold posb in Hp1. cbn [fst snd] in Hp1. rewrite Hp1. reflexivity.
Qed.

Lemma map_fst_combine {A B} : forall (l : list A) (s : list B), length s = length l -> map fst (combine l s) = l.
Proof.
  induction l as [|x l IH]; intros [|y s] H; simpl in *; try reflexivity; try discriminate.
  f_equal. apply IH. lia.
Qed.

Section Invariant.
  Variables (t0 : table) (pos : list (nat * nat)).
  Hypothesis Hdef : forall p, In p pos -> cell t0 (fst p) (snd p) <> None.

  Definition Inv (tb : table) : Prop :=
    shape tb = shape t0 /\ forall i j, existsb (posb (i, j)) pos = false -> cell tb i j = cell t0 i j.

  Lemma Inv_init : Inv t0.
  Proof. split; reflexivity. Qed.

  Lemma Inv_defined tb : Inv tb -> forall p, In p pos -> cell tb (fst p) (snd p) <> None.
  Proof. intros [Hs _] p Hp. apply (shape_cell_some t0); [symmetry; exact Hs|]. apply Hdef. exact Hp. Qed.

  Lemma Inv_substitute tb s : length s = length pos -> Inv tb -> substitute tb pos s = substitute t0 pos s.
  Proof.
    intros Hl [Hs Hc]. rewrite !substitute_fold. apply fold_agree; [exact Hs|].
    rewrite map_fst_combine by exact Hl. exact Hc.
  Qed.

  Lemma Inv_step s : length s = length pos -> Inv (substitute t0 pos s).
  Proof.
    intros Hl. rewrite substitute_fold. destruct (fold_keeps (combine pos s) t0) as [H1 H2].
    rewrite map_fst_combine in H2 by exact Hl. split; [exact H1|exact H2].
  Qed.
End Invariant.

Lemma model_defined tm p :
  In p (undefined_positions tm) -> cell (defined_table tm) (fst p) (snd p) <> None.
Proof.
  destruct p as [i j]. intros H. destruct (undefined_positions_spec tm i j H) as (row & Hr & Hn).
  rewrite defined_table_cell. unfold cell. cbn [fst snd]. rewrite Hr, Hn. discriminate.
Qed.

(* ---- (9) the main loop against model_loop ---- *)
Lemma to_db2_err_bind {A B} e (k : A -> dbres B) : dbbind (@to_db2 A (Err e)) k = to_db2 (Err e).
Proof. destruct e; reflexivity. Qed.

Lemma main_loop d tm excl : forall subs (tb : table) best,
  (forall s, In s subs -> length s = length (undefined_positions tm)) ->
  Inv (defined_table tm) (undefined_positions tm) tb ->
  to_db2 (do (tb', result, rsize) <-
            foldM (main_body (db_obj (Some d)) (dict_of (undefined_positions tm)) excl) subs
                  (tb, option_map fst best, option_map (fun b : circuit * nat => Z.of_nat (snd b)) best);
          Ok result)
  = dbdo r <- model_loop d (defined_table tm) (undefined_positions tm) excl subs best; DbOk (option_map fst r).
Proof.
  set (t0 := defined_table tm). set (pos := undefined_positions tm).
  assert (Hdef : forall p, In p pos -> cell t0 (fst p) (snd p) <> None) by (intros p; apply model_defined).
  induction subs as [|s subs IH]; intros tb best Hlen Hinv; [reflexivity|].
  assert (Hl : length s = length pos) by (apply Hlen; left; reflexivity).
  assert (Hlen' : forall s', In s' subs -> length s' = length pos) by (intros s' Hs'; apply Hlen; right; exact Hs').
  cbn [foldM model_loop]. unfold main_body at 1.
  rewrite (store_loop_substitute pos s tb Hl (Inv_defined t0 pos Hdef tb Hinv)). cbn [bind].
  rewrite (Inv_substitute t0 pos tb s Hl Hinv).
  pose proof (Inv_step t0 pos s Hl) as Hinv'.
  set (tb1 := substitute t0 pos s) in *.
  rewrite <- (gen_get_by_raw_truth_table_eq d tb1).
  destruct (gen_CircuitsDatabase_get_by_raw_truth_table (db_obj (Some d)) tb1) as [oc|e].
  - cbn [bind to_db2 dbbind]. destruct oc as [c|].
    + rewrite gen_Circuit_gates_number_eq. cbn [bind].
      destruct best as [[cb bsz]|]; cbn [option_map fst snd].
      * replace (Z.of_nat (gates_number c excl) <? Z.of_nat bsz)%Z with (gates_number c excl <? bsz)%nat
          by (destruct (Nat.ltb_spec (gates_number c excl) bsz), (Z.ltb_spec (Z.of_nat (gates_number c excl)) (Z.of_nat bsz)); try reflexivity; lia).
        destruct (gates_number c excl <? bsz)%nat; cbn [bind].
        -- apply (IH tb1 (Some (c, gates_number c excl)) Hlen' Hinv').
        -- apply (IH tb1 (Some (cb, bsz)) Hlen' Hinv').
      * cbn [bind]. apply (IH tb1 (Some (c, gates_number c excl)) Hlen' Hinv').
    + apply (IH tb1 best Hlen' Hinv').
  - cbn [bind]. rewrite !to_db2_err_bind. reflexivity.
Qed.

Lemma gen_defined_Inv tm : Inv (defined_table tm) (undefined_positions tm) (gen_defined tm).
Proof. rewrite gen_defined_eq. apply Inv_init. Qed.

Theorem gen_get_by_raw_truth_table_model_eq d tm excl :
  to_db2 (gen_CircuitsDatabase_get_by_raw_truth_table_model (db_obj (Some d)) tm excl)
  = get_by_raw_truth_table_model d tm excl.
Proof.
  rewrite gen_model_form, scan_eq. cbn [bind]. rewrite py_len_dict_of, py_product_bool. cbn [bind].
  unfold get_by_raw_truth_table_model. cbv zeta.
  apply (main_loop d tm excl (all_bool_vectors (length (undefined_positions tm))) (gen_defined tm) None).
  - apply all_bool_vectors_length.
  - apply gen_defined_Inv.
Qed.

(* ---- (10) the database that is not opened: the first substitution is looked up, which raises ---- *)
Theorem gen_get_by_raw_truth_table_model_closed tm excl :
  gen_CircuitsDatabase_get_by_raw_truth_table_model (db_obj None) tm excl
  = do _ <- normalize (substitute (defined_table tm) (undefined_positions tm)
                                   (repeat false (length (undefined_positions tm))));
    Err NotOpened.
Proof.
  rewrite gen_model_form, scan_eq. cbn [bind]. rewrite py_len_dict_of, py_product_bool. cbn [bind].
  set (t0 := defined_table tm). set (pos := undefined_positions tm).
  assert (Hdef : forall p, In p pos -> cell t0 (fst p) (snd p) <> None) by (intros p; apply model_defined).
  destruct (all_bool_vectors_head (length pos)) as [rest ->].
  assert (Hl : length (repeat false (length pos)) = length pos) by apply repeat_length.
  cbn [foldM]. unfold main_body at 1.
  rewrite (store_loop_substitute pos _ (gen_defined tm) Hl (Inv_defined t0 pos Hdef _ (gen_defined_Inv tm))).
  cbn [bind]. rewrite (Inv_substitute t0 pos _ _ Hl (gen_defined_Inv tm)).
  rewrite gen_get_by_raw_truth_table_closed.
  destruct (normalize (substitute t0 pos (repeat false (length pos)))); reflexivity.
Qed.
