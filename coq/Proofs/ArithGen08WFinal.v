(* Generated/ArithGen08.v, add_mul_wallace (translator T22) equals the hand model, part 4: the last stage - the closures
   `_last_gate` / `_zero` and the loop that reads the two remaining rows as two numbers - against [wallace_final]
   ([leading_none], [has_gap], [trim_fill]). *)
Require Import Cirbo.Model.Base Cirbo.Model.Gate Cirbo.Model.Circuit Cirbo.Model.Builder Cirbo.Model.PyPrims.
Require Import Cirbo.Model.ArithSub Cirbo.Model.ArithSum2 Cirbo.Model.ArithSumN Cirbo.Model.ArithSumW.
Require Import Cirbo.Model.PyPrims08 Cirbo.Model.PyPrimsWal Cirbo.Model.ArithMul.
Require Import Cirbo.Generated.ArithTables.
Require Import Cirbo.Proofs.ArithGen09Lib Cirbo.Proofs.ArithGen08Lib.
Require Import Cirbo.Proofs.ArithMulWallaceShape Cirbo.Proofs.ArithGen08WLib.
From Coq Require Import ZArith Lia Ascii.
Open Scope Z_scope.

(* [x for x in l if p(x)] for a test that only reads *)
Lemma filter_m_eq fresh {A} (P : A -> prog bool) (p : A -> bool) l s :
  (forall x s, In x l -> run fresh (P x) s = Ok (p x, s)) -> run fresh (py_filter_m P l) s = Ok (filter p l, s).
Proof.
Admitted.

(* columns[-1] if columns else -1 *)
Lemma last_gate_filter fresh (r : list cell) s :
  run fresh (if py_truth (filter (fun z => is_some (nth (Z.to_nat z) r None)) (py_range 0 (Z.of_nat (length r))))
             then (bdo y <- py_nth (filter (fun z => is_some (nth (Z.to_nat z) r None)) (py_range 0 (Z.of_nat (length r)))) (-1);
                   Ret y)
             else Ret (-1)) s
  = Ok (last_gate r, s).
Proof.
Admitted.

(* add_gate_from_tt(circuit, a[0], a[0], '0000') *)
Lemma mkzero_eq a :
  peq (bdo x <- py_nth a 0; bdo y <- py_nth a 0; gate_tt (TT false false false false) x y) (mkzero a).
Proof.
Admitted.

(* the loop over the columns of the two remaining rows *)
Lemma final_loop_eq fresh (a : list label) (r0 r1 : list cell) N (F : fstate -> Z -> prog fstate) :
  length r0 = N -> length r1 = N ->
  (forall i st, (i < N)%nat ->
     peq (F st (Z.of_nat i))
         (fin_step a (last_gate r0) (last_gate r1) (nth i r0 None) (nth i r1 None) (Z.of_nat i) st)) ->
  forall s,
  match run fresh (wallace_final a r0 r1) s with
  | Ok (f, s') =>
    exists zs, run fresh (foldP F (py_range 0 (Z.of_nat N)) ([], [], 0, [])) s
               = Ok ((snd (fst f), snd f, Z.of_nat (fst (fst f)), zs), s')
  | Err e => run fresh (foldP F (py_range 0 (Z.of_nat N)) ([], [], 0, [])) s = Err e
  end.
Proof.
Admitted.
