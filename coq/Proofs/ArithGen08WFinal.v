(* Generated/ArithGen08.v, add_mul_wallace (translator T22) equals the hand model, part 4: the last stage - the closures
   `_last_gate` / `_zero` and the loop that reads the two remaining rows as two numbers - against [wallace_final]
   ([leading_none], [has_gap], [trim_fill]). *)
Require Import Cirbo.Model.Base Cirbo.Model.Gate Cirbo.Model.Circuit Cirbo.Model.Builder Cirbo.Model.PyPrims.
Require Import Cirbo.Model.ArithSub Cirbo.Model.ArithSum2 Cirbo.Model.ArithSumN Cirbo.Model.ArithSumW.
Require Import Cirbo.Model.PyPrims08 Cirbo.Model.PyPrimsWal Cirbo.Model.ArithMul.
Require Import Cirbo.Generated.ArithTables.
Require Import Cirbo.Proofs.ArithGen09Lib Cirbo.Proofs.ArithGen08Lib.
Require Import Cirbo.Proofs.ArithMulWallaceShape Cirbo.Proofs.ArithGen08WLib.
From Coq Require Import ZArith Lia Ascii.
Open Scope Z_scope.

(* [x for x in l if p(x)] for a test that only reads *)
Lemma filter_m_eq fresh {A} (P : A -> prog bool) (p : A -> bool) l s :
  (forall x s, In x l -> run fresh (P x) s = Ok (p x, s)) -> run fresh (py_filter_m P l) s = Ok (filter p l, s).
Proof.
  revert s; induction l as [|x l IH]; intros s H; [reflexivity|].
  cbn [py_filter_m filter]. rs. rewrite H by (left; reflexivity). rs.
  rewrite IH by (intros y s' Hy; apply H; right; exact Hy). rs. destruct (p x); reflexivity.
Qed.

Lemma filter_map_of_nat (r : list cell) (l : list nat) :
  filter (fun z => is_some (nth (Z.to_nat z) r None)) (map Z.of_nat l)
  = map Z.of_nat (filter (fun i => is_some (nth i r None)) l).
Proof.
  induction l as [|x l IH]; [reflexivity|]. cbn [map filter]. rewrite Nat2Z.id, IH.
  destruct (is_some (nth x r None)); reflexivity.
Qed.

(* columns[-1] if columns else -1 *)
Lemma last_gate_filter fresh (r : list cell) s :
  run fresh (if py_truth (filter (fun z => is_some (nth (Z.to_nat z) r None)) (py_range 0 (Z.of_nat (length r))))
             then (bdo y <- py_nth (filter (fun z => is_some (nth (Z.to_nat z) r None)) (py_range 0 (Z.of_nat (length r)))) (-1);
                   Ret y)
             else Ret (-1)) s
  = Ok (last_gate r, s).
Proof.
  rewrite py_range_0_nat, filter_map_of_nat. unfold last_gate.
  set (L := filter (fun i => is_some (nth i r None)) (seq 0 (length r))).
  rewrite py_nth_last. unfold lastP. rewrite <- map_rev.
  destruct L as [|x L']; [reflexivity|].
  destruct (rev (x :: L')) as [|y R] eqn:E.
  - apply (f_equal (@length nat)) in E. rewrite rev_length in E. discriminate.
  - cbn [map py_truth]. rs. reflexivity.
Qed.

(* add_gate_from_tt(circuit, a[0], a[0], '0000') *)
Lemma mkzero_eq a :
  peq (bdo x <- py_nth a 0; bdo y <- py_nth a 0; gate_tt (TT false false false false) x y) (mkzero a).
Proof.
  intros fresh s. rewrite py_nth_0. unfold mkzero. change tt_false with (TT false false false false).
  destruct a as [|a0 a']; reflexivity.
Qed.

(* ---- [last_gate] against [all_none] ------------------------------------------------------------------------- *)
Lemma last_gate_snoc r x : last_gate (r ++ [x]) = if is_some x then Z.of_nat (length r) else last_gate r.
Proof.
  unfold last_gate. rewrite app_length. cbn [length]. rewrite seq_app, filter_app, rev_app_distr.
  cbn [plus seq filter]. rewrite nth_middle.
  assert (E : filter (fun i => is_some (nth i (r ++ [x]) None)) (seq 0 (length r))
              = filter (fun i => is_some (nth i r None)) (seq 0 (length r))).
  { apply filter_ext_in. intros i Hi. apply in_seq in Hi. rewrite app_nth1 by lia. reflexivity. }
  rewrite E. destruct (is_some x); reflexivity.
Qed.

Lemma last_gate_lt r : last_gate r < Z.of_nat (length r).
Proof.
  induction r as [|x r IH] using rev_ind; [reflexivity|].
  rewrite last_gate_snoc, app_length. cbn [length]. destruct (is_some x); lia.
Qed.

Lemma all_none_snoc t y : all_none (t ++ [y]) = all_none t && negb (is_some y).
Proof.
  induction t as [|c t IH]; cbn [app all_none].
  - destruct y; reflexivity.
  - destruct c; [reflexivity|exact IH].
Qed.

Lemma last_gate_mid p x t i : length p = i -> (Z.of_nat i <? last_gate (p ++ x :: t)) = negb (all_none t).
Proof.
  intros <-. induction t as [|y t IH] using rev_ind.
  - cbn [all_none negb]. rewrite last_gate_snoc. apply Z.ltb_ge.
    destruct (is_some x); [lia|]. pose proof (last_gate_lt p). lia.
  - change (p ++ x :: t ++ [y]) with (p ++ (x :: t) ++ [y]). rewrite app_assoc, last_gate_snoc, all_none_snoc.
    destruct (is_some y); cbn [negb].
    + rewrite andb_false_r. cbn [negb]. apply Z.ltb_lt. rewrite app_length. cbn [length]. lia.
    + rewrite andb_true_r. exact IH.
Qed.

Lemma nth_mid {A} (p : list A) x t i d : length p = i -> nth i (p ++ x :: t) d = x.
Proof. intros <-. apply nth_middle. Qed.

(* ---- the loop on the suffixes of the rows ------------------------------------------------------------------ *)
Definition fstepb (a : list label) (b0 b1 : bool) (x0 x1 : cell) (st : fstate) : prog fstate :=
  let '(la, lb, sh, zs) := st in
  bdo r1 <- match x0 with
            | Some l => Ret (la ++ [l], zs)
            | None => if b0 then bdo zz <- zero_call a zs; Ret (la ++ [snd zz], fst zz) else Ret (la, zs)
            end;
  let la := fst r1 in
  let zs := snd r1 in
  match x1 with
  | Some l => Ret (la, lb ++ [l], sh, zs)
  | None =>
    if py_len lb =? 0 then Ret (la, lb, sh + 1, zs)
    else if b1 then bdo zz <- zero_call a zs; Ret (la, lb ++ [snd zz], sh, fst zz)
         else Ret (la, lb, sh, zs)
  end.

Lemma fin_step_b a L0 L1 x0 x1 i st : fin_step a L0 L1 x0 x1 i st = fstepb a (i <? L0) (i <? L1) x0 x1 st.
Proof. reflexivity. Qed.

Fixpoint floop (a : list label) (s0 s1 : list cell) (st : fstate) : prog fstate :=
  match s0, s1 with
  | x0 :: t0, x1 :: t1 =>
    bdo st' <- fstepb a (negb (all_none t0)) (negb (all_none t1)) x0 x1 st; floop a t0 t1 st'
  | _, _ => Ret st
  end.

Lemma loop_to_floop a : forall s0 s1 p0 p1 i st, length p0 = i -> length p1 = i -> length s0 = length s1 ->
  peq (foldP (fun st i => fin_step a (last_gate (p0 ++ s0)) (last_gate (p1 ++ s1))
                             (nth i (p0 ++ s0) None) (nth i (p1 ++ s1) None) (Z.of_nat i) st)
             (seq i (length s0)) st)
      (floop a s0 s1 st).
Proof.
  induction s0 as [|x0 t0 IH]; intros [|x1 t1] p0 p1 i st H0 H1 HL; cbn [length] in HL; try discriminate;
    [intros fresh s; reflexivity|].
  intros fresh s. cbn [length seq foldP floop]. rs.
  rewrite fin_step_b, (last_gate_mid _ _ _ _ H0), (last_gate_mid _ _ _ _ H1), (nth_mid _ _ _ _ _ H0), (nth_mid _ _ _ _ _ H1).
  destruct (run fresh (fstepb a (negb (all_none t0)) (negb (all_none t1)) x0 x1 st) s) as [[st' s']|e]; [|reflexivity].
  assert (G0 : length (p0 ++ [x0]) = S i) by (rewrite app_length; cbn [length]; lia).
  assert (G1 : length (p1 ++ [x1]) = S i) by (rewrite app_length; cbn [length]; lia).
  assert (GL : length t0 = length t1) by lia.
  pose proof (IH t1 (p0 ++ [x0]) (p1 ++ [x1]) (S i) st' G0 G1 GL fresh s') as Q.
  rewrite <- !app_assoc in Q. cbn [app] in Q. exact Q.
Qed.

(* ---- the pure reading of [floop] ---------------------------------------------------------------------------- *)
Lemma tf_some z l (t : list cell) : trim_fill z (@cons cell (Some l) t) = l :: trim_fill z t.
Proof. reflexivity. Qed.
Lemma tf_none_T z (t : list cell) : all_none t = true -> trim_fill z (@cons cell None t) = [].
Proof. intros H. cbn [trim_fill all_none]. rewrite H. reflexivity. Qed.
Lemma tf_none_F z (t : list cell) : all_none t = false -> trim_fill z (@cons cell None t) = z :: trim_fill z t.
Proof. intros H. cbn [trim_fill all_none]. rewrite H. reflexivity. Qed.
Lemma tf_all z t : all_none t = true -> trim_fill z t = [].
Proof. intros H. destruct t as [|c t]; [reflexivity|]. cbn [trim_fill]. rewrite H. reflexivity. Qed.
Lemma hg_some l (t : list cell) : has_gap (@cons cell (Some l) t) = has_gap t.
Proof. reflexivity. Qed.
Lemma hg_none_T (t : list cell) : all_none t = true -> has_gap (@cons cell None t) = false.
Proof. intros H. cbn [has_gap all_none]. rewrite H. reflexivity. Qed.
Lemma hg_none_F (t : list cell) : all_none t = false -> has_gap (@cons cell None t) = true.
Proof. intros H. cbn [has_gap all_none]. rewrite H. reflexivity. Qed.
Lemma hg_all t : all_none t = true -> has_gap t = false.
Proof. intros H. destruct t as [|c t]; [reflexivity|]. cbn [has_gap]. rewrite H. reflexivity. Qed.

Lemma py_len_nil_eqb {A} : (py_len (@nil A) =? 0) = true.
Proof. reflexivity. Qed.
Lemma py_len_cons_eqb {A} (x : A) l : (py_len (x :: l) =? 0) = false.
Proof. reflexivity. Qed.

(* the part of row 1 still to be read, once labels_b is [lb] *)
Definition res1 (s1 : list cell) (lb : list label) : list cell :=
  match lb with [] => skipn (leading_none s1) s1 | _ :: _ => s1 end.
Definition fres (la lb : list label) (sh : Z) (s0 s1 : list cell) (z : label) (zs' : list label) : fstate :=
  (la ++ trim_fill z s0, lb ++ trim_fill z (res1 s1 lb),
   match lb with [] => sh + Z.of_nat (leading_none s1) | _ :: _ => sh end, zs').

Lemma fst_eq (la la' lb lb' : list label) (sh sh' : Z) (zs : list label) (s : bstate) :
  la = la' -> lb = lb' -> sh = sh' -> @Ok (fstate * bstate) ((la, lb, sh, zs), s) = Ok ((la', lb', sh', zs), s).
Proof. intros -> -> ->. reflexivity. Qed.

Ltac fcases x0 x1 t0 t1 lb E0 E1 :=
  destruct x0 as [?l0|]; [|destruct (all_none t0) eqn:E0];
  (destruct x1 as [?l1|]; [destruct lb as [|?b ?lb']|destruct lb as [|?b ?lb']; [|destruct (all_none t1) eqn:E1]]).

Ltac ffin :=
  unfold fres, res1; cbn [leading_none skipn];
  rewrite ?tf_some, ?hg_some;
  repeat match goal with
  | H : all_none ?t = true |- _ =>
      progress (rewrite ?(tf_none_T _ _ H), ?(tf_all _ _ H), ?(hg_none_T _ H), ?(hg_all _ H))
  | H : all_none ?t = false |- _ => progress (rewrite ?(tf_none_F _ _ H), ?(hg_none_F _ H))
  end;
  apply fst_eq; repeat (progress (rewrite <- ?app_assoc; cbn [app])); rewrite ?app_nil_r; try reflexivity; try lia.

Lemma floop_z fresh a : forall s0 s1 la lb sh z zs' s, length s0 = length s1 ->
  run fresh (floop a s0 s1 (la, lb, sh, z :: zs')) s = Ok (fres la lb sh s0 s1 z (z :: zs'), s).
Proof.
  induction s0 as [|x0 t0 IH]; intros [|x1 t1] la lb sh z zs' s HL; cbn [length] in HL; try discriminate.
  - cbn [floop]. rs. destruct lb; ffin.
  - assert (GL : length t0 = length t1) by lia.
    cbn [floop]. rs. unfold fstepb.
    fcases x0 x1 t0 t1 lb E0 E1; 
      do 3 (cbn [negb zero_call fst snd]; rewrite ?py_len_nil_eqb, ?py_len_cons_eqb; rs); rewrite (IH _ _ _ _ _ _ _ GL); ffin.
Qed.

Lemma floop_nil fresh a s : forall s0 s1 la lb sh, length s0 = length s1 ->
  run fresh (floop a s0 s1 (la, lb, sh, [])) s =
  if has_gap s0 || has_gap (res1 s1 lb)
  then match run fresh (mkzero a) s with
       | Ok (z, s') => Ok (fres la lb sh s0 s1 z [z], s')
       | Err e => Err e
       end
  else Ok (fres la lb sh s0 s1 PLACEHOLDER_STR [], s).
Proof.
  destruct (run fresh (mkzero a) s) as [[z s']|e] eqn:EM;
  (induction s0 as [|x0 t0 IH]; intros [|x1 t1] la lb sh HL; cbn [length] in HL; try discriminate;
   [ cbn [floop]; rs; destruct lb; cbn [has_gap res1 leading_none skipn orb]; ffin
   | assert (GL : length t0 = length t1) by lia;
     cbn [floop]; rs; unfold fstepb;
     fcases x0 x1 t0 t1 lb E0 E1;
     do 3 (cbn [negb zero_call fst snd]; rewrite ?py_len_nil_eqb, ?py_len_cons_eqb, ?EM; rs);
     cbn [fst snd app];
     rewrite ?(IH _ _ _ _ GL), ?floop_z by exact GL;
     unfold res1; cbn [leading_none skipn];
     rewrite ?hg_some;
     repeat match goal with
     | H : all_none ?t = true |- _ => progress (rewrite ?(hg_none_T _ H), ?(hg_all _ H))
     | H : all_none ?t = false |- _ => progress (rewrite ?(hg_none_F _ H))
     end;
     cbn [orb]; rewrite ?orb_true_r, ?orb_false_r;
     try match goal with |- context [if ?c then _ else _] => destruct c end;
     try reflexivity; ffin ]).
Qed.

(* the loop over the columns of the two remaining rows *)
Lemma final_loop_eq fresh (a : list label) (r0 r1 : list cell) N (F : fstate -> Z -> prog fstate) :
  length r0 = N -> length r1 = N ->
  (forall i st, (i < N)%nat ->
     peq (F st (Z.of_nat i))
         (fin_step a (last_gate r0) (last_gate r1) (nth i r0 None) (nth i r1 None) (Z.of_nat i) st)) ->
  forall s,
  match run fresh (wallace_final a r0 r1) s with
  | Ok (f, s') =>
    exists zs, run fresh (foldP F (py_range 0 (Z.of_nat N)) ([], [], 0, [])) s
               = Ok ((snd (fst f), snd f, Z.of_nat (fst (fst f)), zs), s')
  | Err e => run fresh (foldP F (py_range 0 (Z.of_nat N)) ([], [], 0, [])) s = Err e
  end.
Proof.
  intros H0 H1 HF s.
  assert (E : run fresh (foldP F (py_range 0 (Z.of_nat N)) ([], [], 0, [])) s
              = run fresh (floop a r0 r1 ([], [], 0, [])) s).
  { rewrite py_range_0_nat, foldP_map.
    rewrite (foldP_ext_in _ (fun st i => fin_step a (last_gate r0) (last_gate r1) (nth i r0 None) (nth i r1 None)
                                                  (Z.of_nat i) st)).
    - rewrite <- H0. apply (loop_to_floop a r0 r1 [] [] 0%nat); [reflexivity|reflexivity|lia].
    - intros st i Hi. apply in_seq in Hi. apply HF. lia. }
  rewrite E, floop_nil by lia. clear E.
  change (wallace_final a r0 r1)
    with (bdo zero <- (if has_gap r0 || has_gap (res1 r1 []) then mkzero a else Ret PLACEHOLDER_STR);
          Ret (leading_none r1, trim_fill zero r0, trim_fill zero (res1 r1 []))).
  rewrite run_bind.
  destruct (has_gap r0 || has_gap (res1 r1 [])).
  - destruct (run fresh (mkzero a) s) as [[z s']|e]; [|reflexivity].
    rewrite run_ret. exists [z]. unfold fres. cbn [fst snd app]. rewrite Z.add_0_l. reflexivity.
  - rewrite !run_ret. exists []. unfold fres. cbn [fst snd app]. rewrite Z.add_0_l. reflexivity.
Qed.
