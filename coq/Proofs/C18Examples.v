(* Concrete circuits used by the non-vacuity examples of Properties/C18.v. *)
Require Import Cirbo.Model.Base Cirbo.Model.Gate Cirbo.Model.Circuit Cirbo.Model.Traverse Cirbo.Model.WF.
Require Import Cirbo.Model.Passes Cirbo.Model.Eval.
Require Import Cirbo.Proofs.WFSound Cirbo.Proofs.EffectMU.

Definition res_to_option {A} (r : res A) : option A := match r with Ok a => Some a | Err _ => None end.

(* inputs a b d; g = AND(a,b); g2 = AND(b,a) (duplicate of g up to operand order); n1 = NOT(g);
   n2 = NOT(n1) (double negation); h = OR(n2,g2) (output); k = NOT(a) (dead); input d unused *)
Definition c18_ex : circuit :=
  mkCircuit ["a"; "b"; "d"] ["h"]
    [("a", mkGate INPUT []); ("b", mkGate INPUT []); ("d", mkGate INPUT []);
     ("g", mkGate AND ["a"; "b"]); ("g2", mkGate AND ["b"; "a"]);
     ("n1", mkGate NOT ["g"]); ("n2", mkGate NOT ["n1"]);
     ("h", mkGate OR ["n2"; "g2"]); ("k", mkGate NOT ["a"])]
    [("a", ["g"; "g2"; "k"]); ("b", ["g"; "g2"]); ("g", ["n1"]); ("n1", ["n2"]); ("n2", ["h"]); ("g2", ["h"])] [].

Lemma c18_ex_wf : WF c18_ex.
Proof. apply wfb_sound. vm_compute. reflexivity. Qed.

Lemma c18_ex_rr :
  option_map (fun c => dkeys (gates c)) (res_to_option (remove_redundant_gates false c18_ex))
    = Some ["a"; "b"; "g2"; "g"; "n1"; "n2"; "h"; "d"] /\
  option_map (fun c => dkeys (gates c)) (res_to_option (remove_redundant_gates true c18_ex))
    = Some ["a"; "b"; "g2"; "g"; "n1"; "n2"; "h"].
Proof. split; vm_compute; reflexivity. Qed.

(* an ill-formed state: the output b and the inputs a b do not name gates *)
Definition c18_bad : circuit := mkCircuit ["a"; "b"] ["b"] [] [] [].

Lemma c18_bad_differs :
  apply_transformers c18_bad [TRR false; TRR false] <> apply_linear (linearize [TRR false; TRR false]) c18_bad.
Proof. vm_compute. discriminate. Qed.

Lemma c18_ex_md :
  option_map (fun c => gates c) (res_to_option (transform TMD c18_ex)) =
  Some [("a", mkGate INPUT []); ("b", mkGate INPUT []); ("g2", mkGate AND ["b"; "a"]);
        ("n1", mkGate NOT ["g2"]); ("n2", mkGate NOT ["n1"]); ("h", mkGate OR ["n2"; "g2"]);
        ("d", mkGate INPUT [])].
Proof. vm_compute. reflexivity. Qed.

Ltac gate_cases H :=
  repeat match type of H with
         | context [leqb ?x ?y] => destruct (leqb x y)
         end; try discriminate H; try (injection H as <-).

Lemma c18_ex_arity : arity_ok c18_ex.
Proof. intros l g H Ht. unfold c18_ex in H; simpl in H. gate_cases H; try reflexivity; exfalso; apply Ht; reflexivity. Qed.

Lemma c18_ex_unary : unary_all_not c18_ex.
Proof. intros l g H. unfold c18_ex in H; simpl in H. gate_cases H; split; try reflexivity; try discriminate. Qed.

Lemma c18_ex_mu :
  WF c18_ex /\ arity_ok c18_ex /\ unary_all_not c18_ex /\
  option_map (fun c => gates c) (res_to_option (transform TMU c18_ex)) =
  Some [("a", mkGate INPUT []); ("b", mkGate INPUT []); ("g2", mkGate AND ["b"; "a"]);
        ("g", mkGate AND ["a"; "b"]); ("h", mkGate OR ["g"; "g2"]); ("d", mkGate INPUT [])].
Proof.
  split; [exact c18_ex_wf|]. split; [exact c18_ex_arity|]. split; [exact c18_ex_unary|]. vm_compute. reflexivity.
Qed.

(* a NOT gate with two operands (ill arity) *)
Definition c18_not2 : circuit :=
  mkCircuit ["a"; "b"] ["n"]
    [("a", mkGate INPUT []); ("b", mkGate INPUT []); ("k", mkGate NOT ["b"]); ("n", mkGate NOT ["a"; "k"])]
    [("b", ["k"]); ("a", ["n"]); ("k", ["n"])] [].

Lemma c18_not2_facts :
  WF c18_not2 /\ unary_all_not c18_not2 /\
  option_map (fun c => gates c) (res_to_option (transform TMU c18_not2)) =
  Some [("b", mkGate INPUT []); ("k", mkGate NOT ["b"]); ("a", mkGate INPUT []); ("n", mkGate NOT ["a"; "k"])].
Proof.
  split; [apply wfb_sound; vm_compute; reflexivity|]. split; [|vm_compute; reflexivity].
  intros l g H. unfold c18_not2 in H; simpl in H. gate_cases H; split; try reflexivity; try discriminate.
Qed.

(* buffers: f1 = IFF(a), f2 = IFF(f1) (output), g = AND(f2, b), f3 = IFF(g) (output) *)
Definition c18_iff : circuit :=
  mkCircuit ["a"; "b"] ["f2"; "f3"]
    [("a", mkGate INPUT []); ("b", mkGate INPUT []); ("f1", mkGate IFF ["a"]); ("f2", mkGate IFF ["f1"]);
     ("g", mkGate AND ["f2"; "b"]); ("f3", mkGate IFF ["g"])]
    [("a", ["f1"]); ("f1", ["f2"]); ("f2", ["g"]); ("b", ["g"]); ("g", ["f3"])] [].

Lemma c18_iff_facts :
  WF c18_iff /\ no_not_like c18_iff /\
  option_map (fun c => (outputs c, gates c)) (res_to_option (transform TMU c18_iff)) =
  Some (["a"; "g"], [("b", mkGate INPUT []); ("a", mkGate INPUT []); ("g", mkGate AND ["a"; "b"])]).
Proof.
  split; [apply wfb_sound; vm_compute; reflexivity|]. split; [|vm_compute; reflexivity].
  intros l g H. unfold c18_iff in H; simpl in H. gate_cases H; reflexivity.
Qed.

(* g1 = AND(a,b) and g2 = NOR(NOT a, NOT b) compute the same function but are not duplicates *)
Definition c18_eq : circuit :=
  mkCircuit ["a"; "b"] ["o1"; "o2"]
    [("a", mkGate INPUT []); ("b", mkGate INPUT []); ("na", mkGate NOT ["a"]); ("nb", mkGate NOT ["b"]);
     ("g1", mkGate AND ["a"; "b"]); ("g2", mkGate NOR ["na"; "nb"]);
     ("o1", mkGate XOR ["g1"; "a"]); ("o2", mkGate XOR ["g2"; "b"])]
    [("a", ["na"; "g1"; "o1"]); ("b", ["nb"; "g1"; "o2"]); ("na", ["g2"]); ("nb", ["g2"]); ("g1", ["o1"]); ("g2", ["o2"])] [].

Lemma c18_eq_facts :
  WF c18_eq /\
  option_map (fun c => gates c) (res_to_option (transform TME c18_eq)) =
  Some [("b", mkGate INPUT []); ("nb", mkGate NOT ["b"]); ("a", mkGate INPUT []); ("na", mkGate NOT ["a"]);
        ("g2", mkGate NOR ["na"; "nb"]); ("o2", mkGate XOR ["g2"; "b"]); ("o1", mkGate XOR ["g2"; "a"])] /\
  (do c' <- transform TME c18_eq; get_gates_truth_table c') =
  Ok [("a", [F; F; T; T]); ("b", [F; T; F; T]); ("na", [T; T; F; F]); ("nb", [T; F; T; F]);
      ("g2", [F; F; F; T]); ("o1", [F; F; T; F]); ("o2", [F; T; F; F])].
Proof.
  split; [apply wfb_sound; vm_compute; reflexivity|]. split; vm_compute; reflexivity.
Qed.
