(* Concrete circuits used by the non-vacuity examples of Properties/C18.v. *)
Require Import Cirbo.Model.Base Cirbo.Model.Gate Cirbo.Model.Circuit Cirbo.Model.Traverse Cirbo.Model.WF.
Require Import Cirbo.Model.Passes Cirbo.Model.Eval.
Require Import Cirbo.Proofs.WFSound.

Definition res_to_option {A} (r : res A) : option A := match r with Ok a => Some a | Err _ => None end.

(* inputs a b d; g = AND(a,b); g2 = AND(b,a) (duplicate of g up to operand order); n1 = NOT(g);
   n2 = NOT(n1) (double negation); h = OR(n2,g2) (output); k = NOT(a) (dead); input d unused *)
Definition c18_ex : circuit :=
  mkCircuit ["a"; "b"; "d"] ["h"]
    [("a", mkGate INPUT []); ("b", mkGate INPUT []); ("d", mkGate INPUT []);
     ("g", mkGate AND ["a"; "b"]); ("g2", mkGate AND ["b"; "a"]);
     ("n1", mkGate NOT ["g"]); ("n2", mkGate NOT ["n1"]);
     ("h", mkGate OR ["n2"; "g2"]); ("k", mkGate NOT ["a"])]
    [("a", ["g"; "g2"; "k"]); ("b", ["g"; "g2"]); ("g", ["n1"]); ("n1", ["n2"]); ("n2", ["h"]); ("g2", ["h"])] [].

Lemma c18_ex_wf : WF c18_ex.
Proof. apply wfb_sound. vm_compute. reflexivity. Qed.

Lemma c18_ex_rr :
  option_map (fun c => dkeys (gates c)) (res_to_option (remove_redundant_gates false c18_ex))
    = Some ["a"; "b"; "g2"; "g"; "n1"; "n2"; "h"; "d"] /\
  option_map (fun c => dkeys (gates c)) (res_to_option (remove_redundant_gates true c18_ex))
    = Some ["a"; "b"; "g2"; "g"; "n1"; "n2"; "h"].
Proof. split; vm_compute; reflexivity. Qed.

(* an ill-formed state: the output b and the inputs a b do not name gates *)
Definition c18_bad : circuit := mkCircuit ["a"; "b"] ["b"] [] [] [].

Lemma c18_bad_differs :
  apply_transformers c18_bad [TRR false; TRR false] <> apply_linear (linearize [TRR false; TRR false]) c18_bad.
Proof. vm_compute. discriminate. Qed.
