(* C04: the don't-care machinery.
   care_covers (an executable re-computation of _eval_dont_cares) is sound: when it accepts a
   care set, the leaves carry a care-set vector under every Boolean input vector.
   tt_with_dont_cares (the literal, shifting model of evaluate_truth_table_with_dont_cares)
   has the closed form: cell (j, r) is bit r of the j-th pattern on care rows, DontCare
   otherwise. *)
Require Import Cirbo.Model.Base Cirbo.Model.Gate Cirbo.Model.Circuit Cirbo.Model.Traverse
        Cirbo.Model.Eval Cirbo.Model.Sem Cirbo.Model.PatternSim Cirbo.Model.SubcircuitValidator.
Require Import Cirbo.Generated.GateTypes.
Require Import Cirbo.Proofs.DictFacts Cirbo.Proofs.SemFacts Cirbo.Proofs.EvalFacts
        Cirbo.Proofs.ValidatorFacts.

Lemma zip_inputs_keys : forall ins vals acc a,
  zip_inputs ins vals acc = Ok a ->
  forall l, dmem a l = true -> In l ins \/ dmem acc l = true.
Proof.
  induction ins as [|i ins IH]; intros vals acc a H l Hl; simpl in H.
  - injection H as <-. right; exact Hl.
  - destruct vals as [|v vals]; [discriminate|].
    destruct (IH _ _ _ H l Hl) as [Hin|Hm]; [left; right; exact Hin|].
    rewrite dmem_dset in Hm. apply orb_true_iff in Hm. destruct Hm as [Hm|Hm].
    + left; left. apply leqb_eq in Hm. congruence.
    + right; exact Hm.
Qed.

Lemma Forall2_In_l {A B} (P : A -> B -> Prop) l r x :
  Forall2 P l r -> In x l -> exists y, In y r /\ P x y.
Proof.
  induction 1 as [|a b l r Hab _ IH]; simpl; [tauto|].
  intros [<-|H]; [exists b; split; [left; reflexivity|exact Hab]|].
  destruct (IH H) as (y & Hy & Hp). exists y; split; [right; exact Hy|exact Hp].
Qed.

Lemma st_bool_ok v b : st_bool v = Ok b -> v = Some (inj b).
Proof. destruct v as [[| |]|]; simpl; intros [= <-]; reflexivity. Qed.

Theorem care_covers_sound c leaves care :
  inputs_are_input_gates c ->
  care_covers c leaves care = true ->
  forall x, length x = length (inputs c) ->
  exists a v, zip_inputs (inputs c) (map inj x) [] = Ok a /\ In v care /\
              Forall2 (fun l b => Eval c a l (inj b)) leaves v.
Proof.
  intros Hin Hc x Hx. unfold care_covers in Hc.
  destruct (reachable_vectors c leaves) as [vs|] eqn:Er; [|discriminate].
  unfold reachable_vectors in Er. apply mapM_ok_Forall2 in Er.
  assert (In x (all_bool_vectors (length (inputs c)))) as Hxin
      by (rewrite <- Hx; apply all_bool_vectors_complete).
  destruct (Forall2_In_l _ _ _ _ Er Hxin) as (v & Hv & Hf).
  destruct (zip_inputs (inputs c) (map inj x) []) as [a|] eqn:Ez; [|discriminate]. simpl in Hf.
  destruct (evaluate_full_circuit c a) as [d|] eqn:Ee; [|discriminate]. simpl in Hf.
  exists a, v. split; [reflexivity|]. split.
  - rewrite forallb_forall in Hc. apply vec_mem_In. apply Hc; exact Hv.
  - assert (sound c a d) as Hs.
    { eapply evaluate_full_circuit_sound; [exact Hin| |exact Ee].
      intros l Hl. destruct (zip_inputs_keys _ _ _ _ Ez l Hl) as [H|H]; [exact H|discriminate]. }
    apply mapM_ok_Forall2 in Hf. clear -Hf Hs.
    induction Hf as [|l b ls bs Hlb _ IH]; constructor; [|exact IH].
    apply Hs. apply st_bool_ok; exact Hlb.
Qed.

(* ---- closed form of the don't-care table ---- *)
Definition dc_cell (care : list (list bool)) (p : N) (ir : nat * list bool) : option bool :=
  if vec_mem (snd ir) care then Some (N.testbit p (N.of_nat (fst ir))) else None.

Lemma combine_map_same {A B C} (f : A -> B) (g : A -> C) l :
  combine (map f l) (map g l) = map (fun x => (f x, g x)) l.
Proof. induction l as [|x xs IH]; simpl; [reflexivity|rewrite IH; reflexivity]. Qed.

Lemma tt_fold care pats : forall rows k (T : N -> list (option bool)),
  fold_left (tt_row_step care) rows
    (map (fun p => N.shiftr p (N.of_nat k)) pats, map T pats) =
  (map (fun p => N.shiftr p (N.of_nat (k + length rows))) pats,
   map (fun p => T p ++ map (dc_cell care p) (combine (seq k (length rows)) rows)) pats).
Proof.
  induction rows as [|row rows IH]; intros k T; simpl.
  - rewrite Nat.add_0_r. f_equal. apply map_ext; intros p. rewrite app_nil_r; reflexivity.
  - unfold tt_row_step at 2. cbn [fst snd].
    rewrite combine_map_same, !map_map. cbn [fst snd].
    assert (map (fun p => N.shiftr (N.shiftr p (N.of_nat k)) 1) pats =
            map (fun p => N.shiftr p (N.of_nat (S k))) pats) as ->.
    { apply map_ext; intros p. rewrite N.shiftr_shiftr, Nat2N.inj_succ, N.add_1_r. reflexivity. }
    rewrite (IH (S k) (fun p => T p ++ [if vec_mem row care
                                         then Some (N.odd (N.shiftr p (N.of_nat k))) else None])).
    f_equal; [apply map_ext; intros p; f_equal; lia|].
    apply map_ext; intros p. rewrite <- app_assoc. f_equal. simpl. f_equal.
    unfold dc_cell; simpl. destruct (vec_mem row care); [|reflexivity].
    rewrite <- N.bit0_odd, N.shiftr_spec by apply N.le_0_l. rewrite N.add_0_l. reflexivity.
Qed.

Theorem tt_with_dont_cares_spec n pats care :
  tt_with_dont_cares n pats care =
  map (fun p => map (dc_cell care p)
                    (combine (seq 0 (length (all_bool_vectors n))) (all_bool_vectors n))) pats.
Proof.
  unfold tt_with_dont_cares.
  pose proof (tt_fold care pats (all_bool_vectors n) 0 (fun _ => [])) as H.
  simpl N.of_nat in H.
  assert (map (fun p => N.shiftr p 0) pats = pats) as E
      by (rewrite <- (map_id pats) at 2; apply map_ext; intros p; apply N.shiftr_0_r).
  rewrite E in H. rewrite H. reflexivity.
Qed.
