(* The regenerated encoder of CircuitFinderSat (Generated/SearchEncGen.v, translator T17) equals the hand model
   Model/Search.v: the variable-name helpers, _is_dont_cares_input, _add_exactly_one_of and
   _init_default_cnf_formula (every clause family, in order).  fix_gate / forbid_wire / get_cnf: SearchEncGenB.v.
   No proof here mentions a bound variable of a generated term: the loops are rewritten with the generic lemmas
   of SearchEncGenLib.v, whose function arguments are found by unification. *)
Require Import Cirbo.Model.Base Cirbo.Model.Gate Cirbo.Model.Search Cirbo.Model.SearchPy.
Require Import Cirbo.Generated.SearchEncGen.
Require Import Cirbo.Proofs.SearchFacts Cirbo.Proofs.SearchEncGenLib.
From Coq Require Import Lia Arith PeanoNat Bool.
Local Open Scope nat_scope.

Ltac rs := repeat (rewrite ?sbind_ok; cbv beta).

Section Enc.
  Variables (sp : spec) (b1 b2 : bool).
  Notation FN c := (fin sp c b1 b2).
  Notation n := (sp_n sp).
  Notation r := (sp_r sp).

  Lemma mem_internal g : In g (internal sp) -> mem_nat g (internal sp) = true.
  Proof. intros H. apply mem_nat_In. exact H. Qed.

  Lemma mem_gates g : g < n + r -> mem_nat g (seq 0 (n + r)) = true.
  Proof. intros H. apply mem_nat_In, in_seq. lia. Qed.

  Lemma internal_lt g : In g (internal sp) -> g < n + r.
  Proof. intros H. apply in_internal in H. lia. Qed.

  (* ---- the variable-name helpers: inside their assertions they are the structured variables ---- *)
  Lemma gen_pred_var c g a b : In g (internal sp) -> a < b -> b < g ->
    gen__predecessors_variable (FN c) g a b = SOk (pos (VS g a b)).
  Proof.
    intros Hg Hab Hbg. pose proof (internal_lt g Hg) as Hlt.
    unfold gen__predecessors_variable. autorewrite with fin.
    rewrite (mem_internal g Hg), !mem_gates by lia.
    rewrite !(proj2 (Nat.ltb_lt _ _)) by lia. reflexivity.
  Qed.

  Lemma gen_out_var c h g : h < sp_m sp -> g < n + r ->
    gen__output_gate_variable (FN c) h g = SOk (pos (VG h g)).
  Proof.
    intros Hh Hg. unfold gen__output_gate_variable. autorewrite with fin.
    rewrite mem_gates by lia. rewrite (proj2 (mem_nat_In h (seq 0 (sp_m sp)))) by (apply in_seq; lia).
    reflexivity.
  Qed.

  Lemma gen_value_var c g t : g < n + r -> t < 2 ^ n ->
    gen__gate_value_variable (FN c) g t = SOk (pos (VX g t)).
  Proof.
    intros Hg Ht. unfold gen__gate_value_variable. autorewrite with fin.
    rewrite mem_gates by lia. cbn [fm_input_size fm_of]. rewrite shiftl_1.
    rewrite (proj2 (Nat.ltb_lt _ _)) by lia. reflexivity.
  Qed.

  Lemma gen_type_var c g p q : g < n + r -> p <= 1 -> q <= 1 ->
    gen__gate_type_variable (FN c) g p q = SOk (pos (VF g (nz p) (nz q))).
  Proof.
    intros Hg Hp Hq. unfold gen__gate_type_variable. autorewrite with fin.
    rewrite mem_gates by lia.
    destruct p as [|[|p]]; [| |lia]; (destruct q as [|[|q]]; [| |lia]); reflexivity.
  Qed.

  (* ---- _is_dont_cares_input ---- *)
  Lemma gen_is_dc c t : table_ok sp -> t < 2 ^ n ->
    gen__is_dont_cares_input (FN c) t = SOk (all_dc sp t).
  Proof.
    intros Hok Ht. unfold gen__is_dont_cares_input. autorewrite with fin. cbn [fm_output_size fm_of].
    rewrite (sallM_ok _ (fun g => is_none (nth t (nth g (sp_outs sp) []) None))).
    - rs. unfold all_dc, sp_m. rewrite (forallb_nth_seq (fun row => is_none (nth t row None))). reflexivity.
    - intros g Hg. apply in_seq in Hg. unfold sp_m in Hg. unfold tri in *.
      rewrite (py_idx_ok _ _ []) by (unfold tri; lia). rs.
      assert (Hrow : 2 ^ n <= length (nth g (sp_outs sp) [])).
      { unfold table_ok in Hok. rewrite Forall_forall in Hok. apply Hok, nth_In. lia. }
      rewrite (py_idx_ok _ _ None) by (unfold tri; lia). rs. reflexivity.
  Qed.

  (* ---- _add_exactly_one_of ---- *)
  Lemma gen_exactly_one c ls :
    gen__add_exactly_one_of (FN c) ls = SOk (FN (c ++ exactly_one ls)).
  Proof.
    unfold gen__add_exactly_one_of. cbv zeta. autorewrite with fin.
    unfold exactly_one. rewrite <- app_assoc. cbn [app]. do 4 f_equal.
    apply map_ext. intros [a b]. reflexivity.
  Qed.

  Lemma input_bit_nz i t : nz (Nat.land (Nat.shiftr t (n - 1 - i)) 1) = input_bit n i t.
  Proof. apply nz_bit. Qed.

  Lemma in_rows t : In t (seq 0 (2 ^ n)) -> t < 2 ^ n.
  Proof. intros H. apply in_seq in H. lia. Qed.

  Lemma live_rows_eq : filter (fun t => negb (all_dc sp t)) (seq 0 (2 ^ n)) = live_rows sp.
  Proof. reflexivity. Qed.

  Lemma gate_clause_eq g fp sd a b c t :
    [lneg (pos (VS g fp sd)); lmul (if nz a then false else true) (pos (VX g t));
     lmul (if nz b then false else true) (pos (VX fp t)); lmul (if nz c then false else true) (pos (VX sd t));
     lmul (if nz a then true else false) (pos (VF g (nz b) (nz c)))]
    = gate_clause g fp sd (nz a) (nz b) (nz c) t.
  Proof. unfold gate_clause. destruct (nz a), (nz b), (nz c); reflexivity. Qed.

  Lemma product3_bools {B} (f : bool -> bool -> bool -> list B) :
    flat_map (fun abc : nat * nat * nat => let '(a, b, c) := abc in f (nz a) (nz b) (nz c)) (py_product3 (seq 0 2))
    = flat_map (fun a => flat_map (fun b => flat_map (fun c => f a b c) bools) bools) bools.
  Proof. cbn. rewrite ?app_nil_r, <- ?app_assoc. reflexivity. Qed.

  Lemma digits_length op : length (tt4_digits op) = 4.
  Proof. destruct op as [[[x0 x1] x2] x3]. reflexivity. Qed.

  Lemma digits_ok op :
    (length (tt4_digits op) =? 4) && forallb (fun d => mem_nat d [0; 1]) (tt4_digits op) = true.
  Proof. destruct op as [[[x0 x1] x2] x3]. destruct x0, x1, x2, x3; reflexivity. Qed.

  (* ---- _init_default_cnf_formula: the seven clause families, in order ---- *)
  Theorem gen_init_default c : table_ok sp ->
    gen__init_default_cnf_formula (FN c) = SOk (FN (c ++ default_cnf sp)).
  Proof.
    intros Hok. unfold gen__init_default_cnf_formula, default_cnf.
    (* 1: gate operates on two predecessors *)
    rewrite fin_internal.
    rewrite (sfoldM_fin sp b1 b2 _ (fun g => exactly_one (map (fun ab => pos (VS g (fst ab) (snd ab))) (pairs g)))).
    2:{ intros c0 g Hg. rs.
        rewrite (smapM_ok _ (fun ab => pos (VS g (fst ab) (snd ab)))).
        - rs. rewrite gen_exactly_one. rs. reflexivity.
        - intros [a b] Hab. apply in_pairs in Hab. rewrite gen_pred_var by (try assumption; lia). rs. reflexivity. }
    rs. fold (fam_preds sp).
    (* 2: each output is computed somewhere *)
    rewrite fin_outputs.
    rewrite (sfoldM_fin sp b1 b2 _ (fun h => exactly_one (map (fun g => pos (VG h g)) (internal sp)))).
    2:{ intros c0 h Hh. apply in_seq in Hh. rs. rewrite fin_internal.
        rewrite (smapM_ok _ (fun g => pos (VG h g))).
        - rs. rewrite gen_exactly_one. rs. reflexivity.
        - intros g Hg. apply internal_lt in Hg. rewrite gen_out_var by lia. rs. reflexivity. }
    rs. fold (fam_outs sp).
    (* 3: truth values for inputs *)
    rewrite fin_inputs.
    rewrite (sfoldM_fin sp b1 b2 _ (fun i => map (fun t => [(input_bit n i t, VX i t)]) (live_rows sp))).
    2:{ intros c0 i Hi. apply in_seq in Hi. rs. rewrite fin_bf. cbn [fm_input_size fm_of]. rewrite shiftl_1.
        rewrite (sfoldM_fin sp b1 b2 _ (fun t => if all_dc sp t then [] else [[(input_bit n i t, VX i t)]])).
        - rs. rewrite flat_map_ncond. reflexivity.
        - intros c1 t Ht. apply in_rows in Ht. rs. rewrite gen_is_dc by assumption. rs.
          destruct (all_dc sp t); [rewrite app_nil_r; reflexivity|].
          rewrite fin_bf. cbn [fm_input_size fm_of].
          rewrite py_shift_sub_ok by lia. rs. rewrite py_shift_sub_ok by lia. rs.
          rewrite input_bit_nz. rewrite !gen_value_var by lia.
          destruct (input_bit n i t); rs; cbv zeta; autorewrite with fin; rs; reflexivity. }
    rs. fold (fam_inputs sp).
    (* 4: gate computes the right value *)
    rewrite fin_internal.
    rewrite (sfoldM_fin sp b1 b2 _ (fun g => flat_map (fun ab => flat_map (fun a => flat_map (fun b => flat_map (fun c =>
               map (gate_clause g (fst ab) (snd ab) a b c) (live_rows sp)) bools) bools) bools) (pairs g))).
    2:{ intros c0 g Hg. pose proof (internal_lt g Hg) as Hlt. rs.
        rewrite (sfoldM_fin sp b1 b2 _ (fun ab => flat_map (fun a => flat_map (fun b => flat_map (fun c =>
                   map (gate_clause g (fst ab) (snd ab) a b c) (live_rows sp)) bools) bools) bools)).
        - rs. reflexivity.
        - intros c1 [fp sd] Hab. apply in_pairs in Hab. cbn [fst snd]. rs.
          rewrite (sfoldM_fin sp b1 b2 _ (fun abc : nat * nat * nat => let '(a, b, c) := abc in
                     map (gate_clause g fp sd (nz a) (nz b) (nz c)) (live_rows sp))).
          + rs. rewrite (product3_bools (fun a b c => map (gate_clause g fp sd a b c) (live_rows sp))). reflexivity.
          + intros c2 [[a b] c'] Habc. apply in_product3_bits in Habc. rs.
            rewrite fin_bf. cbn [fm_input_size fm_of]. rewrite shiftl_1.
            rewrite (sfoldM_fin sp b1 b2 _ (fun t => if all_dc sp t then [] else [gate_clause g fp sd (nz a) (nz b) (nz c') t])).
            * rs. rewrite flat_map_ncond. reflexivity.
            * intros c3 t Ht. apply in_rows in Ht. rs. rewrite gen_is_dc by assumption. rs.
              destruct (all_dc sp t); [rewrite app_nil_r; reflexivity|].
              rewrite gen_pred_var by (try assumption; lia). rs.
              rewrite !gen_value_var by lia. rs. rewrite gen_type_var by lia. rs.
              cbv zeta. autorewrite with fin. rewrite gate_clause_eq. reflexivity. }
    rs. fold (fam_gates sp).
    (* 5: outputs have the model's values *)
    rewrite fin_outputs.
    rewrite (sfoldM_fin sp b1 b2 _ (fun h => flat_map (fun t =>
               match out_at sp h t with
               | None => []
               | Some v => map (fun g => [neg (VG h g); (v, VX g t)]) (internal sp)
               end) (rows sp))).
    2:{ intros c0 h Hh. apply in_seq in Hh. rs. rewrite fin_bf. cbn [fm_input_size fm_of]. rewrite shiftl_1.
        rewrite (sfoldM_fin sp b1 b2 _ (fun t => match out_at sp h t with
               | None => []
               | Some v => map (fun g => [neg (VG h g); (v, VX g t)]) (internal sp)
               end)); [rs; reflexivity|].
        intros c1 t Ht. apply in_rows in Ht. rs.
        rewrite fin_tbl. unfold tri in *.
        assert (Hrow : 2 ^ n <= length (nth h (sp_outs sp) [])).
        { unfold table_ok in Hok. rewrite Forall_forall in Hok. apply Hok, nth_In. unfold sp_m in Hh. lia. }
        rewrite (py_idx_ok _ _ []) by (unfold sp_m in Hh; lia). rs.
        rewrite (py_idx_ok _ _ None) by lia. rs.
        change (nth t (nth h (sp_outs sp) []) None) with (out_at sp h t).
        destruct (out_at sp h t) as [v|] eqn:Eo; cbn [tri_is_dc is_none]; [|rewrite app_nil_r; reflexivity].
        rewrite fin_internal.
        rewrite (sfoldM_fin sp b1 b2 _ (fun g => [[neg (VG h g); (v, VX g t)]])).
        - rs. rewrite flat_map_singleton. reflexivity.
        - intros c2 g Hg. apply internal_lt in Hg. rs. rewrite gen_out_var by lia. rs.
          rewrite fin_tbl. rewrite (py_idx_ok _ _ []) by (unfold sp_m in Hh; lia). rs.
          rewrite (py_idx_ok _ _ None) by lia. rs.
          change (nth t (nth h (sp_outs sp) []) None) with (out_at sp h t). rewrite Eo. cbn [tri_truthy]. rs.
          rewrite gen_value_var by lia. rs. cbv zeta. autorewrite with fin. destruct v; reflexivity. }
    rs. fold (fam_outvals sp).
    (* 6: each gate computes an allowed operation *)
    rewrite fin_internal.
    rewrite (sfoldM_fin sp b1 b2 _ (fun g => map (forb_clause g) (sp_forb sp))).
    2:{ intros c0 g Hg. apply internal_lt in Hg. rs. rewrite fin_forb.
        rewrite (sfoldM_fin sp b1 b2 _ (fun op => [forb_clause g op])).
        - rs. rewrite flat_map_singleton. reflexivity.
        - intros c1 op _. rs. rewrite digits_ok.
          rewrite (smapM_ok _ (fun i => lmul (if nth i (tt4_digits op) 0 =? 1 then false else true)
                                             (pos (VF g (nz (Nat.div i 2)) (nz (Nat.modulo i 2)))))).
          + rs. cbv zeta. autorewrite with fin. do 4 f_equal.
            destruct op as [[[x0 x1] x2] x3]. destruct x0, x1, x2, x3; reflexivity.
          + intros i Hi. apply in_seq in Hi.
            assert (Hd : Nat.div i 2 <= 1) by (apply Nat.lt_succ_r, Nat.div_lt_upper_bound; lia).
            assert (Hm : Nat.modulo i 2 <= 1) by (pose proof (Nat.mod_upper_bound i 2); lia).
            rewrite (py_idx_ok _ _ 0) by (rewrite digits_length; lia). rs.
            rewrite gen_type_var by lia. rs. reflexivity. }
    rs. fold (fam_basis sp).
    (* 7: need_normalized *)
    rewrite fin_norm. unfold fam_norm. destruct (sp_norm sp).
    - rewrite fin_internal. rewrite (sfoldM_fin sp b1 b2 _ (fun g => [[neg (VF g false false)]])).
      + rs. rewrite flat_map_singleton, <- !app_assoc. reflexivity.
      + intros c0 g Hg. apply internal_lt in Hg. rs. rewrite gen_type_var by lia. rs.
        cbv zeta. autorewrite with fin. reflexivity.
    - rs. rewrite <- !app_assoc, app_nil_r. reflexivity.
  Qed.
End Enc.
