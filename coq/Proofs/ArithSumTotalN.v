(* C07, normal termination ("the generator works"), part 1: the bit counters.

   For every operand count the model run of add_sum_n_bits (both bases: the MDFA / Stockmeyer
   scheduler and the AIG level loop), add_sum_n_bits_easy and add_sum_two_numbers_with_shift
   returns Ok whenever the operands are gates of the host circuit and the fresh-label retry loop
   succeeds (fresh_total: every injective naming function, TotalFacts.injective_fresh_total).

   Fuel.  A level holding the bits  solo ++ pairs  (a pair (x, x xor y) stands for two bits) has
   the measure |solo| + 2 |pairs|.  Every cell consumes j bits of the level, returns one bit to
   the level and at most (j - 1) bits to the next one; the level ends by emitting one bit.  Hence
   the measure of the next level is strictly smaller, there are at most n levels and the fuel
   S n of the model is never exhausted; the `now_solo[0]` of a level always exists. *)
Require Import Cirbo.Model.Base Cirbo.Model.Gate Cirbo.Model.Circuit Cirbo.Model.Builder.
Require Import Cirbo.Generated.ArithTables Cirbo.Generated.ArithCells.
Require Import Cirbo.Model.ArithSub Cirbo.Model.ArithSum2 Cirbo.Model.ArithSumN.
Require Import Cirbo.Proofs.DictFacts Cirbo.Proofs.BuilderFacts Cirbo.Proofs.ArithFacts
  Cirbo.Proofs.TotalFacts Cirbo.Proofs.ArithTotalFacts.

(* both labels of a pair (x, x xor y) name gates *)
Definition ex2 (c : circuit) (p : label * label) : Prop :=
  has_gate c (fst p) = true /\ has_gate c (snd p) = true.
Definition all_exist2 (c : circuit) (l : list (label * label)) : Prop := Forall (ex2 c) l.

Lemma all_exist2_ext c c' l : ext c c' -> all_exist2 c l -> all_exist2 c' l.
Proof.
  intros Hx H. eapply Forall_impl; [|exact H]. intros p (H1 & H2).
  split; eapply ext_has_gate; eassumption.
Qed.

Lemma all_exist_cons c x l : has_gate c x = true -> all_exist c l -> all_exist c (x :: l).
Proof. intros; constructor; assumption. Qed.

Lemma all_exist_rev c l : all_exist c l -> all_exist c (rev l).
Proof. apply Forall_rev. Qed.

Lemma all_exist2_rev c l : all_exist2 c l -> all_exist2 c (rev l).
Proof. apply Forall_rev. Qed.

Section TotalN.
  Variable fresh : N -> label.
  Hypothesis Hf : fresh_total fresh.

  Ltac tt_step g s' E Hg :=
    match goal with
    | |- context [run fresh (Bind (gate_tt ?t ?x ?y) ?k) ?s] =>
      let Hx := fresh "Hx" in let Hy := fresh "Hy" in
      assert (has_gate (bc s) x = true) as Hx by has_solve;
      assert (has_gate (bc s) y = true) as Hy by has_solve;
      destruct (gate_tt_ok fresh t x y s Hf Hx Hy) as (g & s' & E & Hg);
      rewrite (bind_ok _ _ _ _ _ _ E); clear Hx Hy
    end.

  Ltac finish := cbn [run]; eexists _, _; split; [reflexivity|].

  (* ---- cells ---- *)
  Definition cell2_ok (cell : list label -> prog (list label)) : Prop :=
    forall x y s, has_gate (bc s) x = true -> has_gate (bc s) y = true ->
      exists r s', run fresh (cell [x; y]) s = Ok (r, s') /\
        exists a b, r = [a; b] /\ has_gate (bc s') a = true /\ has_gate (bc s') b = true.

  Definition cell3_ok (cell : list label -> prog (list label)) : Prop :=
    forall x y z s, has_gate (bc s) x = true -> has_gate (bc s) y = true -> has_gate (bc s) z = true ->
      exists r s', run fresh (cell [x; y; z]) s = Ok (r, s') /\
        exists a b, r = [a; b] /\ has_gate (bc s') a = true /\ has_gate (bc s') b = true.

  Lemma add_sum2_ok : cell2_ok add_sum2.
  Proof.
    intros x y s H1 H2. cbv beta iota zeta delta [add_sum2].
    tt_step g1 s1 E1 G1. tt_step g2 s2 E2 G2. finish.
    exists g1, g2. repeat split; has_solve.
  Qed.

  Lemma add_sum3_ok : cell3_ok add_sum3.
  Proof.
    intros x y z s H1 H2 H3. cbv beta iota zeta delta [add_sum3].
    tt_step g1 s1 E1 G1. tt_step g2 s2 E2 G2. tt_step g3 s3 E3 G3. tt_step g4 s4 E4 G4.
    tt_step g5 s5 E5 G5. finish.
    exists g4, g5. repeat split; has_solve.
  Qed.

  Lemma add_sum2_aig_ok : cell2_ok add_sum2_aig.
  Proof.
    intros x y s H1 H2. cbv beta iota zeta delta [add_sum2_aig].
    tt_step g1 s1 E1 G1. tt_step g2 s2 E2 G2. tt_step g3 s3 E3 G3. finish.
    exists g3, g2. repeat split; has_solve.
  Qed.

  Lemma add_sum3_aig_ok : cell3_ok add_sum3_aig.
  Proof.
    intros x y z s H1 H2 H3. cbv beta iota zeta delta [add_sum3_aig].
    tt_step g1 s1 E1 G1. tt_step g2 s2 E2 G2. tt_step g3 s3 E3 G3. tt_step g4 s4 E4 G4.
    tt_step g5 s5 E5 G5. tt_step g6 s6 E6 G6. tt_step g7 s7 E7 G7. finish.
    exists g6, g7. repeat split; has_solve.
  Qed.

  Lemma add_mdfa_ok z x1 xy1 x2 xy2 s :
    has_gate (bc s) z = true -> has_gate (bc s) x1 = true -> has_gate (bc s) xy1 = true ->
    has_gate (bc s) x2 = true -> has_gate (bc s) xy2 = true ->
    exists r s', run fresh (add_mdfa [z; x1; xy1; x2; xy2]) s = Ok (r, s') /\
      exists z' a b, r = [z'; a; b] /\ has_gate (bc s') z' = true /\ has_gate (bc s') a = true /\
                     has_gate (bc s') b = true.
  Proof.
    intros H0 H1 H2 H3 H4. cbv beta iota zeta delta [add_mdfa].
    tt_step g1 s1 E1 G1. tt_step g2 s2 E2 G2. tt_step g3 s3 E3 G3. tt_step g4 s4 E4 G4.
    tt_step g5 s5 E5 G5. tt_step g6 s6 E6 G6. tt_step g7 s7 E7 G7. tt_step g8 s8 E8 G8. finish.
    exists g6, g4, g8. repeat split; has_solve.
  Qed.

  Lemma add_simplified_mdfa_ok x1 xy1 x2 xy2 s :
    has_gate (bc s) x1 = true -> has_gate (bc s) xy1 = true ->
    has_gate (bc s) x2 = true -> has_gate (bc s) xy2 = true ->
    exists r s', run fresh (add_simplified_mdfa [x1; xy1; x2; xy2]) s = Ok (r, s') /\
      exists z' a b, r = [z'; a; b] /\ has_gate (bc s') z' = true /\ has_gate (bc s') a = true /\
                     has_gate (bc s') b = true.
  Proof.
    intros H1 H2 H3 H4. cbv beta iota zeta delta [add_simplified_mdfa].
    tt_step g2 s2 E2 G2. tt_step g4 s4 E4 G4. tt_step g5 s5 E5 G5. tt_step g6 s6 E6 G6.
    tt_step g7 s7 E7 G7. tt_step g8 s8 E8 G8. finish.
    exists g6, g4, g8. repeat split; has_solve.
  Qed.

  (* ---- the loops shared by all schedulers ---- *)
  (* k bits of a level leave one bit there and at most k - 1 carries *)
  Lemma solo_loop_ok cell3 cell2 : cell3_ok cell3 -> cell2_ok cell2 ->
    forall n rest top next s, (length rest <= n)%nat ->
      has_gate (bc s) top = true -> all_exist (bc s) rest -> all_exist (bc s) next ->
      exists r s', run fresh (solo_loop cell3 cell2 top rest next) s = Ok (r, s') /\
        has_gate (bc s') (fst r) = true /\ all_exist (bc s') (snd r) /\
        (length (snd r) <= length next + length rest)%nat.
  Proof.
    intros C3 C2. induction n as [|n IH]; intros rest top next s Ln Ht Hr Hn.
    - destruct rest; [|simpl in Ln; lia]. cbn [solo_loop]. finish. cbn [fst snd length]. auto with arith.
    - destruct rest as [|b [|c rest']]; cbn [solo_loop].
      + finish. cbn [fst snd length]. auto with arith.
      + inversion Hr as [|? ? Hb _]; subst.
        destruct (C2 top b s Ht Hb) as (r & s1 & E1 & x & y & -> & Hx & Hy).
        rewrite (bind_ok _ _ _ _ _ _ E1). cbn [unpack2]. cbn [run]. cbn [fst snd].
        eexists _, _. split; [reflexivity|]. cbn [fst snd length]. split; [exact Hx|].
        split; [|lia]. apply all_exist_cons; [exact Hy|].
        eapply all_exist_ext; [eapply run_ext; exact E1|exact Hn].
      + inversion Hr as [|? ? Hb Hr1]; subst. inversion Hr1 as [|? ? Hc Hr2]; subst.
        destruct (C3 top b c s Ht Hb Hc) as (r & s1 & E1 & x & y & -> & Hx & Hy).
        rewrite (bind_ok _ _ _ _ _ _ E1). cbn [unpack2]. cbn [run]. cbn [fst snd].
        pose proof (run_ext _ _ _ _ _ E1) as X1.
        destruct (IH rest' x (y :: next) s1) as (r & s2 & E2 & H1 & H2 & L2).
        { simpl in Ln. lia. } { exact Hx. } { eapply all_exist_ext; eassumption. }
        { apply all_exist_cons; [exact Hy|eapply all_exist_ext; eassumption]. }
        exists r, s2. split; [exact E2|]. split; [exact H1|]. split; [exact H2|].
        cbn [length] in *. lia.
  Qed.

  (* one result bit per level, and the next level is strictly shorter *)
  Lemma level_loop_ok cell3 cell2 : cell3_ok cell3 -> cell2_ok cell2 ->
    forall fuel now s, (length now <= fuel)%nat -> all_exist (bc s) now ->
      exists r s', run fresh (level_loop fuel cell3 cell2 now) s = Ok (r, s') /\
        all_exist (bc s') r /\ (now <> [] -> r <> []).
  Proof.
    intros C3 C2. induction fuel as [|f IH]; intros now s L Hn.
    - destruct now; [|simpl in L; lia]. cbn [level_loop]. finish. split; [constructor|auto].
    - destruct now as [|top rest]; cbn [level_loop].
      + finish. split; [constructor|auto].
      + inversion Hn as [|? ? Ht Hr]; subst.
        destruct (solo_loop_ok _ _ C3 C2 (length rest) rest top [] s) as (r & s1 & E1 & H1 & H2 & L2);
          [lia|exact Ht|exact Hr|constructor|].
        rewrite (bind_ok _ _ _ _ _ _ E1).
        destruct (IH (snd r) s1) as (rs & s2 & E2 & H3 & _); [simpl in L, L2; lia|exact H2|].
        rewrite (bind_ok _ _ _ _ _ _ E2). finish.
        split; [|discriminate]. apply all_exist_cons; [|exact H3].
        eapply ext_has_gate; [eapply run_ext; exact E2|exact H1].
  Qed.

  Lemma pair_up_ok : forall n solo xxy s, (length solo <= n)%nat ->
    all_exist (bc s) solo -> all_exist2 (bc s) xxy ->
    exists r s', run fresh (pair_up solo xxy) s = Ok (r, s') /\
      all_exist (bc s') (fst r) /\ all_exist2 (bc s') (snd r) /\
      (length (fst r) + 2 * length (snd r) = length solo + 2 * length xxy)%nat.
  Proof.
    induction n as [|n IH]; intros solo xxy s L Hs Hp.
    - destruct solo; [|simpl in L; lia]. cbn [pair_up]. finish. cbn [fst snd]. auto.
    - destruct solo as [|a [|b rest]]; cbn [pair_up].
      + finish. cbn [fst snd]. auto.
      + finish. cbn [fst snd]. auto.
      + inversion Hs as [|? ? Ha Hs1]; subst. inversion Hs1 as [|? ? Hb Hs2]; subst.
        destruct (gate_tt_ok fresh tt_xor a b s Hf Ha Hb) as (xy & s1 & E1 & Hxy).
        rewrite (bind_ok _ _ _ _ _ _ E1). pose proof (run_ext _ _ _ _ _ E1) as X1.
        destruct (IH rest ((a, xy) :: xxy) s1) as (r & s2 & E2 & H1 & H2 & L2).
        { simpl in L. lia. } { eapply all_exist_ext; eassumption. }
        { constructor; [split; [eapply ext_has_gate; eassumption|exact Hxy]|eapply all_exist2_ext; eassumption]. }
        exists r, s2. split; [exact E2|]. split; [exact H1|]. split; [exact H2|].
        cbn [length] in *. lia.
  Qed.

  (* ---- the XAIG scheduler ---- *)
  Lemma mdfa_loop_ok : forall n xxy solo nx s, (length xxy <= n)%nat ->
    all_exist2 (bc s) xxy -> all_exist (bc s) solo -> all_exist2 (bc s) nx ->
    exists r s', run fresh (mdfa_loop xxy solo nx) s = Ok (r, s') /\
      all_exist2 (bc s') (fst (fst r)) /\ all_exist (bc s') (snd (fst r)) /\ all_exist2 (bc s') (snd r) /\
      (length (fst (fst r)) <= 1)%nat /\
      (length (snd (fst r)) + 2 * length (fst (fst r)) + 2 * length (snd r)
       <= length solo + 2 * length xxy + 2 * length nx)%nat /\
      (1 <= length solo + 2 * length xxy -> 1 <= length (snd (fst r)) + 2 * length (fst (fst r)))%nat.
  Proof.
    induction n as [|n IH]; intros xxy solo nx s L Hp Hs Hn.
    - destruct xxy; [|simpl in L; lia]. cbn [mdfa_loop]. finish. cbn [fst snd length]. auto 7 with arith.
    - destruct xxy as [|[x1 xy1] [|[x2 xy2] rest]]; cbn [mdfa_loop].
      + finish. cbn [fst snd length]. auto 7 with arith.
      + finish. cbn [fst snd length]. auto 7 with arith.
      + inversion Hp as [|? ? (Hx1 & Hxy1) Hp1]; subst. inversion Hp1 as [|? ? (Hx2 & Hxy2) Hp2]; subst.
        cbn [fst snd] in *.
        destruct solo as [|z solo'].
        * destruct (add_simplified_mdfa_ok x1 xy1 x2 xy2 s Hx1 Hxy1 Hx2 Hxy2)
            as (r & s1 & E1 & z' & a & b & -> & Hz' & Ha & Hb).
          rewrite (bind_ok _ _ _ _ _ _ E1). cbn [unpack3]. cbn [run]. pose proof (run_ext _ _ _ _ _ E1) as X1.
          destruct (IH rest [z'] ((a, b) :: nx) s1) as (r & s2 & E2 & H1 & H2 & H3 & L1 & L2 & L3).
          { simpl in L. lia. } { eapply all_exist2_ext; eassumption. }
          { apply all_exist_cons; [exact Hz'|constructor]. }
          { constructor; [split; assumption|eapply all_exist2_ext; eassumption]. }
          exists r, s2. split; [exact E2|]. split; [exact H1|]. split; [exact H2|]. split; [exact H3|].
          split; [exact L1|]. cbn [length] in *. split; [lia|]. intros _. apply L3. lia.
        * inversion Hs as [|? ? Hz Hs1]; subst.
          destruct (add_mdfa_ok z x1 xy1 x2 xy2 s Hz Hx1 Hxy1 Hx2 Hxy2)
            as (r & s1 & E1 & z' & a & b & -> & Hz' & Ha & Hb).
          rewrite (bind_ok _ _ _ _ _ _ E1). cbn [unpack3]. cbn [run]. pose proof (run_ext _ _ _ _ _ E1) as X1.
          destruct (IH rest (z' :: solo') ((a, b) :: nx) s1) as (r & s2 & E2 & H1 & H2 & H3 & L1 & L2 & L3).
          { simpl in L. lia. } { eapply all_exist2_ext; eassumption. }
          { apply all_exist_cons; [exact Hz'|eapply all_exist_ext; eassumption]. }
          { constructor; [split; assumption|eapply all_exist2_ext; eassumption]. }
          exists r, s2. split; [exact E2|]. split; [exact H1|]. split; [exact H2|]. split; [exact H3|].
          split; [exact L1|]. cbn [length] in *. split; [lia|]. intros _. apply L3. lia.
  Qed.

  Lemma last_pair_ok xxy solo s :
    (length xxy <= 1)%nat -> (1 <= length solo + 2 * length xxy)%nat ->
    all_exist2 (bc s) xxy -> all_exist (bc s) solo ->
    exists r s', run fresh (last_pair xxy solo) s = Ok (r, s') /\
      all_exist (bc s') (fst r) /\ all_exist (bc s') (snd r) /\ fst r <> [] /\
      (length (fst r) + length (snd r) <= length solo + 2 * length xxy)%nat.
  Proof.
    intros L1 L2 Hp Hs. destruct xxy as [|[x xy] [|? ?]]; [| |simpl in L1; lia]; cbn [last_pair].
    - finish. cbn [fst snd length]. split; [exact Hs|]. split; [constructor|].
      split; [destruct solo; [simpl in L2; lia|discriminate]|lia].
    - inversion Hp as [|? ? (Hx & Hxy) _]; subst. cbn [fst snd] in *.
      destruct solo as [|z solo'].
      + destruct (gate_tt_ok fresh tt_gt x xy s Hf Hx Hxy) as (g & s1 & E1 & Hg).
        rewrite (bind_ok _ _ _ _ _ _ E1). finish. cbn [fst snd length].
        split; [apply all_exist_cons; [has_solve|constructor]|].
        split; [apply all_exist_cons; [exact Hg|constructor]|]. split; [discriminate|lia].
      + inversion Hs as [|? ? Hz Hs1]; subst.
        destruct (add_stockmeyer_block_ok fresh Hf z x xy s Hz Hx Hxy) as (r & s1 & E1 & w0 & w1 & -> & H0 & H1).
        rewrite (bind_ok _ _ _ _ _ _ E1). cbn [unpack2]. cbn [run]. cbn [fst snd].
        eexists _, _. split; [reflexivity|]. cbn [fst snd length].
        split; [apply all_exist_cons; [exact H0|eapply all_exist_ext; [eapply run_ext; exact E1|exact Hs1]]|].
        split; [apply all_exist_cons; [exact H1|constructor]|]. split; [discriminate|lia].
  Qed.

  (* one level: `now_solo[0]` exists, and the next level is strictly smaller *)
  Lemma xaig_level_ok solo xxy s :
    (1 <= length solo + 2 * length xxy)%nat -> all_exist (bc s) solo -> all_exist2 (bc s) xxy ->
    exists r s', run fresh (xaig_level solo xxy) s = Ok (r, s') /\
      has_gate (bc s') (fst (fst r)) = true /\ all_exist (bc s') (snd (fst r)) /\ all_exist2 (bc s') (snd r) /\
      (length (snd (fst r)) + 2 * length (snd r) + 1 <= length solo + 2 * length xxy)%nat.
  Proof.
    intros L Hs Hp. unfold xaig_level.
    destruct (mdfa_loop_ok (length xxy) xxy solo [] s) as ([[xxy1 solo1] nx1] & s1 & E1 & H1 & H2 & H3 & L1 & L2 & L3);
      [lia|exact Hp|exact Hs|constructor|].
    rewrite (bind_ok _ _ _ _ _ _ E1). cbn [fst snd length] in *. cbv beta iota.
    destruct (last_pair_ok xxy1 solo1 s1) as ([solo2 ns] & s2 & E2 & H4 & H5 & Hne & L4);
      [exact L1|apply L3, L|exact H1|exact H2|].
    rewrite (bind_ok _ _ _ _ _ _ E2). cbn [fst snd] in *. cbv beta iota.
    pose proof (run_ext _ _ _ _ _ E2) as X2.
    destruct solo2 as [|top rest]; [contradiction|].
    inversion H4 as [|? ? Ht Hr]; subst.
    destruct (solo_loop_ok _ _ add_sum3_ok add_sum2_ok (length rest) rest top ns s2) as (r & s3 & E3 & H6 & H7 & L5);
      [lia|exact Ht|exact Hr|exact H5|].
    rewrite (bind_ok _ _ _ _ _ _ E3). finish. cbn [fst snd].
    split; [exact H6|]. split; [exact H7|].
    split; [eapply all_exist2_ext; [exact (ext_trans _ _ _ X2 (run_ext _ _ _ _ _ E3))|exact H3]|].
    cbn [length] in *. lia.
  Qed.

  Lemma xaig_loop_ok : forall fuel solo xxy s, (length solo + 2 * length xxy <= fuel)%nat ->
    all_exist (bc s) solo -> all_exist2 (bc s) xxy ->
    exists r s', run fresh (xaig_loop fuel solo xxy) s = Ok (r, s') /\ all_exist (bc s') r /\
      (1 <= length solo + 2 * length xxy -> r <> [])%nat.
  Proof.
    induction fuel as [|f IH]; intros solo xxy s L Hs Hp.
    - destruct solo; [|simpl in L; lia]. destruct xxy; [|simpl in L; lia]. cbn [xaig_loop]. finish.
      split; [constructor|simpl; lia].
    - assert (Hstep : (1 <= length solo + 2 * length xxy)%nat ->
        exists r s', run fresh (bdo st <- xaig_level solo xxy;
                                let '(r, next_solo, next_xxy) := st in
                                bdo rs <- xaig_loop f next_solo next_xxy; Ret (r :: rs)) s = Ok (r, s') /\
                     all_exist (bc s') r /\ (1 <= length solo + 2 * length xxy -> r <> [])%nat).
      { intros L1.
        destruct (xaig_level_ok solo xxy s L1 Hs Hp) as ([[r ns] nx] & s1 & E1 & H1 & H2 & H3 & L2).
        rewrite (bind_ok _ _ _ _ _ _ E1). cbn [fst snd] in *. cbv beta iota.
        destruct (IH ns nx s1) as (rs & s2 & E2 & H4 & _); [lia|exact H2|exact H3|].
        rewrite (bind_ok _ _ _ _ _ _ E2). finish. split; [|discriminate].
        apply all_exist_cons; [|exact H4]. eapply ext_has_gate; [eapply run_ext; exact E2|exact H1]. }
      destruct solo as [|z solo'].
      + destruct xxy as [|p xxy'].
        * cbn [xaig_loop]. finish. split; [constructor|simpl; lia].
        * cbn [xaig_loop]. apply Hstep. simpl. lia.
      + cbn [xaig_loop]. apply Hstep. simpl. lia.
  Qed.

  (* ---- add_sum_n_bits ---- *)
  Lemma add_sum_n_bits_xaig_ok xs s : all_exist (bc s) xs ->
    exists r s', run fresh (add_sum_n_bits_xaig xs) s = Ok (r, s') /\ all_exist (bc s') r /\ (xs <> [] -> r <> []).
  Proof.
    intros Hx. unfold add_sum_n_bits_xaig.
    destruct (pair_up_ok (length (rev xs)) (rev xs) [] s) as ([solo xxy] & s1 & E1 & H1 & H2 & L1);
      [lia|apply all_exist_rev, Hx|constructor|].
    rewrite (bind_ok _ _ _ _ _ _ E1). cbn [fst snd length] in *. rewrite rev_length in L1.
    destruct (xaig_loop_ok (S (length xs)) solo xxy s1) as (r & s2 & E2 & H3 & Hne); [lia|exact H1|exact H2|].
    exists r, s2. split; [exact E2|]. split; [exact H3|]. intros Hxs. apply Hne.
    destruct xs; [contradiction|simpl in L1; lia].
  Qed.

  Lemma add_sum_n_bits_aig_ok xs s : all_exist (bc s) xs ->
    exists r s', run fresh (add_sum_n_bits_aig xs) s = Ok (r, s') /\ all_exist (bc s') r /\ (xs <> [] -> r <> []).
  Proof.
    intros Hx. unfold add_sum_n_bits_aig.
    destruct (level_loop_ok _ _ add_sum3_aig_ok add_sum2_aig_ok (S (length xs)) (rev xs) s) as (r & s1 & E1 & H1 & Hne);
      [rewrite rev_length; lia|apply all_exist_rev, Hx|].
    exists r, s1. split; [exact E1|]. split; [exact H1|]. intros Hxs. apply Hne.
    intros E. apply (f_equal (@length label)) in E. rewrite rev_length in E. destruct xs; [contradiction|discriminate].
  Qed.

  Theorem add_sum_n_bits_ok basis b be xs s :
    resolve_basis basis = Ok b -> all_exist (bc s) xs ->
    exists r s', run fresh (add_sum_n_bits basis be xs) s = Ok (r, s') /\ all_exist (bc s') r /\
                 (xs <> [] -> r <> []).
  Proof.
    intros Hb Hx. unfold add_sum_n_bits. rewrite Hb. cbn [ret_res].
    rewrite (bind_ok fresh (Ret b) _ s b s eq_refl).
    assert (exists r s', run fresh (add_sum_n_bits_resolved b (rev_if be xs)) s = Ok (r, s') /\
                         all_exist (bc s') r /\ (xs <> [] -> r <> [])) as (r & s1 & E1 & H1 & Hne).
    { destruct b; cbn [add_sum_n_bits_resolved].
      - destruct (add_sum_n_bits_xaig_ok (rev_if be xs) s) as (r & s1 & E1 & H1 & Hne); [apply all_exist_rev_if, Hx|].
        exists r, s1. split; [exact E1|]. split; [exact H1|]. intros Hxs. apply Hne, rev_if_nonempty, Hxs.
      - destruct (add_sum_n_bits_aig_ok (rev_if be xs) s) as (r & s1 & E1 & H1 & Hne); [apply all_exist_rev_if, Hx|].
        exists r, s1. split; [exact E1|]. split; [exact H1|]. intros Hxs. apply Hne, rev_if_nonempty, Hxs. }
    rewrite (bind_ok _ _ _ _ _ _ E1). finish.
    split; [apply all_exist_rev_if, H1|]. intros Hxs. apply rev_if_nonempty, Hne, Hxs.
  Qed.

  Theorem add_sum_n_bits_easy_ok be xs s : all_exist (bc s) xs ->
    exists r s', run fresh (add_sum_n_bits_easy be xs) s = Ok (r, s') /\ all_exist (bc s') r /\
                 (xs <> [] -> r <> []).
  Proof.
    intros Hx. unfold add_sum_n_bits_easy.
    destruct (level_loop_ok _ _ add_sum3_ok add_sum2_ok (S (length (rev_if be xs))) (rev (rev_if be xs)) s)
      as (r & s1 & E1 & H1 & Hne); [rewrite rev_length; lia|apply all_exist_rev, all_exist_rev_if, Hx|].
    rewrite (bind_ok _ _ _ _ _ _ E1). finish.
    split; [apply all_exist_rev_if, H1|]. intros Hxs. apply rev_if_nonempty, Hne.
    intros E. apply (f_equal (@length label)) in E. rewrite rev_length, rev_if_length in E.
    destruct xs; [contradiction|discriminate].
  Qed.

  (* ---- add_sum_two_numbers_with_shift ---- *)
  (* Python raises IndexError (input_labels_b[0]) when shift < len(a) and b is empty, and
     (input_labels_a[0]) when shift > len(a) = 0: exactly these inputs are excluded *)
  Theorem add_sum_two_numbers_with_shift_ok sh xs ys be s :
    all_exist (bc s) xs -> all_exist (bc s) ys ->
    ((sh < length xs)%nat -> ys <> []) -> ((length xs < sh)%nat -> xs <> []) ->
    exists r s', run fresh (add_sum_two_numbers_with_shift sh xs ys be) s = Ok (r, s') /\ all_exist (bc s') r.
  Proof.
    intros Hx Hy Hne1 Hne2. unfold add_sum_two_numbers_with_shift. rewrite rev_if_length.
    destruct (length xs <=? sh)%nat eqn:E.
    - apply Nat.leb_le in E. destruct (sh =? length xs)%nat eqn:E2.
      + rewrite (bind_ok fresh (Ret []) _ s [] s eq_refl). finish.
        apply all_exist_rev_if. apply all_exist_app; [apply all_exist_rev_if, Hx|apply all_exist_rev_if, Hy].
      + apply Nat.eqb_neq in E2.
        destruct (rev_if be xs) as [|a0 a'] eqn:Ea.
        { exfalso. revert Ea. apply rev_if_nonempty, Hne2. lia. }
        assert (all_exist (bc s) (a0 :: a')) as Ha by (rewrite <- Ea; apply all_exist_rev_if, Hx).
        inversion Ha as [|? ? H0 _]; subst.
        unfold nthP, nth_res. cbn [nth_error ret_res].
        destruct (gate_tt_ok fresh tt_false a0 a0 s Hf H0 H0) as (zero & s1 & E1 & Hz).
        assert (run fresh (bdo a1 <- Ret a0; bdo zero <- gate_tt tt_false a1 a1;
                           Ret (repeat zero (sh - length xs))) s = Ok (repeat zero (sh - length xs), s1)) as E3.
        { cbn [run]. rewrite E1. reflexivity. }
        rewrite (bind_ok _ _ _ _ _ _ E3). finish. pose proof (run_ext _ _ _ _ _ E1) as X1.
        apply all_exist_rev_if. apply all_exist_app; [eapply all_exist_ext; eassumption|].
        apply all_exist_app; [apply all_exist_repeat, Hz|].
        eapply all_exist_ext; [exact X1|apply all_exist_rev_if, Hy].
    - apply Nat.leb_gt in E.
      destruct (add_sum_two_numbers_ok fresh Hf (skipn sh (rev_if be xs)) (rev_if be ys) false s)
        as (rs & s1 & E1 & H1 & _).
      { intros E0. apply (f_equal (@length label)) in E0. rewrite skipn_length, rev_if_length in E0. simpl in E0. lia. }
      { apply rev_if_nonempty, Hne1, E. }
      { apply all_exist_skipn, all_exist_rev_if, Hx. } { apply all_exist_rev_if, Hy. }
      rewrite (bind_ok _ _ _ _ _ _ E1). finish.
      apply all_exist_rev_if, all_exist_app; [|exact H1].
      apply all_exist_firstn. eapply all_exist_ext; [eapply run_ext; exact E1|apply all_exist_rev_if, Hx].
  Qed.
End TotalN.
