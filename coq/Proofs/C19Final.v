(* C19: statements of Properties/C19.v for rename_gate / replace_inputs / remove_gate assembled
   from SemRenameGate / SemReplaceInputs / SemRemove, and the non-vacuity examples. *)
Require Import Cirbo.Model.Base Cirbo.Model.Gate Cirbo.Model.Den Cirbo.Model.Circuit Cirbo.Model.Connect
        Cirbo.Model.Eval Cirbo.Model.Sem Cirbo.Model.History Cirbo.Model.WF.
Require Import Cirbo.Proofs.DictFacts Cirbo.Proofs.WFBase Cirbo.Proofs.WFEmplace Cirbo.Proofs.WFRename
        Cirbo.Proofs.WFRename2 Cirbo.Proofs.WFReplaceInputs Cirbo.Proofs.WFStep Cirbo.Proofs.SemExt Cirbo.Proofs.SemRenameGate
        Cirbo.Proofs.SemReplaceInputs Cirbo.Proofs.SemRemove Cirbo.Proofs.SemFacts Cirbo.Proofs.SemReplaceSub Cirbo.Proofs.SemReplaceSub2 Cirbo.Proofs.SemReplaceSub3 Cirbo.Proofs.WFReplaceSub.

Theorem rename_gate_state c old new c' : WF c -> rename_gate c old new = Ok c' ->
  WF c' /\
  (forall x g, dget (gates c) x = Some g ->
     dget (gates c') (ren old new x) = Some (mkGate (gtyp g) (map (ren old new) (gops g)))) /\
  (forall y g', dget (gates c') y = Some g' ->
     exists x g, y = ren old new x /\ dget (gates c) x = Some g) /\
  has_gate c' old = false /\
  dkeys (gates c') = remove1 old (dkeys (gates c)) ++ [new] /\
  inputs c' = map (ren old new) (inputs c) /\
  outputs c' = map (ren old new) (outputs c) /\
  blocks c' = map (fun kb => (fst kb, mkBlock (map (ren old new) (binputs (snd kb)))
                                              (map (ren old new) (bgates (snd kb)))
                                              (map (ren old new) (boutputs (snd kb))))) (blocks c) /\
  (forall x u, has_gate c x = true -> has_gate c u = true ->
     count (ren old new u) (users_of c' (ren old new x)) = count u (users_of c x)).
Proof.
  intros W H. split; [eapply rename_gate_wf; eassumption|].
  split; [apply (rename_gate_get c c' old new W H)|].
  split.
  { intros y g' Hy. destruct (rename_gate_get_inv c c' old new W H y g' Hy) as (_ & g & Hg & Hr & _).
    exists (ren new old y), g. auto. }
  split; [apply (rename_old_gone c c' old new W H)|].
  split; [apply (rename_keys c c' old new W H)|].
  split; [apply (rename_inputs c c' old new W H)|].
  split; [apply (rename_outputs c c' old new H)|].
  split; [apply (rename_blocks c c' old new H)|].
  apply (rename_users c c' old new W H).
Qed.

Theorem rename_gate_sem_concrete c old new c' a : WF c -> rename_gate c old new = Ok c' ->
  dmem a new = false ->
  forall l v, has_gate c l = true ->
    (Eval c' (rename_assignment old new a) (ren old new l) v <-> Eval c a l v).
Proof.
  intros W H Ha. apply (rename_gate_sem c c' old new W H).
  intros l Hl. apply rename_assignment_aval; [exact Ha|].
  apply (gate_not_new c c' old new H). apply (wf_inputs c W) in Hl. destruct Hl as (g & Hg & _).
  eapply get_has_gate; eassumption.
Qed.

(* ---- examples ---- *)
Definition C19_ex : circuit :=
  match foldM step
          [OpAddInputs ["x"; "y"; "z"]; OpEmplace "g1" AND ["x"; "y"]; OpEmplace "g2" OR ["g1"; "g1"; "z"];
           OpEmplace "g3" NOT ["g2"]; OpEmplace "d" XOR ["x"; "z"];
           OpMarkOutput "g3"; OpMarkOutput "g1"; OpMakeBlock "B" ["g1"; "g2"] ["g2"] None]
          empty_circuit with
  | Ok c => c
  | Err _ => empty_circuit
  end.

Lemma C19_ex_ok :
  Inv C19_ex /\
  (exists c', rename_gate C19_ex "g1" "h" = Ok c') /\
  rename_gate C19_ex "q" "h" = Err CircuitGateIsAbsentError /\
  rename_gate C19_ex "g1" "g2" = Err CircuitGateAlreadyExistsError /\
  (exists c', replace_inputs C19_ex ["x"] ["z"] = Ok c' /\ inputs c' = ["y"]) /\
  (exists c', remove_gate C19_ex "d" = Ok c') /\
  remove_gate C19_ex "g1" = Err GateHasUsersError /\
  remove_gate C19_ex "q" = Err CircuitValidationError.
Proof.
  split; [apply Inv_b; vm_compute; reflexivity|].
  repeat split; try (vm_compute; reflexivity); eexists; vm_compute; try split; reflexivity.
Qed.

Lemma replace_inputs_inv' c ts fs c' : Inv c -> replace_inputs c ts fs = Ok c' -> Inv c'.
Proof. intros [W N] H. eapply WFReplaceInputs.replace_inputs_wf; eassumption. Qed.

(* ---- replace_subcircuit: example satisfying every hypothesis of the semantic theorem ---- *)
Definition C19_rs_host : circuit :=
  match foldM step
          [OpAddInputs ["x"; "y"]; OpEmplace "g" AND ["x"; "y"]; OpEmplace "h" NOT ["g"];
           OpEmplace "out" OR ["h"; "x"]; OpMarkOutput "out"]
          empty_circuit with
  | Ok c => c
  | Err _ => empty_circuit
  end.

Definition C19_rs_sub : circuit :=
  match foldM step [OpAddInputs ["x"; "y"]; OpEmplace "h" NAND ["x"; "y"]; OpMarkOutput "h"] empty_circuit with
  | Ok c => c
  | Err _ => empty_circuit
  end.

Definition C19_rs_imap : dict label := [("x", "x"); ("y", "y")].
Definition C19_rs_omap : dict label := [("h", "h")].

Lemma C19_rs_ok :
  Inv C19_rs_host /\ Inv C19_rs_sub /\ arity_ok C19_rs_host /\
  (exists c', replace_subcircuit C19_rs_host C19_rs_sub C19_rs_imap C19_rs_omap "f" = Ok c' /\ size c' = 4) /\
  forall a b,
    (forall k, In k (dkeys C19_rs_imap) ->
       Eval C19_rs_host a k (aval b (SemReplaceSub.ren_all (C19_rs_imap ++ C19_rs_omap) k))) ->
    forall k v, In k (dkeys C19_rs_omap) -> Eval C19_rs_host a k v ->
      Eval C19_rs_sub b (SemReplaceSub.ren_all (C19_rs_imap ++ C19_rs_omap) k) v.
Proof.
  split; [apply Inv_b; vm_compute; reflexivity|].
  split; [apply Inv_b; vm_compute; reflexivity|].
  split; [apply arity_okb_sound; vm_compute; reflexivity|].
  split; [eexists; split; vm_compute; reflexivity|].
  intros a b Hb k v [<-|[]] HE.
  change (SemReplaceSub.ren_all (C19_rs_imap ++ C19_rs_omap) "h") with "h".
  pose proof (Hb "x" (or_introl eq_refl)) as Hx. pose proof (Hb "y" (or_intror (or_introl eq_refl))) as Hy.
  change (SemReplaceSub.ren_all (C19_rs_imap ++ C19_rs_omap) "x") with "x" in Hx.
  change (SemReplaceSub.ren_all (C19_rs_imap ++ C19_rs_omap) "y") with "y" in Hy.
  assert (Ex : Eval C19_rs_host a "x" (aval a "x")) by (apply (Eval_input_val _ _ "x" (mkGate INPUT [])); reflexivity).
  assert (Ey : Eval C19_rs_host a "y" (aval a "y")) by (apply (Eval_input_val _ _ "y" (mkGate INPUT [])); reflexivity).
  pose proof (SemFacts.Eval_functional _ _ _ _ _ Hx Ex) as Eqx.
  pose proof (SemFacts.Eval_functional _ _ _ _ _ Hy Ey) as Eqy.
  assert (Eg : Eval C19_rs_host a "g" (Operators.opand_ (aval a "x") (aval a "y") [])).
  { eapply (EvalGate _ _ "g" (mkGate AND ["x"; "y"]) [aval a "x"; aval a "y"]); [reflexivity|discriminate| |reflexivity].
    constructor; [exact Ex|constructor; [exact Ey|constructor]]. }
  assert (Eh : Eval C19_rs_host a "h" (Operators.opnot_ (Operators.opand_ (aval a "x") (aval a "y") []))).
  { eapply (EvalGate _ _ "h" (mkGate NOT ["g"]) [_]); [reflexivity|discriminate| |reflexivity].
    constructor; [exact Eg|constructor]. }
  rewrite (SemFacts.Eval_functional _ _ _ _ _ HE Eh).
  eapply (EvalGate _ _ "h" (mkGate NAND ["x"; "y"]) [aval b "x"; aval b "y"]); [reflexivity|discriminate| |].
  - constructor; [apply (Eval_input_val _ _ "x" (mkGate INPUT [])); reflexivity|].
    constructor; [apply (Eval_input_val _ _ "y" (mkGate INPUT [])); reflexivity|constructor].
  - rewrite Eqx, Eqy. reflexivity.
Qed.

(* ---- replace_subcircuit: the statements with the invariant Inv of C02 ---- *)
Lemma replace_subcircuit_inv' c sub imap omap fresh c' :
  Inv c -> Inv sub -> replace_subcircuit c sub imap omap fresh = Ok c' -> Inv c'.
Proof. intros [W N] [Ws Ns] H. exact (WFReplaceSub.replace_subcircuit_inv c sub imap omap fresh c' W N Ws Ns H). Qed.

Lemma replace_subcircuit_rho' c sub imap omap fresh c' :
  Inv c -> replace_subcircuit c sub imap omap fresh = Ok c' ->
  (forall k v, In (k, v) (imap ++ omap) -> ren_all (imap ++ omap) k = v) /\
  (forall l, ~ In l (dkeys imap ++ dkeys omap) -> ren_all (imap ++ omap) l = l).
Proof. intros [W N] H. exact (SemReplaceSub2.replace_subcircuit_rho c sub imap omap fresh c' W H). Qed.

Lemma replace_subcircuit_sem' c sub imap omap fresh c' a a' :
  Inv c -> Inv sub -> arity_ok c -> replace_subcircuit c sub imap omap fresh = Ok c' ->
  (forall l, In l (inputs c) -> aval a' (ren_all (imap ++ omap) l) = aval a l) ->
  (forall b, (forall k, In k (dkeys imap) -> Eval c a k (aval b (ren_all (imap ++ omap) k))) ->
             forall k v, In k (dkeys omap) -> Eval c a k v -> Eval sub b (ren_all (imap ++ omap) k) v) ->
  forall x v, has_gate c x = true -> has_gate c' (ren_all (imap ++ omap) x) = true ->
    has_gate sub (ren_all (imap ++ omap) x) = false \/
    In (ren_all (imap ++ omap) x) (dvals imap ++ dvals omap) ->
    (Eval c' a' (ren_all (imap ++ omap) x) v <-> Eval c a x v).
Proof. intros [W N] [Ws Ns] A H. exact (SemReplaceSub2.replace_subcircuit_sem c sub imap omap fresh c' W N Ws Ns A H a a'). Qed.

Lemma replace_subcircuit_outputs_sem' c sub imap omap fresh c' a a' :
  Inv c -> Inv sub -> arity_ok c -> replace_subcircuit c sub imap omap fresh = Ok c' ->
  (forall l, In l (inputs c) -> aval a' (ren_all (imap ++ omap) l) = aval a l) ->
  (forall b, (forall k, In k (dkeys imap) -> Eval c a k (aval b (ren_all (imap ++ omap) k))) ->
             forall k v, In k (dkeys omap) -> Eval c a k v -> Eval sub b (ren_all (imap ++ omap) k) v) ->
  outputs c' = map (ren_all (imap ++ omap)) (outputs c) /\
  forall vs, Forall2 (Eval c' a') (outputs c') vs <-> Forall2 (Eval c a) (outputs c) vs.
Proof. intros [W N] [Ws Ns] A H. exact (SemReplaceSub2.replace_subcircuit_outputs_sem c sub imap omap fresh c' W N Ws Ns A H a a'). Qed.

Lemma replace_subcircuit_errors' c sub imap omap fresh e :
  Inv c -> Inv sub -> replace_subcircuit c sub imap omap fresh = Err e ->
  In e [ReplaceSubcircuitError; CreateBlockError; DeleteBlockError; CircuitValidationError;
        CircuitGateAlreadyExistsError; CircuitGateIsAbsentError; GateDoesntExistError].
Proof.
  intros [W N] [Ws Ns] H.
  pose proof (SemReplaceSub3.replace_subcircuit_errors c sub imap omap fresh e W N Ws Ns H) as He.
  destruct e; try discriminate He; simpl; tauto.
Qed.
