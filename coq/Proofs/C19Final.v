(* C19: statements of Properties/C19.v for rename_gate / replace_inputs / remove_gate assembled
   from SemRename / SemReplaceInputs / SemRemove, and the non-vacuity examples. *)
Require Import Cirbo.Model.Base Cirbo.Model.Gate Cirbo.Model.Den Cirbo.Model.Circuit Cirbo.Model.Connect
        Cirbo.Model.Eval Cirbo.Model.Sem Cirbo.Model.History Cirbo.Model.WF.
Require Import Cirbo.Proofs.DictFacts Cirbo.Proofs.WFBase Cirbo.Proofs.WFEmplace Cirbo.Proofs.WFRename
        Cirbo.Proofs.WFRename2 Cirbo.Proofs.WFReplaceInputs Cirbo.Proofs.WFStep Cirbo.Proofs.SemExt Cirbo.Proofs.SemRename
        Cirbo.Proofs.SemReplaceInputs Cirbo.Proofs.SemRemove.

Theorem rename_gate_state c old new c' : WF c -> rename_gate c old new = Ok c' ->
  WF c' /\
  (forall x g, dget (gates c) x = Some g ->
     dget (gates c') (ren old new x) = Some (mkGate (gtyp g) (map (ren old new) (gops g)))) /\
  (forall y g', dget (gates c') y = Some g' ->
     exists x g, y = ren old new x /\ dget (gates c) x = Some g) /\
  has_gate c' old = false /\
  dkeys (gates c') = remove1 old (dkeys (gates c)) ++ [new] /\
  inputs c' = map (ren old new) (inputs c) /\
  outputs c' = map (ren old new) (outputs c) /\
  blocks c' = map (fun kb => (fst kb, mkBlock (map (ren old new) (binputs (snd kb)))
                                              (map (ren old new) (bgates (snd kb)))
                                              (map (ren old new) (boutputs (snd kb))))) (blocks c) /\
  (forall x u, has_gate c x = true -> has_gate c u = true ->
     count (ren old new u) (users_of c' (ren old new x)) = count u (users_of c x)).
Proof.
  intros W H. split; [eapply rename_gate_wf; eassumption|].
  split; [apply (rename_gate_get c c' old new W H)|].
  split.
  { intros y g' Hy. destruct (rename_gate_get_inv c c' old new W H y g' Hy) as (_ & g & Hg & Hr & _).
    exists (ren new old y), g. auto. }
  split; [apply (rename_old_gone c c' old new W H)|].
  split; [apply (rename_keys c c' old new W H)|].
  split; [apply (rename_inputs c c' old new W H)|].
  split; [apply (rename_outputs c c' old new H)|].
  split; [apply (rename_blocks c c' old new H)|].
  apply (rename_users c c' old new W H).
Qed.

Theorem rename_gate_sem_concrete c old new c' a : WF c -> rename_gate c old new = Ok c' ->
  dmem a new = false ->
  forall l v, has_gate c l = true ->
    (Eval c' (rename_assignment old new a) (ren old new l) v <-> Eval c a l v).
Proof.
  intros W H Ha. apply (rename_gate_sem c c' old new W H).
  intros l Hl. apply rename_assignment_aval; [exact Ha|].
  apply (gate_not_new c c' old new H). apply (wf_inputs c W) in Hl. destruct Hl as (g & Hg & _).
  eapply get_has_gate; eassumption.
Qed.

(* ---- examples ---- *)
Definition C19_ex : circuit :=
  match foldM step
          [OpAddInputs ["x"; "y"; "z"]; OpEmplace "g1" AND ["x"; "y"]; OpEmplace "g2" OR ["g1"; "g1"; "z"];
           OpEmplace "g3" NOT ["g2"]; OpEmplace "d" XOR ["x"; "z"];
           OpMarkOutput "g3"; OpMarkOutput "g1"; OpMakeBlock "B" ["g1"; "g2"] ["g2"] None]
          empty_circuit with
  | Ok c => c
  | Err _ => empty_circuit
  end.

Lemma C19_ex_ok :
  Inv C19_ex /\
  (exists c', rename_gate C19_ex "g1" "h" = Ok c') /\
  rename_gate C19_ex "q" "h" = Err CircuitGateIsAbsentError /\
  rename_gate C19_ex "g1" "g2" = Err CircuitGateAlreadyExistsError /\
  (exists c', replace_inputs C19_ex ["x"] ["z"] = Ok c' /\ inputs c' = ["y"]) /\
  (exists c', remove_gate C19_ex "d" = Ok c') /\
  remove_gate C19_ex "g1" = Err GateHasUsersError /\
  remove_gate C19_ex "q" = Err CircuitValidationError.
Proof.
  split; [apply Inv_b; vm_compute; reflexivity|].
  repeat split; try (vm_compute; reflexivity); eexists; vm_compute; try split; reflexivity.
Qed.

Lemma replace_inputs_inv' c ts fs c' : Inv c -> replace_inputs c ts fs = Ok c' -> Inv c'.
Proof. intros [W N] H. eapply WFReplaceInputs.replace_inputs_wf; eassumption. Qed.
