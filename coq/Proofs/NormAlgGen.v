(* T16 tie for C17: the regenerated NormalizationInfo (Generated/NormAlgGen.v, from
   cirbo/circuits_db/normalization.py) and _truth_table_to_label (cirbo/circuits_db/db.py) against the hand model
   Model/Db.v.

   The Python object carries Optional lists of Python ints; the hand model's norm_info carries lists of nat:
   `gen_of_norm ni` is the object NormalizationInfo(t) builds when the hand model builds ni.  The two exceptions
   of normalization.py without a constructor in Base.err are represented in the generated code by
   TruthTableBadShapeError (CircuitIsNotCompatibleWithNormalizationParameters: Model/Db.v's
   NotCompatibleWithNormalization) and GateStateError (NormalizationParametersAreNotInitialized: unreachable on an
   object built by the constructor); `to_db` maps a generated result into Model/Db.v's dbres. *)
Require Import Cirbo.Model.Base Cirbo.Model.Gate Cirbo.Model.Circuit Cirbo.Model.BitIO Cirbo.Model.Db.
Require Import Cirbo.Generated.CircuitCore Cirbo.Generated.CodecAlgGen Cirbo.Generated.NormAlgGen.
Require Import Cirbo.Proofs.CircuitCoreGen.

Definition gen_of_norm (ni : norm_info) : gen_NormalizationInfo :=
  mk_gen_NormalizationInfo (Some (negations ni)) (Some (map Z.of_nat (permutation ni)))
                           (Some (map Z.of_nat (mapping ni))) (norm_table ni).

Definition to_db {A} (r : res A) : dbres A :=
  match r with
  | Ok a => DbOk a
  | Err TruthTableBadShapeError => DbErr NotCompatibleWithNormalization
  | Err e => DbErr (BaseErr e)
  end.

(* ---- helpers: Python built-ins ---- *)
Lemma py_index_app {A} (pre : list A) x post :
  py_index (pre ++ x :: post) (Z.of_nat (length pre)) = Ok x.
Proof.
  unfold py_index, py_len. rewrite app_length. simpl length.
  destruct (Z.ltb_spec (Z.of_nat (length pre)) (- Z.of_nat (length pre + S (length post)))); [lia|].
  destruct (Z.leb_spec (Z.of_nat (length pre + S (length post))) (Z.of_nat (length pre))); [lia|].
  simpl orb. destruct (Z.ltb_spec (Z.of_nat (length pre)) 0); [lia|].
  rewrite Nat2Z.id. unfold nth_res. rewrite nth_error_app2 by lia. rewrite Nat.sub_diag. reflexivity.
Qed.

Lemma py_range_nil lo hi : (hi <= lo)%Z -> py_range lo hi = [].
Proof. intros H. unfold py_range. replace (Z.to_nat (hi - lo)) with 0%nat by lia. reflexivity. Qed.

Lemma py_range_cons lo hi : (lo < hi)%Z -> py_range lo hi = lo :: py_range (lo + 1) hi.
Proof.
  intros H. unfold py_range.
  replace (Z.to_nat (hi - lo)) with (S (Z.to_nat (hi - (lo + 1)))) by lia.
  simpl seq. simpl map. f_equal; [lia|].
  rewrite <- seq_shift, map_map. apply map_ext. intros a. lia.
Qed.

(* ---- normalisation of a table ---- *)
Definition no_body : (list (list bool)) * (list bool) -> list bool -> res ((list (list bool)) * (list bool)) :=
  fun '((v_new_truth_table, v_negations) : (list (list bool)) * (list bool)) (v_tt : list bool) =>
    do t1 <- py_index v_tt 0%Z;
    do (v_new_truth_table, v_negations) <-
      (if t1 then
        let v_negations := v_negations ++ [true] in
        let v_new_truth_table := v_new_truth_table ++ [map (fun (v_value : bool) => negb v_value) v_tt] in
        Ok (v_new_truth_table, v_negations)
       else
        let v_negations := v_negations ++ [false] in
        let v_new_truth_table := v_new_truth_table ++ [v_tt] in
        Ok (v_new_truth_table, v_negations));
    Ok (v_new_truth_table, v_negations).

Lemma no_fold t : forall nt neg,
  foldM no_body t (nt, neg) = do r <- normalize_outputs t; Ok (nt ++ snd r, neg ++ fst r).
Proof.
  induction t as [|row rest IH]; intros nt neg.
  - simpl. rewrite !app_nil_r. reflexivity.
  - destruct row as [|b row']; [reflexivity|].
    cbn [foldM normalize_outputs].
    assert (Hb : no_body (nt, neg) (b :: row')
                 = Ok (nt ++ [if b then map negb (b :: row') else b :: row'], neg ++ [b])).
    { unfold no_body, py_index, py_len. destruct b; reflexivity. }
    rewrite Hb. cbn [bind]. rewrite IH.
    destruct (normalize_outputs rest) as [[ns ts]|e]; [|reflexivity].
    cbn [bind fst snd]. rewrite <- !app_assoc. reflexivity.
Qed.

Lemma gen_normalize_outputs_eq o t :
  gen_NormalizationInfo__normalize_outputs o t
  = do r <- normalize_outputs t; Ok (snd r, set_NormalizationInfo_negations o (Some (fst r))).
Proof.
  unfold gen_NormalizationInfo__normalize_outputs.
  change (bind (foldM no_body t ([], []))
            (fun '(nt, neg) => Ok (nt, set_NormalizationInfo_negations o (Some neg)))
          = do r <- normalize_outputs t; Ok (snd r, set_NormalizationInfo_negations o (Some (fst r)))).
  rewrite no_fold. destruct (normalize_outputs t) as [[ns ts]|e]; reflexivity.
Qed.

(* ---- sorting ---- *)
Definition zpair (p : nat * list bool) : Z * list bool := (Z.of_nat (fst p), snd p).

Lemma combine_seq_enumerate (t : list (list bool)) : forall k,
  combine (map (fun i => (0 + Z.of_nat i)%Z) (seq k (length t))) t = map zpair (enumerate_from k t).
Proof.
  induction t as [|x r IH]; intros k; [reflexivity|].
  simpl. f_equal. apply IH.
Qed.

Lemma py_enumerate_eq (t : list (list bool)) : py_enumerate t = map zpair (enumerate_from 0 t).
Proof.
  unfold py_enumerate, py_range, py_len. rewrite Z.sub_0_r, Nat2Z.id. apply combine_seq_enumerate.
Qed.

Lemma py_list_leb_row a : forall b,
  py_list_leb Bool.eqb (fun a b : bool => negb a && b) a b = row_leb a b.
Proof.
  induction a as [|x a IH]; intros [|y b]; simpl; try reflexivity.
  rewrite IH. destruct x, y; reflexivity.
Qed.

Definition key_le (a b : Z * list bool) : bool :=
  py_list_leb Bool.eqb (fun a b : bool => negb a && b) (snd a) (snd b).

Lemma insert_map x l : py_insert_by key_le (zpair x) (map zpair l) = map zpair (insert_sorted x l).
Proof.
  induction l as [|y l IH]; [reflexivity|].
  simpl. unfold key_le at 1. simpl snd. rewrite py_list_leb_row.
  destruct (row_leb (snd y) (snd x)); simpl; [rewrite IH|]; reflexivity.
Qed.

Lemma sort_fold_map l : forall acc,
  fold_left (fun acc x => py_insert_by key_le x acc) (map zpair l) (map zpair acc)
  = map zpair (fold_left (fun acc x => insert_sorted x acc) l acc).
Proof.
  induction l as [|x l IH]; intros acc; [reflexivity|].
  simpl. rewrite insert_map. apply IH.
Qed.

Lemma gen_sort_outputs_eq o t :
  gen_NormalizationInfo__sort_outputs o t
  = Ok (snd (sort_outputs t), set_NormalizationInfo_permutation o (Some (map Z.of_nat (fst (sort_outputs t))))).
Proof.
  unfold gen_NormalizationInfo__sort_outputs, py_sort_by.
  change (fun acc x => py_insert_by _ x acc) with (fun acc x => py_insert_by key_le x acc).
  rewrite py_enumerate_eq.
  change (@nil (Z * list bool)) with (map zpair []).
  rewrite sort_fold_map. fold (stable_sort (enumerate_from 0 t)).
  unfold sort_outputs. cbv zeta. cbn [fst snd].
  rewrite !map_map. reflexivity.
Qed.

(* ---- duplicates ---- *)
Definition dd_body (v_truth_table : list (list bool))
  : (list (list bool)) * (list Z) -> Z -> res ((list (list bool)) * (list Z)) :=
  fun '((v_new_truth_table, v_mapping) : (list (list bool)) * (list Z)) (v_i : Z) =>
    do t2 <- py_index v_truth_table v_i;
    do t3 <- py_index v_truth_table (Z.sub v_i 1);
    do v_new_truth_table <-
      (if negb ((all_eqb Bool.eqb) t2 t3) then
        do t4 <- py_index v_truth_table v_i;
        let v_new_truth_table := v_new_truth_table ++ [t4] in
        Ok v_new_truth_table
       else
        Ok v_new_truth_table);
    let v_mapping := v_mapping ++ [Z.sub (py_len v_new_truth_table) 1] in
    Ok (v_new_truth_table, v_mapping).

Lemma dd_fold rest : forall pre prev nt mp,
  nt <> [] ->
  foldM (dd_body (pre ++ prev :: rest))
        (py_range (Z.of_nat (S (length pre))) (Z.of_nat (length (pre ++ prev :: rest))))
        (nt, map Z.of_nat mp)
  = Ok (fst (dedup_loop prev rest (rev nt) (rev mp)),
        map Z.of_nat (snd (dedup_loop prev rest (rev nt) (rev mp)))).
Proof.
  induction rest as [|row rest IH]; intros pre prev nt mp Hnt.
  - rewrite py_range_nil by (rewrite app_length; simpl; lia).
    simpl. rewrite !rev_involutive. reflexivity.
  - rewrite py_range_cons by (rewrite app_length; simpl; lia).
    cbn [foldM].
    assert (Ht : pre ++ prev :: row :: rest = (pre ++ [prev]) ++ row :: rest)
      by (rewrite <- app_assoc; reflexivity).
    assert (Hl : length (pre ++ [prev]) = S (length pre))
      by (rewrite app_length; simpl; lia).
    set (nt' := if row_eqb row prev then nt else nt ++ [row]).
    assert (Hb : dd_body (pre ++ prev :: row :: rest) (nt, map Z.of_nat mp) (Z.of_nat (S (length pre)))
                 = Ok (nt', map Z.of_nat (mp ++ [(length nt' - 1)%nat]))).
    { unfold dd_body.
      assert (H1 : py_index (pre ++ prev :: row :: rest) (Z.of_nat (S (length pre))) = Ok row)
        by (rewrite Ht, <- Hl; apply py_index_app).
      assert (H2 : py_index (pre ++ prev :: row :: rest) (Z.of_nat (S (length pre)) - 1) = Ok prev).
      { replace (Z.of_nat (S (length pre)) - 1)%Z with (Z.of_nat (length pre)) by lia.
        apply py_index_app. }
      rewrite H1, H2. cbn [bind].
      fold (row_eqb row prev). unfold nt'.
      assert (Hlen : forall l : list (list bool), l <> [] ->
                (py_len l - 1)%Z = Z.of_nat (length l - 1)).
      { intros l Hl0. unfold py_len. destruct l; [congruence|]. simpl length. lia. }
      destruct (row_eqb row prev); cbn [negb bind]; rewrite map_app; simpl map.
      - rewrite Hlen by assumption. reflexivity.
      - rewrite Hlen by (destruct nt; discriminate). reflexivity. }
    rewrite Hb. cbn [bind].
    replace (Z.of_nat (S (length pre)) + 1)%Z with (Z.of_nat (S (length (pre ++ [prev])))) by lia.
    rewrite Ht. rewrite IH.
    + cbn [dedup_loop]. rewrite rev_app_distr. simpl rev at 1. cbn [app].
      assert (Hr : rev nt' = if row_eqb row prev then rev nt else row :: rev nt).
      { unfold nt'. destruct (row_eqb row prev); [reflexivity|]. rewrite rev_app_distr. reflexivity. }
      rewrite Hr.
      assert (Hn : length nt' = length (if row_eqb row prev then rev nt else row :: rev nt))
        by (rewrite <- Hr; symmetry; apply rev_length).
      rewrite Hn. reflexivity.
    + unfold nt'. destruct (row_eqb row prev); [assumption|]. destruct nt; discriminate.
Qed.

Lemma gen_delete_duplicate_outputs_eq o t :
  gen_NormalizationInfo__delete_duplicate_outputs o t
  = do r <- delete_duplicate_outputs t; Ok (fst r, set_NormalizationInfo_mapping o (Some (map Z.of_nat (snd r)))).
Proof.
  unfold gen_NormalizationInfo__delete_duplicate_outputs.
  destruct t as [|row0 rest]; [reflexivity|].
  change (py_index (row0 :: rest) 0%Z) with (py_index ([] ++ row0 :: rest) (Z.of_nat (@length (list bool) []))).
  rewrite py_index_app. cbn [bind].
  change (bind (foldM (dd_body ([] ++ row0 :: rest))
                  (py_range (Z.of_nat (S (@length (list bool) []))) (Z.of_nat (length ([] ++ row0 :: rest))))
                  ([row0], map Z.of_nat [0%nat]))
            (fun '(nt, mp) => Ok (nt, set_NormalizationInfo_mapping o (Some mp)))
          = do r <- delete_duplicate_outputs (row0 :: rest);
            Ok (fst r, set_NormalizationInfo_mapping o (Some (map Z.of_nat (snd r))))).
  rewrite dd_fold by discriminate. reflexivity.
Qed.

(* NormalizationInfo(t): for every table, the same object or the same error *)
Theorem gen_NormalizationInfo_init_eq t :
  gen_NormalizationInfo___init__ t = do ni <- normalize t; Ok (gen_of_norm ni).
Proof.
  unfold gen_NormalizationInfo___init__, gen_NormalizationInfo__normalize, normalize.
  cbv zeta. rewrite gen_normalize_outputs_eq.
  destruct (normalize_outputs t) as [[neg t1]|e]; [|reflexivity].
  cbn [bind fst snd]. rewrite gen_sort_outputs_eq.
  destruct (sort_outputs t1) as [perm t2].
  cbn [bind fst snd]. rewrite gen_delete_duplicate_outputs_eq.
  destruct (delete_duplicate_outputs t2) as [[t3 mp]|e]; reflexivity.
Qed.

(* _truth_table_to_label *)
Lemma py_join_cons2 sep x y l : py_join sep (x :: y :: l) = (x ++ sep ++ py_join sep (y :: l))%string.
Proof. reflexivity. Qed.

Lemma join_labels_cons2 x y l : join_labels (x :: y :: l) = (x ++ "_" ++ join_labels (y :: l))%string.
Proof. reflexivity. Qed.

Lemma py_join_row_label row :
  py_join "" (map (fun v_i : bool => py_str_of_int (Z.b2z v_i)) row) = row_label row.
Proof.
  set (f := fun v_i : bool => py_str_of_int (Z.b2z v_i)).
  induction row as [|b r IH]; [reflexivity|].
  destruct r as [|c r'].
  - unfold f. destruct b; reflexivity.
  - simpl map in *. rewrite py_join_cons2, IH.
    unfold f. destruct b; reflexivity.
Qed.

Lemma py_join_join_labels l : py_join "_" l = join_labels l.
Proof.
  induction l as [|x r IH]; [reflexivity|].
  destruct r as [|y r']; [reflexivity|].
  rewrite py_join_cons2, join_labels_cons2, IH. reflexivity.
Qed.

Theorem gen__truth_table_to_label_eq t : gen__truth_table_to_label t = Ok (truth_table_to_label t).
Proof.
  unfold gen__truth_table_to_label, truth_table_to_label. cbv zeta.
  rewrite py_join_join_labels. do 2 f_equal.
  apply map_ext. intros row. apply py_join_row_label.
Qed.
