(* T16 tie for C17: the regenerated NormalizationInfo (Generated/NormAlgGen.v, from
   cirbo/circuits_db/normalization.py) and _truth_table_to_label (cirbo/circuits_db/db.py) against the hand model
   Model/Db.v.

   The Python object carries Optional lists of Python ints; the hand model's norm_info carries lists of nat:
   `gen_of_norm ni` is the object NormalizationInfo(t) builds when the hand model builds ni.  The two exceptions
   of normalization.py without a constructor in Base.err are represented in the generated code by
   TruthTableBadShapeError (CircuitIsNotCompatibleWithNormalizationParameters: Model/Db.v's
   NotCompatibleWithNormalization) and GateStateError (NormalizationParametersAreNotInitialized: unreachable on an
   object built by the constructor); `to_db` maps a generated result into Model/Db.v's dbres. *)
Require Import Cirbo.Model.Base Cirbo.Model.Gate Cirbo.Model.Circuit Cirbo.Model.BitIO Cirbo.Model.Db.
Require Import Cirbo.Generated.CircuitCore Cirbo.Generated.CodecAlgGen Cirbo.Generated.NormAlgGen.
Require Import Cirbo.Proofs.CircuitCoreGen.

Definition gen_of_norm (ni : norm_info) : gen_NormalizationInfo :=
  mk_gen_NormalizationInfo (Some (negations ni)) (Some (map Z.of_nat (permutation ni)))
                           (Some (map Z.of_nat (mapping ni))) (norm_table ni).

Definition to_db {A} (r : res A) : dbres A :=
  match r with
  | Ok a => DbOk a
  | Err TruthTableBadShapeError => DbErr NotCompatibleWithNormalization
  | Err e => DbErr (BaseErr e)
  end.

(* ---- normalisation of a table ---- *)
Lemma gen_normalize_outputs_eq o t :
  gen_NormalizationInfo__normalize_outputs o t
  = do r <- normalize_outputs t; Ok (snd r, set_NormalizationInfo_negations o (Some (fst r))).
Admitted.

Lemma gen_sort_outputs_eq o t :
  gen_NormalizationInfo__sort_outputs o t
  = Ok (snd (sort_outputs t), set_NormalizationInfo_permutation o (Some (map Z.of_nat (fst (sort_outputs t))))).
Admitted.

Lemma gen_delete_duplicate_outputs_eq o t :
  gen_NormalizationInfo__delete_duplicate_outputs o t
  = do r <- delete_duplicate_outputs t; Ok (fst r, set_NormalizationInfo_mapping o (Some (map Z.of_nat (snd r)))).
Admitted.

(* NormalizationInfo(t): for every table, the same object or the same error *)
Theorem gen_NormalizationInfo_init_eq t :
  gen_NormalizationInfo___init__ t = do ni <- normalize t; Ok (gen_of_norm ni).
Admitted.

(* _truth_table_to_label *)
Theorem gen__truth_table_to_label_eq t : gen__truth_table_to_label t = Ok (truth_table_to_label t).
Admitted.
