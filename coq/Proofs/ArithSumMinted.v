(* C07: where the labels of new gates come from.

   A program is [gen_only] when it creates gates only through [gate_new], i.e. under a label the
   uuid counter has just produced (every summation generator is: they call add_gate_from_tt only).
   For such a program every gate of the final circuit is a gate of the host or carries a label
   fresh k.  Consequence used for add_sum_pow2_m1, whose `filter(None, .)` drops the label "":
   when "" is not a gate of the host and the naming function never yields "", then "" is not a
   gate of the final circuit either. *)
Require Import Cirbo.Model.Base Cirbo.Model.Gate Cirbo.Model.Circuit Cirbo.Model.Builder.
Require Import Cirbo.Generated.ArithTables Cirbo.Generated.ArithCells.
Require Import Cirbo.Model.ArithSub Cirbo.Model.ArithSum2 Cirbo.Model.ArithSumN.
Require Import Cirbo.Proofs.DictFacts Cirbo.Proofs.BuilderFacts Cirbo.Proofs.ArithFacts.

Inductive gen_only : forall {A : Type}, prog A -> Prop :=
| go_new t ops : gen_only (gate_new t ops)
| go_ret A (a : A) : gen_only (Ret a)
| go_fail A e : gen_only (@Fail A e)
| go_bind A B (p : prog A) (k : A -> prog B) :
    gen_only p -> (forall a, gen_only (k a)) -> gen_only (Bind p k).

Definition grown (fresh : N -> label) (c c' : circuit) : Prop :=
  forall l, has_gate c' l = true -> has_gate c l = true \/ exists k, l = fresh k.

Lemma grown_refl fresh c : grown fresh c c.
Proof. intros l H. left. exact H. Qed.

Lemma grown_trans fresh c1 c2 c3 : grown fresh c1 c2 -> grown fresh c2 c3 -> grown fresh c1 c3.
Proof. intros H1 H2 l H. destruct (H2 l H) as [H'|H']; [apply H1, H'|right; exact H']. Qed.

Lemma fresh_loop_range fresh c restr : forall fuel k l k',
  fresh_loop fresh c restr fuel k = Ok (l, k') -> exists j, l = fresh j.
Proof.
  induction fuel as [|f IH]; intros k l k' H; [discriminate|]. cbn [fresh_loop] in H.
  destruct (has_gate c (fresh k) || memb (fresh k) restr); [eapply IH; exact H|].
  injection H as <- _. exists k. reflexivity.
Qed.

Lemma gate_new_grown fresh t ops s l s' :
  run fresh (gate_new t ops) s = Ok (l, s') -> grown fresh (bc s) (bc s').
Proof.
  intros H. pose proof (gate_new_spec _ _ _ _ _ _ H) as (_ & _ & _ & _ & G & _).
  unfold gate_new in H. apply run_bind_inv in H as (l0 & s1 & H1 & H).
  apply run_bind_inv in H as (u & s2 & _ & H). apply run_ret_inv in H as (<- & _).
  assert (exists j, l = fresh j) as Hj.
  { cbn [run] in H1.
    destruct (fresh_loop fresh (bc s) [] (fresh_fuel (bc s) []) (bk s)) as [[l1 k1]|] eqn:E; [|discriminate].
    cbn [bind fst snd] in H1. injection H1 as <- _. eapply fresh_loop_range; exact E. }
  intros x Hx. unfold has_gate, dmem in *. rewrite G, dget_app in Hx.
  destruct (dget (gates (bc s)) x); [left; reflexivity|]. right. simpl in Hx.
  destruct (leqb x l) eqn:Exl; [|discriminate]. apply leqb_eq in Exl. rewrite Exl. exact Hj.
Qed.

Theorem gen_only_grown fresh {A} (p : prog A) :
  gen_only p -> forall s r s', run fresh p s = Ok (r, s') -> grown fresh (bc s) (bc s').
Proof.
  induction 1 as [t ops|A a|A e|A B p k Hp IHp Hk IHk]; intros s r s' H.
  - eapply gate_new_grown; exact H.
  - apply run_ret_inv in H as (_ & ->). apply grown_refl.
  - discriminate.
  - apply run_bind_inv in H as (a & s1 & H1 & H2).
    eapply grown_trans; [eapply IHp; exact H1|eapply IHk; exact H2].
Qed.

Corollary gen_only_no_empty fresh {A} (p : prog A) s r s' :
  gen_only p -> run fresh p s = Ok (r, s') ->
  has_gate (bc s) "" = false -> (forall k, fresh k <> "") -> has_gate (bc s') "" = false.
Proof.
  intros Hp H H0 Hfr. destruct (has_gate (bc s') "") eqn:E; [|reflexivity].
  destruct (gen_only_grown fresh p Hp _ _ _ H "" E) as [H1|(k & Hk)]; [congruence|].
  exfalso. apply (Hfr k). symmetry. exact Hk.
Qed.

(* ---- every summation generator is gen_only --------------------------------------------------- *)
Ltac go := repeat first [apply go_new | apply go_ret | apply go_fail | apply go_bind; [|intros]].

Lemma go_ret_res {A} (r : res A) : gen_only (ret_res r).
Proof. destruct r; go. Qed.
Lemma go_nthP {A} (l : list A) i : gen_only (nthP l i).
Proof. apply go_ret_res. Qed.
Lemma go_lastP {A} (l : list A) : gen_only (lastP l).
Proof. unfold lastP. destruct (rev l); go. Qed.
Lemma go_unpack2 {A} (l : list A) : gen_only (unpack2 l).
Proof. destruct l as [|? [|? [|? ?]]]; go. Qed.
Lemma go_unpack3 {A} (l : list A) : gen_only (unpack3 l).
Proof. destruct l as [|? [|? [|? [|? ?]]]]; go. Qed.
Lemma go_gate_tt t x y : gen_only (gate_tt t x y).
Proof. go. Qed.

Lemma go_add_sum2 l : gen_only (add_sum2 l).
Proof. unfold add_sum2. destruct l as [|? [|? [|? ?]]]; go. Qed.
Lemma go_add_sum3 l : gen_only (add_sum3 l).
Proof. unfold add_sum3. destruct l as [|? [|? [|? [|? ?]]]]; go. Qed.
Lemma go_add_sum2_aig l : gen_only (add_sum2_aig l).
Proof. unfold add_sum2_aig. destruct l as [|? [|? [|? ?]]]; go. Qed.
Lemma go_add_sum3_aig l : gen_only (add_sum3_aig l).
Proof. unfold add_sum3_aig. destruct l as [|? [|? [|? [|? ?]]]]; go. Qed.
Lemma go_add_stockmeyer_block l : gen_only (add_stockmeyer_block l).
Proof. unfold add_stockmeyer_block. destruct l as [|? [|? [|? [|? ?]]]]; go. Qed.
Lemma go_add_mdfa l : gen_only (add_mdfa l).
Proof. unfold add_mdfa. destruct l as [|? [|? [|? [|? [|? [|? ?]]]]]]; go. Qed.
Lemma go_add_simplified_mdfa l : gen_only (add_simplified_mdfa l).
Proof. unfold add_simplified_mdfa. destruct l as [|? [|? [|? [|? [|? ?]]]]]; go. Qed.

Lemma list_ind2 {A} (P : list A -> Prop) :
  P [] -> (forall x, P [x]) -> (forall x y l, P l -> P (x :: y :: l)) -> forall l, P l.
Proof.
  intros H0 H1 H2. assert (forall l, P l /\ forall x, P (x :: l)) as H.
  { induction l as [|y l (IH1 & IH2)]; [split; [exact H0|exact H1]|]. split; [apply IH2|]. intros x. apply H2, IH1. }
  intros l. apply H.
Qed.

Ltac go2 :=
  repeat first [apply go_new | apply go_ret | apply go_fail | apply go_unpack2 | apply go_unpack3
               | apply go_nthP | apply go_lastP | apply go_ret_res
               | match goal with a : (_ * _)%type |- _ => destruct a end
               | apply go_bind; [|intros]].

Lemma go_pair_up solo : forall xxy, gen_only (pair_up solo xxy).
Proof.
  induction solo as [|x|a b rest IH] using list_ind2; intros xxy; cbn [pair_up]; go2. apply IH.
Qed.

Lemma go_solo_loop cell3 cell2 : (forall l, gen_only (cell3 l)) -> (forall l, gen_only (cell2 l)) ->
  forall rest top next, gen_only (solo_loop cell3 cell2 top rest next).
Proof.
  intros C3 C2. induction rest as [|x|b c rest IH] using list_ind2; intros top next; cbn [solo_loop]; go2;
    first [apply C2|apply C3|apply IH].
Qed.

Lemma go_level_loop cell3 cell2 : (forall l, gen_only (cell3 l)) -> (forall l, gen_only (cell2 l)) ->
  forall fuel now, gen_only (level_loop fuel cell3 cell2 now).
Proof.
  intros C3 C2. induction fuel as [|f IH]; intros [|top rest]; cbn [level_loop]; go2;
    first [apply go_solo_loop; assumption|apply IH].
Qed.

Lemma go_mdfa_loop xxy : forall solo nx, gen_only (mdfa_loop xxy solo nx).
Proof.
  induction xxy as [|[x xy]|[x1 xy1] [x2 xy2] rest IH] using list_ind2; intros solo nx; cbn [mdfa_loop]; go2.
  destruct solo as [|z solo']; go2; apply IH.
Qed.

Lemma go_last_pair xxy solo : gen_only (last_pair xxy solo).
Proof.
  unfold last_pair. destruct xxy as [|[x xy] [|? ?]]; go2. destruct solo as [|z solo']; go2.
Qed.

Lemma go_xaig_level solo xxy : gen_only (xaig_level solo xxy).
Proof.
  unfold xaig_level. apply go_bind; [apply go_mdfa_loop|]. intros [[xxy1 solo1] nx].
  apply go_bind; [apply go_last_pair|]. intros [solo2 ns].
  destruct solo2 as [|top rest]; go2. apply go_solo_loop; [apply go_add_sum3|apply go_add_sum2].
Qed.

Lemma go_xaig_loop : forall fuel solo xxy, gen_only (xaig_loop fuel solo xxy).
Proof.
  induction fuel as [|f IH]; intros [|z solo] [|p xxy]; cbn [xaig_loop]; try apply go_ret; try apply go_fail;
    (apply go_bind; [apply go_xaig_level|]; intros [[r ns] nx]; apply go_bind; [apply IH|intros; apply go_ret]).
Qed.

Lemma go_add_sum_n_bits basis be xs : gen_only (add_sum_n_bits basis be xs).
Proof.
  unfold add_sum_n_bits. apply go_bind; [apply go_ret_res|]. intros b. apply go_bind; [|intros; go2].
  destruct b; cbn [add_sum_n_bits_resolved].
  - unfold add_sum_n_bits_xaig. apply go_bind; [apply go_pair_up|intros; apply go_xaig_loop].
  - apply go_level_loop; [apply go_add_sum3_aig|apply go_add_sum2_aig].
Qed.

Lemma go_block_loop basis i : forall fuel labels out, gen_only (block_loop fuel basis i labels out).
Proof.
  induction fuel as [|f IH]; intros labels out; cbn [block_loop]; destruct (length labels <? i)%nat;
    try apply go_ret; try apply go_fail.
  apply go_bind; [apply go_add_sum_n_bits|]. intros blk. apply go_bind; [apply go_nthP|]. intros b0. apply IH.
Qed.

Lemma go_foldP {A S} (f : S -> A -> prog S) : (forall st x, gen_only (f st x)) ->
  forall l st, gen_only (foldP f l st).
Proof. intros Hfx. induction l as [|x l IH]; intros st; cbn [foldP]; [apply go_ret|]. apply go_bind; [apply Hfx|intros; apply IH]. Qed.

Lemma go_blocks_outer basis : forall fuel labels out, gen_only (blocks_outer fuel basis labels out).
Proof.
  induction fuel as [|f IH]; intros labels out; cbn [blocks_outer]; destruct (length labels <=? 2)%nat;
    try apply go_ret; try apply go_fail.
  apply go_bind; [|intros; apply IH]. apply go_foldP. intros st i. apply go_block_loop.
Qed.

Lemma go_add_sum_pow2_m1 basis be xs : gen_only (add_sum_pow2_m1 basis be xs).
Proof.
  unfold add_sum_pow2_m1. destruct xs as [|x [|y rest]]; try apply go_fail; try apply go_ret.
  apply go_bind; [apply go_ret_res|]. intros b.
  apply go_bind; [apply go_blocks_outer|]. intros [labels out].
  apply go_bind.
  - destruct labels as [|x' [|y' [|? ?]]]; try apply go_ret.
    apply go_bind; [destruct b; [apply go_add_sum2|apply go_add_sum2_aig]|]. intros blk.
    apply go_bind; [apply go_nthP|intros; apply go_ret].
  - intros out'. destruct (columns out'); [apply go_fail|].
    apply go_bind; [apply go_lastP|intros; apply go_ret].
Qed.
