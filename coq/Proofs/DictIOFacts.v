(* write_binary_dict / read_binary_dict are mutual inverses within the size limits, and the
   reader rejects every strict prefix and every extension of a valid image (C16). *)
Require Import Cirbo.Model.Base Cirbo.Model.BitIO Cirbo.Model.DictIO.
Require Import Cirbo.Generated.CodecTables Cirbo.Proofs.DictFacts.

(* ---- big-endian numbers ---- *)
Lemma be_number_app l b : be_number (l ++ [b]) = (be_number l * 256 + N_of_ascii b)%N.
Proof. unfold be_number; rewrite fold_left_app; reflexivity. Qed.

Lemma length_le_bytes len : forall x, length (le_bytes x len) = len.
Proof. induction len; intros; simpl; [reflexivity|rewrite IHlen; reflexivity]. Qed.

Lemma le_bytes_be len : forall x, (x < 256 ^ N.of_nat len)%N -> be_number (rev (le_bytes x len)) = x.
Proof.
  induction len as [|len IH]; intros x H.
  - simpl in *. unfold be_number; simpl. lia.
  - rewrite Nat2N.inj_succ, N.pow_succ_r' in H.
    simpl le_bytes. simpl rev. rewrite be_number_app.
    rewrite IH by (apply N.div_lt_upper_bound; lia).
    rewrite N_ascii_embedding by (apply N.mod_lt; discriminate).
    rewrite (N.div_mod' x 256) at 3. lia.
Qed.

Lemma to_bytes_inv x len bs :
  to_bytes x len = Ok bs -> length bs = len /\ be_number bs = x /\ (x < 256 ^ N.of_nat len)%N.
Proof.
  unfold to_bytes. destruct (x <? 256 ^ N.of_nat len)%N eqn:E; [|discriminate]. intros [= <-].
  apply N.ltb_lt in E. rewrite rev_length, length_le_bytes, le_bytes_be by exact E. auto.
Qed.

Lemma to_bytes_ok x len : (x < 256 ^ N.of_nat len)%N -> exists bs, to_bytes x len = Ok bs.
Proof. intros H; unfold to_bytes. apply N.ltb_lt in H; rewrite H. eauto. Qed.

Lemma to_bytes_err x len e : to_bytes x len = Err e -> e = PyValueError.
Proof. unfold to_bytes. destruct (_ <? _)%N; [discriminate|intros [= <-]; reflexivity]. Qed.

(* ---- stream.read(n) ---- *)
Lemma take_bytes_app (a rest : bytes) : take_bytes (length a) (a ++ rest) = Some (a, rest).
Proof. induction a as [|x a IH]; simpl; [reflexivity|rewrite IH; reflexivity]. Qed.

Lemma take_bytes_short n : forall s : bytes, (length s < n)%nat -> take_bytes n s = None.
Proof.
  induction n as [|n IH]; intros s H; [lia|]. destruct s as [|x s]; simpl; [reflexivity|].
  rewrite IH; [reflexivity|simpl in H; lia].
Qed.

Lemma take_bytes_spec n : forall (s a b : bytes), take_bytes n s = Some (a, b) -> s = a ++ b /\ length a = n.
Proof.
  induction n as [|n IH]; intros s a b; simpl.
  - intros [= <- <-]. auto.
  - destruct s as [|x s]; [discriminate|]. destruct (take_bytes n s) as [[a' b']|] eqn:E; [|discriminate].
    intros [= <- <-]. destruct (IH _ _ _ E) as (-> & <-). auto.
Qed.

Lemma read_exact_app (a rest : bytes) : read_exact (length a) (a ++ rest) = Ok (a, rest).
Proof. unfold read_exact. rewrite take_bytes_app; reflexivity. Qed.

Lemma read_exact_short n (s : bytes) : (length s < n)%nat -> read_exact n s = Err BinaryDictIOError.
Proof. intros H; unfold read_exact. rewrite take_bytes_short by exact H; reflexivity. Qed.

(* the model agrees with the obvious specification *)
Lemma read_exact_spec n (s : bytes) :
  read_exact n s = if (length s <? n)%nat then Err BinaryDictIOError else Ok (firstn n s, skipn n s).
Proof.
  destruct (Nat.ltb_spec (length s) n) as [H|H]; [apply read_exact_short; exact H|].
  rewrite <- (firstn_skipn n s) at 1. replace n with (length (firstn n s)) at 1 by (apply firstn_length_le; exact H).
  apply read_exact_app.
Qed.

Lemma read_unsigned_app x n bs rest :
  to_bytes x n = Ok bs -> read_unsigned n (bs ++ rest) = Ok (x, rest).
Proof.
  intros H; apply to_bytes_inv in H as (Hl & Hv & _). unfold read_unsigned.
  rewrite <- Hl, read_exact_app. simpl. rewrite Hv; reflexivity.
Qed.

(* ---- one record ---- *)
Definition entry_ok (kv : label * bytes) : Prop :=
  utf8_valid (list_ascii_of_string (fst kv)) = true.

Definition set_entry (a : dict bytes) (kv : label * bytes) : dict bytes := dset a (fst kv) (snd kv).

Lemma write_entry_inv kv img :
  write_entry kv = Ok img ->
  exists kl vl, to_bytes (N.of_nat (length (list_ascii_of_string (fst kv)))) DICT_KEY_BYTE_SIZE = Ok kl
    /\ to_bytes (N.of_nat (length (snd kv))) DICT_VALUE_BYTE_SIZE = Ok vl
    /\ img = kl ++ list_ascii_of_string (fst kv) ++ vl ++ snd kv.
Proof.
  unfold write_entry. destruct (to_bytes _ DICT_KEY_BYTE_SIZE) as [kl|]; simpl; [|discriminate].
  destruct (to_bytes _ DICT_VALUE_BYTE_SIZE) as [vl|]; simpl; [|discriminate].
  intros [= <-]. eauto.
Qed.

Lemma utf8_decode_ok kv : entry_ok kv -> utf8_decode (list_ascii_of_string (fst kv)) = Ok (fst kv).
Proof. intros H; unfold utf8_decode. rewrite H, string_of_list_ascii_of_string; reflexivity. Qed.

Lemma read_entry_app kv img rest acc n :
  write_entry kv = Ok img -> entry_ok kv ->
  read_entries (S n) (img ++ rest) acc = read_entries n rest (set_entry acc kv).
Proof.
  intros Hw Hok. apply write_entry_inv in Hw as (kl & vl & Hkl & Hvl & ->).
  repeat rewrite <- app_assoc. simpl read_entries.
  rewrite (read_unsigned_app _ _ _ _ Hkl). simpl. rewrite Nat2N.id, read_exact_app. simpl.
  rewrite utf8_decode_ok by exact Hok. simpl.
  rewrite (read_unsigned_app _ _ _ _ Hvl). simpl. rewrite Nat2N.id, read_exact_app. simpl.
  reflexivity.
Qed.

Lemma mapM_cons_inv {A B} (f : A -> res B) x xs r :
  mapM f (x :: xs) = Ok r -> exists y ys, f x = Ok y /\ mapM f xs = Ok ys /\ r = y :: ys.
Proof.
  simpl. destruct (f x) as [y|]; simpl; [|discriminate].
  destruct (mapM f xs) as [ys|]; simpl; [|discriminate]. intros [= <-]. eauto.
Qed.

Lemma read_entries_app d : forall imgs rest acc,
  mapM write_entry d = Ok imgs -> Forall entry_ok d ->
  read_entries (length d) (concat imgs ++ rest) acc = Ok (fold_left set_entry d acc, rest).
Proof.
  induction d as [|kv d IH]; intros imgs rest acc Hw Hok.
  - simpl in Hw; injection Hw as <-. reflexivity.
  - apply mapM_cons_inv in Hw as (img & imgs' & H1 & H2 & ->). inversion Hok; subst.
    simpl concat. rewrite <- app_assoc. simpl length.
    rewrite (read_entry_app _ _ _ _ _ H1) by assumption. simpl. apply IH; assumption.
Qed.

(* data[key] = val on a new key appends *)
Lemma dset_new {V} (d : dict V) k v : dmem d k = false -> dset d k v = d ++ [(k, v)].
Proof.
  unfold dmem. induction d as [|[k' v'] d IH]; simpl; [reflexivity|].
  destruct (leqb k k'); [discriminate|]. intros H; rewrite IH by exact H; reflexivity.
Qed.

Lemma fold_set_entry_nodup (d : dict bytes) : forall acc,
  NoDup (dkeys (acc ++ d)) -> fold_left set_entry d acc = acc ++ d.
Proof.
  induction d as [|[k v] d IH]; intros acc H; simpl; [rewrite app_nil_r; reflexivity|].
  unfold set_entry at 2; simpl. rewrite dset_new.
  - rewrite IH; rewrite <- app_assoc; [reflexivity|exact H].
  - destruct (dmem acc k) eqn:E; [|reflexivity]. apply dmem_keys in E.
    unfold dkeys in H. rewrite map_app in H. simpl in H. apply NoDup_remove_2 in H.
    exfalso; apply H. apply in_or_app; left; exact E.
Qed.

(* ---- the whole dictionary ---- *)
Definition dict_ok (d : dict bytes) : Prop := NoDup (dkeys d) /\ Forall entry_ok d.

Lemma write_binary_dict_inv d img :
  write_binary_dict d = Ok img ->
  exists h imgs, to_bytes (N.of_nat (length d)) DICT_SIZE_BYTE_SIZE = Ok h
    /\ mapM write_entry d = Ok imgs /\ img = h ++ concat imgs.
Proof.
  unfold write_binary_dict. destruct (to_bytes _ _) as [h|]; simpl; [|discriminate].
  destruct (mapM write_entry d) as [imgs|]; simpl; [|discriminate]. intros [= <-]. eauto.
Qed.

Theorem dict_roundtrip d img :
  dict_ok d -> write_binary_dict d = Ok img -> read_binary_dict img = Ok d.
Proof.
  intros [Hnd Hok] Hw. apply write_binary_dict_inv in Hw as (h & imgs & Hh & Hm & ->).
  unfold read_binary_dict. rewrite (read_unsigned_app _ _ _ _ Hh). simpl. rewrite Nat2N.id.
  rewrite <- (app_nil_r (concat imgs)). rewrite (read_entries_app _ _ _ _ Hm Hok). simpl.
  rewrite fold_set_entry_nodup by exact Hnd. reflexivity.
Qed.

(* the writer succeeds exactly within the limits of the length fields *)
Definition within_limits (d : dict bytes) : Prop :=
  (N.of_nat (length d) < 256 ^ N.of_nat DICT_SIZE_BYTE_SIZE)%N /\
  Forall (fun kv : label * bytes =>
            (N.of_nat (length (list_ascii_of_string (fst kv))) < 256 ^ N.of_nat DICT_KEY_BYTE_SIZE)%N /\
            (N.of_nat (length (snd kv)) < 256 ^ N.of_nat DICT_VALUE_BYTE_SIZE)%N) d.

Lemma write_within_limits d : within_limits d -> exists img, write_binary_dict d = Ok img.
Proof.
  intros [Hn Hall]. unfold write_binary_dict.
  destruct (to_bytes_ok _ _ Hn) as (h & ->). simpl.
  assert (exists imgs, mapM write_entry d = Ok imgs) as (imgs & ->).
  { clear Hn. induction Hall as [|kv d [Hk Hv] _ (imgs & IH)]; [exists []; reflexivity|].
    simpl. unfold write_entry at 1.
    destruct (to_bytes_ok _ _ Hk) as (kl & ->). destruct (to_bytes_ok _ _ Hv) as (vl & ->). simpl.
    rewrite IH. simpl. eauto. }
  simpl. eauto.
Qed.

Lemma write_fails_outside_limits d e : write_binary_dict d = Err e -> e = PyValueError /\ ~ within_limits d.
Proof.
  intros H. split.
  - unfold write_binary_dict in H. destruct (to_bytes _ _) eqn:E1; simpl in H;
      [|injection H as <-; eapply to_bytes_err; eassumption].
    destruct (mapM write_entry d) eqn:E2; simpl in H; [discriminate|]. injection H as <-.
    clear E1. revert e0 E2. induction d as [|kv d IH]; intros e0; simpl; [discriminate|].
    destruct (write_entry kv) eqn:E3; simpl.
    + destruct (mapM write_entry d); simpl; [discriminate|]. intros [= <-]. eapply IH; reflexivity.
    + intros [= <-]. unfold write_entry in E3.
      destruct (to_bytes _ DICT_KEY_BYTE_SIZE) eqn:E4; simpl in E3;
        [|injection E3 as <-; eapply to_bytes_err; eassumption].
      destruct (to_bytes _ DICT_VALUE_BYTE_SIZE) eqn:E5; simpl in E3; [discriminate|].
      injection E3 as <-; eapply to_bytes_err; eassumption.
  - intros Hl. destruct (write_within_limits _ Hl) as (img & Hi). congruence.
Qed.

(* ---- truncated and trailing data ---- *)
Definition strict_prefix (p s : bytes) : Prop := exists t, t <> [] /\ s = p ++ t.

Lemma sp_split (a rest p : bytes) :
  strict_prefix p (a ++ rest) ->
  (length p < length a)%nat \/ exists p', p = a ++ p' /\ strict_prefix p' rest.
Proof.
  intros (t & Ht & E). symmetry in E. apply app_eq_app in E as (l & [[-> ->]|[-> ->]]).
  - right. exists l; split; [reflexivity|]. exists t; auto.
  - destruct l as [|x l].
    + right. exists []. rewrite !app_nil_r. split; [reflexivity|]. exists rest. simpl in Ht. auto.
    + left. rewrite app_length; simpl; lia.
Qed.

Lemma read_exact_sp (a rest p : bytes) :
  strict_prefix p (a ++ rest) ->
  read_exact (length a) p = Err BinaryDictIOError \/
  exists p', p = a ++ p' /\ strict_prefix p' rest.
Proof.
  intros H. apply sp_split in H as [H|H]; [left; apply read_exact_short; exact H|right; exact H].
Qed.

Lemma read_unsigned_sp x n bs rest p :
  to_bytes x n = Ok bs -> strict_prefix p (bs ++ rest) ->
  read_unsigned n p = Err BinaryDictIOError \/ exists p', p = bs ++ p' /\ strict_prefix p' rest.
Proof.
  intros Hb H. pose proof (to_bytes_inv _ _ _ Hb) as (Hl & _). apply read_exact_sp in H as [H|H].
  - left. unfold read_unsigned. rewrite <- Hl, H. reflexivity.
  - right; exact H.
Qed.

Lemma no_strict_prefix_nil p : ~ strict_prefix p [].
Proof. intros (t & Ht & E). destruct p; destruct t; simpl in E; congruence. Qed.

Lemma read_entries_sp d : forall imgs p acc,
  mapM write_entry d = Ok imgs -> Forall entry_ok d -> strict_prefix p (concat imgs) ->
  read_entries (length d) p acc = Err BinaryDictIOError.
Proof.
  induction d as [|kv d IH]; intros imgs p acc Hw Hok Hp.
  - simpl in Hw; injection Hw as <-. exfalso; eapply no_strict_prefix_nil; exact Hp.
  - apply mapM_cons_inv in Hw as (img & imgs' & H1 & H2 & ->). inversion Hok as [|? ? Hk Hd]; subst.
    simpl concat in Hp. pose proof H1 as H1'.
    apply write_entry_inv in H1 as (kl & vl & Hkl & Hvl & ->).
    repeat rewrite <- app_assoc in Hp. simpl length. simpl read_entries.
    destruct (read_unsigned_sp _ _ _ _ _ Hkl Hp) as [E|(p1 & -> & Hp1)]; [rewrite E; reflexivity|].
    rewrite (read_unsigned_app _ _ _ _ Hkl). simpl. rewrite Nat2N.id.
    destruct (read_exact_sp _ _ _ Hp1) as [E|(p2 & -> & Hp2)]; [rewrite E; reflexivity|].
    rewrite read_exact_app. simpl. rewrite utf8_decode_ok by exact Hk. simpl.
    destruct (read_unsigned_sp _ _ _ _ _ Hvl Hp2) as [E|(p3 & -> & Hp3)]; [rewrite E; reflexivity|].
    rewrite (read_unsigned_app _ _ _ _ Hvl). simpl. rewrite Nat2N.id.
    destruct (read_exact_sp _ _ _ Hp3) as [E|(p4 & -> & Hp4)]; [rewrite E; reflexivity|].
    rewrite read_exact_app. simpl. eapply IH; eassumption.
Qed.

Theorem dict_rejects_truncated d img p :
  dict_ok d -> write_binary_dict d = Ok img -> strict_prefix p img ->
  read_binary_dict p = Err BinaryDictIOError.
Proof.
  intros [Hnd Hok] Hw Hp. apply write_binary_dict_inv in Hw as (h & imgs & Hh & Hm & ->).
  unfold read_binary_dict.
  destruct (read_unsigned_sp _ _ _ _ _ Hh Hp) as [E|(p1 & -> & Hp1)]; [rewrite E; reflexivity|].
  rewrite (read_unsigned_app _ _ _ _ Hh). simpl. rewrite Nat2N.id.
  rewrite (read_entries_sp _ _ _ _ Hm Hok Hp1). reflexivity.
Qed.

Theorem dict_rejects_trailing d img ext :
  dict_ok d -> write_binary_dict d = Ok img -> ext <> [] ->
  read_binary_dict (img ++ ext) = Err BinaryDictIOError.
Proof.
  intros [Hnd Hok] Hw He. apply write_binary_dict_inv in Hw as (h & imgs & Hh & Hm & ->).
  unfold read_binary_dict. rewrite <- app_assoc.
  rewrite (read_unsigned_app _ _ _ _ Hh). simpl. rewrite Nat2N.id.
  rewrite (read_entries_app _ _ _ _ Hm Hok). simpl. destruct ext; [congruence|reflexivity].
Qed.

(* the record-by-record reader used by the sweep sees at least the entries of the dictionary *)
Lemma read_records_acc m : forall s racc r rest x,
  read_records m s racc = Ok (r, rest) -> In x racc -> In x r.
Proof.
  induction m as [|m IHm]; intros s racc r rest x; simpl.
  - intros [= <- _] Hx. rewrite rev_append_rev, app_nil_r. apply in_rev in Hx; exact Hx.
  - destruct (read_unsigned DICT_KEY_BYTE_SIZE s) as [kl|]; simpl; [|discriminate].
    destruct (read_exact _ (snd kl)) as [kb|]; simpl; [|discriminate].
    destruct (utf8_decode (fst kb)) as [key'|]; simpl; [|discriminate].
    destruct (read_unsigned DICT_VALUE_BYTE_SIZE (snd kb)) as [vl|]; simpl; [|discriminate].
    destruct (read_exact _ (snd vl)) as [vb'|]; simpl; [|discriminate].
    intros H Hx. eapply IHm; [exact H|right; exact Hx].
Qed.

Lemma read_records_entries n : forall s acc racc r rest d rest',
  read_records n s racc = Ok (r, rest) -> read_entries n s acc = Ok (d, rest') ->
  rest = rest' /\ forall k v, dget d k = Some v -> dget acc k = Some v \/ In (k, v) r.
Proof.
  induction n as [|n IH]; intros s acc racc r rest d rest'; simpl.
  - intros [= <- <-] [= <- <-]. split; [reflexivity|]. auto.
  - destruct (read_unsigned DICT_KEY_BYTE_SIZE s) as [kl|]; simpl; [|discriminate].
    destruct (read_exact _ (snd kl)) as [kb|]; simpl; [|discriminate].
    destruct (utf8_decode (fst kb)) as [key|]; simpl; [|discriminate].
    destruct (read_unsigned DICT_VALUE_BYTE_SIZE (snd kb)) as [vl|]; simpl; [|discriminate].
    destruct (read_exact _ (snd vl)) as [vb|]; simpl; [|discriminate].
    intros H1 H2. destruct (IH _ _ _ _ _ _ _ H1 H2) as (-> & H). split; [reflexivity|].
    intros k v Hk. destruct (H k v Hk) as [H'|H']; [|right; exact H'].
    rewrite dget_dset in H'. destruct (leqb_spec k key) as [->|]; [|left; exact H'].
    injection H' as <-. right. eapply read_records_acc; [exact H1|left; reflexivity].
Qed.
