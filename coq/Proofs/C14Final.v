(* C14: the statements of Properties/C14.v, assembled from SemBench / SemBench2 with the
   invariant Inv of C02, and the non-vacuity example. *)
Require Import Cirbo.Model.Base Cirbo.Model.Gate Cirbo.Model.Den Cirbo.Model.Circuit Cirbo.Model.Connect
        Cirbo.Model.Eval Cirbo.Model.Sem Cirbo.Model.History Cirbo.Model.WF.
Require Import Cirbo.Generated.Operators Cirbo.Generated.GateTypes.
Require Import Cirbo.Proofs.DictFacts Cirbo.Proofs.WFBase Cirbo.Proofs.WFEmplace Cirbo.Proofs.WFStep
        Cirbo.Proofs.OpFacts Cirbo.Proofs.SemExt Cirbo.Proofs.SemBench Cirbo.Proofs.SemBench2 Cirbo.Proofs.SemEvaluate2.

Lemma rules_denotation a b x bs :
  den LT [a; b] = den AND [negb a; b] /\ den LEQ [a; b] = den OR [negb a; b] /\
  den GT [a; b] = den AND [a; negb b] /\ den GEQ [a; b] = den OR [a; negb b] /\
  den LIFF [a; b] = den IFF [a] /\ den RIFF [a; b] = den IFF [b] /\
  den LNOT [a; b] = den NOT [a] /\ den RNOT [a; b] = den NOT [b] /\
  den ALWAYS_TRUE bs = den OR [x; negb x] /\ den ALWAYS_FALSE bs = den AND [x; negb x].
Proof.
  repeat split; try reflexivity; [apply den_rule_true|apply den_rule_false].
Qed.

Lemma rules_three_valued_refine a b :
  st_le (oplt_ a b) (opand_ (opnot_ a) b []) /\ st_le (opleq_ a b) (opor_ (opnot_ a) b []) /\
  st_le (opgt_ a b) (opand_ a (opnot_ b) []) /\ st_le (opgeq_ a b) (opor_ a (opnot_ b) []).
Proof.
  repeat split; [apply op_rule_lt_le|apply op_rule_leq_le|apply op_rule_gt_le|apply op_rule_geq_le].
Qed.

Lemma into_bench_io' c fresh c' :
  Inv c -> arity_ok c -> into_bench c fresh = Ok c' -> inputs c' = inputs c /\ outputs c' = outputs c.
Proof. intros [W N] A H. eapply into_bench_io; eassumption. Qed.

Lemma into_bench_wf' c fresh c' : Inv c -> arity_ok c -> into_bench c fresh = Ok c' -> Inv c'.
Proof. intros [W N] A H. eapply into_bench_wf; eassumption. Qed.

Lemma into_bench_sem' c fresh c' a :
  Inv c -> arity_ok c -> into_bench c fresh = Ok c' -> total_on c a ->
  forall l v, has_gate c l = true -> (Eval c' a l v <-> Eval c a l v).
Proof. intros [W N] A H. eapply into_bench_sem; eassumption. Qed.

Lemma into_bench_total_on' c fresh c' a :
  Inv c -> arity_ok c -> into_bench c fresh = Ok c' -> (total_on c a <-> total_on c' a).
Proof. intros [W N] A H. eapply into_bench_total_on; eassumption. Qed.

Lemma into_bench_outputs_sem' c fresh c' a :
  Inv c -> arity_ok c -> into_bench c fresh = Ok c' -> total_on c a ->
  forall vs, Forall2 (Eval c' a) (outputs c') vs <-> Forall2 (Eval c a) (outputs c) vs.
Proof. intros [W N] A H. eapply into_bench_outputs_sem; eassumption. Qed.

Lemma into_bench_basis' c fresh c' :
  Inv c -> arity_ok c -> into_bench c fresh = Ok c' ->
  forall x g, dget (gates c') x = Some g ->
    In (gtyp g) [INPUT; NOT; AND; OR; NAND; NOR; XOR; NXOR; IFF].
Proof.
  intros [W N] A H x g Hx. pose proof (into_bench_types c c' fresh W N A H x g Hx) as Hb.
  destruct (gtyp g); try discriminate Hb; simpl; tauto.
Qed.

Lemma into_bench_blocks_spec' c fresh c' :
  Inv c -> arity_ok c -> into_bench c fresh = Ok c' ->
  (forall x, has_gate c x = true -> has_gate c' x = true) /\
  dkeys (blocks c') = dkeys (blocks c) /\
  (forall b, match dget (blocks c) b with
             | None => dget (blocks c') b = None
             | Some b0 => exists extra,
                 dget (blocks c') b = Some (mkBlock (binputs b0) (bgates b0 ++ extra) (boutputs b0)) /\
                 forall x, In x extra -> has_gate c x = false /\ has_gate c' x = true
             end) /\
  (forall x, has_gate c' x = true -> has_gate c x = false ->
     exists l, has_gate c l = true /\ is_helper_label l x /\ In x (ops_of c' l) /\
       forall b b0, dget (blocks c) b = Some b0 -> In l (bgates b0) ->
                    exists bc, dget (blocks c') b = Some bc /\ In x (bgates bc)).
Proof. intros [W N] A H. eapply into_bench_blocks_spec; eassumption. Qed.

(* ---- example ---- *)
Definition C14_ex : circuit :=
  match foldM step
          [OpAddInputs ["x"; "y"]; OpEmplace "g1" LT ["x"; "y"]; OpEmplace "g2" ALWAYS_TRUE [];
           OpEmplace "g3" RNOT ["g1"; "g2"]; OpEmplace "g4" GEQ ["x"; "x"];
           OpEmplace "g5" XOR ["g3"; "g4"; "y"];
           OpMarkOutput "g5"; OpMarkOutput "g1"; OpMakeBlock "B" ["g1"; "g2"; "g4"] ["g1"] None]
          empty_circuit with
  | Ok c => c
  | Err _ => empty_circuit
  end.

Lemma C14_ex_ok :
  Inv C14_ex /\ arity_ok C14_ex /\ inputs C14_ex <> [] /\
  exists c', into_bench C14_ex ["f1"; "f2"; "f3"] = Ok c' /\ size c' = 10 /\
             total_on C14_ex [("x", T); ("y", F)].
Proof.
  split; [apply Inv_b; vm_compute; reflexivity|].
  split; [apply arity_okb_sound; vm_compute; reflexivity|].
  split; [intros E; vm_compute in E; discriminate E|].
  eexists; split; [vm_compute; reflexivity|]. split; [vm_compute; reflexivity|].
  apply total_onb_sound; vm_compute; reflexivity.
Qed.

Lemma into_bench_evaluate' c fresh c' bs r r' :
  Inv c -> arity_ok c -> into_bench c fresh = Ok c' ->
  evaluate c (map inj bs) = Ok r -> evaluate c' (map inj bs) = Ok r' -> r = r'.
Proof. intros [W N] A H. exact (SemEvaluate2.into_bench_evaluate c fresh c' bs r r' W N A H). Qed.

Lemma into_bench_truth_table' c fresh c' t t' :
  Inv c -> arity_ok c -> into_bench c fresh = Ok c' ->
  get_truth_table c = Ok t -> get_truth_table c' = Ok t' -> t = t'.
Proof. intros [W N] A H. exact (SemEvaluate2.into_bench_truth_table c fresh c' t t' W N A H). Qed.
