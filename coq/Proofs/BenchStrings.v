(* String lemmas for the bench printer / parser model: append, find, slicing, strip, upper,
   startswith, split, line iteration, join. *)
Require Import Cirbo.Model.Base Cirbo.Model.Bench.
Local Open Scope string_scope.

(* ------------------------------------------------------------------ append *)
Lemma sapp_nil_r s : s ++ "" = s.
Proof. induction s as [|a s IH]; simpl; [reflexivity|rewrite IH; reflexivity]. Qed.

Lemma sapp_assoc a b c : (a ++ b) ++ c = a ++ (b ++ c).
Proof. induction a as [|x a IH]; simpl; [reflexivity|rewrite IH; reflexivity]. Qed.

Lemma slength_app a b : String.length (a ++ b) = (String.length a + String.length b)%nat.
Proof. induction a as [|x a IH]; simpl; [reflexivity|rewrite IH; reflexivity]. Qed.

Lemma sapp_cons a r s : String a r ++ s = String a (r ++ s).
Proof. reflexivity. Qed.

Lemma sapp_eq_nil a b : a ++ b = "" -> a = "" /\ b = "".
Proof. destruct a; simpl; [auto|discriminate]. Qed.

(* ------------------------------------------------------------------ characters *)
Lemma aeqb_eq a b : Ascii.eqb a b = true <-> a = b.
Proof. apply Ascii.eqb_eq. Qed.
Lemma aeqb_refl a : Ascii.eqb a a = true.
Proof. apply Ascii.eqb_refl. Qed.
Lemma aeqb_neq a b : Ascii.eqb a b = false <-> a <> b.
Proof. apply Ascii.eqb_neq. Qed.

Lemma amem_In a cs : amem a cs = true <-> In a cs.
Proof.
  unfold amem. rewrite existsb_exists. split.
  - intros [x [Hin E]]. apply aeqb_eq in E; subst; exact Hin.
  - intros H; exists a; split; [exact H|apply aeqb_refl].
Qed.

(* ------------------------------------------------------------------ has_char / all_chars *)
Lemma has_char_app ch a b : has_char ch (a ++ b) = has_char ch a || has_char ch b.
Proof.
  induction a as [|x a IH]; simpl; [reflexivity|]. rewrite IH, orb_assoc; reflexivity.
Qed.

Lemma all_chars_app p a b : all_chars p (a ++ b) = all_chars p a && all_chars p b.
Proof.
  induction a as [|x a IH]; simpl; [reflexivity|]. rewrite IH, andb_assoc; reflexivity.
Qed.

Lemma all_chars_impl (p q : ascii -> bool) s :
  (forall a, p a = true -> q a = true) -> all_chars p s = true -> all_chars q s = true.
Proof.
  intros H; induction s as [|a s IH]; simpl; [reflexivity|].
  rewrite !andb_true_iff. intros [H1 H2]; split; auto.
Qed.

Lemma all_chars_has_char p ch s :
  all_chars p s = true -> p ch = false -> has_char ch s = false.
Proof.
  intros H Hp; induction s as [|a s IH]; simpl in *; [reflexivity|].
  apply andb_true_iff in H as [H1 H2]. rewrite (IH H2), orb_false_r.
  apply aeqb_neq. intros ->. congruence.
Qed.

(* ------------------------------------------------------------------ find *)
Lemma find_char_app ch a b :
  has_char ch a = false -> find_char ch (a ++ String ch b) = Some (String.length a).
Proof.
  induction a as [|x a IH]; simpl.
  - intros _. rewrite aeqb_refl; reflexivity.
  - intros H. apply orb_false_iff in H as [H1 H2]. rewrite H1, (IH H2). reflexivity.
Qed.

Lemma find_char_none ch s : has_char ch s = false -> find_char ch s = None.
Proof.
  induction s as [|x s IH]; simpl; [reflexivity|].
  intros H. apply orb_false_iff in H as [H1 H2]. rewrite H1, (IH H2). reflexivity.
Qed.

(* ------------------------------------------------------------------ slicing *)
Lemma take_app a b : take (String.length a) (a ++ b) = a.
Proof. induction a as [|x a IH]; simpl; [destruct b; reflexivity|rewrite IH; reflexivity]. Qed.

Lemma drop_app a b : drop (String.length a) (a ++ b) = b.
Proof. induction a as [|x a IH]; simpl; [reflexivity|exact IH]. Qed.

Lemma take_0 s : take 0 s = "".
Proof. destruct s; reflexivity. Qed.

Lemma take_all s : take (String.length s) s = s.
Proof. rewrite <- (sapp_nil_r s) at 2. apply take_app. Qed.

(* ------------------------------------------------------------------ upper *)
Lemma upper_app a b : upper (a ++ b) = upper a ++ upper b.
Proof. induction a as [|x a IH]; simpl; [reflexivity|rewrite IH; reflexivity]. Qed.

Lemma upper_length s : String.length (upper s) = String.length s.
Proof. induction s as [|x s IH]; simpl; [reflexivity|rewrite IH; reflexivity]. Qed.

Lemma upper_take n s : upper (take n s) = take n (upper s).
Proof.
  revert s; induction n as [|n IH]; intros [|a s]; simpl; try reflexivity. rewrite IH; reflexivity.
Qed.

Lemma has_char_upper x s : upper_char x = x -> has_char x (upper s) = false -> has_char x s = false.
Proof.
  intros Hx; induction s as [|a s IH]; simpl; [reflexivity|].
  intros H. apply orb_false_iff in H as [H1 H2]. rewrite (IH H2), orb_false_r.
  apply aeqb_neq. intros ->. apply aeqb_neq in H1. apply H1. exact Hx.
Qed.

(* ------------------------------------------------------------------ startswith *)
Lemma prefix_app p r : String.prefix p (p ++ r) = true.
Proof.
  induction p as [|a p IH]; simpl; [destruct r; reflexivity|].
  destruct (ascii_dec a a) as [_|N]; [exact IH|contradiction].
Qed.

(* ------------------------------------------------------------------ strip *)
Definition all_in (cs : list ascii) (s : string) : bool := all_chars (fun a => amem a cs) s.
Definition none_in (cs : list ascii) (s : string) : bool := all_chars (fun a => negb (amem a cs)) s.

Lemma all_in_cons cs a s : all_in cs (String a s) = amem a cs && all_in cs s.
Proof. reflexivity. Qed.
Lemma none_in_cons cs a s : none_in cs (String a s) = negb (amem a cs) && none_in cs s.
Proof. reflexivity. Qed.
Lemma all_in_app cs a b : all_in cs (a ++ b) = all_in cs a && all_in cs b.
Proof. apply all_chars_app. Qed.
Lemma none_in_app cs a b : none_in cs (a ++ b) = none_in cs a && none_in cs b.
Proof. apply all_chars_app. Qed.

Lemma lstrip_all_in cs p s : all_in cs p = true -> lstrip cs (p ++ s) = lstrip cs s.
Proof.
  induction p as [|a p IH]; simpl; [reflexivity|].
  intros H. apply andb_true_iff in H as [H1 H2]. rewrite H1. exact (IH H2).
Qed.

Lemma lstrip_keep cs a r : amem a cs = false -> lstrip cs (String a r) = String a r.
Proof. intros H; simpl; rewrite H; reflexivity. Qed.

Lemma rstrip_all_in_nil cs q : all_in cs q = true -> rstrip cs q = "".
Proof.
  induction q as [|a q IH]; simpl; [reflexivity|].
  intros H. apply andb_true_iff in H as [H1 H2]. rewrite (IH H2), H1. reflexivity.
Qed.

(* rstrip of a concatenation is decided by the right part *)
Lemma rstrip_app cs x y :
  rstrip cs (x ++ y) = match rstrip cs y with "" => rstrip cs x | y' => x ++ y' end.
Proof.
  induction x as [|a x IH]; simpl.
  - destruct (rstrip cs y); reflexivity.
  - rewrite IH. destruct (rstrip cs y) as [|b y'].
    + reflexivity.
    + destruct x; reflexivity.
Qed.

Lemma rstrip_all_in cs s q : all_in cs q = true -> rstrip cs (s ++ q) = rstrip cs s.
Proof. intros H. rewrite rstrip_app, (rstrip_all_in_nil _ _ H). reflexivity. Qed.

Lemma rstrip_last cs x a : amem a cs = false -> rstrip cs (x ++ String a "") = x ++ String a "".
Proof. intros H. rewrite rstrip_app. simpl. rewrite H. reflexivity. Qed.

Lemma rstrip_none_in cs m : none_in cs m = true -> rstrip cs m = m.
Proof.
  induction m as [|a m IH]; simpl; [reflexivity|].
  intros H. apply andb_true_iff in H as [H1 H2]. rewrite (IH H2).
  apply negb_true_iff in H1. rewrite H1. destruct m; reflexivity.
Qed.

Lemma rstrip_keep cs x m : none_in cs m = true -> m <> "" -> rstrip cs (x ++ m) = x ++ m.
Proof.
  intros H Hne. rewrite rstrip_app, (rstrip_none_in _ _ H). destruct m; [contradiction|reflexivity].
Qed.

Lemma lstrip_none_in cs m x : none_in cs m = true -> m <> "" -> lstrip cs (m ++ x) = m ++ x.
Proof.
  destruct m as [|a m]; [contradiction|]. simpl. intros H _.
  apply andb_true_iff in H as [H1 _]. apply negb_true_iff in H1. rewrite H1. reflexivity.
Qed.

(* the workhorse: strip(p + m + q) = m when p, q consist of stripped characters and m of others *)
Lemma strip_mid cs p m q :
  all_in cs p = true -> all_in cs q = true -> none_in cs m = true -> m <> "" ->
  strip cs (p ++ m ++ q) = m.
Proof.
  intros Hp Hq Hm Hne. unfold strip.
  rewrite <- sapp_assoc, (rstrip_all_in _ _ _ Hq), (rstrip_keep _ _ _ Hm Hne),
    (lstrip_all_in _ _ _ Hp).
  rewrite <- (sapp_nil_r m) at 1. rewrite (lstrip_none_in _ _ _ Hm Hne). apply sapp_nil_r.
Qed.

Lemma strip_all_in cs q : all_in cs q = true -> strip cs q = "".
Proof. intros H; unfold strip; rewrite (rstrip_all_in_nil _ _ H); reflexivity. Qed.

(* decomposition of a string around its stripped core *)
Lemma rstrip_decomp cs s : exists q, s = rstrip cs s ++ q /\ all_in cs q = true.
Proof.
  induction s as [|a s [q [E Hq]]]; simpl; [exists ""; split; reflexivity|].
  destruct (rstrip cs s) as [|b r'] eqn:R.
  - destruct (amem a cs) eqn:A.
    + exists (String a s). split; [reflexivity|]. simpl in E. subst q. rewrite all_in_cons, A. exact Hq.
    + exists q. simpl in E. subst q. split; [reflexivity|exact Hq].
  - exists q. split; [|exact Hq]. simpl. f_equal. exact E.
Qed.

Lemma lstrip_decomp cs s : exists p, s = p ++ lstrip cs s /\ all_in cs p = true.
Proof.
  induction s as [|a s [p [E Hp]]]; simpl; [exists ""; split; reflexivity|].
  destruct (amem a cs) eqn:A.
  - exists (String a p). split; [simpl; f_equal; exact E|rewrite all_in_cons, A; exact Hp].
  - exists "". split; reflexivity.
Qed.

(* ------------------------------------------------------------------ split *)
Lemma split2_nosep ch a : has_char ch a = false -> split2 ch a = (a, []%list).
Proof.
  induction a as [|x a IH]; simpl; [reflexivity|].
  intros H. apply orb_false_iff in H as [H1 H2]. rewrite (IH H2), H1. reflexivity.
Qed.

Lemma split_char_nosep ch a : has_char ch a = false -> split_char ch a = [a]%list.
Proof. intros H; unfold split_char; rewrite (split2_nosep _ _ H); reflexivity. Qed.

Lemma split_char_app ch a b :
  has_char ch a = false -> split_char ch (a ++ String ch b) = (a :: split_char ch b)%list.
Proof.
  unfold split_char. induction a as [|x a IH]; simpl.
  - intros _. rewrite aeqb_refl. destruct (split2 ch b); reflexivity.
  - intros H. apply orb_false_iff in H as [H1 H2]. specialize (IH H2).
    destruct (split2 ch (a ++ String ch b)) as [h t]. rewrite H1.
    destruct (split2 ch b) as [h' t']. inversion IH; subst. reflexivity.
Qed.

(* prefixing a separator-free string extends the first piece *)
Lemma split2_prefix ch p x :
  has_char ch p = false ->
  split2 ch (p ++ x) = (p ++ fst (split2 ch x), snd (split2 ch x)).
Proof.
  induction p as [|a p IH]; simpl; [intros _; destruct (split2 ch x); reflexivity|].
  intros H. apply orb_false_iff in H as [H1 H2]. rewrite (IH H2), H1. reflexivity.
Qed.

Lemma all_in_no_sep cs ch q : amem ch cs = false -> all_in cs q = true -> has_char ch q = false.
Proof. intros H Hq. eapply all_chars_has_char; [exact Hq|exact H]. Qed.

(* stripping the whole string before splitting does not change the stripped pieces *)
Lemma map_rstrip_split_app cs ch x q :
  amem ch cs = false -> all_in cs q = true ->
  map (rstrip cs) (split_char ch (x ++ q)) = map (rstrip cs) (split_char ch x).
Proof.
  intros Hch Hq. unfold split_char. induction x as [|a x IH]; simpl.
  - rewrite (split2_nosep _ _ (all_in_no_sep _ _ _ Hch Hq)). simpl.
    rewrite (rstrip_all_in_nil _ _ Hq). reflexivity.
  - destruct (split2 ch (x ++ q)) as [h t], (split2 ch x) as [h' t'].
    simpl in IH. inversion IH as [[E1 E2]].
    destruct (Ascii.eqb a ch); simpl; [rewrite E1, E2; reflexivity|].
    rewrite E1, E2. reflexivity.
Qed.

Lemma map_strip_split_prefix cs ch p x :
  amem ch cs = false -> all_in cs p = true ->
  map (strip cs) (split_char ch (p ++ x)) = map (strip cs) (split_char ch x).
Proof.
  intros Hch Hp. unfold split_char.
  rewrite (split2_prefix _ _ _ (all_in_no_sep _ _ _ Hch Hp)).
  destruct (split2 ch x) as [h t]; simpl. f_equal.
  unfold strip. rewrite rstrip_app.
  destruct (rstrip cs h) as [|b r] eqn:R.
  - rewrite (rstrip_all_in_nil _ _ Hp). reflexivity.
  - rewrite (lstrip_all_in _ _ _ Hp). reflexivity.
Qed.

Lemma map_strip_as_rstrip cs l : map (strip cs) l = map (lstrip cs) (map (rstrip cs) l).
Proof. rewrite map_map. reflexivity. Qed.

Lemma map_strip_split_strip cs ch s :
  amem ch cs = false ->
  map (strip cs) (split_char ch (strip cs s)) = map (strip cs) (split_char ch s).
Proof.
  intros Hch.
  destruct (rstrip_decomp cs s) as [q [Eq Hq]].
  destruct (lstrip_decomp cs (rstrip cs s)) as [p [Ep Hp]].
  fold (strip cs s) in Ep.
  assert (E : s = (p ++ strip cs s) ++ q) by (rewrite <- Ep; exact Eq).
  remember (strip cs s) as m eqn:Em. rewrite E.
  rewrite (map_strip_as_rstrip cs (split_char ch ((p ++ m) ++ q))),
    (map_rstrip_split_app _ _ _ _ Hch Hq), <- map_strip_as_rstrip,
    (map_strip_split_prefix _ _ _ _ Hch Hp).
  reflexivity.
Qed.

(* ------------------------------------------------------------------ lines *)
Lemma lines_nonl x : has_char ch_nl x = false -> x <> "" -> lines x = [x]%list.
Proof.
  induction x as [|a x IH]; [contradiction|]. simpl. intros H _.
  apply orb_false_iff in H as [H1 H2]. rewrite H1.
  destruct x as [|b x]; [reflexivity|]. rewrite (IH H2); [reflexivity|discriminate].
Qed.

Lemma lines_app_nl' x rest :
  has_char ch_nl x = false -> lines (x ++ String ch_nl rest) = ((x ++ NL)%string :: lines rest)%list.
Proof.
  induction x as [|a x IH]; intros H.
  - reflexivity.
  - simpl in H. apply orb_false_iff in H as [H1 H2].
    change (lines (String a x ++ String ch_nl rest))
      with (if Ascii.eqb a ch_nl then (NL :: lines (x ++ String ch_nl rest))%list
            else match lines (x ++ String ch_nl rest) with
                 | []%list => [String a ""]%list
                 | (h :: t)%list => (String a h :: t)%list
                 end).
    rewrite H1, (IH H2). reflexivity.
Qed.

Lemma lines_app_nl x rest :
  has_char ch_nl x = false -> lines (x ++ NL ++ rest) = ((x ++ NL)%string :: lines rest)%list.
Proof. apply lines_app_nl'. Qed.

(* ------------------------------------------------------------------ join *)
Lemma concat_cons2 sep a b l : String.concat sep (a :: b :: l) = a ++ sep ++ String.concat sep (b :: l).
Proof. reflexivity. Qed.

Lemma concat_app sep l1 l2 :
  l1 <> []%list -> l2 <> []%list ->
  String.concat sep (l1 ++ l2) = String.concat sep l1 ++ sep ++ String.concat sep l2.
Proof.
  intros H1 H2. induction l1 as [|a l1 IH]; [contradiction|].
  destruct l1 as [|b l1].
  - destruct l2; [contradiction|reflexivity].
  - change ((a :: b :: l1) ++ l2)%list with (a :: (b :: l1) ++ l2)%list.
    change ((b :: l1) ++ l2)%list with (b :: (l1 ++ l2))%list.
    rewrite concat_cons2. change (b :: l1 ++ l2)%list with ((b :: l1) ++ l2)%list.
    rewrite IH by discriminate. rewrite concat_cons2, !sapp_assoc. reflexivity.
Qed.

(* ------------------------------------------------------------------ universal newlines *)
Lemma universal_newlines_id s : has_char ch_cr s = false -> universal_newlines s = s.
Proof.
  induction s as [|a s IH]; simpl; [reflexivity|].
  intros H. apply orb_false_iff in H as [H1 H2]. rewrite H1, (IH H2). reflexivity.
Qed.
