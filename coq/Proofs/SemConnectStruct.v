(* C10: the STRUCTURE of the result of connect_circuit (both directions), from which the
   semantic theorems (SemConnectLeft.v, SemConnectRight.v, SemBlock.v) follow by the
   simulation lemma of SemExtConnect.v.

   For connect_circuit base other tc oc right name ap = Ok r, with
     mapping = build_mapping oc tc [],  prefix = conn_prefix name ap,
     ren l   = mapping[l] if l is a key of mapping, else prefix ++ l :
   - every gate l of `other` that is copied (right connection: all; left connection: the
     gates that are not connectors) is stored in r under ren l with operands renamed;
   - every gate of base that is not overwritten (left: all; right: those that are not the
     image of a connector) is stored in r unchanged;
   - the labels of the new gates are not labels of base;
   - interface lists, blocks of base, the new block. *)
Require Import Cirbo.Model.Base Cirbo.Model.Gate Cirbo.Model.Circuit Cirbo.Model.Traverse
        Cirbo.Model.Connect Cirbo.Model.WF.
Require Import Cirbo.Proofs.DictFacts Cirbo.Proofs.WFBase Cirbo.Proofs.WFSimple Cirbo.Proofs.WFEmplace
        Cirbo.Proofs.WFConnect1 Cirbo.Proofs.WFConnect2 Cirbo.Proofs.TopSortWF Cirbo.Proofs.SemExtConnect.
From Coq Require Import Permutation.

Definition ren_of (mapping : dict label) (prefix : string) (l : label) : label :=
  match dget mapping l with Some t => t | None => (prefix ++ l)%string end.

Lemma dmem_false_iff {V} (d : dict V) k : dmem d k = false <-> dget d k = None.
Proof. unfold dmem; destruct (dget d k); split; congruence. Qed.
Lemma dmem_true_iff {V} (d : dict V) k : dmem d k = true <-> exists v, dget d k = Some v.
Proof. unfold dmem; destruct (dget d k); split; try congruence; eauto. intros [v Hv]; discriminate. Qed.

Lemma map_list_ren (m : dict label) (ren : label -> label) ls r :
  (forall o t, dget m o = Some t -> t = ren o) -> map_list m ls = Ok r -> r = map ren ls.
Proof.
  intros H Hr. apply map_list_F2 in Hr. apply Forall2_eq_map.
  eapply Forall2_impl_In; [|exact Hr]. intros x y _ Hxy; simpl in Hxy. apply H, Hxy.
Qed.

Lemma filter_app_one {A} (p : A -> bool) l x :
  filter p (l ++ [x]) = filter p l ++ (if p x then [x] else []).
Proof. rewrite filter_app; reflexivity. Qed.

(* ------------------------------------------------------------------ *)
(* the main loop *)
Section Loop.
  Variables (base other : circuit) (tc oc : list label) (right : bool) (prefix : string).
  Let mapping := build_mapping oc tc [].
  Let ren := ren_of mapping prefix.

  (* gates of other that are written into the result *)
  Definition copied (l : label) : Prop := right = true \/ dget mapping l = None.
  (* gates of base that are overwritten *)
  Definition hit (done : list label) (b : label) : Prop :=
    right = true /\ exists o, In o done /\ dget mapping o = Some b.
  Definition blk_member (l : label) : bool :=
    (right || negb (dmem mapping l)) && negb (is_input_gate other l).

  Record CInv (done : list label) (cur : circuit) (o2n : dict label) (blk : list label) : Prop := mkCInv {
    ci_o2n : forall o t, dget o2n o = Some t -> t = ren o;
    ci_mono : forall x, has_gate base x = true -> has_gate cur x = true;
    ci_copy : forall l g, In l done -> dget (gates other) l = Some g -> copied l ->
                          dget (gates cur) (ren l) = Some (mkGate (gtyp g) (map ren (gops g)));
    ci_base : forall b g, dget (gates base) b = Some g -> ~ hit done b -> dget (gates cur) b = Some g;
    ci_fresh : forall l, In l done -> dget mapping l = None -> has_gate base (ren l) = false;
    ci_only : forall x, has_gate cur x = true ->
                        has_gate base x = true \/ exists l, In l done /\ dget mapping l = None /\ x = ren l;
    ci_blk : blk = map ren (filter blk_member done);
    ci_outs : outputs cur = outputs base;
    ci_blocks : blocks cur = blocks base }.

  Definition CInvS (done : list label) (s : cstate) : Prop :=
    let '(cur, o2n, blk) := s in CInv done cur o2n blk.

  Hypothesis Hvals : forall o t, dget mapping o = Some t -> has_gate base t = true.
  Hypothesis Hinj : right = true -> minj mapping.

  Lemma ren_mapped o t : dget mapping o = Some t -> ren o = t.
  Proof. unfold ren, ren_of; intros ->; reflexivity. Qed.
  Lemma ren_unmapped o : dget mapping o = None -> ren o = (prefix ++ o)%string.
  Proof. unfold ren, ren_of; intros ->; reflexivity. Qed.

  Lemma cinv_init : CInvS [] (base, mapping, []).
  Proof.
    constructor; try reflexivity; auto.
    - intros o t Ho. symmetry; apply ren_mapped, Ho.
    - intros l g [].
    - intros l [].
  Qed.

  Lemma cinv_step done l rest s s' :
    NoDup (done ++ l :: rest) -> CInvS done s ->
    conn_step other mapping prefix right s l = Ok s' -> CInvS (done ++ [l]) s'.
  Proof.
    intros Hnd Hs H. destruct s as [[cur o2n] blk]. simpl in Hs.
    assert (Hl : ~ In l done).
    { apply NoDup_remove_2 in Hnd. intros Hin; apply Hnd, in_or_app; left; exact Hin. }
    unfold conn_step in H; cbv beta iota in H. binv H g Hg. apply get_gate_ok in Hg.
    assert (Hig : is_input_gate other l = gtype_beq (gtyp g) INPUT).
    { unfold is_input_gate; rewrite Hg; reflexivity. }
    destruct Hs as [Io Im Ic Ib If Iy Ik Iu Ibl].
    destruct (dmem mapping l) eqn:Em; simpl negb in H; cbv iota in H.
    2:{ (* a gate of other that is not a connector: new label *)
      cbv zeta in H. binv H ops Hops. binv H cur' Hc. injection H as <-.
      apply emplace_gate_inv in Hc. destruct Hc as (Hnl & Hex & ->).
      apply dmem_false_iff in Em. pose proof (ren_unmapped l Em) as Rl.
      assert (Io' : forall o t, dget (dset o2n l (prefix ++ l)%string) o = Some t -> t = ren o).
      { intros o t Ho. rewrite dget_dset in Ho. destruct (leqb_spec o l) as [->|Hne].
        - injection Ho as <-. symmetry; exact Rl.
        - apply Io, Ho. }
      pose proof (map_list_ren _ ren _ _ Io' Hops) as Eops. subst ops.
      rewrite <- Rl in *. simpl. constructor.
      - exact Io'.
      - intros x Hx. rewrite emplace_raw_has_gate, (Im x Hx). apply orb_true_r.
      - intros l' g' Hin Hg' Hcp. rewrite emplace_raw_gates, dget_dset.
        apply in_app_or in Hin. destruct Hin as [Hin|[<-|[]]].
        + destruct (leqb_spec (ren l') (ren l)) as [E|_]; [|eapply Ic; eassumption].
          exfalso. pose proof (Ic l' g' Hin Hg' Hcp) as Hx. apply get_has_gate in Hx.
          rewrite E, Hnl in Hx. discriminate.
        + rewrite leqb_refl. rewrite Hg in Hg'. injection Hg' as <-. reflexivity.
      - intros b gb Hb Hh. rewrite emplace_raw_gates, dget_dset.
        destruct (leqb_spec b (ren l)) as [E|_].
        + exfalso. pose proof (Im b (get_has_gate _ _ _ Hb)) as Hx. rewrite E, Hnl in Hx. discriminate.
        + apply Ib; [exact Hb|]. intros (Hr & o & Ho & Hm). apply Hh. split; [exact Hr|].
          exists o; split; [apply in_or_app; left; exact Ho|exact Hm].
      - intros l' Hin Hm. apply in_app_or in Hin. destruct Hin as [Hin|[<-|[]]]; [apply If; assumption|].
        destruct (has_gate base (ren l)) eqn:E; [|reflexivity]. rewrite (Im _ E) in Hnl. discriminate.
      - intros x Hx. rewrite emplace_raw_has_gate in Hx. apply orb_true_iff in Hx. destruct Hx as [Hx|Hx].
        + apply leqb_eq in Hx. right. exists l. split; [apply in_or_app; right; left; reflexivity|].
          split; [exact Em|exact Hx].
        + destruct (Iy x Hx) as [Hb|(l' & Hin & Hm & E)]; [left; exact Hb|right].
          exists l'; split; [apply in_or_app; left; exact Hin|]. split; assumption.
      - rewrite filter_app_one, map_app. unfold blk_member at 2. rewrite Hig.
        assert (E0 : dmem mapping l = false) by (apply dmem_false_iff; exact Em).
        rewrite E0, orb_true_r; simpl andb.
        destruct (gtype_beq (gtyp g) INPUT); simpl; [rewrite app_nil_r; exact Ik|rewrite Ik; reflexivity].
      - rewrite emplace_raw_outputs; exact Iu.
      - rewrite emplace_raw_blocks; exact Ibl. }
    destruct right eqn:Er.
    2:{ (* left connection, connector: nothing happens *)
      injection H as <-. simpl. constructor; auto.
      - intros l' g' Hin Hg' Hcp. apply in_app_or in Hin. destruct Hin as [Hin|[<-|[]]]; [eapply Ic; eassumption|].
        exfalso. destruct Hcp as [Hcp|Hcp]; [congruence|]. apply dmem_false_iff in Hcp. congruence.
      - intros b gb Hb Hh. apply Ib; [exact Hb|]. intros (Hr & _); congruence.
      - intros l' Hin Hm. apply in_app_or in Hin. destruct Hin as [Hin|[<-|[]]]; [apply If; assumption|].
        apply dmem_false_iff in Hm; congruence.
      - intros x Hx. destruct (Iy x Hx) as [Hb|(l' & Hin & Hm & E)]; [left; exact Hb|right].
        exists l'; split; [apply in_or_app; left; exact Hin|]. split; assumption.
      - rewrite filter_app_one. unfold blk_member at 2. rewrite Em, Er; simpl. rewrite app_nil_r. exact Ik. }
    (* right connection, connector: overwrite its image *)
    binv H nl Hnl. binv H ops Hops. binv H old Hold. injection H as <-.
    unfold map_get in Hnl. destruct (dget o2n l) as [nl0|] eqn:El; [|discriminate].
    injection Hnl as Hnl; subst nl0. pose proof (Io l nl El) as Enl. subst nl.
    destruct (dget (gates cur) (ren l)) as [old0|] eqn:Eold; [|discriminate].
    injection Hold as Hold; subst old0.
    apply dmem_true_iff in Em. destruct Em as [t Emt]. pose proof (ren_mapped l t Emt) as Rl.
    pose proof (map_list_ren _ ren _ _ Io Hops) as Eops. subst ops.
    destruct (overwrite_frame cur (ren l) old (gtyp g) (map ren (gops g))) as (Fg & _ & Fo & Fb).
    assert (Hmono : forall x, has_gate cur x = true -> has_gate (overwrite cur (ren l) old (gtyp g) (map ren (gops g))) x = true).
    { intros x. eapply dset_has_gate_mono; exact Fg. }
    simpl. constructor.
    - exact Io.
    - intros x Hx. apply Hmono, Im, Hx.
    - intros l' g' Hin Hg' Hcp. rewrite Fg, dget_dset.
      apply in_app_or in Hin. destruct Hin as [Hin|[<-|[]]].
      + destruct (leqb_spec (ren l') (ren l)) as [E|_]; [|eapply Ic; eassumption].
        exfalso. destruct (dget mapping l') as [t'|] eqn:Em'.
        * rewrite (ren_mapped l' t' Em'), Rl in E. subst t'.
          apply Hl. rewrite <- (Hinj eq_refl l' l t Em' Emt). exact Hin.
        * pose proof (If l' Hin Em') as Hx. rewrite E, Rl, (Hvals l t Emt) in Hx. discriminate.
      + rewrite leqb_refl. rewrite Hg in Hg'. injection Hg' as <-. reflexivity.
    - intros b gb Hb Hh. rewrite Fg, dget_dset. destruct (leqb_spec b (ren l)) as [E|_].
      + exfalso. apply Hh. split; [exact Er|]. exists l. split; [apply in_or_app; right; left; reflexivity|].
        rewrite E, Rl; exact Emt.
      + apply Ib; [exact Hb|]. intros (Hr & o & Ho & Hm). apply Hh. split; [exact Hr|].
        exists o; split; [apply in_or_app; left; exact Ho|exact Hm].
    - intros l' Hin Hm. apply in_app_or in Hin. destruct Hin as [Hin|[<-|[]]]; [apply If; assumption|congruence].
    - intros x Hx. unfold has_gate in Hx. rewrite Fg, dmem_dset in Hx. apply orb_true_iff in Hx.
      destruct Hx as [Hx|Hx].
      + apply leqb_eq in Hx. left. rewrite Hx, Rl. eapply Hvals; eassumption.
      + destruct (Iy x Hx) as [Hb|(l' & Hin & Hm & E)]; [left; exact Hb|right].
        exists l'; split; [apply in_or_app; left; exact Hin|]. split; assumption.
    - rewrite filter_app_one, map_app. unfold blk_member at 2. rewrite Hig, Er. simpl orb; simpl andb.
      destruct (gtype_beq (gtyp g) INPUT); simpl; [rewrite app_nil_r; exact Ik|rewrite Ik; reflexivity].
    - rewrite Fo; exact Iu.
    - rewrite Fb; exact Ibl.
  Qed.

  Lemma cinv_loop order s' :
    NoDup order ->
    foldM (conn_step other mapping prefix right) order (base, mapping, []) = Ok s' -> CInvS order s'.
  Proof.
    intros Hnd. apply (foldM_prefix_inv _ CInvS order); [|exact cinv_init].
    intros done x rest s s1 E Hs H. subst order. eapply cinv_step; eassumption.
  Qed.
End Loop.

(* ------------------------------------------------------------------ *)
(* the tail *)
Lemma keep_ins_spec c2 : forall ins k,
  mapM (fun i => match dget (gates c2) i with
                 | Some g => Ok (i, gtype_beq (gtyp g) INPUT)
                 | None => Err PyKeyError end) ins = Ok k ->
  map fst (filter snd k) = filter (is_input_gate c2) ins.
Proof.
  induction ins as [|i ins IH]; simpl; intros k H; [injection H as <-; reflexivity|].
  binv H y Hy. binv H ys Hys. injection H as <-.
  unfold is_input_gate. destruct (dget (gates c2) i) as [g|]; [|discriminate]. injection Hy as <-.
  simpl. destruct (gtype_beq (gtyp g) INPUT); simpl; rewrite (IH _ Hys); reflexivity.
Qed.

Lemma is_input_gate_same_gates c c' : gates c' = gates c -> forall i, is_input_gate c' i = is_input_gate c i.
Proof. intros G i; unfold is_input_gate; rewrite G; reflexivity. Qed.

Lemma filter_ext_all {A} (p q : A -> bool) l : (forall x, p x = q x) -> filter p l = filter q l.
Proof. intros H; apply filter_ext; exact H. Qed.

Lemma set_inputs_spec c ins c' :
  set_inputs c ins = Ok c' ->
  c' = set_inputs_raw c ins.
Proof.
  unfold set_inputs; intros H. binv H u Hu. destruct (forallb _ _); [|discriminate].
  binv H acc Hacc. injection H as <-. apply set_inputs_loop_spec in Hacc; [|constructor].
  destruct Hacc as (-> & _). reflexivity.
Qed.

Lemma conn_tail_spec c other tc oc name prefix c1 o2n blk r (ren : label -> label) :
  (forall o t, dget o2n o = Some t -> t = ren o) ->
  conn_tail c other tc oc name prefix (c1, o2n, blk) = Ok r ->
  gates r = gates c1 /\
  outputs r = filter (fun o => negb (memb o tc)) (outputs c1)
              ++ map ren (filter (fun o => negb (memb o oc)) (outputs other)) /\
  inputs r = filter (is_input_gate c1) (inputs c)
             ++ map ren (filter (fun i => negb (memb i oc)) (inputs other)) /\
  (forall b b0, dget (blocks c1) b = Some b0 -> b <> name -> dget (blocks r) b = Some b0) /\
  (name <> "" -> dget (blocks r) name =
                 Some (mkBlock (map ren (inputs other)) (canonical_block_gates c1 blk) (map ren (outputs other)))) /\
  (forall b, dmem (blocks r) b = true ->
             dmem (blocks c1) b = true \/ (exists k, dmem (blocks other) k = true /\ b = (prefix ++ k)%string) \/
             (b = name /\ name <> "")).
Proof.
  intros Io H. unfold conn_tail in H; cbv beta iota in H.
  binv H new_outs Hno. binv H c2 H2. binv H keep Hk. binv H new_ins Hni. binv H c3 H3. binv H c4 H4.
  apply (map_list_ren _ ren _ _ Io) in Hno. apply (map_list_ren _ ren _ _ Io) in Hni. subst new_outs new_ins.
  unfold set_outputs in H2. binv H2 u2 Hu2. injection H2 as <-.
  apply keep_ins_spec in Hk. rewrite Hk in H3. apply set_inputs_spec in H3. subst c3.
  simpl in Hk.
  set (c3 := set_inputs_raw _ _) in H4.
  assert (P4 : gates c4 = gates c1 /\ outputs c4 = outputs c3 /\ inputs c4 = inputs c3 /\
               (forall b b0, dget (blocks c1) b = Some b0 -> dget (blocks c4) b = Some b0) /\
               (forall b, dmem (blocks c4) b = true ->
                          dmem (blocks c1) b = true \/ exists k, dmem (blocks other) k = true /\ b = (prefix ++ k)%string)).
  { revert H4. apply (foldM_ok_inv _ (fun s => gates s = gates c1 /\ outputs s = outputs c3 /\ inputs s = inputs c3 /\
               (forall b b0, dget (blocks c1) b = Some b0 -> dget (blocks s) b = Some b0) /\
               (forall b, dmem (blocks s) b = true ->
                          dmem (blocks c1) b = true \/ exists k, dmem (blocks other) k = true /\ b = (prefix ++ k)%string))).
    - intros s kb s' Hkb (A & B & C & D & D2) Hs. binv Hs u Hu. binv Hs bi Hbi. binv Hs bg Hbg. binv Hs bo Hbo.
      injection Hs as <-. simpl. split; [assumption|]. split; [assumption|]. split; [assumption|]. split.
      + intros b b0 Hb. rewrite dget_dset. destruct (leqb_spec b (prefix ++ fst kb)%string) as [E|_]; [|apply D, Hb].
        exfalso. unfold check_block_doesnt_exist in Hu. apply D in Hb. unfold dmem in Hu. rewrite <- E, Hb in Hu.
        discriminate.
      + intros b Hb. rewrite dmem_dset in Hb. apply orb_true_iff in Hb. destruct Hb as [Hb|Hb]; [|apply D2, Hb].
        apply leqb_eq in Hb. right. exists (fst kb). split; [|exact Hb].
        apply dmem_keys. apply in_map, Hkb.
    - split; [reflexivity|]. split; [reflexivity|]. split; [reflexivity|]. split; [auto|]. intros b Hb; left; exact Hb. }
  destruct P4 as (G4 & O4 & I4 & B4 & B5).
  assert (Hins : inputs c3 = filter (is_input_gate c1) (inputs c)
                              ++ map ren (filter (fun i => negb (memb i oc)) (inputs other))).
  { unfold c3; simpl. reflexivity. }
  destruct (leqb_spec name "") as [En|En]; simpl negb in H; cbv iota in H.
  - injection H as <-. split; [exact G4|]. split; [rewrite O4; reflexivity|]. split; [rewrite I4; exact Hins|].
    split; [intros b b0 Hb _; apply B4, Hb|]. split; [intros Hne; contradiction|].
    intros b Hb. destruct (B5 b Hb) as [Hc|Hc]; [left; exact Hc|right; left; exact Hc].
  - binv H bi Hbi. binv H bo Hbo. injection H as <-.
    apply (map_list_ren _ ren _ _ Io) in Hbi. apply (map_list_ren _ ren _ _ Io) in Hbo. subst bi bo.
    simpl. split; [exact G4|]. split; [rewrite O4; reflexivity|]. split; [rewrite I4; exact Hins|]. split.
    + intros b b0 Hb Hne. rewrite dget_dset. destruct (leqb_spec b name) as [E|_]; [contradiction|apply B4, Hb].
    + split; [intros _; rewrite dget_dset_same; unfold canonical_block_gates; rewrite G4; reflexivity|].
      intros b Hb. rewrite dmem_dset in Hb. apply orb_true_iff in Hb. destruct Hb as [Hb|Hb].
      * apply leqb_eq in Hb. right; right. split; assumption.
      * destruct (B5 b Hb) as [Hc|Hc]; [left; exact Hc|right; left; exact Hc].
Qed.

(* ------------------------------------------------------------------ *)
(* the structure theorem *)
Record ConnSpec (base other : circuit) (tc oc : list label) (right : bool) (name : label) (prefix : string)
       (r : circuit) : Prop := mkConnSpec {
  cs_copy : forall l g, dget (gates other) l = Some g -> copied tc oc right l ->
      dget (gates r) (ren_of (build_mapping oc tc []) prefix l)
      = Some (mkGate (gtyp g) (map (ren_of (build_mapping oc tc []) prefix) (gops g)));
  cs_base : forall b g, dget (gates base) b = Some g ->
      ~ (right = true /\ exists o, dget (build_mapping oc tc []) o = Some b) ->
      dget (gates r) b = Some g;
  cs_fresh : forall l, has_gate other l = true -> dget (build_mapping oc tc []) l = None ->
      has_gate base (ren_of (build_mapping oc tc []) prefix l) = false;
  cs_only : forall x, has_gate r x = true ->
      has_gate base x = true \/
      exists l, has_gate other l = true /\ dget (build_mapping oc tc []) l = None /\
                x = ren_of (build_mapping oc tc []) prefix l;
  cs_outputs : outputs r = filter (fun o => negb (memb o tc)) (outputs base)
      ++ map (ren_of (build_mapping oc tc []) prefix) (filter (fun o => negb (memb o oc)) (outputs other));
  cs_inputs : inputs r = filter (is_input_gate r) (inputs base)
      ++ map (ren_of (build_mapping oc tc []) prefix) (filter (fun i => negb (memb i oc)) (inputs other));
  cs_blocks : forall b b0, dget (blocks base) b = Some b0 -> dget (blocks r) b = Some b0;
  cs_block : name <> "" -> exists bg,
      dget (blocks r) name = Some (mkBlock (map (ren_of (build_mapping oc tc []) prefix) (inputs other)) bg
                                           (map (ren_of (build_mapping oc tc []) prefix) (outputs other))) /\
      forall x, In x bg <-> exists l g, dget (gates other) l = Some g /\ gtyp g <> INPUT /\
                                        copied tc oc right l /\
                                        x = ren_of (build_mapping oc tc []) prefix l;
  cs_blocks_only : forall b, dmem (blocks r) b = true ->
      dmem (blocks base) b = true \/ (exists k, dmem (blocks other) k = true /\ b = (prefix ++ k)%string) \/
      (b = name /\ name <> "");
  (* facts about the arguments that the checks of connect_circuit establish *)
  cs_tc : forall t, In t tc -> has_gate base t = true;
  cs_oc : forall o, In o oc -> has_gate other o = true;
  cs_len : length tc = length oc;
  cs_left : right = false -> NoDup oc /\ forall o, In o oc -> is_input_gate other o = true;
  cs_right : right = true -> NoDup tc /\ forall t, In t tc -> is_input_gate base t = true }.

Lemma forallb_In {A} (p : A -> bool) l : forallb p l = true -> forall x, In x l -> p x = true.
Proof. intros H; apply forallb_forall; exact H. Qed.

Theorem connect_circuit_spec base other tc oc right name ap r :
  WF other ->
  connect_circuit base other tc oc right name ap = Ok r ->
  ConnSpec base other tc oc right name (conn_prefix name ap) r.
Proof.
  intros Wo H. rewrite connect_circuit_unfold in H.
  binv H u0 H0. binv H u1 H1. binv H u2 H2. binv H u3 H3. binv H u4 H4. binv H u5 H5.
  binv H order Hord. binv H fin Hst. destruct fin as [[c1 o2n] blk].
  set (prefix := conn_prefix name ap) in *. set (mapping := build_mapping oc tc []) in *.
  pose proof (check_gates_exist_unit _ _ _ H1) as Htc.
  pose proof (check_gates_exist_unit _ _ _ H2) as Hoc.
  assert (Hlen : length tc = length oc).
  { destruct (Nat.eqb (length tc) (length oc)) eqn:E; [apply Nat.eqb_eq, E|discriminate]. }
  assert (Hvals : forall o t, dget mapping o = Some t -> has_gate base t = true).
  { intros o t Ho. apply Htc. eapply bm_nil_vals; exact Ho. }
  assert (Hinj : right = true -> minj mapping).
  { intros ->. destruct (nodupb tc) eqn:E; [|discriminate]. apply bm_nil_inj, nodupb_NoDup, E. }
  pose proof (top_sort_nodup other true order Wo Hord) as Hnd.
  pose proof (top_sort_perm other true order Wo Hord) as Hperm.
  assert (Hin_order : forall l, has_gate other l = true <-> In l order).
  { intros l. rewrite has_gate_key. split; intros Hl.
    - eapply Permutation_in; [apply Permutation_sym, Hperm|exact Hl].
    - eapply Permutation_in; [exact Hperm|exact Hl]. }
  pose proof (cinv_loop base other tc oc right prefix Hvals Hinj order _ Hnd Hst) as CI.
  simpl in CI. destruct CI as [Io Im Ic Ib If Iy Ik Iu Ibl].
  fold mapping in Io, Ic, Ib, If, Iy, Ik.
  destruct (conn_tail_spec _ _ _ _ _ _ _ _ _ _ _ Io H) as (Tg & To & Ti & Tb & Tn & Tbo).
  assert (Hname : dmem (blocks base) name = false).
  { unfold check_block_doesnt_exist in H0. destruct (dmem (blocks base) name); [discriminate|reflexivity]. }
  constructor.
  - intros l g Hg Hcp. rewrite Tg. eapply Ic; [|exact Hg|exact Hcp].
    apply Hin_order. eapply get_has_gate; exact Hg.
  - intros b g Hb Hh. rewrite Tg. apply Ib; [exact Hb|]. intros (Hr & o & _ & Ho). apply Hh.
    split; [exact Hr|exists o; exact Ho].
  - intros l Hl Hm. apply If; [apply Hin_order, Hl|exact Hm].
  - intros x Hx. unfold has_gate in Hx. rewrite Tg in Hx. destruct (Iy x Hx) as [Hb|(l & Hl & Hm & E)]; [left; exact Hb|].
    right. exists l. split; [apply Hin_order, Hl|]. split; assumption.
  - rewrite To, Iu. reflexivity.
  - rewrite Ti. f_equal. apply filter_ext_all. intros i. symmetry. apply is_input_gate_same_gates, Tg.
  - intros b b0 Hb. apply Tb; [rewrite Ibl; exact Hb|]. intros ->. unfold dmem in Hname. rewrite Hb in Hname.
    discriminate.
  - intros Hne. eexists; split; [apply Tn, Hne|]. intros x. unfold canonical_block_gates. rewrite filter_In.
    rewrite memb_In, Ik, in_map_iff. split.
    + intros (_ & l & <- & Hl). apply filter_In in Hl. destruct Hl as [Hl Hm].
      apply Hin_order in Hl. destruct (has_gate_get _ _ Hl) as [g Hg].
      unfold blk_member in Hm. apply andb_true_iff in Hm. destruct Hm as [Hm1 Hm2].
      exists l, g. split; [exact Hg|]. split.
      * unfold is_input_gate in Hm2. rewrite Hg in Hm2. intros E. rewrite E in Hm2. discriminate.
      * split; [|reflexivity]. unfold copied. destruct right; [left; reflexivity|right].
        simpl in Hm1. apply negb_true_iff in Hm1. apply dmem_false_iff, Hm1.
    + intros (l & g & Hg & Ht & Hcp & ->).
      assert (Hl : In l order) by (apply Hin_order; eapply get_has_gate; exact Hg).
      split.
      * apply dmem_keys. change (has_gate c1 (ren_of mapping prefix l) = true).
        eapply get_has_gate. eapply Ic; eassumption.
      * exists l; split; [reflexivity|]. apply filter_In. split; [exact Hl|].
        unfold blk_member. apply andb_true_iff; split.
        -- destruct Hcp as [->|Hcp]; [reflexivity|]. apply dmem_false_iff in Hcp. rewrite Hcp. apply orb_true_r.
        -- unfold is_input_gate. rewrite Hg. apply negb_true_iff.
           destruct (gtype_beq (gtyp g) INPUT) eqn:E; [apply gtype_beq_eq in E; contradiction|reflexivity].
  - intros b Hb. destruct (Tbo b Hb) as [Hc|Hc]; [left; rewrite <- Ibl; exact Hc|right; exact Hc].
  - exact Htc.
  - exact Hoc.
  - exact Hlen.
  - intros ->. destruct (nodupb oc) eqn:E; [|discriminate]. split; [apply nodupb_NoDup, E|].
    destruct (forallb (is_input_gate other) oc) eqn:E2; [|discriminate]. apply forallb_In, E2.
  - intros ->. destruct (nodupb tc) eqn:E; [|discriminate]. split; [apply nodupb_NoDup, E|].
    destruct (forallb (is_input_gate base) tc) eqn:E2; [|discriminate]. apply forallb_In, E2.
Qed.
