(* T16 tie, part 2: the regenerated dictionary reader / writer (Generated/CodecAlgGen.v, from
   cirbo/circuits_db/binary_dict_io.py) against the hand model Model/DictIO.v.
   A stream that is read is the list of bytes not yet read; a stream that is written is the list of bytes
   written so far.  Side conditions: lengths / numbers handed to the helpers are natural numbers. *)
Require Import Cirbo.Model.Base Cirbo.Model.BitIO Cirbo.Model.DictIO.
Require Import Cirbo.Generated.CodecTables Cirbo.Generated.CodecAlgGen.

Lemma gen_dict_constants_eq :
  gen_DICT_SIZE_BYTE_SIZE = Z.of_nat DICT_SIZE_BYTE_SIZE /\
  gen_DICT_KEY_BYTE_SIZE = Z.of_nat DICT_KEY_BYTE_SIZE /\
  gen_DICT_VALUE_BYTE_SIZE = Z.of_nat DICT_VALUE_BYTE_SIZE.
Proof. repeat split; reflexivity. Qed.

Lemma take_bytes_firstn_skipn n : forall s,
  take_bytes n s = if (n <=? length s)%nat then Some (firstn n s, skipn n s) else None.
Proof.
  induction n as [|n IH]; intros s; [reflexivity|].
  destruct s as [|x r]; [reflexivity|].
  cbn [take_bytes length firstn skipn]. rewrite IH.
  change (S n <=? S (length r))%nat with (n <=? length r)%nat.
  destruct (n <=? length r)%nat; reflexivity.
Qed.

Lemma gen__read_exact_number_of_bytes_eq s n :
  gen__read_exact_number_of_bytes s (Z.of_nat n) = read_exact n s.
Proof.
  unfold gen__read_exact_number_of_bytes, py_stream_read, read_exact, py_len.
  assert (Hneg : (Z.of_nat n <? 0)%Z = false) by (apply Z.ltb_ge; lia).
  rewrite Hneg, Nat2Z.id, take_bytes_firstn_skipn.
  destruct (Nat.leb_spec n (length s)) as [Hle|Hgt].
  - rewrite firstn_length, Nat.min_l by exact Hle. rewrite Z.eqb_refl. reflexivity.
  - rewrite firstn_length, Nat.min_r by lia.
    destruct (Z.eqb_spec (Z.of_nat (length s)) (Z.of_nat n)) as [He|Hne]; [lia|reflexivity].
Qed.

Lemma gen__read_unsigned_number_eq s n :
  gen__read_unsigned_number s (Z.of_nat n) = do r <- read_unsigned n s; Ok (Z.of_N (fst r), snd r).
Proof.
  unfold gen__read_unsigned_number, read_unsigned, py_int_from_bytes_big.
  rewrite gen__read_exact_number_of_bytes_eq.
  destruct (read_exact n s) as [[a b]|e]; reflexivity.
Qed.

Lemma py_int_to_bytes_big_eq x n : py_int_to_bytes_big (Z.of_N x) (Z.of_nat n) = to_bytes x n.
Proof.
  unfold py_int_to_bytes_big.
  assert (H1 : (Z.of_nat n <? 0)%Z = false) by (apply Z.ltb_ge; lia).
  assert (H2 : (Z.of_N x <? 0)%Z = false) by (apply Z.ltb_ge; lia).
  rewrite H1, H2, N2Z.id, Nat2Z.id. reflexivity.
Qed.

Lemma gen__write_unsigned_number_eq s x n :
  gen__write_unsigned_number s (Z.of_N x) (Z.of_nat n) = do b <- to_bytes x n; Ok (s ++ b).
Proof.
  unfold gen__write_unsigned_number, py_stream_write. rewrite py_int_to_bytes_big_eq. reflexivity.
Qed.

Lemma gen__expect_eof_eq s : gen__expect_eof s = do _ <- expect_eof s; Ok [].
Proof. destruct s as [|x r]; reflexivity. Qed.

(* the loop of the reader: the body ignores the loop variable *)
Definition gen_read_body : bytes * dict bytes -> Z -> res (bytes * dict bytes) :=
  fun '((v_stream, v_data) : bytes * (dict bytes)) (v_i : Z) =>
    do (v_key_len, v_stream) <- gen__read_unsigned_number v_stream gen_DICT_KEY_BYTE_SIZE;
    do (v_key_bytes, v_stream) <- gen__read_exact_number_of_bytes v_stream v_key_len;
    do t1 <- utf8_decode v_key_bytes;
    let v_key := t1 in
    do (v_val_len, v_stream) <- gen__read_unsigned_number v_stream gen_DICT_VALUE_BYTE_SIZE;
    do (v_val, v_stream) <- gen__read_exact_number_of_bytes v_stream v_val_len;
    let v_data := dset v_data v_key v_val in
    Ok (v_stream, v_data).

Lemma gen_read_loop_eq (l : list Z) : forall s acc,
  foldM gen_read_body l (s, acc) = do r <- read_entries (length l) s acc; Ok (snd r, fst r).
Proof.
  induction l as [|i l IH]; intros s acc; [reflexivity|].
  cbn [foldM length read_entries]. unfold gen_read_body at 1.
  change gen_DICT_KEY_BYTE_SIZE with (Z.of_nat DICT_KEY_BYTE_SIZE).
  change gen_DICT_VALUE_BYTE_SIZE with (Z.of_nat DICT_VALUE_BYTE_SIZE).
  rewrite gen__read_unsigned_number_eq.
  destruct (read_unsigned DICT_KEY_BYTE_SIZE s) as [[kl s1]|e]; [|reflexivity].
  cbn [bind fst snd].
  rewrite <- (N_nat_Z kl), gen__read_exact_number_of_bytes_eq.
  destruct (read_exact (N.to_nat kl) s1) as [[kb s2]|e]; [|reflexivity].
  cbn [bind fst snd].
  destruct (utf8_decode kb) as [key|e]; [|reflexivity].
  cbn [bind fst snd].
  rewrite gen__read_unsigned_number_eq.
  destruct (read_unsigned DICT_VALUE_BYTE_SIZE s2) as [[vl s3]|e]; [|reflexivity].
  cbn [bind fst snd].
  rewrite <- (N_nat_Z vl), gen__read_exact_number_of_bytes_eq.
  destruct (read_exact (N.to_nat vl) s3) as [[vb s4]|e]; [|reflexivity].
  cbn [bind fst snd].
  apply IH.
Qed.

Lemma py_range_0_length (sz : N) : length (py_range 0 (Z.of_N sz)) = N.to_nat sz.
Proof.
  unfold py_range. rewrite map_length, seq_length, Z.sub_0_r. rewrite <- Z_N_nat, N2Z.id. reflexivity.
Qed.

(* for every byte stream: same dictionary, same error; the stream is left empty *)
Lemma gen_read_binary_dict_eq s : gen_read_binary_dict s = do d <- read_binary_dict s; Ok (d, []).
Proof.
  unfold gen_read_binary_dict, read_binary_dict.
  change gen_DICT_SIZE_BYTE_SIZE with (Z.of_nat DICT_SIZE_BYTE_SIZE).
  rewrite gen__read_unsigned_number_eq.
  destruct (read_unsigned DICT_SIZE_BYTE_SIZE s) as [[sz s1]|e]; [|reflexivity].
  cbn [bind fst snd].
  fold gen_read_body.
  rewrite gen_read_loop_eq, py_range_0_length.
  destruct (read_entries (N.to_nat sz) s1 []) as [[d s2]|e]; [|reflexivity].
  cbn [bind fst snd].
  rewrite gen__expect_eof_eq.
  destruct (expect_eof s2) as [[]|e]; reflexivity.
Qed.

(* the loop of the writer *)
Definition gen_write_body : bytes -> label * bytes -> res bytes :=
  fun (v_stream : bytes) '((v_key, v_val) : label * bytes) =>
    let v_key_bytes := list_ascii_of_string v_key in
    do v_stream <- gen__write_unsigned_number v_stream (py_len v_key_bytes) gen_DICT_KEY_BYTE_SIZE;
    let v_stream := py_stream_write v_stream v_key_bytes in
    do v_stream <- gen__write_unsigned_number v_stream (py_len v_val) gen_DICT_VALUE_BYTE_SIZE;
    let v_stream := py_stream_write v_stream v_val in
    Ok v_stream.

Lemma py_len_of_N {A} (l : list A) : py_len l = Z.of_N (N.of_nat (length l)).
Proof. unfold py_len. symmetry. apply nat_N_Z. Qed.

Lemma gen_write_loop_eq (d : dict bytes) : forall s,
  foldM gen_write_body d s = do es <- mapM write_entry d; Ok (s ++ concat es).
Proof.
  induction d as [|[k v] d IH]; intros s.
  - cbn. rewrite app_nil_r. reflexivity.
  - cbn [foldM mapM]. unfold gen_write_body at 1, write_entry at 1, py_stream_write.
    cbn [fst snd].
    change gen_DICT_KEY_BYTE_SIZE with (Z.of_nat DICT_KEY_BYTE_SIZE).
    change gen_DICT_VALUE_BYTE_SIZE with (Z.of_nat DICT_VALUE_BYTE_SIZE).
    rewrite !py_len_of_N, gen__write_unsigned_number_eq.
    destruct (to_bytes (N.of_nat (length (list_ascii_of_string k))) DICT_KEY_BYTE_SIZE) as [kl|e];
      [|reflexivity].
    cbn [bind].
    rewrite gen__write_unsigned_number_eq.
    destruct (to_bytes (N.of_nat (length v)) DICT_VALUE_BYTE_SIZE) as [vl|e]; [|reflexivity].
    cbn [bind].
    rewrite IH.
    destruct (mapM write_entry d) as [es|e]; [|reflexivity].
    cbn [bind concat]. rewrite <- !app_assoc. reflexivity.
Qed.

(* for every dictionary and every prefix already written *)
Lemma gen_write_binary_dict_eq d s : gen_write_binary_dict d s = do b <- write_binary_dict d; Ok (s ++ b).
Proof.
  unfold gen_write_binary_dict, write_binary_dict.
  change gen_DICT_SIZE_BYTE_SIZE with (Z.of_nat DICT_SIZE_BYTE_SIZE).
  rewrite py_len_of_N, gen__write_unsigned_number_eq.
  destruct (to_bytes (N.of_nat (length d)) DICT_SIZE_BYTE_SIZE) as [h|e]; [|reflexivity].
  cbn [bind].
  fold gen_write_body.
  rewrite gen_write_loop_eq.
  destruct (mapM write_entry d) as [es|e]; [|reflexivity].
  cbn [bind]. rewrite app_assoc. reflexivity.
Qed.
