(* Gadgets of generation.py and the equality comparator. *)
Require Import Cirbo.Model.Base Cirbo.Model.Gate Cirbo.Model.Den Cirbo.Model.Circuit
  Cirbo.Model.Eval Cirbo.Model.Sem Cirbo.Model.Builder Cirbo.Model.ArithMisc.
Require Import Cirbo.Proofs.DictFacts Cirbo.Proofs.BuilderFacts Cirbo.Proofs.ArithFacts.
Open Scope Z_scope.

(* ---- small inversions -------------------------------------------------------------------- *)
Lemma fresh_bind fresh restr {B} (k : label -> prog B) s r s' :
  run fresh (Bind (Fresh restr) k) s = Ok (r, s') ->
  exists l s1, run fresh (k l) s1 = Ok (r, s') /\ bc s1 = bc s /\ has_gate (bc s) l = false /\ ~ In l restr.
Proof.
  intros H. apply run_bind_inv in H as (l & s1 & H1 & H). exists l, s1.
  apply run_fresh_inv in H1 as (E & Hl & Hr & _). auto.
Qed.

Lemma fresh_n_inv fresh n : forall s ls s',
  run fresh (fresh_n n) s = Ok (ls, s') -> bc s' = bc s /\ length ls = n.
Proof.
  induction n as [|n IH]; intros s ls s' H; cbn [fresh_n] in H.
  - apply run_ret_inv in H as (-> & ->). auto.
  - apply fresh_bind in H as (l & s1 & H & E1 & _).
    apply run_bind_inv in H as (ls1 & s2 & H2 & H). apply run_ret_inv in H as (-> & ->).
    apply IH in H2 as (E2 & L). split; [congruence|simpl; congruence].
Qed.

Lemma fresh_list_inv fresh n : forall restr s ls s',
  run fresh (fresh_list n restr) s = Ok (ls, s') -> bc s' = bc s /\ length ls = n.
Proof.
  induction n as [|n IH]; intros restr s ls s' H; cbn [fresh_list] in H.
  - apply run_ret_inv in H as (-> & ->). auto.
  - apply fresh_bind in H as (l & s1 & H & E1 & _).
    apply run_bind_inv in H as (ls1 & s2 & H2 & H). apply run_ret_inv in H as (-> & ->).
    apply IH in H2 as (E2 & L). split; [congruence|simpl; congruence].
Qed.

Lemma mark_inv fresh l s u s' :
  run fresh (MarkOutput l) s = Ok (u, s') ->
  ext (bc s) (bc s') /\ outputs (bc s') = outputs (bc s) ++ [l].
Proof.
  intros H. pose proof (run_ext _ _ _ _ _ H) as Hx. apply run_markoutput_inv in H as (H & _).
  apply mark_as_output_inv in H as (_ & _ & _ & O & _). auto.
Qed.

Lemma when_mark_inv fresh b l s u s' :
  run fresh (when b (MarkOutput l)) s = Ok (u, s') ->
  ext (bc s) (bc s') /\ outputs (bc s') = outputs (bc s) ++ (if b then [l] else []).
Proof.
  destruct b; simpl when; [apply mark_inv|].
  intros H. apply run_ret_inv in H as (_ & ->). rewrite app_nil_r. split; [apply ext_refl|reflexivity].
Qed.

Lemma iter_mark_inv fresh ls : forall s u s',
  run fresh (iterP MarkOutput ls) s = Ok (u, s') ->
  ext (bc s) (bc s') /\ outputs (bc s') = outputs (bc s) ++ ls.
Proof.
  induction ls as [|l ls IH]; intros s u s' H; cbn [iterP] in H.
  - apply run_ret_inv in H as (_ & ->). rewrite app_nil_r. split; [apply ext_refl|reflexivity].
  - apply run_bind_inv in H as ([] & s1 & H1 & H). apply mark_inv in H1 as (Hx1 & O1).
    apply IH in H as (Hx2 & O2). split; [eapply ext_trans; eassumption|].
    rewrite O2, O1, <- app_assoc. reflexivity.
Qed.

Lemma has_g_val c l t ops a bs b :
  has_g c l t ops -> t <> INPUT -> bvals c a ops bs -> den t bs = Some b -> bval c a l b.
Proof. intros; eapply bval_gate; eassumption. Qed.

(* ---- add_if_then_else ------------------------------------------------------------------- *)
Lemma add_if_then_else_spec fresh i t e res ao s r s' :
  run fresh (add_if_then_else i t e res ao) s = Ok (r, s') ->
  ext (bc s) (bc s') /\ outputs (bc s') = outputs (bc s) ++ (if ao then [r] else []) /\
  (forall r0, res = Some r0 -> r = r0) /\ has_gate (bc s) r = false /\
  forall c, ext (bc s') c -> forall asg iv tv ev,
    bval c asg i iv -> bval c asg t tv -> bval c asg e ev -> bval c asg r (if iv then tv else ev).
Proof.
  intros H. pose proof (run_ext _ _ _ _ _ H) as Hx. unfold add_if_then_else in H.
  apply run_bind_inv in H as (rl & s0 & Hrl & H).
  assert (bc s0 = bc s /\ forall r0, res = Some r0 -> rl = r0) as (E0 & Hres).
  { destruct res as [r0|].
    - apply run_ret_inv in Hrl as (-> & ->). split; [reflexivity|]. intros ? [= <-]; reflexivity.
    - apply run_fresh_inv in Hrl as (E & _). split; [exact E|discriminate]. }
  apply run_bind_inv in H as (tmp & s1 & Htmp & H). apply fresh_list_inv in Htmp as (E1 & Ltmp).
  destruct tmp as [|t0 [|t1 [|t2 [|]]]]; try discriminate.
  apply addgate_bind in H as (s2 & H & Hx2 & G0 & N0 & _ & O2).
  apply addgate_bind in H as (s3 & H & Hx3 & G1 & N1 & _ & O3).
  apply addgate_bind in H as (s4 & H & Hx4 & G2 & N2 & _ & O4).
  apply addgate_bind in H as (s5 & H & Hx5 & G3 & N3 & Hfr & O5).
  apply run_bind_inv in H as ([] & s6 & Hm & H). apply run_ret_inv in H as (-> & ->).
  apply when_mark_inv in Hm as (Hx6 & O6).
  split; [exact Hx|]. split; [rewrite O6; congruence|]. split; [exact Hres|].
  split.
  { (* the result label is new *)
    destruct (has_gate (bc s) rl) eqn:Hh; [|reflexivity].
    rewrite <- E0, <- E1 in Hh.
    assert (ext (bc s1) (bc s4)) as Hx14 by (eapply ext_trans; [eapply ext_trans|]; eassumption).
    rewrite (ext_has_gate _ _ _ Hx14 Hh) in Hfr. discriminate. }
  intros c Hc asg iv tv ev Vi Vt Ve. to_final c.
  assert (bval c asg t0 (iv && tv)) as V0.
  { eapply has_g_val; [exact G0|exact N0|constructor; [exact Vi|constructor; [exact Vt|constructor]]|reflexivity]. }
  assert (bval c asg t1 (negb iv)) as V1.
  { eapply has_g_val; [exact G1|exact N1|constructor; [exact Vi|constructor]|reflexivity]. }
  assert (bval c asg t2 (negb iv && ev)) as V2.
  { eapply has_g_val; [exact G2|exact N2|constructor; [exact V1|constructor; [exact Ve|constructor]]|reflexivity]. }
  assert (bval c asg rl ((iv && tv) || (negb iv && ev))) as V3.
  { eapply has_g_val; [exact G3|exact N3|constructor; [exact V0|constructor; [exact V2|constructor]]|reflexivity]. }
  destruct iv, tv, ev; exact V3.
Qed.

(* ---- pairwise gadgets -------------------------------------------------------------------- *)
Fixpoint map2 {A B C} (f : A -> B -> C) (l1 : list A) (l2 : list B) : list C :=
  match l1, l2 with
  | x :: r1, y :: r2 => f x y :: map2 f r1 r2
  | _, _ => []
  end.

Fixpoint map3 {A B C D} (f : A -> B -> C -> D) (l1 : list A) (l2 : list B) (l3 : list C) : list D :=
  match l1, l2, l3 with
  | x :: r1, y :: r2, z :: r3 => f x y z :: map3 f r1 r2 r3
  | _, _, _ => []
  end.

Lemma xor_loop_spec fresh ao xs : forall ys rs s u s',
  length ys = length xs -> length rs = length xs ->
  run fresh (xor_loop xs ys rs ao) s = Ok (u, s') ->
  outputs (bc s') = outputs (bc s) ++ (if ao then rs else []) /\
  forall c, ext (bc s') c -> forall asg xv yv,
    bvals c asg xs xv -> bvals c asg ys yv -> bvals c asg rs (map2 xorb xv yv).
Proof.
  induction xs as [|x xs IH]; intros ys rs s u s' Ly Lr H;
    destruct ys as [|y ys]; try discriminate; destruct rs as [|r rs]; try discriminate.
  - apply run_ret_inv in H as (_ & ->). split; [destruct ao; rewrite app_nil_r; reflexivity|].
    intros c _ asg xv yv Hx Hy. inversion Hx; subst. constructor.
  - cbn [xor_loop] in H.
    apply addgate_bind in H as (s1 & H & Hx1 & G & N & _ & O1).
    apply run_bind_inv in H as ([] & s2 & Hm & H). apply when_mark_inv in Hm as (Hx2 & O2).
    pose proof (run_ext _ _ _ _ _ H) as Hx3.
    apply IH in H as (O3 & V); [|simpl in *; lia|simpl in *; lia].
    split.
    + rewrite O3, O2, O1. destruct ao; rewrite <- ?app_assoc; reflexivity.
    + intros c Hc asg xv yv Hxv Hyv.
      inversion Hxv as [|? xv0 ? xv' Vx Hxv']; subst. inversion Hyv as [|? yv0 ? yv' Vy Hyv']; subst.
      cbn [map2]. constructor; [|apply V; assumption].
      to_final c.
      eapply has_g_val; [exact G|exact N|constructor; [exact Vx|constructor; [exact Vy|constructor]]|reflexivity].
Qed.

Theorem add_pairwise_xor_correct fresh xs ys res ao s r s' :
  run fresh (add_pairwise_xor xs ys res ao) s = Ok (r, s') ->
  ext (bc s) (bc s') /\ inputs (bc s') = inputs (bc s) /\
  outputs (bc s') = outputs (bc s) ++ (if ao then r else []) /\
  (forall r0, res = Some r0 -> r = r0) /\ length r = length xs /\ length ys = length xs /\
  forall asg xv yv, bvals (bc s) asg xs xv -> bvals (bc s) asg ys yv ->
    bvals (bc s') asg r (map2 xorb xv yv).
Proof.
  intros H. pose proof (run_ext _ _ _ _ _ H) as Hx. unfold add_pairwise_xor in H.
  destruct (length xs =? length ys)%nat eqn:E1; [|discriminate]. apply Nat.eqb_eq in E1.
  cbn [negb] in H.
  apply run_bind_inv in H as (rl & s0 & Hrl & H).
  assert (bc s0 = bc s /\ forall r0, res = Some r0 -> rl = r0) as (E0 & Hres).
  { destruct res as [r0|].
    - apply run_ret_inv in Hrl as (-> & ->). split; [reflexivity|]. intros ? [= <-]; reflexivity.
    - apply fresh_n_inv in Hrl as (E & _). split; [exact E|discriminate]. }
  destruct (length rl =? length xs)%nat eqn:E2; [|discriminate]. apply Nat.eqb_eq in E2.
  cbn [negb] in H.
  apply run_bind_inv in H as ([] & s1 & Hl & H). apply run_ret_inv in H as (-> & ->).
  apply xor_loop_spec in Hl as (O & V); [|lia|lia].
  rewrite E0 in O.
  repeat split; auto; try lia. { apply ext_inputs, Hx. }
  intros asg xv yv Hxv Hyv. apply V; [apply ext_refl|eapply bvals_ext; eassumption|eapply bvals_ext; eassumption].
Qed.

Lemma ite_loop_spec fresh ao is_ : forall ts es rs s u s',
  length ts = length is_ -> length es = length is_ -> length rs = length is_ ->
  run fresh (ite_loop is_ ts es rs ao) s = Ok (u, s') ->
  outputs (bc s') = outputs (bc s) ++ (if ao then rs else []) /\
  forall c, ext (bc s') c -> forall asg iv tv ev,
    bvals c asg is_ iv -> bvals c asg ts tv -> bvals c asg es ev ->
    bvals c asg rs (map3 (fun i t e : bool => if i then t else e) iv tv ev).
Proof.
  induction is_ as [|i is_ IH]; intros ts es rs s u s' Lt Le Lr H;
    destruct ts as [|t ts]; try discriminate; destruct es as [|e es]; try discriminate;
    destruct rs as [|r rs]; try discriminate.
  - apply run_ret_inv in H as (_ & ->). split; [destruct ao; rewrite app_nil_r; reflexivity|].
    intros c _ asg iv tv ev Hi Ht He. inversion Hi; subst. constructor.
  - cbn [ite_loop] in H.
    apply run_bind_inv in H as (r' & s1 & H1 & H).
    pose proof (run_ext _ _ _ _ _ H) as Hx2.
    apply add_if_then_else_spec in H1 as (Hx1 & O1 & Hr & _ & V1).
    rewrite (Hr r eq_refl) in *.
    apply IH in H as (O2 & V); [|simpl in *; lia|simpl in *; lia|simpl in *; lia].
    split.
    + rewrite O2, O1. destruct ao; rewrite <- ?app_assoc; reflexivity.
    + intros c Hc asg iv tv ev Hi Ht He.
      inversion Hi as [|? iv0 ? iv' Vi Hi']; subst. inversion Ht as [|? tv0 ? tv' Vt Ht']; subst.
      inversion He as [|? ev0 ? ev' Ve He']; subst.
      cbn [map3]. constructor; [|apply V; assumption].
      apply V1; [eapply ext_trans; eassumption|assumption|assumption|assumption].
Qed.

Theorem add_pairwise_if_then_else_correct fresh is_ ts es res ao s r s' :
  run fresh (add_pairwise_if_then_else is_ ts es res ao) s = Ok (r, s') ->
  ext (bc s) (bc s') /\ inputs (bc s') = inputs (bc s) /\
  outputs (bc s') = outputs (bc s) ++ (if ao then r else []) /\
  (forall r0, res = Some r0 -> r = r0) /\ length r = length is_ /\
  length ts = length is_ /\ length es = length is_ /\
  forall asg iv tv ev, bvals (bc s) asg is_ iv -> bvals (bc s) asg ts tv -> bvals (bc s) asg es ev ->
    bvals (bc s') asg r (map3 (fun i t e : bool => if i then t else e) iv tv ev).
Proof.
  intros H. pose proof (run_ext _ _ _ _ _ H) as Hx. unfold add_pairwise_if_then_else in H.
  destruct ((length is_ =? length ts)%nat && (length ts =? length es)%nat) eqn:E1; [|discriminate].
  apply andb_true_iff in E1 as (E1 & E1'). apply Nat.eqb_eq in E1. apply Nat.eqb_eq in E1'.
  cbn [negb] in H.
  apply run_bind_inv in H as (rl & s0 & Hrl & H).
  assert (bc s0 = bc s /\ forall r0, res = Some r0 -> rl = r0) as (E0 & Hres).
  { destruct res as [r0|].
    - apply run_ret_inv in Hrl as (-> & ->). split; [reflexivity|]. intros ? [= <-]; reflexivity.
    - apply fresh_n_inv in Hrl as (E & _). split; [exact E|discriminate]. }
  destruct (length rl =? length is_)%nat eqn:E2; [|discriminate]. apply Nat.eqb_eq in E2.
  cbn [negb] in H.
  apply run_bind_inv in H as ([] & s1 & Hl & H). apply run_ret_inv in H as (-> & ->).
  apply ite_loop_spec in Hl as (O & V); [|lia|lia|lia].
  rewrite E0 in O.
  repeat split; auto; try lia. { apply ext_inputs, Hx. }
  intros asg iv tv ev Hi Ht He.
  apply V; [apply ext_refl|eapply bvals_ext; eassumption|eapply bvals_ext; eassumption|eapply bvals_ext; eassumption].
Qed.

Theorem add_if_then_else_correct fresh i t e res ao s r s' :
  run fresh (add_if_then_else i t e res ao) s = Ok (r, s') ->
  ext (bc s) (bc s') /\ inputs (bc s') = inputs (bc s) /\
  outputs (bc s') = outputs (bc s) ++ (if ao then [r] else []) /\
  (forall r0, res = Some r0 -> r = r0) /\ has_gate (bc s) r = false /\
  forall asg iv tv ev, bval (bc s) asg i iv -> bval (bc s) asg t tv -> bval (bc s) asg e ev ->
    bval (bc s') asg r (if iv then tv else ev).
Proof.
  intros H. apply add_if_then_else_spec in H as (Hx & O & Hr & Hf & V).
  repeat split; auto. { apply ext_inputs, Hx. }
  intros asg iv tv ev Vi Vt Ve. apply V; [apply ext_refl| | |]; eapply bval_ext; eassumption.
Qed.

(* ---- add_plus_one ---------------------------------------------------------------------------- *)
Lemma when_addgate_bind fresh b l t ops {B} (k : unit -> prog B) s r s' :
  run fresh (Bind (when b (AddGate l t ops)) k) s = Ok (r, s') ->
  exists s1, run fresh (k tt) s1 = Ok (r, s') /\ ext (bc s) (bc s1) /\
             (b = true -> has_g (bc s1) l t ops /\ t <> INPUT) /\ outputs (bc s1) = outputs (bc s).
Proof.
  destruct b; simpl when; intros H.
  - apply addgate_bind in H as (s1 & H & Hx & G & N & _ & O). exists s1. auto.
  - apply run_bind_inv in H as ([] & s1 & H1 & H). apply run_ret_inv in H1 as (_ & ->).
    exists s. repeat split; auto; [apply ext_refl|discriminate|discriminate].
Qed.

Lemma half_mod a b k : 0 <= a <= 1 -> a + 2 * (b mod 2 ^ Z.of_nat k) = (a + 2 * b) mod 2 ^ Z.of_nat (S k).
Proof.
  intros Ha. pose proof (pow2_pos k) as Hp.
  pose proof (Z.mod_pos_bound b (2 ^ Z.of_nat k) Hp) as Hr.
  symmetry. apply mod_unique_range with (q := b / 2 ^ Z.of_nat k).
  - rewrite pow2_succ. lia.
  - rewrite pow2_succ. pose proof (Z.div_mod b (2 ^ Z.of_nat k)). lia.
Qed.

Lemma plus_loop_spec fresh res : forall inp car pc at_len s u s',
  run fresh (plus_loop inp res car pc at_len) s = Ok (u, s') ->
  outputs (bc s') = outputs (bc s) /\
  forall c, ext (bc s') c -> forall asg inpv pcv,
    bvals c asg inp inpv ->
    (res <> [] -> inp <> [] \/ at_len = true -> bval c asg pc pcv) ->
    exists rv, bvals c asg res rv /\
      bits_val rv = (bits_val inpv + (if is_nil inp && negb at_len then 0 else Z.b2z pcv))
                    mod 2 ^ Z.of_nat (length res).
Proof.
  induction res as [|r res' IH]; intros inp car pc at_len s u s' H.
  - destruct inp; apply run_ret_inv in H as (_ & ->); (split; [reflexivity|]);
      intros c _ asg inpv pcv _ _; exists []; (split; [constructor|]);
      cbn [length bits_val]; change (Z.of_nat 0) with 0; rewrite Z.pow_0_r, Z.mod_1_r; reflexivity.
  - destruct inp as [|x inp'].
    + cbn [plus_loop] in H.
      apply run_bind_inv in H as ([] & s1 & Hg & H).
      pose proof (run_ext _ _ _ _ _ H) as Hx2.
      apply IH in H as (O2 & V).
      destruct at_len.
      * pose proof (run_ext _ _ _ _ _ Hg) as Hx1.
        assert (run fresh (Bind (AddGate r IFF [pc]) (fun _ => Ret tt)) s = Ok (tt, s1)) as Hg'
          by (simpl; simpl in Hg; rewrite Hg; reflexivity).
        apply addgate_bind in Hg' as (s1' & Hr & _ & G & N & _ & O1).
        apply run_ret_inv in Hr as (_ & <-).
        split; [congruence|]. intros c Hc asg inpv pcv Hi Hpc. inversion Hi; subst.
        assert (bval c asg pc pcv) as Vpc by (apply Hpc; [discriminate|right; reflexivity]).
        destruct (V c Hc asg [] pcv (Forall2_nil _)) as (rv & Vr & E). { intros _ [F|F]; [contradiction|discriminate]. }
        to_final c.
        exists (pcv :: rv). split.
        { constructor; [|exact Vr].
          eapply has_g_val; [exact G|exact N|constructor; [exact Vpc|constructor]|reflexivity]. }
        rewrite bits_val_cons, E. cbn [is_nil andb negb bits_val].
        rewrite Z.add_0_l, Z.mod_0_l by (pose proof (pow2_pos (length res')); lia).
        rewrite Z.add_0_l, Z.mul_0_r, Z.add_0_r.
        symmetry. apply Z.mod_small. cbn [length]. rewrite pow2_succ.
        pose proof (pow2_pos (length res')). pose proof (b2z_range pcv). lia.
      * assert (run fresh (Bind (AddGate r ALWAYS_FALSE []) (fun _ => Ret tt)) s = Ok (tt, s1)) as Hg'
          by (simpl; simpl in Hg; rewrite Hg; reflexivity).
        apply addgate_bind in Hg' as (s1' & Hr & Hx1 & G & N & _ & O1).
        apply run_ret_inv in Hr as (_ & <-).
        split; [congruence|]. intros c Hc asg inpv pcv Hi Hpc. inversion Hi; subst.
        destruct (V c Hc asg [] pcv (Forall2_nil _)) as (rv & Vr & E). { intros _ [F|F]; [contradiction|discriminate]. }
        to_final c.
        exists (false :: rv). split.
        { constructor; [|exact Vr].
          eapply has_g_val; [exact G|exact N|constructor|reflexivity]. }
        rewrite bits_val_cons, E. cbn [is_nil andb negb bits_val Z.b2z].
        rewrite !Z.add_0_l, !Z.mod_0_l; [reflexivity| |]; pose proof (pow2_pos (length res'));
          pose proof (pow2_pos (length (r :: res'))); lia.
    + cbn [plus_loop] in H.
      apply run_bind_inv in H as (ci & s0 & Hci & H). apply nthP_inv in Hci as (_ & ->).
      apply when_addgate_bind in H as (s1 & H & Hx1 & Gc & O1).
      apply addgate_bind in H as (s2 & H & Hx2 & Gr & Nr & _ & O2).
      pose proof (run_ext _ _ _ _ _ H) as Hx3.
      apply IH in H as (O3 & V).
      split; [congruence|]. intros c Hc asg inpv pcv Hi Hpc.
      inversion Hi as [|? xv ? inpv' Vx Hi']; subst.
      assert (bval c asg pc pcv) as Vpc by (apply Hpc; [discriminate|left; discriminate]).
      destruct (V c Hc asg inpv' (xv && pcv) Hi') as (rv & Vr & E).
      { intros Hne _. destruct res' as [|r1 res'']; [contradiction|].
        destruct (Gc eq_refl) as (G & N). to_final c.
        eapply has_g_val; [exact G|exact N|constructor; [exact Vx|constructor; [exact Vpc|constructor]]|reflexivity]. }
      to_final c.
      exists (xorb xv pcv :: rv). split.
      { constructor; [|exact Vr].
        eapply has_g_val; [exact Gr|exact Nr|constructor; [exact Vx|constructor; [exact Vpc|constructor]]|reflexivity]. }
      rewrite bits_val_cons, E. cbn [is_nil andb negb length].
      rewrite Bool.andb_false_r. rewrite half_mod by (destruct xv, pcv; simpl; lia).
      rewrite bits_val_cons. f_equal. destruct xv, pcv; simpl Z.b2z; lia.
Qed.

Theorem add_plus_one_correct fresh xs res ao be s r s' :
  run fresh (add_plus_one xs res ao be) s = Ok (r, s') ->
  ext (bc s) (bc s') /\ inputs (bc s') = inputs (bc s) /\
  outputs (bc s') = outputs (bc s) ++ (if ao then r else []) /\
  (forall r0, res = Some r0 -> r = r0) /\ (res = None -> length r = S (length xs)) /\
  forall asg xv, bvals (bc s) asg xs xv ->
    exists rv, bvals (bc s') asg r rv /\
      decode be rv = (decode be xv + 1) mod 2 ^ Z.of_nat (length r).
Proof.
  intros H. pose proof (run_ext _ _ _ _ _ H) as Hx. unfold add_plus_one in H.
  apply run_bind_inv in H as (rl & s0 & Hrl & H).
  assert (bc s0 = bc s /\ (forall r0, res = Some r0 -> rl = r0) /\ (res = None -> length rl = S (length xs)))
    as (E0 & Hres & Hlen).
  { destruct res as [r0|].
    - apply run_ret_inv in Hrl as (-> & ->). split; [reflexivity|]. split; [intros ? [= <-]; reflexivity|discriminate].
    - apply fresh_n_inv in Hrl as (E & L). split; [exact E|]. split; [discriminate|intros _; exact L]. }
  apply run_bind_inv in H as (carries & s1 & Hc & H). apply fresh_list_inv in Hc as (E1 & Lc).
  apply run_bind_inv in H as (c0 & s1' & Hc0 & H). apply nthP_inv in Hc0 as (Ec0 & ->).
  apply run_bind_inv in H as (x0 & s1' & Hx0 & H). apply nthP_inv in Hx0 as (Ex0 & ->).
  apply addgate_bind in H as (s2 & H & Hx2 & Gc & Nc & _ & O2).
  apply run_bind_inv in H as (r0 & s2' & Hr0 & H). apply nthP_inv in Hr0 as (Er0 & ->).
  apply addgate_bind in H as (s3 & H & Hx3 & Gr & Nr & _ & O3).
  apply run_bind_inv in H as ([] & s4 & Hl & H).
  apply run_bind_inv in H as ([] & s5 & Hm & H). apply run_ret_inv in H as (-> & ->).
  pose proof (run_ext _ _ _ _ _ Hl) as Hx4.
  apply plus_loop_spec in Hl as (O4 & V).
  assert (ext (bc s4) (bc s5) /\ outputs (bc s5) = outputs (bc s4) ++ (if ao then rl else [])) as (Hx5 & O5).
  { destruct ao; simpl when in Hm; [apply iter_mark_inv in Hm; exact Hm|].
    apply run_ret_inv in Hm as (_ & ->). rewrite app_nil_r. split; [apply ext_refl|reflexivity]. }
  split; [exact Hx|]. split; [apply ext_inputs, Hx|]. split; [rewrite O5; congruence|].
  split; [exact Hres|]. split; [exact Hlen|].
  intros asg xv Hxv. apply (bvals_ext _ _ _ _ _ Hx) in Hxv.
  set (c := bc s5) in *.
  apply (bvals_rev_if _ _ be) in Hxv.
  destruct (rev_if be xs) as [|x0' inp'] eqn:Einp; [discriminate|]. injection Ex0 as ->.
  destruct (rev_if be rl) as [|r0' res'] eqn:Eres; [discriminate|]. injection Er0 as ->.
  inversion Hxv as [|? x0v ? inpv' Vx0 Hi']; subst.
  to_final c.
  assert (bval c asg c0 x0v) as Vc0.
  { eapply has_g_val; [exact Gc|exact Nc|constructor; [exact Vx0|constructor]|reflexivity]. }
  assert (bval c asg r0 (negb x0v)) as Vr0.
  { eapply has_g_val; [exact Gr|exact Nr|constructor; [exact Vx0|constructor]|reflexivity]. }
  cbn [tl] in V.
  destruct (V c Hx5 asg inpv' x0v Hi') as (rv & Vr & E). { intros _ _; exact Vc0. }
  rewrite Bool.andb_false_r in E.
  exists (rev_if be (negb x0v :: rv)). split.
  - rewrite <- (rev_if_involutive be rl), Eres. apply bvals_rev_if. constructor; assumption.
  - rewrite decode_rev_if. unfold decode.
    match goal with Hq : _ :: _ = rev_if be xv |- _ => rewrite <- Hq end.
    rewrite <- (rev_if_length be rl), Eres. cbn [length].
    rewrite !bits_val_cons, E, half_mod by (destruct x0v; simpl; lia).
    f_equal. destruct x0v; simpl Z.b2z; lia.
Qed.

(* ---- add_equal --------------------------------------------------------------------------------- *)
Lemma eq_literals_spec fresh bits : forall inps s gs s',
  length bits = length inps ->
  run fresh (eq_literals bits inps) s = Ok (gs, s') ->
  outputs (bc s') = outputs (bc s) /\ length gs = length inps /\
  forall c, ext (bc s') c -> forall asg xv, bvals c asg inps xv ->
    bvals c asg gs (map2 Bool.eqb xv bits).
Proof.
  induction bits as [|bit bits IH]; intros inps s gs s' L H; destruct inps as [|inp inps]; try discriminate.
  - apply run_ret_inv in H as (-> & ->). repeat split; auto.
    intros c _ asg xv Hx. inversion Hx; subst. constructor.
  - cbn [eq_literals] in H.
    apply run_bind_inv in H as (g & s1 & Hg & H).
    apply run_bind_inv in H as (rest & s2 & Hr & H). apply run_ret_inv in H as (-> & ->).
    pose proof (run_ext _ _ _ _ _ Hr) as Hx2.
    apply IH in Hr as (O2 & L2 & V); [|simpl in L; lia].
    destruct bit.
    + apply run_ret_inv in Hg as (-> & ->).
      split; [exact O2|]. split; [simpl; congruence|].
      intros c Hc asg xv Hx. inversion Hx as [|? x0 ? xv' V0 Hx']; subst.
      cbn [map2]. constructor; [|apply V; assumption]. destruct x0; exact V0.
    + assert (run fresh (Bind (gate_new NOT [inp]) (fun l => Ret l)) s = Ok (g, s1)) as Hg'
        by (cbn [run]; cbn [run] in Hg; rewrite Hg; reflexivity).
      apply gate_new_bind in Hg' as (l & s1' & Hret & Hx1 & G & N & O1).
      apply run_ret_inv in Hret as (-> & <-).
      split; [congruence|]. split; [simpl; congruence|].
      intros c Hc asg xv Hx. inversion Hx as [|? x0 ? xv' V0 Hx']; subst.
      cbn [map2]. constructor; [|apply V; assumption]. to_final c.
      replace (Bool.eqb x0 false) with (negb x0) by (destruct x0; reflexivity).
      eapply has_g_val; [exact G|exact N|constructor; [exact V0|constructor]|reflexivity].
Qed.

Lemma and_chain_spec fresh rest : forall l0 s l s',
  run fresh (foldP (fun last out => gate_new AND [last; out]) rest l0) s = Ok (l, s') ->
  outputs (bc s') = outputs (bc s) /\
  forall c, ext (bc s') c -> forall asg v0 rv, bval c asg l0 v0 -> bvals c asg rest rv ->
    bval c asg l (fold_left andb rv v0).
Proof.
  induction rest as [|o rest IH]; intros l0 s l s' H; cbn [foldP] in H.
  - apply run_ret_inv in H as (-> & ->). split; [reflexivity|].
    intros c _ asg v0 rv V0 Hr. inversion Hr; subst. exact V0.
  - apply gate_new_bind in H as (g & s1 & H & Hx1 & G & N & O1).
    pose proof (run_ext _ _ _ _ _ H) as Hx2.
    apply IH in H as (O2 & V). split; [congruence|].
    intros c Hc asg v0 rv V0 Hr. inversion Hr as [|? ov ? rv' Vo Hr']; subst.
    cbn [fold_left]. apply V; [exact Hc| |exact Hr']. to_final c.
    eapply has_g_val; [exact G|exact N|constructor; [exact V0|constructor; [exact Vo|constructor]]|reflexivity].
Qed.

Lemma const_bits_length num n : length (const_bits num n) = n.
Proof. revert num; induction n; intros; simpl; auto. Qed.

Lemma const_bits_eq n : forall xv num, length xv = n -> 0 <= num < 2 ^ Z.of_nat n ->
  forallb (fun b => b) (map2 Bool.eqb xv (const_bits num n)) = (bits_val xv =? num).
Proof.
  induction n as [|n IH]; intros xv num L R; destruct xv as [|b xv]; try discriminate.
  - cbn [const_bits map2 forallb bits_val]. change (Z.of_nat 0) with 0 in R. rewrite Z.pow_0_r in R.
    symmetry. apply Z.eqb_eq. lia.
  - cbn [const_bits map2 forallb]. rewrite pow2_succ in R.
    pose proof (Z.div2_odd num) as E. rewrite Z.div2_div in *.
    rewrite IH; [|simpl in L; lia|split; [apply Z.div_pos; lia|apply Z.div_lt_upper_bound; lia]].
    rewrite bits_val_cons.
    destruct (Bool.eqb b (Z.odd num)) eqn:Eb.
    + apply Bool.eqb_prop in Eb. subst b. cbn [andb].
      destruct (bits_val xv =? num / 2) eqn:E2; symmetry.
      * apply Z.eqb_eq in E2. apply Z.eqb_eq. lia.
      * apply Z.eqb_neq in E2. apply Z.eqb_neq. lia.
    + cbn [andb]. symmetry. apply Z.eqb_neq. intros F.
      assert (b = Z.odd num) as ->; [|rewrite Bool.eqb_reflx in Eb; discriminate].
      destruct b, (Z.odd num); simpl Z.b2z in *; try reflexivity; lia.
Qed.

Lemma forallb_fold_andb rv v0 : fold_left andb rv v0 = v0 && forallb (fun b => b) rv.
Proof.
  revert v0; induction rv as [|r rv IH]; intros v0; simpl; [rewrite andb_true_r; reflexivity|].
  rewrite IH. rewrite andb_assoc. reflexivity.
Qed.

Theorem add_equal_correct fresh xs num s r s' :
  run fresh (add_equal xs num) s = Ok (r, s') -> xs <> [] ->
  ext (bc s) (bc s') /\ inputs (bc s') = inputs (bc s) /\ outputs (bc s') = outputs (bc s) /\
  forall asg xv, bvals (bc s) asg xs xv -> bval (bc s') asg r (bits_val xv =? num).
Proof.
  intros H Hne. pose proof (run_ext _ _ _ _ _ H) as Hx. unfold add_equal in H.
  split; [exact Hx|]. split; [apply ext_inputs, Hx|].
  destruct (const_fits num (length xs)) eqn:Efit; cbn [negb] in H.
  - unfold const_fits in Efit. apply andb_true_iff in Efit as (Efit & _).
    apply andb_true_iff in Efit as (F1 & F2). apply Z.leb_le in F1. apply Z.ltb_lt in F2.
    apply run_bind_inv in H as (gs & s1 & Hl & H).
    pose proof (run_ext _ _ _ _ _ Hl) as Hx1.
    apply eq_literals_spec in Hl as (O1 & L1 & V1); [|apply const_bits_length].
    apply fresh_bind in H as (ll & s2 & H & E2 & _ & _).
    destruct gs as [|g0 [|g1 rest]].
    + destruct xs; [contradiction|discriminate].
    + apply run_ret_inv in H as (-> & ->). split; [congruence|].
      intros asg xv Hxv. apply (bvals_ext _ _ _ _ _ Hx) in Hxv.
      rewrite E2 in *. specialize (V1 _ (ext_refl _) asg xv Hxv).
      pose proof (bvals_length _ _ _ _ Hxv) as Lx.
      rewrite <- (const_bits_eq (length xs) xv num) by (auto; lia).
      inversion V1 as [|? v0 ? vr V0 Vr Eg Ev]; subst. inversion Vr; subst.
      cbn [forallb]. rewrite andb_true_r. exact V0.
    + apply addgate_bind in H as (s3 & H & Hx3 & G & N & _ & O3).
      pose proof (run_ext _ _ _ _ _ H) as Hx4.
      apply and_chain_spec in H as (O4 & V4). split; [congruence|].
      intros asg xv Hxv. apply (bvals_ext _ _ _ _ _ Hx) in Hxv.
      rewrite <- E2 in Hx1, V1.
      assert (ext (bc s2) (bc s')) as Hx2' by (eapply ext_trans; eassumption).
      specialize (V1 _ Hx2' asg xv Hxv).
      pose proof (bvals_length _ _ _ _ Hxv) as Lx.
      rewrite <- (const_bits_eq (length xs) xv num) by (auto; lia).
      inversion V1 as [|? v0 ? vr V0 Vr Eg Ev]; subst. inversion Vr as [|? v1 ? vr' V1' Vr' Eg' Ev']; subst.
      cbn [forallb]. rewrite andb_assoc, <- forallb_fold_andb.
      apply V4; [apply ext_refl| |exact Vr'].
      apply (has_g_ext _ _ _ _ _ Hx4) in G.
      eapply has_g_val; [exact G|exact N|constructor; [exact V0|constructor; [exact V1'|constructor]]|reflexivity].
  - assert (run fresh (Bind (gate_new ALWAYS_FALSE []) (fun l => Ret l)) s = Ok (r, s')) as H'
      by (cbn [run]; cbn [run] in H; rewrite H; reflexivity).
    apply gate_new_bind in H' as (l & s1 & Hret & Hx1 & G & N & O1).
    apply run_ret_inv in Hret as (-> & <-). split; [exact O1|].
    intros asg xv Hxv. pose proof (bvals_length _ _ _ _ Hxv) as Lx.
    replace (bits_val xv =? num) with false.
    + eapply has_g_val; [exact G|exact N|constructor|reflexivity].
    + symmetry. apply Z.eqb_neq. intros F. pose proof (bits_val_range xv) as R. rewrite <- Lx in R.
      unfold const_fits in Efit. apply andb_false_iff in Efit as [Efit|Efit].
      * apply andb_false_iff in Efit as [Efit|Efit]; [apply Z.leb_gt in Efit|apply Z.ltb_ge in Efit]; lia.
      * apply negb_false_iff, Nat.eqb_eq in Efit. destruct xs; [contradiction|discriminate].
Qed.
