(* Whole-file theorems for the bench parser: the layout theorem (induction over lines), what
   the parsed circuit is in terms of the definitions of the text, independence of line order. *)
Require Import Cirbo.Model.Base Cirbo.Model.Gate Cirbo.Model.Den Cirbo.Model.Circuit Cirbo.Model.Bench
        Cirbo.Model.BenchLayout Cirbo.Model.Eval Cirbo.Model.Sem.
Require Import Cirbo.Generated.GateTypes Cirbo.Generated.BenchDispatch.
Require Import Cirbo.Proofs.DictFacts Cirbo.Proofs.BenchStrings Cirbo.Proofs.BenchDispatchFacts
        Cirbo.Proofs.BenchLines.
Require Import Coq.Sorting.Permutation.
Local Open Scope string_scope.

(* ------------------------------------------------------------------ no newline inside a line *)
Lemma nl_not_label : label_char_ok ch_nl = false.
Proof. reflexivity. Qed.

Lemma kw_no_nl kw K :
  (K = input_kw \/ K = output_kw \/ K = VDD_NAME) -> upper kw = K -> has_char ch_nl kw = false.
Proof.
  intros HK E. eapply kw_no_char; [exact E|reflexivity|].
  destruct HK as [-> | [-> | ->]]; reflexivity.
Qed.

Lemma opn_no_nl opn h : lookup_processing processings (upper opn) = Some h -> has_char ch_nl opn = false.
Proof.
  intros H. destruct (key_clean _ _ H) as [Hc _].
  eapply has_char_upper; [reflexivity|]. eapply all_chars_has_char; [exact Hc|reflexivity].
Qed.

Lemma item_no_nl it : item_ok it = true -> has_char ch_nl (print_item it) = false.
Proof.
  intros Hok. destruct it as [kw l s1 s2 s3|kw l s1 s2 s3|l s1 s2 opn s3 t ops s4 s5|l s1 s2 kw s3|text|];
    cbn [item_ok] in Hok; unfold print_item.
  - apply andb_true_iff in Hok as [Hk Hl]. apply String.eqb_eq in Hk.
    rewrite !has_char_app, (kw_no_nl kw input_kw), (label_no_char l ch_nl Hl nl_not_label),
      !(spaces_no_char ch_nl) by (auto; discriminate). reflexivity.
  - apply andb_true_iff in Hok as [Hk Hl]. apply String.eqb_eq in Hk.
    rewrite !has_char_app, (kw_no_nl kw output_kw), (label_no_char l ch_nl Hl nl_not_label),
      !(spaces_no_char ch_nl) by (auto; discriminate). reflexivity.
  - apply andb_true_iff in Hok as [Hok Hh]. apply andb_true_iff in Hok as [Hok Hv].
    apply andb_true_iff in Hok as [Hl Hops].
    destruct (lookup_processing processings (upper opn)) as [h|] eqn:Hk; [|discriminate].
    rewrite !has_char_app, (label_no_char l ch_nl Hl nl_not_label), (opn_no_nl _ _ Hk),
      (args_no_char ch_nl ops s4 Hops nl_not_label), !(spaces_no_char ch_nl) by discriminate.
    reflexivity.
  - apply andb_true_iff in Hok as [Hl Hk]. apply String.eqb_eq in Hk.
    rewrite !has_char_app, (kw_no_nl kw VDD_NAME), (label_no_char l ch_nl Hl nl_not_label),
      !(spaces_no_char ch_nl) by (auto; discriminate). reflexivity.
  - apply negb_true_iff in Hok. cbn [has_char]. rewrite Hok. reflexivity.
  - reflexivity.
Qed.

(* ------------------------------------------------------------------ induction over the lines *)
Definition effects (its : list item) (c : circuit) : circuit :=
  fold_left (fun c it => item_effect it c) its c.

Lemma concat_empty_cons x l : String.concat "" (x :: l) = x ++ String.concat "" l.
Proof. destruct l; [symmetry; apply sapp_nil_r|reflexivity]. Qed.

Lemma parse_lines_cons h t c : parse_lines (h :: t) c = bind (process_line c h) (parse_lines t).
Proof. reflexivity. Qed.

Lemma blank_effect it c : item_ok it = true -> print_item it = "" -> item_effect it c = c.
Proof.
  intros Hok E. pose proof (line_item c it "" Hok (or_introl eq_refl)) as H.
  rewrite E in H. change (process_line c ("" ++ "")) with (Ok c) in H. congruence.
Qed.

Theorem parse_lines_items its fin c :
  Forall (fun it => item_ok it = true) its ->
  parse_lines (lines (print_items its fin)) c = Ok (effects its c).
Proof.
  intros H. revert c. unfold print_items. destruct fin.
  - induction H as [|it its Hit _ IH]; intros c; [reflexivity|].
    cbn [map]. rewrite concat_empty_cons, sapp_assoc, (lines_app_nl _ _ (item_no_nl _ Hit)).
    rewrite parse_lines_cons, (line_item c it NL Hit (or_intror eq_refl)). apply IH.
  - induction H as [|it its Hit Hits IH]; intros c; [reflexivity|].
    destruct its as [|it2 its].
    + cbn [map String.concat effects fold_left].
      destruct (string_dec (print_item it) "") as [E|E].
      * rewrite E. cbn [lines parse_lines foldM]. rewrite (blank_effect _ _ Hit E). reflexivity.
      * rewrite (lines_nonl _ (item_no_nl _ Hit) E). rewrite parse_lines_cons.
        rewrite <- (sapp_nil_r (print_item it)) at 1.
        rewrite (line_item c it "" Hit (or_introl eq_refl)). reflexivity.
    + change (map print_item (it :: it2 :: its)) with (print_item it :: map print_item (it2 :: its))%list.
      change (map print_item (it2 :: its)) with (print_item it2 :: map print_item its)%list.
      rewrite concat_cons2, (lines_app_nl _ _ (item_no_nl _ Hit)).
      rewrite parse_lines_cons, (line_item c it NL Hit (or_intror eq_refl)).
      apply IH.
Qed.

(* ------------------------------------------------------------------ the state after the lines *)
Lemma add_users_fields c ops u :
  gates (add_users c ops u) = gates c /\ inputs (add_users c ops u) = inputs c
  /\ outputs (add_users c ops u) = outputs c /\ blocks (add_users c ops u) = blocks c.
Proof.
  unfold add_users. revert c. induction ops as [|o ops IH]; intros c; [repeat split|].
  simpl. destruct (IH (add_user c o u)) as [-> [-> [-> ->]]].
  unfold add_user. destruct (dget (users c) o); repeat split.
Qed.

Lemma emplace_gates c l t ops : gates (emplace_gate_raw c l t ops) = dset (gates c) l (mkGate t ops).
Proof.
  unfold emplace_gate_raw. destruct (add_users_fields c ops l) as [E _].
  destruct (gtype_beq t INPUT); simpl; rewrite E; reflexivity.
Qed.

Lemma emplace_outputs c l t ops : outputs (emplace_gate_raw c l t ops) = outputs c.
Proof.
  unfold emplace_gate_raw. destruct (add_users_fields c ops l) as [_ [_ [E _]]].
  destruct (gtype_beq t INPUT); simpl; rewrite E; reflexivity.
Qed.

Lemma emplace_blocks c l t ops : blocks (emplace_gate_raw c l t ops) = blocks c.
Proof.
  unfold emplace_gate_raw. destruct (add_users_fields c ops l) as [_ [_ [_ E]]].
  destruct (gtype_beq t INPUT); simpl; rewrite E; reflexivity.
Qed.

Lemma emplace_inputs c l t ops :
  inputs (emplace_gate_raw c l t ops) = if gtype_beq t INPUT then (inputs c ++ [l])%list else inputs c.
Proof.
  unfold emplace_gate_raw. destruct (add_users_fields c ops l) as [_ [E _]].
  destruct (gtype_beq t INPUT); simpl; rewrite E; reflexivity.
Qed.

Lemma item_ok_gate_type l s1 s2 opn s3 t ops s4 s5 :
  item_ok (IGate l s1 s2 opn s3 t ops s4 s5) = true -> gtype_beq t INPUT = false.
Proof.
  cbn [item_ok]. intros H. apply andb_true_iff in H as [_ H].
  destruct (lookup_processing processings (upper opn)) as [h|] eqn:Hk; [|discriminate].
  apply andb_true_iff in H as [Ht _]. apply gtype_beq_eq in Ht.
  destruct (gtype_beq t INPUT) eqn:E; [|reflexivity].
  apply gtype_beq_eq in E. rewrite E in Ht. exfalso. exact (key_type_not_input _ _ Hk Ht).
Qed.

Lemma effects_outputs its c : outputs (effects its c) = (outputs c ++ output_decls its)%list.
Proof.
  revert c. induction its as [|it its IH]; intros c; [symmetry; apply app_nil_r|].
  unfold effects in *. cbn [fold_left]. rewrite IH.
  destruct it; cbn [item_effect output_decls]; rewrite ?emplace_outputs; try reflexivity.
  simpl. rewrite <- app_assoc. reflexivity.
Qed.

Lemma effects_inputs its c :
  Forall (fun it => item_ok it = true) its ->
  inputs (effects its c) = (inputs c ++ input_decls its)%list.
Proof.
  intros H. revert c. induction H as [|it its Hit _ IH]; intros c; [symmetry; apply app_nil_r|].
  unfold effects in *. cbn [fold_left]. rewrite IH.
  destruct it; cbn [item_effect input_decls]; rewrite ?emplace_inputs; try reflexivity.
  - simpl. rewrite <- app_assoc. reflexivity.
  - rewrite (item_ok_gate_type _ _ _ _ _ _ _ _ _ Hit). reflexivity.
Qed.

(* the gate map: the last definition of a label wins, earlier content is kept otherwise *)
Lemma item_effect_gates it c :
  gates (item_effect it c) =
  match item_def it with Some (l, g) => dset (gates c) l g | None => gates c end.
Proof. destruct it; cbn [item_effect item_def]; rewrite ?emplace_gates; reflexivity. Qed.

Lemma find_def_app d1 d2 l :
  find_def (d1 ++ d2) l = match find_def d1 l with Some g => Some g | None => find_def d2 l end.
Proof.
  induction d1 as [|[k g] d1 IH]; [reflexivity|]. simpl. destruct (leqb l k); [reflexivity|exact IH].
Qed.

Lemma defs_app a b : defs (a ++ b) = (defs a ++ defs b)%list.
Proof.
  induction a as [|it a IH]; [reflexivity|]. simpl. destruct (item_def it); simpl; rewrite IH; reflexivity.
Qed.

Lemma effects_gates its c l :
  dget (gates (effects its c)) l =
  match find_def (rev (defs its)) l with Some g => Some g | None => dget (gates c) l end.
Proof.
  revert c. induction its as [|it its IH]; intros c; [reflexivity|].
  unfold effects in *. cbn [fold_left]. rewrite IH, item_effect_gates.
  cbn [defs]. destruct (item_def it) as [[k g]|].
  - cbn [rev]. rewrite find_def_app. destruct (find_def (rev (defs its)) l); [reflexivity|].
    simpl. rewrite dget_dset. destruct (leqb l k); reflexivity.
  - reflexivity.
Qed.

Lemma In_dset {V} (d : dict V) k v k' v' :
  In (k', v') (dset d k v) -> (k', v') = (k, v) \/ In (k', v') d.
Proof.
  induction d as [|[k2 v2] d IH]; simpl.
  - intros [H|[]]; left; congruence.
  - destruct (leqb k k2) eqn:E; simpl.
    + apply leqb_eq in E; subst. intros [H|H]; [left; congruence|right; right; exact H].
    + intros [H|H]; [right; left; exact H|]. destruct (IH H) as [H'|H']; [left; exact H'|right; right; exact H'].
Qed.

Lemma effects_gates_In its c k g :
  In (k, g) (gates (effects its c)) -> In (k, g) (defs its) \/ In (k, g) (gates c).
Proof.
  revert c. induction its as [|it its IH]; intros c H; [right; exact H|].
  unfold effects in *. cbn [fold_left] in H. apply IH in H. cbn [defs].
  destruct H as [H|H]; [left; destruct (item_def it); [right|]; exact H|].
  rewrite item_effect_gates in H. destruct (item_def it) as [[k2 g2]|]; [|right; exact H].
  apply In_dset in H as [H|H]; [left; left; congruence|right; exact H].
Qed.

Lemma find_def_Some_In d l g : find_def d l = Some g -> In (l, g) d.
Proof.
  induction d as [|[k g'] d IH]; simpl; [discriminate|].
  destruct (leqb_spec l k) as [->|N]; [intros [= ->]; left; reflexivity|right; auto].
Qed.

Lemma find_def_None_iff d l : find_def d l = None <-> ~ In l (map fst d).
Proof.
  induction d as [|[k g'] d IH]; simpl; [tauto|].
  destruct (leqb_spec l k) as [->|N]; [split; [discriminate|tauto]|].
  rewrite IH. split; [intros H [E|H']; [congruence|tauto]|tauto].
Qed.

Lemma has_gate_effects its l :
  has_gate (effects its empty_circuit) l = memb l (defined_labels its).
Proof.
  unfold has_gate, dmem. rewrite effects_gates. simpl.
  destruct (memb l (defined_labels its)) eqn:M.
  - apply memb_In in M. destruct (find_def (rev (defs its)) l) eqn:F; [reflexivity|].
    exfalso. apply find_def_None_iff in F. apply F. rewrite map_rev, <- in_rev. exact M.
  - apply memb_nIn in M. destruct (find_def (rev (defs its)) l) eqn:F; [|reflexivity].
    exfalso. apply M. apply find_def_Some_In in F. apply in_rev in F.
    unfold defined_labels. apply (in_map fst) in F. exact F.
Qed.

(* ------------------------------------------------------------------ _eof *)
Lemma check_gates_exist_ok ls c :
  (forall o, In o ls -> has_gate c o = true) -> check_gates_exist ls c = Ok tt.
Proof.
  induction ls as [|o ls IH]; intros H; [reflexivity|]. simpl.
  rewrite (H o (or_introl eq_refl)). apply IH. intros; apply H; right; assumption.
Qed.

Lemma mapM_all_ok {A} (f : A -> res unit) l : (forall x, In x l -> f x = Ok tt) -> exists r, mapM f l = Ok r.
Proof.
  induction l as [|x l IH]; intros H; [eexists; reflexivity|]. simpl.
  rewrite (H x (or_introl eq_refl)). destruct IH as [r ->]; [intros; apply H; right; assumption|].
  eexists; reflexivity.
Qed.

Lemma eof_ok c :
  (forall l g o, In (l, g) (gates c) -> In o (gops g) -> has_gate c o = true) -> eof c = Ok c.
Proof.
  intros H. unfold eof.
  destruct (mapM_all_ok (fun kg => check_gates_exist (gops (snd kg)) c) (gates c)) as [r ->]; [|reflexivity].
  intros [l g] Hin. apply check_gates_exist_ok. intros o Ho. eapply H; eauto.
Qed.

Lemma def_operands its k g :
  In (k, g) (defs its) -> exists it, In it its /\ incl (gops g) (item_operands it).
Proof.
  induction its as [|it its IH]; [intros []|]. cbn [defs].
  destruct (item_def it) as [[k2 g2]|] eqn:D.
  - intros [H|H].
    + injection H as -> ->. exists it. split; [left; reflexivity|].
      destruct it; cbn [item_def] in D; try discriminate; injection D as _ <-; cbn [gops item_operands];
        try apply incl_refl; apply incl_nil_l.
    + destruct (IH H) as [it' [Hin Hinc]]. exists it'. split; [right; exact Hin|exact Hinc].
  - intros H. destruct (IH H) as [it' [Hin Hinc]]. exists it'. split; [right; exact Hin|exact Hinc].
Qed.

(* ------------------------------------------------------------------ the layout theorem *)
Theorem parse_layout its fin :
  text_ok its -> parse_bench (print_items its fin) = Ok (denote its).
Proof.
  intros [Hok Hdef]. unfold parse_bench. rewrite (parse_lines_items its fin _ Hok).
  simpl bind. fold (effects its empty_circuit). change (denote its) with (effects its empty_circuit).
  apply eof_ok. intros l g o Hin Ho.
  apply effects_gates_In in Hin as [Hin|[]].
  destruct (def_operands _ _ _ Hin) as [it [Hit Hinc]].
  rewrite has_gate_effects. unfold operands_defined in Hdef. rewrite forallb_forall in Hdef.
  specialize (Hdef it Hit). rewrite forallb_forall in Hdef. apply Hdef, Hinc, Ho.
Qed.

(* ------------------------------------------------------------------ what the parsed circuit is *)
Lemma find_def_unique d l g :
  In (l, g) d -> (forall g', In (l, g') d -> g' = g) -> find_def d l = Some g.
Proof.
  intros Hin Hu. destruct (find_def d l) as [g'|] eqn:F.
  - f_equal. apply Hu. apply find_def_Some_In. exact F.
  - exfalso. apply find_def_None_iff in F. apply F. apply (in_map fst) in Hin. exact Hin.
Qed.

Lemma NoDup_keys_unique {V} (d : list (label * V)) l g g' :
  NoDup (map fst d) -> In (l, g) d -> In (l, g') d -> g = g'.
Proof.
  induction d as [|[k v] d IH]; [intros _ []|]. simpl. intros Hnd. inversion Hnd as [|? ? Hn Hnd']; subst.
  intros [H|H] [H'|H'].
  - congruence.
  - injection H as -> ->. exfalso. apply Hn. apply (in_map fst) in H'. exact H'.
  - injection H' as -> ->. exfalso. apply Hn. apply (in_map fst) in H. exact H.
  - eauto.
Qed.

Lemma find_def_perm d d' l :
  NoDup (map fst d) -> Permutation d d' -> find_def d l = find_def d' l.
Proof.
  intros Hnd Hp.
  assert (Hnd' : NoDup (map fst d')) by (eapply Permutation_NoDup; [apply Permutation_map; exact Hp|exact Hnd]).
  destruct (find_def d l) as [g|] eqn:F.
  - symmetry. apply find_def_unique.
    + eapply Permutation_in; [exact Hp|]. apply find_def_Some_In. exact F.
    + intros g' H'. eapply NoDup_keys_unique; [exact Hnd'|exact H'|].
      eapply Permutation_in; [exact Hp|]. apply find_def_Some_In. exact F.
  - symmetry. apply find_def_None_iff. apply find_def_None_iff in F. intros H. apply F.
    eapply Permutation_in; [apply Permutation_sym, Permutation_map; exact Hp|exact H].
Qed.

Theorem denote_spec its :
  Forall (fun it => item_ok it = true) its -> NoDup (defined_labels its) ->
  (forall l, dget (gates (denote its)) l = find_def (defs its) l)
  /\ inputs (denote its) = input_decls its
  /\ outputs (denote its) = output_decls its.
Proof.
  intros Hok Hnd. change (denote its) with (effects its empty_circuit). repeat split.
  - intros l. rewrite effects_gates. simpl.
    rewrite (find_def_perm (defs its) (rev (defs its)) l Hnd (Permutation_rev _)).
    destruct (find_def (rev (defs its)) l); reflexivity.
  - rewrite (effects_inputs _ _ Hok). reflexivity.
  - rewrite effects_outputs. reflexivity.
Qed.

Lemma defs_perm its its' : Permutation its its' -> Permutation (defs its) (defs its').
Proof.
  induction 1 as [|it a b _ IH|x y a|a b c' _ IH1 _ IH2]; cbn [defs].
  - constructor.
  - destruct (item_def it); [constructor|]; exact IH.
  - destruct (item_def x), (item_def y); try apply Permutation_refl. apply perm_swap.
  - eapply Permutation_trans; eassumption.
Qed.

Theorem denote_order_irrelevant its its' :
  Forall (fun it => item_ok it = true) its -> NoDup (defined_labels its) -> Permutation its its' ->
  forall l, dget (gates (denote its)) l = dget (gates (denote its')) l.
Proof.
  intros Hok Hnd Hp l.
  assert (Hok' : Forall (fun it => item_ok it = true) its') by (eapply Permutation_Forall; eassumption).
  assert (Hnd' : NoDup (defined_labels its')).
  { eapply Permutation_NoDup; [|exact Hnd]. apply Permutation_map, defs_perm, Hp. }
  destruct (denote_spec its Hok Hnd) as [-> _]. destruct (denote_spec its' Hok' Hnd') as [-> _].
  apply find_def_perm; [exact Hnd|apply defs_perm, Hp].
Qed.

(* the semantics looks at the gate map only through lookups *)
Lemma Eval_ext c c' a l v :
  (forall k, dget (gates c) k = dget (gates c') k) -> Eval c a l v -> Eval c' a l v.
Proof.
  intros E H. induction H as [l g Hg Ht|l g vs v Hg Ht Hops IH Hop] using Eval_ind2.
  - eapply EvalInput; [rewrite <- E; exact Hg|exact Ht].
  - eapply EvalGate; [rewrite <- E; exact Hg|exact Ht|exact IH|exact Hop].
Qed.

Theorem denote_same_function its its' :
  Forall (fun it => item_ok it = true) its -> NoDup (defined_labels its) -> Permutation its its' ->
  forall a l v, Eval (denote its) a l v <-> Eval (denote its') a l v.
Proof.
  intros Hok Hnd Hp a l v.
  pose proof (denote_order_irrelevant its its' Hok Hnd Hp) as E.
  split; apply Eval_ext; [exact E|intros k; symmetry; apply E].
Qed.

(* the parsed circuit computes what the netlist of the text computes *)
Lemma find_def_dget d l : find_def d l = dget d l.
Proof. induction d as [|[k g] d IH]; [reflexivity|]. simpl. rewrite IH. reflexivity. Qed.

Theorem denote_computes_netlist its :
  Forall (fun it => item_ok it = true) its -> NoDup (defined_labels its) ->
  inputs (denote its) = inputs (netlist_of its) /\ outputs (denote its) = outputs (netlist_of its)
  /\ (forall l, dget (gates (denote its)) l = dget (gates (netlist_of its)) l)
  /\ forall a l v, Eval (denote its) a l v <-> Eval (netlist_of its) a l v.
Proof.
  intros Hok Hnd. destruct (denote_spec its Hok Hnd) as [Hg [Hi Ho]].
  assert (E : forall l, dget (gates (denote its)) l = dget (gates (netlist_of its)) l)
    by (intros l; rewrite Hg; apply find_def_dget).
  repeat split; try assumption; apply Eval_ext; [exact E|intros k; symmetry; apply E].
Qed.
