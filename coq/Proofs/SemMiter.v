(* C13: build_miter.  The miter of l and r is
     add_circuit(l as block ln) ; left connection of r (block rn) on the inputs of block ln ;
     left connection of pairwise_xor(n) on the outputs of the two blocks ;
     big_or = OR (n >= 2) / IFF (n = 1) of the xor outputs ; outputs = [big_or].
   The theorem follows from the structure theorem and the left-connection semantics of C10
   (three times), the xor gate, and the n-ary OR fold. *)
Require Import Cirbo.Model.Base Cirbo.Model.Gate Cirbo.Model.Den Cirbo.Model.Circuit Cirbo.Model.Eval
        Cirbo.Model.Sem Cirbo.Model.Connect Cirbo.Model.WF Cirbo.Model.Miter.
Require Import Cirbo.Generated.Operators Cirbo.Generated.GateTypes.
Require Import Cirbo.Proofs.DictFacts Cirbo.Proofs.OpFacts Cirbo.Proofs.WFBase Cirbo.Proofs.WFSimple
        Cirbo.Proofs.WFEmplace Cirbo.Proofs.WFConnect1 Cirbo.Proofs.WFConnect2 Cirbo.Proofs.SemFacts
        Cirbo.Proofs.SemExtConnect Cirbo.Proofs.SemConnectStruct Cirbo.Proofs.SemConnectLeft
        Cirbo.Proofs.SemMiterXor.

Lemma conn_prefix_true name : name <> "" -> conn_prefix name true = (name ++ "@")%string.
Proof. intros H. unfold conn_prefix. apply leqb_neq in H. rewrite H. reflexivity. Qed.

Lemma filter_all_false {A} (p : A -> bool) l : (forall x, In x l -> p x = false) -> filter p l = [].
Proof.
  induction l as [|x l IH]; intros H; simpl; [reflexivity|].
  rewrite (H x (or_introl eq_refl)). apply IH. intros y Hy; apply H; right; exact Hy.
Qed.

Lemma free_of_self l : filter (fun x => negb (memb x l)) l = [].
Proof. apply filter_all_false. intros x Hx. apply memb_In in Hx. rewrite Hx. reflexivity. Qed.

Lemma get_block_ok c b blk : get_block c b = Ok blk -> dget (blocks c) b = Some blk.
Proof. unfold get_block. destruct (dget (blocks c) b); [intros [= ->]; reflexivity|discriminate]. Qed.

Lemma nth_error_map_inv {A B} (f : A -> B) : forall l i y,
  nth_error (map f l) i = Some y -> exists x, nth_error l i = Some x /\ y = f x.
Proof.
  induction l as [|a l IH]; intros i y H; [destruct i; discriminate|].
  destruct i as [|i]; simpl in H; [injection H as <-; exists a; split; reflexivity|simpl; apply IH, H].
Qed.

Lemma nth_error_combine_inv {A B} : forall (l : list A) (m : list B) i p,
  nth_error (combine l m) i = Some p -> nth_error l i = Some (fst p) /\ nth_error m i = Some (snd p).
Proof.
  induction l as [|a l IH]; intros [|b m] i p H; try (destruct i; discriminate).
  destruct i as [|i]; simpl in H; [injection H as <-; split; reflexivity|simpl; apply IH, H].
Qed.

Lemma inj_neq_xorb bl br : inj bl <> inj br <-> xorb bl br = true.
Proof. destruct bl, br; simpl; split; intros H; try congruence; try discriminate; try (exfalso; apply H; reflexivity). Qed.

(* mismatched shapes are rejected with the dedicated error *)
Theorem build_miter_shapes l r ln rn :
  length (inputs l) <> length (inputs r) \/ length (outputs l) <> length (outputs r) ->
  build_miter l r ln rn = Err MiterDifferentShapesError.
Proof.
  intros H. unfold build_miter.
  replace (negb (Nat.eqb (length (inputs l)) (length (inputs r)))
           || negb (Nat.eqb (length (outputs l)) (length (outputs r)))) with true; [reflexivity|].
  symmetry. apply orb_true_iff. destruct H as [H|H]; [left|right]; apply negb_true_iff, Nat.eqb_neq, H.
Qed.

Theorem build_miter_ok_shapes l r ln rn m :
  build_miter l r ln rn = Ok m ->
  length (inputs l) = length (inputs r) /\ length (outputs l) = length (outputs r).
Proof.
  unfold build_miter. intros H.
  destruct (negb (Nat.eqb (length (inputs l)) (length (inputs r)))
            || negb (Nat.eqb (length (outputs l)) (length (outputs r)))) eqn:E; [discriminate|].
  apply orb_false_iff in E. destruct E as [E1 E2]. apply negb_false_iff in E1, E2.
  split; apply Nat.eqb_eq; assumption.
Qed.

Section Miter.
  Variables (l r : circuit) (ln rn : label) (m : circuit).
  Hypothesis Wl : WF l.
  Hypothesis Wr : WF r.
  Hypothesis Hln : ln <> "".
  Hypothesis Hrn : rn <> "".
  Hypothesis Hm : build_miter l r ln rn = Ok m.
  Let ren1 : label -> label := fun x => ((ln ++ "@") ++ x)%string.

  (* the pieces of the construction and everything the C10 structure theorem says about them *)
  Lemma miter_pieces :
    exists m1 m2 m3 px xs ys rs,
      let n := length (outputs l) in
      let tc2 := map ren1 (inputs l) in
      let ren2 := ren_of (build_mapping (inputs r) tc2 []) (conn_prefix rn true) in
      let tc3 := map ren1 (outputs l) ++ map ren2 (outputs r) in
      let ren3 := ren_of (build_mapping (inputs px) tc3 []) (conn_prefix "pairwise_xor" true) in
      add_circuit empty_circuit l ln true = Ok m1 /\
      connect_circuit m1 r tc2 (inputs r) false rn true = Ok m2 /\
      PxSpec n px xs ys rs /\
      connect_circuit m2 px tc3 (inputs px) false "pairwise_xor" true = Ok m3 /\
      has_gate m3 "big_or" = false /\
      m = set_outputs_raw (emplace_gate_raw m3 "big_or" (miter_top n) (map ren3 rs)) ["big_or"] /\
      WF m1 /\ WF m2 /\ WF m3 /\ WF m.
  Proof.
    pose proof Hm as H. unfold build_miter in H.
    destruct (negb (Nat.eqb (length (inputs l)) (length (inputs r)))
              || negb (Nat.eqb (length (outputs l)) (length (outputs r)))) eqn:E; [discriminate|].
    binv H m1 H1. binv H bl Hbl. binv H m2 H2. binv H px Hpx. binv H bl2 Hbl2. binv H br2 Hbr2.
    binv H m3 H3. binv H bx Hbx. binv H m4 H4. unfold add_circuit in H1.
    pose proof (connect_circuit_left_wf _ _ _ _ _ _ _ WF_empty H1) as W1.
    pose proof (connect_circuit_spec _ _ _ _ _ _ _ _ Wl H1) as S1.
    destruct (cs_block _ _ _ _ _ _ _ _ S1 Hln) as (bg1 & B1 & _).
    rewrite (conn_prefix_true ln Hln) in B1.
    apply get_block_ok in Hbl. rewrite B1 in Hbl. injection Hbl as <-.
    cbn [binputs] in H2. change (map (ren_of (build_mapping [] [] []) (ln ++ "@")) (inputs l))
      with (map ren1 (inputs l)) in H2.
    pose proof (connect_circuit_left_wf _ _ _ _ _ _ _ W1 H2) as W2.
    pose proof (connect_circuit_spec _ _ _ _ _ _ _ _ Wr H2) as S2.
    pose proof (cs_blocks _ _ _ _ _ _ _ _ S2 _ _ B1) as B1'.
    apply get_block_ok in Hbl2. rewrite B1' in Hbl2. injection Hbl2 as <-.
    destruct (cs_block _ _ _ _ _ _ _ _ S2 Hrn) as (bg2 & B2 & _).
    apply get_block_ok in Hbr2. rewrite B2 in Hbr2. injection Hbr2 as <-.
    cbn [boutputs] in H3.
    change (map (ren_of (build_mapping [] [] []) (ln ++ "@")) (outputs l)) with (map ren1 (outputs l)) in H3.
    destruct (generate_pairwise_xor_spec _ _ Hpx) as (xs & ys & rs & Px).
    pose proof (connect_circuit_left_wf _ _ _ _ _ _ _ W2 H3) as W3.
    pose proof (connect_circuit_spec _ _ _ _ _ _ _ _ (px_wf _ _ _ _ _ Px) H3) as S3.
    assert (Hpxn : "pairwise_xor" <> "") by discriminate.
    destruct (cs_block _ _ _ _ _ _ _ _ S3 Hpxn) as (bg3 & B3 & _).
    apply get_block_ok in Hbx. rewrite B3 in Hbx. injection Hbx as <-.
    cbn [boutputs] in H4. rewrite (px_outputs _ _ _ _ _ Px) in H4. rewrite map_length in H4.
    destruct (px_len _ _ _ _ _ Px) as (_ & _ & Lr). rewrite Lr in H4.
    pose proof (emplace_gate_wf _ _ _ _ _ W3 H4) as W4.
    pose proof (set_outputs_wf _ _ _ W4 H) as Wm.
    apply emplace_gate_inv in H4. destruct H4 as (Hfresh & _ & ->).
    unfold set_outputs in H. binv H u Hu. injection H as <-.
    exists m1, m2, m3, px, xs, ys, rs. cbv zeta.
    split; [exact H1|]. split; [exact H2|]. split; [exact Px|]. split; [exact H3|].
    split; [exact Hfresh|]. split; [reflexivity|]. auto.
  Qed.

  Theorem build_miter_correct :
    WF m /\
    inputs m = map ren1 (inputs l) /\
    outputs m = ["big_or"] /\
    (outputs l <> [] -> arity_ok l -> arity_ok r ->
     forall a a_l a_r,
       (forall x, In x (inputs l) -> aval a (ren1 x) <> U) ->
       (forall x, In x (inputs l) -> aval a_l x = aval a (ren1 x)) ->
       (forall i x y, nth_error (inputs l) i = Some x -> nth_error (inputs r) i = Some y ->
                      aval a_r y = aval a (ren1 x)) ->
       exists b, Eval m a "big_or" (inj b) /\
                 (b = true <->
                  exists i o_l o_r vl vr,
                    nth_error (outputs l) i = Some o_l /\ nth_error (outputs r) i = Some o_r /\
                    Eval l a_l o_l vl /\ Eval r a_r o_r vr /\ vl <> vr)).
  Proof.
    destruct miter_pieces as (m1 & m2 & m3 & px & xs & ys & rs & H1 & H2 & Px & H3 & Hfresh & Em & W1 & W2 & W3 & Wm).
    cbv zeta in *.
    destruct (build_miter_ok_shapes _ _ _ _ _ Hm) as [Lin Lout].
    set (n := length (outputs l)) in *.
    set (tc2 := map ren1 (inputs l)) in *.
    set (ren2 := ren_of (build_mapping (inputs r) tc2 []) (conn_prefix rn true)) in *.
    set (tc3 := map ren1 (outputs l) ++ map ren2 (outputs r)) in *.
    set (ren3 := ren_of (build_mapping (inputs px) tc3 []) (conn_prefix "pairwise_xor" true)) in *.
    set (m4 := emplace_gate_raw m3 "big_or" (miter_top n) (map ren3 rs)) in *.
    destruct Px as [Wpx (Lx & Ly & Lr) Ipx Opx Gpx].
    unfold add_circuit in H1.
    split; [exact Wm|]. split.
    { rewrite Em. unfold set_outputs_raw; cbn [inputs]. unfold m4. rewrite emplace_raw_inputs.
      replace (gtype_beq (miter_top n) INPUT) with false
        by (unfold miter_top; destruct (Nat.ltb 1 n); reflexivity).
      rewrite (left_inputs m2 px tc3 (inputs px) "pairwise_xor" true m3 W2 Wpx H3), free_of_self.
      simpl map. rewrite app_nil_r.
      rewrite (left_inputs m1 r tc2 (inputs r) rn true m2 W1 Wr H2), free_of_self. simpl map. rewrite app_nil_r.
      destruct (add_circuit_interface empty_circuit l ln true m1 WF_empty Wl H1) as [Hi _].
      rewrite Hi, (conn_prefix_true ln Hln). reflexivity. }
    split; [rewrite Em; reflexivity|].
    intros Hne Al Ar a a_l a_r Htot Hal Har.
    assert (Tl : total_on l a_l).
    { intros x g Hg Ht.
      assert (Hx : In x (inputs l)) by (apply (wf_inputs l Wl); exists g; split; assumption).
      rewrite (Hal x Hx). apply Htot, Hx. }
    assert (Tr : total_on r a_r).
    { intros y g Hg Ht.
      assert (Hy : In y (inputs r)) by (apply (wf_inputs r Wr); exists g; split; assumption).
      apply In_nth_error in Hy. destruct Hy as [i Hy].
      assert (Hlt : i < length (inputs l)) by (rewrite Lin; eapply nth_error_some_lt; exact Hy).
      destruct (nth_error_lt_some _ _ Hlt) as [x Hx].
      rewrite (Har i x y Hx Hy). apply Htot. eapply nth_error_In; exact Hx. }
    destruct (Forall2_exists (fun o b => Eval l a_l o (inj b)) (outputs l)) as [bls Hbls].
    { intros o Ho. apply (Eval_exists l a_l Wl Al Tl). apply (wf_outs l Wl), Ho. }
    destruct (Forall2_exists (fun o b => Eval r a_r o (inj b)) (outputs r)) as [brs Hbrs].
    { intros o Ho. apply (Eval_exists r a_r Wr Ar Tr). apply (wf_outs r Wr), Ho. }
    pose proof (Forall2_length_eq _ _ _ Hbls) as Lbl. fold n in Lbl.
    pose proof (Forall2_length_eq _ _ _ Hbrs) as Lbr. rewrite <- Lout in Lbr. fold n in Lbr.
    (* transfer of values along the construction *)
    assert (E1 : forall g v, has_gate l g = true -> (Eval m1 a (ren1 g) v <-> Eval l a_l g v)).
    { intros g v Hg.
      pose proof (add_circuit_other_gates empty_circuit l ln true m1 WF_empty Wl H1 a a_l) as T.
      rewrite (conn_prefix_true ln Hln) in T. apply T; [|exact Hg]. intros x Hx; apply Hal, Hx. }
    assert (B12 : forall b v, has_gate m1 b = true -> (Eval m2 a b v <-> Eval m1 a b v)).
    { intros b v. apply (left_base_gates m1 r tc2 (inputs r) rn true m2 W1 Wr H2). }
    assert (E2 : forall y v, has_gate r y = true -> (Eval m2 a (ren2 y) v <-> Eval r a_r y v)).
    { apply (left_other_gates_nth m1 r tc2 (inputs r) rn true m2 W1 Wr H2 a a_r).
      - intros i o t Ho Ht. unfold tc2 in Ht. apply nth_error_map_inv in Ht. destruct Ht as (x & Hx & ->).
        rewrite (Har i x o Hx Ho).
        pose proof (nth_error_In _ _ Hx) as Hx'. pose proof Hx' as Hx''.
        apply (wf_inputs l Wl) in Hx'. destruct Hx' as (g & Hg & Ht').
        apply E1; [eapply get_has_gate; exact Hg|].
        rewrite <- (Hal x Hx''). eapply EvalInput; eassumption.
      - intros x Hx Hn. contradiction. }
    assert (B23 : forall b v, has_gate m2 b = true -> (Eval m3 a b v <-> Eval m2 a b v)).
    { intros b v. apply (left_base_gates m2 px tc3 (inputs px) "pairwise_xor" true m3 W2 Wpx H3). }
    assert (B34 : forall b v, has_gate m3 b = true -> (Eval m3 a b v <-> Eval m4 a b v)).
    { intros b v Hb. apply Eval_ext; [| |exact Hb].
      - intros x g Hx. unfold m4. rewrite emplace_raw_gates, dget_dset.
        destruct (leqb_spec x "big_or") as [->|_]; [|exact Hx].
        apply get_has_gate in Hx. congruence.
      - intros x g o Hx Ho. eapply (wf_ops m3 W3); eassumption. }
    assert (VL : forall i o_l bl, nth_error (outputs l) i = Some o_l -> nth_error bls i = Some bl ->
                                  Eval m3 a (ren1 o_l) (inj bl)).
    { intros i o_l bl Ho Hb. pose proof (Forall2_nth _ _ _ _ _ _ Hbls Ho Hb) as He. simpl in He.
      apply (proj2 (E1 o_l _ (Eval_has_gate _ _ _ _ He))) in He.
      apply (proj2 (B12 _ _ (Eval_has_gate _ _ _ _ He))) in He.
      apply (proj2 (B23 _ _ (Eval_has_gate _ _ _ _ He))) in He. exact He. }
    assert (VR : forall i o_r br, nth_error (outputs r) i = Some o_r -> nth_error brs i = Some br ->
                                  Eval m3 a (ren2 o_r) (inj br)).
    { intros i o_r br Ho Hb. pose proof (Forall2_nth _ _ _ _ _ _ Hbrs Ho Hb) as He. simpl in He.
      apply (proj2 (E2 o_r _ (Eval_has_gate _ _ _ _ He))) in He.
      apply (proj2 (B23 _ _ (Eval_has_gate _ _ _ _ He))) in He. exact He. }
    (* the xor gates *)
    pose proof (left_spec m2 px tc3 (inputs px) "pairwise_xor" true m3 Wpx H3) as S3.
    destruct (cs_left _ _ _ _ _ _ _ _ S3 eq_refl) as [Nd3 In3].
    assert (X3 : forall i x y rr o_l o_r,
               nth_error xs i = Some x -> nth_error ys i = Some y -> nth_error rs i = Some rr ->
               nth_error (outputs l) i = Some o_l -> nth_error (outputs r) i = Some o_r ->
               dget (gates m3) (ren3 rr) = Some (mkGate XOR [ren1 o_l; ren2 o_r])).
    { intros i x y rr o_l o_r Hx Hy Hr Hol Hor.
      pose proof (Gpx i x y rr Hx Hy Hr) as Hg.
      assert (Hcp : copied tc3 (inputs px) false rr).
      { right. destruct (dget (build_mapping (inputs px) tc3 []) rr) as [t|] eqn:Em3; [|reflexivity].
        exfalso. apply bm_nil_key_in in Em3. apply In3 in Em3. unfold is_input_gate in Em3.
        rewrite Hg in Em3. discriminate. }
      pose proof (cs_copy _ _ _ _ _ _ _ _ S3 rr _ Hg Hcp) as Hc. fold ren3 in Hc. cbn [map gtyp gops] in Hc.
      assert (Rx : ren3 x = ren1 o_l).
      { unfold ren3, ren_of. rewrite (bm_nth_get (inputs px) tc3 [] i x (ren1 o_l) Nd3); [reflexivity| |].
        - rewrite Ipx. apply nth_error_app_l, Hx.
        - unfold tc3. apply nth_error_app_l. apply map_nth_error, Hol. }
      assert (Ry : ren3 y = ren2 o_r).
      { unfold ren3, ren_of. rewrite (bm_nth_get (inputs px) tc3 [] (n + i) y (ren2 o_r) Nd3); [reflexivity| |].
        - rewrite Ipx. rewrite <- Lx. apply nth_error_app_r, Hy.
        - unfold tc3. replace n with (length (map ren1 (outputs l))) by (rewrite map_length; reflexivity).
          apply nth_error_app_r. apply map_nth_error, Hor. }
      rewrite Rx, Ry in Hc. exact Hc. }
    assert (VX : forall i rr bl br, nth_error rs i = Some rr -> nth_error bls i = Some bl ->
                                    nth_error brs i = Some br -> Eval m4 a (ren3 rr) (inj (xorb bl br))).
    { intros i rr bl br Hr Hbl Hbr.
      assert (Hi : i < n) by (rewrite <- Lr; eapply nth_error_some_lt; exact Hr).
      destruct (nth_error_lt_some xs i) as [x Hx]; [lia|].
      destruct (nth_error_lt_some ys i) as [y Hy]; [lia|].
      destruct (nth_error_lt_some (outputs l) i) as [o_l Hol]; [exact Hi|].
      destruct (nth_error_lt_some (outputs r) i) as [o_r Hor]; [rewrite <- Lout; exact Hi|].
      pose proof (X3 i x y rr o_l o_r Hx Hy Hr Hol Hor) as Hg.
      apply B34; [eapply get_has_gate; exact Hg|].
      rewrite <- xor3_inj. eapply EvalGate; [exact Hg|simpl; discriminate| |apply xor_gate_value].
      simpl. constructor; [eapply VL; eassumption|constructor; [eapply VR; eassumption|constructor]]. }
    (* the top gate *)
    set (xl := map (fun p : bool * bool => xorb (fst p) (snd p)) (combine bls brs)).
    assert (Lxl : length xl = n).
    { unfold xl. rewrite map_length, combine_length, <- Lbl, <- Lbr. lia. }
    assert (Hxl : xl <> []).
    { intros E. rewrite E in Lxl. simpl in Lxl. unfold n in Lxl. destruct (outputs l); [contradiction|discriminate]. }
    destruct (miter_top_value xl Hxl) as (b & Hop & Hb). rewrite Lxl in Hop.
    exists b. split.
    { rewrite Em. apply (Eval_same_gates m4); [reflexivity|].
      eapply EvalGate; [unfold m4; rewrite emplace_raw_gates; apply dget_dset_same| | |exact Hop].
      - simpl. unfold miter_top. destruct (Nat.ltb 1 n); discriminate.
      - simpl. apply Forall2_of_nth; [rewrite !map_length; lia|].
        intros i lab v Hlab Hv. apply nth_error_map_inv in Hlab. destruct Hlab as (rr & Hr & ->).
        apply nth_error_map_inv in Hv. destruct Hv as (z & Hz & ->).
        unfold xl in Hz. apply nth_error_map_inv in Hz. destruct Hz as (p & Hp & ->).
        apply nth_error_combine_inv in Hp. destruct Hp as [Hbl Hbr].
        eapply VX; eassumption. }
    rewrite Hb. split.
    - intros Hin. apply In_nth_error in Hin. destruct Hin as [i Hi].
      unfold xl in Hi. apply nth_error_map_inv in Hi. destruct Hi as (p & Hp & Ez).
      apply nth_error_combine_inv in Hp. destruct Hp as [Hbl Hbr].
      assert (Hlt : i < n) by (rewrite Lbl; eapply nth_error_some_lt; exact Hbl).
      destruct (nth_error_lt_some (outputs l) i) as [o_l Hol]; [exact Hlt|].
      destruct (nth_error_lt_some (outputs r) i) as [o_r Hor]; [rewrite <- Lout; exact Hlt|].
      exists i, o_l, o_r, (inj (fst p)), (inj (snd p)).
      split; [exact Hol|]. split; [exact Hor|].
      split; [exact (Forall2_nth _ _ _ _ _ _ Hbls Hol Hbl)|].
      split; [exact (Forall2_nth _ _ _ _ _ _ Hbrs Hor Hbr)|].
      apply inj_neq_xorb. symmetry; exact Ez.
    - intros (i & o_l & o_r & vl & vr & Hol & Hor & Hvl & Hvr & Hd).
      assert (Hlt : i < n) by (eapply nth_error_some_lt; exact Hol).
      destruct (nth_error_lt_some bls i) as [bl Hbl]; [lia|].
      destruct (nth_error_lt_some brs i) as [br Hbr]; [lia|].
      pose proof (Forall2_nth _ _ _ _ _ _ Hbls Hol Hbl) as Hl'. simpl in Hl'.
      pose proof (Forall2_nth _ _ _ _ _ _ Hbrs Hor Hbr) as Hr'. simpl in Hr'.
      rewrite (Eval_functional _ _ _ _ _ Hvl Hl'), (Eval_functional _ _ _ _ _ Hvr Hr') in Hd.
      apply inj_neq_xorb in Hd.
      apply (nth_error_In xl i). unfold xl.
      rewrite (map_nth_error _ _ _ (nth_error_combine _ _ _ _ _ Hbl Hbr)). simpl. rewrite Hd. reflexivity.
  Qed.
End Miter.

(* ------------------------------------------------------------------ *)
(* the assignments of l and r that correspond to an assignment a of the miter inputs:
   input x of l reads ln@x; the i-th input of r reads what the i-th input of l reads *)
Definition miter_left_assignment (ln : label) (a : assignment) (l : circuit) : assignment :=
  map (fun x => (x, aval a ((ln ++ "@") ++ x)%string)) (inputs l).
Definition miter_right_assignment (ln : label) (a : assignment) (l r : circuit) : assignment :=
  combine (inputs r) (map (fun x => aval a ((ln ++ "@") ++ x)%string) (inputs l)).

Lemma miter_left_assignment_ok ln a l x :
  In x (inputs l) -> aval (miter_left_assignment ln a l) x = aval a ((ln ++ "@") ++ x)%string.
Proof. intros Hx. unfold aval at 1, miter_left_assignment. rewrite (dget_map_pair _ _ _ Hx). reflexivity. Qed.

Lemma miter_right_assignment_ok ln a l r i x y :
  WF r -> nth_error (inputs l) i = Some x -> nth_error (inputs r) i = Some y ->
  aval (miter_right_assignment ln a l r) y = aval a ((ln ++ "@") ++ x)%string.
Proof.
  intros Wr Hx Hy. unfold aval at 1, miter_right_assignment.
  rewrite (dget_combine_nth (inputs r) _ i y (aval a ((ln ++ "@") ++ x)%string) (wf_inputs_nodup r Wr) Hy).
  - reflexivity.
  - apply (map_nth_error (fun x0 => aval a ((ln ++ "@") ++ x0)%string)), Hx.
Qed.

(* the headline form *)
Theorem build_miter_true_iff_differ l r ln rn m :
  WF l -> WF r -> arity_ok l -> arity_ok r -> ln <> "" -> rn <> "" -> outputs l <> [] ->
  build_miter l r ln rn = Ok m ->
  forall a, (forall x, In x (inputs m) -> aval a x <> U) ->
    (exists b, Eval m a "big_or" (inj b)) /\
    (Eval m a "big_or" T <->
     exists i o_l o_r vl vr,
       nth_error (outputs l) i = Some o_l /\ nth_error (outputs r) i = Some o_r /\
       Eval l (miter_left_assignment ln a l) o_l vl /\
       Eval r (miter_right_assignment ln a l r) o_r vr /\ vl <> vr).
Proof.
  intros Wl Wr Al Ar Hln Hrn Hne Hm a Htot.
  destruct (build_miter_correct l r ln rn m Wl Wr Hln Hrn Hm) as (_ & Hi & _ & Hsem).
  destruct (Hsem Hne Al Ar a (miter_left_assignment ln a l) (miter_right_assignment ln a l r))
    as (b & Hb & Hiff).
  - intros x Hx. apply Htot. rewrite Hi. apply in_map, Hx.
  - intros x Hx. apply miter_left_assignment_ok, Hx.
  - intros i x y Hx Hy. eapply miter_right_assignment_ok; eassumption.
  - split; [exists b; exact Hb|]. rewrite <- Hiff. split.
    + intros HT. pose proof (Eval_functional _ _ _ _ _ Hb HT) as E. destruct b; [reflexivity|discriminate].
    + intros ->. exact Hb.
Qed.

(* executable arity check, for concrete examples *)
Definition arity_okb (c : circuit) : bool :=
  forallb (fun kg : label * gate =>
             gtype_beq (gtyp (snd kg)) INPUT || den_accepts (gtyp (snd kg)) (length (gops (snd kg))))
          (gates c).

Lemma arity_okb_sound c : arity_okb c = true -> arity_ok c.
Proof.
  unfold arity_okb; rewrite forallb_forall. intros H l g Hg Ht.
  specialize (H (l, g) (dget_In _ _ _ Hg)); simpl in H. apply orb_true_iff in H.
  destruct H as [H|H]; [apply gtype_beq_eq in H; contradiction|exact H].
Qed.
