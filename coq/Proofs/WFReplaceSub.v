(* C02: replace_subcircuit preserves the invariant.  After the block is removed the users of
   its outputs outside the block have dangling operands (labels D = the mapped outputs) and the
   users lists of D are kept aside in `saved`; the invariant Jinv of the re-insertion loop says
   that the users index plus the saved lists is the inverse operand relation. *)
Require Import Cirbo.Model.Base Cirbo.Model.Gate Cirbo.Model.Circuit Cirbo.Model.Traverse
        Cirbo.Model.Connect Cirbo.Model.WF.
Require Import Cirbo.Proofs.DictFacts Cirbo.Proofs.WFBase Cirbo.Proofs.WFSimple Cirbo.Proofs.WFEmplace
        Cirbo.Proofs.WFRemove Cirbo.Proofs.WFRename Cirbo.Proofs.WFRename2 Cirbo.Proofs.WFReplaceSub1.
Require Import Cirbo.Proofs.TopSortWF Cirbo.Proofs.CycleCheck.
Require Import Coq.Sorting.Permutation.

Lemma WF_WFmodD R D c :
  WF c -> (forall l u, In l R -> In u (users_of c l) -> In u R \/ In l D) -> WFmod R D c.
Proof.
  intros W HR; pose proof W as W'; destruct W; constructor; auto.
  - intros l g o Hg Ho; left; eauto.
  - intros l H; apply users_of_nongate; assumption.
Qed.

Record Jinv (S : label -> list label) (D : list label) (c : circuit) : Prop := mkJinv {
  j_gkeys : NoDup (dkeys (gates c));
  j_ukeys : NoDup (dkeys (users c));
  j_bkeys : NoDup (dkeys (blocks c));
  j_ops : forall l g o, dget (gates c) l = Some g -> In o (gops g) -> has_gate c o = true \/ In o D;
  j_users : forall l u, count u (users_of c l) + count u (S l) = count l (ops_of c u);
  j_inputs_nodup : NoDup (inputs c);
  j_inputs : forall l, In l (inputs c) <-> exists g, dget (gates c) l = Some g /\ gtyp g = INPUT;
  j_blocks : forall b blk l, dget (blocks c) b = Some blk ->
                             In l (bgates blk ++ binputs blk ++ boutputs blk) -> has_gate c l = true }.

Lemma J_emplace S D c l t ops :
  Jinv S D c -> has_gate c l = false -> (forall o, In o ops -> has_gate c o = true) ->
  Jinv S D (emplace_gate_raw c l t ops).
Proof.
  intros J Hl Hops. pose proof (has_gate_false_get _ _ Hl) as Hlg. constructor.
  - rewrite emplace_raw_gates; apply NoDup_dkeys_dset, (j_gkeys _ _ _ J).
  - rewrite emplace_raw_users; apply add_users_ukeys, (j_ukeys _ _ _ J).
  - rewrite emplace_raw_blocks; apply (j_bkeys _ _ _ J).
  - intros x g o Hg Ho. rewrite emplace_raw_has_gate. rewrite emplace_raw_gates, dget_dset in Hg.
    destruct (leqb x l).
    + injection Hg as <-; simpl in Ho. left. rewrite (Hops o Ho); apply orb_true_r.
    + destruct (j_ops _ _ _ J x g o Hg Ho) as [Hh|Hd]; [left; rewrite Hh; apply orb_true_r|right; exact Hd].
  - intros x u. rewrite emplace_raw_users_of, count_users_add_users, emplace_raw_ops_of.
    pose proof (j_users _ _ _ J x u) as Hxu.
    destruct (leqb_spec u l) as [Heq|Hne]; [subst u|lia].
    rewrite (ops_of_none _ _ Hlg) in Hxu; simpl in Hxu. lia.
  - rewrite emplace_raw_inputs. destruct (gtype_beq t INPUT); [|apply (j_inputs_nodup _ _ _ J)].
    apply NoDup_count; intros x; rewrite count_app; simpl.
    pose proof (proj1 (NoDup_count _) (j_inputs_nodup _ _ _ J) x) as Hx.
    destruct (leqb_spec x l) as [Heq|Hne]; [subst x|lia].
    assert (~ In l (inputs c)) as Hn.
    { intros Hin; apply (j_inputs _ _ _ J) in Hin; destruct Hin as [g [Hg _]]; congruence. }
    apply count_zero_nIn in Hn; lia.
  - intros x. rewrite emplace_raw_inputs, emplace_raw_gates, dget_dset.
    destruct (leqb_spec x l) as [Heq|Hne]; [subst x|].
    + destruct (gtype_beq t INPUT) eqn:Et.
      * split; [intros _|intros _; apply in_or_app; right; left; reflexivity].
        eexists; split; [reflexivity|]. apply gtype_beq_eq, Et.
      * split.
        -- intros Hin; apply (j_inputs _ _ _ J) in Hin; destruct Hin as [g [Hg _]]; congruence.
        -- intros [g [[= <-] Ht]]; simpl in Ht. apply gtype_beq_eq in Ht; congruence.
    + rewrite <- (j_inputs _ _ _ J). destruct (gtype_beq t INPUT); [|tauto].
      rewrite in_app_iff; simpl. split; [|tauto]. intros [H|[H|[]]]; [assumption|congruence].
  - intros b blk x Hb Hx. rewrite emplace_raw_blocks in Hb. rewrite emplace_raw_has_gate.
    rewrite (j_blocks _ _ _ J b blk x Hb Hx); apply orb_true_r.
Qed.

Lemma J_reinsert S D sub skip : inputs_nullary sub -> forall order c c',
  Jinv S D c -> inputs_nullary c ->
  foldM (fun c l => if memb l skip then Ok c else
                    do g <- get_gate sub l; add_gate c l (gtyp g) (gops g)) order c = Ok c' ->
  Jinv S D c' /\ inputs_nullary c'.
Proof.
  intros Ns order; induction order as [|l order IH]; simpl; intros c c' J N H; [injection H as <-; auto|].
  binv H c1 H1. destruct (memb l skip); [injection H1 as <-; eapply IH; eassumption|].
  binv H1 g Hg. apply get_gate_ok in Hg. unfold add_gate in H1.
  pose proof (emplace_gate_nullary c l (gtyp g) (gops g) c1 N (fun Ht => Ns l g Hg Ht) H1) as N1.
  apply emplace_gate_inv in H1. destruct H1 as (Hl & Hops & ->).
  eapply IH; [|exact N1|exact H]. apply J_emplace; assumption.
Qed.

Theorem replace_subcircuit_inv c sub imap omap fresh c' :
  WF c -> inputs_nullary c -> WF sub -> inputs_nullary sub ->
  replace_subcircuit c sub imap omap fresh = Ok c' -> WF c' /\ inputs_nullary c'.
Proof.
  intros W N Ws Ns H. unfold replace_subcircuit in H.
  binv H u0 H0. binv H u1 H1. binv H u2 H2. binv H u3 H3. binv H u4 H4. binv H u5 H5.
  binv H c1 Hc1. binv H c2 Hc2. binv H c3 Hc3. binv H blk Hblk. binv H u6 H6. binv H saved Hsaved.
  binv H u7 H7. binv H c4 Hc4. binv H order Hord. binv H c5 Hc5. binv H u8 H8. injection H as <-.
  destruct (nodupb (dkeys imap ++ dkeys omap)) eqn:Enk; [|discriminate]. apply nodupb_NoDup in Enk.
  (* A: the renamings *)
  assert (HA : foldM ren_step (imap ++ omap) c = Ok c2).
  { rewrite foldM_app. unfold ren_step. rewrite Hc1; simpl. exact Hc2. }
  apply (ren_fold _ c c2 []) in HA; try assumption;
    [|rewrite dkeys_app; assumption
     |intros k Hk; rewrite dkeys_app in Hk; apply in_app_or in Hk; destruct Hk as [Hk|Hk];
      [apply (check_gates_exist_unit _ _ _ H1)|apply (check_gates_exist_unit _ _ _ H2)]; exact Hk
     |intros v []|constructor|intros v []].
  simpl in HA. destruct HA as (W2 & N2 & Hvn & Hvg). rewrite dvals_app in Hvn, Hvg.
  set (D := dvals omap) in *.
  assert (HD : NoDup D).
  { apply NoDup_count; intros x. pose proof (proj1 (NoDup_count _) Hvn x) as Hx.
    rewrite count_app in Hx; lia. }
  assert (Hdisj : forall o, In o D -> ~ In o (dvals imap)).
  { intros o Ho Hi. pose proof (proj1 (NoDup_count _) Hvn o) as Hx. rewrite count_app in Hx.
    apply count_pos_In in Ho, Hi. lia. }
  (* B: the block *)
  pose proof (make_block_from_slice_wf _ _ _ _ _ W2 Hc3) as W3.
  apply make_block_from_slice_inv in Hc3. destruct Hc3 as (gs & Hincl & Ec3).
  set (bg := canonical_block_gates c2 gs) in *.
  assert (G3 : gates c3 = gates c2) by (rewrite Ec3; reflexivity).
  assert (Eblk : blk = mkBlock (dvals imap) bg D).
  { unfold get_block in Hblk. rewrite Ec3 in Hblk; simpl in Hblk. rewrite dget_dset_same in Hblk.
    injection Hblk as <-; reflexivity. }
  assert (Ebg : bgates blk = bg) by (rewrite Eblk; reflexivity).
  assert (HDbg : forall o, In o D -> In o bg).
  { intros o Ho. unfold bg, canonical_block_gates. apply filter_In. split.
    - apply dmem_keys. apply Hvg, in_or_app; right; exact Ho.
    - apply memb_In, Hincl, In_dedup, filter_In. split; [exact Ho|].
      apply negb_true_iff, memb_nIn, Hdisj, Ho. }
  (* C: the saved users *)
  rewrite Ebg in Hsaved.
  assert (Hsv : NoDup (dkeys saved) /\
                forall x, lst saved x = if memb x D then filter (fun u => negb (memb u bg)) (users_of c3 x)
                                         else []).
  { apply (saved_spec c3 bg D [] saved HD); [constructor|exact Hsaved]. }
  destruct Hsv as [Hsk Hsl]. set (S := lst saved) in *.
  (* D: the removal *)
  unfold remove_block_raw in Hc4. binv Hc4 blk' Hblk'. assert (blk' = blk) by congruence. subst blk'.
  rewrite Ebg in Hc4.
  assert (M3 : WFmod bg D c3).
  { apply WF_WFmodD; [assumption|]. intros l u Hl Hu. unfold check_block_has_no_users in H7.
    rewrite Ebg in H7. destruct (check_block_loop_spec _ _ _ _ _ H7 l Hl) as [Hd|Hall]; auto. }
  pose proof (remove_loop_WFmod D bg c3 c4 M3 Hc4) as M4.
  pose proof (remove_loop_gates bg c3 c4 (wf_gkeys c3 W3) Hc4) as G4.
  assert (N3 : inputs_nullary c3) by (intros l g; rewrite G3; apply N2).
  destruct (remove_loop_nullary bg c3 c4 (wf_gkeys c3 W3) N3 Hc4) as [N4 _].
  assert (Hh4 : forall x, has_gate c4 x = negb (memb x bg) && has_gate c3 x).
  { intros x; unfold has_gate, dmem; rewrite G4. destruct (memb x bg); reflexivity. }
  (* E: the invariant of the re-insertion loop *)
  assert (J4 : Jinv S D c4).
  { constructor; try (destruct M4; assumption).
    - intros l g o Hg Ho. destruct (wm_ops _ _ _ M4 l g o Hg Ho) as [Hh|[[]|Hd]]; auto.
    - intros l u. destruct (has_gate c4 l) eqn:El.
      + assert (memb l D = false) as HlD.
        { apply memb_nIn; intros Hin. apply HDbg, memb_In in Hin. rewrite Hh4, Hin in El; discriminate. }
        unfold S; rewrite Hsl, HlD; simpl. rewrite (wm_users1 _ _ _ M4 l u El); lia.
      + rewrite (wm_users2 _ _ _ M4 l El); simpl. unfold S; rewrite Hsl.
        destruct (memb l D) eqn:HlD.
        * rewrite count_filter. unfold ops_of; rewrite G4. destruct (memb u bg); simpl; [reflexivity|].
          fold (ops_of c3 u). apply (wf_users c3 W3).
        * simpl. symmetry; apply count_zero_nIn; intros Hin. unfold ops_of in Hin.
          destruct (dget (gates c4) u) as [g|] eqn:Eg; [|destruct Hin].
          destruct (wm_ops _ _ _ M4 u g l Eg Hin) as [Hh|[[]|Hd]]; [congruence|].
          apply memb_nIn in HlD; contradiction. }
  destruct (J_reinsert S D sub (dvals imap) Ns order c4 c5 J4 N4 Hc5) as [J5 N5].
  (* F: every mapped output has been re-inserted *)
  destruct (reinsert_has sub (dvals imap) order c4 c5 Hc5) as [Hmono Hall].
  assert (HD5 : forall o, In o D -> has_gate c5 o = true).
  { intros o Ho. apply Hall; [|apply Hdisj, Ho].
    eapply Permutation_in; [apply Permutation_sym; apply (top_sort_perm sub true order Ws Hord)|].
    apply dmem_keys. apply (check_gates_exist_unit _ _ _ H3), Ho. }
  (* G: outputs and users restored *)
  set (c6 := set_outputs_raw c5 (outputs c3)) in *.
  destruct (restore_fold saved c6 Hsk (j_ukeys _ _ _ J5)) as (G7 & I7 & O7 & B7 & U7k & U7).
  fold restore_step in H8. set (c7 := fold_left restore_step saved c6) in *.
  assert (G75 : gates c7 = gates c5) by (rewrite G7; reflexivity).
  assert (Hh7 : forall x, has_gate c7 x = has_gate c5 x) by (intros x; unfold has_gate; rewrite G75; reflexivity).
  change (WF c7 /\ inputs_nullary c7).
  change (check_circuit_has_no_cycles_from c7 (Some (dkeys (gates c7))) = Ok u8) in H8.
  split.
  - constructor.
    + rewrite G75; apply (j_gkeys _ _ _ J5).
    + exact U7k.
    + rewrite B7; apply (j_bkeys _ _ _ J5).
    + intros l g o Hg Ho. rewrite Hh7. rewrite G75 in Hg.
      destruct (j_ops _ _ _ J5 l g o Hg Ho) as [Hh|Hd]; [exact Hh|apply HD5, Hd].
    + intros o Ho. rewrite O7 in Ho; simpl in Ho. rewrite Hh7.
      destruct (memb o bg) eqn:Eo.
      * apply HD5. destruct (forallb _ (outputs c3)) eqn:E6; [|discriminate].
        rewrite forallb_forall in E6. specialize (E6 o Ho). rewrite Ebg, Eo in E6; simpl in E6.
        apply memb_In, E6.
      * apply Hmono. rewrite Hh4, Eo; simpl. apply (wf_outs c3 W3), Ho.
    + intros l u. rewrite U7, count_app. unfold ops_of; rewrite G75. apply (j_users _ _ _ J5).
    + rewrite I7; apply (j_inputs_nodup _ _ _ J5).
    + intros l. rewrite I7, G75. apply (j_inputs _ _ _ J5).
    + rewrite G75 in H8. rewrite <- G75 in H8. destruct u8. apply check_all_gates_acyclic in H8. exact H8.
    + intros b bk l Hb Hl. rewrite B7 in Hb. rewrite Hh7. eapply (j_blocks _ _ _ J5); eassumption.
  - intros l g; rewrite G75; apply N5.
Qed.
