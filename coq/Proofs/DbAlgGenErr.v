(* T23, error sets: the hand model functions of the database codec (Model/Codec.v, Model/Db.v and what they
   call in Model/Circuit.v, Model/BitIO.v) never return one of the three constructors that the generated code
   uses as stand-ins for the exception classes missing from Base.err (DbAlgGenDefs.db_alias). *)
Require Import Cirbo.Model.Base Cirbo.Model.Gate Cirbo.Model.Circuit Cirbo.Model.BitIO Cirbo.Model.DictIO.
Require Import Cirbo.Model.Codec Cirbo.Model.Db.
Require Import Cirbo.Proofs.DbAlgGenDefs.

Definition clean {A} (r : res A) : Prop := forall e, r = Err e -> db_alias e = false.
Definition dbclean {A} (r : dbres A) : Prop := forall e, r = DbErr (BaseErr e) -> db_alias e = false.

Lemma clean_ok {A} (a : A) : clean (Ok a).
Proof. intros e H; discriminate. Qed.
Lemma clean_err {A} e : db_alias e = false -> clean (@Err A e).
Proof. intros H e' H'; inversion H'; subst; exact H. Qed.
Lemma clean_bind {A B} (r : res A) (f : A -> res B) :
  clean r -> (forall a, clean (f a)) -> clean (bind r f).
Proof.
  intros Hr Hf; destruct r as [a|e]; simpl; [apply Hf|].
  intros e' H; inversion H; subst; apply Hr; reflexivity.
Qed.
Lemma clean_foldM {A S} (f : S -> A -> res S) :
  (forall s a, clean (f s a)) -> forall l s, clean (foldM f l s).
Proof.
  intros Hf l; induction l as [|x xs IH]; intros s; simpl; [apply clean_ok|].
  apply clean_bind; [apply Hf|intros; apply IH].
Qed.
Lemma clean_mapM {A B} (f : A -> res B) :
  (forall a, clean (f a)) -> forall l, clean (mapM f l).
Proof.
  intros Hf l; induction l as [|x xs IH]; simpl; [apply clean_ok|].
  apply clean_bind; [apply Hf|intros]. apply clean_bind; [apply IH|intros; apply clean_ok].
Qed.
Lemma clean_iterM {S} (f : S -> res S) :
  (forall s, clean (f s)) -> forall n s, clean (iterM n f s).
Proof.
  intros Hf n; induction n as [|n IH]; intros s; simpl; [apply clean_ok|].
  apply clean_bind; [apply Hf|intros; apply IH].
Qed.

Lemma dbclean_ok {A} (a : A) : dbclean (DbOk a).
Proof. intros e H; discriminate. Qed.
Lemma dbclean_lift {A} (r : res A) : clean r -> dbclean (lift r).
Proof. intros Hr e H; destruct r as [a|e0]; simpl in H; [discriminate|]. inversion H; subst. apply Hr; reflexivity. Qed.
Lemma dbclean_bind {A B} (r : dbres A) (f : A -> dbres B) :
  dbclean r -> (forall a, dbclean (f a)) -> dbclean (dbbind r f).
Proof.
  intros Hr Hf; destruct r as [a|e]; simpl; [apply Hf|].
  intros e' H; inversion H; subst; apply Hr; reflexivity.
Qed.
Lemma dbclean_nc {A} : dbclean (@DbErr A NotCompatibleWithNormalization).
Proof. intros e H; discriminate. Qed.
Lemma dbclean_dbe {A} : dbclean (@DbErr A CircuitsDatabaseError).
Proof. intros e H; discriminate. Qed.

Create HintDb cln.
#[local] Hint Resolve clean_ok dbclean_ok dbclean_nc dbclean_dbe : cln.

Ltac cl1 :=
  first
    [ apply clean_ok
    | apply clean_err; reflexivity
    | solve [auto with cln]
    | apply clean_bind; [|intros]
    | apply clean_foldM; intros
    | apply clean_mapM; intros
    | apply clean_iterM; intros
    | apply dbclean_bind; [|intros]
    | apply dbclean_lift
    | match goal with
      | |- clean (if ?b then _ else _) => destruct b
      | |- dbclean (if ?b then _ else _) => destruct b
      | |- clean (match ?x with _ => _ end) => destruct x
      | |- dbclean (match ?x with _ => _ end) => destruct x
      end ].
Ltac cl := repeat (cbv zeta; cl1).

(* ---- Circuit.v ---- *)
Lemma get_gate_clean c l : clean (get_gate c l).
Proof. unfold get_gate; cl. Qed.
#[local] Hint Resolve get_gate_clean : cln.
Lemma check_gates_exist_clean ls c : clean (check_gates_exist ls c).
Proof. induction ls as [|l ls IH]; simpl; cl. Qed.
#[local] Hint Resolve check_gates_exist_clean : cln.
Lemma check_label_doesnt_exist_clean l c : clean (check_label_doesnt_exist l c).
Proof. unfold check_label_doesnt_exist; cl. Qed.
#[local] Hint Resolve check_label_doesnt_exist_clean : cln.
Lemma emplace_gate_clean c l t ops : clean (emplace_gate c l t ops).
Proof. unfold emplace_gate; cl. Qed.
Lemma add_gate_clean c l t ops : clean (add_gate c l t ops).
Proof. apply emplace_gate_clean. Qed.
#[local] Hint Resolve emplace_gate_clean add_gate_clean : cln.
Lemma mark_as_output_clean c l : clean (mark_as_output c l).
Proof. unfold mark_as_output; cl. Qed.
#[local] Hint Resolve mark_as_output_clean : cln.
Lemma order_list_loop_clean ordered : forall old acc, clean (order_list_loop ordered old acc).
Proof. induction ordered as [|x xs IH]; intros old acc; simpl; cl. Qed.
#[local] Hint Resolve order_list_loop_clean : cln.
Lemma order_list_clean ordered old : clean (order_list ordered old).
Proof. unfold order_list; cl. Qed.
#[local] Hint Resolve order_list_clean : cln.
Lemma order_outputs_clean c outs : clean (order_outputs c outs).
Proof. unfold order_outputs; cl. Qed.
#[local] Hint Resolve order_outputs_clean : cln.

(* ---- BitIO.v ---- *)
Lemma write_number_clean x k : clean (write_number x k).
Proof. unfold write_number; cl. Qed.
#[local] Hint Resolve write_number_clean : cln.
Lemma write_byte_clean x : clean (write_byte x).
Proof. unfold write_byte; cl. Qed.
#[local] Hint Resolve write_byte_clean : cln.
Lemma br_read_clean r : clean (br_read r).
Proof. unfold br_read; cl. Qed.
#[local] Hint Resolve br_read_clean : cln.
Lemma read_number_clean k : forall r, clean (read_number k r).
Proof. induction k as [|k IH]; intros r; simpl; cl. Qed.
#[local] Hint Resolve read_number_clean : cln.
Lemma read_byte_clean r : clean (read_byte r).
Proof. unfold read_byte; cl. Qed.
#[local] Hint Resolve read_byte_clean : cln.

(* ---- Codec.v, encoder ---- *)
Lemma enum_pass_clean c pending : forall d p, clean (enum_pass c pending d p).
Proof. induction pending as [|l rest IH]; intros d p; simpl; cl. Qed.
#[local] Hint Resolve enum_pass_clean : cln.
Lemma enum_loop_clean fuel : forall c pending d, clean (enum_loop fuel c pending d).
Proof. induction fuel as [|n IH]; intros c [|x xs] d; simpl; cl. Qed.
#[local] Hint Resolve enum_loop_clean : cln.
Lemma enumerate_gates_clean c : clean (enumerate_gates c).
Proof. unfold enumerate_gates; cl. Qed.
#[local] Hint Resolve enumerate_gates_clean : cln.
Lemma write_id_clean d ws l : clean (write_id d ws l).
Proof. unfold write_id; cl. Qed.
#[local] Hint Resolve write_id_clean : cln.
Lemma encode_gate_clean c d ws l : clean (encode_gate c d ws l).
Proof. unfold encode_gate; cl. Qed.
#[local] Hint Resolve encode_gate_clean : cln.
Lemma encode_bits_clean c : clean (encode_bits c).
Proof. unfold encode_bits; cl. Qed.
#[local] Hint Resolve encode_bits_clean : cln.
Lemma encode_circuit_clean c : clean (encode_circuit c).
Proof. unfold encode_circuit; cl. Qed.

(* ---- Codec.v, decoder ---- *)
Lemma read_operands_clean n : forall ws r gl acc, clean (read_operands n ws r gl acc).
Proof. induction n as [|n IH]; intros ws r gl acc; simpl; cl. Qed.
#[local] Hint Resolve read_operands_clean : cln.
Lemma decode_gate_clean ws st : clean (decode_gate ws st).
Proof. unfold decode_gate; cl. Qed.
#[local] Hint Resolve decode_gate_clean : cln.
Lemma decode_input_clean st : clean (decode_input st).
Proof. unfold decode_input; cl. Qed.
#[local] Hint Resolve decode_input_clean : cln.
Lemma decode_output_clean ws st : clean (decode_output ws st).
Proof. unfold decode_output; cl. Qed.
#[local] Hint Resolve decode_output_clean : cln.
Lemma decode_bits_clean r : clean (decode_bits r).
Proof. unfold decode_bits; cl. Qed.
#[local] Hint Resolve decode_bits_clean : cln.
Lemma decode_circuit_clean bs : clean (decode_circuit bs).
Proof. unfold decode_circuit; cl. Qed.
#[local] Hint Resolve decode_circuit_clean : cln.

(* ---- Db.v ---- *)
Lemma normalize_outputs_clean t : clean (normalize_outputs t).
Proof. induction t as [|row rest IH]; simpl; cl. Qed.
#[local] Hint Resolve normalize_outputs_clean : cln.
Lemma delete_duplicate_outputs_clean t : clean (delete_duplicate_outputs t).
Proof. unfold delete_duplicate_outputs; cl. Qed.
#[local] Hint Resolve delete_duplicate_outputs_clean : cln.
Lemma normalize_clean t : clean (normalize t).
Proof. unfold normalize; cl. Qed.
Lemma nth_res_clean {A} (l : list A) i : clean (nth_res l i).
Proof. unfold nth_res; cl. Qed.
#[local] Hint Resolve nth_res_clean : cln.
Lemma undo_outputs_deletion_clean ni c : clean (undo_outputs_deletion ni c).
Proof. unfold undo_outputs_deletion; cl. Qed.
#[local] Hint Resolve undo_outputs_deletion_clean : cln.
Lemma list_set_clean {A} (l : list A) : forall i x, clean (list_set l i x).
Proof. induction l as [|y r IH]; intros [|i] x; simpl; cl. Qed.
#[local] Hint Resolve list_set_clean : cln.
Lemma negate_gate_clean c g : clean (negate_gate c g).
Proof. unfold negate_gate; cl. Qed.
#[local] Hint Resolve negate_gate_clean : cln.
Lemma unsort_outputs_dbclean ni c : dbclean (unsort_outputs ni c).
Proof. unfold unsort_outputs; cl. Qed.
#[local] Hint Resolve unsort_outputs_dbclean : cln.
Lemma denormalize_outputs_dbclean ni c : dbclean (denormalize_outputs ni c).
Proof. unfold denormalize_outputs; cl. Qed.
#[local] Hint Resolve denormalize_outputs_dbclean : cln.
Lemma denormalize_dbclean ni c : dbclean (denormalize ni c).
Proof. unfold denormalize; cl. Qed.
Lemma get_by_label_clean d l : clean (get_by_label d l).
Proof. unfold get_by_label; cl. Qed.

(* ---- the statements used by Proofs/DbAlgGen*.v ---- *)
Lemma decode_circuit_no_alias bs e : decode_circuit bs = Err e -> db_alias e = false.
Proof. apply decode_circuit_clean. Qed.
Lemma encode_circuit_no_alias c e : encode_circuit c = Err e -> db_alias e = false.
Proof. apply encode_circuit_clean. Qed.
Lemma normalize_no_alias t e : normalize t = Err e -> db_alias e = false.
Proof. apply normalize_clean. Qed.
Lemma denormalize_no_alias ni c e : denormalize ni c = DbErr (BaseErr e) -> db_alias e = false.
Proof. apply denormalize_dbclean. Qed.
Lemma get_by_label_no_alias d l e : get_by_label d l = Err e -> db_alias e = false.
Proof. apply get_by_label_clean. Qed.
