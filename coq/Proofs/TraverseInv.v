(* Invariants of the work-list traversal that hold in both modes and for every
   discover hook: visited = yielded, soundness and closure w.r.t. reachability,
   log discipline (enter before exit, no exit in BFS).  No assumption on the circuit. *)
Require Import Cirbo.Model.Base Cirbo.Model.Gate Cirbo.Model.Circuit Cirbo.Model.Traverse Cirbo.Model.WF.
Require Import Cirbo.Proofs.DictFacts Cirbo.Proofs.TopSort Cirbo.Proofs.TopSortWF Cirbo.Proofs.TraverseStep.

(* ---------------- reachability ---------------- *)
Section Reach.
  Variable nx : label -> list label.
  Inductive reach (starts : list label) : label -> Prop :=
  | reach_start s : In s starts -> reach starts s
  | reach_step a b : reach starts a -> In b (nx a) -> reach starts b.
  (* a path with at least one edge *)
  Inductive tc : label -> label -> Prop :=
  | tc_one a b : In b (nx a) -> tc a b
  | tc_step a b d : tc a b -> In d (nx b) -> tc a d.

  Lemma tc_trans a b d : tc a b -> tc b d -> tc a d.
  Proof. intros H1 H2; induction H2; [eapply tc_step; eauto|eapply tc_step; [apply IHtc; exact H1|eauto]]. Qed.
  Lemma tc_left a b d : In b (nx a) -> tc b d -> tc a d.
  Proof. intros H1 H2. eapply tc_trans; [apply tc_one; exact H1|exact H2]. Qed.
  Lemma reach_tc starts a b : reach starts a -> tc a b -> reach starts b.
  Proof. intros H1 H2; induction H2; [eapply reach_step; eauto|eapply reach_step; [apply IHtc; exact H1|eauto]]. Qed.
  Lemma reach_closed (starts : list label) (P : label -> Prop) :
    (forall s, In s starts -> P s) -> (forall a b, P a -> In b (nx a) -> P b) ->
    forall x, reach starts x -> P x.
  Proof. intros H1 H2 x H; induction H; eauto. Qed.
End Reach.

(* ---------------- projections of the log ---------------- *)
Definition enters (log : list event) : list label :=
  flat_map (fun e => match e with EvEnter l => [l] | _ => [] end) log.
Definition exits (log : list event) : list label :=
  flat_map (fun e => match e with EvExit l => [l] | _ => [] end) log.
Definition unvisited_of (log : list event) : list label :=
  flat_map (fun e => match e with EvUnvisited l => [l] | _ => [] end) log.

Lemma yielded_app l1 l2 : yielded (l1 ++ l2) = yielded l1 ++ yielded l2.
Proof. apply flat_map_app. Qed.
Lemma enters_app l1 l2 : enters (l1 ++ l2) = enters l1 ++ enters l2.
Proof. apply flat_map_app. Qed.
Lemma exits_app l1 l2 : exits (l1 ++ l2) = exits l1 ++ exits l2.
Proof. apply flat_map_app. Qed.
Lemma unvisited_of_app l1 l2 : unvisited_of (l1 ++ l2) = unvisited_of l1 ++ unvisited_of l2.
Proof. apply flat_map_app. Qed.

Lemma exits_In log l : In l (exits log) <-> In (EvExit l) log.
Proof.
  unfold exits. rewrite in_flat_map. split.
  - intros (e & He & Hl). destruct e; simpl in Hl; try contradiction. destruct Hl as [->|[]]; exact He.
  - intros H. exists (EvExit l). split; [exact H|left; reflexivity].
Qed.
Lemma enters_In log l : In l (enters log) <-> In (EvEnter l) log.
Proof.
  unfold enters. rewrite in_flat_map. split.
  - intros (e & He & Hl). destruct e; simpl in Hl; try contradiction. destruct Hl as [->|[]]; exact He.
  - intros H. exists (EvEnter l). split; [exact H|left; reflexivity].
Qed.
Lemma yielded_In log l : In l (yielded log) <-> In (EvYield l) log.
Proof.
  unfold yielded. rewrite in_flat_map. split.
  - intros (e & He & Hl). destruct e; simpl in Hl; try contradiction. destruct Hl as [->|[]]; exact He.
  - intros H. exists (EvYield l). split; [exact H|left; reflexivity].
Qed.

Definition enter_evs (sts1 : dict tstate) (cur : label) (ns : list label) : list event :=
  EvEnter cur :: dlog sts1 ns ++ [EvYield cur].

Lemma yielded_dlog sts1 ns : yielded (dlog sts1 ns) = [].
Proof. induction ns; simpl; auto. Qed.
Lemma enters_dlog sts1 ns : enters (dlog sts1 ns) = [].
Proof. induction ns; simpl; auto. Qed.
Lemma exits_dlog sts1 ns : exits (dlog sts1 ns) = [].
Proof. induction ns; simpl; auto. Qed.
Lemma yielded_enter_evs sts1 cur ns : yielded (enter_evs sts1 cur ns) = [cur].
Proof. unfold enter_evs. simpl. rewrite yielded_app, yielded_dlog. reflexivity. Qed.
Lemma enters_enter_evs sts1 cur ns : enters (enter_evs sts1 cur ns) = [cur].
Proof. unfold enter_evs. simpl. rewrite enters_app, enters_dlog. reflexivity. Qed.
Lemma exits_enter_evs sts1 cur ns : exits (enter_evs sts1 cur ns) = [].
Proof. unfold enter_evs. simpl. rewrite exits_app, exits_dlog. reflexivity. Qed.
Lemma exit_nin_enter_evs sts1 cur ns l : ~ In (EvExit l) (enter_evs sts1 cur ns).
Proof. rewrite <- exits_In, exits_enter_evs. simpl; tauto. Qed.
Lemma enter_in_enter_evs sts1 cur ns l : In (EvEnter l) (enter_evs sts1 cur ns) <-> l = cur.
Proof. rewrite <- enters_In, enters_enter_evs. simpl. split; [intros [H|[]]; auto|auto]. Qed.

(* ---------------- "e1 occurs before every occurrence of e2" ---------------- *)
Definition precedes {A} (e1 e2 : A) (log : list A) : Prop :=
  forall pre post, log = pre ++ e2 :: post -> In e1 pre.

Lemma precedes_app {A} (e1 e2 : A) log new :
  precedes e1 e2 log -> (In e2 new -> In e1 log) -> precedes e1 e2 (log ++ new).
Proof.
  intros H1 H2 pre post E. apply app_eq_app in E. destruct E as (m & [[E1 E2]|[E1 E2]]).
  - destruct m as [|x m].
    + rewrite app_nil_r in E1. subst pre. apply H2. simpl in E2. rewrite <- E2. left; reflexivity.
    + simpl in E2. inversion E2; subst. apply (H1 pre m). reflexivity.
  - subst pre. apply in_or_app; left. apply H2. rewrite E2. apply in_elt.
Qed.

Lemma precedes_absent {A} (e1 e2 : A) log : ~ In e2 log -> precedes e1 e2 log.
Proof. intros H pre post E. exfalso; apply H. rewrite E. apply in_elt. Qed.

Lemma precedes_trans {A} (e1 e2 e3 : A) log :
  precedes e1 e2 log -> precedes e2 e3 log -> precedes e1 e3 log.
Proof.
  intros H1 H2 pre post E. pose proof (H2 pre post E) as Hin.
  apply in_split in Hin. destruct Hin as (p1 & p2 & ->).
  apply in_or_app; left. apply (H1 p1 (p2 ++ e3 :: post)). rewrite E, <- app_assoc. reflexivity.
Qed.

Lemma precedes_irrefl {A} (e : A) log : In e log -> precedes e e log -> False.
Proof.
  intros Hin H. apply in_split in Hin. destruct Hin as (pre & post & E).
  revert post E. induction pre as [pre IH] using (well_founded_induction (Wf_nat.well_founded_ltof _ (@length A))).
  intros post E. pose proof (H pre post E) as Hin.
  apply in_split in Hin. destruct Hin as (p1 & p2 & E').
  apply (IH p1) with (post := p2 ++ e :: post).
  - unfold Wf_nat.ltof. rewrite E', app_length. simpl. lia.
  - rewrite E, E', <- app_assoc. reflexivity.
Qed.

(* ---------------- the invariant ---------------- *)
Lemma is_head_In {A} mode (queue : list A) cur rest x :
  is_head mode queue cur rest -> (In x queue <-> x = cur \/ In x rest).
Proof.
  unfold is_head. destruct mode; intros ->.
  - rewrite in_app_iff. simpl. split; [intros [H|[H|[]]]; auto|intros [H|H]; auto].
  - simpl. split; [intros [H|H]; auto|intros [H|H]; auto].
Qed.

Lemma pushed_In sts1 ns ch :
  In ch (pushed sts1 ns) <-> In ch ns /\ state_of sts1 ch = UNVISITED.
Proof. unfold pushed. rewrite filter_In, tstate_beq_eq. tauto. Qed.

Section Inv.
  Variable mode : tmode.
  Variable inverse : bool.
  Variable c : circuit.
  Variable abort : label -> tstate -> option err.
  Variable starts : list label.
  Notation nx := (nxt inverse c).

  Record InvA (sts : dict tstate) (queue : list label) (log : list event) : Prop := mkInvA {
    A_yield : forall l, In l (yielded log) <-> state_of sts l <> UNVISITED;
    A_nodup : NoDup (yielded log);
    A_reach : forall x, In x queue \/ state_of sts x <> UNVISITED -> reach nx starts x;
    A_closed : forall l ch, state_of sts l <> UNVISITED -> In ch (nx l) ->
                            state_of sts ch <> UNVISITED \/ In ch queue;
    A_starts : forall s, In s starts -> state_of sts s <> UNVISITED \/ In s queue;
    A_bfs : mode = BFS -> forall l, state_of sts l <> ENTERED;
    A_enter : forall l, In (EvEnter l) log <-> state_of sts l <> UNVISITED;
    A_exit : forall l, In (EvExit l) log <-> (mode = DFS /\ state_of sts l = VISITED);
    A_prec : forall l, precedes (EvEnter l) (EvExit l) log;
    A_enters : enters log = yielded log;
    A_exits : NoDup (exits log);
    A_keys : forall l, state_of sts l <> UNVISITED -> key c l }.

  Definition InvA' (x : cfg) : Prop := InvA (fst (fst x)) (snd (fst x)) (snd x).

  Lemma InvA_init : InvA' ([], starts, []).
  Proof.
    clear abort. unfold InvA'; simpl. constructor; simpl; unfold state_of; simpl.
    - intros l; split; [tauto|congruence].
    - constructor.
    - intros x [H|H]; [apply reach_start; exact H|congruence].
    - intros l ch H; congruence.
    - intros s H; right; exact H.
    - intros _ l; discriminate.
    - intros l; split; [tauto|congruence].
    - intros l; split; [tauto|intros [_ H]; discriminate].
    - intros l pre post E. destruct pre; discriminate.
    - reflexivity.
    - constructor.
    - intros l H; congruence.
  Qed.

  Lemma InvA_step x y : InvA' x -> Step mode inverse c abort x y -> InvA' y.
  Proof.
    unfold InvA'. intros HI HS. destruct HS as [sts queue log cur rest Hh Hs Hk Hall sts1
                                               |sts queue log cur rest Hh Hs Hk
                                               |sts queue log cur rest Hh Hs Hk]; simpl in *.
    - (* enter *)
      fold (enter_evs sts1 cur (nx cur)).
      set (sts' := match mode with DFS => sts1 | BFS => dset sts1 cur VISITED end).
      set (queue' := match mode with DFS => queue ++ pushed sts1 (nx cur)
                                | BFS => rest ++ pushed sts1 (nx cur) end).
      assert (Hst : forall l, (l = cur /\ state_of sts' l = match mode with DFS => ENTERED | BFS => VISITED end)
                              \/ (l <> cur /\ state_of sts' l = state_of sts l)).
      { intros l. unfold sts', sts1. destruct (leqb_spec l cur) as [->|Hne]; [left|right]; split; auto;
          destruct mode; rewrite ?state_of_dset, ?leqb_refl; auto;
          apply leqb_neq in Hne; rewrite ?Hne; reflexivity. }
      assert (Hnu : forall l, state_of sts' l <> UNVISITED <-> l = cur \/ state_of sts l <> UNVISITED).
      { intros l. destruct (Hst l) as [[-> E]|[Hne E]]; rewrite E.
        - split; [auto|]. intros _. destruct mode; discriminate.
        - split; [auto|]. intros [H|H]; [contradiction|exact H]. }
      assert (Hst1 : forall l, state_of sts1 l = UNVISITED <-> l <> cur /\ state_of sts l = UNVISITED).
      { intros l. unfold sts1. rewrite state_of_dset. destruct (leqb_spec l cur) as [->|Hne].
        - split; [discriminate|tauto].
        - tauto. }
      assert (Hq1 : forall x, In x queue -> x = cur \/ In x queue').
      { intros x Hx. unfold queue'. apply (is_head_In _ _ _ _ x Hh) in Hx. destruct Hx as [->|Hx]; [left; auto|right].
        destruct mode; apply in_or_app; left; [|exact Hx]. apply (is_head_In _ _ _ _ x Hh). right; exact Hx. }
      assert (Hq2 : forall x, In x queue' -> In x queue \/ In x (pushed sts1 (nx cur))).
      { intros x Hx. unfold queue' in Hx. destruct mode; apply in_app_or in Hx; destruct Hx as [Hx|Hx]; auto.
        left. apply (is_head_In _ _ _ _ x Hh). right; exact Hx. }
      assert (Hq3 : forall x, In x (pushed sts1 (nx cur)) -> In x queue').
      { intros x Hx. unfold queue'. destruct mode; apply in_or_app; right; exact Hx. }
      assert (Hcq : In cur queue) by (apply (is_head_In _ _ _ _ cur Hh); left; reflexivity).
      destruct HI as [Iy Ind Ir Ic Is Ib Ie Ix Ip Ien Iex Ik].
      constructor.
      + intros l. rewrite yielded_app, yielded_enter_evs, in_app_iff, Hnu, Iy. simpl. intuition.
      + rewrite yielded_app, yielded_enter_evs. apply NoDup_app_snoc; [exact Ind|].
        rewrite Iy. tauto.
      + intros x [Hx|Hx].
        * apply Hq2 in Hx. destruct Hx as [Hx|Hx]; [apply Ir; left; exact Hx|].
          apply pushed_In in Hx. destruct Hx as [Hx _].
          eapply reach_step; [apply Ir; left; exact Hcq|exact Hx].
        * apply Hnu in Hx. destruct Hx as [->|Hx]; [apply Ir; left; exact Hcq|apply Ir; right; exact Hx].
      + intros l ch Hl Hch. apply Hnu in Hl.
        destruct (tstate_eq_dec (state_of sts1 ch) UNVISITED) as [Eu|Eu].
        * destruct Hl as [->|Hl].
          -- right. apply Hq3, pushed_In. split; assumption.
          -- apply Hst1 in Eu. destruct Eu as [Hne Eu].
             destruct (Ic l ch Hl Hch) as [H|H]; [contradiction|].
             apply Hq1 in H. destruct H as [->|H]; [contradiction|right; exact H].
        * left. apply Hnu. destruct (leqb_spec ch cur) as [->|Hne]; [left; reflexivity|right].
          intros E. apply Eu, Hst1. split; assumption.
      + intros s Hs'. destruct (Is s Hs') as [H|H].
        * left. apply Hnu. right; exact H.
        * apply Hq1 in H. destruct H as [->|H]; [left; apply Hnu; left; reflexivity|right; exact H].
      + intros Em l. destruct (Hst l) as [[-> E]|[Hne E]]; rewrite E; [rewrite Em; discriminate|apply Ib; exact Em].
      + intros l. rewrite in_app_iff, enter_in_enter_evs, Hnu, Ie. tauto.
      + intros l. rewrite in_app_iff, Ix. split.
        * intros [[Em Hv]|H]; [|exfalso; eapply exit_nin_enter_evs; eauto].
          split; [exact Em|]. destruct (Hst l) as [[-> E]|[Hne E]]; [congruence|congruence].
        * intros [Em Hv]. left. split; [exact Em|].
          destruct (Hst l) as [[-> E]|[Hne E]]; [rewrite Em in E; congruence|congruence].
      + intros l. apply precedes_app; [apply Ip|]. intros H. exfalso; eapply exit_nin_enter_evs; eauto.
      + rewrite enters_app, yielded_app, enters_enter_evs, yielded_enter_evs, Ien. reflexivity.
      + rewrite exits_app, exits_enter_evs, app_nil_r. exact Iex.
      + intros l Hl. apply Hnu in Hl. destruct Hl as [->|Hl]; [exact Hk|apply Ik; exact Hl].
    - (* exit *)
      destruct HI as [Iy Ind Ir Ic Is Ib Ie Ix Ip Ien Iex Ik].
      assert (Em : mode = DFS).
      { destruct mode; [reflexivity|]. exfalso. apply (Ib eq_refl cur). exact Hs. }
      assert (Hnu : forall l, state_of (dset sts cur VISITED) l <> UNVISITED <-> state_of sts l <> UNVISITED).
      { intros l. rewrite state_of_dset. destruct (leqb_spec l cur) as [->|Hne]; [|tauto].
        rewrite Hs. split; discriminate. }
      constructor.
      + intros l. rewrite yielded_app, Hnu, <- Iy. simpl. rewrite app_nil_r. tauto.
      + rewrite yielded_app. simpl. rewrite app_nil_r. exact Ind.
      + intros x [Hx|Hx]; [apply Ir; left; apply (is_head_In _ _ _ _ x Hh); right; exact Hx|].
        apply Ir. right. apply Hnu; exact Hx.
      + intros l ch Hl Hch. apply Hnu in Hl. destruct (Ic l ch Hl Hch) as [H|H].
        * left. apply Hnu; exact H.
        * apply (is_head_In _ _ _ _ ch Hh) in H. destruct H as [->|H]; [left|right; exact H].
          apply Hnu. rewrite Hs; discriminate.
      + intros s Hs'. destruct (Is s Hs') as [H|H]; [left; apply Hnu; exact H|].
        apply (is_head_In _ _ _ _ s Hh) in H. destruct H as [->|H]; [left|right; exact H].
        apply Hnu. rewrite Hs; discriminate.
      + intros Eb. congruence.
      + intros l. rewrite in_app_iff, Hnu, <- Ie. simpl. split; [intros [H|[H|[]]]; [exact H|discriminate]|auto].
      + intros l. rewrite in_app_iff, Ix, state_of_dset. simpl.
        destruct (leqb_spec l cur) as [->|Hne].
        * split; [intros _; auto|intros _; right; left; reflexivity].
        * split; [intros [H|[H|[]]]; [exact H|congruence]|auto].
      + intros l. apply precedes_app; [apply Ip|]. intros [H|[]]. inversion H; subst l.
        apply Ie. rewrite Hs; discriminate.
      + rewrite enters_app, yielded_app. simpl. rewrite !app_nil_r. exact Ien.
      + rewrite exits_app. simpl. apply NoDup_app_snoc; [exact Iex|].
        rewrite exits_In, Ix. intros [_ H]; congruence.
      + intros l Hl. apply Ik, Hnu; exact Hl.
    - (* skip *)
      destruct HI as [Iy Ind Ir Ic Is Ib Ie Ix Ip Ien Iex Ik].
      constructor; auto.
      + intros x [Hx|Hx]; [apply Ir; left; apply (is_head_In _ _ _ _ x Hh); right; exact Hx|].
        apply Ir. right. exact Hx.
      + intros l ch Hl Hch. destruct (Ic l ch Hl Hch) as [H|H]; [left; exact H|].
        apply (is_head_In _ _ _ _ ch Hh) in H. destruct H as [->|H]; [left|right; exact H].
        rewrite Hs; discriminate.
      + intros s Hs'. destruct (Is s Hs') as [H|H]; [left; exact H|].
        apply (is_head_In _ _ _ _ s Hh) in H. destruct H as [->|H]; [left|right; exact H].
        rewrite Hs; discriminate.
  Qed.

  Lemma InvA_steps x y : Steps mode inverse c abort x y -> InvA' x -> InvA' y.
  Proof. apply Steps_inv. intros; eapply InvA_step; eauto. Qed.

  (* at the end of a run the visited set is exactly the reachable set *)
  Lemma InvA_final sts log : InvA sts [] log ->
    forall l, In l (yielded log) <-> reach nx starts l.
  Proof.
    intros HI l. rewrite (A_yield _ _ _ HI). split.
    - intros H. apply (A_reach _ _ _ HI). right; exact H.
    - apply (reach_closed nx starts (fun l => state_of sts l <> UNVISITED)).
      + intros s Hs. destruct (A_starts _ _ _ HI s Hs) as [H|[]]; exact H.
      + intros a b Ha Hb. destruct (A_closed _ _ _ HI a b Ha Hb) as [H|[]]; exact H.
  Qed.
End Inv.
