(* C02: __copy__ and Block.into_circuit.  into_circuit inserts gates with _emplace_gate (no
   operand check) in block order, so intermediate states have forward references: the loop
   invariant is WFpre (WF without operand existence and acyclicity) plus "operands as in c". *)
Require Import Cirbo.Model.Base Cirbo.Model.Gate Cirbo.Model.Circuit Cirbo.Model.Traverse
        Cirbo.Model.Connect Cirbo.Model.WF.
Require Import Cirbo.Proofs.DictFacts Cirbo.Proofs.WFBase Cirbo.Proofs.WFSimple Cirbo.Proofs.WFEmplace.

Record WFpre (c : circuit) : Prop := mkWFpre {
  wp_gkeys : NoDup (dkeys (gates c));
  wp_ukeys : NoDup (dkeys (users c));
  wp_bkeys : NoDup (dkeys (blocks c));
  wp_outs : forall o, In o (outputs c) -> has_gate c o = true;
  wp_users : forall l u, count u (users_of c l) = count l (ops_of c u);
  wp_inputs_nodup : NoDup (inputs c);
  wp_inputs : forall l, In l (inputs c) <-> exists g, dget (gates c) l = Some g /\ gtyp g = INPUT;
  wp_blocks : forall b blk l, dget (blocks c) b = Some blk ->
                              In l (bgates blk ++ binputs blk ++ boutputs blk) -> has_gate c l = true }.

Lemma WF_WFpre c : WF c -> WFpre c.
Proof. intros W; destruct W; constructor; assumption. Qed.

Lemma WFpre_WF c :
  WFpre c ->
  (forall l g o, dget (gates c) l = Some g -> In o (gops g) -> has_gate c o = true) ->
  (exists rank : label -> nat, forall l g o, dget (gates c) l = Some g -> In o (gops g) -> rank o < rank l) ->
  WF c.
Proof. intros P H1 H2; destruct P; constructor; assumption. Qed.

Lemma emplace_gate_raw_pre c l t ops :
  WFpre c -> has_gate c l = false -> WFpre (emplace_gate_raw c l t ops).
Proof.
  intros P Hl. pose proof (has_gate_false_get _ _ Hl) as Hlg. constructor.
  - rewrite emplace_raw_gates; apply NoDup_dkeys_dset, (wp_gkeys c P).
  - rewrite emplace_raw_users; apply add_users_ukeys, (wp_ukeys c P).
  - rewrite emplace_raw_blocks; apply (wp_bkeys c P).
  - intros o Ho; rewrite emplace_raw_outputs in Ho. rewrite emplace_raw_has_gate, (wp_outs c P o Ho).
    apply orb_true_r.
  - intros x u. rewrite emplace_raw_users_of, count_users_add_users, emplace_raw_ops_of.
    destruct (leqb_spec u l) as [Heq|Hne]; [subst u|].
    + rewrite (wp_users c P), (ops_of_none _ _ Hlg). reflexivity.
    + rewrite (wp_users c P); lia.
  - rewrite emplace_raw_inputs. destruct (gtype_beq t INPUT); [|apply (wp_inputs_nodup c P)].
    apply NoDup_count; intros x; rewrite count_app; simpl.
    pose proof (proj1 (NoDup_count _) (wp_inputs_nodup c P) x) as Hx.
    destruct (leqb_spec x l) as [Heq|Hne]; [subst x|lia].
    assert (~ In l (inputs c)) as Hn.
    { intros Hin; apply (wp_inputs c P) in Hin; destruct Hin as [g [Hg _]]; congruence. }
    apply count_zero_nIn in Hn; lia.
  - intros x. rewrite emplace_raw_inputs, emplace_raw_gates, dget_dset.
    destruct (leqb_spec x l) as [Heq|Hne]; [subst x|].
    + destruct (gtype_beq t INPUT) eqn:Et.
      * split; [intros _|intros _; apply in_or_app; right; left; reflexivity].
        eexists; split; [reflexivity|]. apply gtype_beq_eq, Et.
      * split.
        -- intros Hin; apply (wp_inputs c P) in Hin; destruct Hin as [g [Hg _]]; congruence.
        -- intros [g [[= <-] Ht]]; simpl in Ht. apply gtype_beq_eq in Ht; congruence.
    + rewrite <- (wp_inputs c P). destruct (gtype_beq t INPUT); [|tauto].
      rewrite in_app_iff; simpl. split; [|tauto]. intros [H|[H|[]]]; [assumption|congruence].
  - intros b blk x Hb Hx. rewrite emplace_raw_blocks in Hb. rewrite emplace_raw_has_gate.
    rewrite (wp_blocks c P b blk x Hb Hx); apply orb_true_r.
Qed.

Lemma WFpre_empty : WFpre empty_circuit.
Proof. apply WF_WFpre, WF_empty. Qed.

(* ---------------- Block.into_circuit ---------------- *)
(* gates of the new circuit n are INPUTs without operands or carry the operands they have in c *)
Definition from_c (c n : circuit) : Prop :=
  forall l g, dget (gates n) l = Some g ->
    (gtyp g = INPUT /\ gops g = []) \/ dget (gates c) l = Some g.

Lemma check_all_ops_exist n : forall d u,
  foldM (fun (_ : unit) (kg : label * gate) => check_gates_exist (gops (snd kg)) n) d tt = Ok u ->
  forall l g o, In (l, g) d -> In o (gops g) -> has_gate n o = true.
Proof.
  induction d as [|[k v] d IH]; simpl; intros u H l g o Hin Ho; [destruct Hin|].
  binv H u1 H1. destruct u1. destruct Hin as [[= -> ->]|Hin].
  - eapply check_gates_exist_unit; eassumption.
  - eapply IH; eassumption.
Qed.

Lemma block_into_circuit_wf c b n :
  WF c -> inputs_nullary c -> block_into_circuit c b = Ok n -> WF n /\ inputs_nullary n.
Proof.
  intros W N H. unfold block_into_circuit in H.
  set (n0 := fold_left _ (binputs b) empty_circuit) in H.
  assert (P0 : WFpre n0 /\ from_c c n0).
  { unfold n0. apply (fold_left_inv _ (fun s => WFpre s /\ from_c c s)).
    - intros s x _ [P F]. destruct (has_gate s x) eqn:Ex; [auto|]. split.
      + apply emplace_gate_raw_pre; assumption.
      + intros l g Hg. rewrite emplace_raw_gates, dget_dset in Hg. destruct (leqb l x).
        * injection Hg as <-; left; auto.
        * apply F, Hg.
    - split; [apply WFpre_empty|]. intros l g Hg; discriminate. }
  clearbody n0. binv H n1 H1.
  assert (P1 : WFpre n1 /\ from_c c n1).
  { revert H1. apply (foldM_ok_inv _ (fun s => WFpre s /\ from_c c s)); [|assumption].
    intros s x s' _ [P F] Hs. destruct (has_gate s x) eqn:Ex; [injection Hs as <-; auto|].
    binv Hs g Hg. injection Hs as <-. apply get_gate_ok in Hg. split.
    - apply emplace_gate_raw_pre; assumption.
    - intros l g' Hg'. rewrite emplace_raw_gates, dget_dset in Hg'. destruct (leqb_spec l x) as [Heq|Hne].
      + subst l. injection Hg' as <-. right. destruct g; assumption.
      + apply F, Hg'. }
  destruct P1 as [P1 F1]. binv H n2 H2. binv H u Hu. injection H as <-.
  unfold set_outputs in H2. binv H2 u2 Hu2. injection H2 as <-.
  assert (Hops : forall l g o, dget (gates n1) l = Some g -> In o (gops g) -> has_gate n1 o = true).
  { intros l g o Hg Ho. apply (check_all_ops_exist _ _ _ Hu l g o); [|assumption].
    simpl. apply dget_In, Hg. }
  split.
  - apply WF_set_outputs_raw; [|eapply check_gates_exist_unit; eassumption].
    apply WFpre_WF; [assumption|assumption|].
    destruct (wf_acyclic c W) as [rank Hr]. exists rank. intros l g o Hg Ho.
    destruct (F1 l g Hg) as [[_ E]|Hc]; [rewrite E in Ho; destruct Ho|]. eapply Hr; eassumption.
  - intros l g Hg Ht. simpl in Hg. destruct (F1 l g Hg) as [[_ E]|Hc]; [assumption|]. eapply N; eassumption.
Qed.

(* ---------------- __copy__ ---------------- *)
Lemma copy_circuit_wf c c' : inputs_nullary c -> copy_circuit c = Ok c' -> WF c' /\ inputs_nullary c'.
Proof.
  intros N H. unfold copy_circuit in H. binv H order Ho. binv H c1 H1. binv H c2 H2. binv H c3 H3.
  assert (P1 : WF c1 /\ inputs_nullary c1).
  { revert H1. apply (foldM_ok_inv _ (fun s => WF s /\ inputs_nullary s));
      [|split; [apply WF_empty|intros l g Hg; discriminate]].
    intros s x s' _ [Ws Ns] Hs. binv Hs g Hg. apply get_gate_ok in Hg. split.
    - eapply emplace_gate_wf; eassumption.
    - eapply emplace_gate_nullary; [eassumption| |eassumption]. intros Ht; eapply N; eassumption. }
  destruct P1 as [W1 N1].
  assert (P3 : WF c3 /\ inputs_nullary c3).
  { split.
    - eapply set_outputs_wf; [|eassumption]. eapply set_inputs_wf; eassumption.
    - unfold set_outputs in H3. binv H3 u3 Hu3. injection H3 as <-.
      unfold set_inputs in H2. binv H2 u2 Hu2. destruct (forallb _ _); [|discriminate].
      binv H2 acc Hacc. injection H2 as <-. exact N1. }
  revert H. apply (foldM_ok_inv _ (fun s => WF s /\ inputs_nullary s)); [|assumption].
  intros s kb s' _ [Ws Ns] Hs. split; [eapply make_block_wf; eassumption|].
  unfold make_block in Hs. binv Hs u0 H0. binv Hs u1 Hu1. binv Hs u2 Hu2. binv Hs i Hi.
  injection Hs as <-. exact Ns.
Qed.
