(* C02: connect_circuit and its wrappers preserve WF /\ inputs_nullary.
   Part 2: the two loop invariants (left / right connection), the main theorem and the
   five wrappers.  (Part 3, WFConnect.v: the states showing which hypotheses are needed.)

   Summary of what each hypothesis is used for (connect_circuit_sharp is the exact form):
   - WF c                : always.
   - inputs_nullary c    : (1) for inputs_nullary c' (gates of c are kept);
                           (2) for WF c' of a RIGHT connection: initial rank (right_init).
   - inputs_nullary other: only for inputs_nullary c' (gates of other are copied).
   - WF other            : only wf_acyclic other, only for a RIGHT connection. *)
Require Import Cirbo.Model.Base Cirbo.Model.Gate Cirbo.Model.Circuit Cirbo.Model.Traverse
        Cirbo.Model.Connect Cirbo.Model.WF.
Require Import Cirbo.Proofs.DictFacts Cirbo.Proofs.WFBase Cirbo.Proofs.WFSimple Cirbo.Proofs.WFEmplace
        Cirbo.Proofs.WFConnect1.

Definition cstate : Type := (circuit * dict label * list label)%type.

(* In this file Q : Prop is a switch: with Q := True the companion invariant inputs_nullary
   is tracked, with Q := False it is ignored (and not assumed). *)

(* ------------------------------------------------------------------ *)
(* LEFT connection (right_connect = false): a sequence of emplace_gate calls.  The full WF
   is an invariant and nothing is assumed on `other`. *)
Definition LInv (Q : Prop) (s : cstate) : Prop :=
  let '(cur, o2n, _) := s in
  WF cur /\ (Q -> inputs_nullary cur) /\ forall o t, dget o2n o = Some t -> has_gate cur t = true.

Lemma left_step (Q : Prop) other mapping prefix s l s' :
  (Q -> inputs_nullary other) -> LInv Q s ->
  conn_step other mapping prefix false s l = Ok s' -> LInv Q s'.
Proof.
  intros No Hs H. destruct s as [[cur o2n] blk]. destruct Hs as (W & N & V).
  unfold conn_step in H; cbv beta iota in H. binv H g Hg. apply get_gate_ok in Hg.
  destruct (negb (dmem mapping l)); [|injection H as <-; split; [exact W|split; [exact N|exact V]]].
  cbv zeta in H. binv H ops Hops. binv H cur' Hc. injection H as <-.
  pose proof (emplace_gate_inv _ _ _ _ _ Hc) as (Hnl & Hex & E).
  split; [eapply emplace_gate_wf; eassumption|]. split.
  - intros q. eapply emplace_gate_nullary; [exact (N q)| |exact Hc].
    intros Ht. rewrite (No q l g Hg Ht) in Hops. apply map_list_nil in Hops; exact Hops.
  - intros o t Ho. subst cur'. rewrite emplace_raw_has_gate. rewrite dget_dset in Ho.
    destruct (leqb o l).
    + injection Ho as <-. rewrite leqb_refl; reflexivity.
    + rewrite (V o t Ho); apply orb_true_r.
Qed.

Lemma left_loop (Q : Prop) other mapping prefix order s s' :
  (Q -> inputs_nullary other) -> LInv Q s ->
  foldM (conn_step other mapping prefix false) order s = Ok s' -> LInv Q s'.
Proof.
  intros No. apply (foldM_ok_inv _ (LInv Q)). intros s0 x s1 _ Hs0 H. eapply left_step; eassumption.
Qed.

(* ------------------------------------------------------------------ *)
(* RIGHT connection: the relaxed invariant plus a rank that agrees, on the images of the
   label map, with a fixed rank ro of `other`. *)
Definition RInv (Q : Prop) (ro : label -> nat) (s : cstate) : Prop :=
  let '(cur, o2n, _) := s in
  WFcore cur /\ (Q -> inputs_nullary cur) /\
  (forall o t, dget o2n o = Some t -> has_gate cur t = true) /\
  exists rk, ranked cur rk /\ forall o t, dget o2n o = Some t -> rk t = ro o.

Lemma right_step (Q : Prop) other mapping prefix ro s l s' :
  (Q -> inputs_nullary other) -> ranked other ro ->
  RInv Q ro s -> conn_step other mapping prefix true s l = Ok s' -> RInv Q ro s'.
Proof.
  intros No Ro Hs H. destruct s as [[cur o2n] blk]. destruct Hs as (P & N & V & rk & Rk & Rm).
  unfold conn_step in H; cbv beta iota in H. binv H g Hg. apply get_gate_ok in Hg.
  assert (Hnil : Q -> gtyp g = INPUT -> forall m ops, map_list m (gops g) = Ok ops -> ops = []).
  { intros q Ht m ops Hops. rewrite (No q l g Hg Ht) in Hops. apply map_list_nil in Hops; exact Hops. }
  destruct (negb (dmem mapping l)).
  - (* (a) a gate of other that is not connected: new label *)
    cbv zeta in H. binv H ops Hops. binv H cur' Hc. injection H as <-.
    apply emplace_gate_inv in Hc. destruct Hc as (Hnl & Hex & Ec). subst cur'.
    set (nl := (prefix ++ l)%string) in *.
    assert (Hop : forall op, In op ops ->
                  op <> nl /\ exists o, In o (gops g) /\ o <> l /\ dget o2n o = Some op).
    { intros op Hin.
      assert (Hne : op <> nl).
      { intros E; subst op. rewrite (Hex _ Hin) in Hnl; discriminate. }
      split; [exact Hne|]. destruct (map_list_in _ _ _ _ Hops Hin) as [o [Ho Hd]].
      exists o. rewrite dget_dset in Hd. destruct (leqb_spec o l) as [Heq|Hol].
      - injection Hd as Hd. congruence.
      - auto. }
    pose proof (emplace_raw_gates cur nl (gtyp g) ops) as Eg.
    split; [apply emplace_gate_raw_core; assumption|]. split.
    { intros q. apply emplace_gate_raw_nullary; [exact (N q)|]. intros Ht; eapply Hnil; eassumption. }
    split.
    { intros o t Ho. rewrite emplace_raw_has_gate. rewrite dget_dset in Ho. destruct (leqb o l).
      - injection Ho as <-. rewrite leqb_refl; reflexivity.
      - rewrite (V o t Ho); apply orb_true_r. }
    exists (fun x => if leqb x nl then ro l else rk x). split.
    + apply (ranked_write cur _ nl (gtyp g) ops); [exact Eg| |].
      * intros x gx o Hx Hgx Ho.
        assert (Hon : o <> nl).
        { intros E; subst o. rewrite (wc_ops cur P x gx nl Hgx Ho) in Hnl; discriminate. }
        apply leqb_neq in Hx, Hon. rewrite Hx, Hon. eapply Rk; eassumption.
      * intros op Hin. destruct (Hop op Hin) as (Hne & o & Ho & Hol & Hd).
        apply leqb_neq in Hne. rewrite Hne, leqb_refl. rewrite (Rm o op Hd).
        eapply Ro; eassumption.
    + intros o t Ho. rewrite dget_dset in Ho. destruct (leqb_spec o l) as [Heq|Hol].
      * subst o. injection Ho as <-. rewrite leqb_refl; reflexivity.
      * assert (Hne : t <> nl).
        { intros E; subst t. rewrite (V o nl Ho) in Hnl; discriminate. }
        apply leqb_neq in Hne; rewrite Hne. apply Rm, Ho.
  - (* (b) a connected gate: overwrite its image *)
    binv H nl Hnl. binv H ops Hops. binv H old Hold. injection H as <-.
    unfold map_get in Hnl. destruct (dget o2n l) as [nl0|] eqn:El; [|discriminate].
    injection Hnl as Hnl; subst nl0.
    destruct (dget (gates cur) nl) as [old0|] eqn:Eold; [|discriminate].
    injection Hold as Hold; subst old0.
    assert (Hop : forall op, In op ops -> exists o, In o (gops g) /\ dget o2n o = Some op).
    { intros op Hin. apply (map_list_in _ _ _ _ Hops Hin). }
    assert (Hex : forall op, In op ops -> has_gate cur op = true).
    { intros op Hin. destruct (Hop op Hin) as (o & _ & Hd). eapply V; eassumption. }
    destruct (overwrite_frame cur nl old (gtyp g) ops) as (Fg & _).
    split; [apply overwrite_core; assumption|]. split.
    { intros q x gx Hx Ht. rewrite Fg, dget_dset in Hx. destruct (leqb x nl).
      - injection Hx as <-; simpl in *. eapply Hnil; eassumption.
      - eapply (N q); eassumption. }
    split.
    { intros o t Ho. eapply dset_has_gate_mono; [exact Fg|]. eapply V; eassumption. }
    exists rk. split; [|exact Rm].
    apply (ranked_write cur _ nl (gtyp g) ops); [exact Fg| |].
    + intros x gx o _ Hgx Ho. eapply Rk; eassumption.
    + intros op Hin. destruct (Hop op Hin) as (o & Ho & Hd).
      rewrite (Rm o op Hd), (Rm l nl El). eapply Ro; eassumption.
Qed.

Lemma right_loop (Q : Prop) other mapping prefix ro order s s' :
  (Q -> inputs_nullary other) -> ranked other ro -> RInv Q ro s ->
  foldM (conn_step other mapping prefix true) order s = Ok s' -> RInv Q ro s'.
Proof.
  intros No Ro. apply (foldM_ok_inv _ (RInv Q ro)). intros s0 x s1 _ Hs0 H.
  eapply right_step; eassumption.
Qed.

(* initial rank for the right connection: the connectors tc (INPUT gates of c, without
   operands by inputs_nullary c) take the rank of the gate of `other` mapped to them, the
   other gates of c are shifted above all of these *)
Definition rinv (m : dict label) (x : label) : option label :=
  match find (fun kv : label * label => leqb (snd kv) x) m with
  | Some kv => Some (fst kv)
  | None => None
  end.

Lemma rinv_some m x o : rinv m x = Some o -> In (o, x) m.
Proof.
  unfold rinv. destruct (find _ m) as [[k v]|] eqn:E; [|discriminate].
  intros [= <-]. apply find_some in E. destruct E as [Hin Hv]; simpl in Hv.
  apply leqb_eq in Hv; subst v. exact Hin.
Qed.

Lemma rinv_get m o t : NoDup (dkeys m) -> minj m -> dget m o = Some t -> rinv m t = Some o.
Proof.
  intros Hnd Hi Hd. destruct (rinv m t) as [o'|] eqn:E.
  - apply rinv_some in E. apply (In_dget m o' t Hnd) in E. f_equal. eapply Hi; eassumption.
  - exfalso. unfold rinv in E. destruct (find _ m) as [kv|] eqn:Ef; [discriminate|].
    apply dget_In in Hd. pose proof (find_none _ _ Ef _ Hd) as Hc; simpl in Hc.
    rewrite leqb_refl in Hc; discriminate.
Qed.

Lemma right_init (Q : Prop) c tc oc ro :
  WF c -> inputs_nullary c ->
  (forall t, In t tc -> has_gate c t = true) -> NoDup tc ->
  forallb (is_input_gate c) tc = true ->
  RInv Q ro (c, build_mapping oc tc [], []).
Proof.
  intros W N Htc Hnd Hin. set (m := build_mapping oc tc []).
  pose proof (bm_nil_keys oc tc) as Mk. pose proof (bm_nil_inj oc tc Hnd) as Mi. fold m in Mk, Mi.
  assert (Mv : forall o t, dget m o = Some t -> In t tc) by (intros o t; apply bm_nil_vals).
  split; [apply WF_core, W|]. split; [intros _; exact N|].
  split; [intros o t Ho; apply Htc; eapply Mv; eassumption|].
  destruct (wf_acyclic c W) as [rc Hrc].
  set (M := S (max_rank ro (dkeys m))).
  exists (fun x => match rinv m x with Some o => ro o | None => M + rc x end). split.
  - intros x gx o Hx Ho.
    destruct (rinv m x) as [ox|] eqn:Ex.
    + (* x is a connector: an INPUT gate, no operands *)
      exfalso. apply rinv_some in Ex. apply (In_dget m ox x Mk), Mv in Ex.
      rewrite forallb_forall in Hin. specialize (Hin x Ex). unfold is_input_gate in Hin.
      rewrite Hx in Hin. apply gtype_beq_eq in Hin. rewrite (N x gx Hx Hin) in Ho; destruct Ho.
    + destruct (rinv m o) as [oo|] eqn:Eo.
      * apply rinv_some in Eo. apply (in_map fst) in Eo; simpl in Eo.
        pose proof (max_rank_ge ro (dkeys m) oo Eo) as Hle. unfold M; lia.
      * specialize (Hrc x gx o Hx Ho). lia.
  - intros o t Ho. rewrite (rinv_get m o t Mk Mi Ho). reflexivity.
Qed.

(* ------------------------------------------------------------------ *)
(* the exact form: which hypothesis is used for which part of the conclusion *)
Theorem connect_circuit_sharp : forall (Q : Prop) c other tc oc right name ap c',
  WF c -> (Q -> inputs_nullary c) -> (Q -> inputs_nullary other) ->
  (right = true -> inputs_nullary c /\ exists ro, ranked other ro) ->
  connect_circuit c other tc oc right name ap = Ok c' -> WF c' /\ (Q -> inputs_nullary c').
Proof.
  intros Q c other tc oc right name ap c' W N No Hr H. rewrite connect_circuit_unfold in H.
  binv H u0 H0. binv H u1 H1. binv H u2 H2. binv H u3 H3. binv H u4 H4. binv H u5 H5.
  binv H order Hord. binv H fin Hst. destruct fin as [[c1 o2n] blk].
  pose proof (check_gates_exist_unit _ _ _ H1) as Htc.
  assert (Hend : WFcore c1 /\ (exists rk, ranked c1 rk) /\ (Q -> inputs_nullary c1) /\
                 (forall o t, dget o2n o = Some t -> has_gate c1 t = true)).
  { destruct right.
    - destruct (nodupb tc) eqn:End; [|discriminate]. apply nodupb_NoDup in End.
      destruct (forallb (is_input_gate c) tc) eqn:Ein; [|discriminate].
      destruct (Hr eq_refl) as [Nc [ro Hro]].
      pose proof (right_init Q c tc oc ro W Nc Htc End Ein) as Hi.
      pose proof (right_loop Q _ _ _ ro _ _ _ No Hro Hi Hst) as (P1 & N1 & V1 & rk & R1 & _).
      split; [exact P1|]. split; [exists rk; exact R1|]. split; assumption.
    - assert (Hi : LInv Q (c, build_mapping oc tc [], [])).
      { split; [exact W|]. split; [exact N|]. intros o t Ho. apply Htc. eapply bm_nil_vals; eassumption. }
      pose proof (left_loop Q _ _ _ _ _ _ No Hi Hst) as (W1 & N1 & V1).
      split; [apply WF_core, W1|]. split; [apply WF_ranked, W1|]. split; assumption. }
  destruct Hend as (P1 & R1 & N1 & V1).
  eapply conn_tail_inv; eassumption.
Qed.

(* the requested statement *)
Theorem connect_circuit_inv : forall c other tc oc right name ap c',
  WF c -> inputs_nullary c -> WF other -> inputs_nullary other ->
  connect_circuit c other tc oc right name ap = Ok c' -> WF c' /\ inputs_nullary c'.
Proof.
  intros c other tc oc right name ap c' W N Wo No H.
  destruct (connect_circuit_sharp True c other tc oc right name ap c') as [W' N']; auto.
  intros _; split; [exact N|apply WF_ranked, Wo].
Qed.

(* a left connection needs nothing about `other` but inputs_nullary *)
Theorem connect_circuit_left_inv : forall c other tc oc name ap c',
  WF c -> inputs_nullary c -> inputs_nullary other ->
  connect_circuit c other tc oc false name ap = Ok c' -> WF c' /\ inputs_nullary c'.
Proof.
  intros c other tc oc name ap c' W N No H.
  destruct (connect_circuit_sharp True c other tc oc false name ap c') as [W' N']; auto.
  discriminate.
Qed.

(* WF alone, left connection: no side condition at all *)
Theorem connect_circuit_left_wf : forall c other tc oc name ap c',
  WF c -> connect_circuit c other tc oc false name ap = Ok c' -> WF c'.
Proof.
  intros c other tc oc name ap c' W H.
  destruct (connect_circuit_sharp False c other tc oc false name ap c') as [W' _];
    auto; try contradiction. discriminate.
Qed.

(* WF alone, right connection: inputs_nullary other is not needed, and of WF other only
   acyclicity *)
Theorem connect_circuit_right_wf : forall c other tc oc name ap c',
  WF c -> inputs_nullary c -> (exists ro, ranked other ro) ->
  connect_circuit c other tc oc true name ap = Ok c' -> WF c'.
Proof.
  intros c other tc oc name ap c' W N Ro H.
  destruct (connect_circuit_sharp False c other tc oc true name ap c') as [W' _];
    auto; contradiction.
Qed.

(* ------------------------------------------------------------------ *)
(* the wrappers *)
Theorem connect_left_inv : forall c other tc name ap c',
  WF c -> inputs_nullary c -> WF other -> inputs_nullary other ->
  connect_left c other tc name ap = Ok c' -> WF c' /\ inputs_nullary c'.
Proof. intros c other tc name ap c'; unfold connect_left; apply connect_circuit_inv. Qed.

(* WF other dropped *)
Theorem connect_left_inv' : forall c other tc name ap c',
  WF c -> inputs_nullary c -> inputs_nullary other ->
  connect_left c other tc name ap = Ok c' -> WF c' /\ inputs_nullary c'.
Proof. intros c other tc name ap c'; unfold connect_left; apply connect_circuit_left_inv. Qed.

Theorem connect_right_inv : forall c other oc name ap c',
  WF c -> inputs_nullary c -> WF other -> inputs_nullary other ->
  connect_right c other oc name ap = Ok c' -> WF c' /\ inputs_nullary c'.
Proof. intros c other oc name ap c'; unfold connect_right; apply connect_circuit_inv. Qed.

Theorem connect_inputs_inv : forall c other name ap c',
  WF c -> inputs_nullary c -> WF other -> inputs_nullary other ->
  connect_inputs c other name ap = Ok c' -> WF c' /\ inputs_nullary c'.
Proof. intros c other name ap c'; unfold connect_inputs; apply connect_circuit_inv. Qed.

Theorem extend_circuit_inv : forall c other tc oc right name ap c',
  WF c -> inputs_nullary c -> WF other -> inputs_nullary other ->
  extend_circuit c other tc oc right name ap = Ok c' -> WF c' /\ inputs_nullary c'.
Proof. intros c other tc oc right name ap c'; unfold extend_circuit; apply connect_circuit_inv. Qed.

Theorem add_circuit_inv : forall c other name ap c',
  WF c -> inputs_nullary c -> WF other -> inputs_nullary other ->
  add_circuit c other name ap = Ok c' -> WF c' /\ inputs_nullary c'.
Proof. intros c other name ap c'; unfold add_circuit; apply connect_circuit_inv. Qed.

(* WF other dropped *)
Theorem add_circuit_inv' : forall c other name ap c',
  WF c -> inputs_nullary c -> inputs_nullary other ->
  add_circuit c other name ap = Ok c' -> WF c' /\ inputs_nullary c'.
Proof. intros c other name ap c'; unfold add_circuit; apply connect_circuit_left_inv. Qed.
