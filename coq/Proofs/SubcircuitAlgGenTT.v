(* T21: _Subcircuit.evaluate_truth_table_with_dont_cares regenerated = PatternSim.tt_with_dont_cares. *)
Require Import Cirbo.Model.Base Cirbo.Model.Gate Cirbo.Model.Circuit Cirbo.Model.Eval Cirbo.Model.PatternSim.
Require Import Cirbo.Generated.PatternOps Cirbo.Model.SubcircuitPrims Cirbo.Model.SubcircuitAlg.
Require Import Cirbo.Generated.SubcircuitAlgGen Cirbo.Proofs.SubcircuitPrimsFacts.

(* ---- strings of bits ---- *)
Lemma str_of_bits_cons b v : str_of_bits (b :: v) = (bit_str b ++ str_of_bits v)%string.
Proof. unfold str_of_bits. simpl. apply concat_empty_cons. Qed.

Lemma bits_of_str_of_bits v : bits_of_string (str_of_bits v) = Some v.
Proof.
  induction v as [|b v IH]; [reflexivity|]. rewrite str_of_bits_cons.
  destruct b; simpl; rewrite IH; reflexivity.
Qed.

Lemma str_of_bits_of_string s v : bits_of_string s = Some v -> s = str_of_bits v.
Proof.
  revert v; induction s as [|c s IH]; intros v H; simpl in H.
  - inversion H; reflexivity.
  - destruct (bits_of_string s) as [w|]; [|discriminate].
    specialize (IH w eq_refl). subst s.
    destruct (Ascii.eqb_spec c "0") as [->|H0]; [inversion H; rewrite str_of_bits_cons; reflexivity|].
    destruct (Ascii.eqb_spec c "1") as [->|H1]; [inversion H; rewrite str_of_bits_cons; reflexivity|discriminate].
Qed.

Lemma vec_eqb_eq a b : vec_eqb a b = true <-> a = b.
Proof. apply all_eqb_eq. intros x y. destruct x, y; simpl; split; congruence. Qed.

Lemma memb_care v l : memb (str_of_bits v) l = vec_mem v (care_of_strings l).
Proof.
  induction l as [|s l IH]; [reflexivity|]. simpl.
  unfold care_of_strings, vec_mem in *. simpl. rewrite existsb_app, <- IH.
  destruct (bits_of_string s) as [w|] eqn:E; simpl.
  - apply str_of_bits_of_string in E. subst s. rewrite orb_false_r.
    destruct (leqb_spec (str_of_bits v) (str_of_bits w)) as [Heq|Hne].
    + assert (v = w) by (apply (f_equal bits_of_string) in Heq; rewrite !bits_of_str_of_bits in Heq; congruence).
      subst. replace (vec_eqb w w) with true by (symmetry; apply vec_eqb_eq; reflexivity). reflexivity.
    + destruct (vec_eqb v w) eqn:Ev; [apply vec_eqb_eq in Ev; subst; congruence|reflexivity].
  - destruct (leqb_spec (str_of_bits v) s) as [Heq|Hne]; [|reflexivity].
    subst s. rewrite bits_of_str_of_bits in E. discriminate.
Qed.

(* ---- the inner loop: one row ---- *)
Definition row_cell (self : gen_Subcircuit) (asg : string) (p : N) : option bool :=
  if memb asg (Subcircuit_inputs_tt self) then Some (N.odd p) else None.

Lemma inner_loop self asg : forall suf pre tsuf tpre,
  length pre = length tpre -> length suf = length tsuf ->
  foldM (gen_Subcircuit_evaluate_truth_table_with_dont_cares_for2 self asg)
        (combine (map N.of_nat (seq (length pre) (length suf))) suf) (pre ++ suf, tpre ++ tsuf)
  = Ok (pre ++ map (fun p => N.shiftr p 1) suf,
        tpre ++ map (fun pr : N * list (option bool) => snd pr ++ [row_cell self asg (fst pr)]) (combine suf tsuf)).
Proof.
  induction suf as [|p suf IH]; intros pre tsuf tpre Hpre Hsuf.
  - destruct tsuf; [|discriminate]. reflexivity.
  - destruct tsuf as [|t tsuf]; [discriminate|]. simpl in Hsuf.
    change (length (p :: suf)) with (S (length suf)).
    cbn [seq map combine foldM].
    unfold gen_Subcircuit_evaluate_truth_table_with_dont_cares_for2 at 1.
    cbv beta iota.
    rewrite py_index_app_len. cbn [bind]. rewrite py_setitem_app_len. cbn [bind].
    rewrite Hpre, py_index_app_len. cbn [bind]. rewrite py_setitem_app_len. cbn [bind].
    rewrite py_bool_of_land1.
    specialize (IH (pre ++ [N.shiftr p 1]) tsuf (tpre ++ [t ++ [row_cell self asg p]])).
    rewrite !app_length in IH. cbn [length] in IH. rewrite Nat.add_1_r in IH.
    rewrite <- !app_assoc in IH. cbn [app] in IH. rewrite <- Hpre.
    unfold row_cell in IH at 1. rewrite IH by lia. cbn [map combine fst snd]. reflexivity.
Qed.

Lemma row_step self v st :
  length (fst st) = length (snd st) ->
  gen_Subcircuit_evaluate_truth_table_with_dont_cares_for1 self st (map bit_str v)
  = Ok (tt_row_step (care_of_strings (Subcircuit_inputs_tt self)) st v).
Proof.
  destruct st as [pats tt]. simpl. intros Hlen.
  unfold gen_Subcircuit_evaluate_truth_table_with_dont_cares_for1.
  rewrite py_enumerate_seq.
  pose proof (inner_loop self (py_join "" (map bit_str v)) pats [] tt [] eq_refl Hlen) as H.
  simpl in H. rewrite H. simpl. unfold tt_row_step. simpl. f_equal. f_equal.
  apply map_ext. intros [p t]. simpl. unfold row_cell. f_equal.
  change (py_join "" (map bit_str v)) with (str_of_bits v). rewrite memb_care. reflexivity.
Qed.

Lemma tt_row_step_len care st v :
  length (fst st) = length (snd st) -> length (fst (tt_row_step care st v)) = length (snd (tt_row_step care st v)).
Proof.
  destruct st as [pats tt]. simpl. intros H. rewrite !map_length, combine_length. lia.
Qed.

Lemma rows_loop self : forall vs st,
  length (fst st) = length (snd st) ->
  foldM (gen_Subcircuit_evaluate_truth_table_with_dont_cares_for1 self) (map (map bit_str) vs) st
  = Ok (fold_left (tt_row_step (care_of_strings (Subcircuit_inputs_tt self))) vs st).
Proof.
  induction vs as [|v vs IH]; intros st H; simpl; [reflexivity|].
  rewrite row_step by exact H. simpl. apply IH. apply tt_row_step_len. exact H.
Qed.

Theorem gen_evaluate_truth_table_with_dont_cares_eq : forall self,
  gen_Subcircuit_evaluate_truth_table_with_dont_cares self =
  Ok (tt_with_dont_cares (length (Subcircuit_inputs self))
                         (map (pat_get (Subcircuit_patterns self)) (Subcircuit_outputs self))
                         (care_of_strings (Subcircuit_inputs_tt self))).
Proof.
  intros self. unfold gen_Subcircuit_evaluate_truth_table_with_dont_cares.
  unfold py_product, py_len. rewrite Nnat.Nat2N.id, py_product_bits.
  rewrite rows_loop by (simpl; rewrite !map_length; reflexivity).
  cbn [bind]. unfold tt_with_dont_cares, pat_get, py_ddict_get.
  match goal with |- context [fold_left ?f ?l ?s] => destruct (fold_left f l s) end. reflexivity.
Qed.
