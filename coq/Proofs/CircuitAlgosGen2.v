(* T10, second part: evaluate_circuit (the while loop over a stack) and the entry points built on it:
   evaluate_circuit_outputs, evaluate, evaluate_at, get_truth_table.

   The regenerated loop follows the source: after pushing the unassigned operands it compares the label of
   the current gate with the top of the stack (`cur_gate.label == queue_[-1]`).  The hand model tests
   "nothing was pushed" instead.  The two differ exactly when the LAST pushed operand is the current gate
   itself, i.e. the gate is its own (unassigned) operand: the source then evaluates the gate and raises
   (KeyError, or GateTypeNoOperatorError for an INPUT with operands) while the model pushes forever and
   ends in Err OutOfFuel.  `agree` is the exact relation: equal, or that corner. *)
Require Import Cirbo.Model.Base Cirbo.Model.Gate Cirbo.Model.Circuit Cirbo.Model.Traverse Cirbo.Model.Eval.
Require Import Cirbo.Generated.Operators Cirbo.Generated.GateTypes Cirbo.Generated.CircuitCore
        Cirbo.Generated.CircuitAlgos.
Require Import Cirbo.Proofs.DictFacts Cirbo.Proofs.TopSort Cirbo.Proofs.CircuitCoreGen Cirbo.Proofs.CircuitCoreGen2
        Cirbo.Proofs.CircuitAlgosGen.

Definition has_self_loop (c : circuit) : Prop :=
  exists l g, dget (gates c) l = Some g /\ In l (gops g).

Definition agree {A} (c : circuit) (g h : res A) : Prop :=
  g = h \/ (h = Err OutOfFuel /\ (exists e, g = Err e) /\ has_self_loop c).

Lemma agree_refl {A} c (r : res A) : agree c r r.
Proof. left. reflexivity. Qed.

Lemma agree_eq {A} c (g h : res A) : g = h -> agree c g h.
Proof. intros ->. apply agree_refl. Qed.

Lemma agree_bind {A B} c (g h : res A) (kg kh : A -> res B) :
  agree c g h -> (forall x, agree c (kg x) (kh x)) -> agree c (bind g kg) (bind h kh).
Proof.
  intros [->|(-> & (e & ->) & Hs)] Hk.
  - destruct h as [x|e]; simpl; [apply Hk|apply agree_refl].
  - right. simpl. split; [reflexivity|]. split; [exists e; reflexivity|exact Hs].
Qed.

Lemma agree_mapM {A B} c (fg fh : A -> res B) l :
  (forall x, agree c (fg x) (fh x)) -> agree c (mapM fg l) (mapM fh l).
Proof.
  intros H. induction l as [|x xs IH]; simpl; [apply agree_refl|].
  apply agree_bind; [apply H|]. intros y. apply agree_bind; [exact IH|]. intros ys. apply agree_refl.
Qed.

(* what `agree` gives *)
Lemma agree_ok {A} c (g h : res A) x : agree c g h -> (g = Ok x <-> h = Ok x).
Proof.
  intros [->|(-> & (e & ->) & _)]; [tauto|]. split; discriminate.
Qed.

Lemma agree_is_ok {A} c (g h : res A) : agree c g h -> is_ok g = is_ok h.
Proof. intros [->|(-> & (e & ->) & _)]; reflexivity. Qed.

Lemma agree_no_self_loop {A} c (g h : res A) : agree c g h -> ~ has_self_loop c -> g = h.
Proof. intros [->|(_ & _ & Hs)] Hn; [reflexivity|contradiction]. Qed.

Lemma agree_not_out_of_fuel {A} c (g h : res A) : agree c g h -> h <> Err OutOfFuel -> g = h.
Proof. intros [->|(Hh & _)] Hn; [reflexivity|contradiction]. Qed.

(* ---------------------------------------------------------------- the stack loop *)
Lemma eval_stack_stuck c d g cur r :
  get_gate c cur = Ok g ->
  filter (fun op => negb (dmem d op)) (gops g) = r ++ [cur] ->
  forall fuel rest, eval_stack_loop fuel c d (rest ++ [cur]) = Err OutOfFuel.
Proof.
  intros Hg Hf. induction fuel as [|fuel IH]; intros rest; [reflexivity|].
  cbn [eval_stack_loop]. rewrite pop_last_snoc, Hg. cbn [bind]. rewrite Hf, match_snoc.
  rewrite app_assoc. apply IH.
Qed.

Lemma mapM_dget_missing (d : assignment) x ops :
  In x ops -> dmem d x = false -> exists e, mapM (fun op => dget_res d op) ops = Err e.
Proof.
  intros Hin Hx. induction ops as [|o ops IH]; [contradiction|]. simpl.
  unfold dget_res at 1. destruct (dget d o) as [v|] eqn:Eo; simpl; [|eexists; reflexivity].
  destruct Hin as [->|Hin]; [unfold dmem in Hx; rewrite Eo in Hx; discriminate|].
  destruct (IH Hin) as (e & ->). eexists; reflexivity.
Qed.

Lemma get_gate_dget c l g : get_gate c l = Ok g -> dget (gates c) l = Some g.
Proof. unfold get_gate. destruct (dget (gates c) l); [intros [= ->]; reflexivity|discriminate]. Qed.

Lemma eval_loop_agree c : forall fuel d stk,
  agree c (do r <- gen_evaluate_circuit_loop1 fuel c d stk; Ok (fst r)) (eval_stack_loop fuel c d stk).
Proof.
  induction fuel as [|fuel IH]; intros d stk; [apply agree_refl|].
  cbn [gen_evaluate_circuit_loop1 eval_stack_loop].
  destruct (pop_last_cases stk) as [[-> Hp]|(cur & rest & -> & Hp)].
  { rewrite Hp. apply agree_refl. }
  rewrite Hp, match_snoc. unfold list_last at 1. rewrite Hp. cbn [bind].
  rewrite gen_get_gate_eq. destruct (get_gate c cur) as [g|e] eqn:Eg; cbn [bind]; [|apply agree_refl].
  assert (Hpush : foldM (fun v_queue_ v_operand =>
                           if negb (dmem d v_operand) then Ok (v_queue_ ++ [v_operand])
                           else Ok v_queue_) (gops g) (rest ++ [cur])
                  = Ok ((rest ++ [cur]) ++ filter (fun op => negb (dmem d op)) (gops g))).
  { apply (foldM_filter_append (fun op => negb (dmem d op))). }
  rewrite Hpush. cbn [bind]. clear Hpush.
  remember (filter (fun op => negb (dmem d op)) (gops g)) as pushed eqn:Epushed.
  destruct (pop_last_cases pushed) as [[-> _]|(x & r & -> & _)].
  - (* nothing pushed: evaluate and pop *)
    rewrite app_nil_r. unfold list_last. rewrite Hp. cbn [bind]. rewrite leqb_refl.
    unfold gate_operator, eval_gate, lookup_vals.
    change (fun op : label => match dget d op with Some v => Ok v | None => Err PyKeyError end)
      with (fun op : label => dget_res d op).
    destruct (gtype_beq (gtyp g) INPUT); cbn [bind]; [apply agree_refl|].
    match goal with |- context [mapM ?f (gops g)] => destruct (mapM f (gops g)) as [vs|e] end;
      cbn [bind]; [|apply agree_refl].
    destruct (operator_of (gtyp g) vs) as [v|e]; cbn [bind]; [|apply agree_refl].
    unfold list_pop. rewrite Hp. cbn [bind]. apply IH.
  - rewrite match_snoc. rewrite (app_assoc (rest ++ [cur]) r [x]).
    unfold list_last. rewrite pop_last_snoc. cbn [bind].
    destruct (leqb_spec cur x) as [<-|Hne].
    + (* the corner: the last pushed operand is the gate itself *)
      right.
      assert (Hin : In cur (gops g) /\ dmem d cur = false).
      { assert (H : In cur (filter (fun op => negb (dmem d op)) (gops g))).
        { rewrite <- Epushed. apply in_or_app. right. left. reflexivity. }
        apply filter_In in H. destruct H as [H1 H2]. split; [exact H1|].
        destruct (dmem d cur); [discriminate|reflexivity]. }
      split.
      { apply (eval_stack_stuck c d g cur r Eg (eq_sym Epushed)). }
      split.
      { unfold gate_operator. destruct (gtype_beq (gtyp g) INPUT); cbn [bind]; [eexists; reflexivity|].
        destruct (mapM_dget_missing d cur (gops g) (proj1 Hin) (proj2 Hin)) as (e & ->).
        eexists; reflexivity. }
      exists cur, g. split; [apply get_gate_dget; exact Eg|apply Hin].
    + rewrite <- app_assoc. apply IH.
Qed.

(* ---------------------------------------------------------------- evaluate_circuit *)
Lemma gen_evaluate_circuit_agree c a outs fuel :
  agree c (gen_evaluate_circuit fuel c a outs) (evaluate_circuit_fuel fuel c a outs).
Proof.
  unfold gen_evaluate_circuit, evaluate_circuit_fuel.
  rewrite init_assignment_loop. cbn [bind].
  set (outs' := match outs with Some o => o | None => outputs c end).
  assert (Hq : foldM (fun v_queue_ v_output =>
                        if negb (memb v_output (inputs c)) then Ok (v_queue_ ++ [v_output])
                        else Ok v_queue_) outs' []
               = Ok ([] ++ filter (fun o => negb (memb o (inputs c))) outs')).
  { apply (foldM_filter_append (fun o => negb (memb o (inputs c)))). }
  rewrite Hq. cbn [bind app]. clear Hq.
  set (stack := filter (fun o => negb (memb o (inputs c))) outs').
  pose proof (eval_loop_agree c fuel (init_assignment c a) stack) as Hl.
  match goal with |- agree c (bind ?X ?K) _ =>
    replace (bind X K) with (bind (do r <- X; Ok (fst r))
      (fun d => do d' <- foldM (fun d g => let d := dsetdefault d g U in Ok d) (dkeys (gates c)) d; Ok d')) end.
  2:{ rewrite bind_assoc. apply bind_ext. intros [d q]. reflexivity. }
  apply agree_bind; [exact Hl|]. intros d. apply agree_eq.
  rewrite (foldM_total _ (fun d l => dsetdefault d l U)) by reflexivity. reflexivity.
Qed.

Lemma gen_evaluate_circuit_agree' c a outs :
  agree c (gen_evaluate_circuit (eval_fuel c (match outs with Some o => o | None => outputs c end)) c a outs)
        (evaluate_circuit c a outs).
Proof. apply gen_evaluate_circuit_agree. Qed.

(* ---------------------------------------------------------------- evaluate_circuit_outputs *)
Lemma gen_evaluate_circuit_outputs_agree c a :
  agree c (gen_evaluate_circuit_outputs outputs_fuel c a) (evaluate_circuit_outputs c a).
Proof.
  unfold gen_evaluate_circuit_outputs, evaluate_circuit_outputs, outputs_fuel.
  apply agree_bind; [apply (gen_evaluate_circuit_agree' c a None)|].
  intros d. apply agree_eq. apply foldM_ext. intros acc o. unfold dget_res.
  destruct (dget d o); reflexivity.
Qed.

(* ---------------------------------------------------------------- evaluate / evaluate_at *)
Lemma zip_inputs_loop (vals : list st) : forall ins k acc,
  foldM (fun v_dict_inputs (p : nat * label) =>
           do t1 <- nth_res vals (fst p);
           let v_dict_inputs := dset v_dict_inputs (snd p) t1 in Ok v_dict_inputs)
        (combine (seq k (length ins)) ins) acc
  = zip_inputs ins (skipn k vals) acc.
Proof.
  induction ins as [|i ins IH]; intros k acc; [reflexivity|].
  cbn [length seq combine foldM fst snd]. rewrite (skipn_nth_error vals k). unfold nth_res at 1.
  destruct (nth_error vals k) as [v|]; cbn [bind zip_inputs fst snd]; [|reflexivity].
  apply IH.
Qed.

Lemma gen_zip_inputs c vals :
  foldM (fun v_dict_inputs (p : nat * label) =>
           do t1 <- nth_res vals (fst p);
           let v_dict_inputs := dset v_dict_inputs (snd p) t1 in Ok v_dict_inputs)
        (enumerate (inputs c)) []
  = zip_inputs (inputs c) vals [].
Proof. unfold enumerate. apply (zip_inputs_loop vals (inputs c) 0 []). Qed.

Lemma gen_evaluate_agree c vals :
  agree c (gen_evaluate outputs_fuel c vals) (evaluate c vals).
Proof.
  unfold gen_evaluate, evaluate. cbv zeta. rewrite gen_zip_inputs.
  apply agree_bind; [apply agree_refl|]. intros a.
  apply agree_bind; [apply gen_evaluate_circuit_outputs_agree|]. intros ans.
  apply agree_eq. apply mapM_ext. intros o. unfold dget_res. destruct (dget ans o); reflexivity.
Qed.

(* output_index is a Python int; the model takes a natural number (a non-negative index) *)
Lemma gen_evaluate_at_agree c vals i :
  agree c (gen_evaluate_at at_fuel c vals (Z.of_nat i)) (evaluate_at c vals i).
Proof.
  unfold gen_evaluate_at, evaluate_at, at_fuel. cbv zeta. rewrite gen_zip_inputs.
  apply agree_bind; [apply agree_refl|]. intros a.
  rewrite gen_output_at_index_nat.
  apply agree_bind; [apply agree_refl|]. intros o.
  apply agree_bind; [apply (gen_evaluate_circuit_agree c a (Some [o]))|]. intros d.
  apply agree_refl.
Qed.

(* ---------------------------------------------------------------- get_truth_table *)
Lemma fold_min_const n (rs : list (list st)) :
  Forall (fun r => length r = n) rs -> fold_left (fun m row => Nat.min m (length row)) rs n = n.
Proof.
  induction 1 as [|r rs Hr _ IH]; simpl; [reflexivity|]. rewrite Hr, Nat.min_id. exact IH.
Qed.

Lemma zip_star_rows n (rows : list (list st)) :
  rows <> [] -> Forall (fun r => length r = n) rows ->
  zip_star rows = map (fun j => map (fun r => nth j r U) rows) (seq 0 n).
Proof.
  intros Hne Hall. destruct rows as [|r rs]; [contradiction|].
  inversion Hall as [|? ? Hr Hrs]; subst. unfold zip_star. rewrite fold_min_const; [reflexivity|exact Hrs].
Qed.

Lemma all_bool_vectors_nonempty n : all_bool_vectors n <> [].
Proof.
  induction n as [|n IH]; simpl; [discriminate|].
  destruct (all_bool_vectors n); [contradiction|discriminate].
Qed.

Lemma mapM_Forall {A B} (f : A -> res B) (P : B -> Prop) l r :
  (forall x y, f x = Ok y -> P y) -> mapM f l = Ok r -> Forall P r.
Proof.
  intros H. revert r. induction l as [|x xs IH]; simpl; intros r Hr; [injection Hr as <-; constructor|].
  destruct (f x) as [y|] eqn:Ey; simpl in Hr; [|discriminate].
  destruct (mapM f xs) as [ys|]; simpl in Hr; [|discriminate].
  injection Hr as <-. constructor; [eapply H; eauto|apply IH; reflexivity].
Qed.

Lemma evaluate_length c vals r : evaluate c vals = Ok r -> length r = length (outputs c).
Proof.
  unfold evaluate. destruct (zip_inputs _ _ _); simpl; [|discriminate].
  destruct (evaluate_circuit_outputs _ _); simpl; [|discriminate]. apply mapM_length.
Qed.

Lemma gen_get_truth_table_agree c :
  agree c (gen_get_truth_table outputs_fuel c) (get_truth_table c).
Proof.
  unfold gen_get_truth_table, get_truth_table. rewrite gen_input_size_eq.
  pose proof (agree_mapM c (fun x => gen_evaluate outputs_fuel c (map inj x))
                         (fun x => evaluate c (map inj x)) (all_bool_vectors (length (inputs c)))
                         (fun x => gen_evaluate_agree c (map inj x))) as Hm.
  destruct Hm as [Hm|(Hh & (e & Hg) & Hs)].
  - rewrite Hm. left.
    destruct (mapM (fun x => evaluate c (map inj x)) (all_bool_vectors (length (inputs c)))) as [rows|e] eqn:E;
      cbn [bind]; [|reflexivity].
    f_equal. apply zip_star_rows.
    + intros ->. destruct (all_bool_vectors (length (inputs c))) eqn:Ev;
        [exact (all_bool_vectors_nonempty _ Ev)|].
      simpl in E. destruct (evaluate c (map inj l)); simpl in E; [|discriminate].
      destruct (mapM _ l0); simpl in E; discriminate.
    + eapply mapM_Forall; [|exact E]. intros x y. apply evaluate_length.
  - right. rewrite Hh, Hg. cbn [bind]. split; [reflexivity|]. split; [eexists; reflexivity|exact Hs].
Qed.

(* ---------------------------------------------------------------- the corner is real *)
Definition self_loop_circuit : circuit :=
  mkCircuit [] ["g"] [("g", mkGate NOT ["g"])] [("g", ["g"])] [].

Lemma evaluate_circuit_corner :
  gen_evaluate_circuit (eval_fuel self_loop_circuit ["g"]) self_loop_circuit [] None = Err PyKeyError /\
  evaluate_circuit self_loop_circuit [] None = Err OutOfFuel.
Proof. split; vm_compute; reflexivity. Qed.
