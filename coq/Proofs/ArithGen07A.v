(* Generated/ArithGen07.v (translator T18) equals the hand model, part A: the bit counters
   _add_sum_n_bits_aig, add_sum_n_bits_easy (the loops over levels with the sum3 / sum2 cells).
   The loop lemmas are generic in the loop bodies (a per-iteration specification is a hypothesis), so that
   they do not repeat the generated text. *)
Require Import Cirbo.Model.Base Cirbo.Model.Gate Cirbo.Model.Circuit Cirbo.Model.Builder Cirbo.Model.PyPrims.
Require Import Cirbo.Generated.ArithTables Cirbo.Generated.ArithCells Cirbo.Generated.ArithGen09 Cirbo.Generated.ArithGen07.
Require Import Cirbo.Model.ArithSub Cirbo.Model.ArithSum2 Cirbo.Model.ArithSumN Cirbo.Model.ArithSumW Cirbo.Model.PyPrimsSum.
Require Import Cirbo.Proofs.ArithGen09Lib Cirbo.Proofs.ArithGen09A Cirbo.Proofs.ArithGen07Lib.
From Coq Require Import ZArith Lia Ascii.
Open Scope Z_scope.

Section Schemas.
  Variable fresh : N -> label.
  Variables c3 c2 : list label -> prog (list label).

  (* while len(now) > 2: x, y = c3(now[-1:-4:-1]); pop 3; now.append(x); next.append(y)
     on now = rev (top :: rest) *)
  Fixpoint solo3 (top : label) (rest nx : list label) : prog (list label * list label) :=
    match rest with
    | b :: c :: rest' =>
      bdo r <- c3 [top; b; c]; bdo xy <- unpack2 r; solo3 (fst xy) rest' (nx ++ [snd xy])
    | _ => Ret (rev (top :: rest), nx)
    end.

  Lemma while_solo3 (cond : list label * list label -> bool) body :
    (forall l nx, cond (l, nx) = (py_len l >? 2)) ->
    (forall top b c rest nx B (K : list label * list label -> prog B) s,
        run fresh (Bind (body (rev (top :: b :: c :: rest), nx)) K) s
      = run fresh (bdo r <- c3 [top; b; c]; bdo xy <- unpack2 r; K (rev (fst xy :: rest), nx ++ [snd xy])) s) ->
    forall f top rest nx B (K : list label * list label -> prog B) s, (length rest <= f)%nat ->
        run fresh (Bind (py_while f cond body (rev (top :: rest), nx)) K) s
      = run fresh (Bind (solo3 top rest nx) K) s.
  Proof.
    intros Hc Hb. induction f as [|f IH]; intros top rest nx B K s Hf.
    - destruct rest; [|cbn in Hf; lia]. rewrite py_while_false by (rewrite Hc; reflexivity). reflexivity.
    - destruct rest as [|b [|c rest]].
      + rewrite py_while_false by (rewrite Hc; reflexivity). reflexivity.
      + rewrite py_while_false by (rewrite Hc; reflexivity). reflexivity.
      + rewrite py_while_true by (rewrite Hc, py_len_gtb2, rev_length; reflexivity).
        rewrite bind_assoc. rewrite Hb. cbn [solo3]. step. step.
        apply IH. cbn [length] in Hf. lia.
  Qed.

  (* what the rest of a level does with the one or two labels that are left, against solo_loop *)
  Lemma solo3_then {B} (K2 : list label * list label -> prog B) (K3 : label * list label -> prog B) :
    (forall t nx s, run fresh (K2 ([t], nx)) s = run fresh (K3 (t, rev nx)) s) ->
    (forall t b nx s, run fresh (K2 ([b; t], nx)) s
        = run fresh (bdo r <- c2 [t; b]; bdo xy <- unpack2 r; K3 (fst xy, snd xy :: rev nx)) s) ->
    forall rest top nx s,
      run fresh (Bind (solo3 top rest nx) K2) s = run fresh (Bind (solo_loop c3 c2 top rest (rev nx)) K3) s.
  Proof.
    intros H1 H2 rest. induction rest as [|b|b c rest IH] using list_ind2; intros top nx s.
    - cbn [solo3 solo_loop rev app]. rs. apply H1.
    - cbn [solo3 solo_loop rev app]. rs. rewrite H2. step. step.
    - cbn [solo3 solo_loop]. peel. peel.
      rewrite IH. rewrite rev_app_distr. reflexivity.
  Qed.

  (* while len(now) > 0: <level>; res.append(now[0]); now = next *)
  Lemma while_levels (cond : list label * list label -> bool) body :
    (forall l res, cond (l, res) = (py_len l >? 0)) ->
    (forall top rest res B (K : list label * list label -> prog B) s,
        run fresh (Bind (body (rev (top :: rest), res)) K) s
      = run fresh (Bind (solo_loop c3 c2 top rest []) (fun r => K (rev (snd r), res ++ [fst r]))) s) ->
    forall f stack res B (K : list label * list label -> prog B) s,
        run fresh (Bind (py_while f cond body (rev stack, res)) K) s
      = run fresh (Bind (level_loop f c3 c2 stack) (fun rs => K ([], res ++ rs))) s.
  Proof.
    intros Hc Hb. induction f as [|f IH]; intros stack res B K s.
    - destruct stack as [|top rest].
      + rewrite py_while_false by (rewrite Hc; reflexivity). cbn [level_loop rev]. rs. rewrite app_nil_r. reflexivity.
      + rewrite py_while_true0 by (rewrite Hc, py_len_gtb0, rev_length; reflexivity). reflexivity.
    - destruct stack as [|top rest].
      + rewrite py_while_false by (rewrite Hc; reflexivity). cbn [level_loop rev]. rs. rewrite app_nil_r. reflexivity.
      + rewrite py_while_true by (rewrite Hc, py_len_gtb0, rev_length; reflexivity).
        rewrite bind_assoc, Hb. cbn [level_loop]. peel.
        rewrite IH. peel. rs.
        rewrite <- app_assoc. reflexivity.
  Qed.
End Schemas.

Lemma while_levels_py fresh c3 c2 (cond : list label * list label -> bool) body :
  (forall l res, cond (l, res) = (py_len l >? 0)) ->
  (forall top rest res B (K : list label * list label -> prog B) s,
      run fresh (Bind (body (rev (top :: rest), res)) K) s
    = run fresh (Bind (solo_loop c3 c2 top rest []) (fun r => K (rev (snd r), res ++ [fst r]))) s) ->
  forall f l res B (K : list label * list label -> prog B) s,
      run fresh (Bind (py_while f cond body (l, res)) K) s
    = run fresh (Bind (level_loop f c3 c2 (rev l)) (fun rs => K ([], res ++ rs))) s.
Proof.
  intros Hc Hb f l res B K s. rewrite <- (rev_involutive l) at 1. apply while_levels; assumption.
Qed.

Theorem gen__add_sum_n_bits_aig_eq xs : peq (gen__add_sum_n_bits_aig xs) (add_sum_n_bits_aig xs).
Proof.
  intros fresh s. unfold gen__add_sum_n_bits_aig, add_sum_n_bits_aig. cbv zeta.
  rewrite (while_levels_py fresh add_sum3_aig add_sum2_aig).
  - rs. destruct (run fresh (level_loop (S (length xs)) add_sum3_aig add_sum2_aig (rev xs)) s) as [[r s1]|e]; reflexivity.
  - intros l res. reflexivity.
  - intros top rest res B K s0. cbv beta iota zeta.
    rewrite bind_assoc.
    rewrite (while_solo3 fresh add_sum3_aig).
    + apply (solo3_then fresh add_sum3_aig add_sum2_aig).
      * intros t nx s1. sym. fin.
      * intros t b nx s1. sym. fin.
    + intros l nx. reflexivity.
    + intros t b c rest0 nx B0 K0 s1. cbv beta iota. sym.
    + rewrite rev_length. cbn [length]. lia.
Qed.

Theorem gen_add_sum_n_bits_easy_eq xs be : peq (gen_add_sum_n_bits_easy xs be) (add_sum_n_bits_easy be xs).
Proof.
  intros fresh s. unfold gen_add_sum_n_bits_easy, add_sum_n_bits_easy. cbv zeta.
  rewrite run_bind, run_if_rev1. cbv beta iota. rewrite rev_if_length.
  rewrite (while_levels_py fresh add_sum3 add_sum2).
  - rs. destruct (run fresh (level_loop (S (length xs)) add_sum3 add_sum2 (rev (rev_if be xs))) s) as [[r s1]|e]; [|reflexivity].
    cbn [app]. rewrite run_bind, gen_reverse_if_big_endian_run. reflexivity.
  - intros l res. reflexivity.
  - intros top rest res B K s0. cbv beta iota zeta.
    rewrite bind_assoc.
    rewrite (while_solo3 fresh add_sum3).
    + apply (solo3_then fresh add_sum3 add_sum2).
      * intros t nx s1. sym. fin.
      * intros t b nx s1. sym. fin.
    + intros l nx. reflexivity.
    + intros t b c rest0 nx B0 K0 s1. cbv beta iota. sym.
    + rewrite rev_length. cbn [length]. lia.
Qed.
