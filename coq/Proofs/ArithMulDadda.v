(* C08, part 3: add_mul_dadda.  The columns are a weighted bag: a half / full adder replaces 2 / 3
   bits of a column by a sum bit in the column and a carry in the next, which leaves
   cols_val = sum_i 2^i * ones(column_i) unchanged; only the carry out of the last column is
   dropped, so the value is invariant modulo 2^(number of columns).  After the pass with di = 2
   every column but the first holds at most one bit. *)
Require Import Cirbo.Model.Base Cirbo.Model.Gate Cirbo.Model.Den Cirbo.Model.Circuit
  Cirbo.Model.Eval Cirbo.Model.Sem Cirbo.Model.Builder.
Require Import Cirbo.Generated.ArithTables Cirbo.Generated.ArithCells.
Require Import Cirbo.Model.ArithSub Cirbo.Model.ArithSum2 Cirbo.Model.ArithSumN Cirbo.Model.ArithSumW
  Cirbo.Model.ArithMul.
Require Import Cirbo.Proofs.DictFacts Cirbo.Proofs.BuilderFacts Cirbo.Proofs.ArithFacts
  Cirbo.Proofs.ArithSumCells Cirbo.Proofs.ArithSumPow2Facts Cirbo.Proofs.ArithMulFacts
  Cirbo.Proofs.ArithMulDiag.
Open Scope Z_scope.

Lemma bvals_app_inv c asg l1 l2 v : bvals c asg (l1 ++ l2) v ->
  exists v1 v2, v = v1 ++ v2 /\ bvals c asg l1 v1 /\ bvals c asg l2 v2.
Proof. intros H. apply Forall2_app_inv_l in H as (v1 & v2 & H1 & H2 & ->). eauto. Qed.

(* ---- one column ------------------------------------------------------------------------------------------ *)
Lemma reduce_col_spec fresh di has_next : forall fuel cur nxt s cur' nxt' s',
  run fresh (reduce_col fuel di has_next cur nxt) s = Ok ((cur', nxt'), s') ->
  ext (bc s) (bc s') /\ outputs (bc s') = outputs (bc s) /\ (length cur' < di)%nat /\
  (has_next = false -> nxt' = nxt) /\
  forall c, ext (bc s') c -> forall asg cv nv, bvals c asg cur cv -> bvals c asg nxt nv ->
    exists cv' nv' K, bvals c asg cur' cv' /\ bvals c asg nxt' nv' /\
      ones cv + 2 * ones nv = ones cv' + 2 * ones nv' + 2 * K /\ (has_next = true -> K = 0).
Proof.
  induction fuel as [|f IH]; intros cur nxt s cur' nxt' s' H; cbn [reduce_col] in H;
    destruct (length cur <? di)%nat eqn:E.
  1,3: apply run_ret_inv in H as (H & ->); injection H as <- <-; apply Nat.ltb_lt in E;
       (split; [apply ext_refl|]); (split; [reflexivity|]); (split; [exact E|]); (split; [reflexivity|]);
       intros c _ asg cv nv Hcv Hnv; exists cv, nv, 0; repeat split; [exact Hcv|exact Hnv|lia].
  { discriminate. }
  apply run_bind_inv in H as ([rest [g1 g2]] & s1 & Hst & H). cbn [fst snd] in H.
  assert (exists used, cur = used ++ rest /\ ext (bc s) (bc s1) /\ outputs (bc s1) = outputs (bc s) /\
            forall c, ext (bc s1) c -> forall asg uv, bvals c asg used uv ->
              exists v1 v2, bval c asg g1 v1 /\ bval c asg g2 v2 /\ ones uv = Z.b2z v1 + 2 * Z.b2z v2)
    as (used & Ecur & Hx1 & O1 & V1).
  { destruct (length cur =? di)%nat.
    - destruct cur as [|x [|y cur0]]; try discriminate.
      apply run_bind_inv in Hst as (r & s2 & Hr & Hst). apply run_bind_inv in Hst as (g & s3 & Hg & Hst).
      apply unpack2_inv in Hg as (Eg & ->). apply run_ret_inv in Hst as (Hst & ->). injection Hst as -> <-.
      pose proof (run_ext _ _ _ _ _ Hr) as Hx1.
      apply add_sum2_cell in Hr as (sx & sy & -> & O1 & _ & V). cbn [fst snd] in Eg. injection Eg as -> ->.
      exists [x; y]. split; [reflexivity|]. split; [exact Hx1|]. split; [exact O1|].
      intros c Hc asg uv Hu. inversion Hu as [|? vx ? uv1 Hvx Hu1]; subst. inversion Hu1 as [|? vy ? uv2 Hvy Hu2]; subst.
      inversion Hu2; subst. destruct (V c Hc asg vx vy Hvx Hvy) as (v1 & v2 & W1 & W2 & E1).
      exists v1, v2. repeat split; [exact W1|exact W2|]. simpl. lia.
    - destruct cur as [|x [|y [|z cur0]]]; try discriminate.
      apply run_bind_inv in Hst as (r & s2 & Hr & Hst). apply run_bind_inv in Hst as (g & s3 & Hg & Hst).
      apply unpack2_inv in Hg as (Eg & ->). apply run_ret_inv in Hst as (Hst & ->). injection Hst as -> <-.
      pose proof (run_ext _ _ _ _ _ Hr) as Hx1.
      apply add_sum3_cell in Hr as (sx & sy & -> & O1 & _ & V). cbn [fst snd] in Eg. injection Eg as -> ->.
      exists [x; y; z]. split; [reflexivity|]. split; [exact Hx1|]. split; [exact O1|].
      intros c Hc asg uv Hu. inversion Hu as [|? vx ? uv1 Hvx Hu1]; subst. inversion Hu1 as [|? vy ? uv2 Hvy Hu2]; subst.
      inversion Hu2 as [|? vz ? uv3 Hvz Hu3]; subst. inversion Hu3; subst.
      destruct (V c Hc asg vx vy vz Hvx Hvy Hvz) as (v1 & v2 & W1 & W2 & E1).
      exists v1, v2. repeat split; [exact W1|exact W2|]. simpl. lia. }
  apply IH in H as (Hx2 & O2 & L2 & N2 & V2).
  split; [eapply ext_trans; eassumption|]. split; [congruence|]. split; [exact L2|]. split.
  { intros ->. apply N2. reflexivity. }
  intros c Hc asg cv nv Hcv Hnv. subst cur.
  apply bvals_app_inv in Hcv as (uv & rv & -> & Huv & Hrv).
  assert (ext (bc s1) c) as Hc1 by (eapply ext_trans; eassumption).
  destruct (V1 c Hc1 asg uv Huv) as (v1 & v2 & W1 & W2 & E1).
  destruct has_next.
  - destruct (V2 c Hc asg (rv ++ [v1]) (nv ++ [v2])) as (cv' & nv' & K & Hcv' & Hnv' & E2 & HK).
    { apply bvals_app; [exact Hrv|constructor; [exact W1|constructor]]. }
    { apply bvals_app; [exact Hnv|constructor; [exact W2|constructor]]. }
    exists cv', nv', K. repeat split; [exact Hcv'|exact Hnv'| |exact HK].
    rewrite !ones_app in *. simpl ones in *. lia.
  - destruct (V2 c Hc asg (rv ++ [v1]) nv) as (cv' & nv' & K & Hcv' & Hnv' & E2 & HK).
    { apply bvals_app; [exact Hrv|constructor; [exact W1|constructor]]. }
    { exact Hnv. }
    exists cv', nv', (K + Z.b2z v2). repeat split; [exact Hcv'|exact Hnv'| |discriminate].
    rewrite !ones_app in *. simpl ones in *. lia.
Qed.

(* ---- one pass over the columns ------------------------------------------------------------------------------ *)
Definition thin {A} (cols : list (list A)) : Prop := Forall (fun col => (length col <= 1)%nat) cols.

Lemma dadda_cols_spec fresh di : forall rest cur s t s',
  run fresh (dadda_cols di cur rest) s = Ok (t, s') ->
  ext (bc s) (bc s') /\ outputs (bc s') = outputs (bc s) /\ length t = S (length rest) /\
  Forall (fun col => (length col < di)%nat) t /\
  forall c, ext (bc s') c -> forall asg cv restv, bvals c asg cur cv -> mvals c asg rest restv ->
    exists tv K, mvals c asg t tv /\ cols_val (cv :: restv) = cols_val tv + 2 ^ Z.of_nat (S (length rest)) * K.
Proof.
  induction rest as [|nx rest IH]; intros cur s t s' H; cbn [dadda_cols] in H.
  - apply run_bind_inv in H as ([cur' nxt'] & s1 & Hr & H). apply run_ret_inv in H as (-> & ->).
    apply reduce_col_spec in Hr as (Hx & O & L & N & V). cbn [fst].
    split; [exact Hx|]. split; [exact O|]. split; [reflexivity|]. split; [constructor; [exact L|constructor]|].
    intros c Hc asg cv restv Hcv Hrest. inversion Hrest; subst.
    destruct (V c Hc asg cv [] Hcv) as (cv' & nv' & K & Hcv' & Hnv' & E & _); [constructor|].
    rewrite (N eq_refl) in Hnv'. inversion Hnv'; subst.
    exists [cv'], K. split; [constructor; [exact Hcv'|constructor]|].
    cbn [cols_val length]. change (2 ^ Z.of_nat 1) with 2. simpl ones in E. lia.
  - apply run_bind_inv in H as ([cur' nxt'] & s1 & Hr & H). apply run_bind_inv in H as (t' & s2 & Ht & H).
    apply run_ret_inv in H as (-> & ->). cbn [fst snd] in *.
    apply reduce_col_spec in Hr as (Hx1 & O1 & L1 & _ & V1). apply IH in Ht as (Hx2 & O2 & L2 & F2 & V2).
    split; [eapply ext_trans; eassumption|]. split; [congruence|]. split; [simpl; congruence|].
    split; [constructor; assumption|].
    intros c Hc asg cv restv Hcv Hrest. inversion Hrest as [|? nv ? restv' Hnv Hrest']; subst.
    assert (ext (bc s1) c) as Hc1 by (eapply ext_trans; eassumption).
    destruct (V1 c Hc1 asg cv nv Hcv Hnv) as (cv' & nv' & K1 & Hcv' & Hnv' & E1 & HK). rewrite (HK eq_refl) in E1.
    destruct (V2 c Hc asg nv' restv' Hnv' Hrest') as (tv' & K & Htv' & E2).
    exists (cv' :: tv'), K. split; [constructor; assumption|].
    cbn [cols_val length] in *. rewrite (pow2_succ (S (length rest))). lia.
Qed.

Lemma dadda_pass_spec fresh di cols s cols' s' :
  run fresh (dadda_pass di cols) s = Ok (cols', s') ->
  ext (bc s) (bc s') /\ outputs (bc s') = outputs (bc s) /\ length cols' = length cols /\
  hd_error cols' = hd_error cols /\ Forall (fun col => (length col < di)%nat) (tl cols') /\
  forall c, ext (bc s') c -> forall asg cvs, mvals c asg cols cvs ->
    exists cvs' K, mvals c asg cols' cvs' /\ cols_val cvs = cols_val cvs' + 2 ^ Z.of_nat (length cols) * K.
Proof.
  intros H. unfold dadda_pass in H.
  assert (Hsame : run fresh (Ret cols) s = Ok (cols', s') -> (length cols <= 1)%nat ->
    ext (bc s) (bc s') /\ outputs (bc s') = outputs (bc s) /\ length cols' = length cols /\
    hd_error cols' = hd_error cols /\ Forall (fun col => (length col < di)%nat) (tl cols') /\
    forall c, ext (bc s') c -> forall asg cvs, mvals c asg cols cvs ->
      exists cvs' K, mvals c asg cols' cvs' /\ cols_val cvs = cols_val cvs' + 2 ^ Z.of_nat (length cols) * K).
  { intros H0 Hl. apply run_ret_inv in H0 as (-> & ->). split; [apply ext_refl|]. repeat split.
    - destruct cols as [|c0 [|? ?]]; simpl in *; [constructor|constructor|lia].
    - intros c _ asg cvs Hcvs. exists cvs, 0. split; [exact Hcvs|lia]. }
  destruct cols as [|c0 [|c1 rest]]; [apply Hsame; [exact H|simpl; lia]..|]. clear Hsame.
  apply run_bind_inv in H as (t & s1 & Ht & H). apply run_ret_inv in H as (-> & ->).
  apply dadda_cols_spec in Ht as (Hx & O & L & F & V).
  split; [exact Hx|]. split; [exact O|]. split; [simpl; congruence|]. split; [reflexivity|]. split; [exact F|].
  intros c Hc asg cvs Hcvs. inversion Hcvs as [|? c0v ? cvs1 Hc0 Hcvs1]; subst.
  inversion Hcvs1 as [|? c1v ? restv Hc1 Hrest]; subst.
  destruct (V c Hc asg c1v restv Hc1 Hrest) as (tv & K & Htv & E).
  exists (c0v :: tv), K. split; [constructor; assumption|].
  cbn [cols_val length] in *. rewrite (pow2_succ (S (length rest))). lia.
Qed.

Lemma dadda_main_spec fresh : forall fuel di cols s cols' s',
  (2 <= di)%nat -> run fresh (dadda_main fuel di cols) s = Ok (cols', s') ->
  ext (bc s) (bc s') /\ outputs (bc s') = outputs (bc s) /\ length cols' = length cols /\
  hd_error cols' = hd_error cols /\ thin (tl cols') /\
  forall c, ext (bc s') c -> forall asg cvs, mvals c asg cols cvs ->
    exists cvs' K, mvals c asg cols' cvs' /\ cols_val cvs = cols_val cvs' + 2 ^ Z.of_nat (length cols) * K.
Proof.
  induction fuel as [|f IH]; intros di cols s cols' s' Hdi H; cbn [dadda_main] in H;
    destruct (di =? 1)%nat eqn:E1; try (apply Nat.eqb_eq in E1; lia); [discriminate|].
  apply run_bind_inv in H as (cols1 & s1 & Hp & H).
  apply dadda_pass_spec in Hp as (Hx1 & O1 & L1 & Hd1 & F1 & V1).
  destruct (di =? 2)%nat eqn:E2.
  - apply Nat.eqb_eq in E2. subst di.
    assert (run fresh (Ret cols1) s1 = Ok (cols', s')) as H' by (destruct f; exact H). clear H.
    apply run_ret_inv in H' as (-> & ->).
    split; [exact Hx1|]. split; [exact O1|]. split; [exact L1|]. split; [exact Hd1|]. split.
    + eapply Forall_impl; [|exact F1]. simpl. intros; lia.
    + exact V1.
  - apply Nat.eqb_neq in E2.
    apply IH in H as (Hx2 & O2 & L2 & Hd2 & F2 & V2).
    2:{ apply Nat.div_le_lower_bound; lia. }
    split; [eapply ext_trans; eassumption|]. split; [congruence|]. split; [congruence|]. split; [congruence|].
    split; [exact F2|].
    intros c Hc asg cvs Hcvs. assert (ext (bc s1) c) as Hc1 by (eapply ext_trans; eassumption).
    destruct (V1 c Hc1 asg cvs Hcvs) as (cvs1 & K1 & Hcvs1 & Ea).
    destruct (V2 c Hc asg cvs1 Hcvs1) as (cvs' & K2 & Hcvs' & Eb).
    exists cvs', (K1 + K2). split; [exact Hcvs'|]. rewrite L1 in Eb. lia.
Qed.

(* ---- reading the result off thin columns ---------------------------------------------------------------------- *)
Lemma first_of_all fresh : forall cols s out s',
  run fresh (mapP first_of cols) s = Ok (out, s') ->
  s' = s /\ Forall2 (fun col x => hd_error col = Some x) cols out.
Proof.
  induction cols as [|col cols IH]; intros s out s' H; cbn [mapP] in H.
  - apply run_ret_inv in H as (-> & ->). split; [reflexivity|constructor].
  - apply run_bind_inv in H as (x & s1 & Hx & H). apply run_bind_inv in H as (r & s2 & Hr & H).
    apply run_ret_inv in H as (-> & ->). apply IH in Hr as (-> & F).
    destruct col as [|y col']; [discriminate|]. apply run_ret_inv in Hx as (-> & ->).
    split; [reflexivity|]. constructor; [reflexivity|exact F].
Qed.

Lemma thin_heads_value c asg : forall cols out cvs,
  Forall2 (fun col x => hd_error col = Some x) cols out -> thin cols -> mvals c asg cols cvs ->
  exists outv, bvals c asg out outv /\ cols_val cvs = bits_val outv.
Proof.
  induction cols as [|col cols IH]; intros out cvs Hh Ht Hv.
  - inversion Hh; subst. inversion Hv; subst. exists []. split; [constructor|reflexivity].
  - inversion Hh as [|? x0 ? out' Hhd Hh']; subst. inversion Hv as [|? cv ? cvs' Hcv Hv']; subst.
    inversion Ht as [|? ? Hl Ht']; subst.
    destruct (IH _ _ Hh' Ht' Hv') as (outv & Hov & E).
    destruct col as [|x1 [|x2 col']]; simpl in Hhd, Hl; [discriminate| |lia].
    injection Hhd as ->.
    inversion Hcv as [|? vx ? vr Hvx Hvr]; subst. inversion Hvr; subst.
    exists (vx :: outv). split; [constructor; assumption|]. cbn [cols_val bits_val]. simpl ones. lia.
Qed.

Lemma cols_val_firstn_skipn k : forall cvs,
  cols_val cvs = cols_val (firstn k cvs) + 2 ^ Z.of_nat (length (firstn k cvs)) * cols_val (skipn k cvs).
Proof.
  induction k as [|k IH]; intros cvs.
  - simpl. change (Z.of_nat 0) with 0. rewrite Z.pow_0_r. lia.
  - destruct cvs as [|v cvs]; [simpl; lia|]. cbn [firstn skipn cols_val length]. rewrite (IH cvs), pow2_succ. lia.
Qed.

(* thin columns when one operand has a single bit *)
Lemma heads1_length_le {A} (rows : list (list A)) : (length (heads1 rows) <= length rows)%nat.
Proof.
  unfold heads1. induction rows as [|r rows IH]; simpl; [lia|]. rewrite app_length. destruct r; simpl; lia.
Qed.

Lemma heads1_empty {A} (rows : list (list A)) : Forall (fun r => r = []) rows -> heads1 rows = [].
Proof. unfold heads1. induction 1 as [|r rows -> _ IH]; simpl; [reflexivity|exact IH]. Qed.

Lemma diagonals_thin_rows {A} k : forall (act pend : list (list A)),
  Forall (fun r => r = []) act -> Forall (fun r => (length r <= 1)%nat) pend -> thin (diagonals k act pend).
Proof.
  induction k as [|k IH]; intros act pend Ha Hp; cbn [diagonals]; [constructor|].
  constructor.
  - unfold heads1. rewrite flat_map_app. fold (heads1 act). fold (heads1 (firstn 1 pend)).
    rewrite (heads1_empty _ Ha). cbn [app]. pose proof (heads1_length_le (firstn 1 pend)) as H.
    rewrite firstn_length in H. lia.
  - apply IH.
    + rewrite map_app. apply Forall_app. split.
      * clear -Ha. induction Ha as [|r act -> _ IH]; simpl; constructor; [reflexivity|exact IH].
      * destruct pend as [|p pend']; simpl; constructor; [|constructor].
        inversion Hp; subst. destruct p as [|? [|? ?]]; simpl in *; [reflexivity|reflexivity|lia].
    + destruct pend; simpl; [constructor|]. inversion Hp; assumption.
Qed.

Lemma diagonals_thin_single {A} k : forall (act pend : list (list A)),
  (length act + length pend <= 1)%nat -> thin (diagonals k act pend).
Proof.
  induction k as [|k IH]; intros act pend Hl; cbn [diagonals]; [constructor|].
  constructor.
  - pose proof (heads1_length_le (act ++ firstn 1 pend)) as H. rewrite app_length, firstn_length in H. lia.
  - apply IH. rewrite map_length, app_length, firstn_length. destruct pend; simpl in *; lia.
Qed.

(* ---- add_mul_dadda ------------------------------------------------------------------------------------------------ *)
Lemma cols_val_nonneg cvs : 0 <= cols_val cvs.
Proof.
  induction cvs as [|v cvs IH]; simpl; [lia|]. assert (0 <= ones v) by (induction v as [|b v IHv]; simpl; [lia|destruct b; simpl; lia]). lia.
Qed.

Lemma product_bound xv yv : 0 <= bits_val xv * bits_val yv < 2 ^ Z.of_nat (length xv + length yv).
Proof.
  pose proof (bits_val_range xv) as Hx. pose proof (bits_val_range yv) as Hy. rewrite pow2_add. nia.
Qed.

Lemma dadda_start_ge2 fuel : forall d lim, (2 <= d -> 2 <= dadda_start fuel d lim)%nat.
Proof.
  induction fuel as [|f IHf]; intros d0 lim Hd0; cbn [dadda_start]; [exact Hd0|].
  destruct (3 * d0 / 2 <? lim)%nat; [|exact Hd0]. apply IHf. apply Nat.div_le_lower_bound; lia.
Qed.

Theorem add_mul_dadda_correct fresh xs ys be s rs s' :
  run fresh (add_mul_dadda xs ys be) s = Ok (rs, s') ->
  ext (bc s) (bc s') /\ inputs (bc s') = inputs (bc s) /\ outputs (bc s') = outputs (bc s) /\
  length rs = (if ((length xs =? 1) || (length ys =? 1))%nat then length ys + length xs - 1 else length xs + length ys)%nat /\
  forall c, ext (bc s') c -> forall asg xv yv, bvals c asg xs xv -> bvals c asg ys yv ->
    exists rv, bvals c asg rs rv /\ decode be rv = decode be xv * decode be yv.
Proof.
  intros H. pose proof (run_ext _ _ _ _ _ H) as Hx. unfold add_mul_dadda in H. rewrite !rev_if_length in H.
  apply run_bind_inv in H as (cm & s1 & Hpp & H).
  apply pp_matrix_spec in Hpp as (Hx1 & O1 & L1 & F1 & V1). rewrite rev_if_length in L1, F1.
  split; [exact Hx|]. split; [apply ext_inputs, Hx|].
  set (n := length xs) in *. set (m := length ys) in *.
  set (cols := diagonals (n + m) [] cm) in *.
  (* the value of the columns *)
  assert (Hcols : forall c, ext (bc s1) c -> forall asg xv yv, bvals c asg xs xv -> bvals c asg ys yv ->
    exists cvs R, mvals c asg cols cvs /\ 0 <= R /\
      decode be xv * decode be yv = cols_val cvs + 2 ^ Z.of_nat (n + m) * R).
  { intros c Hc asg xv yv Hxv Hyv.
    specialize (V1 c Hc asg _ _ (bvals_rev_if _ _ be _ _ Hxv) (bvals_rev_if _ _ be _ _ Hyv)).
    destruct (diagonals_value (n + m) [] (pp_vals (rev_if be xv) (rev_if be yv))) as (R & HR & E).
    exists (diagonals (n + m) [] (pp_vals (rev_if be xv) (rev_if be yv))), R.
    split; [apply diagonals_vals; [constructor|exact V1]|]. split; [exact HR|].
    rewrite <- E. unfold peel_val, rows_sum. simpl fold_right. rewrite mval_pp. unfold decode. lia. }
  destruct ((n =? 1) || (m =? 1))%nat eqn:E1.
  - apply run_bind_inv in H as (out & s2 & Ho & H). apply run_ret_inv in H as (-> & ->).
    apply first_of_all in Ho as (-> & Fh).
    assert (thin cols) as Hthin.
    { apply orb_true_iff in E1 as [E|E]; apply Nat.eqb_eq in E.
      - apply diagonals_thin_rows; [constructor|]. eapply Forall_impl; [|exact F1]. simpl. intros r ->. lia.
      - apply diagonals_thin_single. simpl. lia. }
    assert (length out = (m + n - 1)%nat) as Lout.
    { rewrite <- (Forall2_length _ _ _ Fh), firstn_length. unfold cols. rewrite diagonals_length. lia. }
    split; [exact O1|]. split; [rewrite rev_if_length; exact Lout|].
    intros c Hc asg xv yv Hxv Hyv.
    destruct (Hcols c Hc asg xv yv Hxv Hyv) as (cvs & R & Hcvs & HR & E).
    destruct (thin_heads_value c asg _ _ (firstn (m + n - 1) cvs) Fh) as (outv & Hov & Eo).
    { clear -Hthin. unfold thin in *. revert Hthin. generalize (m + n - 1)%nat as k. generalize cols.
      intros l k. revert l. induction k as [|k IHk]; intros l Hl; [constructor|].
      destruct Hl; simpl; constructor; auto. }
    { apply Forall2_firstn, Hcvs. }
    exists (rev_if be outv). split; [apply bvals_rev_if, Hov|]. rewrite decode_rev_if.
    rewrite (cols_val_firstn_skipn (m + n - 1) cvs), Eo in E.
    assert (length (firstn (m + n - 1) cvs) = (m + n - 1)%nat) as Lf.
    { rewrite firstn_length, <- (Forall2_length _ _ _ Hcvs). unfold cols. rewrite diagonals_length. lia. }
    rewrite Lf in E.
    assert (length outv = (m + n - 1)%nat) as Lov by (rewrite <- (bvals_length _ _ _ _ Hov); exact Lout).
    pose proof (bits_val_range outv) as Hrange. rewrite Lov in Hrange.
    pose proof (bvals_length _ _ _ _ Hxv) as Lxv. pose proof (bvals_length _ _ _ _ Hyv) as Lyv.
    assert (0 <= decode be xv * decode be yv < 2 ^ Z.of_nat (m + n - 1)) as Hp.
    { unfold decode. pose proof (bits_val_range (rev_if be xv)) as Hbx. pose proof (bits_val_range (rev_if be yv)) as Hby.
      rewrite rev_if_length in Hbx, Hby. fold n in Lxv. fold m in Lyv. rewrite <- Lxv in Hbx. rewrite <- Lyv in Hby.
      apply orb_true_iff in E1 as [E0|E0]; apply Nat.eqb_eq in E0; rewrite E0 in *.
      - change (2 ^ Z.of_nat 1) with 2 in Hbx. replace (m + 1 - 1)%nat with m by lia. nia.
      - change (2 ^ Z.of_nat 1) with 2 in Hby. replace (1 + n - 1)%nat with n by lia. nia. }
    pose proof (cols_val_nonneg (skipn (m + n - 1) cvs)) as Hsk.
    eapply (congruent_small (m + n - 1) _ _ (cols_val (skipn (m + n - 1) cvs) + 2 ^ Z.of_nat (n + m - (m + n - 1)) * R));
      [exact Hrange|exact Hp|].
    rewrite E. replace (n + m)%nat with ((m + n - 1) + (n + m - (m + n - 1)))%nat at 1 by lia.
    rewrite pow2_add. lia.
  - apply run_bind_inv in H as (cols' & s2 & Hm & H). apply run_bind_inv in H as (out & s3 & Ho & H).
    apply run_ret_inv in H as (-> & ->). apply first_of_all in Ho as (-> & Fh).
    apply dadda_main_spec in Hm as (Hx2 & O2 & L2 & Hd2 & T2 & V2).
    2:{ apply dadda_start_ge2. lia. }
    assert (length cols = (n + m)%nat) as Lcols by (unfold cols; apply diagonals_length).
    assert (length out = (n + m)%nat) as Lout by (rewrite <- (Forall2_length _ _ _ Fh); congruence).
    split; [congruence|]. split; [rewrite rev_if_length; exact Lout|].
    assert (thin cols') as Hthin.
    { destruct cols' as [|h t]; [constructor|]. constructor; [|exact T2].
      simpl in Hd2. unfold cols in Hd2. destruct (n + m)%nat; [discriminate|]. cbn [diagonals hd_error] in Hd2.
      injection Hd2 as ->. cbn [app]. pose proof (heads1_length_le (firstn 1 cm)) as Hh.
      rewrite firstn_length in Hh. cbn [firstn] in Hh. lia. }
    intros c Hc asg xv yv Hxv Hyv.
    assert (ext (bc s1) c) as Hc1 by (eapply ext_trans; eassumption).
    destruct (Hcols c Hc1 asg xv yv Hxv Hyv) as (cvs & R & Hcvs & HR & E).
    destruct (V2 c Hc asg cvs Hcvs) as (cvs' & K & Hcvs' & E2).
    destruct (thin_heads_value c asg _ _ cvs' Fh Hthin Hcvs') as (outv & Hov & Eo).
    exists (rev_if be outv). split; [apply bvals_rev_if, Hov|]. rewrite decode_rev_if.
    assert (length outv = (n + m)%nat) as Lov by (rewrite <- (bvals_length _ _ _ _ Hov); exact Lout).
    pose proof (bits_val_range outv) as Hrange. rewrite Lov in Hrange.
    pose proof (bvals_length _ _ _ _ Hxv) as Lxv. pose proof (bvals_length _ _ _ _ Hyv) as Lyv.
    assert (0 <= decode be xv * decode be yv < 2 ^ Z.of_nat (n + m)) as Hp.
    { unfold decode. pose proof (product_bound (rev_if be xv) (rev_if be yv)) as Hb.
      rewrite !rev_if_length, <- Lxv, <- Lyv in Hb. exact Hb. }
    eapply (congruent_small (n + m) _ _ (K + R)); [exact Hrange|exact Hp|].
    rewrite E, E2, Eo, Lcols. lia.
Qed.
