(* Infrastructure for the C02 preservation proofs: multiset counting, the users index
   under add_user / remove_user, has_gate and key lists under dset / ddel, rank helpers. *)
Require Import Cirbo.Model.Base Cirbo.Model.Gate Cirbo.Model.Circuit Cirbo.Model.WF.
Require Import Cirbo.Proofs.DictFacts.
Require Import Coq.Sorting.Permutation.

(* ------------------------------------------------------------------ *)
(* boolean label equality helpers *)
Lemma leqb_sym a b : leqb a b = leqb b a.
Proof. apply String.eqb_sym. Qed.

Ltac leq :=
  repeat match goal with
  | H : leqb _ _ = true |- _ => apply leqb_eq in H
  | H : leqb _ _ = false |- _ => apply leqb_neq in H
  end.

Ltac dleq a b := let E := fresh "E" in destruct (leqb_spec a b) as [E|E]; [try subst|].

(* ------------------------------------------------------------------ *)
(* count *)
Lemma count_app x a b : count x (a ++ b) = count x a + count x b.
Proof. induction a as [|y ys IH]; simpl; [reflexivity|rewrite IH; lia]. Qed.

Lemma count_pos_In x l : 0 < count x l <-> In x l.
Proof.
  induction l as [|y ys IH]; simpl; [split; [lia|tauto]|].
  destruct (leqb_spec x y) as [->|Hne]; [split; [auto|lia]|].
  simpl; rewrite IH. split; [auto|]. intros [H|H]; [congruence|exact H].
Qed.

Lemma count_zero_nIn x l : count x l = 0 <-> ~ In x l.
Proof. rewrite <- count_pos_In; lia. Qed.

Lemma count_all_zero_nil l : (forall x, count x l = 0) -> l = [].
Proof.
  destruct l as [|y ys]; [reflexivity|]. intros H; specialize (H y); simpl in H.
  rewrite leqb_refl in H; lia.
Qed.

Lemma count_remove1 x y l : count x (remove1 y l) = count x l - (if leqb x y then 1 else 0).
Proof.
  induction l as [|a l IH]; simpl; [reflexivity|].
  destruct (leqb_spec y a) as [->|Hne]; simpl.
  - destruct (leqb x a); lia.
  - rewrite IH. destruct (leqb_spec x y) as [->|Hxy].
    + apply leqb_neq in Hne; rewrite Hne; lia.
    + destruct (leqb x a); lia.
Qed.

Lemma count_remove_all x y l :
  count x (remove_all y l) = if leqb x y then 0 else count x l.
Proof.
  unfold remove_all; induction l as [|a l IH]; simpl; [destruct (leqb x y); reflexivity|].
  destruct (leqb_spec a y) as [->|Hne]; simpl.
  - rewrite IH; destruct (leqb x y); lia.
  - rewrite IH. destruct (leqb_spec x y) as [->|Hxy]; [|reflexivity].
    apply not_eq_sym in Hne; apply leqb_neq in Hne; rewrite Hne; reflexivity.
Qed.

Lemma In_remove_all x y l : In x (remove_all y l) <-> In x l /\ x <> y.
Proof.
  unfold remove_all; rewrite filter_In, negb_true_iff, leqb_neq; tauto.
Qed.

Lemma In_remove1 x y l : In x (remove1 y l) -> In x l.
Proof. intros H; apply count_pos_In in H; rewrite count_remove1 in H; apply count_pos_In; lia. Qed.

Lemma In_remove1_neq x y l : x <> y -> In x l -> In x (remove1 y l).
Proof.
  intros Hne H; apply count_pos_In in H; apply count_pos_In; rewrite count_remove1.
  apply leqb_neq in Hne; rewrite Hne; lia.
Qed.

Lemma NoDup_count l : NoDup l <-> forall x, count x l <= 1.
Proof.
  induction l as [|a l IH]; simpl.
  - split; [intros _ x; lia|constructor].
  - split.
    + intros H x; inversion H as [|? ? Hn Hd]; subst. apply IH with (x := x) in Hd.
      destruct (leqb_spec x a) as [->|]; [apply count_zero_nIn in Hn|]; lia.
    + intros H; constructor.
      * specialize (H a); rewrite leqb_refl in H. apply count_zero_nIn; lia.
      * apply IH; intros x; specialize (H x); lia.
Qed.

Lemma NoDup_remove1 x l : NoDup l -> NoDup (remove1 x l).
Proof.
  rewrite !NoDup_count; intros H y; rewrite count_remove1; specialize (H y); lia.
Qed.

Lemma NoDup_remove1_In x y l : NoDup l -> (In x (remove1 y l) <-> In x l /\ x <> y).
Proof.
  intros Hnd; rewrite <- !count_pos_In, count_remove1.
  apply NoDup_count with (x := x) in Hnd.
  destruct (leqb_spec x y) as [->|Hne]; [split; [lia|intros [_ H]; congruence]|].
  split; [intros; split; [lia|assumption]|lia].
Qed.

Lemma count_perm l l' : (forall x, count x l = count x l') -> Permutation l l'.
Proof.
  revert l'; induction l as [|a l IH]; intros l' H.
  - rewrite (count_all_zero_nil l'); [constructor|]. intros x; rewrite <- H; reflexivity.
  - assert (Hin : In a l').
    { apply count_pos_In; rewrite <- H; simpl; rewrite leqb_refl; lia. }
    apply in_split in Hin; destruct Hin as [l1 [l2 ->]].
    apply Permutation_cons_app, IH. intros x; specialize (H x); simpl in H.
    rewrite count_app in H; simpl in H. rewrite count_app. lia.
Qed.

Lemma perm_count l l' : Permutation l l' -> forall x, count x l = count x l'.
Proof. induction 1; intros z; simpl; try rewrite IHPermutation; try lia. rewrite IHPermutation1; auto. Qed.

(* ------------------------------------------------------------------ *)
(* dictionaries: more facts *)
Section MoreDict.
  Context {V : Type}.
  Implicit Types (d : dict V) (k : label) (v : V).

  Lemma NoDup_dkeys_dset d k v : NoDup (dkeys d) -> NoDup (dkeys (dset d k v)).
  Proof.
    intros H. destruct (dmem d k) eqn:E.
    - rewrite dkeys_dset_mem; assumption.
    - rewrite dkeys_dset_new by assumption.
      apply NoDup_count; intros x; rewrite count_app; simpl.
      apply NoDup_count with (x := x) in H.
      destruct (leqb_spec x k) as [->|]; [|lia].
      assert (~ In k (dkeys d)) as Hn.
      { intros Hin; apply dmem_keys in Hin; congruence. }
      apply count_zero_nIn in Hn; lia.
  Qed.

  Lemma NoDup_dkeys_ddel d k : NoDup (dkeys d) -> NoDup (dkeys (ddel d k)).
  Proof. rewrite dkeys_ddel; apply NoDup_remove1. Qed.

  Lemma dget_ddel d k k' : NoDup (dkeys d) ->
    dget (ddel d k) k' = if leqb k' k then None else dget d k'.
  Proof.
    intros H; destruct (leqb_spec k' k) as [->|Hne];
      [apply dget_ddel_same; assumption|apply dget_ddel_other; assumption].
  Qed.

  Lemma dmem_ddel d k k' : NoDup (dkeys d) ->
    dmem (ddel d k) k' = negb (leqb k' k) && dmem d k'.
  Proof. intros H; unfold dmem; rewrite dget_ddel by assumption. destruct (leqb k' k); reflexivity. Qed.

  Lemma In_dget d k v : NoDup (dkeys d) -> In (k, v) d -> dget d k = Some v.
  Proof.
    induction d as [|[k' v'] d IH]; simpl; [tauto|]. intros Hnd; inversion Hnd; subst.
    intros [[= -> ->]|Hin]; [rewrite leqb_refl; reflexivity|].
    destruct (leqb_spec k k') as [->|]; [|auto].
    exfalso; apply (in_map fst) in Hin; auto.
  Qed.

  Lemma dkeys_filter_NoDup (f : label * V -> bool) d : NoDup (dkeys d) -> NoDup (dkeys (filter f d)).
  Proof.
    unfold dkeys; induction d as [|[k v] d IH]; simpl; [auto|]. intros H; inversion H; subst.
    destruct (f (k, v)); simpl; [constructor|]; auto.
    intros Hin; apply in_map_iff in Hin; destruct Hin as [[k2 v2] [E Hin]]; simpl in E; subst.
    apply filter_In in Hin; destruct Hin as [Hin _]. apply (in_map fst) in Hin; auto.
  Qed.

  Lemma dget_filter (f : label * V -> bool) d k v :
    NoDup (dkeys d) -> dget (filter f d) k = Some v -> dget d k = Some v /\ f (k, v) = true.
  Proof.
    intros Hnd H; apply dget_In in H; apply filter_In in H; destruct H as [Hin Hf].
    split; [apply In_dget; assumption|assumption].
  Qed.

  Lemma dkeys_map_val {W} (f : label * V -> W) d :
    dkeys (map (fun kv => (fst kv, f kv)) d) = dkeys d.
  Proof. unfold dkeys; rewrite map_map; reflexivity. Qed.

  Lemma dget_map_val {W} (f : label * V -> W) d k :
    dget (map (fun kv => (fst kv, f kv)) d) k =
    match dget d k with Some v => Some (f (k, v)) | None => None end.
  Proof.
    induction d as [|[k' v'] d IH]; simpl; [reflexivity|].
    destruct (leqb_spec k k') as [->|]; [reflexivity|exact IH].
  Qed.

  Lemma dmem_true_get d k : dmem d k = true -> exists v, dget d k = Some v.
  Proof. unfold dmem; destruct (dget d k); [eauto|discriminate]. Qed.
  Lemma dget_dmem d k v : dget d k = Some v -> dmem d k = true.
  Proof. unfold dmem; intros ->; reflexivity. Qed.
  Lemma dmem_false_get d k : dmem d k = false -> dget d k = None.
  Proof. unfold dmem; destruct (dget d k); [discriminate|reflexivity]. Qed.
End MoreDict.

(* ------------------------------------------------------------------ *)
(* gate existence *)
Lemma has_gate_get c l : has_gate c l = true -> exists g, dget (gates c) l = Some g.
Proof. apply dmem_true_get. Qed.
Lemma get_has_gate c l g : dget (gates c) l = Some g -> has_gate c l = true.
Proof. apply dget_dmem. Qed.
Lemma has_gate_false_get c l : has_gate c l = false -> dget (gates c) l = None.
Proof. apply dmem_false_get. Qed.

Lemma get_gate_ok c l g : get_gate c l = Ok g <-> dget (gates c) l = Some g.
Proof. unfold get_gate; destruct (dget (gates c) l); split; congruence. Qed.

Lemma check_gates_exist_ok ls c :
  check_gates_exist ls c = Ok tt <-> forall l, In l ls -> has_gate c l = true.
Proof.
  induction ls as [|l ls IH]; simpl; [split; [intros _ ? []|reflexivity]|].
  destruct (has_gate c l) eqn:E.
  - rewrite IH; split; [intros H x [<-|Hx]; auto|auto].
  - split; [discriminate|]. intros H; specialize (H l (or_introl eq_refl)); congruence.
Qed.

Lemma check_gates_exist_unit ls c u : check_gates_exist ls c = Ok u ->
  forall l, In l ls -> has_gate c l = true.
Proof. destruct u; apply check_gates_exist_ok. Qed.

Lemma ops_of_get c l g : dget (gates c) l = Some g -> ops_of c l = gops g.
Proof. unfold ops_of; intros ->; reflexivity. Qed.
Lemma ops_of_none c l : dget (gates c) l = None -> ops_of c l = [].
Proof. unfold ops_of; intros ->; reflexivity. Qed.

(* ------------------------------------------------------------------ *)
(* the users index *)
Lemma users_of_set c d l :
  users_of (set_users c d) l = match dget d l with Some us => us | None => [] end.
Proof. reflexivity. Qed.

Lemma users_of_add_user c g u l :
  users_of (add_user c g u) l = if leqb l g then users_of c g ++ [u] else users_of c l.
Proof.
  unfold add_user, users_of. destruct (dget (users c) g) eqn:E; simpl; rewrite dget_dset;
    destruct (leqb l g); reflexivity.
Qed.

Lemma count_users_add_user c g u l u' :
  count u' (users_of (add_user c g u) l) =
  count u' (users_of c l) + (if leqb l g && leqb u' u then 1 else 0).
Proof.
  rewrite users_of_add_user. destruct (leqb_spec l g) as [->|]; simpl; [|lia].
  rewrite count_app; simpl. destruct (leqb u' u); lia.
Qed.

Lemma add_user_frame c g u :
  gates (add_user c g u) = gates c /\ inputs (add_user c g u) = inputs c /\
  outputs (add_user c g u) = outputs c /\ blocks (add_user c g u) = blocks c.
Proof. unfold add_user; destruct (dget (users c) g); simpl; auto. Qed.

Lemma add_user_ukeys c g u : NoDup (dkeys (users c)) -> NoDup (dkeys (users (add_user c g u))).
Proof. unfold add_user; destruct (dget (users c) g); simpl; apply NoDup_dkeys_dset. Qed.

Lemma users_of_remove_user c g u l :
  users_of (remove_user c g u) l = if leqb l g then remove1 u (users_of c g) else users_of c l.
Proof.
  unfold remove_user, users_of. destruct (dget (users c) g) as [us|] eqn:E.
  - destruct (memb u us) eqn:M; simpl.
    + rewrite dget_dset; destruct (leqb l g); reflexivity.
    + destruct (leqb_spec l g) as [->|]; [|reflexivity]. rewrite E.
      apply memb_nIn in M. clear E; induction us as [|a us IH]; simpl; [reflexivity|].
      destruct (leqb_spec u a) as [->|]; [exfalso; apply M; left; reflexivity|].
      f_equal; apply IH; intros H; apply M; right; exact H.
  - destruct (leqb_spec l g) as [->|]; [rewrite E|]; reflexivity.
Qed.

Lemma count_users_remove_user c g u l u' :
  count u' (users_of (remove_user c g u) l) =
  count u' (users_of c l) - (if leqb l g && leqb u' u then 1 else 0).
Proof.
  rewrite users_of_remove_user. destruct (leqb_spec l g) as [->|]; simpl; [|lia].
  apply count_remove1.
Qed.

Lemma remove_user_frame c g u :
  gates (remove_user c g u) = gates c /\ inputs (remove_user c g u) = inputs c /\
  outputs (remove_user c g u) = outputs c /\ blocks (remove_user c g u) = blocks c.
Proof. unfold remove_user; destruct (dget (users c) g); [destruct (memb u l)|]; simpl; auto. Qed.

Lemma remove_user_ukeys c g u : NoDup (dkeys (users c)) -> NoDup (dkeys (users (remove_user c g u))).
Proof.
  unfold remove_user; destruct (dget (users c) g); [destruct (memb u l)|]; simpl; auto.
  apply NoDup_dkeys_dset.
Qed.

(* folds *)
Lemma add_users_frame c ops u :
  gates (add_users c ops u) = gates c /\ inputs (add_users c ops u) = inputs c /\
  outputs (add_users c ops u) = outputs c /\ blocks (add_users c ops u) = blocks c.
Proof.
  unfold add_users; revert c; induction ops as [|o ops IH]; intros c; simpl; [auto|].
  destruct (IH (add_user c o u)) as (A & B & C & D), (add_user_frame c o u) as (A' & B' & C' & D').
  repeat split; congruence.
Qed.

Lemma add_users_ukeys c ops u : NoDup (dkeys (users c)) -> NoDup (dkeys (users (add_users c ops u))).
Proof.
  unfold add_users; revert c; induction ops as [|o ops IH]; intros c H; simpl; [auto|].
  apply IH, add_user_ukeys, H.
Qed.

Lemma count_users_add_users c ops u l u' :
  count u' (users_of (add_users c ops u) l) =
  count u' (users_of c l) + (if leqb u' u then count l ops else 0).
Proof.
  unfold add_users; revert c; induction ops as [|o ops IH]; intros c; simpl.
  - destruct (leqb u' u); lia.
  - rewrite IH, count_users_add_user. destruct (leqb l o), (leqb u' u); simpl; lia.
Qed.

Lemma remove_users_frame c ops u :
  gates (remove_users c ops u) = gates c /\ inputs (remove_users c ops u) = inputs c /\
  outputs (remove_users c ops u) = outputs c /\ blocks (remove_users c ops u) = blocks c.
Proof.
  unfold remove_users; revert c; induction ops as [|o ops IH]; intros c; simpl; [auto|].
  destruct (IH (remove_user c o u)) as (A & B & C & D), (remove_user_frame c o u) as (A' & B' & C' & D').
  repeat split; congruence.
Qed.

Lemma remove_users_ukeys c ops u :
  NoDup (dkeys (users c)) -> NoDup (dkeys (users (remove_users c ops u))).
Proof.
  unfold remove_users; revert c; induction ops as [|o ops IH]; intros c H; simpl; [auto|].
  apply IH, remove_user_ukeys, H.
Qed.

Lemma count_users_remove_users c ops u l u' :
  count u' (users_of (remove_users c ops u) l) =
  count u' (users_of c l) - (if leqb u' u then count l ops else 0).
Proof.
  unfold remove_users; revert c; induction ops as [|o ops IH]; intros c; simpl.
  - destruct (leqb u' u); lia.
  - rewrite IH, count_users_remove_user. destruct (leqb l o), (leqb u' u); simpl; lia.
Qed.

(* users lists of labels that are not gates are empty in a well formed circuit *)
Lemma count_ops_nongate c l u : WF c -> has_gate c l = false -> count l (ops_of c u) = 0.
Proof.
  intros W H. apply count_zero_nIn; intros Hin. unfold ops_of in Hin.
  destruct (dget (gates c) u) as [g|] eqn:E; [|destruct Hin].
  rewrite (wf_ops c W u g l E Hin) in H; discriminate.
Qed.

Lemma users_of_nongate c l : WF c -> has_gate c l = false -> users_of c l = [].
Proof.
  intros W H; apply count_all_zero_nil; intros u. rewrite (wf_users c W). apply count_ops_nongate; assumption.
Qed.

Lemma users_of_nonuser c l u : WF c -> has_gate c u = false -> count u (users_of c l) = 0.
Proof.
  intros W H; rewrite (wf_users c W). rewrite ops_of_none; [reflexivity|]. apply has_gate_false_get, H.
Qed.

Lemma In_users_ops c l u : WF c -> (In u (users_of c l) <-> In l (ops_of c u)).
Proof. intros W; rewrite <- !count_pos_In, (wf_users c W); tauto. Qed.

(* ------------------------------------------------------------------ *)
(* maximum rank of a list of operands *)
Definition max_rank (rank : label -> nat) (ops : list label) : nat :=
  fold_right (fun o m => Nat.max (rank o) m) 0 ops.

Lemma max_rank_ge rank ops o : In o ops -> rank o <= max_rank rank ops.
Proof.
  induction ops as [|a ops IH]; simpl; [tauto|]. intros [->|H]; [lia|]. specialize (IH H); lia.
Qed.

(* ------------------------------------------------------------------ *)
(* the empty circuit *)
Lemma WF_empty : WF empty_circuit.
Proof.
  constructor; simpl; try constructor; try (intros; discriminate); try tauto.
  - intros [g [H _]]; discriminate.
  - exists (fun _ => 0); intros; discriminate.
Qed.
