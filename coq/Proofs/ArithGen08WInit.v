(* Generated/ArithGen08.v, add_mul_wallace (translator T22) equals the hand model, part 1: the partial-product loops
   `c[i + j][i] = add_gate_from_tt(a[j], b[i], "0001")` against [pp_matrix] / [wallace_rows], in transposed form, and the
   two comprehensions of the one-bit operand returns. *)
Require Import Cirbo.Model.Base Cirbo.Model.Gate Cirbo.Model.Circuit Cirbo.Model.Builder Cirbo.Model.PyPrims.
Require Import Cirbo.Model.ArithSub Cirbo.Model.ArithSum2 Cirbo.Model.ArithSumN Cirbo.Model.ArithSumW.
Require Import Cirbo.Model.PyPrims08 Cirbo.Model.PyPrimsWal Cirbo.Model.ArithMul.
Require Import Cirbo.Generated.ArithTables.
Require Import Cirbo.Proofs.ArithGen09Lib Cirbo.Proofs.ArithGen08Lib.
Require Import Cirbo.Proofs.ArithMulWallaceShape Cirbo.Proofs.ArithGen08WLib.
From Coq Require Import ZArith Lia Ascii.
Open Scope Z_scope.

(* ---- small list facts ------------------------------------------------------------------------------------------ *)
Lemma upd_nth_id {A} (l : list A) i d : upd l i (nth i l d) = l.
Proof.
  revert i; induction l as [|x l IH]; intros [|i]; cbn [upd nth]; try reflexivity. rewrite IH. reflexivity.
Qed.

Lemma upd_app_mid {A} (l1 : list A) x y l2 i : i = length l1 -> upd (l1 ++ x :: l2) i y = l1 ++ y :: l2.
Proof.
  intros ->. induction l1 as [|z l1 IH]; cbn [app length upd]; [reflexivity|]. rewrite IH. reflexivity.
Qed.

Lemma firstn_repeat {A} (x : A) k n : (k <= n)%nat -> firstn k (repeat x n) = repeat x k.
Proof.
  revert n; induction k as [|k IH]; intros [|n] Hk; cbn [firstn repeat]; try reflexivity; try lia.
  rewrite IH by lia. reflexivity.
Qed.

Lemma skipn_repeat {A} (x : A) k n : skipn k (repeat x n) = repeat x (n - k).
Proof.
  revert n; induction k as [|k IH]; intros [|n]; cbn [skipn repeat Nat.sub]; try reflexivity. apply IH.
Qed.

(* storing the gates of one row, from position p on *)
Fixpoint put_cells (l : list cell) (p : nat) (row : list label) : list cell :=
  match row with
  | [] => l
  | g :: r => put_cells (upd l p (cell_of g)) (S p) r
  end.

Lemma put_cells_spec : forall row l p, (p + length row <= length l)%nat ->
  put_cells l p row = firstn p l ++ map cell_of row ++ skipn (p + length row) l.
Proof.
  induction row as [|g row IH]; intros l p Hp; cbn [put_cells length map app] in *.
  - rewrite Nat.add_0_r, firstn_skipn. reflexivity.
  - rewrite IH by (rewrite upd_length; lia).
    rewrite firstn_S_upd by lia. rewrite skipn_upd_lt by lia. rewrite <- app_assoc. cbn [app].
    replace (S p + length row)%nat with (p + S (length row))%nat by lia. reflexivity.
Qed.

(* ---- the row loop ------------------------------------------------------------------------------------------------ *)
Lemma wal_row_fold (H : Z -> lmat -> Z -> prog lmat) (a b : list label) :
  (forall i j R, (i < length b)%nat -> (j < length a)%nat -> widths (length a + length b) R -> length R = length b ->
     peq (H (Z.of_nat i) (colsof (length a + length b) R) (Z.of_nat j))
         (bdo g <- gate_tt tt_and (nth j a ""%string) (nth i b ""%string);
          Ret (colsof (length a + length b) (upd2 R i (i + j) (cell_of g))))) ->
  forall i, (i < length b)%nat ->
  forall k j R, (j + k = length a)%nat -> widths (length a + length b) R -> length R = length b ->
  peq (foldP (H (Z.of_nat i)) (map Z.of_nat (seq j k)) (colsof (length a + length b) R))
      (bdo row <- mapP (fun aj => gate_tt tt_and aj (nth i b ""%string)) (skipn j a);
       Ret (colsof (length a + length b) (upd R i (put_cells (nth i R []) (i + j) row)))).
Proof.
  intros HH i Hi. induction k as [|k IH]; intros j R Hj HW HL fresh s.
  - rewrite skipn_all2 by lia. cbn [seq map foldP mapP]. rs. cbn [put_cells]. rewrite upd_nth_id. reflexivity.
  - rewrite (skipn_nth a j ""%string) by lia. cbn [seq map foldP mapP]. rs.
    rewrite HH by first [lia | assumption]. rs.
    destruct (run fresh (gate_tt tt_and (nth j a ""%string) (nth i b ""%string)) s) as [[g s1]|e]; rs; [|reflexivity].
    assert (HW' : widths (length a + length b) (upd2 R i (i + j) (cell_of g))).
    { unfold upd2. apply widths_upd; [exact HW|]. rewrite upd_length. apply widths_nth; [exact HW|lia]. }
    rewrite IH by first [lia | exact HW' | rewrite upd2_length; exact HL]. rs.
    destruct (run fresh (mapP (fun aj => gate_tt tt_and aj (nth i b ""%string)) (skipn (S j) a)) s1) as [[row s2]|e];
      rs; [|reflexivity].
    cbn [put_cells]. unfold upd2. rewrite nth_upd_same by lia. rewrite upd_upd_same.
    replace (i + S j)%nat with (S (i + j)) by lia. reflexivity.
Qed.

(* ---- the matrix loop --------------------------------------------------------------------------------------------- *)
Lemma wal_rows_fold (H : Z -> lmat -> Z -> prog lmat) (a b : list label) :
  (forall i j R, (i < length b)%nat -> (j < length a)%nat -> widths (length a + length b) R -> length R = length b ->
     peq (H (Z.of_nat i) (colsof (length a + length b) R) (Z.of_nat j))
         (bdo g <- gate_tt tt_and (nth j a ""%string) (nth i b ""%string);
          Ret (colsof (length a + length b) (upd2 R i (i + j) (cell_of g))))) ->
  forall k i done, (i + k = length b)%nat -> length done = i -> widths (length a + length b) done ->
  peq (foldP (fun c i => bdo c <- foldP (H i) (map Z.of_nat (seq 0 (length a))) c; Ret c)
             (map Z.of_nat (seq i k)) (colsof (length a + length b) (done ++ nones (length a + length b) k)))
      (bdo rows <- mapP (pp_row a) (skipn i b);
       Ret (colsof (length a + length b) (done ++ wallace_rows i (length b) rows))).
Proof.
  intros HH. induction k as [|k IH]; intros i done Hi HL HW fresh s.
  - rewrite skipn_all2 by lia. cbn [seq map foldP mapP nones repeat wallace_rows]. rs. reflexivity.
  - rewrite (skipn_nth b i ""%string) by lia. cbn [seq map foldP mapP]. rs.
    assert (HW1 : widths (length a + length b) (done ++ nones (length a + length b) (S k))).
    { apply widths_app; [exact HW|apply widths_nones]. }
    assert (HL1 : length (done ++ nones (length a + length b) (S k)) = length b).
    { rewrite app_length. unfold nones. rewrite repeat_length. lia. }
    rewrite (wal_row_fold H a b HH i) by first [lia | assumption]. rs.
    change (skipn 0 a) with a. fold (pp_row a (nth i b ""%string)).
    destruct (run fresh (pp_row a (nth i b ""%string)) s) as [[row s1]|e] eqn:E; rs; [|reflexivity].
    apply mapP_returns_length in E.
    assert (EN : nth i (done ++ nones (length a + length b) (S k)) [] = repeat None (length a + length b)).
    { rewrite app_nth2 by lia. rewrite HL, Nat.sub_diag. reflexivity. }
    rewrite EN. rewrite put_cells_spec by (rewrite repeat_length; lia).
    rewrite firstn_repeat by lia. rewrite skipn_repeat.
    replace (length a + length b - (i + 0 + length row))%nat with (length b - i)%nat by lia.
    rewrite Nat.add_0_r.
    unfold nones at 1. cbn [repeat]. fold (nones (length a + length b) k).
    rewrite upd_app_mid by (symmetry; exact HL).
    match goal with |- context [done ++ ?yy :: nones _ k] => set (y := yy) end.
    assert (Hy : length y = (length a + length b)%nat).
    { unfold y. rewrite !app_length, map_length, !repeat_length. lia. }
    assert (E2 : done ++ y :: nones (length a + length b) k = (done ++ [y]) ++ nones (length a + length b) k).
    { rewrite <- app_assoc. reflexivity. }
    rewrite E2.
    rewrite (IH (S i) (done ++ [y]))
      by first [lia | rewrite app_length; cbn [length]; lia
               | apply widths_app; [exact HW|constructor; [exact Hy|constructor]]].
    rs. destruct (run fresh (mapP (pp_row a) (skipn (S i) b)) s1) as [[rows s2]|e]; rs; [|reflexivity].
    cbn [wallace_rows]. fold y. rewrite <- app_assoc. reflexivity.
Qed.

(* for i in range(m): for j in range(n): c[i + j][i] = <gate of a[j], b[i]>     (H i c j is the body) *)
Lemma wal_nest_eq (H : Z -> lmat -> Z -> prog lmat) (a b : list label) :
  (forall i j R, (i < length b)%nat -> (j < length a)%nat -> widths (length a + length b) R -> length R = length b ->
     peq (H (Z.of_nat i) (colsof (length a + length b) R) (Z.of_nat j))
         (bdo g <- gate_tt tt_and (nth j a ""%string) (nth i b ""%string);
          Ret (colsof (length a + length b) (upd2 R i (i + j) (cell_of g))))) ->
  peq (foldP (fun c i => bdo c <- foldP (H i) (py_range 0 (Z.of_nat (length a))) c; Ret c)
             (py_range 0 (Z.of_nat (length b)))
             (map (fun _ : Z => py_mul [PLACEHOLDER_STR] (Z.of_nat (length b)))
                  (py_range 0 (Z.of_nat (length a) + Z.of_nat (length b)))))
      (bdo cm <- pp_matrix a b; Ret (colsof (length a + length b) (wallace_rows 0 (length b) cm))).
Proof.
  intros HH.
  assert (E0 : map (fun _ : Z => py_mul [PLACEHOLDER_STR] (Z.of_nat (length b)))
                   (py_range 0 (Z.of_nat (length a) + Z.of_nat (length b)))
               = colsof (length a + length b) ([] ++ nones (length a + length b) (length b))).
  { cbn [app]. rewrite colsof_nones. rewrite <- Nat2Z.inj_add, py_range_0_nat, py_mul_single.
    rewrite map_const_repeat, map_length, seq_length. reflexivity. }
  rewrite E0. rewrite !py_range_0_nat.
  intros fresh s.
  rewrite (wal_rows_fold H a b HH (length b) 0 []) by first [lia | reflexivity | constructor].
  cbn [skipn app]. unfold pp_matrix. reflexivity.
Qed.

(* the start matrix is well shaped *)
Lemma wallace_rows_okm_gen n : forall (cm : list (list label)) i m,
  Forall (fun r => length r = n) cm -> (i + length cm = m)%nat ->
  widths (n + m) (wallace_rows i m cm) /\ goodm (wallace_rows i m cm) /\ length (wallace_rows i m cm) = length cm.
Proof.
  induction cm as [|row cm IH]; intros i m HF Hm; cbn [wallace_rows length] in *.
  - split; [constructor|split; [constructor|reflexivity]].
  - pose proof (Forall_inv HF) as Hrow. pose proof (Forall_inv_tail HF) as HF'. cbv beta in Hrow.
    destruct (IH (S i) m HF' ltac:(lia)) as (IW & IG & IL).
    split; [|split].
    + constructor; [|exact IW]. rewrite !app_length, map_length, !repeat_length. lia.
    + constructor; [|exact IG]. unfold good. rewrite !Forall_app. split; [|split].
      * apply Forall_forall. intros x Hx. apply repeat_spec in Hx. subst. discriminate.
      * apply Forall_forall. intros x Hx. apply in_map_iff in Hx as (l & <- & _). apply cell_of_good.
      * apply Forall_forall. intros x Hx. apply repeat_spec in Hx. subst. discriminate.
    + rewrite IL. reflexivity.
Qed.

Lemma wallace_rows_okm (a b : list label) cm : is_matrix (length b) (length a) cm ->
  okm (length a + length b) (wallace_rows 0 (length b) cm) /\ length (wallace_rows 0 (length b) cm) = length b.
Proof.
  intros [HL HF].
  destruct (wallace_rows_okm_gen (length a) cm 0 (length b) HF ltac:(lia)) as (W & G & L).
  split; [split; assumption|]. rewrite L. exact HL.
Qed.

(* [f(i) for i in range(k)] *)
Lemma mapP_range_seq {B} (G : Z -> prog B) (F : nat -> prog B) k :
  (forall i, (i < k)%nat -> peq (G (Z.of_nat i)) (F i)) ->
  peq (mapP G (py_range 0 (Z.of_nat k))) (mapP F (seq 0 k)).
Proof.
  intros HG. rewrite py_range_0_nat, mapP_map. apply mapP_ext_in.
  intros x Hx. apply in_seq in Hx. apply HG. lia.
Qed.

(* c[col][r] against cell_at, whatever the indices (both fail with IndexError together) *)
Lemma cell_at_get fresh N (R : cmat) r col s : widths N R -> (col < N)%nat ->
  run fresh (bdo t <- py_nth (colsof N R) (Z.of_nat col); bdo u <- py_nth t (Z.of_nat r); Ret u) s
  = run fresh (cell_at R r col) s.
Proof.
  intros HW Hc. unfold cell_at.
  destruct (Nat.lt_ge_cases r (length R)) as [Hr|Hr].
  - rewrite colsof_get by assumption.
    rewrite (nthP_ok R r []) by exact Hr. rs.
    rewrite (nthP_ok (nth r R []) col None) by (rewrite (widths_nth N) by assumption; exact Hc). rs. reflexivity.
  - rewrite colsof_get_col by exact Hc.
    rewrite py_nth_err by (rewrite col_of_length; exact Hr). rs.
    rewrite nthP_err by exact Hr. rs. reflexivity.
Qed.
