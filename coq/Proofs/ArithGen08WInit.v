(* Generated/ArithGen08.v, add_mul_wallace (translator T22) equals the hand model, part 1: the partial-product loops
   `c[i + j][i] = add_gate_from_tt(a[j], b[i], "0001")` against [pp_matrix] / [wallace_rows], in transposed form, and the
   two comprehensions of the one-bit operand returns. *)
Require Import Cirbo.Model.Base Cirbo.Model.Gate Cirbo.Model.Circuit Cirbo.Model.Builder Cirbo.Model.PyPrims.
Require Import Cirbo.Model.ArithSub Cirbo.Model.ArithSum2 Cirbo.Model.ArithSumN Cirbo.Model.ArithSumW.
Require Import Cirbo.Model.PyPrims08 Cirbo.Model.PyPrimsWal Cirbo.Model.ArithMul.
Require Import Cirbo.Generated.ArithTables.
Require Import Cirbo.Proofs.ArithGen09Lib Cirbo.Proofs.ArithGen08Lib.
Require Import Cirbo.Proofs.ArithMulWallaceShape Cirbo.Proofs.ArithGen08WLib.
From Coq Require Import ZArith Lia Ascii.
Open Scope Z_scope.

(* for i in range(m): for j in range(n): c[i + j][i] = <gate of a[j], b[i]>     (H i c j is the body) *)
Lemma wal_nest_eq (H : Z -> lmat -> Z -> prog lmat) (a b : list label) :
  (forall i j R, (i < length b)%nat -> (j < length a)%nat -> widths (length a + length b) R -> length R = length b ->
     peq (H (Z.of_nat i) (colsof (length a + length b) R) (Z.of_nat j))
         (bdo g <- gate_tt tt_and (nth j a ""%string) (nth i b ""%string);
          Ret (colsof (length a + length b) (upd2 R i (i + j) (cell_of g))))) ->
  peq (foldP (fun c i => bdo c <- foldP (H i) (py_range 0 (Z.of_nat (length a))) c; Ret c)
             (py_range 0 (Z.of_nat (length b)))
             (map (fun _ : Z => py_mul [PLACEHOLDER_STR] (Z.of_nat (length b)))
                  (py_range 0 (Z.of_nat (length a) + Z.of_nat (length b)))))
      (bdo cm <- pp_matrix a b; Ret (colsof (length a + length b) (wallace_rows 0 (length b) cm))).
Proof.
Admitted.

(* the start matrix is well shaped *)
Lemma wallace_rows_okm (a b : list label) cm : is_matrix (length b) (length a) cm ->
  okm (length a + length b) (wallace_rows 0 (length b) cm) /\ length (wallace_rows 0 (length b) cm) = length b.
Proof.
Admitted.

(* [f(i) for i in range(k)] *)
Lemma mapP_range_seq {B} (G : Z -> prog B) (F : nat -> prog B) k :
  (forall i, (i < k)%nat -> peq (G (Z.of_nat i)) (F i)) ->
  peq (mapP G (py_range 0 (Z.of_nat k))) (mapP F (seq 0 k)).
Proof.
Admitted.

(* c[col][r] against cell_at, whatever the indices (both fail with IndexError together) *)
Lemma cell_at_get fresh N (R : cmat) r col s : widths N R -> (col < N)%nat ->
  run fresh (bdo t <- py_nth (colsof N R) (Z.of_nat col); bdo u <- py_nth t (Z.of_nat r); Ret u) s
  = run fresh (cell_at R r col) s.
Proof.
Admitted.
