(* C05 (ii): the whole-formula theorem for the model of tseytin_transformation.
   Invariant carried along the memoised recursion (process_gate) and the output loop:
     Wf    - saved literals are positive, pairwise distinct, at most next_lit; inputs are saved
             with input i = variable i+1
     Sem   - (defined)  every saved label has a Boolean value under the total assignment a
             (sound)    any sigma satisfying the clauses so far and agreeing with a on the inputs
                        gives every saved label its Eval value, and every asserted output is T
             (complete) any sigma giving every saved label its Eval value satisfies the clauses
                        so far, provided the asserted outputs are T.
   No acyclicity hypothesis is needed: a result Ok means the recursion returned. *)
Require Import Cirbo.Model.Base Cirbo.Model.Gate Cirbo.Model.Den Cirbo.Model.Circuit Cirbo.Model.Eval
        Cirbo.Model.Sem Cirbo.Model.Cnf Cirbo.Model.TseytinAlg.
Require Import Cirbo.Generated.GateTypes Cirbo.Generated.Tseytin.
Require Import Cirbo.Proofs.DictFacts Cirbo.Proofs.OpFacts Cirbo.Proofs.SemFacts Cirbo.Proofs.TseytinTemplates.
Local Open Scope Z_scope.

(* ---------- the hypotheses as propositions --------------------------------------- *)
Definition inputs_exact (c : circuit) : Prop :=
  NoDup (inputs c) /\
  (forall l, In l (inputs c) -> exists g, dget (gates c) l = Some g /\ gtyp g = INPUT) /\
  (forall l g, dget (gates c) l = Some g -> gtyp g = INPUT -> In l (inputs c)).

Definition arity_ok (c : circuit) : Prop :=
  forall l g, dget (gates c) l = Some g -> gtyp g <> INPUT ->
              den_accepts (gtyp g) (length (gops g)) = true.

Lemma inputs_exactb_spec c : inputs_exactb c = true -> inputs_exact c.
Proof.
  unfold inputs_exactb. rewrite !andb_true_iff. intros [[H1 H2] H3].
  split; [apply nodupb_NoDup; exact H1|]. split.
  - intros l Hl. rewrite forallb_forall in H2. specialize (H2 _ Hl).
    unfold is_input_gate in H2. destruct (dget (gates c) l) as [g|]; [|discriminate].
    exists g. split; [reflexivity|]. apply gtype_beq_eq; exact H2.
  - intros l g Hg Ht. rewrite forallb_forall in H3. specialize (H3 _ (dget_In _ _ _ Hg)).
    cbn [fst snd] in H3. rewrite Ht in H3. cbn in H3. apply memb_In; exact H3.
Qed.

Lemma arity_okb_spec c : arity_okb c = true -> arity_ok c.
Proof.
  unfold arity_okb. intros H l g Hg Ht. rewrite forallb_forall in H.
  specialize (H _ (dget_In _ _ _ Hg)). cbn [fst snd] in H.
  apply orb_true_iff in H. destruct H as [H|H]; [|exact H].
  apply gtype_beq_eq in H; contradiction.
Qed.

Lemma tseytin_wf_spec c : tseytin_wf c = true -> inputs_exact c /\ arity_ok c.
Proof.
  unfold tseytin_wf. rewrite andb_true_iff. intros [H1 H2].
  split; [apply inputs_exactb_spec|apply arity_okb_spec]; assumption.
Qed.

(* ---------- small facts ------------------------------------------------------------ *)
Lemma dset_new {V} (d : dict V) k v : dget d k = None -> dset d k v = d ++ [(k, v)].
Proof.
  induction d as [|[k' v'] d IH]; simpl; [reflexivity|].
  destruct (leqb k k'); [discriminate|]. intros H; rewrite IH by exact H; reflexivity.
Qed.

Lemma NoDup_snoc {A} (l : list A) x : NoDup l -> ~ In x l -> NoDup (l ++ [x]).
Proof.
  intros Hl Hx. induction Hl as [|y l Hy _ IH]; simpl; [constructor; [intros []|constructor]|].
  constructor.
  - intros H. apply in_app_or in H. destruct H as [H|[H|[]]]; [contradiction|].
    subst; apply Hx; left; reflexivity.
  - apply IH. intros H; apply Hx; right; exact H.
Qed.

Lemma Forall2_len {A B} {R : A -> B -> Prop} {l l'} : Forall2 R l l' -> length l = length l'.
Proof. induction 1; simpl; congruence. Qed.

Lemma get_gate_dget c l g : get_gate c l = Ok g -> dget (gates c) l = Some g.
Proof. unfold get_gate; destruct (dget (gates c) l); [intros [= ->]; reflexivity|discriminate]. Qed.

Lemma inj_inj b b' : inj b = inj b' -> b = b'.
Proof. destruct b, b'; simpl; congruence. Qed.

Lemma map_inj_inj bs bs' : map inj bs = map inj bs' -> bs = bs'.
Proof.
  revert bs'; induction bs as [|b bs IH]; intros [|b' bs']; simpl; try discriminate; [reflexivity|].
  intros [= H1 H2]. f_equal; [apply inj_inj; exact H1|apply IH; exact H2].
Qed.

Lemma map_lval_pos s lits : Forall (fun l => 0 < l) lits -> map (lval s) lits = map s lits.
Proof. induction 1 as [|l lits Hl _ IH]; simpl; [reflexivity|]. rewrite IH, lval_pos by exact Hl. reflexivity. Qed.

Lemma csat_unit s v : csat s [v] = lval s v.
Proof. cbn. apply orb_false_r. Qed.

(* ---------- the invariant ------------------------------------------------------------ *)
Section Sound.
  Variables (c : circuit) (a : assignment).
  Hypothesis Hin : inputs_exact c.
  Hypothesis Har : arity_ok c.
  Hypothesis Htot : total_on c a.

  Notation agrees := (agrees_on_inputs c a).

  Record Wf (s : tstate) : Prop := mkWf {
    w_next : 0 <= next_lit s;
    w_range : forall l v, In (l, v) (saved s) -> 1 <= v <= next_lit s;
    w_nodup : NoDup (map snd (saved s)) }.

  Definition inputs_saved (s : tstate) : Prop :=
    forall i l, nth_error (inputs c) i = Some l -> dget (saved s) l = Some (Z.of_nat i + 1).

  Definition ext (s s' : tstate) : Prop :=
    (exists more, saved s' = saved s ++ more) /\ (exists cl, clauses s' = clauses s ++ cl).

  Lemma ext_refl s : ext s s.
  Proof. split; exists []; rewrite app_nil_r; reflexivity. Qed.

  Lemma ext_trans s1 s2 s3 : ext s1 s2 -> ext s2 s3 -> ext s1 s3.
  Proof.
    intros [[m1 H1] [c1 H1']] [[m2 H2] [c2 H2']]. split.
    - exists (m1 ++ m2). rewrite H2, H1, app_assoc. reflexivity.
    - exists (c1 ++ c2). rewrite H2', H1', app_assoc. reflexivity.
  Qed.

  Lemma ext_dget s s' l v : ext s s' -> dget (saved s) l = Some v -> dget (saved s') l = Some v.
  Proof. intros [[m H] _] Hl. rewrite H, dget_app, Hl. reflexivity. Qed.

  Lemma ext_inputs s s' : ext s s' -> inputs_saved s -> inputs_saved s'.
  Proof. intros He H i l Hi. eapply ext_dget; [exact He|apply H; exact Hi]. Qed.

  Lemma Wf_pos s l v : Wf s -> dget (saved s) l = Some v -> 0 < v.
  Proof. intros W H. apply dget_In in H. apply (w_range _ W) in H. lia. Qed.

  Record Sem (asserted : list label) (s : tstate) : Prop := mkSem {
    s_def : forall l v, dget (saved s) l = Some v -> exists b, Eval c a l (inj b);
    s_sound : forall sigma, sat sigma (clauses s) = true -> agrees sigma ->
        (forall l v, dget (saved s) l = Some v -> Eval c a l (inj (sigma v)))
        /\ (forall o, In o asserted -> Eval c a o T);
    s_complete : forall sigma,
        (forall l v, dget (saved s) l = Some v -> Eval c a l (inj (sigma v))) ->
        (forall o, In o asserted -> Eval c a o T) -> sat sigma (clauses s) = true }.

  Definition Good (asserted : list label) (s : tstate) : Prop :=
    Wf s /\ inputs_saved s /\ Sem asserted s.

  (* ---- get_lit ---- *)
  Lemma get_lit_spec s l s' v : Wf s -> get_lit s l = (s', v) ->
    Wf s' /\ ext s s' /\ clauses s' = clauses s /\ dget (saved s') l = Some v /\
    (forall l' v', dget (saved s') l' = Some v' -> dget (saved s) l' = Some v' \/ (l' = l /\ v' = v)).
  Proof.
    intros W. unfold get_lit. destruct (dget (saved s) l) as [v0|] eqn:E.
    - intros [= <- <-]. split; [exact W|]. split; [apply ext_refl|]. split; [reflexivity|]. split; [exact E|]. auto.
    - intros [= <- <-]. cbn [saved next_lit clauses]. rewrite (dset_new _ _ _ E).
      destruct W as [Wn Wr Wd]. split; [|split; [|split; [|split]]].
      + constructor; cbn [saved next_lit clauses].
        * lia.
        * intros l' v' H. apply in_app_or in H. destruct H as [H|[H|[]]].
          -- apply Wr in H. lia.
          -- injection H as <- <-. lia.
        * rewrite map_app. cbn [map snd]. apply NoDup_snoc; [exact Wd|].
          intros H. apply in_map_iff in H. destruct H as ([l' v'] & Hv & H). cbn in Hv. subst v'.
          apply Wr in H. lia.
      + split; cbn [saved clauses]; [eexists; reflexivity|exists []; rewrite app_nil_r; reflexivity].
      + reflexivity.
      + rewrite dget_app, E. cbn. rewrite leqb_refl. reflexivity.
      + intros l' v'. rewrite dget_app. destruct (dget (saved s) l') eqn:E'; [intros [= <-]; left; reflexivity|].
        cbn. destruct (leqb_spec l' l) as [->|]; [intros [= <-]; right; split; reflexivity|discriminate].
  Qed.

  (* ---- values of operands ---- *)
  Lemma operands_defined s ops lits :
    (forall l v, dget (saved s) l = Some v -> exists b, Eval c a l (inj b)) ->
    Forall2 (fun o v => dget (saved s) o = Some v) ops lits ->
    exists bs, Forall2 (Eval c a) ops (map inj bs).
  Proof.
    intros Hd H. induction H as [|o v ops lits Hov _ (bs & IH)]; [exists []; constructor|].
    destruct (Hd _ _ Hov) as (b & Hb). exists (b :: bs). constructor; assumption.
  Qed.

  Lemma operands_values s sigma ops lits :
    (forall l v, dget (saved s) l = Some v -> Eval c a l (inj (sigma v))) ->
    Forall2 (fun o v => dget (saved s) o = Some v) ops lits ->
    Forall2 (Eval c a) ops (map inj (map sigma lits)).
  Proof.
    intros Hd H. induction H as [|o v ops lits Hov _ IH]; [constructor|].
    cbn [map]. constructor; [apply Hd; exact Hov|exact IH].
  Qed.

  Lemma operands_pos s ops lits : Wf s ->
    Forall2 (fun o v => dget (saved s) o = Some v) ops lits -> Forall (fun l => 0 < l) lits.
  Proof.
    intros W H. induction H as [|o v ops lits Hov _ IH]; constructor; [eapply Wf_pos; eassumption|exact IH].
  Qed.

  Lemma Forall_pos_nonzero lits : Forall (fun l => 0 < l) lits -> Forall (fun l => l <> 0) lits.
  Proof. apply Forall_impl. intros; lia. Qed.

  (* ---- one gate: its literal is (re)read, its template clauses are appended ---- *)
  Lemma Sem_step asserted s1 s2 l g top lits cl :
    Wf s2 -> Sem asserted s1 ->
    clauses s2 = clauses s1 ->
    (forall l' v', dget (saved s1) l' = Some v' -> dget (saved s2) l' = Some v') ->
    (forall l' v', dget (saved s2) l' = Some v' -> dget (saved s1) l' = Some v' \/ (l' = l /\ v' = top)) ->
    dget (saved s2) l = Some top ->
    dget (gates c) l = Some g -> gtyp g <> INPUT ->
    Forall2 (fun o v => dget (saved s1) o = Some v) (gops g) lits ->
    template_of (gtyp g) top lits = Ok cl ->
    Sem asserted (add_clauses s2 cl).
  Proof.
    intros W2 [Sd Ss Sc] Hcl Hfwd Hbwd Htop Hg Hty Hops Htpl.
    assert (Hops2 : Forall2 (fun o v => dget (saved s2) o = Some v) (gops g) lits).
    { clear -Hops Hfwd. induction Hops; constructor; auto. }
    assert (Hpos : Forall (fun l => 0 < l) lits) by (eapply operands_pos; eassumption).
    assert (Hnz := Forall_pos_nonzero _ Hpos).
    assert (Htpos : 0 < top) by (eapply Wf_pos; eassumption).
    assert (Htnz : top <> 0) by lia.
    assert (Hacc : den_accepts (gtyp g) (length lits) = true).
    { rewrite <- (Forall2_len Hops). eapply Har; eassumption. }
    constructor; cbn [add_clauses saved clauses]; rewrite ?Hcl.
    - (* defined *)
      intros l' v' H'. destruct (Hbwd _ _ H') as [Hold|[-> ->]]; [eapply Sd; exact Hold|].
      destruct (operands_defined _ _ _ Sd Hops) as (bs & Hbs).
      assert (Hlen : length bs = length lits).
      { rewrite <- (Forall2_len Hops), (Forall2_len Hbs), map_length. reflexivity. }
      rewrite <- Hlen in Hacc. apply den_accepts_spec in Hacc.
      destruct (den (gtyp g) bs) as [b|] eqn:Ed; [|congruence].
      exists b. eapply EvalGate; [exact Hg|exact Hty|exact Hbs|].
      rewrite operator_of_den, Ed. reflexivity.
    - (* sound *)
      intros sigma Hsat Hag. rewrite sat_app, andb_true_iff in Hsat. destruct Hsat as [Hs1 Hs2].
      destruct (Ss _ Hs1 Hag) as [Hv Ho]. split; [|exact Ho].
      intros l' v' H'. destruct (Hbwd _ _ H') as [Hold|[-> ->]]; [apply Hv; exact Hold|].
      apply (template_exact _ _ _ _ sigma Htnz Hnz Hacc Htpl) in Hs2.
      rewrite map_lval_pos, lval_pos in Hs2 by assumption.
      eapply EvalGate; [exact Hg|exact Hty|eapply operands_values; eassumption|].
      rewrite operator_of_den, Hs2. reflexivity.
    - (* complete *)
      intros sigma Hv Ho. rewrite sat_app, andb_true_iff. split.
      + apply Sc; [|exact Ho]. intros l' v' H'. apply Hv, Hfwd, H'.
      + apply (template_exact _ _ _ _ sigma Htnz Hnz Hacc Htpl).
        rewrite map_lval_pos, lval_pos by assumption.
        assert (Hvals := operands_values _ _ _ _ Hv Hops2).
        destruct (Eval_den _ _ _ _ _ _ Hg Hty Hvals Htot (Hv _ _ Htop)) as (bs & b & E1 & E2 & E3).
        apply map_inj_inj in E1. apply inj_inj in E3. subst. exact E2.
  Qed.

  (* ---- mapS over the operands ---- *)
  Lemma mapS_good asserted (f : tstate -> label -> res (tstate * Z)) :
    (forall s x s' y, Good asserted s -> f s x = Ok (s', y) ->
                      Good asserted s' /\ ext s s' /\ dget (saved s') x = Some y) ->
    forall ls s s' ys, Good asserted s -> mapS f s ls = Ok (s', ys) ->
    Good asserted s' /\ ext s s' /\ Forall2 (fun o v => dget (saved s') o = Some v) ls ys.
  Proof.
    intros Hf ls; induction ls as [|x ls IH]; intros s s' ys G; cbn [mapS].
    - intros [= <- <-]. split; [exact G|]. split; [apply ext_refl|constructor].
    - destruct (f s x) as [[s1 y]|] eqn:E1; cbn [bind]; [|discriminate].
      destruct (mapS f (fst (s1, y)) ls) as [[s2 ys']|] eqn:E2; cbn [bind]; [|discriminate].
      cbn [fst snd] in *. intros [= <- <-].
      destruct (Hf _ _ _ _ G E1) as (G1 & X1 & D1).
      destruct (IH _ _ _ G1 E2) as (G2 & X2 & F2).
      split; [exact G2|]. split; [eapply ext_trans; eassumption|].
      constructor; [eapply ext_dget; eassumption|exact F2].
  Qed.

  (* ---- process_gate ---- *)
  Lemma not_saved_not_input s l g :
    inputs_saved s -> dget (saved s) l = None -> dget (gates c) l = Some g -> gtyp g <> INPUT.
  Proof.
    intros Hi Hn Hg Ht. destruct Hin as (_ & _ & H3).
    apply (H3 _ _ Hg) in Ht. apply In_nth_error in Ht. destruct Ht as (i & Hi').
    rewrite (Hi _ _ Hi') in Hn. discriminate.
  Qed.

  Lemma process_gate_good asserted : forall fuel s l s' v,
    Good asserted s -> process_gate fuel c s l = Ok (s', v) ->
    Good asserted s' /\ ext s s' /\ dget (saved s') l = Some v.
  Proof.
    induction fuel as [|fuel IH]; intros s l s' v G; cbn [process_gate]; [discriminate|].
    destruct (dget (saved s) l) as [v0|] eqn:E.
    - intros [= <- <-]. split; [exact G|]. split; [apply ext_refl|exact E].
    - destruct (get_gate c l) as [g|] eqn:Eg; cbn [bind]; [|discriminate].
      apply get_gate_dget in Eg.
      destruct (mapS (process_gate fuel c) s (gops g)) as [[s1 lits]|] eqn:Em; cbn [bind]; [|discriminate].
      cbn [fst snd].
      destruct (get_lit s1 l) as [s2 top] eqn:El.
      destruct (template_of (gtyp g) top lits) as [cl|] eqn:Et; cbn [bind]; [|discriminate].
      intros [= <- <-].
      destruct (mapS_good asserted _ (fun s x s' y => IH s x s' y) _ _ _ _ G Em) as ((W1 & I1 & S1) & X1 & F1).
      destruct (get_lit_spec _ _ _ _ W1 El) as (W2 & X2 & C2 & D2 & B2).
      assert (Hty : gtyp g <> INPUT).
      { destruct G as (_ & I0 & _). exact (not_saved_not_input s l g I0 E Eg). }
      split; [|split].
      + split; [|split].
        * destruct W2 as [Wn Wr Wd]. constructor; cbn [add_clauses saved next_lit]; assumption.
        * intros i l' Hi. change (dget (saved s2) l' = Some (Z.of_nat i + 1)).
          eapply ext_dget; [exact X2|apply I1; exact Hi].
        * eapply Sem_step; try eassumption. intros l' v' H'. eapply ext_dget; eassumption.
      + eapply ext_trans; [exact X1|]. eapply ext_trans; [exact X2|].
        split; cbn [add_clauses saved clauses]; [exists []; rewrite app_nil_r; reflexivity|eexists; reflexivity].
      + cbn [add_clauses saved]. exact D2.
  Qed.

  (* ---- one selected output: process it, assert its literal ---- *)
  Lemma process_output_good asserted fuel s i s' :
    Good asserted s -> process_output fuel c s i = Ok s' ->
    exists o, output_at_index_z c i = Ok o /\ Good (asserted ++ [o]) s' /\ ext s s' /\ dmem (saved s') o = true.
  Proof.
    intros G. unfold process_output.
    destruct (output_at_index_z c i) as [o|] eqn:Eo; cbn [bind]; [|discriminate].
    destruct (process_gate fuel c s o) as [[s1 v]|] eqn:Ep; cbn [bind]; [|discriminate].
    cbn [fst snd]. intros [= <-].
    destruct (process_gate_good _ _ _ _ _ _ G Ep) as ((W1 & I1 & [Sd Ss Sc]) & X1 & D1).
    exists o. split; [reflexivity|].
    assert (Hv : 0 < v) by (eapply Wf_pos; eassumption).
    split; [|split].
    - split; [|split].
      + destruct W1 as [Wn Wr Wd]. constructor; cbn [add_clauses saved next_lit]; assumption.
      + exact I1.
      + constructor; cbn [add_clauses saved clauses].
        * exact Sd.
        * intros sigma Hsat Hag. rewrite sat_app, andb_true_iff in Hsat. destruct Hsat as [Hs1 Hs2].
          cbn [sat forallb] in Hs2. rewrite andb_true_r, csat_unit, lval_pos in Hs2 by exact Hv.
          destruct (Ss _ Hs1 Hag) as [Hvals Ho]. split; [exact Hvals|].
          intros o' Ho'. apply in_app_or in Ho'. destruct Ho' as [Ho'|[<-|[]]]; [apply Ho; exact Ho'|].
          specialize (Hvals _ _ D1). rewrite Hs2 in Hvals. exact Hvals.
        * intros sigma Hvals Ho. rewrite sat_app, andb_true_iff. split.
          -- apply Sc; [exact Hvals|]. intros o' Ho'. apply Ho, in_or_app; left; exact Ho'.
          -- cbn [sat forallb]. rewrite andb_true_r, csat_unit, lval_pos by exact Hv.
             assert (HT : Eval c a o T) by (apply Ho, in_or_app; right; left; reflexivity).
             assert (E := Eval_functional _ _ _ _ _ (Hvals _ _ D1) HT).
             destruct (sigma v); [reflexivity|discriminate].
    - eapply ext_trans; [exact X1|].
      split; cbn [add_clauses saved clauses]; [exists []; rewrite app_nil_r; reflexivity|eexists; reflexivity].
    - cbn [add_clauses saved]. unfold dmem. rewrite D1. reflexivity.
  Qed.

  Lemma outputs_loop_good fuel : forall idxs asserted s s',
    Good asserted s -> foldM (process_output fuel c) idxs s = Ok s' ->
    exists sel, mapM (output_at_index_z c) idxs = Ok sel /\ Good (asserted ++ sel) s' /\ ext s s'
                /\ (forall o, In o sel -> dmem (saved s') o = true).
  Proof.
    induction idxs as [|i idxs IH]; intros asserted s s' G; cbn [foldM mapM].
    - intros [= <-]. exists []. rewrite app_nil_r. split; [reflexivity|]. split; [exact G|].
      split; [apply ext_refl|]. intros o [].
    - destruct (process_output fuel c s i) as [s1|] eqn:E1; cbn [bind]; [|discriminate]. intros E2.
      destruct (process_output_good _ _ _ _ _ G E1) as (o & Eo & G1 & X1 & M1).
      destruct (IH _ _ _ G1 E2) as (sel & Es & G2 & X2 & M2).
      exists (o :: sel). rewrite Eo, Es. cbn [bind]. split; [reflexivity|].
      split; [rewrite <- app_assoc in G2; exact G2|]. split; [eapply ext_trans; eassumption|].
      intros o' [<-|Ho']; [|apply M2; exact Ho'].
      unfold dmem in *. destruct (dget (saved s1) o) as [v|] eqn:Ev; [|discriminate].
      rewrite (ext_dget _ _ _ _ X2 Ev). reflexivity.
  Qed.

  (* ---- the initial state: literals of the inputs ---- *)
  Definition alloc (ls : list label) (s : tstate) : tstate :=
    fold_left (fun s i => fst (get_lit s i)) ls s.

  Lemma alloc_fold : forall ls s,
    NoDup ls -> (forall l, In l ls -> dget (saved s) l = None) -> Wf s ->
    Wf (alloc ls s) /\ ext s (alloc ls s) /\ clauses (alloc ls s) = clauses s /\
    (forall i l, nth_error ls i = Some l -> dget (saved (alloc ls s)) l = Some (next_lit s + 1 + Z.of_nat i)) /\
    (forall l v, dget (saved (alloc ls s)) l = Some v -> dget (saved s) l = Some v \/
                 exists i, nth_error ls i = Some l /\ v = next_lit s + 1 + Z.of_nat i).
  Proof.
    induction ls as [|x ls IH]; intros s Hnd Hnew W.
    - change (alloc [] s) with s. split; [exact W|]. split; [apply ext_refl|]. split; [reflexivity|]. split.
      + intros [|i] l; discriminate.
      + intros l v H; left; exact H.
    - inversion Hnd as [|? ? Hx Hnd']; subst.
      change (alloc (x :: ls) s) with (alloc ls (fst (get_lit s x))).
      destruct (get_lit s x) as [s1 v1] eqn:El. cbn [fst].
      assert (Ex : dget (saved s) x = None) by (apply Hnew; left; reflexivity).
      assert (Hv1 : v1 = next_lit s + 1 /\ next_lit s1 = next_lit s + 1).
      { unfold get_lit in El. rewrite Ex in El. injection El as <- <-. split; reflexivity. }
      destruct Hv1 as [-> Hn1].
      destruct (get_lit_spec _ _ _ _ W El) as (W1 & X1 & C1 & D1 & B1).
      assert (Hnew1 : forall l, In l ls -> dget (saved s1) l = None).
      { intros l Hl. destruct (dget (saved s1) l) as [v|] eqn:E; [|reflexivity].
        destruct (B1 _ _ E) as [H|[-> _]]; [|contradiction].
        rewrite Hnew in H by (right; exact Hl). discriminate. }
      destruct (IH s1 Hnd' Hnew1 W1) as (W' & X' & C' & A' & B').
      split; [exact W'|]. split; [eapply ext_trans; eassumption|]. split; [congruence|]. split.
      + intros [|i] l Hi; cbn [nth_error] in Hi.
        * injection Hi as <-. rewrite (ext_dget _ _ _ _ X' D1). f_equal. lia.
        * rewrite (A' _ _ Hi), Hn1. f_equal. lia.
      + intros l v H. destruct (B' _ _ H) as [H1|(i & Hi & ->)].
        * destruct (B1 _ _ H1) as [H0|[-> ->]]; [left; exact H0|].
          right. exists 0%nat. split; [reflexivity|lia].
        * right. exists (S i). split; [exact Hi|]. rewrite Hn1. lia.
  Qed.

  Lemma alloc_inputs_good : Good [] (alloc_inputs c).
  Proof.
    destruct Hin as (Hnd & H1 & H2).
    assert (W0 : Wf t_init) by (constructor; cbn; [lia|intros ? ? []|constructor]).
    destruct (alloc_fold (inputs c) t_init Hnd (fun _ _ => eq_refl) W0) as (W & X & C & A & B).
    change (alloc (inputs c) t_init) with (alloc_inputs c) in W, X, C, A, B.
    cbn [t_init next_lit saved clauses] in A, B, C.
    split; [exact W|]. split.
    - intros i l Hi. rewrite (A _ _ Hi). f_equal. lia.
    - assert (Hval : forall l v, dget (saved (alloc_inputs c)) l = Some v ->
                      exists i g, nth_error (inputs c) i = Some l /\ v = Z.of_nat i + 1 /\
                                  dget (gates c) l = Some g /\ gtyp g = INPUT).
      { intros l v H. destruct (B _ _ H) as [H0|(i & Hi & ->)]; [discriminate|].
        destruct (H1 l (nth_error_In _ _ Hi)) as (g & Hg & Ht). exists i, g. repeat split; try assumption. lia. }
      constructor.
      + intros l v H. destruct (Hval _ _ H) as (i & g & Hi & -> & Hg & Ht).
        specialize (Htot _ _ Hg Ht). destruct (aval a l) eqn:Ea; [exists false|exists true|contradiction];
          cbn [inj]; rewrite <- Ea; econstructor; eassumption.
      + intros sigma _ Hag. split; [|intros o []].
        intros l v H. destruct (Hval _ _ H) as (i & g & Hi & -> & Hg & Ht).
        rewrite (Hag _ _ Hi). econstructor; eassumption.
      + intros sigma _ _. rewrite C. reflexivity.
  Qed.

  (* ---- a valuation giving every saved label its value ---- *)
  Lemma build_sigma : forall d : dict Z,
    NoDup (map snd d) -> (forall l v, In (l, v) d -> exists b, Eval c a l (inj b)) ->
    exists sigma, forall l v, In (l, v) d -> Eval c a l (inj (sigma v)).
  Proof.
    induction d as [|[l0 v0] d IH]; intros Hnd Hd; [exists (fun _ => false); intros ? ? []|].
    cbn [map snd] in Hnd. inversion Hnd as [|? ? Hv0 Hnd']; subst.
    destruct IH as (sg & Hsg); [exact Hnd'|intros; eapply Hd; right; eassumption|].
    destruct (Hd l0 v0 (or_introl eq_refl)) as (b0 & Hb0).
    exists (fun v => if v =? v0 then b0 else sg v).
    intros l v [H|H].
    - injection H as <- <-. rewrite Z.eqb_refl. exact Hb0.
    - destruct (Z.eqb_spec v v0) as [->|]; [|apply Hsg; exact H].
      exfalso. apply Hv0. apply in_map_iff. exists (l, v0). split; [reflexivity|exact H].
  Qed.

  (* ---- (ii) the whole-formula theorem ---- *)
  Theorem tseytin_fuel_exact fuel outs f lit :
    tseytin_fuel fuel c outs = Ok (f, lit) ->
    exists sel, selected_outputs c outs = Ok sel /\
      (forall i l, nth_error (inputs c) i = Some l -> dget lit l = Some (Z.of_nat i + 1)) /\
      (forall o, In o sel -> dmem lit o = true) /\
      ((exists sigma, sat sigma f = true /\ agrees sigma) <-> Forall (fun o => Eval c a o T) sel) /\
      (forall sigma, sat sigma f = true -> agrees sigma ->
                     forall l v, dget lit l = Some v -> Eval c a l (inj (sigma v))).
  Proof.
    unfold tseytin_fuel.
    destruct (foldM (process_output fuel c) (selected_indices c outs) (alloc_inputs c)) as [s|] eqn:E;
      cbn [bind]; [|discriminate].
    intros [= <- <-].
    destruct (outputs_loop_good _ _ _ _ _ alloc_inputs_good E) as (sel & Es & (W & I & [Sd Ss Sc]) & _ & M).
    cbn [app] in *. exists sel. split; [exact Es|]. split; [exact I|]. split; [exact M|]. split.
    - split.
      + intros (sigma & Hsat & Hag). apply Forall_forall. apply (Ss _ Hsat Hag).
      + intros Hall. rewrite Forall_forall in Hall.
        destruct (build_sigma (saved s) (w_nodup _ W)) as (sigma & Hsg).
        { intros l v H. (* every pair of the list has a first occurrence of its key *)
          assert (Hk : In l (dkeys (saved s))) by (apply (in_map fst) in H; exact H).
          apply dmem_keys in Hk. unfold dmem in Hk. destruct (dget (saved s) l) as [v'|] eqn:Ev; [|discriminate].
          eapply Sd; exact Ev. }
        assert (Hvals : forall l v, dget (saved s) l = Some v -> Eval c a l (inj (sigma v))).
        { intros l v H. apply Hsg, dget_In, H. }
        exists sigma. split; [apply Sc; [exact Hvals|exact Hall]|].
        intros i l Hi. specialize (Hvals _ _ (I _ _ Hi)).
        destruct Hin as (_ & H1 & _). destruct (H1 l (nth_error_In _ _ Hi)) as (g & Hg & Ht).
        eapply Eval_functional; [exact Hvals|econstructor; eassumption].
    - intros sigma Hsat Hag. apply (Ss _ Hsat Hag).
  Qed.
End Sound.
