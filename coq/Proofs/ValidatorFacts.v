(* C04: soundness of the step validator.
   check_step_map / check_step: acceptance implies that the listed outputs of the old and
   of the new cone have the same value under every compared leaf vector (cone semantics),
   hence the same circuit value (Sem.Eval) whenever the leaves carry such a vector.
   check_subst: the care-set substitution theorem - with the frame conditions (the circuit
   after the step is acyclic, the leaves survive, untouched gates do not read replaced
   internal gates), every gate that survives the step keeps its value under every assignment
   whose leaf vector is in the compared set.  The proof is an induction along the checked
   operands-first order of the NEW circuit, so leaves may well lie above other cone outputs. *)
Require Import Cirbo.Model.Base Cirbo.Model.Gate Cirbo.Model.Den Cirbo.Model.Circuit Cirbo.Model.Traverse
        Cirbo.Model.Eval Cirbo.Model.Sem Cirbo.Model.ConeSem Cirbo.Model.PatternSim
        Cirbo.Model.SubcircuitValidator.
Require Import Cirbo.Generated.GateTypes.
Require Import Cirbo.Proofs.DictFacts Cirbo.Proofs.OpFacts Cirbo.Proofs.SemFacts
        Cirbo.Proofs.ConeFacts.

Lemma all_bool_vectors_complete : forall v, In v (all_bool_vectors (length v)).
Proof.
  induction v as [|b r IH]; simpl; [left; reflexivity|].
  apply in_or_app. destruct b; [right|left]; apply in_map; exact IH.
Qed.

Lemma vec_eqb_eq a b : vec_eqb a b = true <-> a = b.
Proof. apply all_eqb_eq. intros x y. destruct x, y; simpl; split; congruence. Qed.

Lemma vec_mem_In v K : vec_mem v K = true <-> In v K.
Proof.
  unfold vec_mem. rewrite existsb_exists. split.
  - intros (w & Hw & He). apply vec_eqb_eq in He. subst; exact Hw.
  - intros H. exists v. split; [exact H|apply vec_eqb_eq; reflexivity].
Qed.

Lemma compared_In k care v : compared k care v -> In v (step_vectors k care).
Proof.
  destruct care as [K|]; simpl; [tauto|]. intros <-. apply all_bool_vectors_complete.
Qed.

Theorem check_step_map_sound old new leaves outs care :
  check_step_map old new leaves outs care = true ->
  forall v, compared (length leaves) care v ->
  length v = length leaves /\
  forall o o', In (o, o') outs ->
    exists b, ConeEval old (combine (map fst leaves) v) o b /\
              ConeEval new (combine (map snd leaves) v) o' b.
Proof.
  intros Hc v Hv. unfold check_step_map in Hc. rewrite forallb_forall in Hc.
  specialize (Hc v (compared_In _ _ _ Hv)). unfold check_vector in Hc.
  apply andb_true_iff in Hc. destruct Hc as [Hlen Hall]. apply Nat.eqb_eq in Hlen.
  split; [exact Hlen|]. intros o o' Ho. rewrite forallb_forall in Hall.
  specialize (Hall _ Ho). cbn [fst snd] in Hall.
  destruct (cone_eval (cone_fuel old) old (combine (map fst leaves) v) o) as [b|] eqn:E1; [|discriminate].
  destruct (cone_eval (cone_fuel new) new (combine (map snd leaves) v) o') as [b'|] eqn:E2; [|discriminate].
  apply cone_eval_sound in E1. apply cone_eval_sound in E2.
  assert (b = b') as <- by (destruct b, b'; simpl in Hall; congruence).
  exists b. split; assumption.
Qed.

Lemma map_fst_dup ls : map fst (map dup ls) = ls.
Proof. rewrite map_map. simpl. apply map_id. Qed.
Lemma map_snd_dup ls : map snd (map dup ls) = ls.
Proof. rewrite map_map. simpl. apply map_id. Qed.

(* the validator of the task statement: same labels before and after *)
Theorem check_step_sound old new leaves outs care :
  check_step old new leaves outs care = true ->
  forall v, compared (length leaves) care v ->
  forall o, In o outs ->
    exists b, ConeEval old (combine leaves v) o b /\ ConeEval new (combine leaves v) o b.
Proof.
  intros Hc v Hv o Ho. unfold check_step in Hc.
  rewrite <- (map_length dup leaves) in Hv.
  destruct (check_step_map_sound _ _ _ _ _ Hc v Hv) as [_ H].
  rewrite map_fst_dup, map_snd_dup in H. apply (H o o). apply (in_map dup) in Ho. exact Ho.
Qed.

(* over the circuit semantics: if the leaves carry a compared vector in both circuits,
   each listed output has the same (Boolean) value in both *)
Theorem check_step_map_sound_Eval old new leaves outs care a a' v :
  check_step_map old new leaves outs care = true ->
  compared (length leaves) care v ->
  Forall2 (fun l b => Eval old a l (inj b)) (map fst leaves) v ->
  Forall2 (fun l b => Eval new a' l (inj b)) (map snd leaves) v ->
  forall o o', In (o, o') outs ->
    exists b, Eval old a o (inj b) /\ Eval new a' o' (inj b).
Proof.
  intros Hc Hv Hold Hnew o o' Ho.
  destruct (check_step_map_sound _ _ _ _ _ Hc v Hv) as [_ H].
  destruct (H o o' Ho) as (b & H1 & H2). exists b.
  split; eapply ConeEval_Eval; eassumption.
Qed.

(* ------------------------------------------------------------------ *)
(* the care-set substitution theorem *)

Lemma gate_opt_eqb_eq x y : gate_opt_eqb x y = true <-> x = y.
Proof.
  destruct x as [x|], y as [y|]; simpl; try (split; [discriminate|discriminate]); [|tauto].
  rewrite gate_eqb_eq. split; [intros ->; reflexivity|intros [= ->]; reflexivity].
Qed.

Lemma unchanged_gate old new l g :
  dget (gates old) l = Some g -> ~ In l (changed old new) -> dget (gates new) l = Some g.
Proof.
  intros Hg Hn. unfold changed in Hn. rewrite filter_In in Hn.
  destruct (gate_opt_eqb (dget (gates old) l) (dget (gates new) l)) eqn:E.
  - apply gate_opt_eqb_eq in E. congruence.
  - exfalso. apply Hn. split; [eapply dget_In_keys; exact Hg|reflexivity].
Qed.

(* the search for tainted gates only adds labels *)
Lemma tainted_incl fuel old outs acc l : In l acc -> In l (tainted fuel old outs acc).
Proof.
  revert acc. induction fuel as [|fuel IH]; intros acc H; simpl; [exact H|].
  destruct (filter _ (gates old)) as [|kg more]; [exact H|].
  apply IH. simpl. right. apply in_or_app. right. exact H.
Qed.

(* ---- induction along a checked operands-first order ---- *)
Definition closed_in (c : circuit) (s : list label) : Prop :=
  forall x g, In x s -> dget (gates c) x = Some g -> forall op, In op (gops g) -> In op s.

Lemma ordered_induction (c : circuit) (P : label -> Prop) :
  (forall l g s, dget (gates c) l = Some g -> (forall op, In op (gops g) -> In op s) ->
                 closed_in c s -> (forall x, In x s -> P x) -> P l) ->
  forall order seen, ordered_okb c seen order = true ->
    closed_in c seen -> (forall x, In x seen -> P x) ->
    forall x, In x order -> P x.
Proof.
  intros Hstep. induction order as [|l rest IH]; intros seen Hok Hcl Hp x Hx; [destruct Hx|].
  simpl in Hok. apply andb_true_iff in Hok. destruct Hok as [Hok Hrest].
  apply andb_true_iff in Hok. destruct Hok as [_ Hg].
  destruct (dget (gates c) l) as [g|] eqn:Eg; [|discriminate].
  rewrite forallb_forall in Hg.
  assert (forall op, In op (gops g) -> In op seen) as Hops
      by (intros op Hop; apply memb_In; apply Hg; exact Hop).
  assert (P l) as Hl by (eapply Hstep; eassumption).
  destruct Hx as [<-|Hx]; [exact Hl|].
  apply (IH (l :: seen) Hrest); [| |exact Hx].
  - intros y gy [<-|Hy] Hgy op Hop.
    + rewrite Eg in Hgy; injection Hgy as <-. right; apply Hops; exact Hop.
    + right. eapply Hcl; eassumption.
  - intros y [<-|Hy]; [exact Hl|apply Hp; exact Hy].
Qed.

Lemma frame_order_parts new :
  frame_order new = true ->
  exists order, ordered_okb new [] order = true /\
                forall k, In k (dkeys (gates new)) -> In k order.
Proof.
  unfold frame_order. destruct (top_sort true new) as [order|]; [|discriminate].
  intros H. apply andb_true_iff in H. destruct H as [H1 H2]. exists order. split; [exact H1|].
  intros k Hk. rewrite forallb_forall in H2. apply memb_In. apply H2; exact Hk.
Qed.

Section Subst.
  Variables (old new : circuit) (leaves outs : list label) (care : option (list (list bool))).
  Hypothesis Hcheck : check_subst old new leaves outs care = true.

  Let r := changed old new.
  Let rint := replaced_internal old new outs.

  Lemma subst_parts :
    frame_order new = true /\
    (forall l, In l leaves -> ~ In l rint /\ ~ In l outs) /\
    (forall l g, dget (gates old) l = Some g -> ~ In l rint -> ~ In l outs ->
                 forall o, In o (gops g) -> ~ In o rint) /\
    check_step old new leaves outs care = true.
  Proof.
    unfold check_subst, check_frame in Hcheck.
    apply andb_true_iff in Hcheck. destruct Hcheck as [Hf Hs].
    apply andb_true_iff in Hf. destruct Hf as [Hf _].
    apply andb_true_iff in Hf. destruct Hf as [Hf Hu].
    apply andb_true_iff in Hf. destruct Hf as [Ho Hl].
    unfold frame_leaves in Hl. unfold frame_users in Hu. fold r rint in Hl, Hu.
    rewrite forallb_forall in Hl, Hu.
    repeat split; try assumption.
    - specialize (Hl l H). apply andb_true_iff in Hl. destruct Hl as [Hl _].
      apply negb_true_iff in Hl. apply memb_nIn; exact Hl.
    - specialize (Hl l H). apply andb_true_iff in Hl. destruct Hl as [_ Hl].
      apply negb_true_iff in Hl. apply memb_nIn; exact Hl.
    - intros l g Hg Hl' Hlo o Ho'. specialize (Hu (l, g) (dget_In _ _ _ Hg)). cbn [fst snd] in Hu.
      apply orb_true_iff in Hu. destruct Hu as [Hu|Hu].
      + apply orb_true_iff in Hu. destruct Hu as [Hu|Hu]; apply memb_In in Hu; contradiction.
      + rewrite forallb_forall in Hu. specialize (Hu o Ho'). apply negb_true_iff in Hu.
        apply memb_nIn; exact Hu.
  Qed.

  Variable a : assignment.
  (* the leaves carry a compared vector under a (with care = None: any Boolean vector) *)
  Hypothesis Hvec : exists v, compared (length leaves) care v /\
                              Forall2 (fun l b => Eval old a l (inj b)) leaves v.

  Definition keeps (l : label) : Prop :=
    ~ In l rint -> forall v, Eval old a l v -> Eval new a l v.

  Lemma not_r l : ~ In l rint -> memb l outs = false -> ~ In l r.
  Proof.
    intros Hl Eo Hr. apply Hl. unfold rint, replaced_internal. apply filter_In.
    split; [apply tainted_incl; exact Hr|rewrite Eo; reflexivity].
  Qed.

  Lemma subst_step l g s :
    dget (gates new) l = Some g -> (forall op, In op (gops g) -> In op s) ->
    closed_in new s -> (forall x, In x s -> keeps x) -> keeps l.
  Proof.
    destruct subst_parts as (_ & Hleaves & Husers & Hstep).
    intros Hg Hops Hcl Hp Hl v Hev.
    destruct (memb l outs) eqn:Eo.
    - destruct Hvec as (w & Hw & Hold).
      destruct (check_step_sound _ _ _ _ _ Hstep w Hw l (proj1 (memb_In _ _) Eo)) as (b & H1 & H2).
      pose proof (ConeEval_Eval _ _ _ _ _ _ Hold H1) as E1.
      rewrite (Eval_functional _ _ _ _ _ Hev E1).
      assert (forall x b', ConeEval new (combine leaves w) x b' ->
                           In x s \/ x = l -> Eval new a x (inj b')) as Hcone.
      { intros x b' Hc.
        induction Hc as [x b' Hb|x g' bs b' Hb Hg' Hcs IH Hd] using ConeEval_ind2; intros Hx.
        - apply dget_In in Hb.
          pose proof (Forall2_combine_In _ _ _ _ _ Hold Hb) as Hxo.
          apply in_combine_l in Hb. destruct (Hleaves x Hb) as [Hxr Hxo'].
          destruct Hx as [Hx| ->]; [apply (Hp x Hx Hxr); exact Hxo|].
          exfalso. apply Hxo'. apply memb_In; exact Eo.
        - assert (forall op, In op (gops g') -> In op s) as Hin.
          { destruct Hx as [Hx| ->]; [intros op Hop; eapply Hcl; eassumption|].
            rewrite Hg in Hg'; injection Hg' as <-. exact Hops. }
          eapply EvalGate with (vs := map inj bs); [exact Hg'| | |].
          + intros Ht. rewrite Ht in Hd. discriminate.
          + clear -IH Hin. induction IH as [|y z ys zs Hyz _ IH']; simpl; constructor.
            * apply Hyz. left. apply Hin; left; reflexivity.
            * apply IH'. intros op Hop. apply Hin; right; exact Hop.
          + rewrite operator_of_den, Hd. reflexivity. }
      apply (Hcone l b H2). right; reflexivity.
    - pose proof (not_r l Hl Eo) as Hr.
      assert (~ In l outs) as Hlo by (apply memb_nIn; exact Eo).
      inversion Hev as [? g0 Hg0 Ht|? g0 vs ? Hg0 Ht Hvs Hop]; subst.
      + apply EvalInput with (g := g0); [eapply unchanged_gate; eassumption|exact Ht].
      + pose proof (unchanged_gate _ _ _ _ Hg0 Hr) as Hg0'.
        rewrite Hg in Hg0'; injection Hg0' as ->.
        eapply EvalGate with (g := g0); [exact Hg|exact Ht| |exact Hop].
        pose proof (Husers l g0 Hg0 Hl Hlo) as Hu.
        clear -Hvs Hu Hops Hp. induction Hvs as [|y z ys zs Hyz _ IH']; constructor.
        * apply (Hp y); [apply Hops; left; reflexivity|apply Hu; left; reflexivity|exact Hyz].
        * apply IH'; intros op Hop; [apply Hops|apply Hu]; right; exact Hop.
  Qed.

  Theorem surviving_gates_stable l v : ~ In l rint -> Eval old a l v -> Eval new a l v.
  Proof.
    destruct subst_parts as (Horder & Hleaves & _ & Hstep).
    destruct (frame_order_parts _ Horder) as (order & Hok & Hall).
    intros Hl Hev.
    assert (exists g, dget (gates new) l = Some g) as (g & Hg).
    { destruct (memb l outs) eqn:Eo.
      - destruct Hvec as (w & Hw & _).
        destruct (check_step_sound _ _ _ _ _ Hstep w Hw l (proj1 (memb_In _ _) Eo)) as (b & _ & H2).
        inversion H2 as [? ? Hb|? g ? ? _ Hg _ _]; subst; [|exists g; exact Hg].
        exfalso. apply dget_In, in_combine_l in Hb. destruct (Hleaves l Hb) as [_ Hn].
        apply Hn. apply memb_In; exact Eo.
      - pose proof (not_r l Hl Eo) as Hr.
        inversion Hev as [? g0 Hg0 _|? g0 ? ? Hg0 _ _ _]; subst; exists g0; eapply unchanged_gate; eassumption. }
    assert (In l order) as Hin by (apply Hall; eapply dget_In_keys; exact Hg).
    apply (ordered_induction new keeps subst_step order [] Hok); try assumption.
    - intros x gx [].
    - intros x [].
  Qed.
End Subst.

Lemma check_subst_scope old new leaves outs care :
  check_subst old new leaves outs care = true ->
  inputs new = inputs old /\ outputs new = outputs old /\
  forall o, In o (outputs old) -> ~ In o (replaced_internal old new outs).
Proof.
  unfold check_subst, check_frame, frame_scope. intros H.
  apply andb_true_iff in H. destruct H as [H _].
  apply andb_true_iff in H. destruct H as [_ H].
  apply andb_true_iff in H. destruct H as [H _].
  apply andb_true_iff in H. destruct H as [H H3].
  apply andb_true_iff in H. destruct H as [H1 H2].
  apply labels_eqb_eq in H1. apply labels_eqb_eq in H2.
  split; [congruence|]. split; [congruence|].
  intros o Ho. rewrite forallb_forall in H3. specialize (H3 o Ho).
  apply negb_true_iff in H3. apply memb_nIn; exact H3.
Qed.

(* The care-set substitution theorem, validator form.  old, new: the circuit before and
   after a replacement step; leaves: the cut; outs: the replaced cone outputs (same labels
   before and after).  If check_subst accepts, then under every assignment a for which the
   leaves carry (in old) a Boolean vector that was compared - any Boolean vector when
   care = None, a care-set vector otherwise - every gate of old that was not a replaced
   internal gate has in new the value it had in old. *)
Theorem care_set_substitution old new leaves outs care a :
  check_subst old new leaves outs care = true ->
  (exists v, compared (length leaves) care v /\
             Forall2 (fun l b => Eval old a l (inj b)) leaves v) ->
  forall l v, ~ In l (replaced_internal old new outs) -> Eval old a l v -> Eval new a l v.
Proof. intros Hc Hv l v. apply (surviving_gates_stable old new leaves outs care Hc a Hv). Qed.

(* consequence for the interface: same inputs, same outputs, and every circuit output keeps
   its value - an accepted step preserves the function of the circuit on those assignments *)
Theorem accepted_step_preserves_outputs old new leaves outs care :
  check_subst old new leaves outs care = true ->
  inputs new = inputs old /\ outputs new = outputs old /\
  forall a,
    (exists v, compared (length leaves) care v /\
               Forall2 (fun l b => Eval old a l (inj b)) leaves v) ->
    forall o v, In o (outputs old) -> Eval old a o v -> Eval new a o v.
Proof.
  intros Hc. destruct (check_subst_scope _ _ _ _ _ Hc) as (Hi & Ho & Hs).
  split; [exact Hi|]. split; [exact Ho|].
  intros a Hv o v Hin. apply (care_set_substitution _ _ _ _ _ _ Hc Hv). apply Hs; exact Hin.
Qed.
