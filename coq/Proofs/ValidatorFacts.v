(* C04: soundness of the step validator.
   check_step_map / check_step: acceptance implies that the listed outputs of the old and
   of the new cone have the same value under every compared leaf vector (cone semantics),
   hence the same circuit value (Sem.Eval) whenever the leaves carry such a vector.
   check_subst: the care-set substitution theorem - with the frame conditions, every gate
   that survives the step keeps its value under every assignment whose leaf vector is in
   the compared set. *)
Require Import Cirbo.Model.Base Cirbo.Model.Gate Cirbo.Model.Den Cirbo.Model.Circuit
        Cirbo.Model.Eval Cirbo.Model.Sem Cirbo.Model.ConeSem Cirbo.Model.PatternSim
        Cirbo.Model.SubcircuitValidator.
Require Import Cirbo.Generated.GateTypes.
Require Import Cirbo.Proofs.DictFacts Cirbo.Proofs.OpFacts Cirbo.Proofs.SemFacts
        Cirbo.Proofs.ConeFacts.

Lemma all_bool_vectors_complete : forall v, In v (all_bool_vectors (length v)).
Proof.
  induction v as [|b r IH]; simpl; [left; reflexivity|].
  apply in_or_app. destruct b; [right|left]; apply in_map; exact IH.
Qed.

Lemma vec_eqb_eq a b : vec_eqb a b = true <-> a = b.
Proof. apply all_eqb_eq. intros x y. destruct x, y; simpl; split; congruence. Qed.

Lemma vec_mem_In v K : vec_mem v K = true <-> In v K.
Proof.
  unfold vec_mem. rewrite existsb_exists. split.
  - intros (w & Hw & He). apply vec_eqb_eq in He. subst; exact Hw.
  - intros H. exists v. split; [exact H|apply vec_eqb_eq; reflexivity].
Qed.

Lemma compared_In k care v : compared k care v -> In v (step_vectors k care).
Proof.
  destruct care as [K|]; simpl; [tauto|]. intros <-. apply all_bool_vectors_complete.
Qed.

Theorem check_step_map_sound old new leaves outs care :
  check_step_map old new leaves outs care = true ->
  forall v, compared (length leaves) care v ->
  length v = length leaves /\
  forall o o', In (o, o') outs ->
    exists b, ConeEval old (combine (map fst leaves) v) o b /\
              ConeEval new (combine (map snd leaves) v) o' b.
Proof.
  intros Hc v Hv. unfold check_step_map in Hc. rewrite forallb_forall in Hc.
  specialize (Hc v (compared_In _ _ _ Hv)). unfold check_vector in Hc.
  apply andb_true_iff in Hc. destruct Hc as [Hlen Hall]. apply Nat.eqb_eq in Hlen.
  split; [exact Hlen|]. intros o o' Ho. rewrite forallb_forall in Hall.
  specialize (Hall _ Ho). cbn [fst snd] in Hall.
  destruct (cone_eval (cone_fuel old) old (combine (map fst leaves) v) o) as [b|] eqn:E1; [|discriminate].
  destruct (cone_eval (cone_fuel new) new (combine (map snd leaves) v) o') as [b'|] eqn:E2; [|discriminate].
  apply cone_eval_sound in E1. apply cone_eval_sound in E2.
  assert (b = b') as <- by (destruct b, b'; simpl in Hall; congruence).
  exists b. split; assumption.
Qed.

Lemma map_fst_dup ls : map fst (map dup ls) = ls.
Proof. rewrite map_map. simpl. apply map_id. Qed.
Lemma map_snd_dup ls : map snd (map dup ls) = ls.
Proof. rewrite map_map. simpl. apply map_id. Qed.

(* the validator of the task statement: same labels before and after *)
Theorem check_step_sound old new leaves outs care :
  check_step old new leaves outs care = true ->
  forall v, compared (length leaves) care v ->
  forall o, In o outs ->
    exists b, ConeEval old (combine leaves v) o b /\ ConeEval new (combine leaves v) o b.
Proof.
  intros Hc v Hv o Ho. unfold check_step in Hc.
  rewrite <- (map_length dup leaves) in Hv.
  destruct (check_step_map_sound _ _ _ _ _ Hc v Hv) as [_ H].
  rewrite map_fst_dup, map_snd_dup in H. apply (H o o). apply (in_map dup) in Ho. exact Ho.
Qed.

(* over the circuit semantics: if the leaves carry a compared vector in both circuits,
   each listed output has the same (Boolean) value in both *)
Theorem check_step_map_sound_Eval old new leaves outs care a a' v :
  check_step_map old new leaves outs care = true ->
  compared (length leaves) care v ->
  Forall2 (fun l b => Eval old a l (inj b)) (map fst leaves) v ->
  Forall2 (fun l b => Eval new a' l (inj b)) (map snd leaves) v ->
  forall o o', In (o, o') outs ->
    exists b, Eval old a o (inj b) /\ Eval new a' o' (inj b).
Proof.
  intros Hc Hv Hold Hnew o o' Ho.
  destruct (check_step_map_sound _ _ _ _ _ Hc v Hv) as [_ H].
  destruct (H o o' Ho) as (b & H1 & H2). exists b.
  split; eapply ConeEval_Eval; eassumption.
Qed.

(* ------------------------------------------------------------------ *)
(* the care-set substitution theorem *)

Lemma gate_opt_eqb_eq x y : gate_opt_eqb x y = true <-> x = y.
Proof.
  destruct x as [x|], y as [y|]; simpl; try (split; [discriminate|discriminate]); [|tauto].
  rewrite gate_eqb_eq. split; [intros ->; reflexivity|intros [= ->]; reflexivity].
Qed.

Lemma unchanged_gate old new l g :
  dget (gates old) l = Some g -> ~ In l (changed old new) -> dget (gates new) l = Some g.
Proof.
  intros Hg Hn. unfold changed in Hn. rewrite filter_In in Hn.
  destruct (gate_opt_eqb (dget (gates old) l) (dget (gates new) l)) eqn:E.
  - apply gate_opt_eqb_eq in E. congruence.
  - exfalso. apply Hn. split; [eapply dget_In_keys; exact Hg|reflexivity].
Qed.

Section Subst.
  Variables (old new : circuit) (leaves outs : list label) (care : option (list (list bool))).
  Hypothesis Hcheck : check_subst old new leaves outs care = true.

  Let r := changed old new.
  Let rint := replaced_internal old new outs.
  Let s := closure (closure_fuel old leaves) old leaves [].

  Lemma subst_parts :
    (forall l, In l leaves -> In l s) /\
    (forall l g, In l s -> dget (gates old) l = Some g -> forall o, In o (gops g) -> In o s) /\
    (forall l, In l s -> ~ In l r) /\
    (forall l g, dget (gates old) l = Some g -> ~ In l r -> forall o, In o (gops g) -> ~ In o rint) /\
    check_step old new leaves outs care = true.
  Proof.
    unfold check_subst, check_frame in Hcheck.
    apply andb_true_iff in Hcheck. destruct Hcheck as [Hf Hs].
    apply andb_true_iff in Hf. destruct Hf as [Hf _].
    apply andb_true_iff in Hf. destruct Hf as [Hf H].
    unfold frame_below in Hf. unfold frame_users in H. fold r rint s in Hf, H.
    apply andb_true_iff in Hf. destruct Hf as [Hf H0].
    apply andb_true_iff in Hf. destruct Hf as [Hf H1].
    unfold closedb in H1. rewrite forallb_forall in Hf, H, H0, H1.
    repeat split.
    - intros l Hl. apply memb_In. apply Hf; exact Hl.
    - intros l g Hl Hg o Ho. specialize (H1 l Hl). rewrite Hg in H1.
      rewrite forallb_forall in H1. apply memb_In. apply H1; exact Ho.
    - intros l Hl. specialize (H0 l Hl). apply negb_true_iff in H0. apply memb_nIn; exact H0.
    - intros l g Hg Hl o Ho. specialize (H (l, g) (dget_In _ _ _ Hg)). simpl in H.
      apply orb_true_iff in H. destruct H as [H|H]; [apply memb_In in H; contradiction|].
      rewrite forallb_forall in H. specialize (H o Ho). apply negb_true_iff in H.
      apply memb_nIn; exact H.
    - exact Hs.
  Qed.

  Variable a : assignment.

  (* gates below the leaves are untouched: they keep their values *)
  Lemma below_leaves_stable l v : In l s -> Eval old a l v -> Eval new a l v.
  Proof.
    destruct subst_parts as (_ & Hclosed & Hsr & _).
    intros Hl H; revert Hl.
    induction H as [l g Hg Ht|l g vs v Hg Ht Hops IH Hop] using Eval_ind2; intros Hl.
    - apply EvalInput with (g := g); [|exact Ht]. eapply unchanged_gate; [exact Hg|apply Hsr; exact Hl].
    - eapply EvalGate with (g := g); [eapply unchanged_gate; [exact Hg|apply Hsr; exact Hl]|exact Ht| |exact Hop].
      pose proof (Hclosed l g Hl Hg) as Hin. clear -IH Hin.
      induction IH as [|o w os ws Hw _ IH']; constructor.
      + apply Hw. apply Hin; left; reflexivity.
      + apply IH'. intros o' Ho'. apply Hin; right; exact Ho'.
  Qed.

  (* the leaves carry a compared vector under a (with care = None: any Boolean vector) *)
  Hypothesis Hvec : exists v, compared (length leaves) care v /\
                              Forall2 (fun l b => Eval old a l (inj b)) leaves v.

  Lemma outs_stable o v : In o outs -> Eval old a o v -> Eval new a o v.
  Proof.
    destruct subst_parts as (Hls & _ & _ & _ & Hstep).
    destruct Hvec as (w & Hw & Hold).
    intros Ho H.
    destruct (check_step_sound _ _ _ _ _ Hstep w Hw o Ho) as (b & H1 & H2).
    assert (forall ls ws, (forall l, In l ls -> In l s) ->
              Forall2 (fun l b => Eval old a l (inj b)) ls ws ->
              Forall2 (fun l b => Eval new a l (inj b)) ls ws) as Hgen.
    { intros ls ws Hin HF. induction HF as [|l0 b0 ls bs Hlb _ IH]; constructor.
      - apply below_leaves_stable; [apply Hin; left; reflexivity|exact Hlb].
      - apply IH. intros l' Hl'. apply Hin; right; exact Hl'. }
    pose proof (Hgen leaves w Hls Hold) as Hnew.
    pose proof (ConeEval_Eval _ _ _ _ _ _ Hold H1) as E1.
    rewrite (Eval_functional _ _ _ _ _ H E1).
    eapply ConeEval_Eval; eassumption.
  Qed.

  Theorem surviving_gates_stable l v : ~ In l rint -> Eval old a l v -> Eval new a l v.
  Proof.
    destruct subst_parts as (_ & _ & _ & Hframe & _).
    intros Hl H; revert Hl.
    induction H as [l g Hg Ht|l g vs v Hg Ht Hops IH Hop] using Eval_ind2; intros Hl.
    - destruct (memb l outs) eqn:Eo.
      + apply outs_stable; [apply memb_In; exact Eo|]. eapply EvalInput; eassumption.
      + assert (~ In l r) as Hr.
        { intros Hr. apply Hl. unfold rint, replaced_internal. apply filter_In.
          split; [exact Hr|rewrite Eo; reflexivity]. }
        apply EvalInput with (g := g); [|exact Ht]. eapply unchanged_gate; eassumption.
    - destruct (memb l outs) eqn:Eo.
      + apply outs_stable; [apply memb_In; exact Eo|]. eapply EvalGate; eassumption.
      + assert (~ In l r) as Hr.
        { intros Hr. apply Hl. unfold rint, replaced_internal. apply filter_In.
          split; [exact Hr|rewrite Eo; reflexivity]. }
        eapply EvalGate with (g := g); [eapply unchanged_gate; eassumption|exact Ht| |exact Hop].
        pose proof (Hframe l g Hg Hr) as Hin. clear -IH Hin.
        induction IH as [|o w os ws Hw _ IH']; constructor.
        * apply Hw. apply Hin; left; reflexivity.
        * apply IH'. intros o' Ho'. apply Hin; right; exact Ho'.
  Qed.
End Subst.

Lemma check_subst_scope old new leaves outs care :
  check_subst old new leaves outs care = true ->
  inputs new = inputs old /\ outputs new = outputs old /\
  forall o, In o (outputs old) -> ~ In o (replaced_internal old new outs).
Proof.
  unfold check_subst, check_frame, frame_scope. intros H.
  apply andb_true_iff in H. destruct H as [H _].
  apply andb_true_iff in H. destruct H as [_ H].
  apply andb_true_iff in H. destruct H as [H _].
  apply andb_true_iff in H. destruct H as [H H3].
  apply andb_true_iff in H. destruct H as [H1 H2].
  apply labels_eqb_eq in H1. apply labels_eqb_eq in H2.
  split; [congruence|]. split; [congruence|].
  intros o Ho. rewrite forallb_forall in H3. specialize (H3 o Ho).
  apply negb_true_iff in H3. apply memb_nIn; exact H3.
Qed.

(* The care-set substitution theorem, validator form.  old, new: the circuit before and
   after a replacement step; leaves: the cut; outs: the replaced cone outputs (same labels
   before and after).  If check_subst accepts, then under every assignment a for which the
   leaves carry (in old) a Boolean vector that was compared - any Boolean vector when
   care = None, a care-set vector otherwise - every gate of old that was not a replaced
   internal gate has in new the value it had in old. *)
Theorem care_set_substitution old new leaves outs care a :
  check_subst old new leaves outs care = true ->
  (exists v, compared (length leaves) care v /\
             Forall2 (fun l b => Eval old a l (inj b)) leaves v) ->
  forall l v, ~ In l (replaced_internal old new outs) -> Eval old a l v -> Eval new a l v.
Proof. intros Hc Hv l v. apply (surviving_gates_stable old new leaves outs care Hc a Hv). Qed.

(* consequence for the interface: same inputs, same outputs, and every circuit output keeps
   its value - an accepted step preserves the function of the circuit on those assignments *)
Theorem accepted_step_preserves_outputs old new leaves outs care :
  check_subst old new leaves outs care = true ->
  inputs new = inputs old /\ outputs new = outputs old /\
  forall a,
    (exists v, compared (length leaves) care v /\
               Forall2 (fun l b => Eval old a l (inj b)) leaves v) ->
    forall o v, In o (outputs old) -> Eval old a o v -> Eval new a o v.
Proof.
  intros Hc. destruct (check_subst_scope _ _ _ _ _ Hc) as (Hi & Ho & Hs).
  split; [exact Hi|]. split; [exact Ho|].
  intros a Hv o v Hin. apply (care_set_substitution _ _ _ _ _ _ Hc Hv). apply Hs; exact Hin.
Qed.
