(* Generated/ArithGen08.v, add_mul_wallace (translator T22) equals the hand model, part 5: the theorem. *)
Require Import Cirbo.Model.Base Cirbo.Model.Gate Cirbo.Model.Circuit Cirbo.Model.Builder Cirbo.Model.PyPrims.
Require Import Cirbo.Model.ArithSub Cirbo.Model.ArithSum2 Cirbo.Model.ArithSumN Cirbo.Model.ArithSumW.
Require Import Cirbo.Model.PyPrims08 Cirbo.Model.PyPrimsWal Cirbo.Model.ArithMul.
Require Import Cirbo.Generated.ArithTables Cirbo.Generated.ArithCells Cirbo.Generated.ArithGen08.
Require Import Cirbo.Proofs.ArithGen09Lib Cirbo.Proofs.ArithGen08Lib Cirbo.Proofs.ArithGen08A Cirbo.Proofs.ArithGen08B.
Require Import Cirbo.Proofs.ArithMulWallaceShape Cirbo.Proofs.ArithGen08WLib Cirbo.Proofs.ArithGen08WInit
  Cirbo.Proofs.ArithGen08WShape Cirbo.Proofs.ArithGen08WRound Cirbo.Proofs.ArithGen08WFinal.
From Coq Require Import ZArith Lia Ascii.
Open Scope Z_scope.

Lemma Z_of_nat_eqb_2 x : (Z.of_nat x =? 2) = (x =? 2)%nat.
Proof. destruct (Nat.eqb_spec x 2) as [->|H]; [reflexivity|]. apply Z.eqb_neq. lia. Qed.

Lemma py_range_0_length k : length (py_range 0 (Z.of_nat k)) = k.
Proof. rewrite py_range_0_nat, map_length, seq_length. reflexivity. Qed.

Lemma colsof_0 R : colsof 0 R = [].
Proof. reflexivity. Qed.

Theorem gen_add_mul_wallace_eq a0 b0 be : peq (gen_add_mul_wallace a0 b0 be) (add_mul_wallace a0 b0 be).
Proof.
  unfold gen_add_mul_wallace, add_mul_wallace. intros fresh s. cbv zeta.
  rewrite run_bind, run_if_rev2. cbv beta iota.
  set (a := rev_if be a0). set (b := rev_if be b0).
  unfold py_len.
  replace (length a0) with (length a) by apply rev_if_length.
  replace (length b0) with (length b) by apply rev_if_length.
  clearbody a b.
  rewrite run_bind.
  rewrite wal_nest_eq.
  2:{ intros i j R Hi Hj HW HL fr st. cbv beta. rs.
      rewrite (py_nth_ok_label _ j) by lia. rs.
      rewrite (py_nth_ok_label _ i) by lia. rs.
      change (TT false false false true) with tt_and.
      match goal with |- context [run fr (gate_tt tt_and ?x ?y) st] =>
        destruct (run fr (gate_tt tt_and x y) st) as [[g s1]|e]; rs; [|reflexivity] end.
      rewrite <- Nat2Z.inj_add.
      rewrite py_nth_colsof by lia. rs.
      rewrite py_set_col_of by lia. rs.
      rewrite py_set_colsof_upd2 by (try lia; apply (widths_nth _ _ _ HW); lia).
      rs. reflexivity. }
  rs. destruct (run fresh (pp_matrix a b) s) as [[cm s1]|e] eqn:E; rs; [|reflexivity].
  apply pp_matrix_returns in E.
  destruct (wallace_rows_okm a b cm E) as [[HW HG] HL].
  remember (length a) as n eqn:Hn. remember (length b) as m eqn:Hm.
  remember (wallace_rows 0 m cm) as R0 eqn:HR0. clear HR0 E cm.
  rewrite !Z_of_nat_eqb_1. rewrite <- !Nat2Z.inj_add.
  destruct (Nat.eqb_spec n 1) as [Hn1|Hn1].
  { rs. rewrite (mapP_range_seq _ (fun i => cell_at R0 i i)).
    - destruct (run fresh (mapP (fun i => cell_at R0 i i) (seq 0 m)) s1) as [[r s2]|e]; rs; [|reflexivity].
      rewrite gen_reverse_if_big_endian_run. reflexivity.
    - intros i Hi fr st. apply cell_at_get; [exact HW|lia]. }
  destruct (Nat.eqb_spec m 1) as [Hm1|Hm1].
  { rs. rewrite (mapP_range_seq _ (fun i => cell_at R0 0 i)).
    - destruct (run fresh (mapP (fun i => cell_at R0 0 i) (seq 0 n)) s1) as [[r s2]|e]; rs; [|reflexivity].
      rewrite gen_reverse_if_big_endian_run. reflexivity.
    - intros i Hi fr st. apply (cell_at_get fr (n + m) R0 0 i st); [exact HW|lia]. }
  rewrite Nat2Z.id.
  destruct (Nat.eqb_spec (n + m) 0) as [HN0|HN0].
  { rewrite HN0, colsof_0. destruct m as [|m']; [|lia]. cbn [py_while_m]. rs. reflexivity. }
  rewrite HL.
  Show.
Admitted.
