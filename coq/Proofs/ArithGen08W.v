(* Generated/ArithGen08.v, add_mul_wallace (translator T22) equals the hand model, part 5: the theorem. *)
Require Import Cirbo.Model.Base Cirbo.Model.Gate Cirbo.Model.Circuit Cirbo.Model.Builder Cirbo.Model.PyPrims.
Require Import Cirbo.Model.ArithSub Cirbo.Model.ArithSum2 Cirbo.Model.ArithSumN Cirbo.Model.ArithSumW.
Require Import Cirbo.Model.PyPrims08 Cirbo.Model.PyPrimsWal Cirbo.Model.ArithMul.
Require Import Cirbo.Generated.ArithTables Cirbo.Generated.ArithCells Cirbo.Generated.ArithGen08.
Require Import Cirbo.Proofs.ArithGen09Lib Cirbo.Proofs.ArithGen08Lib Cirbo.Proofs.ArithGen08A Cirbo.Proofs.ArithGen08B.
Require Import Cirbo.Proofs.ArithMulWallaceShape Cirbo.Proofs.ArithGen08WLib Cirbo.Proofs.ArithGen08WInit
  Cirbo.Proofs.ArithGen08WShape Cirbo.Proofs.ArithGen08WRound Cirbo.Proofs.ArithGen08WFinal.
From Coq Require Import ZArith Lia Ascii.
Open Scope Z_scope.

Lemma Z_of_nat_eqb_2 x : (Z.of_nat x =? 2) = (x =? 2)%nat.
Proof. destruct (Nat.eqb_spec x 2) as [->|H]; [reflexivity|]. apply Z.eqb_neq. lia. Qed.

Lemma py_range_0_length k : length (py_range 0 (Z.of_nat k)) = k.
Proof. rewrite py_range_0_nat, map_length, seq_length. reflexivity. Qed.

Lemma colsof_0 R : colsof 0 R = [].
Proof. reflexivity. Qed.

Lemma lt_len {A} (l : list A) k i : length l = k -> (i < k)%nat -> (i < length l)%nat.
Proof. intros <- H. exact H. Qed.

Lemma upd_same_val {A} (l : list A) i d x : nth i l d = x -> upd l i x = l.
Proof. intros <-. apply upd_nth_id. Qed.

Lemma upd2_same R r col : nth col (nth r R []) None = None -> upd2 R r col None = R.
Proof.
  intros H. unfold upd2. apply (upd_same_val R r []). symmetry. apply (upd_same_val _ col None). exact H.
Qed.

Lemma grp_put_none N R g col :
  nth col (nth (2 * g) R []) None = None -> nth (S col) (nth (2 * g + 1) R []) None = None ->
  grp_put N R g col None None = R.
Proof.
  intros H1 H2. unfold grp_put. rewrite (upd2_same R (2 * g) col H1).
  destruct (S col <? N)%nat; [apply upd2_same; exact H2|reflexivity].
Qed.

Lemma grp_put_nocarry N R g col x : nth (S col) (nth (2 * g + 1) R []) None = None ->
  grp_put N R g col x None = upd2 R (2 * g) col x.
Proof.
  intros H. unfold grp_put. destruct (S col <? N)%nat; [|reflexivity].
  apply upd2_same. unfold upd2 at 1. rewrite nth_upd_other by lia. exact H.
Qed.

Lemma py_range_3 r : py_range (Z.of_nat r) (Z.of_nat r + 3) = [Z.of_nat r; Z.of_nat (r + 1); Z.of_nat (r + 2)].
Proof.
  unfold py_range. replace (Z.of_nat r + 3 - Z.of_nat r) with 3 by lia.
  change (Z.to_nat 3) with 3%nat. cbn [seq map].
  replace (Z.of_nat r + Z.of_nat 0) with (Z.of_nat r) by lia.
  replace (Z.of_nat r + Z.of_nat 1) with (Z.of_nat (r + 1)) by lia.
  replace (Z.of_nat r + Z.of_nat 2) with (Z.of_nat (r + 2)) by lia. reflexivity.
Qed.

Lemma len_gt0_cons {A} (x : A) l : (Z.of_nat (length (x :: l)) >? 0) = true.
Proof. cbn [length]. apply Z.gtb_lt. lia. Qed.

Lemma upd_overflow {A} (l : list A) : forall i x, (length l <= i)%nat -> upd l i x = l.
Proof.
  induction l as [|y l IH]; intros [|i] x Hi; cbn [upd length] in *; try reflexivity; try lia. f_equal. apply IH. lia.
Qed.

Lemma widths_upd2 N R r col x : widths N R -> widths N (upd2 R r col x).
Proof.
  intros W. unfold upd2. destruct (Nat.lt_ge_cases r (length R)) as [H|H].
  - apply widths_upd; [exact W|]. rewrite upd_length. apply (widths_nth _ _ _ W H).
  - rewrite upd_overflow by exact H. exact W.
Qed.

(* reading cells of the matrix that is being reduced *)
Ltac rdc HGR Hcol :=
  repeat (first [ rewrite py_nth_colsof by exact Hcol
                | rewrite py_nth_col_of by lia
                | rewrite good_cell_test by (apply good_nth, goodm_nth; exact HGR)
                | match goal with E : nth _ (nth _ _ []) None = Some _ |- _ => rewrite E end ];
          cbn [is_some cell_label]; rs).

(* cn[col + i][2 g + i] = res[i] for i = 0 (always in range) and i = 1 (if col + 1 < N) *)
Ltac store0 HWc HLc Hcol :=
  rewrite Z.add_0_r, Z_ltb_nat;
  match goal with |- context [(?c <? ?n)%nat] => destruct (Nat.ltb_spec c n) as [_|?]; [|lia] end; rs;
  rewrite py_nth_0; cbn [nthP nth_res nth_error ret_res]; rs;
  rewrite py_nth_colsof by exact Hcol; rs;
  rewrite row_div3;
  match goal with |- context [2 * Z.of_nat ?g + 0] =>
    replace (2 * Z.of_nat g + 0) with (Z.of_nat (2 * g)) by lia end;
  rewrite py_set_col_of by lia; rs;
  rewrite py_set_colsof_upd2 by (try lia; apply (widths_nth _ _ _ HWc); lia); rs.

Lemma py_nth_col_of_0 R col : (0 < length R)%nat ->
  py_nth (col_of R col) 0 = Ret (cell_label (nth col (nth 0 R []) None)).
Proof. exact (py_nth_col_of R col 0). Qed.

Lemma py_nth_col_of_1 R col : (1 < length R)%nat ->
  py_nth (col_of R col) 1 = Ret (cell_label (nth col (nth 1 R []) None)).
Proof. exact (py_nth_col_of R col 1). Qed.

(* the inlined closure `_zero()` against [zero_call] *)
Ltac zero_tac a zs fr :=
  destruct zs as [|? ?]; cbn [py_truth negb zero_call]; rs;
  [ unfold mkzero; rs; destruct a as [|? ?];
    [ rewrite py_nth_0; cbn [nthP nth_res nth_error ret_res]; rs; reflexivity
    | rewrite py_nth_0; cbn [nthP nth_res nth_error ret_res]; rs;
      rewrite ?py_nth_0; cbn [nthP nth_res nth_error ret_res]; rs;
      change (TT false false false false) with tt_false;
      match goal with |- context [run fr (gate_tt tt_false ?x ?y) ?st] =>
        destruct (run fr (gate_tt tt_false x y) st) as [[? ?]|?]; rs; [|reflexivity] end;
      cbn [app]; rewrite py_nth_0; cbn [nthP nth_res nth_error ret_res]; rs; try reflexivity ]
  | rewrite py_nth_0; cbn [nthP nth_res nth_error ret_res]; rs; try reflexivity ].

Lemma Z_of_nat_S_eqb_0 k : (Z.of_nat (S k) =? 0) = false.
Proof. apply Z.eqb_neq. lia. Qed.

Theorem gen_add_mul_wallace_eq a0 b0 be : peq (gen_add_mul_wallace a0 b0 be) (add_mul_wallace a0 b0 be).
Proof.
  unfold gen_add_mul_wallace, add_mul_wallace. intros fresh s. cbv zeta.
  rewrite run_bind, run_if_rev2. cbv beta iota.
  set (a := rev_if be a0). set (b := rev_if be b0).
  unfold py_len.
  replace (length a0) with (length a) by apply rev_if_length.
  replace (length b0) with (length b) by apply rev_if_length.
  clearbody a b.
  rewrite run_bind.
  rewrite wal_nest_eq.
  2:{ intros i j R Hi Hj HW HL fr st. cbv beta. rs.
      rewrite (py_nth_ok_label _ j) by lia. rs.
      rewrite (py_nth_ok_label _ i) by lia. rs.
      change (TT false false false true) with tt_and.
      match goal with |- context [run fr (gate_tt tt_and ?x ?y) st] =>
        destruct (run fr (gate_tt tt_and x y) st) as [[g s1]|e]; rs; [|reflexivity] end.
      rewrite <- Nat2Z.inj_add.
      rewrite py_nth_colsof by lia. rs.
      rewrite py_set_col_of by lia. rs.
      rewrite py_set_colsof_upd2 by (try lia; apply (widths_nth _ _ _ HW); lia).
      rs. reflexivity. }
  rs. destruct (run fresh (pp_matrix a b) s) as [[cm s1]|e] eqn:E; rs; [|reflexivity].
  apply pp_matrix_returns in E.
  destruct (wallace_rows_okm a b cm E) as [[HW HG] HL].
  remember (length a) as n eqn:Hn. remember (length b) as m eqn:Hm.
  remember (wallace_rows 0 m cm) as R0 eqn:HR0. clear HR0 E cm.
  rewrite !Z_of_nat_eqb_1. rewrite <- !Nat2Z.inj_add.
  destruct (Nat.eqb_spec n 1) as [Hn1|Hn1].
  { rs. rewrite (mapP_range_seq _ (fun i => cell_at R0 i i)).
    - destruct (run fresh (mapP (fun i => cell_at R0 i i) (seq 0 m)) s1) as [[r s2]|e]; rs; [|reflexivity].
      rewrite gen_reverse_if_big_endian_run. reflexivity.
    - intros i Hi fr st. apply cell_at_get; [exact HW|lia]. }
  destruct (Nat.eqb_spec m 1) as [Hm1|Hm1].
  { rs. rewrite (mapP_range_seq _ (fun i => cell_at R0 0 i)).
    - destruct (run fresh (mapP (fun i => cell_at R0 0 i) (seq 0 n)) s1) as [[r s2]|e]; rs; [|reflexivity].
      rewrite gen_reverse_if_big_endian_run. reflexivity.
    - intros i Hi fr st. apply (cell_at_get fr (n + m) R0 0 i st); [exact HW|lia]. }
  rewrite Nat2Z.id.
  destruct (Nat.eqb_spec (n + m) 0) as [HN0|HN0].
  { rewrite HN0, colsof_0. destruct m as [|m']; [|lia]. cbn [py_while_m]. rs. reflexivity. }
  rewrite HL.
  assert (HN1 : (1 <= n + m)%nat) by lia.
  remember (n + m)%nat as NN eqn:HNN.
  rewrite run_bind.
  rewrite (wal_while_eq fresh NN); [ | exact HN1 | | | split; assumption ].
  2:{ (* the condition *)
      intros R st. cbv beta. rs. rewrite py_nth_colsof_0 by exact HN1. rs.
      rewrite col_of_length, Z_of_nat_eqb_2. reflexivity. }
  2:{ (* one pass *)
      intros R st [HWR HGR]. cbv beta.
      rewrite (wallace_round_groups R fresh st).
      rs.
      rewrite (mapP_const fresh _ (py_mul [PLACEHOLDER_STR] (2 * (Z.of_nat (length R) / 3)))).
      2:{ intros st'. rs. rewrite py_nth_colsof_0 by exact HN1. rs. rewrite col_of_length. reflexivity. }
      rewrite py_range_0_length, two_len_div3, py_mul_single.
      change Cirbo.Generated.ArithTables.PLACEHOLDER_STR with Cirbo.Model.ArithMul.PLACEHOLDER_STR.
      rewrite <- colsof_nones.
      rs. rewrite !py_nth_colsof_0 by exact HN1. rs. rewrite !col_of_length.
      rewrite len_sub_mod3, py_range_step3.
      assert (HGL : (3 * (length R / 3) <= length R)%nat) by (apply Nat.mul_div_le; lia).
      rewrite (groups_fold_eq fresh NN _ R (length R / 3) HN1 HWR HGL).
      2:{ (* one group *)
          intros g Rg sg Hg HWg HLg Hr1 Hr2. cbv beta. rewrite run_bind.
          rewrite (group_cols_eq fresh NN g _ (nth (3 * g) R []) (nth (3 * g + 1) R []) (nth (3 * g + 2) R []));
            [ | apply (widths_nth _ _ _ HWR); lia | apply (widths_nth _ _ _ HWR); lia | apply (widths_nth _ _ _ HWR); lia
              | | exact HWg | lia | exact Hr1 | exact Hr2 ].
          - destruct (run fresh (wallace_group (nth (3 * g) R []) (nth (3 * g + 1) R []) (nth (3 * g + 2) R [])) sg)
              as [[sc s2]|e]; rs; reflexivity.
          - (* one column *)
            intros Rc col sc Hcol HWc HLc Hn1c Hn2c. cbv beta.
            assert (H3 : (3 * g + 2 < length R)%nat) by lia.
            rewrite run_bind, py_range_3. cbn [foldP]. rs.
            rdc HGR Hcol.
            destruct (nth col (nth (3 * g) R []) None) as [lx|] eqn:Ex; cbn [is_some]; rs; rdc HGR Hcol;
            (destruct (nth col (nth (3 * g + 1) R []) None) as [ly|] eqn:Ey; cbn [is_some]; rs; rdc HGR Hcol;
             (destruct (nth col (nth (3 * g + 2) R []) None) as [lz|] eqn:Ez; cbn [is_some]; rs; rdc HGR Hcol));
            cbn [app]; unfold wallace_col; cbn [cell_list app].
            all: try rewrite len_gt0_cons.
            (* no gate in this column *)
            8:{ change (Z.of_nat (length (@nil string)) >? 0) with false. rs. cbn [fst snd].
                rewrite grp_put_none by assumption. reflexivity. }
            all: unfold py_add_sum_n_bits; rs;
              change (@cons string) with (@cons label); change (@nil string) with (@nil label);
              match goal with |- context [run ?fr (add_sum_n_bits (BEnum XAIG) false ?inp) ?st0] =>
                destruct (run fr (add_sum_n_bits (BEnum XAIG) false inp) st0) as [[res s2]|e] eqn:ES; rs; [|reflexivity] end;
              apply sum_small_spec in ES; cbv beta iota in ES.
            (* one gate: it is passed on *)
            4,6,7: destruct ES as [-> ->]; cbn [length fst snd];
              change (py_range 0 (Z.of_nat 1)) with [0]; cbn [foldP]; rs;
              store0 HWc HLc Hcol; rewrite grp_put_nocarry by exact Hn2c; reflexivity.
            (* two or three gates: sum and carry *)
            all: destruct ES as (sa & sb & -> & _ & _); cbn [length fst snd];
              change (py_range 0 (Z.of_nat 2)) with [0; 1]; cbn [foldP]; rs;
              store0 HWc HLc Hcol;
              replace (Z.of_nat col + 1) with (Z.of_nat (S col)) by lia; rewrite Z_ltb_nat; unfold grp_put; cbn [fst snd];
              destruct (Nat.ltb_spec (S col) NN) as [Hc1|Hc1]; rs; [|reflexivity];
              match goal with |- context [py_nth [?x; ?y] 1] => change (py_nth [x; y] 1) with (@Ret label y) end; rs;
              rewrite py_nth_colsof by exact Hc1; rs;
              match goal with |- context [2 * Z.of_nat ?g + 1] =>
                replace (2 * Z.of_nat g + 1) with (Z.of_nat (2 * g + 1)) by lia end;
              rewrite py_set_col_of by (rewrite upd2_length; lia); rs;
              rewrite py_set_colsof_upd2
                by first [ exact Hc1 | rewrite upd2_length; lia
                         | apply (widths_nth _ _ _ (widths_upd2 _ _ _ _ _ HWc)); rewrite upd2_length; lia ];
              rs; reflexivity. }
      destruct (run fresh (round_groups (length R / 3) R) st) as [[out s2]|e] eqn:ER; rs; [|reflexivity].
      rewrite !col_of_length, len_sub_mod3.
      rewrite (tail_rows_eq fresh NN _ R (3 * (length R / 3))); [ | | exact HGL ].
      2:{ intros r out' st' Hr. cbv beta. rewrite run_bind.
          rewrite (tail_cols_eq fresh NN _ (nth r R [])).
          - rs. reflexivity.
          - intros cn col st'' Hcol Hcn. cbv beta. rs.
            rewrite (py_nth_ok _ col []) by (apply (lt_len _ _ _ Hcn Hcol)). rs.
            rewrite py_nth_colsof by exact Hcol. rs.
            rewrite py_nth_col_of by lia. rs.
            rewrite py_set_nat by (apply (lt_len _ _ _ Hcn Hcol)). rs. reflexivity. }
      rs. reflexivity. }
  rs.
  destruct (run fresh (wallace_loop m R0) s1) as [[R' s2]|e] eqn:EL; rs; [|reflexivity].
  destruct (wallace_loop_ok NN HN1 m R0 (conj HW HG) fresh s1 R' s2 EL) as [[HW' HG'] HL'].
  destruct R' as [|r0 [|r1 [|? ?]]]; try discriminate HL'. clear HL' EL.
  assert (Hl0 : length r0 = NN) by exact (Forall_inv HW').
  assert (Hl1 : length r1 = NN) by exact (Forall_inv (Forall_inv_tail HW')).
  assert (G0 : good r0) by exact (Forall_inv HG').
  assert (G1 : good r1) by exact (Forall_inv (Forall_inv_tail HG')).
  change Cirbo.Generated.ArithTables.PLACEHOLDER_STR with Cirbo.Model.ArithMul.PLACEHOLDER_STR.
  (* _last_gate(0), _last_gate(1) *)
  rewrite (filter_m_eq fresh _ (fun z => is_some (nth (Z.to_nat z) r0 None))).
  2:{ intros x st Hx. rewrite py_range_0_nat in Hx. apply in_map_iff in Hx as (i & <- & Hi). apply in_seq in Hi.
      rs. rewrite py_nth_colsof by lia. rs. rewrite py_nth_col_of_0 by (cbn [length]; lia). rs. cbn [nth].
      rewrite good_cell_test by (apply good_nth; exact G0). rewrite Nat2Z.id. reflexivity. }
  rs. pose proof (last_gate_filter fresh r0) as LG0. rewrite Hl0 in LG0. rewrite LG0. clear LG0. rs.
  rewrite (filter_m_eq fresh _ (fun z => is_some (nth (Z.to_nat z) r1 None))).
  2:{ intros x st Hx. rewrite py_range_0_nat in Hx. apply in_map_iff in Hx as (i & <- & Hi). apply in_seq in Hi.
      rs. rewrite py_nth_colsof by lia. rs. rewrite py_nth_col_of_1 by (cbn [length]; lia). rs. cbn [nth].
      rewrite good_cell_test by (apply good_nth; exact G1). rewrite Nat2Z.id. reflexivity. }
  rs. pose proof (last_gate_filter fresh r1) as LG1. rewrite Hl1 in LG1. rewrite LG1. clear LG1. rs.
  (* the last loop *)
  match goal with |- context [foldP ?F (py_range 0 (Z.of_nat NN)) ([], [], 0, [])] =>
    pose proof (final_loop_eq fresh a r0 r1 NN F Hl0 Hl1) as HF end.
  match type of HF with ?P -> _ => assert (HP : P) end.
  { intros i st Hi fr st'. destruct st as [[[la lb] sh] zs]. cbv beta iota. unfold fin_step.
    rs. rewrite py_nth_colsof by lia. rs. rewrite py_nth_col_of_0 by (cbn [length]; lia). rs. cbn [nth].
    rewrite good_cell_test by (apply good_nth; exact G0).
    match goal with |- match run fr ?P1 st' with _ => _ end = match run fr ?Q1 st' with _ => _ end =>
      assert (H1 : run fr P1 st' = run fr Q1 st') end.
    { destruct (nth i r0 None) as [l0|] eqn:E0; cbn [is_some]; rs.
      - rewrite py_nth_col_of_0 by (cbn [length]; lia). rs. cbn [nth]. rewrite E0. reflexivity.
      - destruct (Z.of_nat i <? last_gate r0); rs; [|reflexivity].
        zero_tac a zs fr. }
    rewrite H1. clear H1.
    match goal with |- match run fr ?Q1 st' with _ => _ end = _ =>
      destruct (run fr Q1 st') as [[[la' zs'] st'']|e]; [|reflexivity] end.
    cbv beta iota. cbn [fst snd]. rs.
    rewrite py_nth_col_of_1 by (cbn [length]; lia). rs. cbn [nth].
    rewrite good_cell_test by (apply good_nth; exact G1).
    destruct (nth i r1 None) as [l1|] eqn:E1; cbn [is_some]; rs.
    - rewrite py_nth_col_of_1 by (cbn [length]; lia). rs. cbn [nth]. rewrite E1. reflexivity.
    - unfold py_len. destruct lb as [|b1 lb']; cbn [length].
      { change (Z.of_nat 0 =? 0) with true. rs. reflexivity. }
      rewrite !Z_of_nat_S_eqb_0. rs.
      destruct (Z.of_nat i <? last_gate r1); rs; [|reflexivity].
      zero_tac a zs' fr. }
  specialize (HF HP s2). clear HP.
  match goal with |- context [run fresh (foldP ?F ?l ?i) s2] =>
    remember (run fresh (foldP F l i) s2) as X eqn:EX end.
  destruct (run fresh (wallace_final a r0 r1) s2) as [[[[sh la] lb] s3]|e].
  - destruct HF as [zs HF].
    assert (EX' : X = Ok (la, lb, Z.of_nat sh, zs, s3)) by (rewrite EX; exact HF).
    rewrite EX'. clear HF EX EX' X. cbn [fst snd]. rs.
    rewrite py_shift_nat.
    destruct (run fresh (add_sum_two_numbers_with_shift sh la lb false) s3) as [[r s4]|e]; rs; [|reflexivity].
    rewrite py_slice_to, gen_reverse_if_big_endian_run. reflexivity.
  - assert (EX' : X = Err e) by (rewrite EX; exact HF). rewrite EX'. reflexivity.
Qed.
