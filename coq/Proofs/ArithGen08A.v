(* Generated/ArithGen08.v (translator T19) equals the hand model, part A: reverse_if_big_endian, the partial-product
   loops that store into c[i][j], add_mul_alter and add_mul of multiplication.py. *)
Require Import Cirbo.Model.Base Cirbo.Model.Gate Cirbo.Model.Circuit Cirbo.Model.Builder Cirbo.Model.PyPrims.
Require Import Cirbo.Model.ArithSub Cirbo.Model.ArithSum2 Cirbo.Model.ArithSumN Cirbo.Model.ArithSumW.
Require Import Cirbo.Model.PyPrims08 Cirbo.Model.ArithMul.
Require Import Cirbo.Generated.ArithTables Cirbo.Generated.ArithCells Cirbo.Generated.ArithGen08.
Require Import Cirbo.Proofs.ArithGen09Lib Cirbo.Proofs.ArithGen08Lib.
From Coq Require Import ZArith Lia Ascii.
Open Scope Z_scope.

Lemma gen_reverse_if_big_endian_run fresh l be s :
  run fresh (gen_reverse_if_big_endian l be) s = Ok (rev_if be l, s).
Proof. unfold gen_reverse_if_big_endian. cbv zeta. rs. rewrite run_if_rev1. rs. reflexivity. Qed.

(* ---- the adaptors on natural numbers ---------------------------------------------------------------------- *)
Lemma py_shift_nat fresh i a b be s :
  run fresh (py_add_sum_two_numbers_with_shift (Z.of_nat i) a b be) s
  = run fresh (add_sum_two_numbers_with_shift i a b be) s.
Proof.
  unfold py_add_sum_two_numbers_with_shift, py_nat_arg.
  destruct (Z.ltb_spec (Z.of_nat i) 0); [lia|]. rs. rewrite Nat2Z.id. reflexivity.
Qed.

(* ---- for i in range(m): for j in range(n): c[i][j] = add_gate_from_tt(a[j], b[i], '0001') -------------- *)
Lemma pp_row_length a bi : returns (pp_row a bi) (fun r => length r = length a).
Proof. apply mapP_returns_length. Qed.

Lemma pp_matrix_returns a b : returns (pp_matrix a b) (is_matrix (length b) (length a)).
Proof.
  intros fresh s r s' H. split.
  - eapply mapP_returns_length; exact H.
  - eapply (mapP_returns_Forall (pp_row a) (fun r => length r = length a)); [|exact H].
    intros x _. apply pp_row_length.
Qed.

Lemma pp_nest_eq (H : Z -> list (list label) -> Z -> prog (list (list label))) (a b : list label) :
  (forall i j c, (i < length b)%nat -> (j < length a)%nat -> is_matrix (length b) (length a) c ->
     peq (H (Z.of_nat i) c (Z.of_nat j))
         (bdo g <- gate_tt tt_and (nth j a ""%string) (nth i b ""%string);
          Ret (upd c i (upd (nth i c []) j g)))) ->
  peq (foldP (fun c i => bdo c <- foldP (H i) (py_range 0 (Z.of_nat (length a))) c; Ret c)
             (py_range 0 (Z.of_nat (length b)))
             (map (fun _ : Z => py_mul [PLACEHOLDER_STR] (Z.of_nat (length a))) (py_range 0 (Z.of_nat (length b)))))
      (pp_matrix a b).
Proof.
  intros HH.
  rewrite py_range_0_nat.
  eapply peq_trans.
  { apply (rows_fold_gen _ (pp_row a) (fun c i row => upd c i row) (is_matrix (length b) (length a)) (fun r => length r = length a) b).
    - intros x. apply pp_row_length.
    - intros c i row Hc _ Hr. apply is_matrix_upd; assumption.
    - intros c i Hi Hc fresh s. cbv beta. rs.
      rewrite (row_fold_gen _ (fun aj => gate_tt tt_and aj (nth i b ""%string))
                 (fun c j g => upd c i (upd (nth i c []) j g)) (is_matrix (length b) (length a)) a (length a));
        [ | lia | | | lia | exact Hc ].
      + cbn [skipn]. rewrite firstn_all. fold (pp_row a (nth i b ""%string)). rs.
        destruct (run fresh (pp_row a (nth i b ""%string)) s) as [[row s1]|e] eqn:E; rs; [|reflexivity].
        apply pp_row_length in E. destruct Hc as [Hl Hf].
        rewrite put_row_full; [reflexivity|lia|].
        rewrite (is_matrix_row (length b) (length a)) by (try split; assumption). exact E.
      + intros c' j g Hc' Hj. apply is_matrix_upd; [exact Hc'|].
        rewrite upd_length. apply (is_matrix_row (length b) (length a)); assumption.
      + intros c' j Hj Hc'. apply HH; assumption.
    - lia.
    - apply placeholder_matrix. }
  cbn [skipn]. intros fresh s. rs. unfold pp_matrix.
  destruct (run fresh (mapP (pp_row a) b) s) as [[rows s1]|e] eqn:E; rs; [|reflexivity].
  apply mapP_returns_length in E.
  rewrite put_rows_upd.
  - reflexivity.
  - rewrite map_length. unfold py_range. rewrite map_length, seq_length. lia.
Qed.

(* the body of the loops as the generated code spells it *)
Ltac pp_body :=
  let i := fresh "i" in let j := fresh "j" in let c := fresh "c" in
  let Hi := fresh "Hi" in let Hj := fresh "Hj" in let Hc := fresh "Hc" in
  let fr := fresh "fresh" in let st := fresh "s" in
  intros i j c Hi Hj Hc fr st; cbv beta; rs;
  rewrite (py_nth_ok_label _ j) by lia; rs;
  rewrite (py_nth_ok_label _ i) by lia; rs;
  change (TT false false false true) with tt_and;
  match goal with |- context [run fr (gate_tt tt_and ?x ?y) st] =>
    destruct (run fr (gate_tt tt_and x y) st) as [[? ?]|?]; rs; [|reflexivity] end;
  rewrite (py_nth_ok c i []) by (destruct Hc; lia); rs;
  rewrite py_set_nat by (erewrite is_matrix_row by (try eassumption; lia); lia); rs;
  rewrite py_set_nat by (destruct Hc; lia); rs.

(* ---- add_mul_alter ------------------------------------------------------------------------------------------ *)
Lemma alter_fold_eq (c : list (list label)) : forall rows i r, skipn i c = rows ->
  peq (foldP (fun res_py i => bdo ci <- py_nth c i;
                              bdo t <- py_add_sum_two_numbers_with_shift i res_py ci false;
                              let res_py := t in Ret res_py)
             (map Z.of_nat (seq i (length rows))) r)
      (alter_loop i r rows).
Proof.
  induction rows as [|ci rows IH]; intros i r Hs fresh s; cbn [length seq map foldP alter_loop]; rs; [reflexivity|].
  assert (Hi : (i < length c)%nat).
  { destruct (Nat.lt_ge_cases i (length c)) as [H|H]; [exact H|]. rewrite skipn_all2 in Hs by lia. discriminate. }
  rewrite (py_nth_ok c i []) by lia. rs.
  rewrite (skipn_nth c i []) in Hs by lia. inversion Hs as [[E1 E2]].
  rewrite py_shift_nat.
  destruct (run fresh (add_sum_two_numbers_with_shift i r (nth i c []) false) s) as [[r1 s1]|e]; rs; [|reflexivity].
  rewrite E2. apply IH. exact E2.
Qed.

Theorem gen_add_mul_alter_eq a0 b0 be : peq (gen_add_mul_alter a0 b0 be) (add_mul_alter a0 b0 be).
Proof.
  unfold gen_add_mul_alter, add_mul_alter. intros fresh s. cbv zeta.
  rewrite run_bind, run_if_rev2. cbv beta iota.
  set (a := rev_if be a0). set (b := rev_if be b0).
  unfold py_len.
  replace (length a0) with (length a) by apply rev_if_length.
  replace (length b0) with (length b) by apply rev_if_length.
  clearbody a b.
  rewrite run_bind.
  rewrite pp_nest_eq by (pp_body; reflexivity).
  rs. destruct (run fresh (pp_matrix a b) s) as [[c s1]|e] eqn:E; rs; [|reflexivity].
  apply pp_matrix_returns in E. destruct E as [Hl _].
  destruct c as [|c0 [|c1 rest]]; cbn [length] in Hl; rewrite <- Hl.
  - cbn. reflexivity.
  - cbn [Z.of_nat Pos.of_succ_nat Z.eqb Pos.eqb]. rs. rewrite py_nth_0. cbn [nthP nth_res nth_error ret_res]. rs.
    rewrite gen_reverse_if_big_endian_run. reflexivity.
  - destruct (Z.eqb_spec (Z.of_nat (S (S (length rest)))) 1) as [H|_]; [lia|]. cbn [alter_loop]. rs.
    rewrite py_nth_0. cbn [nthP nth_res nth_error ret_res]. rs.
    rewrite (py_nth_ok _ 1 []) by (cbn [length]; lia). rs. cbn [nth].
    rewrite (py_shift_nat fresh 1).
    destruct (run fresh (add_sum_two_numbers_with_shift 1 c0 c1 false) s1) as [[r s2]|e]; rs; [|reflexivity].
    rewrite (py_range_nat 2).
    replace (S (S (length rest)) - 2)%nat with (length rest) by lia.
    rewrite (alter_fold_eq (c0 :: c1 :: rest) rest 2 r) by reflexivity.
    destruct (run fresh (alter_loop 2 r rest) s2) as [[r2 s3]|e]; rs; [|reflexivity].
    rewrite gen_reverse_if_big_endian_run. reflexivity.
Qed.

(* ---- add_mul: the loops also log (i + j, c[i][j]) ------------------------------------------------------------- *)
Fixpoint zrow_weights (lev : Z) (row : list label) : list (Z * label) :=
  match row with
  | [] => []
  | x :: r => (lev, x) :: zrow_weights (lev + 1) r
  end.
Fixpoint zmatrix_weights (lev : Z) (c : list (list label)) : list (Z * label) :=
  match c with
  | [] => []
  | row :: rest => zrow_weights lev row ++ zmatrix_weights (lev + 1) rest
  end.

Definition wstate : Type := (list (list label) * list (Z * label))%type.

Lemma put_row_w (i : nat) : forall row (c : list (list label)) (pw : list (Z * label)) j,
  put_row (fun (s : wstate) j g => (upd (fst s) i (upd (nth i (fst s) []) j g),
                                    snd s ++ [(Z.of_nat i + Z.of_nat j, g)])) (c, pw) j row
  = (put_row (fun c j g => upd c i (upd (nth i c []) j g)) c j row,
     pw ++ zrow_weights (Z.of_nat i + Z.of_nat j) row).
Proof.
  induction row as [|g row IH]; intros c pw j; cbn [put_row zrow_weights fst snd].
  - rewrite app_nil_r. reflexivity.
  - rewrite IH. rewrite <- app_assoc. cbn [app].
    replace (Z.of_nat i + Z.of_nat (S j)) with (Z.of_nat i + Z.of_nat j + 1) by lia. reflexivity.
Qed.

Lemma put_rows_w : forall rows (c : list (list label)) (pw : list (Z * label)) i,
  put_rows (fun (s : wstate) i row => (upd (fst s) i row, snd s ++ zrow_weights (Z.of_nat i) row)) (c, pw) i rows
  = (put_rows (fun c i row => upd c i row) c i rows, pw ++ zmatrix_weights (Z.of_nat i) rows).
Proof.
  induction rows as [|row rows IH]; intros c pw i; cbn [put_rows zmatrix_weights fst snd].
  - rewrite app_nil_r. reflexivity.
  - rewrite IH. rewrite <- app_assoc.
    replace (Z.of_nat (S i)) with (Z.of_nat i + 1) by lia. reflexivity.
Qed.

Lemma pp_nest_w_eq (H : Z -> wstate -> Z -> prog wstate) (a b : list label) :
  (forall i j c pw, (i < length b)%nat -> (j < length a)%nat -> is_matrix (length b) (length a) c ->
     peq (H (Z.of_nat i) (c, pw) (Z.of_nat j))
         (bdo g <- gate_tt tt_and (nth j a ""%string) (nth i b ""%string);
          Ret (upd c i (upd (nth i c []) j g), pw ++ [(Z.of_nat i + Z.of_nat j, g)]))) ->
  peq (foldP (fun '(c, pw) i => bdo (c, pw) <- foldP (H i) (py_range 0 (Z.of_nat (length a))) (c, pw); Ret (c, pw))
             (py_range 0 (Z.of_nat (length b)))
             (map (fun _ : Z => py_mul [PLACEHOLDER_STR] (Z.of_nat (length a))) (py_range 0 (Z.of_nat (length b))), []))
      (bdo mat <- pp_matrix a b; Ret (mat, zmatrix_weights 0 mat)).
Proof.
  intros HH.
  rewrite py_range_0_nat.
  eapply peq_trans.
  { apply (rows_fold_gen _ (pp_row a)
             (fun (s : wstate) i row => (upd (fst s) i row, snd s ++ zrow_weights (Z.of_nat i) row))
             (fun s : wstate => is_matrix (length b) (length a) (fst s)) (fun r => length r = length a) b).
    - intros x. apply pp_row_length.
    - intros [c pw] i row Hc _ Hr. cbn [fst] in *. apply is_matrix_upd; assumption.
    - intros [c pw] i Hi Hc fresh s. cbn [fst snd] in *. cbv beta iota. rs.
      rewrite (row_fold_gen _ (fun aj => gate_tt tt_and aj (nth i b ""%string))
                 (fun (s : wstate) j g => (upd (fst s) i (upd (nth i (fst s) []) j g),
                                           snd s ++ [(Z.of_nat i + Z.of_nat j, g)]))
                 (fun s : wstate => is_matrix (length b) (length a) (fst s)) a (length a));
        [ | lia | | | lia | exact Hc ].
      + cbn [skipn]. rewrite firstn_all. fold (pp_row a (nth i b ""%string)). rs.
        destruct (run fresh (pp_row a (nth i b ""%string)) s) as [[row s1]|e] eqn:E; rs; [|reflexivity].
        apply pp_row_length in E. destruct Hc as [Hl Hf].
        rewrite put_row_w. rewrite put_row_full; [rewrite Z.add_0_r; reflexivity|lia|].
        rewrite (is_matrix_row (length b) (length a)) by (try split; assumption). exact E.
      + intros [c' pw'] j g Hc' Hj. cbn [fst] in *. apply is_matrix_upd; [exact Hc'|].
        rewrite upd_length. apply (is_matrix_row (length b) (length a)); assumption.
      + intros [c' pw'] j Hj Hc'. cbn [fst snd] in *. apply HH; assumption.
    - lia.
    - cbn [fst]. apply placeholder_matrix. }
  cbn [skipn]. intros fresh s. rs. unfold pp_matrix.
  destruct (run fresh (mapP (pp_row a) b) s) as [[rows s1]|e] eqn:E; rs; [|reflexivity].
  apply mapP_returns_length in E.
  rewrite put_rows_w, put_rows_upd.
  - reflexivity.
  - rewrite map_length. unfold py_range. rewrite map_length, seq_length. lia.
Qed.

Lemma zrow_weights_witems fresh s : forall row (lev : N) rest wrest,
  run fresh (py_witems rest) s = Ok (wrest, s) ->
  run fresh (py_witems (zrow_weights (Z.of_N lev) row ++ rest)) s = Ok (row_weights lev row ++ wrest, s).
Proof.
  induction row as [|x row IH]; intros lev rest wrest Hr; cbn [zrow_weights row_weights app py_witems].
  - exact Hr.
  - destruct (Z.ltb_spec (Z.of_N lev) 0); [lia|]. rs.
    replace (Z.of_N lev + 1) with (Z.of_N (N.succ lev)) by lia.
    rewrite (IH (N.succ lev) rest wrest Hr). rs. rewrite N2Z.id. reflexivity.
Qed.

Lemma zmatrix_weights_witems fresh s : forall c (lev : N),
  run fresh (py_witems (zmatrix_weights (Z.of_N lev) c)) s = Ok (matrix_weights lev c, s).
Proof.
  induction c as [|row c IH]; intros lev; cbn [zmatrix_weights matrix_weights].
  - reflexivity.
  - apply zrow_weights_witems. replace (Z.of_N lev + 1) with (Z.of_N (N.succ lev)) by lia. apply IH.
Qed.

Theorem gen_add_mul_eq a0 b0 be : peq (gen_add_mul a0 b0 be) (add_mul a0 b0 be).
Proof.
  unfold gen_add_mul, add_mul. intros fresh s. cbv zeta.
  rewrite run_bind, run_if_rev2. cbv beta iota.
  set (a := rev_if be a0). set (b := rev_if be b0).
  unfold py_len.
  replace (length a0) with (length a) by apply rev_if_length.
  replace (length b0) with (length b) by apply rev_if_length.
  clearbody a b.
  rewrite run_bind.
  rewrite pp_nest_w_eq.
  2:{ intros i j c pw Hi Hj Hc fr st. cbv beta iota. rs.
      rewrite (py_nth_ok_label _ j) by lia; rs.
      rewrite (py_nth_ok_label _ i) by lia; rs.
      change (TT false false false true) with tt_and.
      match goal with |- context [run fr (gate_tt tt_and ?x ?y) st] =>
        destruct (run fr (gate_tt tt_and x y) st) as [[g s1]|?]; rs; [|reflexivity] end.
      rewrite (py_nth_ok c i []) by (destruct Hc; lia); rs.
      rewrite py_set_nat by (erewrite is_matrix_row by (try eassumption; lia); lia); rs.
      rewrite py_set_nat by (destruct Hc; lia); rs.
      rewrite (py_nth_ok _ i []) by (rewrite upd_length; destruct Hc; lia); rs.
      rewrite nth_upd_same by (destruct Hc; lia).
      rewrite (py_nth_ok_label _ j) by (rewrite upd_length; erewrite is_matrix_row by (try eassumption; lia); lia); rs.
      rewrite nth_upd_same by (erewrite is_matrix_row by (try eassumption; lia); lia).
      reflexivity. }
  rs. destruct (run fresh (pp_matrix a b) s) as [[c s1]|e]; rs; [|reflexivity].
  unfold py_add_sum_n_weighted_bits. rs.
  change (zmatrix_weights 0 c) with (zmatrix_weights (Z.of_N 0) c).
  rewrite (zmatrix_weights_witems fresh s1 c 0). rs.
  destruct (run fresh (add_sum_n_weighted_bits (BEnum XAIG) (matrix_weights 0 c)) s1) as [[out s2]|e]; rs; [|reflexivity].
  rewrite gen_reverse_if_big_endian_run. reflexivity.
Qed.
