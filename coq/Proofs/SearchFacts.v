(* Basic facts about the pieces of the exact-synthesis model (Model/Search.v):
   combinations, the pairwise exactly-one encoding, satisfaction of clause lists,
   evaluation of circuits of the searched shape, and the decoder's loops. *)
Require Import Cirbo.Model.Base Cirbo.Model.Gate Cirbo.Model.Den Cirbo.Model.Search.
From Coq Require Import FinFun.
Local Open Scope nat_scope.

(* ---------- decidable equalities ----------------------------------- *)
Lemma var_eq_dec (u v : var) : {u = v} + {u <> v}.
Proof. decide equality; try apply Nat.eq_dec; apply Bool.bool_dec. Qed.

Lemma var_eqb_eq u v : var_eqb u v = true <-> u = v.
Proof.
  destruct u, v; simpl; try (split; [discriminate|discriminate]);
    rewrite ?andb_true_iff, ?Nat.eqb_eq, ?Bool.eqb_true_iff;
    (split; [intuition congruence|inversion 1; auto]).
Qed.

Lemma tt4_eqb_eq' s t : tt4_eqb s t = true <-> s = t.
Proof.
  destruct s as [[[a b] c] d], t as [[[a' b'] c'] d']; unfold tt4_eqb.
  rewrite !andb_true_iff, !Bool.eqb_true_iff.
  split; [intros [[[-> ->] ->] ->]; reflexivity|inversion 1; auto].
Qed.

Lemma tt4_eq_dec (s t : tt4) : {s = t} + {s <> t}.
Proof. repeat decide equality. Qed.

Lemma mem_tt_In t l : mem_tt t l = true <-> In t l.
Proof.
  unfold mem_tt. rewrite existsb_exists. split.
  - intros [x [Hx E]]. apply tt4_eqb_eq' in E. subst. exact Hx.
  - intros H. exists t. split; [exact H|apply tt4_eqb_eq'; reflexivity].
Qed.

Lemma tt_get_tuple (f : bool -> bool -> bool) p q :
  tt_get (f false false, f false true, f true false, f true true) p q = f p q.
Proof. destruct p, q; reflexivity. Qed.

Lemma tt4_ext (s t : tt4) : (forall p q, tt_get s p q = tt_get t p q) -> s = t.
Proof.
  destruct s as [[[a b] c] d], t as [[[a' b'] c'] d']. intros H.
  pose proof (H false false). pose proof (H false true). pose proof (H true false). pose proof (H true true).
  simpl in *. congruence.
Qed.

Lemma tt4_eta (t : tt4) : (tt_get t false false, tt_get t false true, tt_get t true false, tt_get t true true) = t.
Proof. destruct t as [[[a b] c] d]. reflexivity. Qed.

Lemma in_bools b : In b bools.
Proof. destruct b; simpl; auto. Qed.

Lemma in_pq4 p q : In (p, q) pq4.
Proof. destruct p, q; simpl; auto 6. Qed.

(* ---------- lists -------------------------------------------------- *)
Lemma NoDup_app_intro {A} (l1 l2 : list A) :
  NoDup l1 -> NoDup l2 -> (forall x, In x l1 -> ~ In x l2) -> NoDup (l1 ++ l2).
Proof.
  induction l1 as [|a l1 IH]; simpl; intros H1 H2 H; [exact H2|].
  inversion H1 as [|? ? Hnin Hnd']; subst. constructor.
  - rewrite in_app_iff. intros [Hi|Hi]; [contradiction|]. apply (H a); [left; reflexivity|exact Hi].
  - apply IH; auto.
Qed.

Lemma in_comb2 {A} (l : list A) x y : In (x, y) (comb2 l) -> In x l /\ In y l.
Proof.
  induction l as [|a l IH]; simpl; [tauto|].
  rewrite in_app_iff, in_map_iff. intros [[z [E Hz]]|H].
  - inversion E; subst. auto.
  - apply IH in H. tauto.
Qed.

Lemma comb2_neq {A} (l : list A) x y : NoDup l -> In (x, y) (comb2 l) -> x <> y.
Proof.
  induction l as [|a l IH]; simpl; [tauto|]. intros Hnd. inversion Hnd as [|? ? Hnin Hnd']; subst.
  rewrite in_app_iff, in_map_iff. intros [[z [E Hz]]|H].
  - inversion E; subst. intros ->. contradiction.
  - apply IH; assumption.
Qed.

Lemma NoDup_comb2 {A} (l : list A) : NoDup l -> NoDup (comb2 l).
Proof.
  induction l as [|a l IH]; simpl; intros Hnd; [constructor|]. inversion Hnd as [|? ? Hnin Hnd']; subst.
  apply NoDup_app_intro.
  - apply Injective_map_NoDup; [intros u v E; inversion E; reflexivity|assumption].
  - apply IH; assumption.
  - intros [u v] Hi1 Hi2. apply in_map_iff in Hi1. destruct Hi1 as [z [E Hz]]. inversion E; subst.
    apply in_comb2 in Hi2. tauto.
Qed.

Lemma comb2_total {A} (l : list A) x y :
  In x l -> In y l -> x <> y -> In (x, y) (comb2 l) \/ In (y, x) (comb2 l).
Proof.
  induction l as [|a l IH]; simpl; [tauto|]. intros [->|Hx] [->|Hy] Hne.
  - congruence.
  - left. apply in_app_iff. left. apply in_map. exact Hy.
  - right. apply in_app_iff. left. apply in_map. exact Hx.
  - destruct (IH Hx Hy Hne); [left|right]; apply in_app_iff; right; assumption.
Qed.

Lemma comb2_map {A B} (f : A -> B) (l : list A) :
  comb2 (map f l) = map (fun ab => (f (fst ab), f (snd ab))) (comb2 l).
Proof.
  induction l as [|a l IH]; simpl; [reflexivity|].
  rewrite map_app, !map_map, IH. reflexivity.
Qed.

Lemma in_comb2_seq s k a b : In (a, b) (comb2 (seq s k)) <-> s <= a /\ a < b /\ b < s + k.
Proof.
  revert s; induction k as [|k IH]; intros s; simpl; [lia|].
  rewrite in_app_iff, in_map_iff, IH. split.
  - intros [[z [E Hz]]|H]; [|lia]. inversion E; subst. apply in_seq in Hz. lia.
  - intros H. destruct (Nat.eq_dec a s) as [->|Hne].
    + left. exists b. split; [reflexivity|]. apply in_seq. lia.
    + right. lia.
Qed.

Lemma in_pairs g a b : In (a, b) (pairs g) <-> a < b /\ b < g.
Proof. unfold pairs. rewrite in_comb2_seq. lia. Qed.

Lemma NoDup_pairs g : NoDup (pairs g).
Proof. apply NoDup_comb2, seq_NoDup. Qed.

Lemma in_internal sp g : In g (internal sp) <-> sp_n sp <= g < sp_n sp + sp_r sp.
Proof. unfold internal. rewrite in_seq. lia. Qed.

Lemma filter_unique {A} (f : A -> bool) (l : list A) x :
  NoDup l -> In x l -> f x = true -> (forall y, In y l -> f y = true -> y = x) -> filter f l = [x].
Proof.
  induction l as [|a l IH]; simpl; [tauto|]. intros Hnd [->|Hin] Hfx Hu.
  - rewrite Hfx. f_equal. inversion Hnd as [|? ? Hnin Hnd']; subst.
    assert (E : forall y, In y l -> f y = false).
    { intros y Hy. destruct (f y) eqn:Ey; [|reflexivity]. rewrite (Hu y (or_intror Hy) Ey) in Hy. contradiction. }
    clear -E. induction l as [|b l IH]; simpl; [reflexivity|].
    rewrite (E b (or_introl eq_refl)). apply IH. intros y Hy. apply E. right; exact Hy.
  - inversion Hnd as [|? ? Hnin Hnd']; subst. destruct (f a) eqn:Ea.
    + rewrite (Hu a (or_introl eq_refl) Ea) in Hnin. contradiction.
    + apply IH; auto.
Qed.

Lemma flat_map_single {A B} (f : A -> list B) (g : A -> B) (l : list A) :
  (forall x, In x l -> f x = [g x]) -> flat_map f l = map g l.
Proof.
  induction l as [|a l IH]; simpl; intros H; [reflexivity|].
  rewrite (H a (or_introl eq_refl)), IH; [reflexivity|]. intros x Hx. apply H. right; exact Hx.
Qed.

Lemma nth_error_map_seq {A} (f : nat -> A) s k i : i < k -> nth_error (map f (seq s k)) i = Some (f (s + i)).
Proof.
  intros H. apply map_nth_error. rewrite nth_error_nth' with (d := 0); [|rewrite seq_length; exact H].
  rewrite seq_nth; [reflexivity|exact H].
Qed.

Lemma mapM_total {A B} (f : A -> res B) (g : A -> B) (l : list A) :
  (forall x, In x l -> f x = Ok (g x)) -> mapM f l = Ok (map g l).
Proof.
  induction l as [|a l IH]; simpl; intros H; [reflexivity|].
  rewrite (H a (or_introl eq_refl)). simpl. rewrite IH; [reflexivity|]. intros x Hx. apply H. right; exact Hx.
Qed.

Lemma mapM_ok_inv {A B} (f : A -> res B) (l : list A) ys :
  mapM f l = Ok ys -> length ys = length l /\ forall i x, nth_error l i = Some x -> exists y, nth_error ys i = Some y /\ f x = Ok y.
Proof.
  revert ys; induction l as [|a l IH]; simpl; intros ys H.
  - inversion H; subst. split; [reflexivity|]. intros [|i] x E; discriminate.
  - apply bind_ok in H. destruct H as [y [Ey H]]. apply bind_ok in H. destruct H as [ys' [Eys H]].
    inversion H; subst. destruct (IH _ Eys) as [L N]. split; [simpl; congruence|].
    intros [|i] x E; simpl in *.
    + inversion E; subst. eauto.
    + apply N. exact E.
Qed.

(* ---------- satisfaction ------------------------------------------- *)
Lemma Sat_app s f g : Sat s (f ++ g) <-> Sat s f /\ Sat s g.
Proof.
  unfold Sat. split.
  - intros H. split; intros c Hc; apply H, in_app_iff; auto.
  - intros [H1 H2] c Hc. apply in_app_iff in Hc. destruct Hc; auto.
Qed.

Lemma Sat_flat_map {A} s (f : A -> list clause) l : Sat s (flat_map f l) <-> forall x, In x l -> Sat s (f x).
Proof.
  unfold Sat. split.
  - intros H x Hx c Hc. apply H, in_flat_map. eauto.
  - intros H c Hc. apply in_flat_map in Hc. destruct Hc as [x [Hx Hc]]. eauto.
Qed.

Lemma Sat_map {A} s (f : A -> clause) l : Sat s (map f l) <-> forall x, In x l -> clause_holds s (f x).
Proof.
  unfold Sat. split.
  - intros H x Hx. apply H, in_map, Hx.
  - intros H c Hc. apply in_map_iff in Hc. destruct Hc as [x [<- Hx]]. auto.
Qed.

Lemma Sat_cons s c f : Sat s (c :: f) <-> clause_holds s c /\ Sat s f.
Proof.
  unfold Sat; simpl. split.
  - intros H. split; [apply H; auto|intros; apply H; auto].
  - intros [H1 H2] d [<-|Hd]; auto.
Qed.

Lemma Sat_nil s : Sat s [].
Proof. intros c []. Qed.

Lemma unit_holds s b v : clause_holds s [(b, v)] <-> s v = b.
Proof.
  unfold clause_holds, lit_holds; simpl. split.
  - intros [l [[<-|[]] H]]. exact H.
  - intros H. exists (b, v). auto.
Qed.

Lemma lit_holdsb_spec s l : lit_holdsb s l = true <-> lit_holds s l.
Proof. unfold lit_holdsb, lit_holds. apply Bool.eqb_true_iff. Qed.

Lemma clause_holdsb_spec s c : clause_holdsb s c = true <-> clause_holds s c.
Proof.
  unfold clause_holdsb, clause_holds. rewrite existsb_exists.
  split; intros [l [H1 H2]]; exists l; (split; [exact H1|apply lit_holdsb_spec; exact H2]).
Qed.

Lemma satb_spec s f : satb s f = true <-> Sat s f.
Proof.
  unfold satb, Sat. rewrite forallb_forall.
  split; intros H c Hc; apply clause_holdsb_spec, H, Hc.
Qed.

Lemma has_empty_clause_unsat s f : has_empty_clause f = true -> ~ Sat s f.
Proof.
  unfold has_empty_clause. rewrite existsb_exists. intros [c [Hc E]] H.
  destruct c; [|discriminate]. destruct (H _ Hc) as [l [[] _]].
Qed.

(* ---------- the pairwise exactly-one encoding ---------------------- *)
Lemma exactly_one_sound s vs :
  Sat s (exactly_one (map pos vs)) ->
  exists v, In v vs /\ s v = true /\ forall w, In w vs -> s w = true -> w = v.
Proof.
  unfold exactly_one. rewrite Sat_cons. intros [[l [Hl Hh]] Hp].
  apply in_map_iff in Hl. destruct Hl as [v [<- Hv]]. unfold lit_holds in Hh; simpl in Hh.
  exists v. split; [exact Hv|]. split; [exact Hh|]. intros w Hw Hsw.
  destruct (var_eq_dec w v) as [E|Hne]; [exact E|exfalso].
  rewrite comb2_map, map_map, Sat_map in Hp.
  destruct (comb2_total vs w v Hw Hv Hne) as [Hin|Hin]; specialize (Hp _ Hin);
    destruct Hp as [l [Hl Hl']]; simpl in Hl; unfold lit_holds in Hl';
    destruct Hl as [<-|[<-|[]]]; simpl in Hl'; congruence.
Qed.

Lemma exactly_one_complete s vs v :
  NoDup vs -> In v vs -> s v = true -> (forall w, In w vs -> s w = true -> w = v) ->
  Sat s (exactly_one (map pos vs)).
Proof.
  intros Hnd Hv Hsv Hu. unfold exactly_one. rewrite Sat_cons. split.
  - exists (pos v). split; [apply in_map, Hv|exact Hsv].
  - rewrite comb2_map, map_map, Sat_map. intros [x y] Hxy. simpl.
    pose proof (comb2_neq _ _ _ Hnd Hxy) as Hne. apply in_comb2 in Hxy. destruct Hxy as [Hx Hy].
    destruct (s x) eqn:Ex.
    + destruct (s y) eqn:Ey.
      * exfalso. apply Hne. rewrite (Hu x Hx Ex), (Hu y Hy Ey). reflexivity.
      * exists (lneg (pos y)). split; [simpl; auto|exact Ey].
    + exists (lneg (pos x)). split; [simpl; auto|exact Ex].
Qed.

(* an empty candidate list gives the empty clause: unsatisfiable *)
Lemma exactly_one_nil s : ~ Sat s (exactly_one []).
Proof. intros H. destruct (H [] (or_introl eq_refl)) as [l [[] _]]. Qed.

(* ---------- the decoder's loops ------------------------------------ *)
Lemma find_last_keep {A} (f : A -> bool) (l : list A) x :
  (forall z, In z l -> f z = true -> z = x) ->
  fold_left (fun acc ab => if f ab then Some ab else acc) l (Some x) = Some x.
Proof.
  induction l as [|a l IH]; simpl; intros H; [reflexivity|].
  destruct (f a) eqn:Ea.
  - rewrite (H a (or_introl eq_refl) Ea). apply IH. intros z Hz. apply H. right; exact Hz.
  - apply IH. intros z Hz. apply H. right; exact Hz.
Qed.

Lemma find_last_unique {A} (f : A -> bool) (l : list A) x acc :
  In x l -> f x = true -> (forall z, In z l -> f z = true -> z = x) ->
  fold_left (fun acc ab => if f ab then Some ab else acc) l acc = Some x.
Proof.
  revert acc; induction l as [|a l IH]; simpl; intros acc Hin Hfx Hu; [tauto|].
  destruct Hin as [->|Hin].
  - rewrite Hfx. apply find_last_keep. intros z Hz. apply Hu. right; exact Hz.
  - apply IH; auto.
Qed.

Lemma find_pair_unique s g a b :
  a < b < g -> s (VS g a b) = true ->
  (forall a' b', a' < b' < g -> s (VS g a' b') = true -> a' = a /\ b' = b) ->
  find_pair s g = Some (a, b).
Proof.
  intros Hab Hs Hu. unfold find_pair.
  apply (find_last_unique (fun ab => s (VS g (fst ab) (snd ab)))).
  - apply in_pairs. lia.
  - exact Hs.
  - intros [a' b'] Hin Hs'. apply in_pairs in Hin. simpl in Hs'.
    destruct (Hu a' b') as [-> ->]; [lia|exact Hs'|reflexivity].
Qed.

(* ---------- evaluation --------------------------------------------- *)
Lemma eval_from_prefix gs : forall vals, exists suf,
  eval_from vals gs = vals ++ suf /\ length suf = length gs.
Proof.
  induction gs as [|g gs IH]; intros vals; simpl.
  - exists []. rewrite app_nil_r. auto.
  - destruct (IH (eval_step vals g)) as [suf [E L]]. unfold eval_step in E at 2. rewrite <- app_assoc in E.
    eexists. split; [exact E|]. simpl. rewrite L. reflexivity.
Qed.

Lemma eval_from_length vals gs : length (eval_from vals gs) = length vals + length gs.
Proof. destruct (eval_from_prefix gs vals) as [suf [-> L]]. rewrite app_length, L. reflexivity. Qed.

Lemma eval_from_nth_old vals gs j : j < length vals -> nth j (eval_from vals gs) false = nth j vals false.
Proof. intros H. destruct (eval_from_prefix gs vals) as [suf [-> _]]. apply app_nth1, H. Qed.

Lemma eval_from_nth_gate gs : forall vals i g,
  nth_error gs i = Some g -> ga g < length vals + i -> gb g < length vals + i ->
  nth (length vals + i) (eval_from vals gs) false =
  tt_get (gtt g) (nth (ga g) (eval_from vals gs) false) (nth (gb g) (eval_from vals gs) false).
Proof.
  induction gs as [|g0 gs IH]; intros vals i g E Ha Hb; [destruct i; discriminate|].
  destruct i as [|i]; simpl in E.
  - inversion E; subst g0. simpl. rewrite Nat.add_0_r in *.
    assert (L : length (eval_step vals g) = S (length vals)) by (unfold eval_step; rewrite app_length; simpl; lia).
    rewrite !eval_from_nth_old by lia.
    unfold eval_step. rewrite app_nth2 by lia. rewrite Nat.sub_diag. simpl.
    rewrite !app_nth1 by lia. reflexivity.
  - simpl.
    assert (L : length (eval_step vals g0) = S (length vals)) by (unfold eval_step; rewrite app_length; simpl; lia).
    replace (length vals + S i) with (length (eval_step vals g0) + i) by lia.
    apply IH; [exact E|lia|lia].
Qed.

Lemma input_vals_length n t : length (input_vals n t) = n.
Proof. unfold input_vals. rewrite map_length, seq_length. reflexivity. Qed.

Lemma value_input n gs t j : j < n -> value n gs t j = input_bit n j t.
Proof.
  intros H. unfold value. rewrite eval_from_nth_old by (rewrite input_vals_length; exact H).
  unfold input_vals. rewrite nth_indep with (d' := input_bit n 0 t) by (rewrite map_length, seq_length; exact H).
  rewrite map_nth with (d := 0). rewrite seq_nth by exact H. reflexivity.
Qed.

Lemma value_gate n gs t i g :
  nth_error gs i = Some g -> ga g < n + i -> gb g < n + i ->
  value n gs t (n + i) = tt_get (gtt g) (value n gs t (ga g)) (value n gs t (gb g)).
Proof.
  intros E Ha Hb. unfold value.
  pose proof (eval_from_nth_gate gs (input_vals n t) i g E) as H. rewrite input_vals_length in H.
  apply H; assumption.
Qed.

(* row t is not an all-don't-care row as soon as some output is defined there *)
Lemma out_at_live sp h t v : t < 2 ^ sp_n sp -> out_at sp h t = Some v -> In t (live_rows sp) /\ h < sp_m sp.
Proof.
  intros Ht E. unfold out_at in E.
  assert (Hh : h < sp_m sp).
  { unfold sp_m. destruct (Nat.lt_ge_cases h (length (sp_outs sp))) as [H|H]; [exact H|].
    rewrite (nth_overflow _ _ H) in E. destruct t; discriminate. }
  split; [|exact Hh]. unfold live_rows. apply filter_In. split; [apply in_seq; lia|].
  apply negb_true_iff. unfold all_dc. destruct (forallb _ _) eqn:F; [|reflexivity].
  rewrite forallb_forall in F. specialize (F (nth h (sp_outs sp) []) (nth_In _ _ Hh)).
  rewrite E in F. discriminate.
Qed.

Lemma in_live_rows sp t : In t (live_rows sp) -> t < 2 ^ sp_n sp.
Proof. unfold live_rows, rows. rewrite filter_In, in_seq. lia. Qed.
