(* From Eval to the entry points `evaluate` / `get_truth_table`: soundness of `evaluate` on a
   well formed circuit (from C01's evaluate_circuit_sound), the assignment built by zip_inputs,
   and a transfer lemma: two circuits whose `evaluate` results agree whenever both return have
   the same truth table whenever both `get_truth_table` calls return. *)
Require Import Cirbo.Model.Base Cirbo.Model.Gate Cirbo.Model.Circuit Cirbo.Model.Traverse
        Cirbo.Model.Eval Cirbo.Model.Sem Cirbo.Model.WF.
Require Import Cirbo.Proofs.DictFacts Cirbo.Proofs.WFBase Cirbo.Proofs.WFSimple Cirbo.Proofs.SemFacts
        Cirbo.Proofs.EvalFacts Cirbo.Proofs.SemExt.

(* ---------------- zip_inputs ---------------- *)
Lemma zip_inputs_keys ins : forall vals acc a,
  zip_inputs ins vals acc = Ok a ->
  forall l, dmem a l = true <-> (In l ins \/ dmem acc l = true).
Proof.
  induction ins as [|i ins IH]; simpl; intros vals acc a H l.
  - injection H as <-. tauto.
  - destruct vals as [|v vals]; [discriminate|]. rewrite (IH _ _ _ H l), dmem_dset.
    destruct (leqb_spec l i) as [->|Hne]; simpl; [tauto|]. split; [tauto|]. intros [[E|E]|E]; auto; congruence.
Qed.

Lemma zip_inputs_vals (P : st -> Prop) ins : forall vals acc a,
  zip_inputs ins vals acc = Ok a -> Forall P vals ->
  (forall l v, dget acc l = Some v -> P v) -> forall l v, dget a l = Some v -> P v.
Proof.
  induction ins as [|i ins IH]; simpl; intros vals acc a H HP Hacc l v Hl.
  - injection H as <-. eauto.
  - destruct vals as [|w vals]; [discriminate|]. inversion HP as [|? ? Pw HP']; subst.
    eapply (IH _ _ _ H HP'); [|exact Hl]. intros l' v' Hl'. rewrite dget_dset in Hl'.
    destruct (leqb l' i); [injection Hl' as <-; exact Pw|eauto].
Qed.

(* renaming the input labels by a function injective on a set S that contains them *)
Lemma zip_inputs_map (f : label -> label) (S : label -> Prop) :
  (forall x y, S x -> S y -> f x = f y -> x = y) ->
  forall ins vals acc acc' a,
    (forall i, In i ins -> S i) ->
    (forall l, S l -> dget acc' (f l) = dget acc l) ->
    zip_inputs ins vals acc = Ok a ->
    exists a', zip_inputs (map f ins) vals acc' = Ok a' /\ forall l, S l -> dget a' (f l) = dget a l.
Proof.
  intros Hinj. induction ins as [|i ins IH]; simpl; intros vals acc acc' a HS Hacc H.
  - injection H as <-. eauto.
  - destruct vals as [|v vals]; [discriminate|].
    apply (IH vals (dset acc i v) (dset acc' (f i) v) a); [auto| |exact H].
    intros l Hl. rewrite !dget_dset. destruct (leqb_spec l i) as [->|Hne].
    + rewrite leqb_refl; reflexivity.
    + destruct (leqb_spec (f l) (f i)) as [E|_]; [|apply Hacc, Hl].
      exfalso; apply Hne, Hinj; auto.
Qed.

(* ---------------- evaluate ---------------- *)
Lemma outputs_dict_get (d : assignment) outs : forall (acc ans : assignment),
  foldM (fun (acc : assignment) o => match dget d o with Some v => Ok (dset acc o v) | None => Err PyKeyError end)
        outs acc = Ok ans ->
  forall o, dget ans o = if memb o outs then dget d o else dget acc o.
Proof.
  induction outs as [|x outs IH]; simpl; intros acc ans H o; [injection H as <-; reflexivity|].
  destruct (dget d x) as [v|] eqn:Ex; simpl in H; [|discriminate].
  rewrite (IH _ _ H o), dget_dset. destruct (leqb_spec o x) as [->|Hne]; [|reflexivity].
  destruct (memb x outs); [|rewrite Ex]; reflexivity.
Qed.

Theorem evaluate_sound c vals r : WF c -> evaluate c vals = Ok r ->
  exists a, zip_inputs (inputs c) vals [] = Ok a /\ Forall2 (Eval c a) (outputs c) r.
Proof.
  intros W H. unfold evaluate in H. binv H a Ha. exists a; split; [exact Ha|].
  binv H ans Hans. unfold evaluate_circuit_outputs in Hans. binv Hans d Hd.
  assert (Hin : inputs_are_input_gates c) by (intros l Hl; apply (wf_inputs c W), Hl).
  assert (Hass : assigns_inputs_only c a).
  { intros l Hl. apply (zip_inputs_keys _ _ _ _ Ha) in Hl. destruct Hl as [Hl|Hl]; [exact Hl|discriminate]. }
  destruct (evaluate_circuit_sound _ c a None d Hin Hass Hd) as [_ Hout].
  pose proof (outputs_dict_get d (outputs c) [] ans Hans) as Hget.
  apply mapM_ok_Forall2 in H. eapply Forall2_impl_In; [exact H|].
  intros o v Ho Hv; simpl in Hv. rewrite Hget, (proj2 (memb_In _ _) Ho) in Hv.
  destruct (Hout o Ho) as (w & Hw & HE). rewrite Hw in Hv. injection Hv as <-. exact HE.
Qed.

(* a Boolean input vector gives a total assignment *)
Lemma zip_inputs_total c bs a : WF c -> zip_inputs (inputs c) (map inj bs) [] = Ok a -> total_on c a.
Proof.
  intros W Ha l g Hg Ht.
  assert (dmem a l = true) as Hm.
  { apply (zip_inputs_keys _ _ _ _ Ha). left. apply (wf_inputs c W); eauto. }
  unfold dmem in Hm. unfold aval. destruct (dget a l) as [v|] eqn:E; [|discriminate].
  apply (zip_inputs_vals (fun v => v <> U) _ _ _ _ Ha) with (l := l); [| |exact E].
  - apply Forall_forall. intros x Hx. apply in_map_iff in Hx. destruct Hx as (b & <- & _). destruct b; discriminate.
  - intros ? ? [=].
Qed.

(* ---------------- get_truth_table ---------------- *)
Lemma mapM_agree {A B} (f g : A -> res B) l r r' :
  (forall x y y', In x l -> f x = Ok y -> g x = Ok y' -> y = y') ->
  mapM f l = Ok r -> mapM g l = Ok r' -> r = r'.
Proof.
  revert r r'; induction l as [|x l IH]; simpl; intros r r' Hag Hf Hg.
  - congruence.
  - binv Hf y Hy. binv Hf ys Hys. injection Hf as <-. binv Hg y' Hy'. binv Hg ys' Hys'. injection Hg as <-.
    f_equal; [eapply Hag; eauto|apply IH; auto]. intros; eapply Hag; eauto.
Qed.

Theorem truth_table_agree c c' t t' :
  length (inputs c) = length (inputs c') -> length (outputs c) = length (outputs c') ->
  (forall bs r r', evaluate c (map inj bs) = Ok r -> evaluate c' (map inj bs) = Ok r' -> r = r') ->
  get_truth_table c = Ok t -> get_truth_table c' = Ok t' -> t = t'.
Proof.
  intros Hi Ho Hag H H'. unfold get_truth_table in *. binv H rows Hr. binv H' rows' Hr'.
  injection H as <-. injection H' as <-. rewrite <- Hi in Hr'. rewrite <- Ho.
  assert (rows = rows') as ->; [|reflexivity].
  eapply (mapM_agree _ _ _ _ _ _ Hr Hr'). Unshelve. intros x y y' _; apply Hag.
Qed.
