(* T10: summary of the equalities between the regenerated algorithmic methods (Generated/CircuitAlgos.v) and
   the hand-written model.  Fuel parameters are instantiated as the model does. *)
Require Import Cirbo.Model.Base Cirbo.Model.Gate Cirbo.Model.Circuit Cirbo.Model.Traverse Cirbo.Model.Eval
        Cirbo.Model.Connect Cirbo.Model.WF.
Require Import Cirbo.Generated.CircuitCore Cirbo.Generated.CircuitAlgos.
Require Import Cirbo.Model.Bench Cirbo.Generated.Converters Cirbo.Proofs.ConvertersGen.
Require Import Cirbo.Proofs.CircuitAlgosGen Cirbo.Proofs.CircuitAlgosGen2 Cirbo.Proofs.CircuitAlgosGen3
        Cirbo.Proofs.CircuitAlgosGen4 Cirbo.Proofs.CircuitAlgosGen5 Cirbo.Proofs.CircuitAlgosGen6
        Cirbo.Proofs.CircuitAlgosGen7.

(* keys_ok c: the gate map has no repeated key (true of every Python dict; wf_gkeys of WF) *)
Definition keys_ok (c : circuit) : Prop := NoDup (dkeys (gates c)).

Lemma WF_keys_ok c : WF c -> keys_ok c.
Proof. intros W. exact (wf_gkeys c W). Qed.

Theorem algorithms_regenerated :
  (* properties *)
  (forall c, gen_size c = size c) /\
  (forall c, gen_input_size c = length (inputs c)) /\
  (* top_sort: the generator yields Gate objects = (label, gate) entries of the gate map; their labels are the
     list of the model *)
  (forall c inv, keys_ok c -> (do r <- gen_top_sort (S (size c)) c inv; Ok (map fst r)) = top_sort inv c) /\
  (forall c inv fuel r, gen_top_sort fuel c inv = Ok r -> Forall (fun p => get_gate c (fst p) = Ok (snd p)) r) /\
  (* connect_circuit and its wrappers *)
  (forall c other tc oc right name ap, keys_ok other ->
     gen_connect_circuit size_fuel c other tc oc right name ap = connect_circuit c other tc oc right name ap) /\
  (forall c other tc name ap, keys_ok other ->
     gen_connect_left size_fuel c other tc name ap = connect_left c other tc name ap) /\
  (forall c other oc name ap, keys_ok other ->
     gen_connect_right size_fuel c other oc name ap = connect_right c other oc name ap) /\
  (forall c other name ap, keys_ok other ->
     gen_connect_inputs size_fuel c other name ap = connect_inputs c other name ap) /\
  (forall c other tc oc right name ap, keys_ok other ->
     gen_extend_circuit size_fuel c other tc oc right name ap = extend_circuit c other tc oc right name ap) /\
  (forall c other name ap, keys_ok other ->
     gen_add_circuit size_fuel c other name ap = add_circuit c other name ap) /\
  (* __copy__, Block.into_circuit *)
  (forall c, keys_ok c -> gen___copy__ size_fuel c = copy_circuit c) /\
  (forall b c, gen_Block_into_circuit b c = block_into_circuit c b) /\
  (* evaluation *)
  (forall c a, keys_ok c -> gen_evaluate_full_circuit size_fuel c a = evaluate_full_circuit c a) /\
  (forall c a outs fuel, agree c (gen_evaluate_circuit fuel c a outs) (evaluate_circuit_fuel fuel c a outs)) /\
  (forall c a outs,
     agree c (gen_evaluate_circuit (eval_fuel c (match outs with Some o => o | None => outputs c end)) c a outs)
           (evaluate_circuit c a outs)) /\
  (forall c a, agree c (gen_evaluate_circuit_outputs outputs_fuel c a) (evaluate_circuit_outputs c a)) /\
  (forall c vals, agree c (gen_evaluate outputs_fuel c vals) (evaluate c vals)) /\
  (forall c vals i,
     agree c (gen_evaluate_at at_fuel c vals (Z.of_nat i)) (evaluate_at c vals i)) /\
  (forall c, agree c (gen_get_truth_table outputs_fuel c) (get_truth_table c)).
Proof.
  repeat match goal with |- _ /\ _ => split end.
  - exact gen_size_eq.
  - exact gen_input_size_eq.
  - exact gen_top_sort_labels.
  - intros c inv fuel r H. exact (gen_top_sort_valid c inv fuel r H).
  - exact gen_connect_circuit_eq.
  - exact gen_connect_left_eq.
  - exact gen_connect_right_eq.
  - exact gen_connect_inputs_eq.
  - exact gen_extend_circuit_eq.
  - exact gen_add_circuit_eq.
  - exact gen_copy_eq.
  - exact gen_Block_into_circuit_eq.
  - exact gen_evaluate_full_circuit_eq.
  - intros. apply gen_evaluate_circuit_agree.
  - exact gen_evaluate_circuit_agree'.
  - exact gen_evaluate_circuit_outputs_agree.
  - exact gen_evaluate_agree.
  - exact gen_evaluate_at_agree.
  - exact gen_get_truth_table_agree.
Qed.

(* what `agree c g h` means: g = h, unless some gate of c is its own operand, the model ran out of fuel and the
   regenerated function raised *)
Theorem agree_spec : forall A (c : circuit) (g h : res A),
  agree c g h <->
  (g = h \/ (h = Err OutOfFuel /\ (exists e, g = Err e) /\
             exists l gt, dget (gates c) l = Some gt /\ In l (gops gt))).
Proof. intros. reflexivity. Qed.

Theorem agree_consequences : forall A (c : circuit) (g h : res A), agree c g h ->
  (forall x, g = Ok x <-> h = Ok x) /\ is_ok g = is_ok h /\
  (h <> Err OutOfFuel -> g = h) /\
  ((forall l gt, dget (gates c) l = Some gt -> ~ In l (gops gt)) -> g = h).
Proof.
  intros A c g h H. split; [intros x; exact (agree_ok c g h x H)|].
  split; [exact (agree_is_ok c g h H)|]. split; [exact (agree_not_out_of_fuel c g h H)|].
  intros Hn. apply (agree_no_self_loop c g h H). intros (l & gt & Hg & Hin). exact (Hn l gt Hg Hin).
Qed.

(* on well-formed circuits (acyclic: no gate is its own operand) everything is an equality *)
Lemma WF_no_self_loop c : WF c -> ~ has_self_loop c.
Proof.
  intros W (l & g & Hg & Hin). destruct (wf_acyclic c W) as [rank Hr].
  specialize (Hr l g l Hg Hin). lia.
Qed.

Theorem evaluators_regenerated_wf : forall c, WF c ->
  (forall a, gen_evaluate_full_circuit size_fuel c a = evaluate_full_circuit c a) /\
  (forall a outs,
     gen_evaluate_circuit (eval_fuel c (match outs with Some o => o | None => outputs c end)) c a outs
     = evaluate_circuit c a outs) /\
  (forall a, gen_evaluate_circuit_outputs outputs_fuel c a = evaluate_circuit_outputs c a) /\
  (forall vals, gen_evaluate outputs_fuel c vals = evaluate c vals) /\
  (forall vals i, gen_evaluate_at at_fuel c vals (Z.of_nat i) = evaluate_at c vals i) /\
  gen_get_truth_table outputs_fuel c = get_truth_table c.
Proof.
  intros c W. pose proof (WF_no_self_loop c W) as Hn.
  repeat match goal with |- _ /\ _ => split end; intros.
  - apply gen_evaluate_full_circuit_eq, WF_keys_ok, W.
  - exact (agree_no_self_loop _ _ _ (gen_evaluate_circuit_agree' c a outs) Hn).
  - exact (agree_no_self_loop _ _ _ (gen_evaluate_circuit_outputs_agree c a) Hn).
  - exact (agree_no_self_loop _ _ _ (gen_evaluate_agree c vals) Hn).
  - exact (agree_no_self_loop _ _ _ (gen_evaluate_at_agree c vals i) Hn).
  - exact (agree_no_self_loop _ _ _ (gen_get_truth_table_agree c) Hn).
Qed.

Theorem algorithms_corners :
  (* the gate-map keys must be unique (association-list representation) *)
  ((do r <- gen_top_sort 3 dup_keys_circuit true; Ok (map fst r)) <> top_sort true dup_keys_circuit) /\
  (* a gate that is its own operand: the source raises, the model runs out of fuel *)
  (gen_evaluate_circuit (eval_fuel self_loop_circuit ["g"]) self_loop_circuit [] None = Err PyKeyError /\
   evaluate_circuit self_loop_circuit [] None = Err OutOfFuel).
Proof. split; [exact top_sort_dup_keys_differs|exact evaluate_circuit_corner]. Qed.

(* ---------------------------------------------------------------- second group *)
Theorem algorithms_regenerated_2 :
  (* make_block_from_slice: the work list starts in another order (Python: hash order of a set) *)
  (forall c name ins outs, keys_ok c ->
     slice_agree (gen_make_block_from_slice (S (size c)) c name ins outs) (make_block_from_slice c name ins outs)) /\
  (forall fuel c name ins outs c' b,
     gen_make_block_from_slice fuel c name ins outs = Ok (c', b) -> get_block c' name = Ok b) /\
  (* get_gates_truth_table, format_circuit, into_bench *)
  (forall c, keys_ok c -> gen_get_gates_truth_table size_fuel c = get_gates_truth_table c) /\
  (forall c, gen_format_circuit c = Ok (format_circuit c)) /\
  (forall c fresh, gen_into_bench c fresh = generated_into_bench c fresh) /\
  (forall c fresh c', gen_into_bench c fresh = Ok c' <-> into_bench c fresh = Ok c') /\
  (forall c fresh,
     (forall x g, In (x, g) (gates c) -> gtyp g = LT \/ gtyp g = LEQ -> length (gops g) <> 1%nat) ->
     gen_into_bench c fresh = into_bench c fresh) /\
  (* _traverse_circuit, dfs, bfs: the log of hook calls and yields *)
  (forall c mode starts inverse tsu abort, (tsu = true -> keys_ok c) ->
     gen__traverse_circuit (traverse_fuel c (start_queue c starts inverse)) size_fuel c mode starts inverse tsu abort
     = traverse mode inverse c starts tsu abort) /\
  (forall c starts inverse tsu abort, (tsu = true -> keys_ok c) ->
     gen_dfs (traverse_fuel_of starts inverse) size_fuel c starts inverse tsu abort
     = traverse DFS inverse c starts tsu abort) /\
  (forall c starts inverse tsu abort, (tsu = true -> keys_ok c) ->
     gen_bfs (traverse_fuel_of starts inverse) size_fuel c starts inverse tsu abort
     = traverse BFS inverse c starts tsu abort) /\
  (* validation.check_circuit_has_no_cycles *)
  (forall c starts,
     gen_check_circuit_has_no_cycles (traverse_fuel_of starts false) size_fuel c starts
     = check_circuit_has_no_cycles_from c starts).
Proof.
  repeat match goal with |- _ /\ _ => split end.
  - exact gen_make_block_from_slice_agree.
  - exact gen_make_block_from_slice_block.
  - exact gen_get_gates_truth_table_eq.
  - exact gen_format_circuit_eq.
  - exact gen_into_bench_eq.
  - exact gen_into_bench_ok.
  - exact gen_into_bench_model.
  - exact gen_traverse_circuit_eq.
  - exact gen_dfs_eq.
  - exact gen_bfs_eq.
  - exact gen_check_circuit_has_no_cycles_eq.
Qed.

Theorem slice_agree_spec : forall (g : res (circuit * block)) (h : res circuit),
  slice_agree g h <->
  ((do p <- g; Ok (fst p)) = h \/
   (exists e1 e2, g = Err e1 /\ h = Err e2 /\
      (e1 = GateDoesntExistError \/ e1 = CreateBlockError) /\ (e2 = GateDoesntExistError \/ e2 = CreateBlockError))).
Proof. intros. reflexivity. Qed.

Theorem slice_agree_consequences : forall (g : res (circuit * block)) (h : res circuit), slice_agree g h ->
  (forall c', (exists b, g = Ok (c', b)) <-> h = Ok c') /\ is_ok g = is_ok h.
Proof.
  intros g h H. split; [intros c'; exact (slice_agree_ok g h c' H)|exact (slice_agree_is_ok g h H)].
Qed.

Theorem slice_corner_real :
  gen_make_block_from_slice 4 slice_corner "B" [] ["a"; "b"] = Err CreateBlockError /\
  make_block_from_slice slice_corner "B" [] ["a"; "b"] = Err GateDoesntExistError.
Proof. exact slice_error_kind_corner. Qed.

(* ---------------------------------------------------------------- replace_subcircuit *)
Theorem replace_subcircuit_regenerated : forall c sub imap omap f rest,
  WF c -> keys_ok sub -> NoDup (dkeys imap) -> NoDup (dkeys omap) ->
  rs_agree (gen_replace_subcircuit size_fuel size_fuel all_gates_fuel size_fuel c sub imap omap (f :: rest))
           (replace_subcircuit c sub imap omap f).
Proof. exact gen_replace_subcircuit_agree. Qed.

Theorem rs_agree_spec : forall g h : res circuit,
  rs_agree g h <->
  (g = h \/
   (exists e1 e2, g = Err e1 /\ h = Err e2 /\
      (e1 = GateDoesntExistError \/ e1 = CreateBlockError) /\ (e2 = GateDoesntExistError \/ e2 = CreateBlockError))).
Proof. intros. reflexivity. Qed.

Theorem rs_agree_consequences : forall g h : res circuit, rs_agree g h ->
  (forall c', g = Ok c' <-> h = Ok c') /\ is_ok g = is_ok h.
Proof. intros g h H. split; [intros c'; exact (rs_agree_ok g h c' H)|exact (rs_agree_is_ok g h H)]. Qed.
