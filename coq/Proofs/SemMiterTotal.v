(* C13: TOTALITY of build_miter.  With equal shapes, well formed operands and non-empty block
   names, build_miter returns normally exactly when no prefixed label or block name clashes
   (MiterNoClash); the default names "circuit1" / "circuit2" never clash, whatever the labels
   of the operands are. *)
Require Import Cirbo.Model.Base Cirbo.Model.Gate Cirbo.Model.Circuit Cirbo.Model.Connect Cirbo.Model.WF
        Cirbo.Model.Miter.
Require Import Cirbo.Proofs.DictFacts Cirbo.Proofs.WFBase Cirbo.Proofs.WFSimple Cirbo.Proofs.WFEmplace
        Cirbo.Proofs.WFConnect1 Cirbo.Proofs.WFConnect2 Cirbo.Proofs.SemExtConnect Cirbo.Proofs.SemConnectStruct
        Cirbo.Proofs.SemConnectLeft Cirbo.Proofs.SemConnectTotal Cirbo.Proofs.SemMiterXor Cirbo.Proofs.SemMiter.
From Coq Require Import DecimalNat DecimalString.

(* ------------------------------------------------------------------ *)
(* the generated labels *)
Lemma nat_str_inj a b : nat_str a = nat_str b -> a = b.
Proof.
  unfold nat_str. intros H.
  assert (E : Nat.to_uint a = Nat.to_uint b).
  { pose proof (NilEmpty.usu (Nat.to_uint a)) as Ha. pose proof (NilEmpty.usu (Nat.to_uint b)) as Hb.
    rewrite H in Ha. congruence. }
  rewrite <- (Unsigned.of_to a), <- (Unsigned.of_to b), E. reflexivity.
Qed.

Lemma generate_labels_in p n x :
  In x (generate_labels p n) -> exists i, x = (p ++ "_" ++ nat_str i)%string.
Proof. unfold generate_labels. intros H. apply in_map_iff in H. destruct H as (i & <- & _). eauto. Qed.

Lemma generate_labels_nodup p n : NoDup (generate_labels p n).
Proof.
  unfold generate_labels. apply NoDup_map_inj; [|apply seq_NoDup].
  intros a b _ _ E. apply append_inj_l in E. apply append_inj_l in E. apply nat_str_inj, E.
Qed.

Lemma labels_xy n x : In x (generate_labels "x" n) -> ~ In x (generate_labels "y" n).
Proof.
  intros H1 H2. apply generate_labels_in in H1, H2. destruct H1 as (i & ->), H2 as (j & E). simpl in E. discriminate.
Qed.
Lemma labels_xr n x : In x (generate_labels "x" n) -> ~ In x (generate_labels "xor" n).
Proof.
  intros H1 H2. apply generate_labels_in in H1, H2. destruct H1 as (i & ->), H2 as (j & E). simpl in E. discriminate.
Qed.
Lemma labels_yr n x : In x (generate_labels "y" n) -> ~ In x (generate_labels "xor" n).
Proof.
  intros H1 H2. apply generate_labels_in in H1, H2. destruct H1 as (i & ->), H2 as (j & E). simpl in E. discriminate.
Qed.

(* ------------------------------------------------------------------ *)
(* add_inputs *)
Lemma add_inputs_total : forall ls c,
  NoDup ls -> (forall x, In x ls -> has_gate c x = false) -> exists c', add_inputs c ls = Ok c'.
Proof.
  induction ls as [|l ls IH]; intros c Hnd Hf; simpl; [eauto|].
  inversion Hnd as [|? ? Hl Hnd']; subst.
  unfold check_label_doesnt_exist, emplace_gate, check_label_doesnt_exist.
  rewrite (Hf l (or_introl eq_refl)). simpl. apply IH; [exact Hnd'|].
  intros x Hx. rewrite emplace_raw_has_gate. rewrite (Hf x (or_intror Hx)).
  destruct (leqb_spec x l) as [->|_]; [contradiction|reflexivity].
Qed.

Lemma add_inputs_more : forall ls c c', add_inputs c ls = Ok c' ->
  blocks c' = blocks c /\ forall x, has_gate c' x = true -> has_gate c x = true \/ In x ls.
Proof.
  induction ls as [|l ls IH]; intros c c' H; simpl in H.
  - injection H as <-. split; [reflexivity|auto].
  - binv H u Hu. binv H c1 H1. apply emplace_gate_inv in H1. destruct H1 as (_ & _ & ->).
    apply IH in H. destruct H as (Hb & Hg). split; [rewrite Hb; apply emplace_raw_blocks|].
    intros x Hx. destruct (Hg x Hx) as [H1|H1]; [|right; right; exact H1].
    rewrite emplace_raw_has_gate in H1. apply orb_true_iff in H1. destruct H1 as [H1|H1].
    + apply leqb_eq in H1. right; left; symmetry; exact H1.
    + left; exact H1.
Qed.

(* the xor stage *)
Definition xor_step (c : circuit) (t : label * label * label) : res circuit :=
  let '(x, y, r) := t in do c' <- add_gate c r XOR [x; y]; mark_as_output c' r.

Lemma xor_fold_total : forall (T : list (label * label * label)) c,
  (forall x y r, In (x, y, r) T -> has_gate c x = true /\ has_gate c y = true) ->
  NoDup (map (fun t : label * label * label => snd t) T) ->
  (forall t, In t T -> has_gate c (snd t) = false) ->
  exists c', foldM xor_step T c = Ok c'.
Proof.
  induction T as [|[[x y] r0] T IH]; intros c Hop Hnd Hf; [exists c; reflexivity|].
  simpl in Hnd. inversion Hnd as [|? ? Hr Hnd']; subst.
  destruct (Hop x y r0 (or_introl eq_refl)) as [Hx Hy].
  pose proof (Hf (x, y, r0) (or_introl eq_refl)) as Hr0. simpl in Hr0.
  cbn [foldM]. unfold xor_step at 1. unfold add_gate, emplace_gate, check_label_doesnt_exist.
  rewrite Hr0. cbn [bind]. simpl check_gates_exist. rewrite Hx, Hy. cbn [bind].
  unfold mark_as_output. simpl check_gates_exist. rewrite emplace_raw_has_gate, leqb_refl. simpl orb. cbn [bind].
  apply IH.
  - intros x' y' r' Hin. destruct (Hop x' y' r' (or_intror Hin)) as [A B].
    unfold has_gate, set_outputs_raw; cbn [gates]. fold (has_gate (emplace_gate_raw c r0 XOR [x; y]) x').
    fold (has_gate (emplace_gate_raw c r0 XOR [x; y]) y'). rewrite !emplace_raw_has_gate, A, B.
    split; apply orb_true_r.
  - exact Hnd'.
  - intros t Hin. unfold has_gate, set_outputs_raw; cbn [gates].
    fold (has_gate (emplace_gate_raw c r0 XOR [x; y]) (snd t)). rewrite emplace_raw_has_gate.
    rewrite (Hf t (or_intror Hin)). destruct (leqb_spec (snd t) r0) as [E|_]; [|reflexivity].
    exfalso. apply Hr. rewrite <- E. apply in_map, Hin.
Qed.

Lemma in_zip3 : forall a b c x y z, In (x, y, z) (zip3 a b c) -> In x a /\ In y b /\ In z c.
Proof.
  induction a as [|a0 a IH]; intros [|b0 b] [|c0 c] x y z H; simpl in H; try contradiction.
  destruct H as [E|H]; [injection E as <- <- <-; simpl; auto|].
  apply IH in H. simpl. tauto.
Qed.

Theorem generate_pairwise_xor_total n : exists px, generate_pairwise_xor n = Ok px.
Proof.
  unfold generate_pairwise_xor.
  set (xs := generate_labels "x" n). set (ys := generate_labels "y" n). set (rs := generate_labels "xor" n).
  destruct (add_inputs_total xs empty_circuit) as [c1 H1]; [apply generate_labels_nodup|reflexivity|].
  rewrite H1. cbn [bind]. destruct (add_inputs_more _ _ _ H1) as (_ & G1).
  destruct (add_inputs_total ys c1) as [c2 H2]; [apply generate_labels_nodup| |].
  { intros y Hy. destruct (has_gate c1 y) eqn:E; [|reflexivity]. exfalso.
    destruct (G1 y E) as [H|H]; [discriminate|]. exact (labels_xy n y H Hy). }
  rewrite H2. cbn [bind]. destruct (add_inputs_more _ _ _ H2) as (_ & G2).
  destruct (add_inputs_spec _ _ _ H1) as (_ & _ & _ & N1).
  destruct (add_inputs_spec _ _ _ H2) as (_ & _ & K2 & N2).
  apply (xor_fold_total (zip3 xs ys rs) c2).
  - intros x y r Hin. apply in_zip3 in Hin. destruct Hin as (Hx & Hy & _). split.
    + eapply get_has_gate. apply K2, N1, Hx.
    + eapply get_has_gate. apply N2, Hy.
  - rewrite zip3_thirds; [apply generate_labels_nodup| |]; unfold xs, ys, rs; rewrite !generate_labels_length; reflexivity.
  - intros [[x y] r] Hin. apply in_zip3 in Hin. destruct Hin as (_ & _ & Hr). simpl.
    destruct (has_gate c2 r) eqn:E; [|reflexivity]. exfalso.
    destruct (G2 r E) as [H|H]; [|exact (labels_yr n r H Hr)].
    destruct (G1 r H) as [H'|H']; [discriminate|exact (labels_xr n r H' Hr)].
Qed.

(* pairwise_xor has no blocks and no gates beyond its inputs and outputs *)
Lemma generate_pairwise_xor_more n px :
  generate_pairwise_xor n = Ok px ->
  blocks px = [] /\ forall x, has_gate px x = true -> In x (inputs px) \/ In x (outputs px).
Proof.
  unfold generate_pairwise_xor. intros H. binv H c1 H1. binv H c2 H2.
  destruct (add_inputs_more _ _ _ H1) as (B1 & G1). destruct (add_inputs_more _ _ _ H2) as (B2 & G2).
  destruct (add_inputs_spec _ _ _ H1) as (I1 & _). destruct (add_inputs_spec _ _ _ H2) as (I2 & _).
  simpl in B1, I1. rewrite B1 in B2. rewrite I1 in I2.
  assert (P : blocks px = [] /\ inputs px = inputs c2 /\
              forall x, has_gate px x = true -> In x (inputs c2) \/ In x (outputs px));
    [|destruct P as (P1 & P2 & P3); split; [exact P1|rewrite P2; exact P3]].
  revert H. apply (foldM_ok_inv _ (fun c => blocks c = [] /\ inputs c = inputs c2 /\
                     forall x, has_gate c x = true -> In x (inputs c2) \/ In x (outputs c))).
  - intros c [[x y] r0] c' _ (Hb & Hi & Hg) Hs. binv Hs c3 H3. unfold add_gate in H3.
    apply emplace_gate_inv in H3. destruct H3 as (_ & _ & E3).
    unfold mark_as_output in Hs. binv Hs u Hu. injection Hs as <-.
    assert (F1 : inputs c3 = inputs c) by (rewrite E3, emplace_raw_inputs; reflexivity).
    assert (F2 : outputs c3 = outputs c) by (rewrite E3; apply emplace_raw_outputs).
    assert (F3 : forall z, has_gate c3 z = leqb z r0 || has_gate c z) by (intros z; rewrite E3; apply emplace_raw_has_gate).
    assert (F4 : blocks c3 = blocks c) by (rewrite E3; apply emplace_raw_blocks).
    unfold set_outputs_raw, has_gate; cbn [inputs outputs gates blocks].
    split; [rewrite F4; exact Hb|]. split; [rewrite F1; exact Hi|].
    intros z Hz. fold (has_gate c3 z) in Hz. rewrite F3 in Hz. apply orb_true_iff in Hz.
    destruct Hz as [Hz|Hz].
    + apply leqb_eq in Hz. right. apply in_or_app; right; left; symmetry; exact Hz.
    + destruct (Hg z Hz) as [A|A]; [left; exact A|right; rewrite F2; apply in_or_app; left; exact A].
  - split; [exact B2|]. split; [reflexivity|]. intros x Hx. left. rewrite I2.
    destruct (G2 x Hx) as [A|A]; [|apply in_or_app; right; exact A].
    destruct (G1 x A) as [A'|A']; [discriminate|apply in_or_app; left; exact A'].
Qed.

(* ------------------------------------------------------------------ *)
(* every gate of other has an image after a left connection *)
Lemma spec_image_left base other tc oc name prefix r :
  ConnSpec base other tc oc false name prefix r ->
  (forall b g, dget (gates base) b = Some g -> dget (gates r) b = Some g) /\
  forall o, has_gate other o = true -> has_gate r (ren_of (build_mapping oc tc []) prefix o) = true.
Proof.
  intros S.
  assert (Hb : forall b g, dget (gates base) b = Some g -> dget (gates r) b = Some g).
  { intros b g Hg. apply (cs_base _ _ _ _ _ _ _ _ S b g Hg). intros [E _]; discriminate. }
  split; [exact Hb|]. intros o Ho. destruct (has_gate_get _ _ Ho) as [g Hg].
  destruct (dget (build_mapping oc tc []) o) as [t|] eqn:Em.
  - unfold ren_of. rewrite Em. apply bm_nil_vals in Em. apply (cs_tc _ _ _ _ _ _ _ _ S) in Em.
    destruct (has_gate_get _ _ Em) as [gt Hgt]. eapply get_has_gate. apply Hb; exact Hgt.
  - eapply get_has_gate. apply (cs_copy _ _ _ _ _ _ _ _ S o g Hg). right; exact Em.
Qed.

(* no prefixed gate label / block name clashes *)
Definition MiterNoClash (l r : circuit) (ln rn : label) : Prop :=
  ln <> rn /\ "pairwise_xor" <> ln /\ "pairwise_xor" <> rn /\
  (forall k, dmem (blocks l) k = true ->
             rn <> ((ln ++ "@") ++ k)%string /\ "pairwise_xor" <> ((ln ++ "@") ++ k)%string) /\
  (forall k, dmem (blocks r) k = true ->
             ((rn ++ "@") ++ k)%string <> ln /\ "pairwise_xor" <> ((rn ++ "@") ++ k)%string /\
             forall k', dmem (blocks l) k' = true -> ((rn ++ "@") ++ k)%string <> ((ln ++ "@") ++ k')%string) /\
  (forall g y, has_gate l g = true -> has_gate r y = true -> ~ In y (inputs r) ->
               ((rn ++ "@") ++ y)%string <> ((ln ++ "@") ++ g)%string) /\
  (forall x g, In x (generate_labels "xor" (length (outputs l))) -> has_gate l g = true ->
               ("pairwise_xor@" ++ x)%string <> ((ln ++ "@") ++ g)%string) /\
  (forall x y, In x (generate_labels "xor" (length (outputs l))) -> has_gate r y = true -> ~ In y (inputs r) ->
               ("pairwise_xor@" ++ x)%string <> ((rn ++ "@") ++ y)%string) /\
  (forall g, has_gate l g = true -> "big_or" <> ((ln ++ "@") ++ g)%string) /\
  (forall y, has_gate r y = true -> ~ In y (inputs r) -> "big_or" <> ((rn ++ "@") ++ y)%string).

Theorem build_miter_total l r ln rn :
  WF l -> WF r ->
  length (inputs l) = length (inputs r) -> length (outputs l) = length (outputs r) ->
  ln <> "" -> rn <> "" -> MiterNoClash l r ln rn ->
  exists m, build_miter l r ln rn = Ok m.
Proof.
  intros Wl Wr Lin Lout Hln Hrn (C1 & C2 & C3 & C4 & C5 & C6 & C7 & C8 & C9 & C10).
  unfold build_miter.
  replace (negb (Nat.eqb (length (inputs l)) (length (inputs r)))
           || negb (Nat.eqb (length (outputs l)) (length (outputs r)))) with false.
  2:{ symmetry. apply orb_false_iff. split; apply negb_false_iff, Nat.eqb_eq; assumption. }
  (* m1 *)
  destruct (connect_left_total empty_circuit l [] [] ln true WF_empty Wl) as [m1 H1];
    try reflexivity; try (intros ? []); try constructor.
  unfold add_circuit. rewrite H1. cbn [bind].
  pose proof (connect_circuit_left_wf _ _ _ _ _ _ _ WF_empty H1) as W1.
  pose proof (connect_circuit_spec _ _ _ _ _ _ _ _ Wl H1) as S1.
  rewrite (conn_prefix_true ln Hln) in S1.
  destruct (cs_block _ _ _ _ _ _ _ _ S1 Hln) as (bg1 & B1 & _).
  unfold get_block at 1. rewrite B1. cbn [bind binputs].
  set (ren1 := ren_of (build_mapping [] [] []) (ln ++ "@")) in *.
  assert (R1 : forall x, ren1 x = ((ln ++ "@") ++ x)%string) by reflexivity.
  assert (G1 : forall z, has_gate m1 z = true -> exists g, has_gate l g = true /\ z = ((ln ++ "@") ++ g)%string).
  { intros z Hz. destruct (cs_only _ _ _ _ _ _ _ _ S1 z Hz) as [Hb|(g & Hg & _ & E)]; [discriminate|].
    exists g; split; [exact Hg|exact E]. }
  assert (K1 : forall b, dmem (blocks m1) b = true ->
                         b = ln \/ exists k, dmem (blocks l) k = true /\ b = ((ln ++ "@") ++ k)%string).
  { intros b Hb. destruct (cs_blocks_only _ _ _ _ _ _ _ _ S1 b Hb) as [Hc|[Hc|[Hc _]]];
      [discriminate|right; exact Hc|left; exact Hc]. }
  assert (I1 : forall g, has_gate l g = true -> has_gate m1 (ren1 g) = true).
  { intros g Hg. apply (proj2 (spec_image_left _ _ _ _ _ _ _ S1)), Hg. }
  (* m2 *)
  set (tc2 := map ren1 (inputs l)).
  destruct (connect_left_total m1 r tc2 (inputs r) rn true W1 Wr) as [m2 H2].
  { destruct (dmem (blocks m1) rn) eqn:E; [|reflexivity]. exfalso.
    destruct (K1 rn E) as [Hc|(k & Hk & Hc)]; [apply C1; symmetry; exact Hc|].
    destruct (C4 k Hk) as [A _]. apply A, Hc. }
  { intros t Ht. unfold tc2 in Ht. apply in_map_iff in Ht. destruct Ht as (x & <- & Hx). apply I1.
    apply (wf_inputs l Wl) in Hx. destruct Hx as (g & Hg & _). eapply get_has_gate; exact Hg. }
  { intros o Ho. apply (wf_inputs r Wr) in Ho. destruct Ho as (g & Hg & Ht).
    unfold is_input_gate. rewrite Hg. apply gtype_beq_eq, Ht. }
  { apply (wf_inputs_nodup r Wr). }
  { unfold tc2. rewrite map_length. exact Lin. }
  { intros y Hy Hn. rewrite (conn_prefix_true rn Hrn).
    destruct (has_gate m1 ((rn ++ "@") ++ y)%string) eqn:E; [|reflexivity]. exfalso.
    destruct (G1 _ E) as (g & Hg & Hc). exact (C6 g y Hg Hy Hn Hc). }
  { intros k Hk. rewrite (conn_prefix_true rn Hrn).
    destruct (dmem (blocks m1) ((rn ++ "@") ++ k)%string) eqn:E; [|reflexivity]. exfalso.
    destruct (C5 k Hk) as (A & _ & B). destruct (K1 _ E) as [Hc|(k' & Hk' & Hc)]; [exact (A Hc)|exact (B k' Hk' Hc)]. }
  rewrite H2. cbn [bind].
  pose proof (connect_circuit_left_wf _ _ _ _ _ _ _ W1 H2) as W2.
  pose proof (connect_circuit_spec _ _ _ _ _ _ _ _ Wr H2) as S2.
  rewrite (conn_prefix_true rn Hrn) in S2.
  set (ren2 := ren_of (build_mapping (inputs r) tc2 []) (rn ++ "@")) in *.
  destruct (spec_image_left _ _ _ _ _ _ _ S2) as [Keep2 I2]. fold ren2 in I2.
  assert (G2 : forall z, has_gate m2 z = true ->
                 (exists g, has_gate l g = true /\ z = ((ln ++ "@") ++ g)%string) \/
                 (exists y, has_gate r y = true /\ ~ In y (inputs r) /\ z = ((rn ++ "@") ++ y)%string)).
  { intros z Hz. destruct (cs_only _ _ _ _ _ _ _ _ S2 z Hz) as [Hb|(y & Hy & Hm & E)]; [left; apply G1, Hb|right].
    exists y. split; [exact Hy|]. split.
    - apply (bm_nil_none_iff (inputs r) tc2 y); [unfold tc2; rewrite map_length; exact Lin|exact Hm].
    - rewrite E. unfold ren_of. rewrite Hm. reflexivity. }
  assert (K2 : forall b, dmem (blocks m2) b = true ->
                 b = ln \/ (exists k, dmem (blocks l) k = true /\ b = ((ln ++ "@") ++ k)%string) \/
                 b = rn \/ exists k, dmem (blocks r) k = true /\ b = ((rn ++ "@") ++ k)%string).
  { intros b Hb. destruct (cs_blocks_only _ _ _ _ _ _ _ _ S2 b Hb) as [Hc|[Hc|[Hc _]]].
    - destruct (K1 b Hc) as [A|A]; [left; exact A|right; left; exact A].
    - right; right; right; exact Hc.
    - right; right; left; exact Hc. }
  rewrite (cs_blocks _ _ _ _ _ _ _ _ S2 _ _ B1) || idtac.
  unfold get_block at 1. rewrite (cs_blocks _ _ _ _ _ _ _ _ S2 _ _ B1). cbn [bind].
  destruct (cs_block _ _ _ _ _ _ _ _ S2 Hrn) as (bg2 & B2 & _). fold ren2 in B2.
  (* px *)
  destruct (generate_pairwise_xor_total (length (outputs l))) as [px Hpx]. rewrite Hpx. cbn [bind].
  unfold get_block at 1. rewrite B2. cbn [bind boutputs].
  pose proof (generate_pairwise_xor_spec_labels _ _ Hpx) as Px.
  destruct (generate_pairwise_xor_more _ _ Hpx) as (Bpx & Gpx).
  destruct Px as [Wpx (Lx & Ly & Lr) Ipx Opx _].
  (* m3 *)
  set (tc3 := map ren1 (outputs l) ++ map ren2 (outputs r)).
  destruct (connect_left_total m2 px tc3 (inputs px) "pairwise_xor" true W2 Wpx) as [m3 H3].
  { destruct (dmem (blocks m2) "pairwise_xor") eqn:E; [|reflexivity]. exfalso.
    destruct (K2 _ E) as [Hc|[(k & Hk & Hc)|[Hc|(k & Hk & Hc)]]].
    - exact (C2 Hc).
    - destruct (C4 k Hk) as [_ A]. exact (A Hc).
    - exact (C3 Hc).
    - destruct (C5 k Hk) as (_ & A & _). exact (A Hc). }
  { intros t Ht. unfold tc3 in Ht. apply in_app_or in Ht. destruct Ht as [Ht|Ht].
    - apply in_map_iff in Ht. destruct Ht as (o & <- & Ho).
      destruct (has_gate_get _ _ (I1 o (wf_outs l Wl o Ho))) as [g Hg]. eapply get_has_gate. apply Keep2; exact Hg.
    - apply in_map_iff in Ht. destruct Ht as (o & <- & Ho). apply I2, (wf_outs r Wr), Ho. }
  { intros o Ho. apply (wf_inputs px Wpx) in Ho. destruct Ho as (g & Hg & Ht).
    unfold is_input_gate. rewrite Hg. apply gtype_beq_eq, Ht. }
  { apply (wf_inputs_nodup px Wpx). }
  { unfold tc3. rewrite Ipx, !app_length, !map_length, <- Lout, Lx, Ly. reflexivity. }
  { intros x Hx Hn. change (conn_prefix "pairwise_xor" true) with "pairwise_xor@".
    assert (Hxr : In x (generate_labels "xor" (length (outputs l)))).
    { rewrite <- Opx. destruct (Gpx x Hx) as [A|A]; [contradiction|exact A]. }
    destruct (has_gate m2 ("pairwise_xor@" ++ x)%string) eqn:E; [|reflexivity]. exfalso.
    destruct (G2 _ E) as [(g & Hg & Hc)|(y & Hy & Hny & Hc)].
    - exact (C7 x g Hxr Hg Hc).
    - exact (C8 x y Hxr Hy Hny Hc). }
  { intros k Hk. rewrite Bpx in Hk. discriminate. }
  rewrite H3. cbn [bind].
  pose proof (connect_circuit_left_wf _ _ _ _ _ _ _ W2 H3) as W3.
  pose proof (connect_circuit_spec _ _ _ _ _ _ _ _ Wpx H3) as S3.
  assert (Hpxn : "pairwise_xor" <> "") by discriminate.
  destruct (cs_block _ _ _ _ _ _ _ _ S3 Hpxn) as (bg3 & B3 & _).
  unfold get_block at 1. rewrite B3. cbn [bind boutputs].
  destruct (spec_image_left _ _ _ _ _ _ _ S3) as [_ I3].
  (* big_or *)
  unfold emplace_gate, check_label_doesnt_exist.
  replace (has_gate m3 "big_or") with false.
  2:{ symmetry. destruct (has_gate m3 "big_or") eqn:E; [|reflexivity]. exfalso.
      destruct (cs_only _ _ _ _ _ _ _ _ S3 _ E) as [Hb|(x & _ & Hm & Hc)].
      - destruct (G2 _ Hb) as [(g & Hg & Hc)|(y & Hy & Hny & Hc)]; [exact (C9 g Hg Hc)|exact (C10 y Hy Hny Hc)].
      - unfold ren_of in Hc. rewrite Hm in Hc. simpl in Hc. discriminate. }
  cbn [bind].
  replace (check_gates_exist (map (ren_of (build_mapping (inputs px) tc3 []) (conn_prefix "pairwise_xor" true))
                                  (outputs px)) m3) with (Ok (A := unit) tt).
  2:{ symmetry. apply check_gates_exist_ok. intros z Hz. apply in_map_iff in Hz. destruct Hz as (o & <- & Ho).
      apply I3, (wf_outs px Wpx), Ho. }
  cbn [bind]. unfold set_outputs. simpl check_gates_exist. rewrite emplace_raw_has_gate, leqb_refl. simpl orb.
  cbn [bind]. eauto.
Qed.

(* the names used by the implementation never clash *)
Lemma default_names_no_clash l r : MiterNoClash l r "circuit1" "circuit2".
Proof.
  unfold MiterNoClash. repeat split; try discriminate; intros; simpl; intros E; discriminate E.
Qed.

Theorem build_miter_total_default l r :
  WF l -> WF r ->
  length (inputs l) = length (inputs r) -> length (outputs l) = length (outputs r) ->
  exists m, build_miter l r "circuit1" "circuit2" = Ok m.
Proof.
  intros Wl Wr Lin Lout. apply build_miter_total; try assumption; try discriminate.
  apply default_names_no_clash.
Qed.
