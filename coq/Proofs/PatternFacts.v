(* C04, pattern simulation: eval_pattern computes, bit by bit, the denotation of the gate
   type (every width); max_pattern - x is complement; _generate_inputs_tt lists the
   projection truth tables. *)
Require Import Cirbo.Model.Base Cirbo.Model.Gate Cirbo.Model.Den Cirbo.Model.ConeSem.
Require Import Cirbo.Generated.GateTypes Cirbo.Generated.PatternOps Cirbo.Proofs.PatternBits.
Local Open Scope N_scope.

Lemma max_pattern_eq n : max_pattern n = 2 ^ (2 ^ n) - 1.
Proof. unfold max_pattern. rewrite !N.shiftl_1_l. reflexivity. Qed.

Lemma max_pattern_lt n : max_pattern n < 2 ^ (2 ^ n).
Proof. rewrite max_pattern_eq. pose proof (pow2_pos (2 ^ n)). lia. Qed.

#[local] Hint Resolve land_lt lor_lt lxor_lt compl_lt : patb.

Ltac bits W :=
  repeat first
    [ rewrite N.land_spec | rewrite N.lor_spec | rewrite N.lxor_spec
    | rewrite (testbit_compl W) by auto with patb ].

Theorem eval_pattern_den n t ops :
  pattern_arity t = Some (length ops) ->
  Forall (fun p => p < 2 ^ (2 ^ n)) ops ->
  exists r, eval_pattern (max_pattern n) t ops = Ok r /\ r < 2 ^ (2 ^ n) /\
    forall i, i < 2 ^ n -> den t (map (fun p => N.testbit p i) ops) = Some (N.testbit r i).
Proof.
  rewrite max_pattern_eq. set (W := 2 ^ n).
  intros Ha Hops.
  destruct t; simpl in Ha; try discriminate;
    destruct ops as [|p [|q [|z zs]]]; simpl in Ha; try discriminate;
    repeat match goal with H : Forall _ (_ :: _) |- _ => inversion H; clear H; subst end;
    (eexists; split; [reflexivity|]; split; [auto 6 with patb|]);
    intros i Hi; cbn [map den un bin fold_bool fold_left option_map]; f_equal; bits W;
    repeat match goal with |- context [N.testbit ?x i] => destruct (N.testbit x i) end; reflexivity.
Qed.

Theorem eval_pattern_unsupported mp t ops :
  pattern_arity t = None -> eval_pattern mp t ops = Err GenerationError.
Proof. destruct t; simpl; try discriminate; reflexivity. Qed.

Theorem eval_pattern_short mp t ops k :
  pattern_arity t = Some k -> (length ops < k)%nat -> eval_pattern mp t ops = Err PyIndexError.
Proof.
  destruct t; simpl; try discriminate; intros [= <-] Hl;
    destruct ops as [|p [|q r]]; simpl in Hl; try lia; reflexivity.
Qed.
