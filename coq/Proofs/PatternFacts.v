(* C04, pattern simulation: eval_pattern computes, bit by bit, the denotation of the gate
   type (every width); max_pattern - x is complement; _generate_inputs_tt lists the
   projection truth tables. *)
Require Import Cirbo.Model.Base Cirbo.Model.Gate Cirbo.Model.Den Cirbo.Model.ConeSem.
Require Import Cirbo.Generated.GateTypes Cirbo.Generated.PatternOps Cirbo.Proofs.PatternBits.
Local Open Scope N_scope.

Lemma max_pattern_eq n : max_pattern n = 2 ^ (2 ^ n) - 1.
Proof. unfold max_pattern. rewrite !N.shiftl_1_l. reflexivity. Qed.

Lemma max_pattern_lt n : max_pattern n < 2 ^ (2 ^ n).
Proof. rewrite max_pattern_eq. pose proof (pow2_pos (2 ^ n)). lia. Qed.

#[local] Hint Resolve land_lt lor_lt lxor_lt compl_lt : patb.

Ltac bits W :=
  repeat first
    [ rewrite N.land_spec | rewrite N.lor_spec | rewrite N.lxor_spec
    | rewrite (testbit_compl W) by auto with patb ].

(* a fold of a bitwise operator is the fold of the Boolean operator on every bit *)
Lemma fold_bits (f : N -> N -> N) (g : bool -> bool -> bool) W i :
  (forall a b, N.testbit (f a b) i = g (N.testbit a i) (N.testbit b i)) ->
  (forall a b, a < 2 ^ W -> b < 2 ^ W -> f a b < 2 ^ W) ->
  forall rest x, x < 2 ^ W -> Forall (fun p => p < 2 ^ W) rest ->
    fold_left f rest x < 2 ^ W /\
    N.testbit (fold_left f rest x) i = fold_left g (map (fun p => N.testbit p i) rest) (N.testbit x i).
Proof.
  intros Hspec Hlt rest. induction rest as [|p rest IH]; intros x Hx Hall; simpl; [split; [exact Hx|reflexivity]|].
  inversion Hall as [|? ? Hp Hrest]; subst.
  destruct (IH (f x p) (Hlt _ _ Hx Hp) Hrest) as [H1 H2]. split; [exact H1|].
  rewrite H2, Hspec. reflexivity.
Qed.

Lemma fold_lt (f : N -> N -> N) W :
  (forall a b, a < 2 ^ W -> b < 2 ^ W -> f a b < 2 ^ W) ->
  forall rest x, x < 2 ^ W -> Forall (fun p => p < 2 ^ W) rest -> fold_left f rest x < 2 ^ W.
Proof.
  intros Hlt rest. induction rest as [|p rest IH]; intros x Hx Hall; simpl; [exact Hx|].
  inversion Hall as [|? ? Hp Hrest]; subst. apply IH; [apply Hlt; assumption|exact Hrest].
Qed.

#[local] Hint Resolve fold_lt : patb.

Theorem eval_pattern_den n t ops :
  pattern_arity_ok t (length ops) = true ->
  Forall (fun p => p < 2 ^ (2 ^ n)) ops ->
  exists r, eval_pattern (max_pattern n) t ops = Ok r /\ r < 2 ^ (2 ^ n) /\
    forall i, i < 2 ^ n -> den t (map (fun p => N.testbit p i) ops) = Some (N.testbit r i).
Proof.
  rewrite max_pattern_eq. set (W := 2 ^ n).
  intros Ha Hops.
  assert (forall f rest x, (forall a b, a < 2 ^ W -> b < 2 ^ W -> f a b < 2 ^ W) ->
            x < 2 ^ W -> Forall (fun p => p < 2 ^ W) rest -> fold_left f rest x < 2 ^ W) as Hfold
      by (intros f rest x Hf; apply fold_lt; exact Hf).
  destruct t; simpl in Ha; try discriminate.
  (* the six n-ary types: two or more operands *)
  1, 6, 7, 9, 10, 11:
    (destruct ops as [|p [|q rest]]; simpl in Ha; try discriminate;
     inversion Hops as [|? ? Hp Hops']; subst; inversion Hops' as [|? ? Hq Hrest]; subst;
     eexists; split; [reflexivity|]; cbn [skipn];
     split; [auto 8 using land_lt, lor_lt, lxor_lt, compl_lt|];
     intros i Hi; cbn [map den fold_bool option_map]; f_equal;
     try rewrite (testbit_compl W) by auto 8 using land_lt, lor_lt, lxor_lt;
     match goal with
     | |- context [fold_left N.land rest ?x] =>
       destruct (fold_bits N.land andb W i (fun a b => N.land_spec a b i) (land_lt W) rest x
                   ltac:(auto using land_lt) Hrest) as [_ ->]
     | |- context [fold_left N.lor rest ?x] =>
       destruct (fold_bits N.lor orb W i (fun a b => N.lor_spec a b i) (lor_lt W) rest x
                   ltac:(auto using lor_lt) Hrest) as [_ ->]
     | |- context [fold_left N.lxor rest ?x] =>
       destruct (fold_bits N.lxor xorb W i (fun a b => N.lxor_spec a b i) (lxor_lt W) rest x
                   ltac:(auto using lxor_lt) Hrest) as [_ ->]
     end;
     bits W; reflexivity).
  (* NOT and the four comparison types: exact operand count *)
  all: destruct ops as [|p [|q [|z zs]]]; simpl in Ha; try discriminate;
    repeat match goal with H : Forall _ (_ :: _) |- _ => inversion H; clear H; subst end;
    (eexists; split; [reflexivity|]; split; [auto 6 with patb|]);
    intros i Hi; cbn [map den un bin fold_bool fold_left option_map]; f_equal; bits W;
    repeat match goal with |- context [N.testbit ?x i] => destruct (N.testbit x i) end; reflexivity.
Qed.

Theorem eval_pattern_unsupported mp t ops :
  pattern_supported t = false -> eval_pattern mp t ops = Err GenerationError.
Proof. destruct t; simpl; try discriminate; reflexivity. Qed.

Theorem eval_pattern_short mp t ops :
  pattern_supported t = true -> (length ops < pattern_min_operands t)%nat ->
  eval_pattern mp t ops = Err PyIndexError.
Proof.
  destruct t; simpl; try discriminate; intros _ Hl;
    destruct ops as [|p [|q r]]; simpl in Hl; try lia; reflexivity.
Qed.
