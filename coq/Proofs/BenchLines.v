(* Line-level lemmas: the parser's reaction to every line shape of the layout grammar
   (BenchLayout.print_item), with or without the terminating newline. *)
Require Import Cirbo.Model.Base Cirbo.Model.Gate Cirbo.Model.Den Cirbo.Model.Circuit Cirbo.Model.Bench
        Cirbo.Model.BenchLayout.
Require Import Cirbo.Generated.GateTypes Cirbo.Generated.BenchDispatch.
Require Import Cirbo.Proofs.BenchStrings Cirbo.Proofs.BenchDispatchFacts.
Local Open Scope string_scope.

(* ------------------------------------------------------------------ spaces *)
Lemma spaces_all_in cs n : amem ch_sp cs = true -> all_in cs (spaces n) = true.
Proof.
  intros H; induction n as [|n IH]; [reflexivity|].
  change (spaces (S n)) with (String ch_sp (spaces n)). rewrite all_in_cons, H, IH. reflexivity.
Qed.

Lemma spaces_no_char ch n : ch <> ch_sp -> has_char ch (spaces n) = false.
Proof.
  intros N; induction n as [|n IH]; [reflexivity|].
  change (has_char ch (spaces (S n))) with (Ascii.eqb ch_sp ch || has_char ch (spaces n)).
  rewrite IH, orb_false_r. apply aeqb_neq. congruence.
Qed.

Lemma sp_in_sp : amem ch_sp [ch_sp] = true.
Proof. reflexivity. Qed.

(* ------------------------------------------------------------------ labels *)
Lemma label_ok_inv l :
  label_ok l = true ->
  all_chars label_char_ok l = true /\ exists a r, l = String a r /\ a <> comment_char /\ a <> ch_nl.
Proof.
  destruct l as [|a r]; simpl; [discriminate|].
  rewrite andb_true_iff, negb_true_iff. intros [H1 H2]. split; [exact H2|].
  exists a, r. split; [reflexivity|]. split.
  - apply aeqb_neq; exact H1.
  - apply andb_true_iff in H2 as [H2 _]. intros ->. discriminate H2.
Qed.

Lemma label_ne l : label_ok l = true -> l <> "".
Proof. destruct l; [discriminate|discriminate]. Qed.

Lemma label_no_char l x : label_ok l = true -> label_char_ok x = false -> has_char x l = false.
Proof. intros H Hx. apply label_ok_inv in H as [H _]. eapply all_chars_has_char; eauto. Qed.

Lemma label_none_in cs l :
  label_ok l = true -> (forall a, amem a cs = true -> label_char_ok a = false) -> none_in cs l = true.
Proof.
  intros H Hcs. apply label_ok_inv in H as [H _]. unfold none_in.
  eapply all_chars_impl; [|exact H]. intros a Ha. apply negb_true_iff.
  destruct (amem a cs) eqn:A; [|reflexivity]. rewrite (Hcs _ A) in Ha. discriminate.
Qed.

Lemma sp_not_label a : amem a [ch_sp] = true -> label_char_ok a = false.
Proof. unfold amem; simpl. rewrite orb_false_r, aeqb_eq. intros ->. reflexivity. Qed.

Lemma strip_set_not_label a : amem a input_strip = true \/ amem a output_strip = true -> label_char_ok a = false.
Proof. intros H. apply strip_sets_spec in H as [-> | [-> | ->]]; reflexivity. Qed.

Lemma strip_label cs p l q :
  label_ok l = true -> (forall a, amem a cs = true -> label_char_ok a = false) ->
  all_in cs p = true -> all_in cs q = true -> strip cs (p ++ l ++ q) = l.
Proof.
  intros Hl Hcs Hp Hq. apply strip_mid; auto using label_none_in, label_ne.
Qed.

(* ------------------------------------------------------------------ line classification *)
Lemma not_skip a r : a <> comment_char -> a <> ch_nl -> is_skip_line (String a r) = false.
Proof.
  intros N1 N2. unfold is_skip_line, NL. simpl.
  apply aeqb_neq in N1, N2. rewrite N1, N2. reflexivity.
Qed.

Lemma not_decl_line line :
  has_char ch_eq line = true -> is_input_line line = false /\ is_output_line line = false.
Proof.
  intros H. unfold is_input_line, is_output_line.
  destruct guards_present as [-> [-> _]]. rewrite H. simpl. rewrite !andb_false_r. split; reflexivity.
Qed.

(* ------------------------------------------------------------------ declaration lines *)
Lemma decl_no_eq kw l s1 s2 s3 e :
  has_char ch_eq kw = false -> label_ok l = true -> (e = "" \/ e = NL) ->
  has_char ch_eq ((kw ++ "(" ++ spaces s1 ++ l ++ spaces s2 ++ ")" ++ spaces s3) ++ e) = false.
Proof.
  intros Hk Hl He. rewrite !has_char_app, Hk, (label_no_char l ch_eq Hl eq_refl),
    !(spaces_no_char ch_eq) by discriminate.
  destruct He as [-> | ->]; reflexivity.
Qed.

Lemma decl_label cs kw cut l s1 s2 s3 e :
  cut = S (String.length kw) ->
  (forall a, amem a cs = true <-> a = ch_sp \/ a = ch_rb \/ a = ch_nl) ->
  label_ok l = true -> (e = "" \/ e = NL) ->
  strip cs (drop cut ((kw ++ "(" ++ spaces s1 ++ l ++ spaces s2 ++ ")" ++ spaces s3) ++ e)) = l.
Proof.
  intros -> Hcs Hl He.
  assert (Hsp : amem ch_sp cs = true) by (apply Hcs; auto).
  assert (Hrb : amem ch_rb cs = true) by (apply Hcs; auto).
  assert (Hnl : amem ch_nl cs = true) by (apply Hcs; auto).
  replace ((kw ++ "(" ++ spaces s1 ++ l ++ spaces s2 ++ ")" ++ spaces s3) ++ e)
    with ((kw ++ "(") ++ (spaces s1 ++ l ++ (spaces s2 ++ ")" ++ spaces s3 ++ e)))
    by (rewrite !sapp_assoc; reflexivity).
  replace (S (String.length kw)) with (String.length (kw ++ "("))
    by (rewrite slength_app; simpl; lia).
  rewrite drop_app. apply strip_label; auto.
  - intros a Ha. apply Hcs in Ha as [-> | [-> | ->]]; reflexivity.
  - apply spaces_all_in; exact Hsp.
  - rewrite !all_in_app, !spaces_all_in by exact Hsp.
    change (all_in cs ")") with (amem ch_rb cs && true). rewrite Hrb.
    destruct He as [-> | ->]; [reflexivity|]. change (all_in cs NL) with (amem ch_nl cs && true).
    rewrite Hnl. reflexivity.
Qed.

Lemma kw_length kw K : upper kw = K -> String.length kw = String.length K.
Proof. intros <-. symmetry. apply upper_length. Qed.

Lemma kw_no_char kw K x : upper kw = K -> upper_char x = x -> has_char x K = false -> has_char x kw = false.
Proof. intros <- Hx H. eapply has_char_upper; eauto. Qed.

Lemma upper_eq : upper_char ch_eq = ch_eq.
Proof. reflexivity. Qed.

Lemma input_strip_spec a : amem a input_strip = true <-> a = ch_sp \/ a = ch_rb \/ a = ch_nl.
Proof.
  rewrite <- strip_sets_spec. split; [auto|]. rewrite <- strip_sets_equal. tauto.
Qed.
Lemma output_strip_spec a : amem a output_strip = true <-> a = ch_sp \/ a = ch_rb \/ a = ch_nl.
Proof. rewrite <- strip_sets_equal. apply input_strip_spec. Qed.

Lemma line_input c kw l s1 s2 s3 e :
  upper kw = input_kw -> label_ok l = true -> (e = "" \/ e = NL) ->
  process_line c ((kw ++ "(" ++ spaces s1 ++ l ++ spaces s2 ++ ")" ++ spaces s3) ++ e)
  = Ok (emplace_gate_raw c l INPUT []).
Proof.
  intros Hk Hl He. unfold process_line.
  destruct (kw_first kw input_kw (or_introl eq_refl) Hk) as [a [r [Ekw [N1 N2]]]].
  assert (Hskip : is_skip_line ((kw ++ "(" ++ spaces s1 ++ l ++ spaces s2 ++ ")" ++ spaces s3) ++ e) = false).
  { rewrite Ekw. simpl. apply not_skip; assumption. }
  rewrite Hskip.
  assert (Hin : is_input_line ((kw ++ "(" ++ spaces s1 ++ l ++ spaces s2 ++ ")" ++ spaces s3) ++ e) = true).
  { unfold is_input_line, startswith.
    rewrite decl_no_eq; auto; [|eapply kw_no_char; [exact Hk|exact upper_eq|apply kw_no_eq]].
    rewrite sapp_assoc, upper_app, Hk, prefix_app. rewrite orb_true_r. reflexivity. }
  rewrite Hin. unfold process_input_gate.
  rewrite (decl_label input_strip kw input_cut l s1 s2 s3 e); auto.
  - rewrite input_cut_spec, (kw_length _ _ Hk). reflexivity.
  - apply input_strip_spec.
Qed.

Lemma line_output c kw l s1 s2 s3 e :
  upper kw = output_kw -> label_ok l = true -> (e = "" \/ e = NL) ->
  process_line c ((kw ++ "(" ++ spaces s1 ++ l ++ spaces s2 ++ ")" ++ spaces s3) ++ e)
  = Ok (set_outputs_raw c (outputs c ++ [l])%list).
Proof.
  intros Hk Hl He. unfold process_line.
  destruct (kw_first kw output_kw (or_intror (or_introl eq_refl)) Hk) as [a [r [Ekw [N1 N2]]]].
  assert (Hskip : is_skip_line ((kw ++ "(" ++ spaces s1 ++ l ++ spaces s2 ++ ")" ++ spaces s3) ++ e) = false).
  { rewrite Ekw. simpl. apply not_skip; assumption. }
  rewrite Hskip.
  assert (Hin : is_input_line ((kw ++ "(" ++ spaces s1 ++ l ++ spaces s2 ++ ")" ++ spaces s3) ++ e) = false).
  { unfold is_input_line, startswith.
    rewrite sapp_assoc, upper_app, Hk, output_is_not_input. reflexivity. }
  rewrite Hin.
  assert (Hout : is_output_line ((kw ++ "(" ++ spaces s1 ++ l ++ spaces s2 ++ ")" ++ spaces s3) ++ e) = true).
  { unfold is_output_line, startswith.
    rewrite decl_no_eq; auto; [|eapply kw_no_char; [exact Hk|exact upper_eq|apply kw_no_eq]].
    rewrite sapp_assoc, upper_app, Hk, prefix_app. rewrite orb_true_r. reflexivity. }
  rewrite Hout. unfold process_output_gate.
  rewrite (decl_label output_strip kw output_cut l s1 s2 s3 e); auto.
  - rewrite output_cut_spec, (kw_length _ _ Hk). reflexivity.
  - apply output_strip_spec.
Qed.

(* ------------------------------------------------------------------ skipped lines *)
Lemma line_comment c text e : process_line c (String comment_char text ++ e) = Ok c.
Proof.
  unfold process_line.
  change (is_skip_line (String comment_char text ++ e))
    with (String.eqb (String comment_char (text ++ e)) NL || Ascii.eqb comment_char comment_char).
  rewrite aeqb_refl, orb_true_r. reflexivity.
Qed.

Lemma line_blank c e : (e = "" \/ e = NL) -> process_line c ("" ++ e) = Ok c.
Proof. intros [-> | ->]; reflexivity. Qed.

(* ------------------------------------------------------------------ definition lines: the name *)
Lemma name_gate l s1 rest :
  label_ok l = true ->
  parse_name_gate (l ++ spaces s1 ++ "=" ++ rest) = Ok (l, strip [ch_sp] rest).
Proof.
  intros Hl. unfold parse_name_gate.
  replace (l ++ spaces s1 ++ "=" ++ rest) with ((l ++ spaces s1) ++ String ch_eq rest)
    by (rewrite sapp_assoc; reflexivity).
  rewrite find_char_app
    by (rewrite has_char_app, (label_no_char l ch_eq Hl eq_refl), spaces_no_char by discriminate; reflexivity).
  f_equal. f_equal.
  - rewrite take_app. change (l ++ spaces s1) with ("" ++ l ++ spaces s1).
    apply strip_label; auto using sp_not_label, spaces_all_in, sp_in_sp.
  - f_equal.
    replace ((l ++ spaces s1) ++ String ch_eq rest) with (((l ++ spaces s1) ++ "=") ++ rest)
      by (rewrite !sapp_assoc; reflexivity).
    replace (S (String.length (l ++ spaces s1))) with (String.length ((l ++ spaces s1) ++ "="))
      by (rewrite (slength_app (l ++ spaces s1) "="); simpl; lia).
    apply drop_app.
Qed.

Lemma def_line c l s1 rest :
  label_ok l = true ->
  process_line c (l ++ spaces s1 ++ "=" ++ rest) =
  (let body := strip [ch_sp] rest in
   if String.eqb (upper (take vdd_prefix_len body)) VDD_NAME
   then call_handler c VDD_NAME l [] false
   else
     do oo <- parse_operator_gate body;
     let '(operator, operands) := oo in
     if (String.eqb operator (gname ALWAYS_FALSE) || String.eqb operator (gname ALWAYS_TRUE))
        && (negb const_keeps_operands || labels_eqb operands [""])
     then call_handler c operator l [] true
     else call_handler c operator l operands true).
Proof.
  intros Hl. unfold process_line.
  destruct (label_ok_inv _ Hl) as [_ [a [r [El [N1 N2]]]]].
  assert (Hskip : is_skip_line (l ++ spaces s1 ++ "=" ++ rest) = false)
    by (rewrite El; apply not_skip; assumption).
  rewrite Hskip.
  assert (Heq : has_char ch_eq (l ++ spaces s1 ++ "=" ++ rest) = true).
  { rewrite !has_char_app. change (has_char ch_eq "=") with true. rewrite !orb_true_r. reflexivity. }
  destruct (not_decl_line _ Heq) as [-> ->].
  unfold process_operator_gate. rewrite (name_gate _ _ _ Hl). reflexivity.
Qed.

(* ------------------------------------------------------------------ definition lines: the body *)
Lemma nl_not_sp : amem ch_nl [ch_sp] = false.
Proof. reflexivity. Qed.
Lemma rb_not_sp : amem ch_rb [ch_sp] = false.
Proof. reflexivity. Qed.

(* body of a gate line after strip(' '): the spaces before the operator name go, what follows
   the closing parenthesis is irrelevant *)
Lemma strip_body p m x q e :
  none_in [ch_sp] m = true -> m <> "" -> (e = "" \/ e = NL) ->
  exists tail, strip [ch_sp] (spaces p ++ m ++ x ++ ")" ++ spaces q ++ e) = m ++ x ++ ")" ++ tail.
Proof.
  intros Hm Hne He. unfold strip. destruct He as [-> | ->].
  - exists "". rewrite !sapp_nil_r.
    replace (spaces p ++ m ++ x ++ ")" ++ spaces q) with (((spaces p ++ m ++ x) ++ String ch_rb "") ++ spaces q)
      by (rewrite !sapp_assoc; reflexivity).
    rewrite rstrip_all_in by (apply spaces_all_in, sp_in_sp).
    rewrite rstrip_last by exact rb_not_sp.
    rewrite !sapp_assoc, lstrip_all_in by (apply spaces_all_in, sp_in_sp).
    rewrite lstrip_none_in by assumption. reflexivity.
  - exists (spaces q ++ NL).
    replace (spaces p ++ m ++ x ++ ")" ++ spaces q ++ NL)
      with ((spaces p ++ m ++ x ++ ")" ++ spaces q) ++ String ch_nl "")
      by (rewrite !sapp_assoc; reflexivity).
    rewrite rstrip_last by exact nl_not_sp.
    rewrite !sapp_assoc, lstrip_all_in by (apply spaces_all_in, sp_in_sp).
    rewrite lstrip_none_in by assumption. reflexivity.
Qed.

Lemma strip_body_kw p m q e :
  none_in [ch_sp] m = true -> m <> "" -> (e = "" \/ e = NL) ->
  exists tail, strip [ch_sp] (spaces p ++ m ++ spaces q ++ e) = m ++ tail.
Proof.
  intros Hm Hne He. destruct He as [-> | ->].
  - exists "". rewrite !sapp_nil_r. apply strip_mid; auto using spaces_all_in, sp_in_sp.
  - exists (spaces q ++ NL). unfold strip.
    replace (spaces p ++ m ++ spaces q ++ NL) with ((spaces p ++ m ++ spaces q) ++ String ch_nl "")
      by (rewrite !sapp_assoc; reflexivity).
    rewrite rstrip_last by exact nl_not_sp.
    rewrite !sapp_assoc, lstrip_all_in by (apply spaces_all_in, sp_in_sp).
    rewrite lstrip_none_in by assumption. reflexivity.
Qed.

Lemma comma_not_sp : amem ch_comma [ch_sp] = false.
Proof. reflexivity. Qed.

(* _parse_operator_gate on  name sp* "(" args ")" anything *)
Lemma operator_gate opn s3 args tail :
  has_char ch_lb opn = false -> has_char ch_rb opn = false ->
  none_in [ch_sp] opn = true -> opn <> "" -> has_char ch_rb args = false ->
  parse_operator_gate (opn ++ spaces s3 ++ "(" ++ args ++ ")" ++ tail)
  = Ok (upper opn, map (strip [ch_sp]) (split_char ch_comma args)).
Proof.
  intros Hlb Hrb Hsp Hne Hargs. unfold parse_operator_gate.
  replace (opn ++ spaces s3 ++ "(" ++ args ++ ")" ++ tail)
    with ((opn ++ spaces s3) ++ String ch_lb (args ++ ")" ++ tail)) at 1
    by (rewrite !sapp_assoc; reflexivity).
  rewrite find_char_app
    by (rewrite has_char_app, Hlb, spaces_no_char by discriminate; reflexivity).
  replace (opn ++ spaces s3 ++ "(" ++ args ++ ")" ++ tail)
    with ((opn ++ spaces s3 ++ "(" ++ args) ++ String ch_rb tail) at 1
    by (rewrite !sapp_assoc; reflexivity).
  rewrite find_char_app.
  2:{ rewrite !has_char_app, Hrb, Hargs, spaces_no_char by discriminate. reflexivity. }
  f_equal. f_equal.
  - f_equal.
    replace (opn ++ spaces s3 ++ "(" ++ args ++ ")" ++ tail)
      with ((opn ++ spaces s3) ++ ("(" ++ args ++ ")" ++ tail)) by (rewrite !sapp_assoc; reflexivity).
    rewrite take_app. change (opn ++ spaces s3) with ("" ++ opn ++ spaces s3).
    apply strip_mid; auto using spaces_all_in, sp_in_sp.
  - rewrite <- (map_strip_split_strip [ch_sp] ch_comma args comma_not_sp). f_equal. f_equal. f_equal.
    unfold slice.
    replace (opn ++ spaces s3 ++ "(" ++ args ++ ")" ++ tail)
      with (((opn ++ spaces s3) ++ "(") ++ (args ++ ")" ++ tail)) by (rewrite !sapp_assoc; reflexivity).
    replace (S (String.length (opn ++ spaces s3))) with (String.length ((opn ++ spaces s3) ++ "("))
      by (rewrite (slength_app (opn ++ spaces s3) "("); simpl; lia).
    rewrite drop_app.
    replace (String.length (opn ++ spaces s3 ++ "(" ++ args) - String.length ((opn ++ spaces s3) ++ "("))%nat
      with (String.length args).
    2:{ replace (opn ++ spaces s3 ++ "(" ++ args) with (((opn ++ spaces s3) ++ "(") ++ args)
          by (rewrite !sapp_assoc; reflexivity).
        rewrite (slength_app ((opn ++ spaces s3) ++ "(") args). lia. }
    apply take_app.
Qed.

(* ---- the operand list ---- *)
Lemma concat_no_char x sep l :
  has_char x sep = false -> Forall (fun s => has_char x s = false) l ->
  has_char x (String.concat sep l) = false.
Proof.
  intros Hsep H. induction H as [|a l Ha Hl IH]; [reflexivity|].
  destruct l as [|b l]; [exact Ha|].
  rewrite concat_cons2, !has_char_app, Ha, Hsep, IH. reflexivity.
Qed.

Lemma operand_no_char x o :
  label_ok (operand_label o) = true -> label_char_ok x = false -> x <> ch_sp ->
  has_char x (print_operand o) = false.
Proof.
  intros Hl Hx Hsp. unfold print_operand. fold (operand_label o).
  rewrite !has_char_app, (label_no_char _ x Hl Hx), !spaces_no_char by exact Hsp. reflexivity.
Qed.

Lemma args_no_char x ops s4 :
  forallb (fun o => label_ok (operand_label o)) ops = true ->
  label_char_ok x = false -> x <> ch_sp -> x <> ch_comma ->
  has_char x (print_args ops s4) = false.
Proof.
  intros Hops Hx Hsp Hc. unfold print_args. destruct ops as [|o ops]; [apply spaces_no_char; exact Hsp|].
  apply concat_no_char.
  - cbn [has_char]. rewrite orb_false_r. apply aeqb_neq. congruence.
  - rewrite forallb_forall in Hops. apply Forall_forall. intros s Hs.
    apply in_map_iff in Hs as [o' [<- Ho']]. apply operand_no_char; auto.
Qed.

Lemma strip_operand o :
  label_ok (operand_label o) = true -> strip [ch_sp] (print_operand o) = operand_label o.
Proof.
  intros H. unfold print_operand. fold (operand_label o). apply strip_label; auto using sp_not_label, spaces_all_in, sp_in_sp.
Qed.

Lemma split_concat_cons o rest :
  rest <> []%list -> has_char ch_comma o = false ->
  split_char ch_comma (String.concat "," (o :: rest)) = (o :: split_char ch_comma (String.concat "," rest))%list.
Proof.
  intros Hne Hnc. destruct rest as [|b r]; [contradiction|].
  rewrite concat_cons2. apply (split_char_app ch_comma o _ Hnc).
Qed.

Lemma operands_of_args ops :
  ops <> []%list -> forallb (fun o => label_ok (operand_label o)) ops = true ->
  map (strip [ch_sp]) (split_char ch_comma (String.concat "," (map print_operand ops)))
  = map operand_label ops.
Proof.
  induction ops as [|o ops IH]; [contradiction|]. intros _ H.
  cbn [forallb] in H. apply andb_true_iff in H as [Ho Hops].
  assert (Hnc : has_char ch_comma (print_operand o) = false)
    by (apply operand_no_char; [exact Ho|reflexivity|discriminate]).
  destruct ops as [|o2 ops].
  - cbn [map String.concat]. rewrite (split_char_nosep _ _ Hnc). cbn [map].
    rewrite (strip_operand _ Ho). reflexivity.
  - cbn [map]. cbn [map] in IH.
    rewrite split_concat_cons by (try discriminate; exact Hnc).
    cbn [map]. rewrite (strip_operand _ Ho). f_equal. apply IH; [discriminate|exact Hops].
Qed.

Lemma operands_parsed ops s4 :
  forallb (fun o => label_ok (operand_label o)) ops = true ->
  map (strip [ch_sp]) (split_char ch_comma (print_args ops s4))
  = match ops with []%list => [""]%list | _ => map operand_label ops end.
Proof.
  intros H. destruct ops as [|o ops].
  - unfold print_args. rewrite split_char_nosep by (apply spaces_no_char; discriminate).
    simpl. rewrite strip_all_in by (apply spaces_all_in, sp_in_sp). reflexivity.
  - apply operands_of_args; [discriminate|exact H].
Qed.

(* ---- the dispatch ---- *)
Lemma call_handler_ok c key h l args in_try :
  lookup_processing processings key = Some h -> handler_accepts h (List.length args) = true ->
  call_handler c key l args in_try = Ok (emplace_gate_raw c l (htype h) args).
Proof. intros H A. unfold call_handler. rewrite H, A. reflexivity. Qed.

Lemma gate_dispatch c l key h labels :
  lookup_processing processings key = Some h ->
  handler_accepts h (List.length labels) = true -> key <> VDD_NAME ->
  forallb label_ok labels = true ->
  (let operands := match labels with []%list => [""]%list | _ => labels end in
   if (String.eqb key (gname ALWAYS_FALSE) || String.eqb key (gname ALWAYS_TRUE))
      && (negb const_keeps_operands || labels_eqb operands [""])
   then call_handler c key l [] true
   else call_handler c key l operands true)
  = Ok (emplace_gate_raw c l (htype h) labels).
Proof.
  intros Hk Ha Hv Hl. destruct guards_present as [_ [_ ->]]. cbv zeta.
  destruct labels as [|o labels].
  - destruct (zero_arity_keys _ _ Hk Ha Hv) as [-> | ->].
    + rewrite String.eqb_refl. simpl. apply call_handler_ok; assumption.
    + rewrite String.eqb_refl, orb_true_r. simpl. apply call_handler_ok; assumption.
  - assert (E : labels_eqb (o :: labels) [""] = false).
    { simpl in Hl. apply andb_true_iff in Hl as [Ho _].
      unfold labels_eqb. simpl. destruct o; [discriminate Ho|reflexivity]. }
    rewrite E. simpl negb. rewrite orb_false_l, andb_false_r. apply call_handler_ok; assumption.
Qed.

(* ---- the operator name in any letter case ---- *)
Lemma opn_facts opn h :
  lookup_processing processings (upper opn) = Some h ->
  has_char ch_lb opn = false /\ has_char ch_rb opn = false /\ none_in [ch_sp] opn = true /\ opn <> "".
Proof.
  intros H. destruct (key_clean _ _ H) as [Hc Hne].
  assert (X : forall x, upper_char x = x -> opn_char_ok x = false -> has_char x opn = false).
  { intros x Hx Hok. eapply has_char_upper; [exact Hx|]. eapply all_chars_has_char; eauto. }
  repeat split; try (apply X; reflexivity).
  - unfold none_in. clear Hne.
    assert (Hs : has_char ch_sp opn = false) by (apply X; reflexivity).
    clear -Hs. induction opn as [|a r IH]; [reflexivity|].
    simpl in Hs. apply orb_false_iff in Hs as [H1 H2].
    change (all_chars (fun a => negb (amem a [ch_sp])) (String a r))
      with (negb (Ascii.eqb a ch_sp || false) && all_chars (fun a => negb (amem a [ch_sp])) r).
    rewrite H1, (IH H2). reflexivity.
  - intros ->. apply Hne. reflexivity.
Qed.

(* ------------------------------------------------------------------ gate and vdd lines *)
Lemma line_gate c l s1 s2 opn s3 t ops s4 s5 e :
  item_ok (IGate l s1 s2 opn s3 t ops s4 s5) = true -> (e = "" \/ e = NL) ->
  process_line c (print_item (IGate l s1 s2 opn s3 t ops s4 s5) ++ e)
  = Ok (emplace_gate_raw c l t (map operand_label ops)).
Proof.
  intros Hok He. cbn [item_ok] in Hok.
  apply andb_true_iff in Hok as [Hok Hh]. apply andb_true_iff in Hok as [Hok Hv].
  apply andb_true_iff in Hok as [Hl Hops].
  destruct (lookup_processing processings (upper opn)) as [h|] eqn:Hk; [|discriminate].
  apply andb_true_iff in Hh as [Ht Ha]. apply gtype_beq_eq in Ht.
  apply negb_true_iff, String.eqb_neq in Hv.
  destruct (opn_facts _ _ Hk) as [Hlb [Hrb [Hsp Hne]]].
  unfold print_item.
  replace ((l ++ spaces s1 ++ "=" ++ spaces s2 ++ opn ++ spaces s3 ++ "(" ++ print_args ops s4 ++ ")" ++ spaces s5) ++ e)
    with (l ++ spaces s1 ++ "=" ++ (spaces s2 ++ opn ++ (spaces s3 ++ "(" ++ print_args ops s4) ++ ")" ++ spaces s5 ++ e))
    by (rewrite !sapp_assoc; reflexivity).
  rewrite (def_line _ _ _ _ Hl). cbv zeta.
  destruct (strip_body s2 opn (spaces s3 ++ "(" ++ print_args ops s4) s5 e Hsp Hne He) as [tail ->].
  replace (opn ++ (spaces s3 ++ "(" ++ print_args ops s4) ++ ")" ++ tail)
    with (opn ++ spaces s3 ++ "(" ++ print_args ops s4 ++ ")" ++ tail) by (rewrite !sapp_assoc; reflexivity).
  rewrite upper_take, upper_app, (vdd_test_key _ _ _ Hk Hv).
  rewrite operator_gate; auto.
  2:{ apply args_no_char; auto; discriminate. }
  simpl bind. cbv beta iota.
  rewrite (operands_parsed _ _ Hops).
  assert (Hlab : forallb label_ok (map operand_label ops) = true).
  { clear -Hops. induction ops as [|o ops IH]; [reflexivity|]. simpl in *.
    apply andb_true_iff in Hops as [-> H]. rewrite (IH H). reflexivity. }
  assert (Hlen : handler_accepts h (List.length (map operand_label ops)) = true)
    by (rewrite map_length; exact Ha).
  pose proof (gate_dispatch c l (upper opn) h (map operand_label ops) Hk Hlen Hv Hlab) as G.
  cbv zeta in G. rewrite Ht in G. rewrite <- G.
  destruct ops; reflexivity.
Qed.

Lemma line_vdd c l s1 s2 kw s3 e :
  item_ok (IVdd l s1 s2 kw s3) = true -> (e = "" \/ e = NL) ->
  process_line c (print_item (IVdd l s1 s2 kw s3) ++ e) = Ok (emplace_gate_raw c l ALWAYS_TRUE []).
Proof.
  intros Hok He. cbn [item_ok] in Hok. apply andb_true_iff in Hok as [Hl Hk]. apply String.eqb_eq in Hk.
  unfold print_item.
  replace ((l ++ spaces s1 ++ "=" ++ spaces s2 ++ kw ++ spaces s3) ++ e)
    with (l ++ spaces s1 ++ "=" ++ (spaces s2 ++ kw ++ spaces s3 ++ e))
    by (rewrite !sapp_assoc; reflexivity).
  rewrite (def_line _ _ _ _ Hl). cbv zeta.
  destruct vdd_handler as [h [Hh [Ht Ha]]].
  assert (Hkw : lookup_processing processings (upper kw) = Some h) by (rewrite Hk; exact Hh).
  destruct (opn_facts _ _ Hkw) as [_ [_ [Hsp Hne]]].
  destruct (strip_body_kw s2 kw s3 e Hsp Hne He) as [tail ->].
  replace vdd_prefix_len with (String.length kw)
    by (rewrite (kw_length _ _ Hk); apply vdd_name_length).
  rewrite take_app, Hk, String.eqb_refl.
  rewrite (call_handler_ok c VDD_NAME h l []%list false Hh Ha), Ht. reflexivity.
Qed.

(* ------------------------------------------------------------------ every line of the grammar *)
Theorem line_item c it e :
  item_ok it = true -> (e = "" \/ e = NL) ->
  process_line c (print_item it ++ e) = Ok (item_effect it c).
Proof.
  intros Hok He. destruct it as [kw l s1 s2 s3|kw l s1 s2 s3|l s1 s2 opn s3 t ops s4 s5|l s1 s2 kw s3|text|].
  - cbn [item_ok] in Hok. apply andb_true_iff in Hok as [Hk Hl]. apply String.eqb_eq in Hk.
    apply line_input; assumption.
  - cbn [item_ok] in Hok. apply andb_true_iff in Hok as [Hk Hl]. apply String.eqb_eq in Hk.
    apply line_output; assumption.
  - apply line_gate; assumption.
  - apply line_vdd; assumption.
  - apply line_comment.
  - apply line_blank; assumption.
Qed.
