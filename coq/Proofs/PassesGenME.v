(* The regenerated MergeEquivalentGates (Generated/PassesGen.v, translator T15: _find_equivalent_gates_groups,
   _replace_equivalent_gates, the dataclass _Keep, MergeEquivalentGates._transform) against the hand model
   Passes.find_equivalent_groups / replace_equivalent_gates / merge_equivalent_gates.

   The source keeps one mutable _Keep object per group, shared by the entries of the dict _old_to_new_gate (a label
   that occurs in several groups keeps the LAST one); the hand model looks up the FIRST group containing the label
   (group_index) and keeps an association list from group numbers to representatives.  The two agree when no label
   occurs twice in the groups and every group has more than one element (`groups_ok`), which is what
   _find_equivalent_gates_groups returns for EVERY circuit (the truth tables are the values of a dict, so every
   label belongs to exactly one group): the composed pass is equal to the model without any hypothesis. *)
Require Import Cirbo.Model.Base Cirbo.Model.Gate Cirbo.Model.Circuit Cirbo.Model.Traverse Cirbo.Model.Eval
               Cirbo.Model.Passes.
Require Import Cirbo.Generated.GateTypes Cirbo.Generated.PassesGen.
Require Import Cirbo.Proofs.DictFacts Cirbo.Proofs.PassesGenBase.
From Coq Require Import Permutation.

(* ---------------- _find_equivalent_gates_groups ---------------- *)
Lemma adict_append_group_insert gs tt l : py_adict_append py_sts_eqb gs tt l = group_insert gs tt l.
Proof.
  induction gs as [|[tt' ls] gs IH]; [reflexivity|].
  simpl. unfold py_sts_eqb, stl_eqb in *. destruct (all_eqb st_beq tt' tt); [reflexivity|]. f_equal. exact IH.
Qed.

Lemma foldM_pure {A S} (f : S -> A -> S) l : forall s, foldM (fun s x => Ok (f s x)) l s = Ok (fold_left f l s).
Proof. induction l as [|x xs IH]; intros s; simpl; [reflexivity|apply IH]. Qed.

Theorem gen_find_groups_eq c : gen_find_equivalent_gates_groups c = find_equivalent_groups c.
Proof.
  unfold gen_find_equivalent_gates_groups, find_equivalent_groups.
  apply pg_bind_ext. intros gtt.
  rewrite (pg_foldM_ext _ (fun gs kv => Ok (group_insert gs (snd kv) (fst kv))))
    by (intros; rewrite adict_append_group_insert; reflexivity).
  rewrite (foldM_pure (fun gs (kv : label * list st) => group_insert gs (snd kv) (fst kv))). reflexivity.
Qed.

(* ---------------- _replace_equivalent_gates ---------------- *)
Definition groups_ok (groups : list (list label)) : Prop :=
  NoDup (concat groups) /\ Forall (fun g => 1 < length g) groups.

(* the dict built by the first loop: label -> number of the (last) group containing it *)
Fixpoint assign (groups : list (list label)) (i : nat) (d : dict nat) : dict nat :=
  match groups with
  | [] => d
  | g :: gs => assign gs (S i) (fold_left (fun d x => dset d x i) g d)
  end.

Lemma dget_fold_dset g i : forall (d : dict nat) l,
  dget (fold_left (fun d x => dset d x i) g d) l = if memb l g then Some i else dget d l.
Proof.
  induction g as [|x xs IH]; intros d l; simpl; [reflexivity|].
  rewrite IH, dget_dset. destruct (memb l xs), (leqb l x); reflexivity.
Qed.

Lemma group_index_None groups l : ~ In l (concat groups) -> forall i, group_index groups l i = None.
Proof.
  induction groups as [|g gs IH]; intros Hn i; simpl; [reflexivity|].
  simpl in Hn. rewrite in_app_iff in Hn.
  destruct (memb l g) eqn:E; [apply memb_In in E; tauto|]. apply IH. tauto.
Qed.

Lemma group_index_bound groups l : forall i j, group_index groups l i = Some j -> i <= j < i + length groups.
Proof.
  induction groups as [|g gs IH]; intros i j; simpl; [discriminate|].
  destruct (memb l g); [intros [= <-]; lia|]. intros H. apply IH in H. lia.
Qed.

Lemma nodup_app_r {A} (a b : list A) : NoDup (a ++ b) -> NoDup b.
Proof. induction a as [|x a IH]; simpl; [auto|]. inversion 1; auto. Qed.

Lemma dget_assign groups l : NoDup (concat groups) -> forall i d,
  dget (assign groups i d) l = match group_index groups l i with Some j => Some j | None => dget d l end.
Proof.
  induction groups as [|g gs IH]; intros Hnd i d; simpl; [reflexivity|].
  simpl in Hnd. rewrite IH by (eapply nodup_app_r; exact Hnd).
  rewrite dget_fold_dset. destruct (memb l g) eqn:E; [|reflexivity].
  rewrite group_index_None; [reflexivity|].
  apply memb_In in E. intros Hin.
  clear IH. induction g as [|x xs IHg]; [contradiction|].
  simpl in Hnd. inversion Hnd as [|? ? Hx Hrest]; subst.
  destruct E as [->|E]; [apply Hx, in_or_app; right; exact Hin|exact (IHg Hrest E)].
Qed.

Lemma phase1_eq groups : Forall (fun g => 1 < length g) groups -> forall heap (d : dict nat),
  foldM (fun '(heap, d) g =>
           if Nat.leb (length g) 1 then Ok (heap, d)
           else let '(heap, r) := py_heap_alloc heap in
                do d <- foldM (fun d x => Ok (dset d x r)) g d; Ok (heap, d)) groups (heap, d)
  = Ok (heap ++ repeat None (length groups), assign groups (length heap) d).
Proof.
  induction 1 as [|g gs Hg _ IH]; intros heap d; simpl.
  - rewrite app_nil_r. reflexivity.
  - destruct (Nat.leb_spec (length g) 1) as [Hle|_]; [lia|].
    rewrite (foldM_pure (fun (d : dict nat) x => dset d x (length heap))). cbn [bind].
    rewrite IH, app_length, Nat.add_1_r, <- app_assoc. reflexivity.
Qed.

(* the heap of _Keep objects against the association list of the model *)
Definition Rk (heap : list (option label)) (k : keeps) : Prop := forall i, py_heap_get heap i = keep_get k i.

Lemma heap_get_repeat n i : py_heap_get (repeat None n) i = None.
Proof. unfold py_heap_get. revert i. induction n as [|n IH]; intros [|i]; simpl; auto. Qed.

Lemma heap_set_length h : forall i v, length (py_heap_set h i v) = length h.
Proof. induction h as [|x t IH]; intros [|i] v; simpl; auto. Qed.

Lemma heap_get_set h : forall i v j, i < length h ->
  py_heap_get (py_heap_set h i v) j = if Nat.eqb j i then v else py_heap_get h j.
Proof.
  unfold py_heap_get. induction h as [|x t IH]; intros i v j Hi; simpl in Hi; [lia|].
  destruct i as [|i], j as [|j]; simpl; try reflexivity. apply IH. lia.
Qed.

Section Replace.
  Variable groups : list (list label).
  Variable d : dict nat.
  Hypothesis Hd : forall l, dget d l = group_index groups l 0.

  Lemma new_name_sim heap k l : Rk heap k -> length heap = length groups ->
    exists heap', gen_replace_equivalent_gates_get_gate_new_name d heap l = Ok (heap', fst (me_new_name groups k l))
                  /\ Rk heap' (snd (me_new_name groups k l)) /\ length heap' = length groups.
  Proof.
    intros Hrk Hlen. unfold gen_replace_equivalent_gates_get_gate_new_name, me_new_name, dmem, py_dict_getitem.
    rewrite Hd. destruct (group_index groups l 0) as [i|] eqn:Gi; cbn [negb bind].
    2:{ exists heap. auto. }
    unfold gen_Keep_set_or_get_existing. rewrite (Hrk i).
    destruct (keep_get k i) as [r|] eqn:Ek; cbn [bind].
    - rewrite (Hrk i), Ek. cbn [bind fst snd]. exists heap. auto.
    - apply group_index_bound in Gi. assert (Hi : i < length heap) by lia.
      rewrite (heap_get_set heap i (Some l) i Hi), Nat.eqb_refl. cbn [bind fst snd].
      exists (py_heap_set heap i (Some l)). split; [reflexivity|]. split; [|rewrite heap_set_length; exact Hlen].
      intros j. rewrite (heap_get_set heap i (Some l) j Hi). simpl. destruct (Nat.eqb j i); [reflexivity|apply Hrk].
  Qed.

  Lemma new_names_sim ls : forall heap k, Rk heap k -> length heap = length groups ->
    exists heap', py_map_acc (fun heap x_ => gen_replace_equivalent_gates_get_gate_new_name d heap x_) ls heap
                  = Ok (heap', fst (me_new_names groups k ls))
                  /\ Rk heap' (snd (me_new_names groups k ls)) /\ length heap' = length groups.
  Proof.
    induction ls as [|l ls IH]; intros heap k Hrk Hlen; simpl.
    - exists heap. auto.
    - destruct (new_name_sim heap k l Hrk Hlen) as (h1 & E1 & R1 & L1). rewrite E1. cbn [bind fst snd].
      destruct (me_new_name groups k l) as [r k1]. cbn [fst snd] in *.
      destruct (IH h1 k1 R1 L1) as (h2 & E2 & R2 & L2). rewrite E2. cbn [bind fst snd].
      destruct (me_new_names groups k1 ls) as [rs k2]. cbn [fst snd] in *.
      exists h2. auto.
  Qed.
End Replace.

Definition Rst (groups : list (list label)) (a : list (option label) * circuit) (b : circuit * keeps) : Prop :=
  snd a = fst b /\ Rk (fst a) (snd b) /\ length (fst a) = length groups.

Theorem gen_replace_eq c groups : groups_ok groups ->
  gen_replace_equivalent_gates c groups = replace_equivalent_gates c groups.
Proof.
  intros [Hnd Hbig]. unfold gen_replace_equivalent_gates, replace_equivalent_gates, dfs_emission.
  cbv zeta.
  match goal with |- context [foldM ?f groups ?init] =>
    replace (foldM f groups init)
      with (Ok (A := list (option label) * dict nat)
               ([] ++ repeat None (length groups), assign groups (length (@nil (option label))) []))
      by (symmetry; exact (phase1_eq groups Hbig [] [])) end.
  cbn [bind app length].
  set (d := assign groups 0 []).
  assert (Hd : forall l, dget d l = group_index groups l 0).
  { intros l. subst d. rewrite (dget_assign groups l Hnd). destruct (group_index groups l 0); reflexivity. }
  rewrite pg_bind_assoc.
  destruct (traverse DFS false c (Some (outputs c)) true no_abort) as [log|e] eqn:Ht; cbn [bind]; [|reflexivity].
  match goal with |- context [foldM ?f log (repeat None (length groups), empty_circuit)] => set (h := f) end.
  rewrite (hook_fold_same h (fun (s : list (option label) * circuit) l =>
               do g <- get_gate c l; gen_replace_equivalent_gates_process_gate d (fst s) (snd s) l g)
             (fun s l => match s with (_, _) => eq_refl end) (fun s l => match s with (_, _) => eq_refl end)
             (fun s l => match s with (_, _) => eq_refl end) (fun s l t => match s with (_, _) => eq_refl end)
             (fun s l => match s with (_, _) => eq_refl end) (fun s => match s with (_, _) => eq_refl end)
             _ _ _ _ _ _ _ _ Ht).
  clear h.
  match goal with |- context [foldM ?f _ (repeat None (length groups), empty_circuit)] => set (gs := f) end.
  match goal with |- context [bind (foldM ?f _ (empty_circuit, [])) ?k] => set (hs := f); set (hk := k) end.
  assert (Hfold := pg_foldM_rel (Rst groups) gs hs (exits log ++ unvisiteds log)).
  assert (Hstep : forall s1 s2 x, Rst groups s1 s2 ->
            match gs s1 x, hs s2 x with
            | Ok a, Ok b => Rst groups a b
            | Err e1, Err e2 => e1 = e2
            | _, _ => False
            end).
  { intros [heap n] [n' k] l (Hn & Hrk & Hlen). cbn [fst snd] in *. subst n'. subst gs hs. cbv beta iota. cbn [fst snd].
    destruct (get_gate c l) as [g|e]; cbn [bind]; [|reflexivity].
    unfold gen_replace_equivalent_gates_process_gate.
    destruct (new_names_sim groups d Hd (gops g) heap k Hrk Hlen) as (h1 & E1 & R1 & L1).
    rewrite E1. cbn [bind]. destruct (me_new_names groups k (gops g)) as [ops k1]. cbn [fst snd] in *.
    destruct (emplace_gate n l (gtyp g) ops) as [n1|e]; cbn [bind]; [|reflexivity].
    split; [reflexivity|]. split; assumption. }
  specialize (Hfold Hstep (repeat None (length groups), empty_circuit) (empty_circuit, [])).
  assert (H0 : Rst groups (repeat None (length groups), empty_circuit) (empty_circuit, [])).
  { split; [reflexivity|]. split; [intros i; apply heap_get_repeat|apply repeat_length]. }
  specialize (Hfold H0).
  destruct (foldM gs (exits log ++ unvisiteds log) (repeat None (length groups), empty_circuit)) as [[heap n1]|e1],
           (foldM hs (exits log ++ unvisiteds log) (empty_circuit, [])) as [[n1' k]|e2];
    cbn [bind]; try contradiction; [|congruence].
  destruct Hfold as (Hn & Hrk & Hlen). cbn [fst snd] in *. subst n1'. subst hk. cbv beta iota.
  apply pg_bind_ext. intros n2.
  destruct (new_names_sim groups d Hd (outputs c) heap k Hrk Hlen) as (h1 & E1 & _ & _).
  rewrite E1. cbn [bind]. apply pg_bind_ok_r.
Qed.

(* ---------------- the groups of _find_equivalent_gates_groups are always disjoint and big ---------------- *)
Lemma nodup_app_iff {A} (a b : list A) :
  NoDup (a ++ b) <-> NoDup a /\ NoDup b /\ (forall x, In x a -> ~ In x b).
Proof.
  induction a as [|x a IH]; simpl.
  - split; [intros H; repeat split; [constructor|exact H|intros ? []]|tauto].
  - split.
    + inversion 1 as [|? ? Hx Hr]; subst. apply IH in Hr. destruct Hr as (Ha & Hb & Hd).
      rewrite in_app_iff in Hx. repeat split; [constructor; tauto|exact Hb|].
      intros y [->|Hy]; [tauto|apply Hd; exact Hy].
    + intros (Ha & Hb & Hd). inversion Ha as [|? ? Hx Hr]; subst. constructor.
      * rewrite in_app_iff. intros [H|H]; [tauto|]. exact (Hd x (or_introl eq_refl) H).
      * apply IH. repeat split; auto.
Qed.

Lemma nodup_concat_filter {A} (p : list A -> bool) l : NoDup (concat l) -> NoDup (concat (filter p l)).
Proof.
  induction l as [|x l IH]; simpl; [auto|]. intros H. apply nodup_app_iff in H. destruct H as (Hx & Hl & Hd).
  destruct (p x); [|apply IH; exact Hl]. simpl. apply nodup_app_iff. repeat split; [exact Hx|apply IH; exact Hl|].
  intros y Hy Hin. apply (Hd y Hy). apply in_concat in Hin. destruct Hin as (g & Hg & Hyg).
  apply filter_In in Hg. apply in_concat. exists g. tauto.
Qed.

Lemma group_insert_perm gs tt l :
  Permutation (concat (map snd (group_insert gs tt l))) (l :: concat (map snd gs)).
Proof.
  induction gs as [|[tt' ls] gs IH]; simpl; [reflexivity|].
  destruct (stl_eqb tt' tt); simpl.
  - rewrite <- app_assoc. simpl. symmetry. apply Permutation_middle.
  - rewrite IH. symmetry. apply Permutation_middle.
Qed.

Lemma grouping_perm (gtt : dict (list st)) : forall gs,
  Permutation (concat (map snd (fold_left (fun gs (kv : label * list st) => group_insert gs (snd kv) (fst kv)) gtt gs)))
              (rev (dkeys gtt) ++ concat (map snd gs)).
Proof.
  induction gtt as [|[k v] gtt IH]; intros gs; simpl; [reflexivity|].
  rewrite IH, group_insert_perm, <- app_assoc. simpl. apply Permutation_app_head. reflexivity.
Qed.

Lemma nodup_dset {V} (d : dict V) k v : NoDup (dkeys d) -> NoDup (dkeys (dset d k v)).
Proof.
  intros H. destruct (dmem d k) eqn:E.
  - rewrite dkeys_dset_mem by exact E. exact H.
  - rewrite dkeys_dset_new by exact E. apply nodup_app_iff. repeat split; [exact H|repeat constructor; intros []|].
    intros x Hx [<-|[]]. apply dmem_keys in Hx. congruence.
Qed.

Lemma gtt_keys_nodup c gtt : get_gates_truth_table c = Ok gtt -> NoDup (dkeys gtt).
Proof.
  unfold get_gates_truth_table.
  apply (foldM_ok_inv _ (fun acc : dict (list st) => NoDup (dkeys acc))); [|constructor].
  intros acc x acc' _ Hacc.
  destruct (zip_inputs (inputs c) (map inj x) []) as [a|e]; cbn [bind]; [|discriminate].
  destruct (evaluate_full_circuit c a) as [full|e]; cbn [bind]; [|discriminate].
  intros [= <-]. apply fold_left_inv; [|exact Hacc].
  intros s kv _ Hs. destruct (dget s (fst kv)); apply nodup_dset; exact Hs.
Qed.

Theorem find_groups_ok c groups : find_equivalent_groups c = Ok groups -> groups_ok groups.
Proof.
  unfold find_equivalent_groups.
  destruct (get_gates_truth_table c) as [gtt|e] eqn:Eg; cbn [bind]; [|discriminate].
  intros [= <-]. split.
  - apply nodup_concat_filter.
    eapply Permutation_NoDup; [symmetry; apply grouping_perm|]. simpl. rewrite app_nil_r.
    eapply Permutation_NoDup; [apply Permutation_rev|]. exact (gtt_keys_nodup c gtt Eg).
  - apply Forall_forall. intros g Hg. apply filter_In in Hg. destruct Hg as [_ Hg].
    apply Nat.ltb_lt in Hg. exact Hg.
Qed.

(* ---------------- MergeEquivalentGates._transform ---------------- *)
Theorem gen_me_eq c : gen_MergeEquivalentGates_transform c = merge_equivalent_gates c.
Proof.
  unfold gen_MergeEquivalentGates_transform, merge_equivalent_gates. rewrite gen_find_groups_eq.
  destruct (find_equivalent_groups c) as [groups|e] eqn:E; cbn [bind]; [|reflexivity].
  apply gen_replace_eq. exact (find_groups_ok c groups E).
Qed.
