(* C07, part 8: the theorems in the form used by the property file: operand values are read in
   the host circuit (bc s), result values in the final circuit (bc s'). *)
Require Import Cirbo.Model.Base Cirbo.Model.Gate Cirbo.Model.Den Cirbo.Model.Circuit
  Cirbo.Model.Eval Cirbo.Model.Sem Cirbo.Model.Builder.
Require Import Cirbo.Generated.ArithTables Cirbo.Generated.ArithCells.
Require Import Cirbo.Model.ArithSub Cirbo.Model.ArithSum2 Cirbo.Model.ArithSumN Cirbo.Model.ArithSumW
  Cirbo.Model.SumCases.
Require Import Cirbo.Proofs.DictFacts Cirbo.Proofs.BuilderFacts Cirbo.Proofs.ArithFacts
  Cirbo.Proofs.ArithSum2Facts Cirbo.Proofs.ArithSumCells Cirbo.Proofs.ArithSumNFacts
  Cirbo.Proofs.ArithSumTopFacts Cirbo.Proofs.ArithSumPow2Facts Cirbo.Proofs.ArithSumWFacts
  Cirbo.Proofs.ArithSumWCount Cirbo.Proofs.ArithSumStruct Cirbo.Proofs.ArithSumStructA Cirbo.Proofs.ArithSumStructB
  Cirbo.Proofs.ArithSumStructC.
Open Scope Z_scope.

Definition basis_name (b : gen_basis) : string := match b with XAIG => "XAIG" | AIG => "AIG" end.

Theorem resolve_basis_meaning :
  (forall b, resolve_basis (BEnum b) = Ok b) /\
  (forall s b, resolve_basis (BStr s) = Ok b <-> upper s = basis_name b) /\
  (forall s, (forall b, upper s <> basis_name b) -> resolve_basis (BStr s) = Err PyValueError).
Proof.
  split; [reflexivity|]. split.
  - intros s b. split; [apply resolve_basis_str|].
    unfold resolve_basis. intros ->. destruct b; reflexivity.
  - intros s H. unfold resolve_basis.
    destruct (String.eqb_spec (upper s) "XAIG") as [E|_]; [destruct (H XAIG E)|].
    destruct (String.eqb_spec (upper s) "AIG") as [E|_]; [destruct (H AIG E)|reflexivity].
Qed.

Theorem adds_meaning T c c' n :
  adds T c c' n <->
  exists ng, gates c' = gates c ++ ng /\ Forall (fun kg => T (gtyp (snd kg)) = true) ng /\ length ng = n.
Proof. reflexivity. Qed.

Theorem basis_sets :
  (forall t, t_aig t = true <-> t = AND \/ t = OR \/ t = GT) /\
  (forall t, t_xaig t = true <-> t = AND \/ t = OR \/ t = GT \/ t = XOR).
Proof.
  split; intros t; (split; [destruct t; simpl; intros H; try discriminate; tauto|]);
    intros H; repeat (destruct H as [->|H]); try subst; reflexivity.
Qed.

Theorem cells_exact :
  cell2_spec t_xaig 2 add_sum2 /\ cell3_spec t_xaig 5 add_sum3 /\
  cell2_spec t_aig 3 add_sum2_aig /\ cell3_spec t_aig 7 add_sum3_aig.
Proof. exact (conj add_sum2_cell (conj add_sum3_cell (conj add_sum2_aig_cell add_sum3_aig_cell))). Qed.

Theorem add_sum_n_bits_final fresh basis be xs s rs s' :
  run fresh (add_sum_n_bits basis be xs) s = Ok (rs, s') ->
  exists b, resolve_basis basis = Ok b /\
    ext (bc s) (bc s') /\ inputs (bc s') = inputs (bc s) /\ outputs (bc s') = outputs (bc s) /\
    (exists g, adds (t_of b) (bc s) (bc s') g /\ nbits_bound b g (length rs) (length xs)) /\
    forall asg xv, bvals (bc s) asg xs xv ->
      exists rv, bvals (bc s') asg rs rv /\ decode be rv = ones xv.
Proof.
  intros H. apply add_sum_n_bits_correct in H as (b & Hb & Hx & I & O & A & V).
  exists b. repeat split; auto. intros asg xv Hxv. apply (V _ (ext_refl _)). eapply bvals_ext; eassumption.
Qed.

Theorem add_sum_n_bits_easy_final fresh be xs s rs s' :
  run fresh (add_sum_n_bits_easy be xs) s = Ok (rs, s') ->
  ext (bc s) (bc s') /\ inputs (bc s') = inputs (bc s) /\ outputs (bc s') = outputs (bc s) /\
  (exists g, adds t_xaig (bc s) (bc s') g /\ (g + 3 * length rs <= 5 * length xs)%nat) /\
  forall asg xv, bvals (bc s) asg xs xv ->
    exists rv, bvals (bc s') asg rs rv /\ decode be rv = ones xv.
Proof.
  intros H. pose proof (run_ext _ _ _ _ _ H) as Hx.
  apply add_sum_n_bits_easy_spec in H as (O & A & V).
  split; [exact Hx|]. split; [apply ext_inputs, Hx|]. split; [exact O|]. split; [exact A|].
  intros asg xv Hxv. apply (V _ (ext_refl _)). eapply bvals_ext; eassumption.
Qed.

Theorem add_sum_pow2_m1_final fresh basis be xs s cols s' :
  run fresh (add_sum_pow2_m1 basis be xs) s = Ok (cols, s') ->
  ext (bc s) (bc s') /\ inputs (bc s') = inputs (bc s) /\ outputs (bc s') = outputs (bc s) /\
  ((2 <= length xs)%nat -> exists b, resolve_basis basis = Ok b) /\
  (forall b, resolve_basis basis = Ok b -> exists g, adds (t_of b) (bc s) (bc s') g) /\
  (exists l0, hd_error cols = Some [l0]) /\
  (has_gate (bc s') "" = false -> forall asg xv, bvals (bc s) asg xs xv ->
     exists cvs, Forall2 (bvals (bc s') asg) cols cvs /\ cols_val cvs = ones xv).
Proof.
  intros H. apply add_sum_pow2_m1_correct in H as (Hx & I & O & R & A & Sh & V).
  repeat split; auto. intros E asg xv Hxv. apply (V _ (ext_refl _) E). eapply bvals_ext; eassumption.
Qed.

Lemma adds_unique T T' c c' g g' : adds T c c' g -> adds T' c c' g' -> g = g'.
Proof. intros H H'. apply adds_size in H. apply adds_size in H'. lia. Qed.

(* the documented bounds of add_sum_n_weighted_bits (fixes/D27.patch): AIG gates <= 7 n - 3 m,
   XAIG gates <= 5 n - 2 m *)
Definition weighted_bound (b : gen_basis) (g m n : nat) : Prop :=
  match b with
  | AIG => (g + 3 * m <= 7 * n)%nat
  | XAIG => (g + 2 * m <= 5 * n)%nat
  end.

Theorem add_sum_n_weighted_bits_final fresh basis inp s res s' :
  run fresh (add_sum_n_weighted_bits basis inp) s = Ok (res, s') ->
  exists b, resolve_basis basis = Ok b /\
    ext (bc s) (bc s') /\ inputs (bc s') = inputs (bc s) /\ outputs (bc s') = outputs (bc s) /\
    (exists g, adds (t_of b) (bc s) (bc s') g /\ weighted_bound b g (length res) (length inp)) /\
    incr res /\
    forall asg vs, bvals (bc s) asg (map snd inp) vs ->
      exists rv, bvals (bc s') asg (map snd res) rv /\ wvalue (map fst res) rv = wvalue (map fst inp) vs.
Proof.
  intros H. pose proof H as H0.
  apply add_sum_n_weighted_bits_correct in H as (b & Hb & Hx & I & O & (g & A & Bd) & Inc & V).
  exists b. split; [exact Hb|]. split; [exact Hx|]. split; [exact I|]. split; [exact O|]. split.
  - exists g. split; [exact A|]. destruct b; simpl.
    + destruct (add_sum_n_weighted_bits_xaig_count _ _ _ _ _ _ H0 Hb) as (g' & A' & B').
      rewrite (adds_unique _ _ _ _ _ _ A A'). exact B'.
    + apply Bd. reflexivity.
  - split; [exact Inc|]. intros asg vs Hvs. apply (V _ (ext_refl _)). eapply bvals_ext; eassumption.
Qed.

Theorem add_sum_n_weighted_bits_naive_final fresh basis inp s res s' :
  run fresh (add_sum_n_weighted_bits_naive basis inp) s = Ok (res, s') ->
  exists b, resolve_basis basis = Ok b /\
    ext (bc s) (bc s') /\ inputs (bc s') = inputs (bc s) /\ outputs (bc s') = outputs (bc s) /\
    (exists g, adds (t_of b) (bc s) (bc s') g /\
               (g + 3 * length res <= (match b with AIG => 7 | XAIG => 5 end) * length inp)%nat) /\
    incr res /\
    forall asg vs, bvals (bc s) asg (map snd inp) vs ->
      exists rv, bvals (bc s') asg (map snd res) rv /\ wvalue (map fst res) rv = wvalue (map fst inp) vs.
Proof.
  intros H. apply add_sum_n_weighted_bits_naive_correct in H as (b & Hb & Hx & I & O & A & Inc & V).
  exists b. repeat split; auto. intros asg vs Hvs. apply (V _ (ext_refl _)). eapply bvals_ext; eassumption.
Qed.

Theorem levels_distinct res :
  incr res ->
  NoDup (map fst res) /\
  forall i j a b, (i < j)%nat -> nth_error (map fst res) i = Some a -> nth_error (map fst res) j = Some b -> (a < b)%N.
Proof. intros H. split; [apply incr_NoDup, H|apply incr_sorted, H]. Qed.

Theorem add_sum_two_numbers_final fresh xs ys be s rs s' :
  run fresh (add_sum_two_numbers xs ys be) s = Ok (rs, s') ->
  ext (bc s) (bc s') /\ inputs (bc s') = inputs (bc s) /\ outputs (bc s') = outputs (bc s) /\
  length rs = S (Nat.max (length xs) (length ys)) /\
  forall asg xv yv, bvals (bc s) asg xs xv -> bvals (bc s) asg ys yv ->
    exists rv, bvals (bc s') asg rs rv /\ decode be rv = decode be xv + decode be yv.
Proof.
  intros H. apply add_sum_two_numbers_correct in H as (Hx & I & O & L & V).
  repeat split; auto. intros asg xv yv Hxv Hyv.
  apply (V _ (ext_refl _)); eapply bvals_ext; eassumption.
Qed.

Theorem add_sum_two_numbers_with_shift_final fresh sh xs ys be s rs s' :
  run fresh (add_sum_two_numbers_with_shift sh xs ys be) s = Ok (rs, s') ->
  ext (bc s) (bc s') /\ inputs (bc s') = inputs (bc s) /\ outputs (bc s') = outputs (bc s) /\
  forall asg xv yv, bvals (bc s) asg xs xv -> bvals (bc s) asg ys yv ->
    exists rv, bvals (bc s') asg rs rv /\ decode be rv = decode be xv + decode be yv * 2 ^ Z.of_nat sh.
Proof.
  intros H. apply add_sum_two_numbers_with_shift_correct in H as (Hx & I & O & V).
  repeat split; auto. intros asg xv yv Hxv Hyv.
  apply (V _ (ext_refl _)); eapply bvals_ext; eassumption.
Qed.

(* ---- reading the computed structural facts ------------------------------------------------------ *)
Theorem nbits_xaig_upto64 n : (1 <= n <= 64)%nat ->
  exists c rs s',
    bare n = Ok c /\ run hex_label (add_sum_n_bits (BEnum XAIG) false (in_labels n 0)) (mkB c 1) = Ok (rs, s') /\
    (2 * N.of_nat (length (added c (bc s'))) + 4 * N.of_nat (length rs) <= 9 * N.of_nat n)%N /\
    Forall (fun kg => t_xaig (gtyp (snd kg)) = true) (added c (bc s')) /\
    length rs = bitlen n /\ NoDup rs.
Proof.
  intros Hn. pose proof nbits_xaig_struct_upto64 as H. rewrite forallb_forall in H.
  specialize (H n). assert (In n (seq 1 64)) as Hin by (apply in_seq; lia). specialize (H Hin).
  unfold nbits_struct_ok in H. destruct (bare n) as [c|]; [|discriminate].
  destruct (run hex_label (add_sum_n_bits (BEnum XAIG) false (in_labels n 0)) (mkB c 1)) as [[rs s']|] eqn:E; [|discriminate].
  apply andb_true_iff in H as (H & H4). apply andb_true_iff in H as (H & H3). apply andb_true_iff in H as (H1 & H2).
  exists c, rs, s'. split; [reflexivity|]. split; [exact E|].
  split; [apply N.leb_le, H1|]. split; [apply Forall_forall; rewrite forallb_forall in H2; exact H2|].
  split; [apply Nat.eqb_eq, H3|apply nodupb_NoDup, H4].
Qed.

Theorem weighted_xaig_small_vectors ws : In ws small_vectors ->
  exists c res s',
    bare (length ws) = Ok c /\
    run hex_label (add_sum_n_weighted_bits (BEnum XAIG) (combine ws (in_labels (length ws) 0))) (mkB c 1) = Ok (res, s') /\
    (2 * N.of_nat (length (added c (bc s'))) + 4 * N.of_nat (length res) <= 9 * N.of_nat (length ws))%N.
Proof.
  intros Hin. pose proof weighted_xaig_struct_small_vectors as H. rewrite forallb_forall in H.
  specialize (H ws Hin). unfold weighted_struct_ok in H. destruct (bare (length ws)) as [c|]; [|discriminate].
  destruct (run hex_label (add_sum_n_weighted_bits (BEnum XAIG) (combine ws (in_labels (length ws) 0))) (mkB c 1))
    as [[res s']|] eqn:E; [|discriminate].
  apply andb_true_iff in H as (H & _). apply andb_true_iff in H as (H1 & _).
  exists c, res, s'. split; [reflexivity|]. split; [exact E|]. apply N.leb_le, H1.
Qed.

Theorem weighted_documented_bound_refuted :
  exists c res s',
    bare (length refuting_weights) = Ok c /\
    run hex_label (add_sum_n_weighted_bits (BEnum XAIG)
                     (combine refuting_weights (in_labels (length refuting_weights) 0))) (mkB c 1) = Ok (res, s') /\
    (9 * N.of_nat (length refuting_weights) <
     2 * N.of_nat (length (added c (bc s'))) + 4 * N.of_nat (length res))%N.
Proof. exact weighted_bound_refuted. Qed.
