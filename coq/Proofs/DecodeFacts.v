(* Facts about decode_circuit on ARBITRARY bytes: whatever it returns has only generated labels
   gate_<i>, and its outputs are gates of the circuit. *)
Require Import Cirbo.Model.Base Cirbo.Model.Gate Cirbo.Model.Circuit Cirbo.Model.BitIO Cirbo.Model.Codec Cirbo.Generated.CodecTables.
Require Import Cirbo.Proofs.DictFacts Cirbo.Proofs.DictIOFacts Cirbo.Proofs.CodecIds Cirbo.Proofs.IsoFacts Cirbo.Proofs.CodecFacts.
Require Import Cirbo.Proofs.DbFacts.

Lemma check_gates_exist_inv ops c : check_gates_exist ops c = Ok tt -> forall o, In o ops -> has_gate c o = true.
Proof.
  induction ops as [|x ops IH]; simpl; [intros _ o []|].
  destruct (has_gate c x) eqn:E; [|discriminate]. intros H o [<-|Ho]; [exact E|apply IH; assumption].
Qed.

Lemma emplace_gate_inv c l t ops c' :
  emplace_gate c l t ops = Ok c' ->
  gates c' = gates c ++ [(l, mkGate t ops)] /\ outputs c' = outputs c.
Proof.
  unfold emplace_gate, check_label_doesnt_exist. destruct (has_gate c l) eqn:El; simpl; [discriminate|].
  destruct (check_gates_exist ops c); simpl; [|discriminate]. intros [= <-].
  unfold emplace_gate_raw. destruct (add_users_core ops c l) as (H1 & H2 & H3 & H4).
  destruct (gtype_beq t INPUT); simpl; rewrite H1, H3, dset_new by exact El; auto.
Qed.

Definition decoded_inv (st : dstate) : Prop :=
  let '(_, _, c) := st in generated c /\ outputs_exist c.

Lemma inv_add_gate c l i t ops c' :
  l = gen_label i -> emplace_gate c l t ops = Ok c' -> generated c /\ outputs_exist c ->
  generated c' /\ outputs_exist c'.
Proof.
  intros -> H [Hg Ho]. apply emplace_gate_inv in H as (Hgates & Houts). split.
  - intros x Hx. apply dmem_keys in Hx. rewrite Hgates in Hx. unfold dkeys in Hx. rewrite map_app in Hx.
    apply in_app_or in Hx as [Hx|Hx]; [apply Hg, dmem_keys; exact Hx|]. simpl in Hx. destruct Hx as [<-|[]]. exists i; reflexivity.
  - intros o Hoin. rewrite Houts in Hoin. apply dmem_keys. rewrite Hgates. unfold dkeys. rewrite map_app.
    apply in_or_app; left. apply dmem_keys, Ho; exact Hoin.
Qed.

Lemma decode_input_inv st st' : decode_input st = Ok st' -> decoded_inv st -> decoded_inv st'.
Proof.
  destruct st as [[r gl] c]. unfold decode_input, add_gate.
  destruct (emplace_gate c _ INPUT []) as [c'|] eqn:E; simpl; [|discriminate]. intros [= <-] H.
  eapply inv_add_gate; [reflexivity|exact E|exact H].
Qed.

Lemma decode_gate_inv ws st st' : decode_gate ws st = Ok st' -> decoded_inv st -> decoded_inv st'.
Proof.
  destruct st as [[r gl] c]. unfold decode_gate, add_gate.
  destruct (read_number _ r) as [tr|]; simpl; [|discriminate].
  destruct (int_to_gate_type (fst tr)) as [t|]; [|discriminate].
  destruct (read_operands _ ws (snd tr) gl []) as [ops|]; simpl; [|discriminate].
  destruct (emplace_gate c _ t (fst ops)) as [c'|] eqn:E; simpl; [|discriminate]. intros [= <-] H.
  eapply inv_add_gate; [reflexivity|exact E|exact H].
Qed.

Lemma decode_output_inv ws st st' : decode_output ws st = Ok st' -> decoded_inv st -> decoded_inv st'.
Proof.
  destruct st as [[r gl] c]. unfold decode_output, mark_as_output.
  destruct (read_number ws r) as [ir|]; cbn [bind fst snd]; [|discriminate].
  destruct (check_gates_exist [gen_label (fst ir)] c) as [[]|] eqn:E; cbn [bind fst snd]; [|discriminate]. intros [= <-] [Hg Ho].
  split; [exact Hg|]. intros o Hoin. simpl in Hoin. apply in_app_or in Hoin as [Hoin|[<-|[]]]; [apply Ho; exact Hoin|].
  apply (check_gates_exist_inv _ _ E). left; reflexivity.
Qed.

Lemma iterM_inv {S} (P : S -> Prop) (f : S -> res S) :
  (forall s s', f s = Ok s' -> P s -> P s') -> forall n s s', iterM n f s = Ok s' -> P s -> P s'.
Proof.
  intros Hf. induction n as [|n IH]; intros s s'; simpl; [intros [= <-]; auto|].
  destruct (f s) as [s1|] eqn:E; simpl; [|discriminate]. intros H Hs. eapply IH; [exact H|]. eapply Hf; eassumption.
Qed.

Theorem decode_facts bs c : decode_circuit bs = Ok c -> generated c /\ outputs_exist c.
Proof.
  unfold decode_circuit, decode_bits. destruct (read_byte (unpack bs)) as [wr|]; simpl; [|discriminate].
  destruct (read_number _ (snd wr)) as [n1|]; simpl; [|discriminate].
  destruct (read_number _ (snd n1)) as [n2|]; simpl; [|discriminate].
  destruct (read_number _ (snd n2)) as [n3|]; simpl; [|discriminate].
  destruct (iterM _ decode_input _) as [s1|] eqn:E1; simpl; [|discriminate].
  destruct (iterM _ (decode_gate _) s1) as [s2|] eqn:E2; simpl; [|discriminate].
  destruct (iterM _ (decode_output _) s2) as [s3|] eqn:E3; simpl; [|discriminate]. intros [= <-].
  assert (decoded_inv s3) as H.
  { eapply (iterM_inv decoded_inv); [apply decode_output_inv|exact E3|].
    eapply (iterM_inv decoded_inv); [apply decode_gate_inv|exact E2|].
    eapply (iterM_inv decoded_inv); [apply decode_input_inv|exact E1|].
    split; [intros l Hl; discriminate|intros o []]. }
  destruct s3 as [[r gl] c3]. exact H.
Qed.
