(* Generated/ArithGen09.v (translator T14) equals the hand model, part C: add_plus_one of generation.py. *)
Require Import Cirbo.Model.Base Cirbo.Model.Gate Cirbo.Model.Circuit Cirbo.Model.Builder Cirbo.Model.PyPrims.
Require Import Cirbo.Generated.ArithTables Cirbo.Generated.ArithCells Cirbo.Generated.ArithGen09.
Require Import Cirbo.Model.ArithSub Cirbo.Model.ArithMisc.
Require Import Cirbo.Proofs.ArithGen09Lib Cirbo.Proofs.ArithGen09A Cirbo.Proofs.ArithGen09B.
From Coq Require Import ZArith Lia Ascii.
Open Scope Z_scope.

(* position i of the loop of add_plus_one *)
Definition plus_step (inp res car : list label) (i : nat) : prog unit :=
  let d := ""%string in
  if (i <? length inp)%nat then
    bdo _ <- when (i <? length res - 1)%nat (AddGate (nth i car d) AND [nth i inp d; nth (i - 1) car d]);
    AddGate (nth i res d) XOR [nth i inp d; nth (i - 1) car d]
  else if (i =? length inp)%nat then AddGate (nth i res d) IFF [nth (i - 1) car d]
  else AddGate (nth i res d) ALWAYS_FALSE [].

Lemma is_nil_skipn {A} (l : list A) i : is_nil (skipn i l) = (length l <=? i)%nat.
Proof.
  revert i; induction l as [|x l IH]; intros [|i]; cbn [skipn is_nil length]; try reflexivity.
  rewrite IH. reflexivity.
Qed.

Ltac units := repeat match goal with u : unit |- _ => destruct u end.
Ltac side :=
  first [ lia
        | intros ?; first [ exfalso; lia
                          | symmetry; first [apply Nat.eqb_eq; lia | apply Nat.eqb_neq; lia]
                          | f_equal; lia ] ].

Lemma plus_fold_gen (f : unit -> Z -> prog unit) (inp res car : list label) :
  length car = length res ->
  (forall u i, (1 <= i < length res)%nat ->
     peq (f u (Z.of_nat i)) (bdo _ <- plus_step inp res car i; Ret tt)) ->
  forall k i at_len pc, (i + k = length res)%nat -> (1 <= i)%nat ->
  ((length inp <= i)%nat -> at_len = (i =? length inp)%nat) ->
  ((i <= length inp)%nat -> pc = nth (i - 1) car ""%string) ->
  peq (foldP f (map Z.of_nat (seq i k)) tt)
      (plus_loop (skipn i inp) (skipn i res) (skipn i car) pc at_len).
Proof.
  intros Hc Hf. induction k as [|k IH]; intros i at_len pc Hi H1 Hat Hpc fresh s.
  - rewrite (skipn_all2 (n:=i) res) by lia. destruct (skipn i inp); reflexivity.
  - rewrite (skipn_nth res i ""%string) by lia.
    cbn [seq map foldP plus_loop]. rs. rewrite Hf by lia. rs. unfold plus_step.
    destruct (Nat.ltb_spec i (length inp)) as [Hlt|Hge].
    + rewrite (skipn_nth inp i ""%string) by lia. rewrite (skipn_nth car i ""%string) by lia.
      cbn [nthP nth_res nth_error ret_res]. rs. rewrite is_nil_skipn. unfold when.
      assert (Eb : negb (length res <=? S i)%nat = (i <? length res - 1)%nat).
      { destruct (Nat.ltb_spec i (length res - 1)), (Nat.leb_spec (length res) (S i)); cbn; try reflexivity; exfalso; lia. }
      rewrite Eb, <- Hpc by lia.
      destruct (i <? length res - 1)%nat; rs.
      * step. step. destruct u0. cbn [tl].
        apply IH; side.
      * step. destruct u. cbn [tl].
        apply IH; side.
    + rewrite (skipn_all2 (n:=i) inp) by lia. rewrite (Hat Hge).
      rewrite <- (skipn_all2 (n:=S i) inp) by lia. rewrite tl_skipn.
      destruct (Nat.eqb_spec i (length inp)) as [He|Hne]; rs.
      * rewrite <- Hpc by lia. step. destruct u.
        apply IH; side.
      * step. destruct u.
        apply IH; side.
Qed.

Lemma mark_fold_iter (ls : list label) :
  peq (foldP (fun (_ : unit) l => bdo _ <- MarkOutput l; Ret tt) ls tt) (iterP MarkOutput ls).
Proof.
  induction ls as [|l ls IH]; intros fresh s; cbn [foldP iterP]; rs; [reflexivity|].
  step. apply IH.
Qed.

Lemma rev_if_involutive {A} be (l : list A) : rev_if be (rev_if be l) = l.
Proof. destruct be; [apply rev_involutive|reflexivity]. Qed.

Theorem gen_add_plus_one_eq inp0 res ao be :
  peq (gen_add_plus_one inp0 res ao be) (add_plus_one inp0 res ao be).
Proof.
  unfold gen_add_plus_one, add_plus_one. cbv zeta.
  apply peq_bind.
  { unfold py_len. replace (Z.of_nat (length inp0) + 1) with (Z.of_nat (S (length inp0))) by lia.
    apply (result_labels_default res (S (length inp0))). }
  intros rl0 fresh s. rewrite run_bind, run_if_rev2. cbv beta iota.
  set (inp := rev_if be inp0). set (rl := rev_if be rl0).
  rewrite run_bind. rewrite gen__get_new_labels_eq. unfold py_len. rewrite Nat2Z.id. rs.
  destruct (run fresh (fresh_list (length rl) rl) s) as [[car s1]|e] eqn:Ec; rs; [|reflexivity].
  assert (Lc : length car = length rl) by (eapply fresh_list_length; eauto).
  rewrite !py_nth_0.
  destruct car as [|c0 car']; [reflexivity|]. destruct inp as [|x0 inp'] eqn:Einp; [reflexivity|].
  destruct rl as [|r0 rl'] eqn:Erl; [discriminate|].
  cbn [nthP nth_res nth_error ret_res]. rs. step. step.
  change (Z.of_nat (length (r0 :: rl'))) with (Z.of_nat (S (length rl'))).
  rewrite py_range_1_nat.
  rewrite (plus_fold_gen _ (x0 :: inp') (r0 :: rl') (c0 :: car') Lc) with (at_len := true) (pc := c0);
    [ | | cbn [length]; lia | lia | cbn [length]; intros ?; symmetry; apply Nat.eqb_eq; lia | reflexivity ].
  - cbn [skipn tl]. step. rewrite run_if_rev1. rs. rewrite <- Erl. unfold rl. rewrite rev_if_involutive.
    unfold when. destruct ao; rs; [|reflexivity].
    rewrite mark_fold_iter. step.
  - (* the loop body *)
    intros uu i Hi fresh' s'. cbv beta iota. unfold plus_step, when.
    assert (Li : length inp0 = length (x0 :: inp')) by (rewrite <- Einp; unfold inp; rewrite rev_if_length; reflexivity).
    rewrite Li. change (Z.of_nat (length (x0 :: inp'))) with (py_len (x0 :: inp')).
    rewrite Z_of_nat_ltb_len.
    destruct (Nat.ltb_spec i (length (x0 :: inp'))) as [Hlt|Hge].
    + replace (Z.of_nat (S (length rl')) - 1) with (Z.of_nat (length (r0 :: rl') - 1)) by (cbn [length]; lia).
      rewrite Z_ltb_nat.
      destruct (i <? length (r0 :: rl') - 1)%nat; rs.
      * steps; units; try reflexivity.
      * steps; units; try reflexivity.
    + unfold py_len.
      replace (Z.of_nat i =? Z.of_nat (length (x0 :: inp'))) with (i =? length (x0 :: inp'))%nat
        by (destruct (Nat.eqb_spec i (length (x0 :: inp'))); symmetry; [apply Z.eqb_eq|apply Z.eqb_neq]; lia).
      destruct (i =? length (x0 :: inp'))%nat; rs.
      * steps; units; try reflexivity.
      * steps; units; try reflexivity.
Qed.
