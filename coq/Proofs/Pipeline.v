(* C18, pipeline algebra: linearisation, reduction of repeated idempotent passes, the pipe
   operator, lists of passes and cleanup equal the sequential application of the leaves.
   First part: pure list reasoning over an abstract leaf semantics [sem] and an abstract
   invariant [P] of the intermediate circuits; second part: instance sem = transform_leaf. *)
Require Import Cirbo.Model.Base Cirbo.Model.Gate Cirbo.Model.Circuit Cirbo.Model.Passes.
Require Import Cirbo.Proofs.DictFacts.

(* ---------------- induction principle for the nested type ---------------- *)
Section TransformerInd.
  Variable Q : transformer -> Prop.
  Hypothesis HRR : forall a, Q (TRR a).
  Hypothesis HMU : Q TMU.
  Hypothesis HMD : Q TMD.
  Hypothesis HME : Q TME.
  Hypothesis HComp : forall ts, Forall Q ts -> Q (TComp ts).

  Fixpoint transformer_ind2 (t : transformer) : Q t :=
    match t with
    | TRR a => HRR a
    | TMU => HMU
    | TMD => HMD
    | TME => HME
    | TComp ts =>
      HComp ts ((fix go (l : list transformer) : Forall Q l :=
                   match l with
                   | [] => Forall_nil Q
                   | x :: r => Forall_cons x (transformer_ind2 x) (go r)
                   end) ts)
    end.
End TransformerInd.

(* ---------------- syntactic facts about linearize ---------------- *)
Lemma linearize_nil : linearize [] = [].
Proof. reflexivity. Qed.

Lemma linearize_cons t ts : linearize (t :: ts) = as_distinct t ++ linearize ts.
Proof. reflexivity. Qed.

Lemma linearize_app a b : linearize (a ++ b) = linearize a ++ linearize b.
Proof. unfold linearize. apply flat_map_app. Qed.

Lemma linearize_single t : linearize [t] = as_distinct t.
Proof. unfold linearize; simpl. apply app_nil_r. Qed.

(* nested compositions flatten *)
Lemma linearize_comp ts : linearize [TComp ts] = linearize ts.
Proof. rewrite linearize_single. reflexivity. Qed.

Lemma linearize_comp_cons ts rest : linearize (TComp ts :: rest) = linearize (ts ++ rest).
Proof. rewrite linearize_cons, linearize_app. reflexivity. Qed.

Definition is_leaf (t : transformer) : bool := match t with TComp _ => false | _ => true end.

Lemma as_distinct_leaves t : Forall (fun x => is_leaf x = true) (as_distinct t).
Proof.
  induction t as [a| | | |ts IH] using transformer_ind2; simpl; repeat constructor.
  induction IH as [|x r Hx _ IHr]; simpl; [constructor|]. apply Forall_app; split; assumption.
Qed.

Lemma linearize_leaves ts : Forall (fun x => is_leaf x = true) (linearize ts).
Proof.
  induction ts as [|t ts IH]; [constructor|]. rewrite linearize_cons. apply Forall_app; split;
    [apply as_distinct_leaves|exact IH].
Qed.

Lemma transformer_eqb_eq a b : transformer_eqb a b = true -> a = b.
Proof.
  destruct a as [x| | | |ts], b as [y| | | |ts']; simpl; try discriminate; try reflexivity.
  intros H. apply Bool.eqb_prop in H. subst; reflexivity.
Qed.

(* the pipe operator, syntactically *)
Lemma linearize_pipe a b : linearize [pipe a b] = linearize (as_distinct a) ++ linearize [b].
Proof.
  unfold pipe. destruct b as [x| | | |bs]; rewrite linearize_comp, linearize_app; try reflexivity.
  rewrite linearize_comp. reflexivity.
Qed.

(* ---------------- generic semantics ---------------- *)
Section Generic.
  Variable sem : transformer -> circuit -> res circuit.
  Variable P : circuit -> Prop.
  (* every leaf establishes the invariant; idempotent-flagged leaves are idempotent on it *)
  Hypothesis sem_P : forall t c c1, sem t c = Ok c1 -> P c1.
  Hypothesis sem_idem : forall t c c1, is_leaf_idempotent t = true -> P c ->
                                       sem t c = Ok c1 -> sem t c1 = Ok c1.

  Definition run (ts : list transformer) (c : circuit) : res circuit :=
    foldM (fun c t => sem t c) ts c.

  Lemma run_app a b c : run (a ++ b) c = (do c1 <- run a c; run b c1).
  Proof.
    unfold run. revert c; induction a as [|t a IH]; intros c; simpl; [reflexivity|].
    destruct (sem t c) as [c1|e]; simpl; [apply IH|reflexivity].
  Qed.

  Lemma run_P ts : forall c c1, P c -> run ts c = Ok c1 -> P c1.
  Proof.
    unfold run. induction ts as [|t ts IH]; simpl; intros c c1 Hc H; [injection H as <-; exact Hc|].
    destruct (sem t c) as [c2|e] eqn:E; simpl in H; [|discriminate].
    eapply IH; [eapply sem_P; exact E|exact H].
  Qed.

  (* dropping an idempotent pass that equals its predecessor does not change the result *)
  Lemma reduce_from_run ts : forall prev c, P c ->
    (forall p, prev = Some p -> is_leaf_idempotent p = true -> sem p c = Ok c) ->
    run (reduce_from prev ts) c = run ts c.
  Proof.
    unfold run. induction ts as [|t ts IH]; intros prev c Hc Hprev; simpl; [reflexivity|].
    destruct (is_leaf_idempotent t &&
              match prev with Some p => transformer_eqb t p | None => false end) eqn:E.
    - apply andb_true_iff in E. destruct E as [Hi He].
      destruct prev as [p|]; [|discriminate]. apply transformer_eqb_eq in He. subst p.
      rewrite (Hprev t eq_refl Hi). simpl. apply IH; assumption.
    - simpl. destruct (sem t c) as [c1|e] eqn:Es; simpl; [|reflexivity].
      apply IH; [eapply sem_P; exact Es|].
      intros p [= <-] Hi. eapply sem_idem; eassumption.
  Qed.

  Theorem reduce_run ts c : P c -> run (reduce_from None ts) c = run ts c.
  Proof. intros Hc. apply reduce_from_run; [exact Hc|discriminate]. Qed.

  (* re-linearising an already linearised transformer only repeats implied idempotent passes *)
  Lemma relinearize_run a : forall c, P c -> run (linearize (as_distinct a)) c = run (as_distinct a) c.
  Proof.
    induction a as [x| | | |ts IH] using transformer_ind2; intros c Hc;
      try (unfold run; simpl; destruct (sem _ c) as [c1|e] eqn:E1; simpl; [|reflexivity];
           destruct (sem (TRR false) c1) as [c2|e] eqn:E2; simpl; [|reflexivity];
           rewrite (sem_idem (TRR false) c1 c2 eq_refl (sem_P _ _ _ E1) E2); reflexivity).
    - reflexivity.
    - simpl. revert c Hc. induction IH as [|t r Ht _ IHr]; intros c Hc; simpl; [reflexivity|].
      rewrite linearize_app, !run_app, (Ht c Hc).
      destruct (run (as_distinct t) c) as [c1|e] eqn:E; simpl; [|reflexivity].
      apply IHr. eapply run_P; eassumption.
  Qed.

  Definition apply_g (c : circuit) (ts : list transformer) : res circuit :=
    run (linearize_reduce ts) c.

  Theorem apply_g_linear c ts : P c -> apply_g c ts = run (linearize ts) c.
  Proof. intros Hc. unfold apply_g, linearize_reduce. apply reduce_run; exact Hc. Qed.

  Theorem apply_g_app c a b : P c ->
    apply_g c (a ++ b) = (do c1 <- apply_g c a; apply_g c1 b).
  Proof.
    intros Hc. rewrite !apply_g_linear by exact Hc. rewrite linearize_app, run_app.
    destruct (run (linearize a) c) as [c1|e] eqn:E; simpl; [|reflexivity].
    symmetry. apply apply_g_linear. eapply run_P; eassumption.
  Qed.

  Theorem apply_g_cons c t ts : P c ->
    apply_g c (t :: ts) = (do c1 <- apply_g c [t]; apply_g c1 ts).
  Proof. intros Hc. apply (apply_g_app c [t] ts Hc). Qed.

  Theorem apply_g_comp c ts : apply_g c [TComp ts] = apply_g c ts.
  Proof. unfold apply_g, linearize_reduce. rewrite linearize_comp. reflexivity. Qed.

  Theorem apply_g_pipe c a b : P c ->
    apply_g c [pipe a b] = (do c1 <- apply_g c [a]; apply_g c1 [b]).
  Proof.
    intros Hc. rewrite !apply_g_linear by exact Hc.
    rewrite linearize_pipe, run_app, (relinearize_run a c Hc), (linearize_single a).
    destruct (run (as_distinct a) c) as [c1|e] eqn:E; simpl; [|reflexivity].
    symmetry. apply apply_g_linear. eapply run_P; eassumption.
  Qed.
End Generic.
