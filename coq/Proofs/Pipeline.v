(* C18, pipeline algebra: linearisation, reduction of repeated idempotent passes, the pipe
   operator, lists of passes and cleanup equal the sequential application of the leaves.
   First part: pure list reasoning over an abstract leaf semantics [sem] and an abstract
   invariant [P] of the intermediate circuits; second part: instance sem = transform_leaf. *)
Require Import Cirbo.Model.Base Cirbo.Model.Gate Cirbo.Model.Circuit Cirbo.Model.Passes.
Require Import Cirbo.Model.WF.
Require Import Cirbo.Proofs.DictFacts Cirbo.Proofs.WFSimple Cirbo.Proofs.RebuildFacts Cirbo.Proofs.EffectRR.

(* ---------------- induction principle for the nested type ---------------- *)
Section TransformerInd.
  Variable Q : transformer -> Prop.
  Hypothesis HRR : forall a, Q (TRR a).
  Hypothesis HMU : Q TMU.
  Hypothesis HMD : Q TMD.
  Hypothesis HME : Q TME.
  Hypothesis HComp : forall ts, Forall Q ts -> Q (TComp ts).

  Fixpoint transformer_ind2 (t : transformer) : Q t :=
    match t with
    | TRR a => HRR a
    | TMU => HMU
    | TMD => HMD
    | TME => HME
    | TComp ts =>
      HComp ts ((fix go (l : list transformer) : Forall Q l :=
                   match l with
                   | [] => Forall_nil Q
                   | x :: r => Forall_cons x (transformer_ind2 x) (go r)
                   end) ts)
    end.
End TransformerInd.

(* ---------------- syntactic facts about linearize ---------------- *)
Lemma linearize_nil : linearize [] = [].
Proof. reflexivity. Qed.

Lemma linearize_cons t ts : linearize (t :: ts) = as_distinct t ++ linearize ts.
Proof. reflexivity. Qed.

Lemma linearize_app a b : linearize (a ++ b) = linearize a ++ linearize b.
Proof. unfold linearize. apply flat_map_app. Qed.

Lemma linearize_single t : linearize [t] = as_distinct t.
Proof. unfold linearize; simpl. apply app_nil_r. Qed.

(* nested compositions flatten *)
Lemma linearize_comp ts : linearize [TComp ts] = linearize ts.
Proof. rewrite linearize_single. reflexivity. Qed.

Lemma linearize_comp_cons ts rest : linearize (TComp ts :: rest) = linearize (ts ++ rest).
Proof. rewrite linearize_cons, linearize_app. reflexivity. Qed.

Definition is_leaf (t : transformer) : bool := match t with TComp _ => false | _ => true end.

Lemma as_distinct_leaves t : Forall (fun x => is_leaf x = true) (as_distinct t).
Proof.
  induction t as [a| | | |ts IH] using transformer_ind2; simpl; repeat constructor.
  induction IH as [|x r Hx _ IHr]; simpl; [constructor|]. apply Forall_app; split; assumption.
Qed.

Lemma linearize_leaves ts : Forall (fun x => is_leaf x = true) (linearize ts).
Proof.
  induction ts as [|t ts IH]; [constructor|]. rewrite linearize_cons. apply Forall_app; split;
    [apply as_distinct_leaves|exact IH].
Qed.

Lemma transformer_eqb_eq a b : transformer_eqb a b = true -> a = b.
Proof.
  destruct a as [x| | | |ts], b as [y| | | |ts']; simpl; try discriminate; try reflexivity.
  intros H. apply Bool.eqb_prop in H. subst; reflexivity.
Qed.

(* the pipe operator, syntactically *)
Lemma linearize_pipe a b : linearize [pipe a b] = linearize (as_distinct a) ++ linearize [b].
Proof.
  unfold pipe. destruct b as [x| | | |bs]; rewrite linearize_comp, linearize_app; try reflexivity.
  rewrite linearize_comp. reflexivity.
Qed.

(* ---------------- generic semantics ---------------- *)
Section Generic.
  Variable sem : transformer -> circuit -> res circuit.
  Variable P : circuit -> Prop.
  (* every leaf establishes the invariant; idempotent-flagged leaves are idempotent on it *)
  Hypothesis sem_P : forall t c c1, sem t c = Ok c1 -> P c1.
  Hypothesis sem_idem : forall t c c1, is_leaf_idempotent t = true -> P c ->
                                       sem t c = Ok c1 -> sem t c1 = Ok c1.

  Definition run (ts : list transformer) (c : circuit) : res circuit :=
    foldM (fun c t => sem t c) ts c.

  Lemma run_app a b c : run (a ++ b) c = (do c1 <- run a c; run b c1).
  Proof.
    unfold run. revert c; induction a as [|t a IH]; intros c; simpl; [reflexivity|].
    destruct (sem t c) as [c1|e]; simpl; [apply IH|reflexivity].
  Qed.

  Lemma run_P ts : forall c c1, P c -> run ts c = Ok c1 -> P c1.
  Proof.
    unfold run. induction ts as [|t ts IH]; simpl; intros c c1 Hc H; [injection H as <-; exact Hc|].
    destruct (sem t c) as [c2|e] eqn:E; simpl in H; [|discriminate].
    eapply IH; [eapply sem_P; exact E|exact H].
  Qed.

  (* dropping an idempotent pass that equals its predecessor does not change the result *)
  Lemma reduce_from_run ts : forall prev c, P c ->
    (forall p, prev = Some p -> is_leaf_idempotent p = true -> sem p c = Ok c) ->
    run (reduce_from prev ts) c = run ts c.
  Proof.
    unfold run. induction ts as [|t ts IH]; intros prev c Hc Hprev; simpl; [reflexivity|].
    destruct (is_leaf_idempotent t &&
              match prev with Some p => transformer_eqb t p | None => false end) eqn:E.
    - apply andb_true_iff in E. destruct E as [Hi He].
      destruct prev as [p|]; [|discriminate]. apply transformer_eqb_eq in He. subst p.
      rewrite (Hprev t eq_refl Hi). simpl. apply IH; assumption.
    - simpl. destruct (sem t c) as [c1|e] eqn:Es; simpl; [|reflexivity].
      apply IH; [eapply sem_P; exact Es|].
      intros p [= <-] Hi. eapply sem_idem; eassumption.
  Qed.

  Theorem reduce_run ts c : P c -> run (reduce_from None ts) c = run ts c.
  Proof. intros Hc. apply reduce_from_run; [exact Hc|discriminate]. Qed.

  (* re-linearising an already linearised transformer only repeats implied idempotent passes *)
  Lemma relinearize_run a : forall c, P c -> run (linearize (as_distinct a)) c = run (as_distinct a) c.
  Proof.
    induction a as [x| | | |ts IH] using transformer_ind2; intros c Hc;
      try (unfold run; simpl; destruct (sem _ c) as [c1|e] eqn:E1; simpl; [|reflexivity];
           destruct (sem (TRR false) c1) as [c2|e] eqn:E2; simpl; [|reflexivity];
           rewrite (sem_idem (TRR false) c1 c2 eq_refl (sem_P _ _ _ E1) E2); reflexivity).
    - reflexivity.
    - simpl. revert c Hc. induction IH as [|t r Ht _ IHr]; intros c Hc; simpl; [reflexivity|].
      rewrite linearize_app, !run_app, (Ht c Hc).
      destruct (run (as_distinct t) c) as [c1|e] eqn:E; simpl; [|reflexivity].
      apply IHr. eapply run_P; eassumption.
  Qed.

  Definition apply_g (c : circuit) (ts : list transformer) : res circuit :=
    run (linearize_reduce ts) c.

  Theorem apply_g_linear c ts : P c -> apply_g c ts = run (linearize ts) c.
  Proof. intros Hc. unfold apply_g, linearize_reduce. apply reduce_run; exact Hc. Qed.

  Theorem apply_g_app c a b : P c ->
    apply_g c (a ++ b) = (do c1 <- apply_g c a; apply_g c1 b).
  Proof.
    intros Hc. rewrite !apply_g_linear by exact Hc. rewrite linearize_app, run_app.
    destruct (run (linearize a) c) as [c1|e] eqn:E; simpl; [|reflexivity].
    symmetry. apply apply_g_linear. eapply run_P; eassumption.
  Qed.

  Theorem apply_g_cons c t ts : P c ->
    apply_g c (t :: ts) = (do c1 <- apply_g c [t]; apply_g c1 ts).
  Proof. intros Hc. apply (apply_g_app c [t] ts Hc). Qed.

  Theorem apply_g_comp c ts : apply_g c [TComp ts] = apply_g c ts.
  Proof. unfold apply_g, linearize_reduce. rewrite linearize_comp. reflexivity. Qed.

  Theorem apply_g_pipe c a b : P c ->
    apply_g c [pipe a b] = (do c1 <- apply_g c [a]; apply_g c1 [b]).
  Proof.
    intros Hc. rewrite !apply_g_linear by exact Hc.
    rewrite linearize_pipe, run_app, (relinearize_run a c Hc), (linearize_single a).
    destruct (run (as_distinct a) c) as [c1|e] eqn:E; simpl; [|reflexivity].
    symmetry. apply apply_g_linear. eapply run_P; eassumption.
  Qed.
End Generic.

(* ---------------- the instance: sem = transform_leaf, P = "the outputs name gates" ---------------- *)
Lemma set_outputs_outs_ok n outs c' : set_outputs n outs = Ok c' -> outs_ok c'.
Proof.
  intros H. apply set_outputs_inv in H. destruct H as [-> H]. intros o Ho. simpl in Ho.
  unfold has_gate; simpl. apply H; exact Ho.
Qed.

Lemma transform_leaf_outs_ok t c c1 : transform_leaf t c = Ok c1 -> outs_ok c1.
Proof.
  destruct t as [a| | | |ts]; simpl; intros H.
  - unfold remove_redundant_gates in H. binv H order Ho. binv H n1 Hn1. binv H n2 Hn2. binv H n3 Hn3.
    eapply set_outputs_outs_ok; exact H.
  - unfold merge_unary_operators in H. binv H order Ho. binv H m Hm. binv H emit He. binv H n1 Hn1.
    binv H n2 Hn2. binv H outs Houts. eapply set_outputs_outs_ok; exact H.
  - unfold merge_duplicate_gates in H. binv H emit He. binv H stt Hst. destruct stt as [n1 tbl].
    binv H n2 Hn2. binv H outs Houts. eapply set_outputs_outs_ok; exact H.
  - unfold merge_equivalent_gates in H. binv H groups Hg. unfold replace_equivalent_gates in H.
    binv H emit He. binv H stt Hst. destruct stt as [n1 k]. binv H n2 Hn2. eapply set_outputs_outs_ok; exact H.
  - discriminate.
Qed.

Lemma transform_leaf_idem t c c1 : is_leaf_idempotent t = true -> outs_ok c ->
  transform_leaf t c = Ok c1 -> transform_leaf t c1 = Ok c1.
Proof.
  destruct t as [a| | | |ts]; simpl; try discriminate. intros _. apply rr_idempotent.
Qed.

Lemma apply_linear_run ts c : apply_linear ts c = run transform_leaf ts c.
Proof. reflexivity. Qed.

Lemma apply_transformers_g c ts : apply_transformers c ts = apply_g transform_leaf c ts.
Proof. reflexivity. Qed.

(* dropping repeated idempotent passes does not change the result *)
Theorem apply_transformers_linear c ts : outs_ok c ->
  apply_transformers c ts = apply_linear (linearize ts) c.
Proof.
  intros Hc. rewrite apply_transformers_g, apply_linear_run.
  apply (apply_g_linear transform_leaf outs_ok transform_leaf_outs_ok transform_leaf_idem); exact Hc.
Qed.

Theorem apply_linear_app a b c : apply_linear (a ++ b) c = (do c1 <- apply_linear a c; apply_linear b c1).
Proof. apply run_app. Qed.

Theorem apply_transformers_app c a b : outs_ok c ->
  apply_transformers c (a ++ b) = (do c1 <- apply_transformers c a; apply_transformers c1 b).
Proof. apply (apply_g_app transform_leaf outs_ok transform_leaf_outs_ok transform_leaf_idem). Qed.

Theorem apply_transformers_cons c t ts : outs_ok c ->
  apply_transformers c (t :: ts) = (do c1 <- apply_transformers c [t]; apply_transformers c1 ts).
Proof. apply (apply_g_cons transform_leaf outs_ok transform_leaf_outs_ok transform_leaf_idem). Qed.

Theorem apply_transformers_comp c ts : apply_transformers c [TComp ts] = apply_transformers c ts.
Proof. apply apply_g_comp. Qed.

Theorem apply_transformers_pipe c a b : outs_ok c ->
  apply_transformers c [pipe a b] = (do c1 <- apply_transformers c [a]; apply_transformers c1 [b]).
Proof. apply (apply_g_pipe transform_leaf outs_ok transform_leaf_outs_ok transform_leaf_idem). Qed.

Theorem transform_leaf_single t c : is_leaf t = true -> outs_ok c ->
  transform t c = apply_linear (as_distinct t) c.
Proof.
  intros _ Hc. unfold transform. rewrite apply_transformers_linear by exact Hc. rewrite linearize_single. reflexivity.
Qed.

Theorem apply_transformers_outs_ok c ts c' : outs_ok c -> apply_transformers c ts = Ok c' -> outs_ok c'.
Proof.
  intros Hc H. rewrite apply_transformers_linear in H by exact Hc.
  eapply (run_P transform_leaf outs_ok transform_leaf_outs_ok); eassumption.
Qed.

(* cleanup = RR ; MU ; RR ; MD ; RR ; (ME ; RR) one after another *)
Theorem cleanup_sequence c heavy : outs_ok c ->
  cleanup c heavy =
  (do c1 <- remove_redundant_gates false c;
   do c2 <- merge_unary_operators c1;
   do c3 <- remove_redundant_gates false c2;
   do c4 <- merge_duplicate_gates c3;
   do c5 <- remove_redundant_gates false c4;
   if heavy then do c6 <- merge_equivalent_gates c5; remove_redundant_gates false c6 else Ok c5).
Proof.
  intros Hc. unfold cleanup. rewrite apply_transformers_linear by exact Hc.
  destruct heavy; simpl; unfold apply_linear; simpl;
    repeat (match goal with |- context [bind ?r _] => destruct r; simpl; try reflexivity end).
Qed.

Theorem cleanup_transforms c heavy : outs_ok c ->
  cleanup c heavy =
  (do c1 <- transform (TRR false) c;
   do c2 <- transform TMU c1;
   do c3 <- transform TMD c2;
   if heavy then transform TME c3 else Ok c3).
Proof.
  intros Hc. unfold cleanup, transform. simpl app.
  rewrite (apply_transformers_cons c (TRR false) _ Hc).
  destruct (apply_transformers c [TRR false]) as [c1|e] eqn:E1; simpl; [|reflexivity].
  pose proof (apply_transformers_outs_ok _ _ _ Hc E1) as Hc1.
  rewrite (apply_transformers_cons c1 TMU _ Hc1).
  destruct (apply_transformers c1 [TMU]) as [c2|e] eqn:E2; simpl; [|reflexivity].
  pose proof (apply_transformers_outs_ok _ _ _ Hc1 E2) as Hc2.
  rewrite (apply_transformers_cons c2 TMD _ Hc2).
  destruct (apply_transformers c2 [TMD]) as [c3|e] eqn:E3; simpl; [|reflexivity].
  destruct heavy; reflexivity.
Qed.
