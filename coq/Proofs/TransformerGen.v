(* The dispatching methods of core/circuit/transformer.py (linearize_transformers, as_distinct, apply_transformers,
   _transform of a composition, transform, the three __eq__, __or__ / __ror__), regenerated from the source statement
   by statement by translator T24 (Generated/TransformerGen.v), equal the hand model Model/Passes.v: as_distinct,
   linearize, apply_transformers, transform, transformer_eqb, pipe - for every transformer term, every circuit and
   every fuel above an explicit bound. *)
Require Import Lia.
Require Import Cirbo.Model.Base Cirbo.Model.Gate Cirbo.Model.Circuit Cirbo.Model.Passes.
Require Import Cirbo.Generated.PassesGen Cirbo.Generated.PipelineGen Cirbo.Generated.TransformerGen.
Require Import Cirbo.Proofs.PassPipeline Cirbo.Proofs.PipelineGen Cirbo.Proofs.PassesGen.

(* ---------------------------------------------------------------- generic facts about the loops *)
(* a loop whose body is `yield from F t` *)
Lemma foldM_yield_from {A B} (F : A -> res (list B)) (g : A -> list B) ts :
  (forall t, In t ts -> F t = Ok (g t)) ->
  forall acc, foldM (fun y t => do r <- F t; Ok (y ++ r)) ts acc = Ok (acc ++ flat_map g ts).
Proof.
  induction ts as [|t ts IH]; intros H acc; simpl.
  - rewrite app_nil_r. reflexivity.
  - rewrite (H t (or_introl eq_refl)). cbn [bind]. rewrite IH by (intros u Hu; apply H; right; exact Hu).
    rewrite app_assoc. reflexivity.
Qed.

Lemma foldM_ext_in {A S} (f g : S -> A -> res S) l : (forall s x, In x l -> f s x = g s x) ->
  forall s, foldM f l s = foldM g l s.
Proof.
  induction l as [|x l IH]; intros H s; simpl; [reflexivity|].
  rewrite (H s x (or_introl eq_refl)). destruct (g s x) as [s'|e]; cbn [bind]; [|reflexivity].
  apply IH. intros s0 y Hy. apply H. right. exact Hy.
Qed.

(* ---------------------------------------------------------------- fuel that a term needs *)
Fixpoint need (t : transformer) : nat :=
  match t with
  | TRR _ => 2
  | TMU | TMD | TME => 4
  | TComp ts => 2 + fold_right (fun t a => Nat.max (need t) a) 0 ts
  end.

Lemma max_in {A} (f : A -> nat) l x : In x l -> f x <= fold_right (fun t a => Nat.max (f t) a) 0 l.
Proof.
  induction l as [|y l IH]; simpl; intros H; [contradiction|].
  destruct H as [H|H]; [subst; lia|]. specialize (IH H). lia.
Qed.

Lemma max_le {A} (f g : A -> nat) (k : nat) l : Forall (fun x => f x <= 2 * g x + k) l ->
  fold_right (fun t a => Nat.max (f t) a) 0 l <= 2 * fold_right (fun t a => Nat.max (g t) a) 0 l + k.
Proof. induction 1 as [|x l H _ IH]; simpl; lia. Qed.

Lemma need_le_depth t : need t <= 2 * py_transformer_depth t + 2.
Proof.
  induction t as [b| | | |ts IH] using transformer_ind2; try (simpl; lia).
  change (need (TComp ts)) with (2 + fold_right (fun t a => Nat.max (need t) a) 0 ts).
  change (py_transformer_depth (TComp ts)) with (S (fold_right (fun t a => Nat.max (py_transformer_depth t) a) 0 ts)).
  pose proof (max_le need py_transformer_depth 2 ts IH). lia.
Qed.

Lemma need_le_dispatch t : need t <= gen_dispatch_fuel t.
Proof. unfold gen_dispatch_fuel. pose proof (need_le_depth t). lia. Qed.

(* ---------------------------------------------------------------- as_distinct / linearize_transformers *)
Definition as_distinct_flag (t : transformer) (imply_deps : bool) : list transformer :=
  if imply_deps then as_distinct t else match t with TComp _ => as_distinct t | _ => [t] end.

Lemma linearize_step f ts :
  (forall t, In t ts -> gen_as_distinct_fuel f t true = Ok (as_distinct t)) ->
  gen_linearize_transformers_fuel (S f) ts = Ok (linearize ts).
Proof.
  intros H. cbn [gen_linearize_transformers_fuel]. cbv zeta.
  erewrite (foldM_yield_from (fun t => gen_as_distinct_fuel f t true) as_distinct ts H). reflexivity.
Qed.

Lemma as_distinct_comp_step f ts b :
  gen_linearize_transformers_fuel f ts = Ok (linearize ts) ->
  gen_as_distinct_fuel (S f) (TComp ts) b = Ok (as_distinct (TComp ts)).
Proof. intros H. cbn [gen_as_distinct_fuel]. cbv zeta. rewrite H. reflexivity. Qed.

Lemma gen_as_distinct_fuel_eq f : forall t b, need t <= f -> gen_as_distinct_fuel f t b = Ok (as_distinct_flag t b).
Proof.
  induction f as [f IH] using lt_wf_ind. intros t b H.
  destruct t as [a| | | |ts].
  - simpl in H. do 2 (destruct f as [|f]; [lia|]). destruct b; reflexivity.
  - simpl in H. do 4 (destruct f as [|f]; [lia|]). destruct b; reflexivity.
  - simpl in H. do 4 (destruct f as [|f]; [lia|]). destruct b; reflexivity.
  - simpl in H. do 4 (destruct f as [|f]; [lia|]). destruct b; reflexivity.
  - change (need (TComp ts)) with (2 + fold_right (fun t a => Nat.max (need t) a) 0 ts) in H.
    do 2 (destruct f as [|f]; [lia|]).
    assert (E : as_distinct_flag (TComp ts) b = as_distinct (TComp ts)) by (destruct b; reflexivity).
    rewrite E. apply as_distinct_comp_step. apply linearize_step. intros t Ht.
    apply (IH f (Nat.lt_lt_succ_r _ _ (Nat.lt_succ_diag_r f)) t true).
    pose proof (max_in need ts t Ht). lia.
Qed.

Lemma gen_linearize_fuel_eq f ts : (forall t, In t ts -> need t <= f) ->
  gen_linearize_transformers_fuel (S f) ts = Ok (linearize ts).
Proof. intros H. apply linearize_step. intros t Ht. apply (gen_as_distinct_fuel_eq f t true). apply H. exact Ht. Qed.

(* the wrappers with the default fuel *)
Theorem gen_as_distinct_eq t : gen_as_distinct t true = Ok (as_distinct t).
Proof. unfold gen_as_distinct. apply (gen_as_distinct_fuel_eq _ t true). apply need_le_dispatch. Qed.

Theorem gen_as_distinct_nodeps_eq t : gen_as_distinct t false = Ok (match t with TComp _ => as_distinct t | _ => [t] end).
Proof. unfold gen_as_distinct. apply (gen_as_distinct_fuel_eq _ t false). apply need_le_dispatch. Qed.

Theorem gen_linearize_transformers_eq ts : gen_linearize_transformers ts = Ok (linearize ts).
Proof.
  unfold gen_linearize_transformers.
  pose proof (need_le_dispatch (TComp ts)) as H.
  change (need (TComp ts)) with (2 + fold_right (fun t a => Nat.max (need t) a) 0 ts) in H.
  destruct (gen_dispatch_fuel (TComp ts)) as [|f]; [lia|].
  apply gen_linearize_fuel_eq. intros t Ht. pose proof (max_in need ts t Ht). lia.
Qed.

(* ---------------------------------------------------------------- apply_transformers / _transform / transform *)
Lemma gen_transform_fuel_leaf f t c : is_leaf t = true -> gen__transform_fuel (S f) t c = transform_leaf t c.
Proof. intros H. rewrite <- gen_transform_leaf_eq. destruct t; try reflexivity. discriminate H. Qed.

Lemma linearize_reduce_leaves ts t : In t (linearize_reduce ts) -> is_leaf t = true.
Proof.
  intros H. assert (A : forallb is_leaf (linearize_reduce ts) = true).
  { unfold linearize_reduce, linearize. apply reduce_from_forallb. rewrite forallb_flat_map.
    apply forallb_forall. intros u _. apply as_distinct_is_leaf. }
  rewrite forallb_forall in A. apply A. exact H.
Qed.

Lemma apply_fold f ts c :
  (do l <- gen_linearize_reduce_transformers ts; foldM (fun c t => gen__transform_fuel (S f) t c) l c)
  = apply_transformers c ts.
Proof.
  rewrite gen_linearize_reduce_eq. cbn [bind]. unfold apply_transformers, apply_linear.
  apply foldM_ext_in. intros s x Hx. apply gen_transform_fuel_leaf. exact (linearize_reduce_leaves ts x Hx).
Qed.

(* Transformer.apply_transformers(circuit, <iterable of transformers>) *)
Theorem gen_apply_fuel_list f c ts : gen_apply_transformers_fuel (S (S f)) c (inl ts) = apply_transformers c ts.
Proof. cbn [gen_apply_transformers_fuel py_iter_union bind]. cbv zeta. cbn [bind]. apply apply_fold. Qed.

(* Transformer.apply_transformers(circuit, <a composition>) *)
Theorem gen_apply_fuel_comp f c ts :
  gen_apply_transformers_fuel (S (S f)) c (inr (TComp ts)) = apply_transformers c [TComp ts].
Proof. cbn [gen_apply_transformers_fuel py_iter_union bind]. cbv zeta. cbn [bind]. apply apply_fold. Qed.

(* ... (<a transformer that is not a composition>): not iterable *)
Theorem gen_apply_fuel_noniter f c t : is_leaf t = true ->
  gen_apply_transformers_fuel (S f) c (inr t) = Err PyTypeError.
Proof. intros H. destruct t; try reflexivity. discriminate H. Qed.

(* TransformerComposition._transform *)
Theorem gen_transform_fuel_comp f c ts :
  gen__transform_fuel (S (S (S f))) (TComp ts) c = apply_transformers c [TComp ts].
Proof. cbn [gen__transform_fuel]. apply gen_apply_fuel_comp. Qed.

Theorem gen_apply_transformers_eq c ts : gen_apply_transformers c (inl ts) = apply_transformers c ts.
Proof. apply gen_apply_fuel_list. Qed.

Theorem gen_apply_transformers_comp_eq c ts : gen_apply_transformers c (inr (TComp ts)) = apply_transformers c [TComp ts].
Proof. apply gen_apply_fuel_comp. Qed.

Theorem gen__transform_eq t c :
  gen__transform t c = match t with TComp _ => apply_transformers c [t] | _ => transform_leaf t c end.
Proof.
  destruct t; try (apply (gen_transform_fuel_leaf 3); reflexivity). apply (gen_transform_fuel_comp 1).
Qed.

Theorem gen_transform_eq t c : gen_transform t c = transform t c.
Proof. unfold gen_transform, transform. apply gen_apply_transformers_eq. Qed.

(* ---------------------------------------------------------------- __eq__ *)
(* the arms, one per class that defines __eq__ *)
Lemma gen_eq_base a b : gen_Transformer___eq__ a b = Some (gen_same_class a b).
Proof. reflexivity. Qed.

(* x.__eq__(y) returns NotImplemented only for a RemoveRedundantGates x and a y of another class ... *)
Lemma gen_eq_notimplemented a b : gen___eq__ a b = None ->
  (exists x, a = TRR x) /\ (forall y, b <> TRR y).
Proof.
  destruct a; destruct b; simpl; intros H; try discriminate H; (split; [eexists; reflexivity|intros y E; discriminate E]).
Qed.

(* ... so the reflected call answers, and the identity fallback of `==` is never reached *)
Theorem gen_py_eq_no_fallback a b : gen___eq__ a b = None -> gen___eq__ b a <> None.
Proof. destruct a; destruct b; simpl; intros H; try discriminate H; discriminate. Qed.

Theorem gen_py_eq_eq a b : gen_py_eq a b = transformer_eqb a b.
Proof.
  destruct a; destruct b; reflexivity.
Qed.

(* the comparison used by the reduction loop of linearize_reduce_transformers (T15: py_transformer_eq_opt) *)
Theorem gen_py_eq_opt a p : match p with Some b => gen_py_eq a b | None => false end = py_transformer_eq_opt a p.
Proof. destruct p as [b|]; [apply gen_py_eq_eq|reflexivity]. Qed.

(* ---------------------------------------------------------------- __or__ / __ror__ *)
Theorem gen_or_eq a b : gen___or__ a b = Ok (Some (pipe a b)).
Proof.
  unfold gen___or__, pipe. destruct b; cbn [py_isinstance_Transformer]; rewrite gen_as_distinct_eq; reflexivity.
Qed.

(* b.__ror__(a) (never called between transformer objects, a.__or__(b) answers): the mirror image of pipe *)
Theorem gen_ror_eq a b :
  gen___ror__ b a = Ok (Some (TComp (match a with TComp l => l | _ => [a] end ++ as_distinct b))).
Proof.
  unfold gen___ror__. destruct a; cbn [py_isinstance_Transformer]; rewrite gen_as_distinct_eq; reflexivity.
Qed.

Theorem gen_py_or_eq a b : gen_py_or a b = Ok (Some (pipe a b)).
Proof. unfold gen_py_or. rewrite gen_or_eq. reflexivity. Qed.

(* ---------------------------------------------------------------- summary *)
Lemma not_comp_is_leaf t : (forall l, t <> TComp l) -> is_leaf t = true.
Proof. intros H. destruct t; try reflexivity. exfalso. exact (H _ eq_refl). Qed.

Lemma as_distinct_any_fuel t : exists n, forall f, n <= f -> gen_as_distinct_fuel f t true = Ok (as_distinct t).
Proof. exists (need t). intros f H. exact (gen_as_distinct_fuel_eq f t true H). Qed.

Lemma linearize_any_fuel ts : exists n, forall f, n <= f -> gen_linearize_transformers_fuel f ts = Ok (linearize ts).
Proof.
  exists (S (fold_right (fun t a => Nat.max (need t) a) 0 ts)). intros f H. destruct f as [|f]; [lia|].
  apply gen_linearize_fuel_eq. intros t Ht. pose proof (max_in need ts t Ht). lia.
Qed.

Theorem transformer_regenerated :
  (* as_distinct (both classes, both values of imply_deps), linearize_transformers: default fuel and every larger one *)
  (forall t, gen_as_distinct t true = Ok (as_distinct t)) /\
  (forall t, gen_as_distinct t false = Ok (match t with TComp _ => as_distinct t | _ => [t] end)) /\
  (forall ts, gen_linearize_transformers ts = Ok (linearize ts)) /\
  (forall t, exists n, forall f, n <= f -> gen_as_distinct_fuel f t true = Ok (as_distinct t)) /\
  (forall ts, exists n, forall f, n <= f -> gen_linearize_transformers_fuel f ts = Ok (linearize ts)) /\
  (* apply_transformers on a list / on a composition / on a transformer that is not one; every fuel >= 2 *)
  (forall c ts, gen_apply_transformers c (inl ts) = apply_transformers c ts) /\
  (forall f c ts, gen_apply_transformers_fuel (S (S f)) c (inl ts) = apply_transformers c ts) /\
  (forall f c ts, gen_apply_transformers_fuel (S (S f)) c (inr (TComp ts)) = apply_transformers c [TComp ts]) /\
  (forall f c t, (forall l, t <> TComp l) -> gen_apply_transformers_fuel (S f) c (inr t) = Err PyTypeError) /\
  (* _transform: the passes (T15) and TransformerComposition._transform; transform *)
  (forall f t c, (forall l, t <> TComp l) -> gen__transform_fuel (S f) t c = transform_leaf t c) /\
  (forall f c ts, gen__transform_fuel (S (S (S f))) (TComp ts) c = apply_transformers c [TComp ts]) /\
  (forall t c, gen_transform t c = transform t c) /\
  (* `a == b` through the three __eq__ methods and the NotImplemented protocol *)
  (forall a b, gen_py_eq a b = transformer_eqb a b) /\
  (forall a b, gen___eq__ a b = None -> gen___eq__ b a <> None) /\
  (* `a | b` *)
  (forall a b, gen___or__ a b = Ok (Some (pipe a b))) /\
  (forall a b, gen___ror__ b a = Ok (Some (TComp (match a with TComp l => l | _ => [a] end ++ as_distinct b)))) /\
  (forall a b, gen_py_or a b = Ok (Some (pipe a b))).
Proof.
  split; [exact gen_as_distinct_eq|]. split; [exact gen_as_distinct_nodeps_eq|].
  split; [exact gen_linearize_transformers_eq|]. split; [exact as_distinct_any_fuel|].
  split; [exact linearize_any_fuel|]. split; [exact gen_apply_transformers_eq|].
  split; [exact gen_apply_fuel_list|]. split; [exact gen_apply_fuel_comp|].
  split; [intros f c t H; apply gen_apply_fuel_noniter; apply not_comp_is_leaf; exact H|].
  split; [intros f t c H; apply gen_transform_fuel_leaf; apply not_comp_is_leaf; exact H|].
  split; [exact gen_transform_fuel_comp|]. split; [exact gen_transform_eq|].
  split; [exact gen_py_eq_eq|]. split; [exact gen_py_eq_no_fallback|].
  split; [exact gen_or_eq|]. split; [exact gen_ror_eq|exact gen_py_or_eq].
Qed.
