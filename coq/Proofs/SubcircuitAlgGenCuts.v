(* T21: the cut filtering and the closure of the node sets of _get_subcircuits regenerated = the hand model. *)
Require Import Cirbo.Model.Base Cirbo.Model.Gate Cirbo.Model.Circuit Cirbo.Model.Eval.
Require Import Cirbo.Model.SubcircuitPrims Cirbo.Model.SubcircuitAlg.
Require Import Cirbo.Generated.SubcircuitAlgGen Cirbo.Proofs.SubcircuitPrimsFacts.

(* ---- is_nested_cut ---- *)
Lemma search_loop cn gate : forall subs b,
  loopB (gen_get_subcircuits_is_nested_cut_for2 cn gate) subs b =
  Ok (if existsb (fun sub => memb gate (cm_get cn sub [])) subs then true else b).
Proof.
  induction subs as [|s subs IH]; intros b; [reflexivity|].
  cbn [loopB existsb]. unfold gen_get_subcircuits_is_nested_cut_for2 at 1. cbv beta iota.
  change (py_adict_get labels_eqb cn s []) with (cm_get cn s []).
  destruct (memb gate (cm_get cn s [])); cbn [bind fst snd orb]; [reflexivity|apply IH].
Qed.

Lemma gen_is_nested_cut_eq cn cut1 cut2 :
  gen_get_subcircuits_is_nested_cut cn cut1 cut2 = Ok (nested_cut cn cut1 cut2).
Proof.
  unfold gen_get_subcircuits_is_nested_cut, nested_cut.
  assert (H : forall l, loopM (gen_get_subcircuits_is_nested_cut_for1 cn cut2) l tt =
                        Ok (if forallb (fun g => existsb (fun sub => memb g (cm_get cn sub [])) (py_powerset cut2)) l
                            then inl tt else inr false)).
  { induction l as [|g l IH]; [reflexivity|]. cbn [loopM forallb].
    unfold gen_get_subcircuits_is_nested_cut_for1 at 1. cbv beta iota zeta. rewrite search_loop. cbn [bind].
    destruct (existsb (fun sub => memb g (cm_get cn sub [])) (py_powerset cut2)); cbn [negb bind andb]; [exact IH|reflexivity]. }
  rewrite H. cbn [bind]. destruct (forallb _ cut1); reflexivity.
Qed.

(* ---- the three searches of the filtering loop ---- *)
Definition mark (cut : list label) (b : bool) (r : list (list label * bool)) := if b then cm_set r cut true else r.

Lemma removed_sub_loop cut : forall subs r,
  loopB (gen_get_subcircuits_for2 cut) subs r = Ok (mark cut (existsb (fun sub => cm_get r sub false) subs) r).
Proof.
  induction subs as [|s subs IH]; intros r; [reflexivity|].
  cbn [loopB existsb]. unfold gen_get_subcircuits_for2 at 1. cbv beta iota.
  change (py_adict_get labels_eqb r s false) with (cm_get r s false).
  destruct (cm_get r s false); cbn [bind fst snd orb]; [reflexivity|apply IH].
Qed.

Lemma nested_prev_loop cn cut : forall prevs r,
  loopB (gen_get_subcircuits_for3 cn cut) prevs r = Ok (mark cut (existsb (nested_cut cn cut) prevs) r).
Proof.
  induction prevs as [|p prevs IH]; intros r; [reflexivity|].
  cbn [loopB existsb]. unfold gen_get_subcircuits_for3 at 1. cbv beta iota.
  rewrite gen_is_nested_cut_eq. cbn [bind].
  destruct (nested_cut cn cut p); cbn [bind fst snd orb]; [reflexivity|apply IH].
Qed.

Lemma nested_later_loop cn cuts cut : forall m k r, k + m = length cuts ->
  loopB (gen_get_subcircuits_for4 cuts cn cut) (map N.of_nat (seq k m)) r =
  Ok (mark cut (existsb (nested_cut cn cut)
                        (take_while (fun nc => (py_len nc <=? py_len cut)%N) (skipn k cuts))) r).
Proof.
  induction m as [|m IH]; intros k r Hk.
  - rewrite skipn_all2 by lia. reflexivity.
  - cbn [seq map loopB]. unfold gen_get_subcircuits_for4 at 1. cbv beta iota.
    rewrite py_index_nth_error.
    destruct (nth_error cuts k) as [nc|] eqn:En; [|apply nth_error_None in En; lia].
    assert (Es : skipn k cuts = nc :: skipn (S k) cuts).
    { clear -En. revert cuts En; induction k as [|k IHk]; intros [|a cuts] En; simpl in *; try discriminate.
      - inversion En; reflexivity.
      - apply IHk; exact En. }
    rewrite Es. cbn [bind take_while].
    rewrite N.leb_antisym. destruct (py_len cut <? py_len nc)%N; cbn [negb bind fst snd existsb]; [reflexivity|].
    rewrite gen_is_nested_cut_eq. cbn [bind].
    destruct (nested_cut cn cut nc); cbn [bind fst snd orb]; [reflexivity|]. apply IH. lia.
Qed.

Lemma range_seq_aux : forall m k,
  map (fun i => (N.of_nat k + N.of_nat i)%N) (seq 0 m) = map N.of_nat (seq k m).
Proof.
  induction m as [|m IH]; intros k; [reflexivity|]. cbn [seq map]. f_equal; [lia|].
  rewrite <- (IH (S k)). rewrite <- (seq_shift m 0), map_map. apply map_ext. intros j. lia.
Qed.

Lemma py_range_seq a b : py_range a b = map N.of_nat (seq (N.to_nat a) (N.to_nat b - N.to_nat a)).
Proof.
  unfold py_range. rewrite Nnat.N2Nat.inj_sub, <- range_seq_aux, Nnat.N2Nat.id. reflexivity.
Qed.

Lemma filter_step_eq cn cuts good r i cut : N.to_nat i < length cuts ->
  gen_get_subcircuits_for1 cuts cn (good, r) (i, cut) = Ok (filter_step cn cuts (good, r) (i, cut)).
Proof.
  intros Hi. unfold gen_get_subcircuits_for1, filter_step. cbv beta iota zeta. cbn [fst snd].
  rewrite removed_sub_loop. cbn [bind]. unfold mark.
  change (py_adict_get labels_eqb ?m cut false) with (cm_get m cut false).
  set (r1 := if existsb (fun sub => cm_get r sub false) (py_powerset cut) then cm_set r cut true else r).
  destruct (cm_get r1 cut false); [reflexivity|].
  rewrite nested_prev_loop. cbn [bind]. unfold mark.
  set (r2 := if existsb (nested_cut cn cut) good then cm_set r1 cut true else r1).
  destruct (cm_get r2 cut false); [reflexivity|].
  rewrite py_range_seq.
  replace (N.to_nat (N.add i 1)) with (S (N.to_nat i)) by lia.
  unfold py_len at 1. rewrite Nnat.Nat2N.id.
  rewrite nested_later_loop by lia. cbn [bind]. unfold mark.
  match goal with |- context [cm_get ?R cut false] => destruct (cm_get R cut false) end; reflexivity.
Qed.

Theorem gen_filter_loop_eq cn cuts :
  foldM (gen_get_subcircuits_for1 cuts cn) (py_enumerate cuts) ([], []) =
  Ok (fold_left (filter_step cn cuts) (py_enumerate cuts) ([], [])).
Proof.
  rewrite py_enumerate_seq.
  assert (H : forall (l : list (N * list label)) st,
             Forall (fun ic => N.to_nat (fst ic) < length cuts) l ->
             foldM (gen_get_subcircuits_for1 cuts cn) l st = Ok (fold_left (filter_step cn cuts) l st)).
  { induction l as [|[i cut] l IH]; intros [good r] Hl; [reflexivity|]. inversion Hl; subst. cbn [foldM fold_left].
    rewrite filter_step_eq by assumption. cbn [bind]. destruct (filter_step cn cuts (good, r) (i, cut)). apply IH. assumption. }
  apply H. apply Forall_forall. intros [i cut] Hin. apply in_combine_l in Hin.
  apply in_map_iff in Hin. destruct Hin as (k & <- & Hk). apply in_seq in Hk. cbn [fst]. lia.
Qed.

(* ---- filling the node set of one cut ---- *)
Lemma union_loop cut : forall subs cn,
  foldM (gen_get_subcircuits_for6 cut) subs cn = Ok (fold_left (union_step cut) subs cn).
Proof. apply foldM_pure. intros cn s. reflexivity. Qed.

Lemma close_ops_loop cut : forall ops cn stack,
  foldM (gen_get_subcircuits_for8 cut) ops (cn, stack) = Ok (fold_left (close_step cut) ops (cn, stack)).
Proof.
  intros ops cn stack. apply foldM_pure. intros [cn' st'] op.
  unfold gen_get_subcircuits_for8, close_step, cm_get, cm_set. cbv beta iota. cbn [fst snd].
  destruct (negb (memb op cut) && negb (memb op (py_adict_get labels_eqb cn' cut []))); reflexivity.
Qed.

Lemma close_loop c cut : forall fuel cn stack,
  gen_get_subcircuits_while7 fuel c cut (cn, stack) =
  do cn' <- close_down fuel c cut cn stack; Ok (cn', []).
Proof.
  induction fuel as [|fuel IH]; intros cn stack; [reflexivity|].
  cbn [gen_get_subcircuits_while7 close_down]. cbv beta iota. unfold py_pop.
  destruct (rev stack) as [|top below] eqn:Er.
  - assert (stack = []) by (destruct stack; [reflexivity|apply (f_equal (@length label)) in Er; rewrite rev_length in Er; discriminate]).
    subst. reflexivity.
  - assert (Hne : py_list_nonempty stack = true)
      by (destruct stack; [discriminate|reflexivity]).
    rewrite Hne. cbn [bind].
    destruct (get_gate c top) as [g|e]; cbn [bind]; [|reflexivity].
    rewrite close_ops_loop. cbn [bind].
    destruct (fold_left (close_step cut) (gops g) (cn, rev below)) as [cn1 st1]. cbn [fst snd]. apply IH.
Qed.

Theorem gen_fill_cut_eq set_iter fuel c cn cut :
  gen_get_subcircuits_for5 set_iter fuel c cn cut = fill_cut set_iter fuel c cn cut.
Proof.
  unfold gen_get_subcircuits_for5, fill_cut. cbv beta iota zeta.
  rewrite union_loop. cbn [bind]. rewrite map_id. rewrite close_loop.
  change (py_adict_get labels_eqb ?m cut []) with (cm_get m cut []).
  destruct (close_down fuel c cut _ _); reflexivity.
Qed.
