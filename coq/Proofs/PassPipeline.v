(* C03: lift of the per-pass preservation theorems to every transformer pipeline
   (apply_transformers = fold over the linearised, reduced list) and to cleanup. *)
Require Import Cirbo.Model.Base Cirbo.Model.Gate Cirbo.Model.Den Cirbo.Model.Circuit Cirbo.Model.Traverse
        Cirbo.Model.Eval Cirbo.Model.Sem Cirbo.Model.WF Cirbo.Model.Passes.
Require Import Cirbo.Proofs.DictFacts Cirbo.Proofs.WFBase Cirbo.Proofs.WFSimple Cirbo.Proofs.PassRebuild.

(* does the pass preserve the function on every three-valued assignment (ME: total ones only) *)
Definition tv_of (t : transformer) : bool := match t with TME => false | _ => true end.
(* does the pass keep the input list (RemoveRedundantGates(allow_inputs_removal=True) does not) *)
Definition keep_of (t : transformer) : bool := match t with TRR true => false | _ => true end.

(* a predicate on the leaves of a (nested) pipeline *)
Fixpoint all_leaves (P : transformer -> bool) (t : transformer) : bool :=
  match t with
  | TComp ts => forallb (all_leaves P) ts
  | _ => P t
  end.

Section TransformerInd.
  Variable P : transformer -> Prop.
  Hypothesis Hrr : forall b, P (TRR b).
  Hypothesis Hmu : P TMU.
  Hypothesis Hmd : P TMD.
  Hypothesis Hme : P TME.
  Hypothesis Hcomp : forall ts, Forall P ts -> P (TComp ts).
  Fixpoint transformer_ind2 (t : transformer) : P t :=
    match t with
    | TRR b => Hrr b
    | TMU => Hmu
    | TMD => Hmd
    | TME => Hme
    | TComp ts => Hcomp ts ((fix F (ts : list transformer) : Forall P ts :=
                               match ts with
                               | [] => Forall_nil _
                               | t :: r => Forall_cons _ (transformer_ind2 t) (F r)
                               end) ts)
    end.
End TransformerInd.

Definition is_leaf (t : transformer) : bool := match t with TComp _ => false | _ => true end.

Lemma forallb_app' {A} (f : A -> bool) l1 l2 : forallb f (l1 ++ l2) = forallb f l1 && forallb f l2.
Proof. induction l1 as [|x l1 IH]; simpl; [reflexivity|rewrite IH, andb_assoc; reflexivity]. Qed.

Lemma forallb_flat_map {A B} (f : B -> bool) (g : A -> list B) l :
  forallb f (flat_map g l) = forallb (fun x => forallb f (g x)) l.
Proof. induction l as [|x l IH]; simpl; [reflexivity|rewrite forallb_app', IH; reflexivity]. Qed.

Lemma as_distinct_leaves (P : transformer -> bool) t :
  P (TRR false) = true -> all_leaves P t = true -> forallb P (as_distinct t) = true.
Proof.
  intros Hrr. induction t as [b| | | |ts IH] using transformer_ind2; simpl; intros H;
    try (rewrite H, ?Hrr; reflexivity).
  rewrite forallb_flat_map. rewrite forallb_forall in *. intros t Ht.
  rewrite Forall_forall in IH. apply IH; [exact Ht|apply H; exact Ht].
Qed.

Lemma as_distinct_is_leaf t : forallb is_leaf (as_distinct t) = true.
Proof.
  induction t as [b| | | |ts IH] using transformer_ind2; simpl; try reflexivity.
  rewrite forallb_flat_map. rewrite forallb_forall. rewrite Forall_forall in IH. exact IH.
Qed.

Lemma reduce_from_forallb (P : transformer -> bool) l : forall prev,
  forallb P l = true -> forallb P (reduce_from prev l) = true.
Proof.
  induction l as [|t l IH]; intros prev H; simpl in *; [reflexivity|].
  apply andb_true_iff in H. destruct H as [H1 H2].
  destruct (is_leaf_idempotent t && _); [apply IH; exact H2|]. simpl. rewrite H1. apply IH; exact H2.
Qed.

Lemma linearize_reduce_forallb (P : transformer -> bool) ts :
  P (TRR false) = true -> forallb (all_leaves P) ts = true -> forallb P (linearize_reduce ts) = true.
Proof.
  intros Hrr H. unfold linearize_reduce, linearize. apply reduce_from_forallb.
  rewrite forallb_flat_map. rewrite forallb_forall in *. intros t Ht.
  apply as_distinct_leaves; [exact Hrr|apply H; exact Ht].
Qed.

Section Lift.
  (* the per-pass theorems (Proofs/PassRR.v, PassMU.v, PassMD.v, PassME.v), discharged in PassAll.v *)
  Hypothesis Hleaf : forall t c c', WF c -> arity_ok c -> transform_leaf t c = Ok c' ->
                                    Pres (tv_of t) (keep_of t) c c'.

  Lemma apply_linear_pres ts : forall c c', WF c -> arity_ok c -> apply_linear ts c = Ok c' ->
    Pres (forallb tv_of ts) (forallb keep_of ts) c c'.
  Proof.
    induction ts as [|t ts IH]; intros c c' W A H; unfold apply_linear in H; simpl in H.
    - injection H as <-. apply Pres_refl; assumption.
    - binv H c1 H1. pose proof (Hleaf t c c1 W A H1) as P1.
      simpl. eapply Pres_trans; [exact W|exact P1|].
      apply IH; [exact (pr_wf _ _ _ _ P1)|exact (pr_arity _ _ _ _ P1)|exact H].
  Qed.

  Theorem apply_transformers_pres c ts c' :
    WF c -> arity_ok c -> apply_transformers c ts = Ok c' ->
    Pres (forallb (all_leaves tv_of) ts) (forallb (all_leaves keep_of) ts) c c'.
  Proof.
    intros W A H. unfold apply_transformers in H.
    eapply Pres_weaken; [| |apply apply_linear_pres; eassumption].
    - intros Ht. apply linearize_reduce_forallb; [reflexivity|exact Ht].
    - intros Hk. apply linearize_reduce_forallb; [reflexivity|exact Hk].
  Qed.

  Theorem transform_pres t c c' :
    WF c -> arity_ok c -> transform t c = Ok c' -> Pres (all_leaves tv_of t) (all_leaves keep_of t) c c'.
  Proof.
    intros W A H. eapply Pres_weaken; [| |eapply apply_transformers_pres; eassumption];
      simpl; intros ->; reflexivity.
  Qed.

  Theorem cleanup_pres c b c' :
    WF c -> arity_ok c -> cleanup c b = Ok c' -> Pres (negb b) true c c'.
  Proof.
    intros W A H. unfold cleanup in H.
    eapply Pres_weaken; [| |eapply apply_transformers_pres; eassumption].
    - destruct b; [discriminate|reflexivity].
    - destruct b; reflexivity.
  Qed.
End Lift.

