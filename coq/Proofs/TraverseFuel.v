(* Fuel adequacy of the traversal loop: a decreasing measure, the bound traverse_fuel,
   and the classification of the result of a run on a netlist whose operands exist. *)
Require Import Cirbo.Model.Base Cirbo.Model.Gate Cirbo.Model.Circuit Cirbo.Model.Traverse Cirbo.Model.WF.
Require Import Cirbo.Proofs.DictFacts Cirbo.Proofs.TopSort Cirbo.Proofs.TopSortWF.
Require Import Cirbo.Proofs.TraverseStep Cirbo.Proofs.TraverseInv.

(* ---------------- sums ---------------- *)
Lemma list_sum_map_add {A} (f g : A -> nat) l :
  list_sum (map (fun x => f x + g x) l) = list_sum (map f l) + list_sum (map g l).
Proof. induction l as [|x xs IH]; simpl; [reflexivity|rewrite IH; lia]. Qed.

Lemma list_sum_map_le {A} (f g : A -> nat) l :
  (forall x, In x l -> f x <= g x) -> list_sum (map f l) <= list_sum (map g l).
Proof.
  induction l as [|x xs IH]; simpl; intros H; [lia|].
  pose proof (H x (or_introl eq_refl)). pose proof (IH (fun y Hy => H y (or_intror Hy))). lia.
Qed.

Lemma list_sum_map_lt {A} (f g : A -> nat) l a d :
  (forall x, In x l -> f x <= g x) -> In a l -> f a + d <= g a ->
  list_sum (map f l) + d <= list_sum (map g l).
Proof.
  induction l as [|x xs IH]; simpl; intros H Ha Hd; [contradiction|].
  pose proof (H x (or_introl eq_refl)) as Hx.
  pose proof (list_sum_map_le f g xs (fun y Hy => H y (or_intror Hy))) as Hle.
  destruct Ha as [->|Ha]; [lia|].
  pose proof (IH (fun y Hy => H y (or_intror Hy)) Ha Hd). lia.
Qed.

Lemma list_sum_map_ext {A} (f g : A -> nat) l :
  (forall x, In x l -> f x = g x) -> list_sum (map f l) = list_sum (map g l).
Proof.
  induction l as [|x xs IH]; simpl; intros H; [reflexivity|].
  rewrite (H x (or_introl eq_refl)), IH; [reflexivity|]. intros y Hy; apply H; right; exact Hy.
Qed.

Lemma list_sum_map_zero {A} (l : list A) : list_sum (map (fun _ => 0) l) = 0.
Proof. induction l; simpl; auto. Qed.

Lemma list_sum_swap {A B} (f : A -> B -> nat) la lb :
  list_sum (map (fun a => list_sum (map (fun b => f a b) lb)) la) =
  list_sum (map (fun b => list_sum (map (fun a => f a b) la)) lb).
Proof.
  induction la as [|a la IH]; simpl.
  - rewrite list_sum_map_zero. reflexivity.
  - rewrite IH. rewrite <- list_sum_map_add. reflexivity.
Qed.

Lemma count_sum_one x ks : NoDup ks -> In x ks ->
  list_sum (map (fun k => if leqb k x then 1 else 0) ks) = 1.
Proof.
  induction ks as [|k ks IH]; simpl; intros Hnd Hin; [contradiction|]. inversion Hnd; subst.
  destruct Hin as [->|Hin].
  - rewrite leqb_refl. rewrite (list_sum_map_ext _ (fun _ => 0)).
    + rewrite list_sum_map_zero. reflexivity.
    + intros y Hy. destruct (leqb_spec y x) as [->|]; [contradiction|reflexivity].
  - destruct (leqb_spec k x) as [->|]; [contradiction|]. rewrite IH; auto.
Qed.

Lemma length_count_sum ks xs : NoDup ks -> incl xs ks ->
  length xs = list_sum (map (fun k => count k xs) ks).
Proof.
  intros Hnd. induction xs as [|x xs IH]; intros Hincl; simpl.
  - rewrite list_sum_map_zero. reflexivity.
  - rewrite list_sum_map_add. rewrite count_sum_one; [|exact Hnd|apply Hincl; left; reflexivity].
    rewrite <- IH; [reflexivity|]. intros y Hy; apply Hincl; right; exact Hy.
Qed.

Lemma sum_arity_list_sum c :
  sum_arity c = list_sum (map (fun kg : label * gate => length (gops (snd kg))) (gates c)).
Proof.
  unfold sum_arity.
  assert (H : forall l n, fold_left (fun n (kg : label * gate) => n + length (gops (snd kg))) l n
                          = n + list_sum (map (fun kg : label * gate => length (gops (snd kg))) l)).
  { induction l as [|x xs IH]; intros n; simpl; [lia|rewrite IH; lia]. }
  rewrite H. reflexivity.
Qed.

Lemma sum_ops_arity c : NoDup (dkeys (gates c)) ->
  list_sum (map (fun l => length (ops_of c l)) (dkeys (gates c))) = sum_arity c.
Proof.
  intros Hnd. rewrite sum_arity_list_sum. unfold dkeys. rewrite map_map.
  apply list_sum_map_ext. intros [l g] Hin. simpl. unfold ops_of.
  rewrite (dget_of_In _ _ _ Hnd Hin). reflexivity.
Qed.

Lemma sum_users_arity c : WF c ->
  list_sum (map (fun l => length (users_of c l)) (dkeys (gates c))) = sum_arity c.
Proof.
  intros Hwf. pose proof (wf_gkeys c Hwf) as Hnd. rewrite <- (sum_ops_arity c Hnd).
  rewrite (list_sum_map_ext _ (fun l => list_sum (map (fun u => count u (users_of c l)) (dkeys (gates c))))).
  2:{ intros l _. apply length_count_sum; [exact Hnd|]. intros u Hu. eapply wf_users_key; eauto. }
  rewrite (list_sum_map_ext (fun l => length (ops_of c l))
                            (fun u => list_sum (map (fun l => count l (ops_of c u)) (dkeys (gates c))))).
  2:{ intros u _. apply length_count_sum; [exact Hnd|]. intros o Ho. eapply wf_ops_key; eauto. }
  rewrite list_sum_swap. apply list_sum_map_ext. intros u _. apply list_sum_map_ext. intros l _.
  apply (wf_users c Hwf).
Qed.

(* ---------------- the measure ---------------- *)
Section Fuel.
  Variable mode : tmode.
  Variable inverse : bool.
  Variable c : circuit.
  Variable abort : label -> tstate -> option err.
  Notation nx := (nxt inverse c).

  Definition wgt (sts : dict tstate) (l : label) : nat :=
    match state_of sts l with UNVISITED => S (length (nx l)) | _ => 0 end.
  Definition Wgt (sts : dict tstate) : nat := list_sum (map (wgt sts) (dkeys (gates c))).
  Definition mu (x : cfg) : nat := length (snd (fst x)) + Wgt (fst (fst x)).

  Lemma wgt_dset_le sts k v l : v <> UNVISITED -> wgt (dset sts k v) l <= wgt sts l.
  Proof.
    intros Hv. unfold wgt. rewrite state_of_dset. destruct (leqb_spec l k) as [->|Hne]; [|lia].
    destruct v; [congruence| |]; lia.
  Qed.

  Lemma pushed_length sts1 ns : length (pushed sts1 ns) <= length ns.
  Proof. unfold pushed. induction ns as [|n ns IH]; simpl; [lia|]. destruct (tstate_beq _ _); simpl; lia. Qed.

  Lemma is_head_length {A} (queue : list A) cur rest :
    is_head mode queue cur rest -> length queue = S (length rest).
  Proof. unfold is_head. destruct mode; intros ->; [rewrite app_length; simpl; lia|reflexivity]. Qed.

  Lemma Step_mu x y : Step mode inverse c abort x y -> mu y < mu x.
  Proof.
    intros HS. destruct HS as [sts queue log cur rest Hh Hs Hk Hall sts1
                              |sts queue log cur rest Hh Hs Hk
                              |sts queue log cur rest Hh Hs Hk]; unfold mu; simpl.
    - pose proof (is_head_length _ _ _ Hh) as Hlen.
      pose proof (pushed_length sts1 (nx cur)) as Hp.
      set (sts' := match mode with DFS => sts1 | BFS => dset sts1 cur VISITED end).
      assert (HW : Wgt sts' + S (length (nx cur)) <= Wgt sts).
      { unfold Wgt. apply list_sum_map_lt with (a := cur).
        - intros l _. unfold sts', sts1. destruct mode.
          + apply wgt_dset_le; discriminate.
          + etransitivity; [apply wgt_dset_le; discriminate|apply wgt_dset_le; discriminate].
        - exact Hk.
        - unfold wgt at 2. rewrite Hs.
          assert (E : wgt sts' cur = 0).
          { unfold wgt, sts', sts1. destruct mode; rewrite !state_of_dset, !leqb_refl; reflexivity. }
          rewrite E. lia. }
      destruct mode; rewrite app_length; lia.
    - pose proof (is_head_length _ _ _ Hh) as Hlen.
      assert (HW : Wgt (dset sts cur VISITED) <= Wgt sts).
      { unfold Wgt. apply list_sum_map_le. intros l _. apply wgt_dset_le; discriminate. }
      lia.
    - pose proof (is_head_length _ _ _ Hh) as Hlen. lia.
  Qed.

  (* with enough fuel a run ends or raises in an iteration, never OutOfFuel by itself *)
  Lemma loop_total : forall f sts queue log, mu (sts, queue, log) < f ->
    (exists sts' log', traverse_loop f mode inverse c abort sts queue log = Ok (sts', log')) \/
    (exists e y, traverse_loop f mode inverse c abort sts queue log = Err e /\
                 Steps mode inverse c abort (sts, queue, log) y /\ StepErr mode inverse c abort y e).
  Proof.
    induction f as [|f IH]; intros sts queue log Hmu; [lia|].
    destruct (loop_S_cases mode inverse c abort f sts queue log)
      as [[-> ->]|[(s1 & q1 & l1 & HS & ->)|(e & HE & ->)]].
    - left; eauto.
    - pose proof (Step_mu _ _ HS) as Hlt.
      destruct (IH s1 q1 l1) as [H|(e & y & H1 & H2 & H3)]; [lia|left; exact H|right].
      exists e, y. split; [exact H1|]. split; [econstructor; eauto|exact H3].
    - right. exists e. eexists. split; [reflexivity|]. split; [constructor|exact HE].
  Qed.

  Lemma mu_init starts :
    mu ([], starts, []) =
    length starts + length (gates c) + list_sum (map (fun l => length (nx l)) (dkeys (gates c))).
  Proof.
    unfold mu, Wgt; simpl. unfold wgt, state_of; simpl.
    rewrite (list_sum_map_add (fun _ => 1) (fun l => length (nx l))).
    assert (H : forall (l : list label), list_sum (map (fun _ => 1) l) = length l).
    { induction l; simpl; auto. }
    rewrite H. unfold dkeys. rewrite map_length. lia.
  Qed.

  (* ---- netlists whose operands / successors exist ---- *)
  Hypothesis Hclosed : forall l ch, key c l -> In ch (nx l) -> key c ch.

  Definition InvK (x : cfg) : Prop := forall l, In l (snd (fst x)) -> key c l.

  Lemma InvK_step x y : InvK x -> Step mode inverse c abort x y -> InvK y.
  Proof.
    unfold InvK. intros HI HS. destruct HS as [sts queue log cur rest Hh Hs Hk Hall sts1
                              |sts queue log cur rest Hh Hs Hk
                              |sts queue log cur rest Hh Hs Hk]; simpl in *.
    - intros l Hl.
      assert (Hl' : In l queue \/ In l (pushed sts1 (nx cur))).
      { destruct mode; apply in_app_or in Hl; destruct Hl as [Hl|Hl]; auto.
        left. apply (is_head_In _ _ _ _ l Hh). right; exact Hl. }
      destruct Hl' as [Hl'|Hl']; [auto|]. apply pushed_In in Hl'. eapply Hclosed; [exact Hk|tauto].
    - intros l Hl. apply HI. apply (is_head_In _ _ _ _ l Hh). right; exact Hl.
    - intros l Hl. apply HI. apply (is_head_In _ _ _ _ l Hh). right; exact Hl.
  Qed.

  Lemma InvK_steps x y : Steps mode inverse c abort x y -> InvK x -> InvK y.
  Proof. apply Steps_inv. intros; eapply InvK_step; eauto. Qed.

  (* the only way an iteration can raise is the discover hook *)
  Lemma StepErr_abort sts queue log e : InvK (sts, queue, log) -> StepErr mode inverse c abort (sts, queue, log) e ->
    exists cur rest ch, is_head mode queue cur rest /\ state_of sts cur = UNVISITED /\ key c cur /\
      In ch (nx cur) /\ abort ch (state_of (dset sts cur ENTERED) ch) = Some e.
  Proof.
    intros HK (cur & rest & Hh & [[_ Hn]|(Hs & Hk & ch & Hch & [[_ Hn]|Ha])]).
    - exfalso. apply Hn, HK. simpl. apply (is_head_In _ _ _ _ cur Hh). left; reflexivity.
    - exfalso. apply Hn. eapply Hclosed; eauto.
    - exists cur, rest, ch. auto.
  Qed.
End Fuel.
