(* C12: completing a model (`define` of PyFunctionModel / TruthTableModel) and the bit order of
   canonical_index_to_input and of the integer wrappers. *)
From Coq Require Import Permutation Sorted.
Require Import Cirbo.Model.Base Cirbo.Model.Gate Cirbo.Model.Circuit Cirbo.Model.Eval
        Cirbo.Model.FuncProto Cirbo.Proofs.FuncProtoEnum Cirbo.Proofs.FuncProtoLoops
        Cirbo.Proofs.FuncProtoQueries.

(* ------------------------------------------------------------------ *)
(* l[i] = g(l[i]) *)
Fixpoint upd {A} (i : nat) (g : A -> A) (l : list A) : list A :=
  match i, l with
  | _, [] => []
  | O, a :: r => g a :: r
  | S i', a :: r => a :: upd i' g r
  end.

Lemma update_nth_ok {A} (g : A -> A) : forall (l : list A) i, i < length l -> update_nth i g l = Ok (upd i g l).
Proof.
  induction l as [|a l IH]; intros [|i] Hi; simpl in *; try lia; [reflexivity|].
  rewrite IH by lia. reflexivity.
Qed.

Lemma upd_length {A} (g : A -> A) : forall (l : list A) i, length (upd i g l) = length l.
Proof. induction l as [|a l IH]; intros [|i]; simpl; try reflexivity. rewrite IH; reflexivity. Qed.

Lemma nth_upd {A} (g : A -> A) (d : A) : forall (l : list A) i k, i < length l ->
  nth k (upd i g l) d = if (k =? i)%nat then g (nth i l d) else nth k l d.
Proof.
  induction l as [|a l IH]; intros [|i] [|k] Hi; simpl in *; try lia; try reflexivity.
  apply IH. lia.
Qed.

(* mapM facts by position *)
Lemma mapM_nth {A B} (p : A -> res B) (da : A) (db : B) : forall l r, mapM p l = Ok r ->
  length r = length l /\ forall j, j < length l -> p (nth j l da) = Ok (nth j r db).
Proof.
  induction l as [|a l IH]; intros r H; simpl in H.
  - injection H as <-. split; [reflexivity|]. intros j Hj; simpl in Hj; lia.
  - destruct (p a) as [b|] eqn:Ea; simpl in H; [|discriminate].
    destruct (mapM p l) as [r'|] eqn:El; simpl in H; [|discriminate]. injection H as <-.
    destruct (IH r' eq_refl) as [Hl Hn]. split; [simpl; lia|].
    intros [|j] Hj; simpl in *; [exact Ea|apply Hn; lia].
Qed.

Lemma mapM_total {A B} (p : A -> res B) : forall l, (forall a, In a l -> exists b, p a = Ok b) ->
  exists r, mapM p l = Ok r.
Proof.
  induction l as [|a l IH]; intros H; simpl; [eexists; reflexivity|].
  destruct (H a (or_introl eq_refl)) as (b & ->). simpl.
  destruct IH as (r & ->); [intros x Hx; apply H; right; exact Hx|]. simpl. eexists; reflexivity.
Qed.

(* a conversion tri -> bool that fails exactly on DontCare *)
Section TriConv.
  Variables (h : tri -> res bool) (e : err).
  Hypothesis Hdef : forall b, h (Def b) = Ok b.
  Hypothesis Hdc : h DontCare = Err e.

  Lemma conv_nth l r : mapM h l = Ok r ->
    length r = length l /\ forall j, j < length l -> nth j l DontCare = Def (nth j r false).
  Proof.
    intros H. destruct (mapM_nth h DontCare false l r H) as [Hl Hn]. split; [exact Hl|].
    intros j Hj. specialize (Hn j Hj). destruct (nth j l DontCare) as [b|].
    - rewrite Hdef in Hn. injection Hn as ->. reflexivity.
    - rewrite Hdc in Hn. discriminate.
  Qed.

  Lemma conv_total l : (forall j, j < length l -> nth j l DontCare <> DontCare) -> exists r, mapM h l = Ok r.
  Proof.
    intros H. apply mapM_total. intros a Ha. destruct (In_nth _ _ DontCare Ha) as (j & Hj & <-).
    specialize (H j Hj). destruct (nth j l DontCare) as [b|]; [exists b; apply Hdef|congruence].
  Qed.
End TriConv.

(* ------------------------------------------------------------------ *)
(* PyFunctionModel.define *)

Lemma nat_mem_seq j m : j < m -> nat_mem j (seq 0 m) = true.
Proof. intros H. apply nat_mem_In, in_seq. lia. Qed.

Lemma pm_fill_spec d x : forall idxs ans, (forall j, In j idxs -> j < length ans) ->
  (forall ans', pm_fill d x idxs ans = Ok ans' ->
     length ans' = length ans /\
     forall j, j < length ans ->
       match nth j ans DontCare with
       | Def b => nth j ans' DontCare = Def b
       | DontCare => if nat_mem j idxs
                     then exists v, lookup_def d x j = Some v /\ nth j ans' DontCare = Def v
                     else nth j ans' DontCare = DontCare
       end)
  /\ ((forall j, In j idxs -> nth j ans DontCare = DontCare -> lookup_def d x j <> None) ->
      exists ans', pm_fill d x idxs ans = Ok ans').
Proof.
  induction idxs as [|i idxs IH]; intros ans Hidx.
  - split.
    + intros ans' H. simpl in H. injection H as <-. split; [reflexivity|].
      intros j Hj. destruct (nth j ans DontCare); reflexivity.
    + intros _. eexists; reflexivity.
  - assert (Hi : i < length ans) by (apply Hidx; left; reflexivity).
    assert (Hidx' : forall j, In j idxs -> j < length ans) by (intros j Hj; apply Hidx; right; exact Hj).
    simpl pm_fill. rewrite (nth_res_ok ans i DontCare Hi). simpl.
    destruct (nth i ans DontCare) as [bi|] eqn:Ei.
    + (* already defined: skipped *)
      destruct (IH ans Hidx') as [IH1 IH2]. split.
      * intros ans' H. destruct (IH1 ans' H) as [Hl Hn]. split; [exact Hl|].
        intros j Hj. specialize (Hn j Hj). destruct (nth j ans DontCare) as [b|] eqn:Ej; [exact Hn|].
        unfold nat_mem in *. simpl existsb. destruct (Nat.eqb_spec j i) as [E|_]; [congruence|exact Hn].
      * intros H. apply IH2. intros j Hj; apply H; right; exact Hj.
    + destruct (lookup_def d x i) as [v|] eqn:El.
      * rewrite update_nth_ok by exact Hi. simpl.
        set (ans1 := upd i (fun _ => Def v) ans).
        assert (Hl1 : length ans1 = length ans) by apply upd_length.
        assert (Hn1 : forall k, nth k ans1 DontCare = if (k =? i)%nat then Def v else nth k ans DontCare)
          by (intros k; apply nth_upd; exact Hi).
        destruct (IH ans1) as [IH1 IH2]; [intros j Hj; rewrite Hl1; apply Hidx'; exact Hj|]. split.
        -- intros ans' H. destruct (IH1 ans' H) as [Hl Hn]. split; [lia|].
           intros j Hj. specialize (Hn j ltac:(lia)). rewrite Hn1 in Hn.
           unfold nat_mem in *. simpl existsb.
           destruct (Nat.eqb_spec j i) as [E|Hne].
           ++ rewrite E, Ei. simpl. exists v. split; [exact El|]. rewrite <- E. exact Hn.
           ++ destruct (nth j ans DontCare) as [b|]; [exact Hn|]. simpl. exact Hn.
        -- intros H. apply IH2. intros j Hj Hdc. rewrite Hn1 in Hdc.
           destruct (Nat.eqb_spec j i); [discriminate|]. apply H; [right; exact Hj|exact Hdc].
      * split; [intros ans' H; discriminate|].
        intros H. exfalso. apply (H i (or_introl eq_refl) Ei El).
Qed.

Lemma pm_define_correct p d x ans : pm_func p x = Ok ans -> length ans = pm_m p ->
  (forall r, py_func (pm_define p d) x = Ok r ->
     length r = pm_m p /\
     forall j, j < pm_m p ->
       match nth j ans DontCare with
       | Def b => nth j r false = b
       | DontCare => lookup_def d x j = Some (nth j r false)
       end)
  /\ ((forall j, j < pm_m p -> nth j ans DontCare = DontCare -> lookup_def d x j <> None) ->
      exists r, py_func (pm_define p d) x = Ok r).
Proof.
  intros Hans Hlen. simpl py_func. rewrite Hans. simpl.
  destruct (pm_fill_spec d x (seq 0 (pm_m p)) ans) as [F1 F2].
  { intros j Hj. apply in_seq in Hj. lia. }
  split.
  - intros r H. destruct (pm_fill d x (seq 0 (pm_m p)) ans) as [ans'|] eqn:Ef; simpl in H; [|discriminate].
    destruct (F1 ans' eq_refl) as [Hl Hn].
    destruct (conv_nth tri_bool GateStateError (fun b => eq_refl) eq_refl ans' r H) as [Hlr Hnr].
    split; [lia|]. intros j Hj. specialize (Hn j ltac:(lia)). specialize (Hnr j ltac:(lia)).
    destruct (nth j ans DontCare) as [b|].
    + rewrite Hn in Hnr. injection Hnr as ->. reflexivity.
    + rewrite nat_mem_seq in Hn by exact Hj. destruct Hn as (v & Hv & Hd). rewrite Hd in Hnr.
      injection Hnr as ->. exact Hv.
  - intros H. destruct F2 as (ans' & Ef).
    { intros j Hj. apply in_seq in Hj. apply H. lia. }
    rewrite Ef. simpl. destruct (F1 ans' Ef) as [Hl Hn].
    apply (conv_total tri_bool (fun b => eq_refl)).
    intros j Hj. specialize (Hn j ltac:(lia)). destruct (nth j ans DontCare) as [b|].
    + rewrite Hn. discriminate.
    + rewrite nat_mem_seq in Hn by lia. destruct Hn as (v & _ & ->). discriminate.
Qed.

(* ------------------------------------------------------------------ *)
(* TruthTableModel.define *)

Definition model_shape (n m : nat) (tbl : list (list tri)) : Prop :=
  length tbl = m /\ forall j, j < m -> length (nth j tbl []) = 2 ^ n.

Definition wf_definition (n m : nat) (d : definition) : Prop :=
  forall y k v, In ((y, k), v) d -> length y = n /\ k < m.

Definition cell (tbl : list (list tri)) (j : nat) (x : bvec) : tri :=
  nth (index_of x) (nth j tbl []) DontCare.

Definition set_if_dc (v : bool) (c : tri) : tri := match c with DontCare => Def v | _ => c end.

Lemma tm_define_step_spec n m tbl y k v : model_shape n m tbl -> length y = n -> k < m ->
  exists tbl1, tm_define_step tbl ((y, k), v) = Ok tbl1 /\ model_shape n m tbl1 /\
    forall j x, j < m -> length x = n ->
      cell tbl1 j x = if (j =? k)%nat && bvec_eqb x y then set_if_dc v (cell tbl k y) else cell tbl j x.
Proof.
  intros [Hlen Hrows] Hy Hk. unfold tm_define_step.
  rewrite (nth_res_ok tbl k []) by lia. simpl.
  assert (Hiy : index_of y < length (nth k tbl [])).
  { rewrite Hrows by exact Hk. rewrite <- Hy. apply index_of_lt. }
  rewrite update_nth_ok by exact Hiy. simpl.
  rewrite update_nth_ok by lia.
  eexists; split; [reflexivity|]. split.
  - split; [rewrite upd_length; exact Hlen|]. intros j Hj.
    rewrite (nth_upd _ []) by lia. destruct (j =? k)%nat; [rewrite upd_length|]; apply Hrows; assumption.
  - intros j x Hj Hx. unfold cell. rewrite (nth_upd _ []) by lia.
    destruct (Nat.eqb_spec j k) as [->|Hne]; simpl; [|reflexivity].
    rewrite (nth_upd _ DontCare) by exact Hiy.
    destruct (bvec_eqb x y) eqn:Exy.
    + apply bvec_eqb_eq in Exy. subst. rewrite Nat.eqb_refl. reflexivity.
    + destruct (Nat.eqb_spec (index_of x) (index_of y)) as [E|_]; [|reflexivity].
      apply index_of_inj in E; [|lia]. subst. rewrite bvec_eqb_refl in Exy. discriminate.
Qed.

Lemma tm_define_fold n m : forall d tbl, model_shape n m tbl -> wf_definition n m d ->
  exists tbl', foldM tm_define_step d tbl = Ok tbl' /\ model_shape n m tbl' /\
    forall j x, j < m -> length x = n ->
      cell tbl' j x = match cell tbl j x with
                      | Def b => Def b
                      | DontCare => match lookup_def d x j with Some v => Def v | None => DontCare end
                      end.
Proof.
  induction d as [|[[y k] v] d IH]; intros tbl Hs Hwf.
  - exists tbl. split; [reflexivity|]. split; [exact Hs|]. intros j x _ _. simpl.
    destruct (cell tbl j x); reflexivity.
  - destruct (Hwf y k v (or_introl eq_refl)) as [Hy Hk].
    destruct (tm_define_step_spec n m tbl y k v Hs Hy Hk) as (tbl1 & E1 & S1 & C1).
    destruct (IH tbl1 S1) as (tbl' & E' & S' & C').
    { intros y' k' v' Hin. apply (Hwf y' k' v'). right; exact Hin. }
    exists tbl'. split; [cbn [foldM]; rewrite E1; exact E'|]. split; [exact S'|].
    intros j x Hj Hx. rewrite (C' j x Hj Hx), (C1 j x Hj Hx). simpl lookup_def.
    rewrite andb_comm. destruct (bvec_eqb x y && (j =? k)%nat) eqn:E.
    + apply andb_true_iff in E. destruct E as [E1' E2']. apply bvec_eqb_eq in E1'. apply Nat.eqb_eq in E2'.
      subst. destruct (cell tbl k y); reflexivity.
    + reflexivity.
Qed.

Lemma rows_resolve n m (rows : list bvec) : 1 <= m -> length rows = m ->
  (forall j, j < m -> length (nth j rows []) = 2 ^ n) -> resolve_input_size rows = Ok n.
Proof.
  intros Hm Hl Hr. destruct rows as [|row0 rows]; [simpl in Hl; lia|]. unfold resolve_input_size.
  assert (H0 : length row0 = 2 ^ n) by (apply (Hr 0); lia). rewrite H0.
  assert (H2 : 2 ^ n <> 0) by (apply Nat.pow_nonzero; lia).
  apply Nat.eqb_neq in H2. rewrite H2, Nat.log2_pow2 by lia. rewrite Nat.eqb_refl. reflexivity.
Qed.

Lemma tm_define_correct n m tbl d : 1 <= m -> model_shape n m tbl -> wf_definition n m d ->
  (forall t, tm_define (mkTM n tbl (transpose tbl)) d = Ok t ->
     tt_n t = n /\ length (tt_table t) = m /\
     forall j x, j < m -> length x = n ->
       match cell tbl j x with
       | Def b => nth (index_of x) (nth j (tt_table t) []) false = b
       | DontCare => lookup_def d x j = Some (nth (index_of x) (nth j (tt_table t) []) false)
       end)
  /\ ((forall j x, j < m -> length x = n -> cell tbl j x = DontCare -> lookup_def d x j <> None) ->
      exists t, tm_define (mkTM n tbl (transpose tbl)) d = Ok t).
Proof.
  intros Hm Hs Hwf. unfold tm_define. simpl tm_table.
  destruct (tm_define_fold n m d tbl Hs Hwf) as (tbl' & Ef & [Hl' Hr'] & Hc). rewrite Ef. simpl.
  assert (Hidx : forall j x, j < m -> length x = n -> index_of x < length (nth j tbl' [])).
  { intros j x Hj Hx. rewrite Hr' by exact Hj. rewrite <- Hx. apply index_of_lt. }
  split.
  - intros t H. destruct (mapM (mapM parse_bool) tbl') as [rows|] eqn:Em; simpl in H; [|discriminate].
    destruct (mapM_nth (mapM parse_bool) [] [] tbl' rows Em) as [Hlr Hnr].
    assert (Hrow : forall j, j < m ->
              length (nth j rows []) = 2 ^ n /\
              forall i, i < 2 ^ n -> nth i (nth j tbl' []) DontCare = Def (nth i (nth j rows []) false)).
    { intros j Hj. specialize (Hnr j ltac:(lia)).
      destruct (conv_nth parse_bool BadDefinitionError (fun b => eq_refl) eq_refl _ _ Hnr) as [H1 H2].
      rewrite Hr' in H1, H2 by exact Hj. split; assumption. }
    unfold tt_make in H. rewrite (rows_resolve n m rows Hm) in H by (try lia; intros j Hj; apply Hrow, Hj).
    simpl in H. injection H as <-. simpl. split; [reflexivity|]. split; [lia|].
    intros j x Hj Hx. specialize (Hc j x Hj Hx).
    destruct (Hrow j Hj) as [_ Hcell]. specialize (Hcell (index_of x)).
    rewrite <- Hx in Hcell at 1. specialize (Hcell (index_of_lt x)).
    unfold cell in Hc at 1. rewrite Hcell in Hc.
    destruct (cell tbl j x) as [b|].
    + injection Hc as ->. reflexivity.
    + destruct (lookup_def d x j) as [v|]; [|discriminate]. injection Hc as ->. reflexivity.
  - intros Hcomplete.
    destruct (mapM_total (mapM parse_bool) tbl') as (rows & Em).
    { intros row Hrow. destruct (In_nth _ _ [] Hrow) as (j & Hj & <-).
      apply (conv_total parse_bool (fun b => eq_refl)).
      intros i Hi. rewrite Hr' in Hi by lia.
      destruct (abv_nth n i Hi) as (x & _ & Hx & Hix). subst i.
      assert (Hj' : j < m) by lia. specialize (Hc j x Hj' Hx). unfold cell in Hc at 1. rewrite Hc.
      destruct (cell tbl j x) as [b|] eqn:Ec; [discriminate|].
      specialize (Hcomplete j x Hj' Hx Ec). destruct (lookup_def d x j); [discriminate|congruence]. }
    rewrite Em. simpl.
    destruct (mapM_nth (mapM parse_bool) [] [] tbl' rows Em) as [Hlr Hnr].
    unfold tt_make. rewrite (rows_resolve n m rows Hm); [simpl; eexists; reflexivity|lia|].
    intros j Hj. specialize (Hnr j ltac:(lia)).
    destruct (conv_nth parse_bool BadDefinitionError (fun b => eq_refl) eq_refl _ _ Hnr) as [H1 _]. rewrite H1. apply Hr', Hj.
Qed.

(* ------------------------------------------------------------------ *)
(* canonical_index_to_input and the integer wrappers *)

Lemma index_of_app x y : index_of (x ++ y) = index_of x * 2 ^ length y + index_of y.
Proof.
  unfold index_of at 1. rewrite fold_left_app. fold (index_of x). apply index_of_acc.
Qed.

Lemma index_of_bits_pos p : index_of (bits_of_pos p) = Pos.to_nat p.
Proof.
  induction p as [p IH|p IH|]; simpl bits_of_pos.
  - rewrite index_of_app, IH. simpl. rewrite Pos2Nat.inj_xI. cbv [index_of fold_left]. lia.
  - rewrite index_of_app, IH. simpl. rewrite Pos2Nat.inj_xO. cbv [index_of fold_left]. lia.
  - reflexivity.
Qed.

Lemma index_of_bits v : index_of (bits_of v) = v.
Proof.
  unfold bits_of. destruct (N.of_nat v) as [|p] eqn:E.
  - assert (v = 0) by lia. subst. reflexivity.
  - rewrite index_of_bits_pos. assert (H : N.to_nat (N.of_nat v) = v) by apply Nat2N.id.
    rewrite E in H. simpl in H. exact H.
Qed.

Lemma index_of_zeros k x : index_of (repeat false k ++ x) = index_of x.
Proof. induction k as [|k IH]; simpl; [reflexivity|]. rewrite index_of_cons. simpl. exact IH. Qed.

Lemma canonical_index_to_input_spec index size :
  length (canonical_index_to_input index size) = size /\
  index_of (canonical_index_to_input index size) = index mod 2 ^ size.
Proof.
  unfold canonical_index_to_input.
  set (s := repeat false (size - length (bits_of index)) ++ bits_of index).
  assert (Hls : size <= length s) by (unfold s; rewrite app_length, repeat_length; lia).
  assert (His : index_of s = index) by (unfold s; rewrite index_of_zeros; apply index_of_bits).
  assert (Hlen : length (skipn (length s - size) s) = size) by (rewrite skipn_length; lia).
  split; [exact Hlen|].
  set (k := length s - size) in *.
  assert (E : index = index_of (firstn k s) * 2 ^ size + index_of (skipn k s)).
  { rewrite <- His at 1. rewrite <- (firstn_skipn k s) at 1. rewrite index_of_app, Hlen. reflexivity. }
  assert (H2 : 2 ^ size <> 0) by (apply Nat.pow_nonzero; lia).
  rewrite E at 1. rewrite Nat.add_comm, Nat.mod_add by exact H2.
  symmetry. apply Nat.mod_small. rewrite <- Hlen at 1. apply index_of_lt.
Qed.

Lemma endian_invol be (v : bvec) : endian be (endian be v) = v.
Proof. destruct be; simpl; [reflexivity|apply rev_involutive]. Qed.

Lemma endian_length be (v : bvec) : length (endian be v) = length v.
Proof. destruct be; simpl; [reflexivity|apply rev_length]. Qed.

Lemma int_unary_bit_order func in_len out_len big_endian args : length args = in_len ->
  exists r, int_unary_callable func in_len out_len big_endian args = Ok r /\ length r = out_len /\
            index_of (endian big_endian r) = func (index_of (endian big_endian args)) mod 2 ^ out_len.
Proof.
  intros Hl. unfold int_unary_callable. rewrite Hl, Nat.eqb_refl. simpl.
  eexists; split; [reflexivity|].
  rewrite endian_length, endian_invol. apply canonical_index_to_input_spec.
Qed.

Lemma int_binary_bit_order func in_len out_len big_endian a1 a2 :
  length a1 = in_len -> length a2 = in_len ->
  exists r, int_binary_callable func in_len out_len big_endian (a1 ++ a2) = Ok r /\ length r = out_len /\
            index_of (endian big_endian r)
            = func (index_of (endian big_endian a1)) (index_of (endian big_endian a2)) mod 2 ^ out_len.
Proof.
  intros H1 H2. subst in_len. unfold int_binary_callable.
  assert (Hl : length (a1 ++ a2) = 2 * length a1) by (rewrite app_length; lia).
  rewrite Hl, Nat.eqb_refl. simpl negb. cbv iota.
  rewrite firstn_app, Nat.sub_diag, firstn_all, firstn_O, app_nil_r.
  rewrite skipn_app, Nat.sub_diag, skipn_all, skipn_O. simpl app.
  eexists; split; [reflexivity|].
  rewrite endian_length, endian_invol. apply canonical_index_to_input_spec.
Qed.

(* the constructors: PyFunction(func, n) asks func([False]*n) for the output size *)
Lemma py_make_computes func f n m : arity_ok f n m -> (forall x, length x = n -> func x = Ok (f x)) ->
  exists p, py_make func n None = Ok p /\ py_computes p f n m.
Proof.
  intros Har Hf. unfold py_make. rewrite Hf by apply repeat_length. simpl.
  eexists; split; [reflexivity|]. repeat split; simpl; [apply Har, repeat_length|exact Hf].
Qed.

Lemma from_int_unary_sizes func in_len out_len big_endian :
  exists p, from_int_unary_func func in_len out_len big_endian = Ok p /\ py_n p = in_len /\ py_m p = out_len
            /\ py_func p = int_unary_callable func in_len out_len big_endian.
Proof.
  unfold from_int_unary_func, py_make.
  destruct (int_unary_bit_order func in_len out_len big_endian (repeat false in_len) (repeat_length _ _))
    as (r & Hr & Hl & _).
  rewrite Hr. simpl. eexists; split; [reflexivity|]. repeat split. exact Hl.
Qed.

Lemma from_int_binary_sizes func in_len out_len big_endian :
  exists p, from_int_binary_func func in_len out_len big_endian = Ok p /\ py_n p = 2 * in_len /\ py_m p = out_len
            /\ py_func p = int_binary_callable func in_len out_len big_endian.
Proof.
  unfold from_int_binary_func, py_make.
  destruct (int_binary_bit_order func in_len out_len big_endian (repeat false in_len) (repeat false in_len)
              (repeat_length _ _) (repeat_length _ _)) as (r & Hr & Hl & _).
  replace (repeat false (2 * in_len)) with (repeat false in_len ++ repeat false in_len)
    by (rewrite <- repeat_app; f_equal; lia).
  rewrite Hr. simpl. eexists; split; [reflexivity|]. repeat split. exact Hl.
Qed.
