(* C01 (c), evaluator level: an injective renaming of the labels preserves well-formedness and
   arity acceptance, hence (with SemInvariance.Eval_rename and the completeness theorems)
   evaluate / get_truth_table return the SAME result on the renamed circuit and
   evaluate_full_circuit reports the same value at r l as the original at l. *)
Require Import Cirbo.Model.Base Cirbo.Model.Gate Cirbo.Model.Den Cirbo.Model.Circuit
        Cirbo.Model.Traverse Cirbo.Model.Eval Cirbo.Model.Sem Cirbo.Model.WF.
Require Import Cirbo.Generated.Operators Cirbo.Generated.GateTypes.
Require Import Cirbo.Proofs.DictFacts Cirbo.Proofs.OpFacts Cirbo.Proofs.SemFacts
        Cirbo.Proofs.EvalFacts Cirbo.Proofs.TopSort Cirbo.Proofs.TopSortWF Cirbo.Proofs.EvalComplete
        Cirbo.Proofs.EvalStack Cirbo.Proofs.EvalEntry Cirbo.Proofs.SemInvariance.
Require Import Coq.Logic.FinFun.

Section RenameWF.
  Variable r : label -> label.
  Hypothesis r_inj : forall x y, r x = r y -> x = y.

  Lemma dkeys_rename_keys {V W} (f : V -> W) (d : dict V) : dkeys (rename_keys r f d) = map r (dkeys d).
  Proof. unfold dkeys, rename_keys. rewrite !map_map. reflexivity. Qed.

  Lemma NoDup_map_rename l : NoDup l -> NoDup (map r l).
  Proof. apply Injective_map_NoDup. exact r_inj. Qed.

  Lemma count_rename x l : count (r x) (map r l) = count x l.
  Proof. induction l as [|y l IH]; simpl; [reflexivity|]. rewrite (leqb_rename r r_inj), IH. reflexivity. Qed.

  Lemma count_map_pos y l : count y (map r l) <> 0 -> exists x, y = r x /\ In x l.
  Proof.
    intros H. assert (In y (map r l)) as Hin by (apply count_In; lia).
    apply in_map_iff in Hin. destruct Hin as (x & <- & Hx). eauto.
  Qed.

  Lemma users_of_rename c l : users_of (rename_circuit r c) (r l) = map r (users_of c l).
  Proof. unfold users_of. simpl. rewrite (dget_rename_keys r r_inj). destruct (dget (users c) l); reflexivity. Qed.

  Lemma ops_of_rename c l : ops_of (rename_circuit r c) (r l) = map r (ops_of c l).
  Proof. unfold ops_of. simpl. rewrite (dget_rename_keys r r_inj). destruct (dget (gates c) l); reflexivity. Qed.

  Lemma dget_map_vals {V W} (f : V -> W) (d : dict V) k :
    dget (map (fun kv => (fst kv, f (snd kv))) d) k = option_map f (dget d k).
  Proof. induction d as [|[k' v] d IH]; simpl; [reflexivity|]. destruct (leqb k k'); [reflexivity|exact IH]. Qed.

  Lemma find_rename l ks : In l ks -> find (fun k => leqb (r k) (r l)) ks = Some l.
  Proof.
    induction ks as [|k ks IH]; intros H; [destruct H|]. simpl. rewrite (leqb_rename r r_inj).
    destruct (leqb_spec k l) as [->|Hne]; [reflexivity|]. apply IH. destruct H as [H|H]; [contradiction|exact H].
  Qed.

  Theorem WF_rename c : WF c -> WF (rename_circuit r c).
  Proof.
    intros Hwf.
    assert (Hgate_inv : forall l' g', dget (gates (rename_circuit r c)) l' = Some g' ->
              exists l g, l' = r l /\ dget (gates c) l = Some g /\ g' = rename_gate_rec r g).
    { intros l' g' H. simpl in H. apply (dget_rename_keys_inv r r_inj) in H. exact H. }
    constructor.
    - simpl. rewrite dkeys_rename_keys. apply NoDup_map_rename, (wf_gkeys c Hwf).
    - simpl. rewrite dkeys_rename_keys. apply NoDup_map_rename, (wf_ukeys c Hwf).
    - simpl. unfold dkeys. rewrite map_map. simpl. apply (wf_bkeys c Hwf).
    - intros l' g' o' Hg' Ho'. destruct (Hgate_inv l' g' Hg') as (l & g & -> & Hg & ->). simpl in Ho'.
      apply in_map_iff in Ho'. destruct Ho' as (o & <- & Ho). rewrite (has_gate_rename r r_inj).
      eapply (wf_ops c Hwf); eauto.
    - intros o' Ho'. simpl in Ho'. apply in_map_iff in Ho'. destruct Ho' as (o & <- & Ho).
      rewrite (has_gate_rename r r_inj). apply (wf_outs c Hwf); exact Ho.
    - intros l' u'.
      destruct (dget (users (rename_circuit r c)) l') as [w|] eqn:Eu.
      + simpl in Eu. apply (dget_rename_keys_inv r r_inj) in Eu. destruct Eu as (l & us & -> & Hus & ->).
        rewrite users_of_rename.
        destruct (dget (gates (rename_circuit r c)) u') as [g'|] eqn:Eg.
        * destruct (Hgate_inv u' g' Eg) as (u & g & -> & Hg & ->).
          rewrite ops_of_rename, !count_rename. apply (wf_users c Hwf).
        * unfold ops_of at 1. rewrite Eg. simpl.
          destruct (Nat.eq_dec (count u' (map r (users_of c l))) 0) as [E|E]; [exact E|exfalso].
          apply count_map_pos in E. destruct E as (u & -> & Hu).
          apply (wf_users_ops c Hwf) in Hu. unfold ops_of in Hu.
          destruct (dget (gates c) u) as [g|] eqn:Eg2; [|destruct Hu].
          simpl in Eg. rewrite (dget_rename_keys r r_inj), Eg2 in Eg. discriminate.
      + unfold users_of at 1. rewrite Eu. simpl.
        destruct (dget (gates (rename_circuit r c)) u') as [g'|] eqn:Eg.
        * destruct (Hgate_inv u' g' Eg) as (u & g & -> & Hg & ->). rewrite ops_of_rename.
          destruct (Nat.eq_dec (count l' (map r (ops_of c u))) 0) as [E|E]; [symmetry; exact E|exfalso].
          apply count_map_pos in E. destruct E as (l & -> & Hl).
          apply (wf_users_ops c Hwf) in Hl. unfold users_of in Hl.
          destruct (dget (users c) l) as [us|] eqn:Eu2; [|destruct Hl].
          simpl in Eu. rewrite (dget_rename_keys r r_inj), Eu2 in Eu. discriminate.
        * unfold ops_of. rewrite Eg. reflexivity.
    - simpl. apply NoDup_map_rename, (wf_inputs_nodup c Hwf).
    - intros l'. simpl inputs. split.
      + intros H. apply in_map_iff in H. destruct H as (l & <- & Hl).
        apply (wf_inputs c Hwf) in Hl. destruct Hl as (g & Hg & Ht).
        exists (rename_gate_rec r g). split; [|exact Ht]. simpl. rewrite (dget_rename_keys r r_inj), Hg. reflexivity.
      + intros (g' & Hg' & Ht). destruct (Hgate_inv l' g' Hg') as (l & g & -> & Hg & ->).
        apply in_map. apply (wf_inputs c Hwf). eauto.
    - destruct (wf_acyclic c Hwf) as [rank Hrank].
      exists (fun l' => match find (fun k => leqb (r k) l') (dkeys (gates c)) with
                        | Some k => rank k | None => 0 end).
      intros l' g' o' Hg' Ho'. destruct (Hgate_inv l' g' Hg') as (l & g & -> & Hg & ->). simpl in Ho'.
      apply in_map_iff in Ho'. destruct Ho' as (o & <- & Ho).
      rewrite (find_rename o), (find_rename l).
      + eapply Hrank; eauto.
      + eapply dget_In_keys; eauto.
      + apply has_gate_key. eapply (wf_ops c Hwf); eauto.
    - intros b blk' l' Hb Hl'. simpl in Hb. rewrite dget_map_vals in Hb.
      destruct (dget (blocks c) b) as [blk|] eqn:Eb; [|discriminate]. injection Hb as <-.
      simpl in Hl'. rewrite <- !map_app in Hl'. apply in_map_iff in Hl'. destruct Hl' as (l & <- & Hl).
      rewrite (has_gate_rename r r_inj). eapply (wf_blocks c Hwf); eauto.
  Qed.

  (* ---- evaluator level ---- *)
  Lemma vec_assignment_rename c vals :
    vec_assignment (rename_circuit r c) vals = rename_assignment r (vec_assignment c vals).
  Proof. unfold vec_assignment. simpl. apply combine_rename. Qed.

  Lemma assigns_inputs_only_rename c a :
    assigns_inputs_only c a -> assigns_inputs_only (rename_circuit r c) (rename_assignment r a).
  Proof.
    intros H l' Hl'. unfold dmem in Hl'.
    destruct (dget (rename_assignment r a) l') as [w|] eqn:E; [|discriminate].
    apply (dget_rename_keys_inv r r_inj) in E. destruct E as (l & v & -> & Hl & _).
    simpl. apply in_map. apply H. unfold dmem. rewrite Hl. reflexivity.
  Qed.

  (* whole-circuit evaluation of the renamed circuit reports at r l what the original reports at l *)
  Theorem evaluate_full_circuit_rename c a : WF c -> arity_ok c -> assigns_inputs_only c a ->
    exists d d', evaluate_full_circuit c a = Ok d /\
                 evaluate_full_circuit (rename_circuit r c) (rename_assignment r a) = Ok d' /\
                 (forall l, dget d' (r l) = dget d l) /\
                 (forall l', dmem d' l' = true -> exists l, l' = r l).
  Proof.
    intros Hwf Har Ha.
    destruct (evaluate_full_circuit_exact c a Hwf Har Ha) as (d & Hd & Hex).
    destruct (evaluate_full_circuit_exact _ _ (WF_rename c Hwf) (arity_ok_rename r r_inj c Har)
                (assigns_inputs_only_rename c a Ha)) as (d' & Hd' & Hex').
    exists d, d'. split; [exact Hd|]. split; [exact Hd'|]. split.
    - intros l. destruct (dget d l) as [v|] eqn:E.
      + apply Hex'. apply Hex in E. destruct E as [Hl He]. split.
        * rewrite (has_gate_rename r r_inj). exact Hl.
        * apply (proj1 (Eval_rename r r_inj c a l v)). exact He.
      + destruct (dget d' (r l)) as [v'|] eqn:E'; [|reflexivity]. exfalso.
        apply Hex' in E'. destruct E' as [Hl He]. rewrite (has_gate_rename r r_inj) in Hl.
        apply (proj2 (Eval_rename r r_inj c a l v')) in He. assert (dget d l = Some v') by (apply Hex; auto). congruence.
    - intros l' Hl'. unfold dmem in Hl'. destruct (dget d' l') as [v|] eqn:E; [|discriminate].
      apply Hex' in E. destruct E as [_ He]. eapply Eval_rename_image; eauto.
  Qed.

  (* evaluate returns the same list on the renamed circuit, for every value vector *)
  Theorem evaluate_rename c vals : WF c -> arity_ok c ->
    evaluate (rename_circuit r c) vals = evaluate c vals.
  Proof.
    intros Hwf Har. destruct (le_lt_dec (length (inputs c)) (length vals)) as [Hlen|Hlen].
    - destruct (evaluate_complete c vals Hwf Har Hlen) as (vs & Hvs & HF).
      destruct (evaluate_complete (rename_circuit r c) vals (WF_rename c Hwf)
                  (arity_ok_rename r r_inj c Har)) as (vs' & Hvs' & HF').
      { simpl. rewrite map_length. exact Hlen. }
      rewrite Hvs, Hvs'. f_equal. rewrite vec_assignment_rename in HF'. simpl outputs in HF'.
      apply (proj2 (Forall2_map_l r (Eval _ _) (outputs c) vs')) in HF'.
      symmetry. eapply Forall2_eq_l; [|exact HF'].
      clear -HF r_inj. induction HF as [|o v os vs Hov _ IH]; constructor; [|exact IH].
      intros v' Hv'. apply (proj2 (Eval_rename r r_inj c _ o v')) in Hv'. eapply Eval_functional; eassumption.
    - rewrite (evaluate_short c vals Hlen). apply evaluate_short. simpl. rewrite map_length. exact Hlen.
  Qed.

  Lemma mapM_ext {A B} (f g : A -> res B) l : (forall x, f x = g x) -> mapM f l = mapM g l.
  Proof. intros H. induction l as [|x l IH]; simpl; [reflexivity|]. rewrite H, IH. reflexivity. Qed.

  (* the truth table does not depend on the labels *)
  Theorem get_truth_table_rename c : WF c -> arity_ok c ->
    get_truth_table (rename_circuit r c) = get_truth_table c.
  Proof.
    intros Hwf Har. unfold get_truth_table. simpl inputs. simpl outputs. rewrite !map_length.
    rewrite (mapM_ext _ (fun x => evaluate c (map inj x))); [reflexivity|].
    intros x. apply evaluate_rename; assumption.
  Qed.
End RenameWF.

(* ---- gate insertion order, evaluator level: same gate map (as a finite map), same input and
   output lists => evaluate and the truth table are equal ---- *)
Theorem evaluate_gate_order c c' vals : WF c -> WF c' -> arity_ok c ->
  same_gates c c' -> inputs c = inputs c' -> outputs c = outputs c' ->
  evaluate c' vals = evaluate c vals.
Proof.
  intros Hwf Hwf' Har Hg Hi Ho. destruct (le_lt_dec (length (inputs c)) (length vals)) as [Hlen|Hlen].
  - destruct (evaluate_complete c vals Hwf Har Hlen) as (vs & Hvs & HF).
    destruct (evaluate_complete c' vals Hwf' (arity_ok_ext _ _ Hg Har)) as (vs' & Hvs' & HF').
    { rewrite <- Hi. exact Hlen. }
    rewrite Hvs, Hvs'. f_equal. unfold vec_assignment in *. rewrite <- Hi, <- Ho in HF'.
    symmetry. eapply Forall2_eq_l; [|exact HF'].
    clear -HF Hg. induction HF as [|o v os vs Hov _ IH]; constructor; [|exact IH].
    intros v' Hv'. apply (Eval_ext c c' _ _ o v' Hg (fun k => eq_refl)) in Hv'.
    eapply Eval_functional; eassumption.
  - rewrite (evaluate_short c vals Hlen). apply evaluate_short. rewrite <- Hi. exact Hlen.
Qed.

Theorem get_truth_table_gate_order c c' : WF c -> WF c' -> arity_ok c ->
  same_gates c c' -> inputs c = inputs c' -> outputs c = outputs c' ->
  get_truth_table c' = get_truth_table c.
Proof.
  intros Hwf Hwf' Har Hg Hi Ho. unfold get_truth_table. rewrite <- Hi, <- Ho.
  rewrite (mapM_ext (fun x => evaluate c' (map inj x)) (fun x => evaluate c (map inj x))); [reflexivity|].
  intros x. apply evaluate_gate_order; assumption.
Qed.
