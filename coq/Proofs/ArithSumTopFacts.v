(* C07, part 3: the public bit counters with basis dispatch and endianness (add_sum_n_bits),
   add_sum_pow2_m1, and add_sum_two_numbers_with_shift. *)
Require Import Cirbo.Model.Base Cirbo.Model.Gate Cirbo.Model.Den Cirbo.Model.Circuit
  Cirbo.Model.Eval Cirbo.Model.Sem Cirbo.Model.Builder.
Require Import Cirbo.Generated.ArithTables Cirbo.Generated.ArithCells.
Require Import Cirbo.Model.ArithSub Cirbo.Model.ArithSum2 Cirbo.Model.ArithSumN.
Require Import Cirbo.Proofs.DictFacts Cirbo.Proofs.BuilderFacts Cirbo.Proofs.ArithFacts
  Cirbo.Proofs.ArithSubFacts Cirbo.Proofs.ArithSum2Facts Cirbo.Proofs.ArithSumCells Cirbo.Proofs.ArithSumNFacts
  Cirbo.Proofs.ArithSumXaigCount.
Open Scope Z_scope.

(* ---- basis resolution --------------------------------------------------------------------------- *)
(* the two spellings in every letter case, and nothing else *)
Lemma upper_length s : String.length (upper s) = String.length s.
Proof. induction s as [|ch s IH]; simpl; congruence. Qed.

Example resolve_examples :
  resolve_basis (BStr "aig") = Ok AIG /\ resolve_basis (BStr "AIG") = Ok AIG /\
  resolve_basis (BStr "Aig") = Ok AIG /\ resolve_basis (BStr "xaig") = Ok XAIG /\
  resolve_basis (BStr "XAig") = Ok XAIG /\ resolve_basis (BEnum AIG) = Ok AIG /\
  resolve_basis (BStr "foo") = Err PyValueError /\ resolve_basis (BStr "") = Err PyValueError.
Proof. repeat split. Qed.

Lemma resolve_basis_str s b :
  resolve_basis (BStr s) = Ok b -> upper s = (match b with XAIG => "XAIG" | AIG => "AIG" end)%string.
Proof.
  unfold resolve_basis. destruct (String.eqb_spec (upper s) "XAIG") as [E|_]; [intros [= <-]; exact E|].
  destruct (String.eqb_spec (upper s) "AIG") as [E|_]; [intros [= <-]; exact E|discriminate].
Qed.

Lemma run_resolve fresh basis s b s1 :
  run fresh (ret_res (resolve_basis basis)) s = Ok (b, s1) -> resolve_basis basis = Ok b /\ s1 = s.
Proof. apply ret_res_inv. Qed.

(* ---- add_sum_n_bits ------------------------------------------------------------------------------ *)
(* the documented bounds: AIG gates <= 7 n - 3 m, XAIG gates <= 4.5 n - 2 m *)
Definition nbits_bound (b : gen_basis) (g m n : nat) : Prop :=
  match b with
  | AIG => (g + 3 * m <= 7 * n)%nat
  | XAIG => (2 * g + 4 * m <= 9 * n)%nat
  end.

Lemma add_sum_n_bits_resolved_spec fresh b xs s rs s' :
  run fresh (add_sum_n_bits_resolved b xs) s = Ok (rs, s') ->
  outputs (bc s') = outputs (bc s) /\
  (exists g, adds (t_of b) (bc s) (bc s') g /\ nbits_bound b g (length rs) (length xs)) /\
  forall c, ext (bc s') c -> forall asg xv, bvals c asg xs xv ->
    exists rv, bvals c asg rs rv /\ bits_val rv = ones xv.
Proof.
  destruct b; simpl; intros H.
  - pose proof (add_sum_n_bits_xaig_count _ _ _ _ _ H) as (g & A & Bd).
    apply add_sum_n_bits_xaig_spec in H as (O & _ & V). split; [exact O|]. split; [|exact V].
    exists g. split; [exact A|exact Bd].
  - apply add_sum_n_bits_aig_spec in H as (O & (g & A & Bd) & V). split; [exact O|]. split; [|exact V].
    exists g. split; [exact A|exact Bd].
Qed.

Theorem add_sum_n_bits_correct fresh basis be xs s rs s' :
  run fresh (add_sum_n_bits basis be xs) s = Ok (rs, s') ->
  exists b, resolve_basis basis = Ok b /\
    ext (bc s) (bc s') /\ inputs (bc s') = inputs (bc s) /\ outputs (bc s') = outputs (bc s) /\
    (exists g, adds (t_of b) (bc s) (bc s') g /\ nbits_bound b g (length rs) (length xs)) /\
    forall c, ext (bc s') c -> forall asg xv, bvals c asg xs xv ->
      exists rv, bvals c asg rs rv /\ decode be rv = ones xv.
Proof.
  intros H. pose proof (run_ext _ _ _ _ _ H) as Hx. unfold add_sum_n_bits in H.
  apply run_bind_inv in H as (b & s0 & Hb & H). apply run_resolve in Hb as (Hb & ->).
  apply run_bind_inv in H as (r & s1 & H & Hr). apply run_ret_inv in Hr as (-> & ->).
  apply add_sum_n_bits_resolved_spec in H as (O & (g & A & Bd) & V).
  exists b. split; [exact Hb|]. split; [exact Hx|]. split; [apply ext_inputs, Hx|]. split; [exact O|]. split.
  - exists g. split; [exact A|]. rewrite !rev_if_length in *. exact Bd.
  - intros c Hc asg xv Hxv. destruct (V c Hc asg (rev_if be xv)) as (rv & Vrv & Erv); [apply bvals_rev_if, Hxv|].
    exists (rev_if be rv). split; [apply bvals_rev_if, Vrv|]. rewrite decode_rev_if, Erv. apply ones_rev_if.
Qed.

(* ---- add_sum_two_numbers_with_shift -------------------------------------------------------------- *)
Lemma bits_val_firstn_skipn n v : bits_val v = bits_val (firstn n v) + 2 ^ Z.of_nat (length (firstn n v)) * bits_val (skipn n v).
Proof. rewrite <- bits_val_app, firstn_skipn. reflexivity. Qed.

Theorem add_sum_two_numbers_with_shift_correct fresh sh xs ys be s rs s' :
  run fresh (add_sum_two_numbers_with_shift sh xs ys be) s = Ok (rs, s') ->
  ext (bc s) (bc s') /\ inputs (bc s') = inputs (bc s) /\ outputs (bc s') = outputs (bc s) /\
  forall c, ext (bc s') c -> forall asg xv yv, bvals c asg xs xv -> bvals c asg ys yv ->
    exists rv, bvals c asg rs rv /\ decode be rv = decode be xv + decode be yv * 2 ^ Z.of_nat sh.
Proof.
  intros H. pose proof (run_ext _ _ _ _ _ H) as Hx. unfold add_sum_two_numbers_with_shift in H.
  split; [exact Hx|]. split; [apply ext_inputs, Hx|]. rewrite rev_if_length in H.
  destruct (length xs <=? sh)%nat eqn:E.
  - apply Nat.leb_le in E.
    apply run_bind_inv in H as (zs & s1 & Hz & H). apply run_ret_inv in H as (-> & ->).
    destruct (sh =? length xs)%nat eqn:E2.
    + apply Nat.eqb_eq in E2. apply run_ret_inv in Hz as (-> & ->). split; [reflexivity|].
      intros c Hc asg xv yv Hxv Hyv.
      exists (rev_if be (rev_if be xv ++ rev_if be yv)). split.
      * apply bvals_rev_if. simpl. apply bvals_app; apply bvals_rev_if; assumption.
      * rewrite decode_rev_if, bits_val_app, rev_if_length. unfold decode.
        rewrite <- (bvals_length _ _ _ _ Hxv), <- E2. lia.
    + apply Nat.eqb_neq in E2.
      apply run_bind_inv in Hz as (a0 & s0 & Ha0 & Hz). apply nthP_inv in Ha0 as (Ea0 & ->).
      apply gate_tt_bind2 in Hz as (z & s2 & Hz & Hx2 & Htz & Oz & Gz). apply run_ret_inv in Hz as (-> & ->).
      split; [exact Oz|].
      intros c Hc asg xv yv Hxv Hyv.
      apply (has_tt_ext _ _ _ _ _ _ Hc) in Htz.
      destruct (Forall2_nth_error _ _ _ _ _ (bvals_rev_if c asg be _ _ Hxv) Ea0) as (v0 & _ & V0).
      pose proof (has_tt_val _ _ _ _ _ _ _ _ Htz V0 V0) as Vz.
      replace (tt_fun tt_false v0 v0) with false in Vz by (destruct v0; reflexivity).
      exists (rev_if be (rev_if be xv ++ repeat false (sh - length xs) ++ rev_if be yv)). split.
      * apply bvals_rev_if. apply bvals_app; [apply bvals_rev_if, Hxv|].
        apply bvals_app; [apply bvals_repeat, Vz|apply bvals_rev_if, Hyv].
      * rewrite decode_rev_if, !bits_val_app, bits_val_repeat_false, rev_if_length, repeat_length. unfold decode.
        rewrite <- (bvals_length _ _ _ _ Hxv).
        replace (Z.of_nat sh) with (Z.of_nat (length xs) + Z.of_nat (sh - length xs)) by lia.
        rewrite Z.pow_add_r by lia. lia.
  - apply Nat.leb_gt in E.
    apply run_bind_inv in H as (sm & s1 & Hs & H). apply run_ret_inv in H as (-> & ->).
    apply add_sum_two_numbers_correct in Hs as (_ & _ & O & _ & V). split; [exact O|].
    intros c Hc asg xv yv Hxv Hyv.
    destruct (V c Hc asg (skipn sh (rev_if be xv)) (rev_if be yv)) as (sv & Vsv & Esv);
      [apply bvals_skipn, bvals_rev_if, Hxv|apply bvals_rev_if, Hyv|].
    exists (rev_if be (firstn sh (rev_if be xv) ++ sv)). split.
    + apply bvals_rev_if, bvals_app; [apply bvals_firstn, bvals_rev_if, Hxv|exact Vsv].
    + rewrite decode_rev_if, bits_val_app. unfold decode in *. simpl rev_if in Esv. rewrite Esv.
      rewrite (bits_val_firstn_skipn sh (rev_if be xv)).
      assert (length (firstn sh (rev_if be xv)) = sh) as ->.
      { rewrite firstn_length, rev_if_length, <- (bvals_length _ _ _ _ Hxv). lia. }
      lia.
Qed.
