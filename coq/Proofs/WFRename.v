(* C02: rename_gate preserves well-formedness.  Part 1: the list / dict level facts and the
   inversion of rename_gate into its components. *)
Require Import Cirbo.Model.Base Cirbo.Model.Gate Cirbo.Model.Circuit Cirbo.Model.WF.
Require Import Cirbo.Proofs.DictFacts Cirbo.Proofs.WFBase Cirbo.Proofs.WFSimple Cirbo.Proofs.WFEmplace.

Definition lst (d : dict (list label)) (x : label) : list label :=
  match dget d x with Some l => l | None => [] end.

Lemma users_of_lst c x : users_of c x = lst (users c) x.
Proof. reflexivity. Qed.

Definition rn (old new : label) (g : gate) : gate := mkGate (gtyp g) (subst_label old new (gops g)).

(* the two loops of rename_gate *)
Definition Fg (old new : label) (gs : dict gate) (u : label) : res (dict gate) :=
  match dget gs u with
  | Some ug => Ok (dset gs u (mkGate (gtyp ug) (subst_label old new (gops ug))))
  | None => Err PyKeyError
  end.
Definition Fu (old new : label) (usd : dict (list label)) (op : label) : res (dict (list label)) :=
  match dget usd op with
  | None => Err PyKeyError
  | Some ou => if memb old ou then Ok (dset usd op (subst_first old new ou)) else Err PyAssertionError
  end.

Section Lists.
  Variables old new : label.
  Hypothesis Hon : old <> new.

  Lemma count_subst_label x L :
    count x (subst_label old new L) =
    if leqb x old then 0 else if leqb x new then count old L + count new L else count x L.
  Proof.
    unfold subst_label; induction L as [|a L IH]; simpl.
    - destruct (leqb x old), (leqb x new); reflexivity.
    - rewrite IH; clear IH.
      destruct (leqb_spec a old) as [->|Ha].
      + rewrite leqb_refl.
        destruct (leqb_spec x old) as [->|Hx].
        * apply leqb_neq in Hon; rewrite Hon; reflexivity.
        * destruct (leqb_spec x new) as [->|Hx'].
          -- apply not_eq_sym, leqb_neq in Hon; rewrite Hon; lia.
          -- reflexivity.
      + destruct (leqb_spec x old) as [->|Hx].
        * apply not_eq_sym, leqb_neq in Ha; rewrite Ha; reflexivity.
        * destruct (leqb_spec x new) as [->|Hx'].
          -- apply not_eq_sym, leqb_neq in Ha; rewrite Ha. simpl. destruct (leqb new a); lia.
          -- reflexivity.
  Qed.

  Lemma subst_label_id L : ~ In old L -> subst_label old new L = L.
  Proof.
    unfold subst_label; induction L as [|a L IH]; simpl; intros H; [reflexivity|].
    destruct (leqb_spec a old) as [->|]; [exfalso; auto|]. f_equal; auto.
  Qed.

  Lemma subst_label_idem L : subst_label old new (subst_label old new L) = subst_label old new L.
  Proof.
    apply subst_label_id. intros H; apply count_pos_In in H. rewrite count_subst_label, leqb_refl in H; lia.
  Qed.

  Lemma In_subst_label x L :
    In x (subst_label old new L) -> (x = new /\ In old L) \/ (x <> old /\ In x L).
  Proof.
    unfold subst_label; intros H; apply in_map_iff in H; destruct H as [y [E Hy]].
    destruct (leqb y old) eqn:Ey; leq; subst; [left|right]; auto.
  Qed.

  Lemma count_subst_first x L : In old L ->
    count x (subst_first old new L) + (if leqb x old then 1 else 0) =
    count x L + (if leqb x new then 1 else 0).
  Proof.
    induction L as [|a L IH]; simpl; [tauto|]. intros Hin.
    destruct (leqb_spec a old) as [->|Ha]; simpl.
    - lia.
    - destruct Hin as [E|Hin]; [congruence|]. specialize (IH Hin); lia.
  Qed.

  Lemma rn_idem g : rn old new (rn old new g) = rn old new g.
  Proof. unfold rn; simpl; rewrite subst_label_idem; reflexivity. Qed.

  Lemma rn_id g : ~ In old (gops g) -> rn old new g = g.
  Proof. intros H; unfold rn; rewrite subst_label_id by assumption; destruct g; reflexivity. Qed.

  Lemma Fg_fold us : forall gs gs', foldM (Fg old new) us gs = Ok gs' ->
    dkeys gs' = dkeys gs /\
    forall x, dget gs' x = if memb x us then option_map (rn old new) (dget gs x) else dget gs x.
  Proof.
    induction us as [|u us IH]; simpl; intros gs gs' H; [injection H as <-; auto|].
    binv H gs1 H1. unfold Fg in H1. destruct (dget gs u) as [ug|] eqn:Eu; [|discriminate].
    injection H1 as <-. apply IH in H; destruct H as [Hk Hg]. split.
    - rewrite Hk; apply dkeys_dset_mem. eapply dget_dmem; eassumption.
    - intros x; rewrite Hg, dget_dset. destruct (leqb_spec x u) as [->|Hne].
      + rewrite Eu; simpl. fold (rn old new ug). rewrite rn_idem. destruct (memb u us); reflexivity.
      + reflexivity.
  Qed.

  Lemma Fu_fold ops : forall usd usd', foldM (Fu old new) ops usd = Ok usd' ->
    dkeys usd' = dkeys usd /\
    forall x u, count u (lst usd' x) + (if leqb u old then count x ops else 0) =
                count u (lst usd x) + (if leqb u new then count x ops else 0).
  Proof.
    induction ops as [|o ops IH]; simpl; intros usd usd' H.
    - injection H as <-; split; [reflexivity|]. intros x u; destruct (leqb u old), (leqb u new); lia.
    - binv H usd1 H1. unfold Fu in H1. destruct (dget usd o) as [ou|] eqn:Eo; [|discriminate].
      destruct (memb old ou) eqn:Em; [|discriminate]. injection H1 as <-. apply memb_In in Em.
      apply IH in H; destruct H as [Hk Hc]. split.
      + rewrite Hk; apply dkeys_dset_mem. eapply dget_dmem; eassumption.
      + intros x u. specialize (Hc x u). unfold lst in Hc at 2. rewrite dget_dset in Hc.
        destruct (leqb_spec x o) as [->|Hne].
        * pose proof (count_subst_first u ou Em) as Hf. unfold lst at 2; rewrite Eo.
          destruct (leqb u old), (leqb u new); lia.
        * fold (lst usd x) in Hc. destruct (leqb u old), (leqb u new); lia.
  Qed.
End Lists.

(* ---------------- inversion of rename_gate ---------------- *)
Lemma rename_gate_inv c old new c' :
  rename_gate c old new = Ok c' ->
  has_gate c old = true /\ has_gate c new = false /\
  exists gs3 ud3 og us',
    match dget (users c) old with
    | Some us => foldM (Fg old new) us (gates c) = Ok gs3 /\ ud3 = ddel (dset (users c) new us) old
    | None => gs3 = gates c /\ ud3 = users c
    end /\
    dget gs3 old = Some og /\
    foldM (Fu old new) (gops og) ud3 = Ok us' /\
    c' = mkCircuit (if memb old (inputs c) then subst_first old new (inputs c) else inputs c)
                   (if memb old (outputs c) then subst_label old new (outputs c) else outputs c)
                   (ddel (dset gs3 new (mkGate (gtyp og) (gops og))) old)
                   us'
                   (map (fun kb => (fst kb, rename_in_block old new (snd kb))) (blocks c)).
Proof.
  unfold rename_gate; intros H.
  destruct (has_gate c old) eqn:Ho; simpl in H; [|discriminate].
  destruct (has_gate c new) eqn:Hn; [discriminate|].
  split; [reflexivity|]. split; [reflexivity|].
  set (c1 := if memb old (inputs c) then set_inputs_raw c (subst_first old new (inputs c)) else c) in H.
  set (c2 := if memb old (outputs c1) then set_outputs_raw c1 (subst_label old new (outputs c1)) else c1) in H.
  assert (E1 : gates c1 = gates c /\ users c1 = users c /\ blocks c1 = blocks c /\ outputs c1 = outputs c /\
               inputs c1 = if memb old (inputs c) then subst_first old new (inputs c) else inputs c).
  { unfold c1; destruct (memb old (inputs c)); simpl; auto 6. }
  destruct E1 as (G1 & U1 & B1 & O1 & I1).
  assert (E2 : gates c2 = gates c /\ users c2 = users c /\ blocks c2 = blocks c /\ inputs c2 = inputs c1 /\
               outputs c2 = if memb old (outputs c) then subst_label old new (outputs c) else outputs c).
  { unfold c2; rewrite O1; destruct (memb old (outputs c)); simpl; rewrite ?O1; auto 6. }
  destruct E2 as (G2 & U2 & B2 & I2 & O2).
  clearbody c2. clearbody c1.
  binv H c3 H3. binv H og Hog. binv H us' Hus. binv H og' Hog'. injection H as <-.
  rewrite U2 in H3.
  destruct (dget (users c) old) as [us|] eqn:Eus.
  - binv H3 gs Hgs. injection H3 as <-. simpl in *. rewrite G2 in Hgs.
    destruct (dget gs old) as [g|] eqn:Eg; [|discriminate]. injection Hog as <-. injection Hog' as <-.
    exists gs, (ddel (dset (users c) new us) old), g, us'.
    split; [split; [assumption|reflexivity]|]. split; [assumption|]. split; [assumption|].
    unfold set_blocks, set_gates, set_users; simpl. rewrite I2, I1, O2, B2. reflexivity.
  - injection H3 as <-. simpl in *. rewrite G2 in *. rewrite U2 in *.
    destruct (dget (gates c) old) as [g|] eqn:Eg; [|discriminate]. injection Hog as <-. injection Hog' as <-.
    exists (gates c), (users c), g, us'.
    split; [split; reflexivity|]. split; [assumption|]. split; [assumption|].
    unfold set_blocks, set_gates, set_users; simpl. rewrite I2, I1, O2, B2. reflexivity.
Qed.
