(* Tools for Proofs/ArithGen08*.v (translator T19): the partial-product loops
       for i in range(m): for j in range(n): <put the gate of (a[j], b[i]) somewhere>
   of multiplication.py / square.py against [pp_matrix], generically in the state the loops carry and in what
   "put" does (store into c[i][j], append to c[i + j], also log the weight ...), the adaptors of
   Model/PyPrims08.v on natural numbers, and small list facts. *)
Require Import Cirbo.Model.Base Cirbo.Model.Gate Cirbo.Model.Circuit Cirbo.Model.Builder Cirbo.Model.PyPrims.
Require Import Cirbo.Model.ArithSub Cirbo.Model.ArithSum2 Cirbo.Model.ArithSumN Cirbo.Model.ArithSumW.
Require Import Cirbo.Model.PyPrims08 Cirbo.Model.ArithMul.
Require Import Cirbo.Proofs.ArithGen09Lib.
From Coq Require Import ZArith Lia Ascii.
Open Scope Z_scope.

(* ---- results of mapP ------------------------------------------------------------------------------------ *)
Lemma mapP_returns_length {A B} (f : A -> prog B) : forall l, returns (mapP f l) (fun r => length r = length l).
Proof.
  induction l as [|x l IH]; intros fresh s r s'; cbn [mapP]; rs.
  - intros H; inversion H; reflexivity.
  - destruct (run fresh (f x) s) as [[y s1]|e]; rs; [|discriminate].
    destruct (run fresh (mapP f l) s1) as [[ys s2]|e] eqn:E; rs; [|discriminate].
    intros H; inversion H; subst. cbn [length]. f_equal. eapply IH; eauto.
Qed.

Lemma mapP_returns_Forall {A B} (f : A -> prog B) (Q : B -> Prop) : forall l,
  (forall x, In x l -> returns (f x) Q) -> returns (mapP f l) (Forall Q).
Proof.
  induction l as [|x l IH]; intros Hf fresh s r s'; cbn [mapP]; rs.
  - intros H; inversion H; constructor.
  - destruct (run fresh (f x) s) as [[y s1]|e] eqn:E1; rs; [|discriminate].
    destruct (run fresh (mapP f l) s1) as [[ys s2]|e] eqn:E2; rs; [|discriminate].
    intros H; inversion H; subst. constructor.
    + eapply Hf; [left; reflexivity|exact E1].
    + eapply IH; [|exact E2]. intros z Hz. apply Hf. right; exact Hz.
Qed.

Lemma mapP_ext_in {A B} (f g : A -> prog B) : forall l,
  (forall x, In x l -> peq (f x) (g x)) -> peq (mapP f l) (mapP g l).
Proof.
  induction l as [|x l IH]; intros H fresh s; cbn [mapP]; rs; [reflexivity|].
  rewrite (H x (or_introl eq_refl)).
  destruct (run fresh (g x) s) as [[y s1]|e]; rs; [|reflexivity].
  rewrite IH; [reflexivity|]. intros z Hz. apply H. right; exact Hz.
Qed.

Lemma mapP_map {A B C} (g : A -> B) (f : B -> prog C) : forall l, mapP f (map g l) = mapP (fun x => f (g x)) l.
Proof. induction l as [|x l IH]; cbn [map mapP]; [reflexivity|]. rewrite IH. reflexivity. Qed.

Lemma mapP_app {A B} (f : A -> prog B) : forall l1 l2,
  peq (mapP f (l1 ++ l2)) (bdo r1 <- mapP f l1; bdo r2 <- mapP f l2; Ret (r1 ++ r2)).
Proof.
  induction l1 as [|x l1 IH]; intros l2 fresh s; cbn [app mapP]; rs.
  - destruct (run fresh (mapP f l2) s) as [[r s1]|e]; reflexivity.
  - destruct (run fresh (f x) s) as [[y s1]|e]; rs; [|reflexivity]. rewrite IH. rs.
    destruct (run fresh (mapP f l1) s1) as [[r1 s2]|e]; rs; [|reflexivity].
    destruct (run fresh (mapP f l2) s2) as [[r2 s3]|e]; rs; reflexivity.
Qed.

(* a mapP whose function only reads: mapP (fun i => Ret (h i)) *)
Lemma mapP_ret {A B} (h : A -> B) : forall l, peq (mapP (fun x => Ret (h x)) l) (Ret (map h l)).
Proof.
  induction l as [|x l IH]; intros fresh s; cbn [mapP map]; rs; [reflexivity|]. rewrite IH. reflexivity.
Qed.

(* ---- the row loop: for j in range(j0, j0 + k): s = put(s, j, f(a[j])) ---------------------------------- *)
Fixpoint put_row {St} (put : St -> nat -> label -> St) (s : St) (j : nat) (row : list label) : St :=
  match row with
  | [] => s
  | g :: r => put_row put (put s j g) (S j) r
  end.

Lemma put_row_app {St} (put : St -> nat -> label -> St) : forall r1 s j r2,
  put_row put s j (r1 ++ r2) = put_row put (put_row put s j r1) (j + length r1) r2.
Proof.
  induction r1 as [|g r1 IH]; intros s j r2; cbn [app put_row length].
  - rewrite Nat.add_0_r. reflexivity.
  - rewrite IH. f_equal. lia.
Qed.

Lemma put_row_inv {St} (put : St -> nat -> label -> St) (I : St -> Prop) hi :
  (forall s j g, I s -> (j < hi)%nat -> I (put s j g)) ->
  forall row s j, I s -> (j + length row <= hi)%nat -> I (put_row put s j row).
Proof.
  intros Hput. induction row as [|g r IH]; intros s j Hs Hj; cbn [put_row length] in *; [exact Hs|].
  apply IH; [apply Hput; [exact Hs|lia]|lia].
Qed.

Lemma row_fold_gen_from {St} (G : St -> Z -> prog St) (f : label -> prog label) (put : St -> nat -> label -> St)
      (I : St -> Prop) (a : list label) (lo hi : nat) :
  (hi <= length a)%nat ->
  (forall s j g, I s -> (lo <= j < hi)%nat -> I (put s j g)) ->
  (forall s j, (lo <= j < hi)%nat -> I s ->
     peq (G s (Z.of_nat j)) (bdo g <- f (nth j a ""%string); Ret (put s j g))) ->
  forall k j s, (lo <= j)%nat -> (j + k = hi)%nat -> I s ->
  peq (foldP G (map Z.of_nat (seq j k)) s)
      (bdo row <- mapP f (firstn k (skipn j a)); Ret (put_row put s j row)).
Proof.
  intros Hhi Hput HG. induction k as [|k IH]; intros j s Hlo Hj Hs fresh st.
  - cbn [seq map foldP firstn mapP]. rs. reflexivity.
  - rewrite (skipn_nth a j ""%string) by lia. cbn [seq map foldP firstn mapP]. rs.
    rewrite HG by first [lia | exact Hs]. rs.
    destruct (run fresh (f (nth j a ""%string)) st) as [[g s1]|e]; rs; [|reflexivity].
    rewrite IH by first [lia | apply Hput; [exact Hs|lia]]. rs.
    destruct (run fresh (mapP f (firstn k (skipn (S j) a))) s1) as [[row s2]|e]; rs; reflexivity.
Qed.

Lemma row_fold_gen {St} (G : St -> Z -> prog St) (f : label -> prog label) (put : St -> nat -> label -> St)
      (I : St -> Prop) (a : list label) (hi : nat) :
  (hi <= length a)%nat ->
  (forall s j g, I s -> (j < hi)%nat -> I (put s j g)) ->
  (forall s j, (j < hi)%nat -> I s ->
     peq (G s (Z.of_nat j)) (bdo g <- f (nth j a ""%string); Ret (put s j g))) ->
  forall k j s, (j + k = hi)%nat -> I s ->
  peq (foldP G (map Z.of_nat (seq j k)) s)
      (bdo row <- mapP f (firstn k (skipn j a)); Ret (put_row put s j row)).
Proof.
  intros Hhi Hput HG k j s Hj Hs.
  apply (row_fold_gen_from G f put I a 0 hi Hhi); try assumption; try lia.
  - intros s' j' g Hs' Hj'. apply Hput; [exact Hs'|lia].
  - intros s' j' Hj' Hs'. apply HG; [lia|exact Hs'].
Qed.

(* ---- the matrix loop: for i in range(i0, i0 + k): s = <row loop i>(s) ------------------------------------ *)
Fixpoint put_rows {St} (putr : St -> nat -> list label -> St) (s : St) (i : nat) (rows : list (list label)) : St :=
  match rows with
  | [] => s
  | row :: r => put_rows putr (putr s i row) (S i) r
  end.

Lemma rows_fold_gen {St} (F : St -> Z -> prog St) (rowp : label -> prog (list label)) (putr : St -> nat -> list label -> St)
      (I : St -> Prop) (Q : list label -> Prop) (b : list label) :
  (forall x, returns (rowp x) Q) ->
  (forall s i row, I s -> (i < length b)%nat -> Q row -> I (putr s i row)) ->
  (forall s i, (i < length b)%nat -> I s ->
     peq (F s (Z.of_nat i)) (bdo row <- rowp (nth i b ""%string); Ret (putr s i row))) ->
  forall k i s, (i + k = length b)%nat -> I s ->
  peq (foldP F (map Z.of_nat (seq i k)) s)
      (bdo rows <- mapP rowp (skipn i b); Ret (put_rows putr s i rows)).
Proof.
  intros HQ Hput HF. induction k as [|k IH]; intros i s Hi Hs fresh st.
  - rewrite skipn_all2 by lia. cbn [seq map foldP mapP]. rs. reflexivity.
  - rewrite (skipn_nth b i ""%string) by lia. cbn [seq map foldP mapP]. rs.
    rewrite HF by first [lia | exact Hs]. rs.
    destruct (run fresh (rowp (nth i b ""%string)) st) as [[row s1]|e] eqn:E; rs; [|reflexivity].
    rewrite IH by first [lia | apply Hput; [exact Hs|lia|eapply HQ; exact E]]. rs.
    destruct (run fresh (mapP rowp (skipn (S i) b)) s1) as [[rows s2]|e]; rs; reflexivity.
Qed.

(* ---- matrices ----------------------------------------------------------------------------------------------- *)
Definition is_matrix {A} (m n : nat) (c : list (list A)) : Prop :=
  length c = m /\ Forall (fun r => length r = n) c.

Lemma is_matrix_row {A} m n (c : list (list A)) i : is_matrix m n c -> (i < m)%nat -> length (nth i c []) = n.
Proof.
  intros [Hl Hf] Hi. rewrite Forall_forall in Hf. apply Hf. apply nth_In. lia.
Qed.

Lemma Forall_upd {A} (P : A -> Prop) : forall l i x, Forall P l -> P x -> Forall P (upd l i x).
Proof.
  induction l as [|y l IH]; intros [|i] x Hl Hx; cbn [upd]; inversion Hl; subst; constructor; auto.
Qed.

Lemma is_matrix_upd {A} m n (c : list (list A)) i row :
  is_matrix m n c -> length row = n -> is_matrix m n (upd c i row).
Proof. intros [Hl Hf] Hr. split; [rewrite upd_length; exact Hl|apply Forall_upd; assumption]. Qed.

Lemma placeholder_matrix {A} (x : A) m n :
  is_matrix m n (map (fun _ : Z => py_mul [x] (Z.of_nat n)) (py_range 0 (Z.of_nat m))).
Proof.
  split.
  - rewrite map_length. unfold py_range. rewrite map_length, seq_length. lia.
  - apply Forall_forall. intros r Hr. apply in_map_iff in Hr as (z & <- & _).
    rewrite py_mul_single. apply repeat_length.
Qed.

(* storing gate after gate into row i of a matrix overwrites a segment of that row *)
Lemma firstn_S_upd {A} (l : list A) i x : (i < length l)%nat -> firstn (S i) (upd l i x) = firstn i l ++ [x].
Proof.
  revert i; induction l as [|y l IH]; intros [|i] H; cbn in *; try lia; [reflexivity|]. rewrite IH by lia. reflexivity.
Qed.

Lemma upd_upd_same {A} (l : list A) : forall i x y, upd (upd l i x) i y = upd l i y.
Proof. induction l as [|z l IH]; intros [|i] x y; cbn [upd]; try reflexivity. rewrite IH. reflexivity. Qed.

Lemma put_row_list (l : list label) : forall row j l0, l0 = l -> (j + length row <= length l)%nat ->
  put_row (fun l j g => upd l j g) l0 j row = firstn j l ++ row ++ skipn (j + length row) l.
Proof.
  intros row. revert l. induction row as [|g row IH]; intros l j l0 -> Hj; cbn [put_row length app] in *.
  - rewrite Nat.add_0_r, firstn_skipn. reflexivity.
  - rewrite (IH (upd l j g)) by (rewrite ?upd_length; try reflexivity; lia).
    rewrite firstn_S_upd by lia. rewrite skipn_upd_lt by lia. rewrite <- app_assoc. cbn [app].
    replace (S j + length row)%nat with (j + S (length row))%nat by lia. reflexivity.
Qed.

Lemma put_row_matrix (i : nat) : forall row (c : list (list label)) j, (i < length c)%nat ->
  put_row (fun c j g => upd c i (upd (nth i c []) j g)) c j row
  = upd c i (put_row (fun l j g => upd l j g) (nth i c []) j row).
Proof.
  induction row as [|g row IH]; intros c j Hi; cbn [put_row].
  - rewrite upd_firstn_skipn by lia. rewrite <- (skipn_nth c i []) by lia. rewrite firstn_skipn. reflexivity.
  - rewrite IH by (rewrite upd_length; lia). rewrite nth_upd_same by lia. apply upd_upd_same.
Qed.

(* a whole row *)
Lemma put_row_full (c : list (list label)) i row : (i < length c)%nat -> length row = length (nth i c []) ->
  put_row (fun c j g => upd c i (upd (nth i c []) j g)) c 0 row = upd c i row.
Proof.
  intros Hi Hr. rewrite put_row_matrix by exact Hi.
  rewrite (put_row_list (nth i c [])) by (try reflexivity; lia).
  cbn [firstn app Nat.add]. rewrite skipn_all2 by lia. rewrite app_nil_r. reflexivity.
Qed.

(* all the rows *)
Lemma put_rows_upd : forall (rows c : list (list label)) i, (i + length rows = length c)%nat ->
  put_rows (fun c i row => upd c i row) c i rows = firstn i c ++ rows.
Proof.
  induction rows as [|row rows IH]; intros c i Hi; cbn [put_rows length] in *.
  - rewrite app_nil_r. symmetry. apply firstn_all2. lia.
  - rewrite IH by (rewrite upd_length; lia). rewrite firstn_S_upd by lia. rewrite <- app_assoc. reflexivity.
Qed.

(* symbolic execution of two programs that differ only in how they nest their binds: destruct the runs of the
   atomic programs and the tests, in order *)
Ltac crunch :=
  repeat (rs; match goal with
          | |- context [match run ?f ?p ?s with _ => _ end] =>
              lazymatch p with
              | Bind _ _ => fail
              | Ret _ => fail
              | Fail _ => fail
              | (if _ then _ else _) => fail
              | _ => destruct (run f p s) as [[? ?]|?]
              end
          | |- context [if ?c then _ else _] => destruct c
          end); rs; try reflexivity.

(* ---- the matrix loop when the row program depends on the index (triangular loops) ------------------------------ *)
Lemma rows_fold_idx {St} (F : St -> Z -> prog St) (rowp : nat -> prog (list label)) (putr : St -> nat -> list label -> St)
      (I : nat -> St -> Prop) (Q : nat -> list label -> Prop) (hi : nat) :
  (forall i, returns (rowp i) (Q i)) ->
  (forall s i row, I i s -> (i < hi)%nat -> Q i row -> I (S i) (putr s i row)) ->
  (forall s i, (i < hi)%nat -> I i s ->
     peq (F s (Z.of_nat i)) (bdo row <- rowp i; Ret (putr s i row))) ->
  forall k i s, (i + k = hi)%nat -> I i s ->
  peq (foldP F (map Z.of_nat (seq i k)) s)
      (bdo rows <- mapP rowp (seq i k); Ret (put_rows putr s i rows)).
Proof.
  intros HQ Hput HF. induction k as [|k IH]; intros i s Hi Hs fresh st.
  - cbn [seq map foldP mapP]. rs. reflexivity.
  - cbn [seq map foldP mapP]. rs.
    rewrite HF by first [lia | exact Hs]. rs.
    destruct (run fresh (rowp i) st) as [[row s1]|e] eqn:E; rs; [|reflexivity].
    rewrite IH by first [lia | apply Hput; [exact Hs|lia|eapply HQ; exact E]]. rs.
    destruct (run fresh (mapP rowp (seq (S i) k)) s1) as [[rows s2]|e]; rs; reflexivity.
Qed.
