(* The regenerated satisfiability query (Generated/SatQueryGen.v, translator T27: cirbo/sat/sat.py and the two
   methods of cirbo/sat/cnf/cnf.py it goes through) is the query of the hand model, for every solver and circuit;
   and the formula the solver receives is the clause list of the transformation itself. *)
Require Import Cirbo.Model.Base Cirbo.Model.Gate Cirbo.Model.Circuit Cirbo.Model.Cnf Cirbo.Model.TseytinAlg.
Require Import Cirbo.Generated.SatQueryGen.
Local Open Scope Z_scope.

Lemma query_regenerated : forall (solve : list (list Z) -> option (list Z)) (c : circuit),
  gen_is_circuit_satisfiable solve c = is_circuit_satisfiable solve c.
Proof. intros solve c. reflexivity. Qed.

(* nothing is added to, dropped from or reordered in the formula between the transformation and the solver, and the
   solver's answer comes back unchanged: the query returns r exactly when the transformation returns some f and the
   solver answers r on that very f *)
Lemma query_hands_whole_formula : forall (solve : list (list Z) -> option (list Z)) (c : circuit) r,
  gen_is_circuit_satisfiable solve c = Ok r <->
  exists f, tseytin_cnf c None = Ok f /\ gen_is_satisfiable solve f = r /\ solve f = r.
Proof.
  intros solve c r. unfold gen_is_circuit_satisfiable, gen_from_circuit, gen_is_satisfiable, gen_get_raw.
  destruct (tseytin_cnf c None) as [f | e] eqn:Hf; cbn.
  - split.
    + intros H. injection H as H. exists f. repeat match goal with |- _ /\ _ => split end; auto.
    + intros [f' [Hf' [H _]]]. injection Hf' as Hf'. subst f'. now rewrite H.
  - split; [discriminate | intros [f' [Hf' _]]; discriminate].
Qed.
