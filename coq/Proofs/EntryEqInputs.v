(* C19, replace_inputs at the entry points: evaluate / get_truth_table of the result are the
   cofactor of evaluate / get_truth_table of the original circuit (positional vectors). *)
Require Import Cirbo.Model.Base Cirbo.Model.Gate Cirbo.Model.Den Cirbo.Model.Circuit Cirbo.Model.Connect
        Cirbo.Model.Eval Cirbo.Model.Sem Cirbo.Model.WF.
Require Import Cirbo.Generated.Operators Cirbo.Generated.GateTypes.
Require Import Cirbo.Proofs.DictFacts Cirbo.Proofs.SemFacts Cirbo.Proofs.EvalFacts Cirbo.Proofs.EvalComplete
        Cirbo.Proofs.EvalEntry Cirbo.Proofs.TruthTable.
Require Import Cirbo.Proofs.WFBase Cirbo.Proofs.WFEmplace Cirbo.Proofs.WFStep Cirbo.Proofs.SemExt Cirbo.Proofs.SemReplaceInputs Cirbo.Proofs.C19Final
        Cirbo.Proofs.EntryEq.

(* the positional vector for the original input list: the chosen inputs get their constants,
   the remaining ones consume the given values in order (a short vector is cut at the first
   missing value) *)
Fixpoint cofactor_list {A} (t f : A) (ins ts fs : list label) (vals : list A) : list A :=
  match ins with
  | [] => []
  | i :: r => if memb i fs then f :: cofactor_list t f r ts fs vals
              else if memb i ts then t :: cofactor_list t f r ts fs vals
              else match vals with v :: vs => v :: cofactor_list t f r ts fs vs | [] => [] end
  end.

Definition keepb (ts fs : list label) (i : label) : bool := negb (memb i (ts ++ fs)).

Lemma keepb_split ts fs i : keepb ts fs i = negb (memb i fs) && negb (memb i ts).
Proof. unfold keepb. rewrite memb_app. destruct (memb i ts), (memb i fs); reflexivity. Qed.

Lemma cofactor_list_map {A B} (h : A -> B) t f ins ts fs : forall vals,
  map h (cofactor_list t f ins ts fs vals) = cofactor_list (h t) (h f) ins ts fs (map h vals).
Proof.
  induction ins as [|i r IH]; intros vals; simpl; [reflexivity|].
  destruct (memb i fs); [simpl; rewrite IH; reflexivity|].
  destruct (memb i ts); [simpl; rewrite IH; reflexivity|].
  destruct vals as [|v vs]; simpl; [reflexivity|rewrite IH; reflexivity].
Qed.

Lemma cofactor_list_length {A} (t f : A) ins ts fs : forall vals,
  length (filter (keepb ts fs) ins) <= length vals -> length (cofactor_list t f ins ts fs vals) = length ins.
Proof.
  induction ins as [|i r IH]; intros vals H; simpl in *; [reflexivity|]. rewrite keepb_split in H.
  destruct (memb i fs); simpl in H; [simpl; rewrite IH by exact H; reflexivity|].
  destruct (memb i ts); simpl in H; [simpl; rewrite IH by exact H; reflexivity|].
  destruct vals as [|v vs]; simpl in *; [lia|]. rewrite IH by lia. reflexivity.
Qed.

Lemma cofactor_list_short {A} (t f : A) ins ts fs : forall vals,
  length vals < length (filter (keepb ts fs) ins) -> length (cofactor_list t f ins ts fs vals) < length ins.
Proof.
  induction ins as [|i r IH]; intros vals H; simpl in *; [lia|]. rewrite keepb_split in H.
  destruct (memb i fs); simpl in H; [simpl; specialize (IH _ H); lia|].
  destruct (memb i ts); simpl in H; [simpl; specialize (IH _ H); lia|].
  destruct vals as [|v vs]; simpl in *; [lia|]. assert (length vs < length (filter (keepb ts fs) r)) as H' by lia.
  specialize (IH _ H'). lia.
Qed.

Lemma aval_combine_cons x ins v vs l :
  aval (combine (x :: ins) (v :: vs)) l = if leqb l x then v else aval (combine ins vs) l.
Proof. unfold aval; simpl. destruct (leqb l x); reflexivity. Qed.

Local Arguments combine : simpl never.

Lemma cofactor_list_aval ins ts fs : forall vals, NoDup ins ->
  length (filter (keepb ts fs) ins) <= length vals ->
  forall l, In l ins ->
    aval (combine ins (cofactor_list T F ins ts fs vals)) l =
    if memb l fs then F else if memb l ts then T else aval (combine (filter (keepb ts fs) ins) vals) l.
Proof.
  induction ins as [|i r IH]; intros vals Hnd Hlen l Hl; [destruct Hl|].
  inversion Hnd as [|? ? Hni Hnd']; subst. simpl in Hlen. rewrite keepb_split in Hlen.
  assert (Hrec : forall vals0, length (filter (keepb ts fs) r) <= length vals0 -> l <> i ->
            aval (combine r (cofactor_list T F r ts fs vals0)) l =
            if memb l fs then F else if memb l ts then T else aval (combine (filter (keepb ts fs) r) vals0) l).
  { intros vals0 H0 Hne. apply IH; [exact Hnd'|exact H0|]. destruct Hl as [E|Hl]; [congruence|exact Hl]. }
  simpl cofactor_list. simpl filter. rewrite keepb_split.
  destruct (memb i fs) eqn:Ef; simpl in Hlen |- *.
  { rewrite aval_combine_cons. destruct (leqb_spec l i) as [->|Hne]; [rewrite Ef; reflexivity|].
    apply Hrec; assumption. }
  destruct (memb i ts) eqn:Et; simpl in Hlen |- *.
  { rewrite aval_combine_cons. destruct (leqb_spec l i) as [->|Hne]; [rewrite Ef, Et; reflexivity|].
    apply Hrec; assumption. }
  destruct vals as [|v vs]; simpl in Hlen; [lia|].
  rewrite !aval_combine_cons. destruct (leqb_spec l i) as [->|Hne]; [rewrite Ef, Et; reflexivity|].
  apply Hrec; [lia|assumption].
Qed.

Lemma replace_inputs_arity_ok c ts fs c' :
  WF c -> arity_ok c -> replace_inputs c ts fs = Ok c' -> arity_ok c'.
Proof.
  intros W A H x g Hg Hty.
  destruct (replace_inputs_spec c ts fs c' (wf_inputs_nodup c W) H) as (Hget & _).
  rewrite Hget in Hg. destruct (memb x fs); [injection Hg as <-; reflexivity|].
  destruct (memb x ts); [injection Hg as <-; reflexivity|]. eapply A; eassumption.
Qed.

(* evaluate on the result = evaluate on the original circuit with the constants filled in, for
   every (three-valued) vector of any length *)
Theorem replace_inputs_evaluate c ts fs c' vals' :
  Inv c -> arity_ok c -> replace_inputs c ts fs = Ok c' ->
  evaluate c' vals' = evaluate c (cofactor_list T F (inputs c) ts fs vals').
Proof.
  intros I A H. pose proof I as [W N]. pose proof (replace_inputs_inv' c ts fs c' I H) as [W' N'].
  destruct (replace_inputs_spec c ts fs c' (wf_inputs_nodup c W) H) as (Hget & Hin & Hout & _ & _ & Hall & Hnd).
  fold (keepb ts fs) in Hin.
  destruct (le_lt_dec (length (inputs c')) (length vals')) as [Hlen|Hlen].
  - pose proof Hlen as Hlen2. rewrite Hin in Hlen2.
    apply evaluate_eq_of_sem_gen; try assumption.
    + exact (replace_inputs_arity_ok c ts fs c' W A H).
    + rewrite cofactor_list_length by exact Hlen2. apply le_n.
    + intros vs HF. rewrite <- Hout.
      eapply Forall2_impl_In; [exact HF|]. intros o v _ Hv.
      apply (replace_inputs_sem c ts fs c' (vec_assignment c (cofactor_list T F (inputs c) ts fs vals'))
               (vec_assignment c' vals') W H); [| | |exact Hv].
      * intros l Hl. destruct (Hall l (in_or_app _ _ _ (or_introl Hl))) as (g & Hg & Ht).
        unfold vec_assignment. rewrite cofactor_list_aval;
          [|apply (wf_inputs_nodup c W)|exact Hlen2|apply (wf_inputs c W); eauto].
        rewrite (proj2 (memb_In l ts) Hl). destruct (memb l fs) eqn:Ef; [|reflexivity].
        apply memb_In in Ef. apply NoDup_count with (x := l) in Hnd. rewrite count_app in Hnd.
        apply count_pos_In in Hl, Ef. lia.
      * intros l Hl. destruct (Hall l (in_or_app _ _ _ (or_intror Hl))) as (g & Hg & Ht).
        unfold vec_assignment. rewrite cofactor_list_aval;
          [|apply (wf_inputs_nodup c W)|exact Hlen2|apply (wf_inputs c W); eauto].
        rewrite (proj2 (memb_In l fs) Hl). reflexivity.
      * intros l Hl. apply (replace_inputs_remaining c ts fs c' W H) in Hl. destruct Hl as [Hl Hn].
        unfold vec_assignment. rewrite cofactor_list_aval; [|apply (wf_inputs_nodup c W)|exact Hlen2|exact Hl].
        rewrite Hin.
        destruct (memb l fs) eqn:Ef; [exfalso; apply Hn, in_or_app; right; apply memb_In; exact Ef|].
        destruct (memb l ts) eqn:Et; [exfalso; apply Hn, in_or_app; left; apply memb_In; exact Et|].
        reflexivity.
  - rewrite (evaluate_short c' vals' Hlen). symmetry. apply evaluate_short.
    apply cofactor_list_short. rewrite <- Hin. exact Hlen.
Qed.

(* the truth table of the result is the cofactor of the original truth table: row j, column x
   of the new table is row j, column (x with the constants filled in) of the old one; both
   calls return *)
Theorem replace_inputs_truth_table c ts fs c' :
  Inv c -> arity_ok c -> replace_inputs c ts fs = Ok c' ->
  exists tt tt', get_truth_table c = Ok tt /\ get_truth_table c' = Ok tt' /\
    length tt = length (outputs c) /\ length tt' = length (outputs c) /\
    forall j x, j < length (outputs c) -> length x = length (inputs c') ->
      exists row row' v, nth_error tt j = Some row /\ nth_error tt' j = Some row' /\
        nth_error row' (val_be x) = Some v /\
        nth_error row (val_be (cofactor_list true false (inputs c) ts fs x)) = Some v.
Proof.
  intros I A H. pose proof I as [W N]. pose proof (replace_inputs_inv' c ts fs c' I H) as [W' N'].
  pose proof (replace_inputs_arity_ok c ts fs c' W A H) as A'.
  destruct (replace_inputs_spec c ts fs c' (wf_inputs_nodup c W) H) as (_ & Hin & Hout & _).
  fold (keepb ts fs) in Hin.
  destruct (get_truth_table_complete c W A) as (tt & Htt & _).
  destruct (get_truth_table_complete c' W' A') as (tt' & Htt' & _).
  destruct (get_truth_table_entry c tt W A Htt) as [Hl Hent].
  destruct (get_truth_table_entry c' tt' W' A' Htt') as [Hl' Hent'].
  exists tt, tt'. repeat (split; [congruence|]). intros j x Hj Hx.
  assert (Hcl : length (cofactor_list true false (inputs c) ts fs x) = length (inputs c)).
  { apply cofactor_list_length. rewrite <- Hin, Hx. apply le_n. }
  destruct (Hent j _ Hj Hcl) as (row & r & v & Hrow & Hr & Hv & Hrv).
  destruct (Hent' j x) as (row' & r' & v' & Hrow' & Hr' & Hv' & Hrv'); [rewrite Hout; exact Hj|exact Hx|].
  rewrite (replace_inputs_evaluate c ts fs c' (map inj x) I A H) in Hr'.
  change T with (inj true) in Hr'. change F with (inj false) in Hr'.
  rewrite <- cofactor_list_map in Hr'.
  assert (r' = r) by congruence; subst r'. assert (v' = v) by congruence; subst v'.
  exists row, row', v. repeat split; assumption.
Qed.

(* non-vacuity on C19Final.C19_ex (inputs x y z, outputs NOT(OR(x AND y, x AND y, z)) and x AND y):
   x := True, z := False leaves the input y; columns 4 and 6 of the old table *)
Lemma C19_ex_entry :
  arity_ok C19_ex /\
  cofactor_list T F (inputs C19_ex) ["x"] ["z"] [F] = [T; F; F] /\
  exists c', replace_inputs C19_ex ["x"] ["z"] = Ok c' /\
    evaluate c' [F] = Ok [T; F] /\ evaluate C19_ex [T; F; F] = Ok [T; F] /\
    get_truth_table c' = Ok [[T; F]; [F; T]] /\
    get_truth_table C19_ex = Ok [[T; F; T; F; T; F; F; F]; [F; F; F; F; F; F; T; T]].
Proof.
  split; [apply arity_okb_sound; vm_compute; reflexivity|].
  split; [vm_compute; reflexivity|].
  eexists; split; [vm_compute; reflexivity|]. repeat split; vm_compute; reflexivity.
Qed.
