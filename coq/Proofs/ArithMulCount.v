(* C08, part 10: the number of result bits of add_mul (default mode), for all widths.
   One level of the XAIG scheduler turns k = #singles + 2 #pairs pending bits into one result bit and
   floor(k / 2) carry bits (#next singles + 2 #next pairs).  Hence the POTENTIAL of the work lists,
       pot = sum over the singles of 2^level + sum over the pairs of 2 * 2^level
   ("the value if every pending bit were 1"), satisfies  pot - 2^lo <= pot' <= pot  across the level lo.
   The loop runs while something is pending, and every pending item weighs at least 2^(current level):
   with pot_0 = (2^n - 1)(2^m - 1) this pins the number of levels to n + m (n + m - 1 when n or m = 1). *)
Require Import Cirbo.Model.Base Cirbo.Model.Gate Cirbo.Model.Den Cirbo.Model.Circuit
  Cirbo.Model.Eval Cirbo.Model.Sem Cirbo.Model.Builder.
Require Import Cirbo.Generated.ArithTables Cirbo.Generated.ArithCells.
Require Import Cirbo.Model.ArithSub Cirbo.Model.ArithSum2 Cirbo.Model.ArithSumN Cirbo.Model.ArithSumW
  Cirbo.Model.ArithMul.
Require Import Cirbo.Proofs.DictFacts Cirbo.Proofs.BuilderFacts Cirbo.Proofs.ArithFacts
  Cirbo.Proofs.ArithSumCells Cirbo.Proofs.ArithSumNFacts Cirbo.Proofs.ArithSumTopFacts
  Cirbo.Proofs.ArithSumWFacts Cirbo.Proofs.ArithSumPow2Facts Cirbo.Proofs.ArithMulFacts
  Cirbo.Proofs.ArithMulDiag Cirbo.Proofs.ArithMulDadda Cirbo.Proofs.ArithMulPow2 Cirbo.Proofs.ArithMulKara.
Open Scope Z_scope.

(* ---- how many carries one level produces ------------------------------------------------------------------------------ *)
Lemma pair_up_len fresh solo : forall xxy s r s',
  run fresh (pair_up solo xxy) s = Ok (r, s') ->
  (length (fst r) <= 1)%nat /\ (length (fst r) + 2 * length (snd r) = length solo + 2 * length xxy)%nat.
Proof.
  induction solo as [|a|a b rest IH] using list_ind2; intros xxy s r s' H.
  - apply run_ret_inv in H as (-> & ->). simpl. lia.
  - apply run_ret_inv in H as (-> & ->). simpl. lia.
  - cbn [pair_up] in H. apply run_bind_inv in H as (xy & s1 & _ & H). apply IH in H as (H1 & H2).
    split; [exact H1|]. simpl in *. lia.
Qed.

Lemma mdfa_loop_len fresh xxy : forall solo nx s r s',
  run fresh (mdfa_loop xxy solo nx) s = Ok (r, s') -> (length solo <= 1)%nat ->
  (length (fst (fst r)) <= 1)%nat /\ (length (snd (fst r)) <= 1)%nat /\
  (length (fst (fst r)) + 2 * length (snd r) = length xxy + 2 * length nx)%nat /\
  ((1 <= length xxy)%nat -> (length (fst (fst r)) = 0)%nat -> length (snd (fst r)) = 1%nat) /\
  ((length xxy <= 1)%nat -> snd (fst r) = solo).
Proof.
  induction xxy as [|p|[x1 xy1] [x2 xy2] rest IH] using list_ind2; intros solo nx s r s' H Hs.
  - apply run_ret_inv in H as (-> & ->). simpl. repeat split; auto; lia.
  - destruct p. apply run_ret_inv in H as (-> & ->). simpl. repeat split; auto; lia.
  - cbn [mdfa_loop] in H. destruct solo as [|z solo'].
    + apply run_bind_inv in H as (r0 & s1 & _ & H). apply run_bind_inv in H as ([[z' a] b] & s2 & _ & H).
      apply IH in H as (H1 & H2 & H3 & H4 & H5); [|simpl; lia].
      split; [exact H1|]. split; [exact H2|]. split; [simpl in *; lia|]. split.
      * intros _ E0. destruct rest as [|q rest'].
        -- rewrite H5 by (simpl; lia). reflexivity.
        -- apply H4; [simpl; lia|exact E0].
      * simpl. lia.
    + apply run_bind_inv in H as (r0 & s1 & _ & H). apply run_bind_inv in H as ([[z' a] b] & s2 & _ & H).
      apply IH in H as (H1 & H2 & H3 & H4 & H5); [|simpl in *; lia].
      split; [exact H1|]. split; [exact H2|]. split; [simpl in *; lia|]. split.
      * intros _ E0. destruct rest as [|q rest'].
        -- rewrite H5 by (simpl; lia). simpl in *. lia.
        -- apply H4; [simpl; lia|exact E0].
      * simpl. lia.
Qed.

Lemma last_pair_len fresh xxy solo s r s' :
  run fresh (last_pair xxy solo) s = Ok (r, s') -> (length xxy <= 1)%nat -> (length solo <= 1)%nat ->
  length (snd r) = length xxy /\ (length (fst r) <= 1)%nat /\
  (length xxy = 0%nat -> fst r = solo) /\ (length xxy = 1%nat -> length (fst r) = 1%nat).
Proof.
  intros H Hx Hs. unfold last_pair in H. destruct xxy as [|[x xy] [|q rest]]; simpl in Hx; try lia.
  - apply run_ret_inv in H as (-> & ->). simpl. repeat split; auto; lia.
  - destruct solo as [|z solo'].
    + apply run_bind_inv in H as (g & s1 & _ & H). apply run_ret_inv in H as (-> & ->). simpl. repeat split; auto; lia.
    + apply run_bind_inv in H as (r0 & s1 & _ & H). apply run_bind_inv in H as (wy & s2 & _ & H).
      apply run_ret_inv in H as (-> & ->). simpl in *. repeat split; auto; lia.
Qed.

(* #next singles + 2 #next pairs = floor((#singles + 2 #pairs) / 2) *)
Lemma level_carries fresh now_s now_p s st s1 r ns nx s2 :
  run fresh (pair_up now_s now_p) s = Ok (st, s1) ->
  run fresh (xaig_level (fst st) (snd st)) s1 = Ok ((r, ns, nx), s2) ->
  (2 * (length ns + 2 * length nx) <= length now_s + 2 * length now_p
   /\ length now_s + 2 * length now_p <= 2 * (length ns + 2 * length nx) + 1)%nat.
Proof.
  intros Hp Hl. apply pair_up_len in Hp as (P1 & P2). destruct st as [solo xxy]. cbn [fst snd] in *.
  unfold xaig_level in Hl. apply run_bind_inv in Hl as ([[xxy1 solo1] nxx] & s3 & Hm & Hl).
  apply mdfa_loop_len in Hm as (M1 & M2 & M3 & M4 & M5); [|exact P1]. cbn [fst snd] in *.
  apply run_bind_inv in Hl as ([solo2 nsolo] & s4 & Hlp & Hl).
  apply last_pair_len in Hlp as (L1 & L2 & L3 & L4); [|exact M1|exact M2]. cbn [fst snd] in *.
  destruct solo2 as [|top rest]; [discriminate|].
  destruct rest as [|? ?]; [|simpl in L2; lia].
  cbn [solo_loop] in Hl. apply run_bind_inv in Hl as (r0 & s5 & Hr0 & Hl). apply run_ret_inv in Hr0 as (-> & ->).
  apply run_ret_inv in Hl as (E & ->). cbn [fst snd] in E. injection E as -> -> ->.
  simpl length in *. lia.
Qed.

(* ---- the potential of the work lists ------------------------------------------------------------------------------------ *)
Definition spot (single : list witem) : Z := fold_right (fun x acc => 2 ^ Z.of_N (fst x) + acc) 0 single.
Definition ppot (pairs : list wpair) : Z := fold_right (fun p acc => 2 * 2 ^ Z.of_N (plev p) + acc) 0 pairs.

Lemma pow2N_pos l : 0 < 2 ^ Z.of_N l.
Proof. apply Z.pow_pos_nonneg; lia. Qed.

Lemma spot_nonneg l : 0 <= spot l.
Proof. induction l as [|x l IH]; simpl; [lia|]. pose proof (pow2N_pos (fst x)). lia. Qed.
Lemma ppot_nonneg l : 0 <= ppot l.
Proof. induction l as [|x l IH]; simpl; [lia|]. pose proof (pow2N_pos (plev x)). lia. Qed.

Lemma spot_sl_add x l : spot (sl_add witem_ltb x l) = 2 ^ Z.of_N (fst x) + spot l.
Proof. induction l as [|y l IH]; simpl; [lia|]. destruct (witem_ltb x y); simpl; [lia|]. rewrite IH. lia. Qed.
Lemma ppot_sl_add x l : ppot (sl_add wpair_ltb x l) = 2 * 2 ^ Z.of_N (plev x) + ppot l.
Proof. induction l as [|y l IH]; simpl; [lia|]. destruct (wpair_ltb x y); simpl; [lia|]. rewrite IH. lia. Qed.

Lemma spot_add_singles lev next : forall single,
  spot (add_singles lev next single) = Z.of_nat (length next) * 2 ^ Z.of_N lev + spot single.
Proof.
  unfold add_singles. induction next as [|x next IH]; intros single; [simpl; lia|].
  cbn [fold_left length]. rewrite IH, spot_sl_add. cbn [fst]. lia.
Qed.
Lemma ppot_add_pairs lev next : forall pairs,
  ppot (add_pairs lev next pairs) = Z.of_nat (length next) * (2 * 2 ^ Z.of_N lev) + ppot pairs.
Proof.
  unfold add_pairs. induction next as [|x next IH]; intros pairs; [simpl; lia|].
  cbn [fold_left length]. rewrite IH, ppot_sl_add. unfold plev. cbn [fst]. lia.
Qed.

Lemma spot_take_level lev l : forall now rest, take_level lev l = (now, rest) ->
  spot l = Z.of_nat (length now) * 2 ^ Z.of_N lev + spot rest.
Proof.
  induction l as [|[lv x] l IH]; simpl; intros now rest E.
  - injection E as <- <-. simpl. lia.
  - destruct (N.eqb_spec lv lev) as [->|Hne].
    + destruct (take_level lev l) as [a b]. injection E as <- <-. rewrite (IH a b eq_refl). cbn [length]. lia.
    + injection E as <- <-. simpl. lia.
Qed.
Lemma ppot_take_level lev l : forall now rest, take_level_pairs lev l = (now, rest) ->
  ppot l = Z.of_nat (length now) * (2 * 2 ^ Z.of_N lev) + ppot rest.
Proof.
  induction l as [|[[lv x] y] l IH]; simpl; intros now rest E.
  - injection E as <- <-. simpl. lia.
  - destruct (N.eqb_spec lv lev) as [->|Hne].
    + destruct (take_level_pairs lev l) as [a b]. injection E as <- <-. rewrite (IH a b eq_refl).
      unfold plev. cbn [length fst]. lia.
    + injection E as <- <-. simpl. lia.
Qed.

Lemma spot_sl_of_list l : spot (sl_of_list witem_ltb l) = spot l.
Proof.
  unfold sl_of_list.
  assert (forall acc, spot (fold_left (fun acc x => sl_add witem_ltb x acc) l acc) = spot l + spot acc) as H.
  { induction l as [|x l IH]; simpl; intros acc; [lia|]. rewrite IH, spot_sl_add. lia. }
  rewrite H. simpl. lia.
Qed.

Lemma spot_lb lo l : (forall x, In x l -> (lo <= fst x)%N) -> l <> [] -> 2 ^ Z.of_N lo <= spot l.
Proof.
  intros H Hne. destruct l as [|x l]; [congruence|]. simpl. pose proof (spot_nonneg l).
  assert (2 ^ Z.of_N lo <= 2 ^ Z.of_N (fst x)); [|lia].
  apply Z.pow_le_mono_r; [lia|]. specialize (H x (or_introl eq_refl)). lia.
Qed.
Lemma ppot_lb lo l : (forall x, In x l -> (lo <= plev x)%N) -> l <> [] -> 2 ^ Z.of_N lo <= ppot l.
Proof.
  intros H Hne. destruct l as [|x l]; [congruence|]. simpl. pose proof (ppot_nonneg l).
  assert (2 ^ Z.of_N lo <= 2 ^ Z.of_N (plev x)); [|pose proof (pow2N_pos (plev x)); lia].
  apply Z.pow_le_mono_r; [lia|]. specialize (H x (or_introl eq_refl)). lia.
Qed.

(* ---- the number of levels ----------------------------------------------------------------------------------------------- *)
Lemma eff_loop_count fresh inf : forall fuel single pairs s res s' lo hi,
  run fresh (eff_loop fuel inf XAIG single pairs) s = Ok (res, s') ->
  ssorted single -> psorted pairs -> lev_in lo hi single pairs -> covered lo hi single -> (lo <= hi)%N ->
  (* not too few levels *)
  spot single + ppot pairs <= 2 ^ (Z.of_N lo + Z.of_nat (length res)) - 2 ^ Z.of_N lo /\
  (* not too many *)
  forall B, Z.of_N lo <= B -> spot single + ppot pairs < 2 ^ B -> Z.of_N lo + Z.of_nat (length res) <= B.
Proof.
  induction fuel as [|f IH]; intros single pairs s res s' lo hi H Hs Hp (Hin1 & Hin2) Hcov Hle.
  { destruct single, pairs; try discriminate. apply run_ret_inv in H as (-> & _).
    cbn [length spot ppot fold_right]. change (Z.of_nat 0) with 0. rewrite !Z.add_0_r. split; [lia|]. intros; lia. }
  set (lev := N.min (head_level inf fst single) (head_level inf (fun p : wpair => fst (fst p)) pairs)).
  assert (Hstep : (single <> [] \/ pairs <> []) -> run fresh
      (if (inf <=? lev)%N then Fail PyAssertionError
       else let '(now_singles, single1) := take_level lev single in
            let '(now_pairs, pairs1) := take_level_pairs lev pairs in
            bdo st <- pair_up (rev now_singles) (rev now_pairs);
            bdo lv <- xaig_level (fst st) (snd st);
            let '(r, next_solo, next_xxy) := lv in
            bdo rs <- eff_loop f inf XAIG (add_singles (lev + 1) (rev next_solo) single1)
                                       (add_pairs (lev + 1) (rev next_xxy) pairs1);
            Ret ((lev, r) :: rs)) s = Ok (res, s') ->
    spot single + ppot pairs <= 2 ^ (Z.of_N lo + Z.of_nat (length res)) - 2 ^ Z.of_N lo /\
    forall B, Z.of_N lo <= B -> spot single + ppot pairs < 2 ^ B -> Z.of_N lo + Z.of_nat (length res) <= B).
  { clear H. intros Hne H. destruct (inf <=? lev)%N eqn:Einf; [discriminate|]. apply N.leb_gt in Einf.
    assert (slb lo single) as Hlb by (apply Forall_forall; intros x Hx; apply Hin1 in Hx; lia).
    assert (plb lo pairs) as Hplb by (apply Forall_forall; intros x Hx; apply Hin2 in Hx; lia).
    assert (lev = lo) as Elev.
    { assert (lo <= lev)%N as Hlo.
      { unfold lev in *. destruct single as [|a ?], pairs as [|p ?]; cbn [head_level] in *.
        - destruct Hne as [Hne|Hne]; congruence.
        - pose proof (Hin2 p (or_introl eq_refl)) as Hb. unfold plev in Hb. lia.
        - pose proof (Hin1 a (or_introl eq_refl)). lia.
        - pose proof (Hin1 a (or_introl eq_refl)). pose proof (Hin2 p (or_introl eq_refl)) as Hb. unfold plev in Hb. lia. }
      destruct (N.eq_dec lo hi) as [Ehi|Hnehi].
      - subst hi. unfold lev in *. destruct single as [|a ?], pairs as [|p ?]; cbn [head_level] in *.
        + destruct Hne as [Hne|Hne]; congruence.
        + pose proof (Hin2 p (or_introl eq_refl)) as Hb. unfold plev in Hb. lia.
        + pose proof (Hin1 a (or_introl eq_refl)). lia.
        + pose proof (Hin1 a (or_introl eq_refl)). lia.
      - destruct (Hcov lo) as (x & Hx); [lia|].
        destruct single as [|a single']; [destruct Hx|].
        pose proof (sorted_head_le _ _ _ Hs Hx) as Hh. simpl in Hh.
        unfold lev in *. cbn [head_level] in *. lia. }
    rewrite Elev in *. clear Elev.
    (* something is pending, at level lo or above *)
    assert (2 ^ Z.of_N lo <= spot single + ppot pairs) as Hpend.
    { pose proof (spot_nonneg single). pose proof (ppot_nonneg pairs). destruct Hne as [Hne|Hne].
      - pose proof (spot_lb lo single (fun x Hx => proj1 (Hin1 x Hx)) Hne). lia.
      - pose proof (ppot_lb lo pairs (fun x Hx => proj1 (Hin2 x Hx)) Hne). lia. }
    destruct (take_level lo single) as [now single1] eqn:Et.
    destruct (take_level_pairs lo pairs) as [nowp pairs1] eqn:Etp.
    destruct (take_level_spec lo _ _ _ Et Hs Hlb) as (_ & Srest & Brest & _).
    destruct (take_level_pairs_spec lo _ _ _ Etp Hp Hplb) as (Sprest & Bprest & _).
    destruct (take_level_In lo _ _ _ Et) as (T1 & T2).
    pose proof (take_level_pairs_In lo _ _ _ Etp) as T3.
    pose proof (spot_take_level _ _ _ _ Et) as PS. pose proof (ppot_take_level _ _ _ _ Etp) as PP.
    apply run_bind_inv in H as (st & s1 & Hpu & H).
    apply run_bind_inv in H as ([[r ns] nx] & s2 & Hlv & H).
    apply run_bind_inv in H as (rs & s3 & Hrec & H). apply run_ret_inv in H as (-> & ->).
    pose proof (level_carries _ _ _ _ _ _ _ _ _ _ Hpu Hlv) as (C1 & C2). rewrite !rev_length in C1, C2.
    destruct (add_singles_spec (lo + 1) (rev ns) single1 Srest) as (S3 & _).
    destruct (add_pairs_spec (lo + 1) (rev nx) pairs1 Sprest) as (S4 & _).
    apply (IH _ _ _ _ _ (lo + 1)%N (N.max hi (lo + 1))) in Hrec as (LB & UB); [|exact S3|exact S4| | |lia].
    - rewrite spot_add_singles, ppot_add_pairs, !rev_length in LB, UB.
      replace (Z.of_N (lo + 1)) with (Z.of_N lo + 1) in * by lia.
      rewrite (Z.pow_add_r 2 (Z.of_N lo) 1) in * by lia. change (2 ^ 1) with 2 in *.
      set (P := 2 ^ Z.of_N lo) in *. assert (0 < P) as HP by (apply pow2N_pos).
      set (a := Z.of_nat (length now)) in *. set (b := Z.of_nat (length nowp)) in *.
      set (u := Z.of_nat (length ns)) in *. set (v := Z.of_nat (length nx)) in *.
      assert (2 * (u + 2 * v) <= a + 2 * b <= 2 * (u + 2 * v) + 1) as HC by (unfold a, b, u, v; lia).
      cbn [length]. split.
      + replace (Z.of_N lo + Z.of_nat (S (length rs))) with (Z.of_N lo + 1 + Z.of_nat (length rs)) by lia.
        nia.
      + intros B HB Hpot.
        assert (Z.of_N lo + 1 <= B) as HB1.
        { destruct (Z_lt_le_dec B (Z.of_N lo + 1)) as [Hlt|]; [|assumption]. exfalso.
          assert (B = Z.of_N lo) by lia. subst B. fold P in Hpot. lia. }
        specialize (UB B HB1). replace (Z.of_N lo + Z.of_nat (S (length rs))) with (Z.of_N lo + 1 + Z.of_nat (length rs)) by lia.
        apply UB. nia.
    - split.
      + intros x Hx. apply add_singles_In in Hx as [Hx|(l & _ & ->)]; [|simpl; lia].
        unfold lb in Brest. rewrite Forall_forall in Brest. pose proof (Brest _ Hx). apply T1, Hin1 in Hx. lia.
      + intros q Hq. apply add_pairs_In in Hq as [Hq|Hq]; [|lia].
        unfold lb in Bprest. rewrite Forall_forall in Bprest. pose proof (Bprest _ Hq). apply T3, Hin2 in Hq. lia.
    - intros l Hl. destruct (Hcov l) as (x & Hx); [lia|]. exists x. apply add_singles_In. left.
      apply T2; [exact Hx|simpl; lia]. }
  destruct single as [|a single'], pairs as [|p pairs'].
  - apply run_ret_inv in H as (-> & _).
    cbn [length spot ppot fold_right]. change (Z.of_nat 0) with 0. rewrite !Z.add_0_r. split; [lia|]. intros; lia.
  - apply Hstep; [right; discriminate|exact H].
  - apply Hstep; [left; discriminate|exact H].
  - apply Hstep; [left; discriminate|exact H].
Qed.

Lemma weighted_count fresh inp s res s' hi :
  run fresh (add_sum_n_weighted_bits (BEnum XAIG) inp) s = Ok (res, s') ->
  (forall x, In x inp -> (fst x <= hi)%N) -> covered 0 hi inp ->
  spot inp <= 2 ^ Z.of_nat (length res) - 1 /\
  forall B, 0 <= B -> spot inp < 2 ^ B -> Z.of_nat (length res) <= B.
Proof.
  intros H Hb Hc. unfold add_sum_n_weighted_bits in H.
  apply run_bind_inv in H as (b & s0 & Hb0 & H). apply ret_res_inv in Hb0 as (Hb0 & ->).
  simpl in Hb0. injection Hb0 as <-.
  apply run_bind_inv in H as (inf & s0 & Hi & H). apply run_w_inf in Hi as (_ & ->).
  eapply eff_loop_count with (lo := 0%N) (hi := hi) in H as (LB & UB); [| |constructor| | |lia].
  - rewrite spot_sl_of_list in LB, UB. change (Z.of_N 0) with 0 in *. cbn [ppot fold_right] in *.
    rewrite Z.pow_0_r in LB. rewrite !Z.add_0_l, ?Z.add_0_r in *. split; [lia|]. intros B HB Hp. apply UB; lia.
  - apply sl_of_list_sorted; [apply witem_ltb_true|apply witem_ltb_false].
  - split; [|intros p []]. intros x Hx. apply sl_of_list_In in Hx. apply Hb in Hx. lia.
  - intros l Hl. destruct (Hc l Hl) as (x & Hx). exists x. apply sl_of_list_In, Hx.
Qed.

(* ---- the potential of the partial-product matrix --------------------------------------------------------------------- *)
Lemma spot_app a b : spot (a ++ b) = spot a + spot b.
Proof. unfold spot. induction a as [|x a IH]; simpl; [lia|]. rewrite IH. lia. Qed.

Lemma spot_row_weights row : forall lev, spot (row_weights lev row) = 2 ^ Z.of_N lev * (2 ^ Z.of_nat (length row) - 1).
Proof.
  induction row as [|x row IH]; intros lev; [simpl; lia|].
  cbn [row_weights spot fold_right fst length]. fold (spot (row_weights (N.succ lev) row)). rewrite IH.
  rewrite N2Z.inj_succ, Z.pow_succ_r, pow2_succ by lia. lia.
Qed.

Lemma spot_matrix_weights n c : Forall (fun row : list label => length row = n) c -> forall lev,
  spot (matrix_weights lev c) = 2 ^ Z.of_N lev * (2 ^ Z.of_nat n - 1) * (2 ^ Z.of_nat (length c) - 1).
Proof.
  induction 1 as [|row c Lr _ IH]; intros lev; [simpl; lia|].
  cbn [matrix_weights length]. rewrite spot_app, spot_row_weights, IH, Lr.
  rewrite N2Z.inj_succ, Z.pow_succ_r, pow2_succ by lia. lia.
Qed.

Theorem add_mul_length fresh xs ys be s rs s' :
  run fresh (add_mul xs ys be) s = Ok (rs, s') -> length rs = mul_len (length xs) (length ys).
Proof.
  intros H. unfold add_mul in H.
  apply run_bind_inv in H as (cm & s1 & Hpp & H). apply run_bind_inv in H as (out & s2 & Hw & H).
  apply run_ret_inv in H as (-> & ->). rewrite rev_if_length, map_length.
  apply pp_matrix_spec in Hpp as (_ & _ & L1 & F1 & _). rewrite rev_if_length in L1, F1.
  set (n := length xs) in *. set (m := length ys) in *.
  (* both operands are non-empty, or the weighted sum raises *)
  assert (1 <= m)%nat as Hm.
  { destruct cm as [|r0 cm']; [|simpl in L1; lia]. unfold add_sum_n_weighted_bits in Hw. simpl in Hw. discriminate. }
  assert (1 <= n)%nat as Hn.
  { destruct n as [|n']; [|lia]. exfalso.
    assert (matrix_weights 0 cm = []) as E0.
    { clear -F1. generalize 0%N. induction cm as [|row cm IH]; intros lev; [reflexivity|].
      inversion F1 as [|? ? Lr Fc]; subst. destruct row; [|discriminate]. simpl. apply IH, Fc. }
    rewrite E0 in Hw. unfold add_sum_n_weighted_bits in Hw. simpl in Hw. discriminate. }
  eapply weighted_count with (hi := N.of_nat (length cm + n - 1)) in Hw as (LB & UB).
  2:{ intros x Hxin. apply (matrix_weights_bound _ _ _ _ F1) in Hxin. lia. }
  2:{ intros l Hl. apply (matrix_weights_cover n); [|exact F1|exact Hn|lia]. intros ->. simpl in L1. lia. }
  rewrite (spot_matrix_weights n cm F1), L1 in LB, UB. change (Z.of_N 0) with 0 in *. rewrite Z.pow_0_r, Z.mul_1_l in *.
  set (X := 2 ^ Z.of_nat n) in *. set (Y := 2 ^ Z.of_nat m) in *.
  assert (2 <= X) as HX.
  { unfold X. replace n with (S (n - 1)) by lia. rewrite pow2_succ. pose proof (pow2_pos (n - 1)). lia. }
  assert (2 <= Y) as HY.
  { unfold Y. replace m with (S (m - 1)) by lia. rewrite pow2_succ. pose proof (pow2_pos (m - 1)). lia. }
  unfold mul_len.
  destruct (n =? 1)%nat eqn:En; [|destruct (m =? 1)%nat eqn:Em]; cbn [orb]; cbv iota.
  - apply Nat.eqb_eq in En. assert (X = 2) as EX by (unfold X; rewrite En; reflexivity). rewrite EX in *.
    replace (n + m - 1)%nat with m by lia.
    assert (Z.of_nat (length out) <= Z.of_nat m) as U by (apply UB; [lia|fold Y; lia]).
    assert (Z.of_nat m <= Z.of_nat (length out)) as Lw.
    { destruct (Z_lt_le_dec (Z.of_nat (length out)) (Z.of_nat m)) as [Hlt|]; [|assumption]. exfalso.
      assert (2 ^ Z.of_nat (length out) <= 2 ^ (Z.of_nat m - 1)) by (apply Z.pow_le_mono_r; lia).
      assert (2 * 2 ^ (Z.of_nat m - 1) = Y) as EY.
      { unfold Y. rewrite <- Z.pow_succ_r by lia. f_equal. lia. }
      lia. }
    apply Nat.le_antisymm; apply Nat2Z.inj_le; assumption.
  - apply Nat.eqb_eq in Em. assert (Y = 2) as EY by (unfold Y; rewrite Em; reflexivity). rewrite EY in *.
    replace (n + m - 1)%nat with n by lia.
    assert (Z.of_nat (length out) <= Z.of_nat n) as U by (apply UB; [lia|fold X; lia]).
    assert (Z.of_nat n <= Z.of_nat (length out)) as Lw.
    { destruct (Z_lt_le_dec (Z.of_nat (length out)) (Z.of_nat n)) as [Hlt|]; [|assumption]. exfalso.
      assert (2 ^ Z.of_nat (length out) <= 2 ^ (Z.of_nat n - 1)) by (apply Z.pow_le_mono_r; lia).
      assert (2 * 2 ^ (Z.of_nat n - 1) = X) as EX.
      { unfold X. rewrite <- Z.pow_succ_r by lia. f_equal. lia. }
      lia. }
    apply Nat.le_antisymm; apply Nat2Z.inj_le; assumption.
  - apply Nat.eqb_neq in En. apply Nat.eqb_neq in Em.
    assert (4 <= X) as HX4.
    { unfold X. replace n with (S (S (n - 2))) by lia. rewrite !pow2_succ. pose proof (pow2_pos (n - 2)). lia. }
    assert (4 <= Y) as HY4.
    { unfold Y. replace m with (S (S (m - 2))) by lia. rewrite !pow2_succ. pose proof (pow2_pos (m - 2)). lia. }
    assert (2 ^ Z.of_nat (n + m) = X * Y) as EXY by (unfold X, Y; apply pow2_add).
    assert (Z.of_nat (length out) <= Z.of_nat (n + m)) as U by (apply UB; [lia|rewrite EXY; nia]).
    assert (Z.of_nat (n + m) <= Z.of_nat (length out)) as Lw.
    { destruct (Z_lt_le_dec (Z.of_nat (length out)) (Z.of_nat (n + m))) as [Hlt|]; [|assumption]. exfalso.
      assert (2 ^ Z.of_nat (length out) <= 2 ^ (Z.of_nat (n + m) - 1)) by (apply Z.pow_le_mono_r; lia).
      assert (2 * 2 ^ (Z.of_nat (n + m) - 1) = X * Y) as E2.
      { rewrite <- EXY, <- Z.pow_succ_r by lia. f_equal. lia. }
      nia. }
    apply Nat.le_antisymm; apply Nat2Z.inj_le; assumption.
Qed.
