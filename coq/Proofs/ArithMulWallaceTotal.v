(* C08, add_mul_wallace: (1) it returns Ok for all operand widths >= 1 when the operands exist, the
   fresh-label loop succeeds and '_PLACEHOLDER_STR_' neither is a gate of the host nor is handed out by
   the uuid counter; (2) the result has EXACTLY mul_len n m labels.

   (2) combines the shape theorem (ArithMulWallaceShape.v: the length is a function wallace_len n m of
   the widths) with one witness run per width pair: on the host with a single input "a", operands
   a a ... a and the assignment a = 1 the product is (2^n - 1)(2^m - 1) >= 2^(n + m - 1), which needs
   n + m result bits; so wallace_len n m = n + m. *)
Require Import Cirbo.Model.Base Cirbo.Model.Gate Cirbo.Model.Den Cirbo.Model.Circuit
  Cirbo.Model.Eval Cirbo.Model.Sem Cirbo.Model.Builder.
Require Import Cirbo.Generated.ArithTables Cirbo.Generated.ArithCells.
Require Import Cirbo.Model.ArithSub Cirbo.Model.ArithSum2 Cirbo.Model.ArithSumN Cirbo.Model.ArithSumW
  Cirbo.Model.ArithMul.
Require Import Cirbo.Proofs.DictFacts Cirbo.Proofs.BuilderFacts Cirbo.Proofs.ArithFacts
  Cirbo.Proofs.TotalFacts Cirbo.Proofs.ArithTotalFacts Cirbo.Proofs.FreshOnly
  Cirbo.Proofs.ArithMulFacts Cirbo.Proofs.ArithMulDiag Cirbo.Proofs.ArithMulDadda Cirbo.Proofs.ArithMulPow2
  Cirbo.Proofs.ArithMulWallace Cirbo.Proofs.ArithMulTotal Cirbo.Proofs.ArithMulWallaceShape.
Require Import Coq.Logic.FinFun.

Definition cell_ok (c : circuit) (cl : cell) : Prop :=
  match cl with Some l => has_gate c l = true | None => True end.
Definition cells_exist (c : circuit) (r : list cell) : Prop := Forall (cell_ok c) r.
Definition cmat_exist (c : circuit) (rows : list (list cell)) : Prop := Forall (cells_exist c) rows.

Lemma cell_ok_ext c c' cl : ext c c' -> cell_ok c cl -> cell_ok c' cl.
Proof. intros X. destruct cl; simpl; [apply ext_has_gate, X|auto]. Qed.
Lemma cells_exist_ext c c' r : ext c c' -> cells_exist c r -> cells_exist c' r.
Proof. intros X H. eapply Forall_impl; [|exact H]. intros cl; apply cell_ok_ext, X. Qed.
Lemma cmat_exist_ext c c' rows : ext c c' -> cmat_exist c rows -> cmat_exist c' rows.
Proof. intros X H. eapply Forall_impl; [|exact H]. intros r; apply cells_exist_ext, X. Qed.
Lemma cell_of_ok c l : has_gate c l = true -> cell_ok c (cell_of l).
Proof. intros H. unfold cell_of. destruct (String.eqb l PLACEHOLDER_STR); simpl; auto. Qed.
Lemma cell_list_exist c x : cell_ok c x -> all_exist c (cell_list x).
Proof. destruct x; simpl; intros H; [constructor; [exact H|constructor]|constructor]. Qed.
Lemma cells_exist_removelast c r : cells_exist c r -> cells_exist c (removelast r).
Proof.
  unfold cells_exist. induction 1 as [|x l Hx Hl IH]; [constructor|]. destruct l as [|y l]; [constructor|].
  change (removelast (x :: y :: l)) with (x :: removelast (y :: l)). constructor; assumption.
Qed.
Lemma cells_exist_skipn c k r : cells_exist c r -> cells_exist c (skipn k r).
Proof. unfold cells_exist. intros H; revert k; induction H; intros [|k]; simpl; try constructor; auto. Qed.

(* rows after one round: every three rows become two *)
Fixpoint wr_cnt (k : nat) : nat := match k with S (S (S k')) => S (S (wr_cnt k')) | _ => k end.

Lemma wr_cnt_bounds k : (k <= 2 -> wr_cnt k = k)%nat /\ (3 <= k -> 2 <= wr_cnt k < k)%nat.
Proof.
  assert (forall k, ((k <= 2 -> wr_cnt k = k) /\ (3 <= k -> 2 <= wr_cnt k < k)) /\
                    ((S k <= 2 -> wr_cnt (S k) = S k) /\ (3 <= S k -> 2 <= wr_cnt (S k) < S k)) /\
                    ((S (S k) <= 2 -> wr_cnt (S (S k)) = S (S k)) /\ (3 <= S (S k) -> 2 <= wr_cnt (S (S k)) < S (S k))))%nat as H.
  { induction k0 as [|k0 (IH0 & IH1 & IH2)].
    - simpl. repeat split; intros; lia.
    - split; [exact IH1|]. split; [exact IH2|]. split; [intros; lia|]. intros _.
      change (wr_cnt (S (S (S k0)))) with (S (S (wr_cnt k0))). destruct IH0 as (A & B).
      destruct (Nat.le_gt_cases k0 2) as [Hk|Hk]; [rewrite (A Hk); lia|specialize (B Hk); lia]. }
  apply H.
Qed.

Lemma trim_fill_exist c z : forall r, cells_exist c r -> (has_gap r = true -> has_gate c z = true) ->
  all_exist c (trim_fill z r).
Proof.
  induction r as [|cl r IH]; intros Hr Hz; [constructor|]. cbn [trim_fill]. cbn [has_gap] in Hz.
  destruct (all_none (cl :: r)); [constructor|].
  inversion Hr as [|? ? Hcl Hr']; subst. destruct cl as [l|]; (constructor; [|apply IH; auto]).
  - exact Hcl.
  - apply Hz. reflexivity.
Qed.

Lemma leading_none_cases (r : list cell) :
  (skipn (leading_none r) r = [] /\ leading_none r = length r) \/
  exists l t, skipn (leading_none r) r = Some l :: t.
Proof.
  induction r as [|[l|] r IH]; [left; split; reflexivity|right; exists l, r; reflexivity|].
  cbn [leading_none skipn length]. destruct IH as [(E & L)|(l0 & t & E)]; [left; split; [exact E|congruence]|right; eauto].
Qed.

Lemma trim_fill_le z : forall r, (length (trim_fill z r) <= length r)%nat.
Proof. induction r as [|cl r IH]; [simpl; lia|]. cbn [trim_fill]. destruct (all_none (cl :: r)); simpl; lia. Qed.

Definition head_some (rows : list (list cell)) : Prop := exists l t rest, rows = (Some l :: t) :: rest.

Section WallaceTotal.
  Variable fresh : N -> label.
  Hypothesis Hf : fresh_total fresh.
  Hypothesis HPf : forall j, fresh j <> PLACEHOLDER_STR.

  Ltac finish := cbn [run]; eexists _, _; split; [reflexivity|].

  Lemma noP_run {A} (p : prog A) s r s' : fo p -> run fresh p s = Ok (r, s') -> noP (bc s) -> noP (bc s').
  Proof. intros Hp H H0. exact (fo_absent fresh p _ _ _ _ Hp H HPf H0). Qed.

  Lemma sum_small_ok inp s : (1 <= length inp <= 3)%nat -> all_exist (bc s) inp ->
    exists res s', run fresh (add_sum_n_bits (BEnum XAIG) false inp) s = Ok (res, s') /\
      all_exist (bc s') res /\ (length res = 1 \/ length res = 2)%nat.
  Proof.
    intros L A. destruct inp as [|x [|y [|z [|w inp']]]]; simpl in L; try lia.
    - exists [x], s. split; [reflexivity|]. split; [exact A|left; reflexivity].
    - inversion A as [|? ? Hx A1]; subst. inversion A1 as [|? ? Hy _]; subst.
      destruct (gate_tt_ok fresh tt_xor y x s Hf Hy Hx) as (xy & s1 & E1 & G1).
      assert (has_gate (bc s1) y = true) as Hy1 by has_solve.
      destruct (gate_tt_ok fresh tt_gt y xy s1 Hf Hy1 G1) as (g & s2 & E2 & G2).
      exists [xy; g], s2. split; [exact (sum_n_2 _ _ _ _ _ _ _ _ E1 E2)|]. split; [|right; reflexivity].
      constructor; [has_solve|constructor; [exact G2|constructor]].
    - inversion A as [|? ? Hx A1]; subst. inversion A1 as [|? ? Hy A2]; subst. inversion A2 as [|? ? Hz _]; subst.
      destruct (gate_tt_ok fresh tt_xor z y s Hf Hz Hy) as (xy & s1 & E1 & G1).
      destruct (add_stockmeyer_block_ok fresh Hf x z xy s1) as (st & s2 & E2 & d & b & -> & Hd & Hb); try has_solve.
      exists [d; b], s2. split; [exact (sum_n_3 _ _ _ _ _ _ _ _ _ E1 E2)|]. split; [|right; reflexivity].
      constructor; [exact Hd|constructor; [exact Hb|constructor]].
  Qed.

  Definition col_prog (x y z : cell) : prog (cell * cell) :=
    match cell_list x ++ cell_list y ++ cell_list z with
    | [] => Ret (None, None)
    | inp =>
      bdo res <- add_sum_n_bits (BEnum XAIG) false inp;
      match res with
      | [s0] => Ret (cell_of s0, None)
      | [s0; cy] => Ret (cell_of s0, cell_of cy)
      | _ => Fail PyIndexError
      end
    end.

  Lemma col_ok x y z s : cell_ok (bc s) x -> cell_ok (bc s) y -> cell_ok (bc s) z ->
    exists sc s1, run fresh (col_prog x y z) s = Ok (sc, s1) /\
      cell_ok (bc s1) (fst sc) /\ cell_ok (bc s1) (snd sc) /\
      (noP (bc s) -> is_some x = true -> is_some (fst sc) = true).
  Proof.
    intros Hx Hy Hz. unfold col_prog.
    assert (all_exist (bc s) (cell_list x ++ cell_list y ++ cell_list z)) as A
      by (repeat apply all_exist_app; apply cell_list_exist; assumption).
    assert (length (cell_list x ++ cell_list y ++ cell_list z) <= 3)%nat as L
      by (rewrite !app_length; destruct x, y, z; simpl; lia).
    assert (is_some x = true -> cell_list x ++ cell_list y ++ cell_list z <> []) as Hne
      by (destruct x; simpl; [discriminate|discriminate]).
    destruct (cell_list x ++ cell_list y ++ cell_list z) as [|i0 inp'] eqn:Einp.
    - finish. cbn [fst snd]. repeat split. intros _ Hs. exfalso. apply (Hne Hs). reflexivity.
    - destruct (sum_small_ok (i0 :: inp') s) as (res & s1 & E1 & Ares & Lres); [simpl in *; lia|exact A|].
      rewrite (bind_ok _ _ _ _ _ _ E1).
      assert (noP (bc s) -> forall l, has_gate (bc s1) l = true -> is_some (cell_of l) = true) as Hs.
      { intros HP l Hl. rewrite (cell_of_gate (bc s1) l); [reflexivity| |exact Hl].
        eapply noP_run; [|exact E1|exact HP]. auto with fo. }
      destruct res as [|s0 [|cy [|? ?]]]; simpl in Lres; try lia.
      + inversion Ares; subst. finish. cbn [fst snd]. split; [apply cell_of_ok; assumption|]. split; [exact I|].
        intros HP _. apply Hs; assumption.
      + inversion Ares as [|? ? H0 A1]; subst. inversion A1; subst. finish. cbn [fst snd].
        split; [apply cell_of_ok; assumption|]. split; [apply cell_of_ok; assumption|].
        intros HP _. apply Hs; assumption.
  Qed.

  Lemma wallace_group_unfold x ra y rb z rc :
    wallace_group (x :: ra) (y :: rb) (z :: rc) =
    bdo sc <- col_prog x y z; bdo rest <- wallace_group ra rb rc; Ret (fst sc :: fst rest, snd sc :: snd rest).
  Proof. reflexivity. Qed.

  Lemma wallace_group_ok : forall ra rb rc s,
    cells_exist (bc s) ra -> cells_exist (bc s) rb -> cells_exist (bc s) rc ->
    exists r s', run fresh (wallace_group ra rb rc) s = Ok (r, s') /\
      cells_exist (bc s') (fst r) /\ cells_exist (bc s') (snd r) /\
      (noP (bc s) -> forall l t, ra = Some l :: t -> rb <> [] -> rc <> [] -> exists l' t', fst r = Some l' :: t').
  Proof.
    induction ra as [|x ra IH]; intros rb rc s Ha Hb Hc.
    { cbn [wallace_group]. finish. cbn [fst snd]. repeat split; try constructor. intros; discriminate. }
    destruct rb as [|y rb].
    { cbn [wallace_group]. finish. cbn [fst snd]. repeat split; try constructor. intros; contradiction. }
    destruct rc as [|z rc].
    { cbn [wallace_group]. finish. cbn [fst snd]. repeat split; try constructor. intros; contradiction. }
    rewrite wallace_group_unfold.
    inversion Ha as [|? ? Hx Ha']; subst. inversion Hb as [|? ? Hy Hb']; subst. inversion Hc as [|? ? Hz Hc']; subst.
    destruct (col_ok x y z s Hx Hy Hz) as (sc & s1 & E1 & C1 & C2 & Hh).
    rewrite (bind_ok _ _ _ _ _ _ E1). pose proof (run_ext _ _ _ _ _ E1) as X1.
    destruct (IH rb rc s1) as (rest & s2 & E2 & R1 & R2 & _); try (eapply cells_exist_ext; eassumption).
    rewrite (bind_ok _ _ _ _ _ _ E2). pose proof (run_ext _ _ _ _ _ E2) as X2. finish. cbn [fst snd].
    split; [constructor; [eapply cell_ok_ext; eassumption|exact R1]|].
    split; [constructor; [eapply cell_ok_ext; eassumption|exact R2]|].
    intros HP l t E _ _. injection E as -> ->. specialize (Hh HP eq_refl).
    destruct (fst sc) as [l'|]; [eauto|discriminate].
  Qed.

  Lemma wallace_round_ok N : (1 <= N)%nat -> forall k rows s,
    (length rows <= k)%nat -> cmat_exist (bc s) rows -> rows_of_width N rows ->
    exists rows' s', run fresh (wallace_round rows) s = Ok (rows', s') /\
      cmat_exist (bc s') rows' /\ length rows' = wr_cnt (length rows) /\
      (noP (bc s) -> head_some rows -> head_some rows').
  Proof.
    intros HN. induction k as [|k IH]; intros rows s Hk A W.
    { destruct rows; [|simpl in Hk; lia]. cbn [wallace_round]. finish. repeat split; auto. }
    destruct rows as [|ra [|rb [|rc rest]]]; try (cbn [wallace_round]; finish; repeat split; auto; fail).
    cbn [wallace_round].
    inversion A as [|? ? Aa A1]; subst. inversion A1 as [|? ? Ab A2]; subst. inversion A2 as [|? ? Ac A3]; subst.
    pose proof (Forall_inv W) as Wa. pose proof (Forall_inv_tail W) as W1. pose proof (Forall_inv W1) as Wb.
    pose proof (Forall_inv_tail W1) as W2. pose proof (Forall_inv W2) as Wc. pose proof (Forall_inv_tail W2) as W3.
    cbv beta in Wa, Wb, Wc.
    destruct (wallace_group_ok ra rb rc s Aa Ab Ac) as ([S C] & s1 & E1 & AS & AC & Hh).
    rewrite (bind_ok _ _ _ _ _ _ E1). pose proof (run_ext _ _ _ _ _ E1) as X1. cbn [fst snd] in *.
    destruct (IH rest s1) as (t & s2 & E2 & At & Lt & _);
      [simpl in Hk; lia|eapply cmat_exist_ext; eassumption|exact W3|].
    rewrite (bind_ok _ _ _ _ _ _ E2). pose proof (run_ext _ _ _ _ _ E2) as X2. finish.
    split.
    { constructor; [eapply cells_exist_ext; eassumption|]. constructor; [|exact At].
      constructor; [exact I|]. apply cells_exist_removelast. eapply cells_exist_ext; eassumption. }
    split; [simpl; rewrite Lt; reflexivity|].
    intros HP (l & t0 & rest0 & E). injection E as -> _.
    destruct (Hh HP l t0 eq_refl) as (l' & t' & ->).
    - intros ->. simpl in Wb. simpl in Wa. lia.
    - intros ->. simpl in Wc. simpl in Wa. lia.
    - exists l', t', ((None :: removelast C) :: t). reflexivity.
  Qed.

  Lemma wallace_loop_ok N : (1 <= N)%nat -> forall fuel rows s,
    (2 <= length rows <= fuel + 2)%nat -> cmat_exist (bc s) rows -> rows_of_width N rows ->
    noP (bc s) -> head_some rows ->
    exists rows' s', run fresh (wallace_loop fuel rows) s = Ok (rows', s') /\
      cmat_exist (bc s') rows' /\ head_some rows'.
  Proof.
    intros HN. induction fuel as [|f IH]; intros rows s L A W HP Hh; cbn [wallace_loop];
      destruct (length rows =? 2)%nat eqn:E2.
    1,3: finish; split; assumption.
    { apply Nat.eqb_neq in E2. lia. }
    apply Nat.eqb_neq in E2.
    destruct (wallace_round_ok N HN (length rows) rows s (le_n _) A W) as (r1 & s1 & E1 & A1 & L1 & H1).
    rewrite (bind_ok _ _ _ _ _ _ E1).
    pose proof (wr_cnt_bounds (length rows)) as (_ & B). specialize (B ltac:(lia)).
    pose proof E1 as E1'. apply (wallace_round_spec fresh N HN (length rows)) in E1' as (_ & _ & W1 & _); [|lia|exact W].
    apply IH; [lia|exact A1|exact W1| |apply H1; assumption].
    eapply noP_run; [|exact E1|exact HP]. auto with fo.
  Qed.

  Lemma wallace_final_ok a r0 r1 s :
    a <> [] -> all_exist (bc s) a -> cells_exist (bc s) r0 -> cells_exist (bc s) r1 ->
    exists z s', run fresh (wallace_final a r0 r1) s
                 = Ok ((leading_none r1, trim_fill z r0, trim_fill z (skipn (leading_none r1) r1)), s') /\
      all_exist (bc s') (trim_fill z r0) /\ all_exist (bc s') (trim_fill z (skipn (leading_none r1) r1)).
  Proof.
    intros Ha Aa A0 A1. unfold wallace_final.
    set (gap := has_gap r0 || has_gap (skipn (leading_none r1) r1)).
    assert (exists z s1, run fresh (if gap then bdo a0 <- nthP a 0; gate_tt tt_false a0 a0 else Ret PLACEHOLDER_STR) s
                         = Ok (z, s1) /\ (gap = true -> has_gate (bc s1) z = true)) as (z & s1 & E1 & Hz).
    { destruct gap.
      - destruct a as [|a0 a']; [contradiction|]. inversion Aa; subst.
        unfold nthP, nth_res. cbn [nth_error ret_res]. rewrite run_ret_bind.
        destruct (gate_tt_ok fresh tt_false a0 a0 s Hf) as (z & s1 & E1 & G1); try assumption.
        exists z, s1. split; [exact E1|intros _; exact G1].
      - exists PLACEHOLDER_STR, s. split; [reflexivity|discriminate]. }
    exists z, s1. rewrite (bind_ok _ _ _ _ _ _ E1). split; [reflexivity|].
    pose proof (run_ext _ _ _ _ _ E1) as X1.
    split; apply trim_fill_exist.
    - eapply cells_exist_ext; eassumption.
    - intros Hg. apply Hz. unfold gap. rewrite Hg. reflexivity.
    - apply cells_exist_skipn. eapply cells_exist_ext; eassumption.
    - intros Hg. apply Hz. unfold gap. rewrite Hg. apply orb_true_r.
  Qed.

  (* reading single cells *)
  Lemma mapP_pure_ok {A B} (f : A -> prog B) : forall l,
    (forall x, In x l -> exists y, forall s, run fresh (f x) s = Ok (y, s)) ->
    exists out, forall s, run fresh (mapP f l) s = Ok (out, s).
  Proof.
    induction l as [|x l IH]; intros H; cbn [mapP]; [exists []; reflexivity|].
    destruct (H x (or_introl eq_refl)) as (y & Hy). destruct IH as (ys & Hys); [intros; apply H; right; assumption|].
    exists (y :: ys). intros s. rewrite (bind_ok _ _ _ _ _ _ (Hy s)), (bind_ok _ _ _ _ _ _ (Hys s)). reflexivity.
  Qed.

  Lemma cell_at_ok N (rows : list (list cell)) r col :
    rows_of_width N rows -> (r < length rows)%nat -> (col < N)%nat ->
    exists y, forall s, run fresh (cell_at rows r col) s = Ok (y, s).
  Proof.
    intros W Hr Hc. unfold cell_at, nthP, nth_res.
    destruct (nth_error rows r) as [row|] eqn:Er; [|apply nth_error_None in Er; lia].
    assert (length row = N) as Lrow by (eapply Forall_forall in W; [exact W|eapply nth_error_In; exact Er]).
    destruct (nth_error row col) as [cl|] eqn:Ec; [|apply nth_error_None in Ec; lia].
    exists (cell_label cl). intros s. cbn [ret_res]. rewrite run_ret_bind, Ec. reflexivity.
  Qed.

  Lemma cells_exist_rows c m : forall cm i, mat_exist c cm -> cmat_exist c (wallace_rows i m cm).
  Proof.
    induction cm as [|row cm IH]; intros i H; cbn [wallace_rows]; [constructor|].
    inversion H as [|? ? Hrow H']; subst. constructor; [|apply IH, H'].
    apply Forall_app. split; [clear; induction i; simpl; constructor; [exact I|assumption]|].
    apply Forall_app. split; [|clear; induction (m - i)%nat; simpl; constructor; [exact I|assumption]].
    clear -Hrow. induction Hrow; simpl; constructor; [apply cell_of_ok; assumption|assumption].
  Qed.

  Theorem add_mul_wallace_total xs ys be s :
    xs <> [] -> ys <> [] -> all_exist (bc s) xs -> all_exist (bc s) ys -> noP (bc s) ->
    exists rs s', run fresh (add_mul_wallace xs ys be) s = Ok (rs, s').
  Proof.
    intros Hx Hy Ax Ay HP. unfold add_mul_wallace. rewrite !rev_if_length.
    destruct (pp_matrix_ok fresh Hf (rev_if be xs) (rev_if be ys) s) as (cm & s1 & E1 & Hcm);
      [apply all_exist_rev_if, Ax|apply all_exist_rev_if, Ay|].
    rewrite (bind_ok _ _ _ _ _ _ E1). pose proof (run_ext _ _ _ _ _ E1) as X1.
    assert (noP (bc s1)) as HP1 by (eapply noP_run; [|exact E1|exact HP]; auto with fo).
    pose proof (pp_matrix_has _ _ _ _ _ _ E1) as Hhas.
    apply pp_matrix_spec in E1 as (_ & _ & L1 & F1 & _). rewrite rev_if_length in L1, F1.
    set (n := length xs) in *. set (m := length ys) in *.
    assert (1 <= n)%nat as Hn by (unfold n; destruct xs; [contradiction|simpl; lia]).
    assert (1 <= m)%nat as Hm by (unfold m; destruct ys; [contradiction|simpl; lia]).
    set (rows := wallace_rows 0 m cm).
    assert (rows_of_width (n + m) rows) as W by (apply (wallace_rows_width n); [exact F1|lia]).
    assert (length rows = m) as Lrows by (unfold rows; rewrite wallace_rows_length; exact L1).
    destruct (n =? 1)%nat eqn:En.
    { apply Nat.eqb_eq in En.
      destruct (mapP_pure_ok (fun i => cell_at rows i i) (seq 0 m)) as (out & Ho).
      { intros i Hi. apply in_seq in Hi. apply (cell_at_ok (n + m)); [exact W|lia|lia]. }
      rewrite (bind_ok _ _ _ _ _ _ (Ho s1)). cbn [run]. eauto. }
    destruct (m =? 1)%nat eqn:Em.
    { apply Nat.eqb_eq in Em.
      destruct (mapP_pure_ok (fun i => cell_at rows 0 i) (seq 0 n)) as (out & Ho).
      { intros i Hi. apply in_seq in Hi. apply (cell_at_ok (n + m)); [exact W|lia|lia]. }
      rewrite (bind_ok _ _ _ _ _ _ (Ho s1)). cbn [run]. eauto. }
    apply Nat.eqb_neq in En, Em.
    destruct (n + m =? 0)%nat eqn:E0; [apply Nat.eqb_eq in E0; lia|].
    assert (head_some rows) as Hh.
    { unfold rows. destruct cm as [|[|x0 row0] cm']; [simpl in L1; lia|pose proof (Forall_inv F1) as L0; simpl in L0; lia|].
      cbn [wallace_rows repeat app map]. pose proof (Forall_inv (Forall_inv Hhas)) as H0. cbv beta in H0.
      rewrite (cell_of_gate (bc s1) x0 HP1 H0). eexists _, _, _. reflexivity. }
    destruct (wallace_loop_ok (n + m) ltac:(lia) (length rows) rows s1) as (rows' & s2 & E2 & A2 & Hh2);
      [lia|apply cells_exist_rows, Hcm|exact W|exact HP1|exact Hh|].
    rewrite (bind_ok _ _ _ _ _ _ E2). pose proof (run_ext _ _ _ _ _ E2) as X2.
    pose proof E2 as E2'. apply (wallace_loop_spec fresh (n + m) ltac:(lia)) in E2' as (_ & _ & W2 & L2 & _); [|exact W].
    destruct rows' as [|r0 [|r1 [|? ?]]]; try discriminate.
    inversion A2 as [|? ? A20 A2']; subst. inversion A2' as [|? ? A21 _]; subst.
    destruct (wallace_final_ok (rev_if be xs) r0 r1 s2) as (z & s3 & E3 & Ala & Alb); try assumption.
    { apply rev_if_nonempty, Hx. }
    { apply all_exist_rev_if. eapply all_exist_ext; [exact (ext_trans _ _ _ X1 X2)|exact Ax]. }
    rewrite (bind_ok _ _ _ _ _ _ E3).
    destruct (with_shift_ok fresh Hf (leading_none r1) (trim_fill z r0) (trim_fill z (skipn (leading_none r1) r1)) false s3)
      as (r & s4 & E4 & _); try assumption.
    { destruct Hh2 as (l & t & rest & E). injection E as -> _. simpl. discriminate. }
    { destruct (leading_none_cases r1) as [(Es & El)|(l & t & Es)]; rewrite Es.
      - right. rewrite El. pose proof (trim_fill_le z r0) as Hle.
        pose proof (Forall_inv W2) as L0. pose proof (Forall_inv (Forall_inv_tail W2)) as L1'. cbv beta in L0, L1'. lia.
      - left. simpl. discriminate. }
    rewrite (bind_ok _ _ _ _ _ _ E4). cbn [run]. eauto.
  Qed.
End WallaceTotal.

(* ---- the witness runs: wallace_len n m = n + m -------------------------------------------------------------------- *)
Definition one_host : circuit :=
  match circuit_with_inputs ["a"] with Ok c => c | Err _ => empty_circuit end.
Definition one_asg : assignment := [("a", T)].

Lemma one_host_val : bval one_host one_asg "a" true.
Proof.
  unfold bval. change (inj true) with (aval one_asg "a").
  eapply EvalInput with (g := mkGate INPUT []); reflexivity.
Qed.

Lemma short_label_noP j : short_label j <> PLACEHOLDER_STR.
Proof. destruct j; unfold short_label, PLACEHOLDER_STR; discriminate. Qed.

Lemma bits_val_ones n : bits_val (repeat true n) = (2 ^ Z.of_nat n - 1)%Z.
Proof.
  induction n as [|n IH]; [reflexivity|]. cbn [repeat]. rewrite bits_val_cons, IH, pow2_succ. simpl Z.b2z. lia.
Qed.

Theorem wallace_len_exact n m : (2 <= n)%nat -> (2 <= m)%nat -> wallace_len n m = (n + m)%nat.
Proof.
  intros Hn Hm.
  assert (has_gate one_host "a" = true) as Ha by reflexivity.
  assert (noP one_host) as HP0 by reflexivity.
  destruct (add_mul_wallace_total short_label short_label_total short_label_noP
              (repeat "a" n) (repeat "a" m) false (mkB one_host 0)) as (rs & s' & E).
  { destruct n; [lia|discriminate]. } { destruct m; [lia|discriminate]. }
  { apply all_exist_repeat, Ha. } { apply all_exist_repeat, Ha. } { exact HP0. }
  assert (noP (bc s')) as HP by (exact (fo_absent _ _ _ _ _ _ (fo_add_mul_wallace _ _ _) E short_label_noP HP0)).
  pose proof (wallace_length_shape _ _ _ _ _ _ _ E) as L. rewrite !repeat_length in L.
  specialize (L ltac:(lia) ltac:(lia) HP).
  apply add_mul_wallace_correct in E as (X & _ & _ & Lle & V). rewrite !repeat_length in Lle.
  destruct (V (bc s') (ext_refl _) HP one_asg (repeat true n) (repeat true m)) as (rv & Vrv & Erv).
  { apply bvals_repeat. eapply bval_ext; [exact X|exact one_host_val]. }
  { apply bvals_repeat. eapply bval_ext; [exact X|exact one_host_val]. }
  unfold decode, rev_if in Erv. rewrite !bits_val_ones in Erv.
  pose proof (bits_val_bound rv) as Hb. rewrite <- (bvals_length _ _ _ _ Vrv) in Hb.
  assert (mul_len n m = (n + m)%nat) as Eml.
  { unfold mul_len. destruct (n =? 1)%nat eqn:E1; [apply Nat.eqb_eq in E1; lia|].
    destruct (m =? 1)%nat eqn:E2; [apply Nat.eqb_eq in E2; lia|]. reflexivity. }
  rewrite Eml in Lle. rewrite <- L.
  destruct (Nat.le_gt_cases (n + m) (length rs)) as [Hge|Hlt]; [lia|]. exfalso.
  assert (2 ^ Z.of_nat (length rs) <= 2 ^ Z.of_nat (n + m - 1))%Z as Hpow by (apply Z.pow_le_mono_r; lia).
  assert (4 <= 2 ^ Z.of_nat n)%Z as H4n.
  { change 4%Z with (2 ^ Z.of_nat 2)%Z. apply Z.pow_le_mono_r; lia. }
  assert (4 <= 2 ^ Z.of_nat m)%Z as H4m.
  { change 4%Z with (2 ^ Z.of_nat 2)%Z. apply Z.pow_le_mono_r; lia. }
  assert (2 * 2 ^ Z.of_nat (n + m - 1) = 2 ^ Z.of_nat n * 2 ^ Z.of_nat m)%Z as Esplit.
  { rewrite <- pow2_succ, <- pow2_add. f_equal. lia. }
  nia.
Qed.

(* ---- the exact number of result bits of every successful run ------------------------------------------------------ *)
Theorem add_mul_wallace_length fresh xs ys be s rs s' :
  run fresh (add_mul_wallace xs ys be) s = Ok (rs, s') -> noP (bc s') -> (1 <= length xs)%nat ->
  length rs = mul_len (length xs) (length ys).
Proof.
  intros H HP Hn. unfold mul_len.
  destruct (length xs =? 1)%nat eqn:En; [|destruct (length ys =? 1)%nat eqn:Em]; cbn [orb].
  - unfold add_mul_wallace in H. rewrite !rev_if_length, En in H.
    apply run_bind_inv in H as (cm & s1 & _ & H). apply run_bind_inv in H as (out & s2 & Ho & H).
    apply run_ret_inv in H as (-> & _). apply mapP_length in Ho. rewrite seq_length in Ho.
    rewrite rev_if_length, Ho. apply Nat.eqb_eq in En. lia.
  - unfold add_mul_wallace in H. rewrite !rev_if_length, En, Em in H.
    apply run_bind_inv in H as (cm & s1 & _ & H). apply run_bind_inv in H as (out & s2 & Ho & H).
    apply run_ret_inv in H as (-> & _). apply mapP_length in Ho. rewrite seq_length in Ho.
    rewrite rev_if_length, Ho. apply Nat.eqb_eq in Em. lia.
  - apply Nat.eqb_neq in En, Em.
    rewrite (wallace_length_shape _ _ _ _ _ _ _ H En Em HP).
    destruct (length ys) as [|[|m']] eqn:Ly; [|lia|apply wallace_len_exact; lia].
    (* no rows: the reduction loop cannot reach two rows *)
    exfalso. unfold add_mul_wallace in H. rewrite !rev_if_length, Ly in H.
    apply run_bind_inv in H as (cm & s1 & Hpp & H).
    apply pp_matrix_spec in Hpp as (_ & _ & L1 & _). rewrite rev_if_length, Ly in L1.
    destruct cm; [|discriminate]. apply Nat.eqb_neq in En. rewrite En in H. cbn [Nat.eqb] in H.
    destruct (length xs + 0 =? 0)%nat; [discriminate|]. cbn in H. discriminate.
Qed.
