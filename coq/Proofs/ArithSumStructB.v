(* C07 structural facts by kernel computation, B: the AIG bit counter, add_sum_n_bits_easy and
   add_sum_pow2_m1 in both bases for every n <= 40: they return Ok (fuel suffices), m = number of
   binary digits of n, result labels pairwise distinct; add_sum_pow2_m1 returns one bit on level 0
   and adds only gates of the basis.  (Values, basis sets and gate-count bounds of these are
   proved for all n.) *)
Require Import Cirbo.Model.Base Cirbo.Model.Gate Cirbo.Model.Circuit Cirbo.Model.Builder.
Require Import Cirbo.Model.ArithSumN Cirbo.Model.ArithSumW Cirbo.Model.SumCases.
Require Import Cirbo.Proofs.ArithSumCells Cirbo.Proofs.ArithSumStruct.

Theorem bit_counters_struct_upto40 :
  forallb (fun n => nbits_struct_ok AIG n && easy_struct_ok n
                    && pow2_struct_ok XAIG n && pow2_struct_ok AIG n) (seq 1 40) = true.
Proof. vm_cast_no_check (@eq_refl bool true). Qed.
